/-
C02 layer (c) and the stream level: header steps, metadata and uncompressed
meta-blocks of the brotli.Reader model against the specification, and the
induction over the meta-blocks of a stream (compressed meta-blocks: hypothesis
`CompressedSim`).
-/
import Compress.Proofs.BrImplStreamDefs2
import Compress.Proofs.FlateStep
import Compress.Proofs.BrCutCore

namespace Compress.Proofs.BrImpl
open Compress Compress.Brotli Compress.Brotli.Impl Compress.Window Compress.Proofs.Window

/-! ### the step functions, unfolded -/

theorem finishStream_eq (s : State) :
    finishStream s =
      if Bits.toNat (s.rd.bits.take ((8 - s.rd.used % 8) % 8)) > 0 then
        (.error .corrupted, { s with rd := (readPads s.rd).2 })
      else (.error .eof, { s with rd := (readPads s.rd).2 }) := by
  unfold finishStream
  simp only [bind, S.bind, liftR, readPads_eq, spanic]
  split <;> rfl

theorem readBlockHeader_last (s : State) (h : s.last = true) : readBlockHeader s = finishStream s := by
  unfold readBlockHeader
  simp only [bind, S.bind, getS, h, if_true]

theorem readBlockHeader_notlast (s : State) (h : s.last = false) :
    readBlockHeader s =
      match readHdr s.rd with
      | (.error e, r) => (.error e, { s with rd := r })
      | (.ok .lastEmpty, r) => finishStream { s with rd := r, last := true }
      | (.ok (.metadata last skipLen), r) =>
        if Bits.toNat (r.bits.take ((8 - r.used % 8) % 8)) > 0 then
          (.error .corrupted, { s with rd := (readPads r).2, last := last })
        else readMetaData { s with rd := (readPads r).2, last := last, blkLen := skipLen }
      | (.ok (.data last blkLen true), r) =>
        if Bits.toNat (r.bits.take ((8 - r.used % 8) % 8)) > 0 then
          (.error .corrupted, { s with rd := (readPads r).2, last := last, blkLen := blkLen })
        else readRawData { s with rd := (readPads r).2, last := last, blkLen := blkLen }
      | (.ok (.data last blkLen false), r) =>
        readPrefixCodes { s with rd := r, last := last, blkLen := blkLen } := by
  unfold readBlockHeader
  simp only [bind, S.bind, getS, h, Bool.false_eq_true, if_false, liftR]
  rcases readHdr s.rd with ⟨e | hd, r⟩
  · rfl
  · cases hd with
    | lastEmpty => rfl
    | metadata last skipLen =>
      simp only [S.bind, modS, liftR, readPads_eq, spanic]
      split <;> rfl
    | data last blkLen unc =>
      cases unc with
      | true =>
        simp only [S.bind, modS, liftR, readPads_eq, spanic, if_true]
        split <;> rfl
      | false => simp only [S.bind, modS, Bool.false_eq_true, if_false]

/-! ### `skipBytes` and `copyBytes` of the specification in closed form -/

open Compress.Proofs.FlateRefine (toBytes_append8 toBytes_take_length) in
theorem skipBytes_take : ∀ (k n : Nat) (st : St), 8 * k ≤ st.bits.length →
    skipBytes (k + n) st = skipBytes n (stAt st (8 * k)) := by
  intro k
  induction k with
  | zero => intro n st _; simp [stAt_zero]
  | succ k ih =>
    intro n st h
    have e : k + 1 + n = (k + n) + 1 := by omega
    rw [e, skipBytes, Dec_bind_apply, (specReadBits_eq 8 st).1 (by omega)]
    dsimp only
    rw [ih n _ (by simp only [stAt_bits, List.length_drop]; omega), stAt_stAt]
    congr 2; omega

theorem skipBytes_ok (n : Nat) (st : St) (h : 8 * n ≤ st.bits.length) :
    skipBytes n st = (.ok (), stAt st (8 * n)) := by
  have := skipBytes_take n 0 st h
  rw [Nat.add_zero] at this
  rw [this]; rfl

theorem skipBytes_short (n : Nat) (st : St) (h : st.bits.length / 8 < n) :
    ∃ st', skipBytes n st = (.error .unexpectedEOF, st') ∧ st'.out = st.out := by
  obtain ⟨m, rfl⟩ : ∃ m, n = st.bits.length / 8 + (m + 1) := ⟨n - st.bits.length / 8 - 1, by omega⟩
  rw [skipBytes_take _ _ _ (by omega), skipBytes, Dec_bind_apply]
  obtain ⟨st', h1, h2⟩ := (specReadBits_eq 8 (stAt st (8 * (st.bits.length / 8)))).2
    (by simp only [stAt_bits, List.length_drop]; omega)
  rw [h1]
  exact ⟨st', rfl, by rw [h2]; rfl⟩

/-- the state after `k` more bytes have been copied to the output. -/
def stCopy (st : St) (k : Nat) : St :=
  { bits := st.bits.drop (8 * k), used := st.used + 8 * k,
    out := st.out ++ (Bits.toBytes (st.bits.take (8 * k))).toArray }

open Compress.Proofs.FlateRefine (toBytes_append8 toBytes_take_length) in
theorem copyBytes_take : ∀ (k n : Nat) (st : St), 8 * k ≤ st.bits.length →
    copyBytes (k + n) st = copyBytes n (stCopy st k) := by
  intro k
  induction k with
  | zero =>
    intro n st _
    have : stCopy st 0 = st := by
      cases st; simp [stCopy, Bits.toBytes, Bits.toBytesAux]
    rw [Nat.zero_add, this]
  | succ k ih =>
    intro n st h
    have e : k + 1 + n = (k + n) + 1 := by omega
    rw [e, copyBytes, Dec_bind_apply, (specReadBits_eq 8 st).1 (by omega)]
    dsimp only
    rw [Dec_bind_apply]
    show copyBytes (k + n) { stAt st 8 with out := (stAt st 8).out.push (UInt8.ofNat (Bits.toNat (st.bits.take 8))) } = _
    rw [ih n _ (by simp only [stAt_bits, List.length_drop]; omega)]
    congr 1
    have e2 : 8 * (k + 1) = 8 + 8 * k := by omega
    simp only [stCopy, stAt_bits, stAt_used, stAt_out, List.drop_drop]
    rw [e2, List.take_add, toBytes_append8 _ _ (by rw [List.length_take]; omega)]
    congr 1
    · omega
    · apply Array.ext'
      simp

theorem copyBytes_ok (n : Nat) (st : St) (h : 8 * n ≤ st.bits.length) :
    copyBytes n st = (.ok (), stCopy st n) := by
  have := copyBytes_take n 0 st h
  rw [Nat.add_zero] at this
  rw [this]; rfl

theorem copyBytes_short (n : Nat) (st : St) (h : st.bits.length / 8 < n) :
    ∃ st', copyBytes n st = (.error .unexpectedEOF, st') ∧ st'.out = (stCopy st (st.bits.length / 8)).out := by
  obtain ⟨m, rfl⟩ : ∃ m, n = st.bits.length / 8 + (m + 1) := ⟨n - st.bits.length / 8 - 1, by omega⟩
  rw [copyBytes_take _ _ _ (by omega), copyBytes, Dec_bind_apply]
  obtain ⟨st', h1, h2⟩ := (specReadBits_eq 8 (stCopy st (st.bits.length / 8))).2
    (by simp only [stCopy, List.length_drop]; omega)
  rw [h1]
  exact ⟨st', rfl, h2⟩

/-! ### what a successful `readHdr` guarantees -/

/-- a property of every successful run of a bit-reader action. -/
def MSpec {α : Type} (x : Impl.M α) (P : BR → α → BR → Prop) : Prop :=
  ∀ r a r', x r = (.ok a, r') → P r a r'

theorem MSpec.bind {α β : Type} {x : Impl.M α} {f : α → Impl.M β} {P : BR → α → BR → Prop}
    {Q : α → BR → β → BR → Prop} (hx : MSpec x P) (hf : ∀ a, MSpec (f a) (Q a)) :
    MSpec (x >>= f) (fun r b r'' => ∃ a r', P r a r' ∧ Q a r' b r'') := by
  intro r b r'' h
  rw [M_bind_apply] at h
  rcases hx' : x r with ⟨e | a, r'⟩
  · rw [hx'] at h; cases h
  · rw [hx'] at h
    exact ⟨a, r', hx r a r' hx', hf a r' b r'' h⟩

theorem MSpec.weaken {α : Type} {x : Impl.M α} {P P' : BR → α → BR → Prop} (h : MSpec x P)
    (hw : ∀ r a r', P r a r' → P' r a r') : MSpec x P' :=
  fun r a r' e => hw r a r' (h r a r' e)

open Compress.Proofs.BitIO in
theorem readBits_spec (n : Nat) :
    MSpec (Impl.readBits n) (fun r a r' => r'.bits.length + n = r.bits.length ∧ a < 2 ^ n) := by
  intro r a r' h
  rw [implReadBits_eq] at h
  split at h
  · cases h
  · rename_i hlt
    simp only [Prod.mk.injEq, Except.ok.injEq] at h
    obtain ⟨h1, h2⟩ := h
    subst h1 h2
    refine ⟨by simp only [List.length_drop]; omega, ?_⟩
    have := toNat_lt (r.bits.take n)
    rwa [List.length_take, Nat.min_eq_left (by omega)] at this

theorem pure_spec {α : Type} (a : α) : MSpec (pure a : Impl.M α) (fun r b r' => r' = r ∧ b = a) := by
  intro r b r' h
  rw [M_pure_apply] at h
  simp only [Prod.mk.injEq, Except.ok.injEq] at h
  exact ⟨h.2.symm, h.1.symm⟩

theorem panic_spec {α : Type} (e : BErr) (P : BR → α → BR → Prop) : MSpec (Impl.panic e : Impl.M α) P := by
  intro r a r' h; cases h

/-- the bits never grow. -/
def MLe {α : Type} (x : Impl.M α) : Prop := MSpec x (fun r _ r' => r'.bits.length ≤ r.bits.length)

/-- MLEN in range, and ISUNCOMPRESSED only on a meta-block that is not the last. -/
@[reducible] def HdrFacts (b : Impl.Hdr) : Prop :=
  ∀ l n u, b = Impl.Hdr.data l n u → 1 ≤ n ∧ n ≤ 2 ^ 24 ∧ (u = true → l = false)

theorem readFlagIf_true (c : Bool) : MSpec (Impl.readFlagIf c) (fun _ b _ => b = true → c = true) := by
  unfold Impl.readFlagIf
  cases c
  · exact (pure_spec false).weaken (fun r a r' h hb => by rw [h.2] at hb; cases hb)
  · intro _ _ _ _ _; rfl

theorem readFlagIf_le (c : Bool) : MLe (Impl.readFlagIf c) := by
  unfold Impl.readFlagIf
  cases c
  · exact (pure_spec false).weaken (fun r a r' h => by rw [h.1]; exact Nat.le_refl _)
  · simp only [if_true, M_map_eq]
    exact ((readBits_spec 1).bind (fun a => pure_spec (a == 1))).weaken
      (fun r a r'' ⟨_, r', h1, h2⟩ => by rw [h2.1]; omega)

theorem readFlagIf_spec (c : Bool) :
    MSpec (Impl.readFlagIf c) (fun r b r' => r'.bits.length ≤ r.bits.length ∧ (b = true → c = true)) :=
  fun r b r' h => ⟨readFlagIf_le c r b r' h, readFlagIf_true c r b r' h⟩

theorem readSkipLen_le (n : Nat) : MLe (Impl.readSkipLen n) := by
  unfold Impl.readSkipLen
  split
  · refine ((readBits_spec (n * 8)).bind (Q := fun _ r b r' => r'.bits.length ≤ r.bits.length) (fun v => ?_)).weaken
      (fun r a r'' ⟨_, r', h1, h2⟩ => by omega)
    split
    · exact panic_spec _ _
    · exact (pure_spec _).weaken (fun r a r' h => by rw [h.1]; exact Nat.le_refl _)
  · exact (pure_spec 0).weaken (fun r a r' h => by rw [h.1]; exact Nat.le_refl _)

theorem readMLen_spec (n : Nat) (hn : n ≤ 6) :
    MSpec (Impl.readMLen n) (fun r a r' => r'.bits.length ≤ r.bits.length ∧ 1 ≤ a ∧ a ≤ 2 ^ 24) := by
  unfold Impl.readMLen
  refine ((readBits_spec (n * 4)).bind
    (Q := fun v r b r' => r'.bits.length ≤ r.bits.length ∧ b = v + 1) (fun v => ?_)).weaken ?_
  · split
    · exact panic_spec _ _
    · exact (pure_spec _).weaken (fun r a r' h => by rw [h.1, h.2]; exact ⟨Nat.le_refl _, rfl⟩)
  · rintro r a r'' ⟨v, r', ⟨h1, h2⟩, h3, h4⟩
    refine ⟨by omega, by omega, ?_⟩
    have : 2 ^ (n * 4) ≤ 2 ^ 24 := Nat.pow_le_pow_right (by omega) (by omega)
    omega

/-- a successful `readHdr` consumed at least one bit, and MLEN is in 1..2^24. -/
theorem readHdr_spec :
    MSpec Impl.readHdr (fun r a r' => r'.bits.length < r.bits.length ∧ HdrFacts a) := by
  unfold Impl.readHdr
  refine ((readBits_spec 1).bind (Q := fun _ r b r' => r'.bits.length ≤ r.bits.length ∧
      HdrFacts b) (fun a => ?_)).weaken
    (fun r b r'' ⟨_, r', h1, h2⟩ => ⟨by omega, h2.2⟩)
  refine ((readFlagIf_le _).bind (Q := fun _ r b r' => r'.bits.length ≤ r.bits.length ∧
      HdrFacts b) (fun e => ?_)).weaken
    (fun r b r'' ⟨_, r', h1, h2⟩ => ⟨by omega, h2.2⟩)
  split
  · exact (pure_spec _).weaken (fun r a r' h => by
      rw [h.1, h.2]; exact ⟨Nat.le_refl _, fun l n u hh => by cases hh⟩)
  · refine ((readBits_spec 2).bind (Q := fun mn r b r' => mn < 4 → (r'.bits.length ≤ r.bits.length ∧
        HdrFacts b)) (fun mn => ?_)).weaken
      (fun r b r'' ⟨mn, r', h1, h2⟩ => ⟨by have := h2 h1.2; omega, (h2 h1.2).2⟩)
    by_cases h7 : mn + 4 = 7
    · simp only [h7, if_true]
      refine MSpec.weaken (P := fun r b r' => r'.bits.length ≤ r.bits.length ∧
        HdrFacts b) ?_ (fun r b r' h _ => h)
      refine ((readBits_spec 1).bind (Q := fun _ r b r' => r'.bits.length ≤ r.bits.length ∧
          HdrFacts b) (fun rs => ?_)).weaken
        (fun r b r'' ⟨_, r', h1, h2⟩ => ⟨by omega, h2.2⟩)
      split
      · exact panic_spec _ _
      · refine ((readBits_spec 2).bind (Q := fun _ r b r' => r'.bits.length ≤ r.bits.length ∧
            HdrFacts b) (fun sb => ?_)).weaken
          (fun r b r'' ⟨_, r', h1, h2⟩ => ⟨by omega, h2.2⟩)
        refine ((readSkipLen_le sb).bind (Q := fun _ r b r' => r'.bits.length ≤ r.bits.length ∧
            HdrFacts b) (fun sl => ?_)).weaken
          (fun r b r'' ⟨_, r', h1, h2⟩ => ⟨by omega, h2.2⟩)
        exact (pure_spec _).weaken (fun r a r' h => by
          rw [h.1, h.2]; exact ⟨Nat.le_refl _, fun l n u hh => by cases hh⟩)
    · simp only [h7, if_false]
      intro r b r'' hrun hmn
      have hm := (readMLen_spec (mn + 4) (by omega)).bind
        (Q := fun v r b r' => r'.bits.length ≤ r.bits.length ∧
          ∀ l n u, b = Impl.Hdr.data l n u → n = v ∧ (u = true → l = false))
        (fun v => ((readFlagIf_spec (!a == 1)).bind (fun u => pure_spec (Impl.Hdr.data (a == 1) v u))).weaken
          (fun r b r'' ⟨u, r', h1, h2⟩ => ⟨by rw [h2.1]; exact h1.1, fun l n u' hh => by
            rw [h2.2] at hh; cases hh; exact ⟨rfl, fun hu => by
              have := h1.2 hu
              simpa using this⟩⟩))
      obtain ⟨v, r', ⟨h1, h2, h3⟩, h4, h5⟩ := hm r b r'' hrun
      refine ⟨by omega, fun l n u hh => ?_⟩
      obtain ⟨e1, e2⟩ := h5 l n u hh
      rw [e1]; exact ⟨h2, h3, e2⟩

/-! ### outcomes -/

/-- the model, in state `s` with `del` handed out so far, ends like the specification result `res`:
    accepted ⇒ `io.EOF` after exactly the specification's output; rejected ⇒ another error, outputs
    agreeing position by position. (`B`: a bound of the unread input bits, no longer used.) -/
def Outcome (sd : ByteArray) (s : State) (del : List UInt8) (B : Nat) (res : Except Err Unit × St) : Prop :=
  match res with
  | (.ok _, st') => ∃ X, Trace sd s X .eof ∧ del ++ X = st'.out.toList
  | (.error _, st') => ∃ X e, Trace sd s X e ∧ e ≠ .eof ∧ Agree (del ++ X) st'.out.toList

theorem Outcome.run {sd : ByteArray} {s s' : State} {X del : List UInt8} {B : Nat} {res : Except Err Unit × St}
    (R : Run sd s X s') (h : Outcome sd s' (del ++ X) B res) : Outcome sd s del B res := by
  rcases res with ⟨_ | _, st'⟩
  · obtain ⟨Y, e, T, he, ha⟩ := h
    exact ⟨X ++ Y, e, R.trace T, he, by rw [← List.append_assoc]; exact ha⟩
  · obtain ⟨Y, T, ha⟩ := h
    exact ⟨X ++ Y, R.trace T, by rw [← List.append_assoc]; exact ha⟩

theorem Outcome.step {sd : ByteArray} {s : State} {del : List UInt8} {B : Nat} {res : Except Err Unit × St}
    (hT : s.toRead = []) (hE : s.err = none) (hp : Progress s (stepOnce sd s))
    (h : Outcome sd (stepOnce sd s) del B res) : Outcome sd s del B res := by
  have R : Run sd s [] (stepOnce sd s) := Run.step hT hE hp (Run.refl _)
  exact Outcome.run R (by simpa using h)

/-- a failing specification (output `out`) against a model step that fails with the window holding `out`. -/
theorem outcome_error (sd : ByteArray) (e : BErr) (he : e ≠ .eof) (s1 : State) (ws : Nat) (del : List UInt8) (B : Nat)
    (e' : Err) (st' : St) (hw : Inv ws s1.dict st'.out.toList del) :
    Outcome sd (fin (.error e, s1)) del B (.error e', st') := by
  obtain ⟨X, T, h⟩ := trace_error sd e s1 ws _ del hw
  exact ⟨X, e, T, he, by rw [h]; exact Agree.refl _⟩

/-! ### the end of the stream: `finishStream` = `alignToByte` -/

theorem finish_outcome (sd : ByteArray) (s0 : State) (st0 : St) (ws : Nat) (del : List UInt8) (B : Nat)
    (hrd : s0.rd = brOf st0) (hw : Inv ws s0.dict st0.out.toList del)
    (hal : (st0.used + st0.bits.length) % 8 = 0) :
    Outcome sd (fin (finishStream s0)) del B (alignToByte st0) := by
  have hpad : (8 - st0.used % 8) % 8 ≤ st0.bits.length := by omega
  rw [(alignToByte_eq st0).1 hpad, finishStream_eq, hrd]
  simp only [brOf_bits, brOf_used]
  by_cases hp : Bits.toNat (st0.bits.take ((8 - st0.used % 8) % 8)) > 0
  · have hp' : Bits.toNat (st0.bits.take ((8 - st0.used % 8) % 8)) ≠ 0 := by omega
    simp only [hp, hp', ↓reduceIte, ne_eq, not_false_eq_true]
    exact outcome_error sd .corrupted (by decide) _ ws del B _ _ hw
  · have hp' : Bits.toNat (st0.bits.take ((8 - st0.used % 8) % 8)) = 0 := by omega
    simp only [hp', ↓reduceIte, ne_eq, not_true_eq_false, gt_iff_lt, Nat.lt_irrefl]
    obtain ⟨X, T, h⟩ := trace_error sd .eof { s0 with rd := (readPads (brOf st0)).2 } ws _ del hw
    exact ⟨X, T, h⟩

/-- a boundary after a last meta-block: the next step ends the stream. -/
theorem last_outcome (sd : ByteArray) (s : State) (st : St) (ws : Nat) (ds : Dists) (del : List UInt8) (B : Nat)
    (hR : Rel ws s st ds del) (hs : s.step = .blockHeader) (hl : s.last = true) :
    Outcome sd s del B (alignToByte st) := by
  have hstep : stepOnce sd s = fin (finishStream s) := by
    rw [stepOnce_eq, hs]; simp only; rw [readBlockHeader_last s hl]
  have ho := finish_outcome sd s st ws del B hR.rd hR.win hR.aligned
  rw [← hstep] at ho
  refine Outcome.step hR.toRead hR.err ?_ ho
  rw [hstep, finishStream_eq]
  split <;> exact progress_error _ _ _

/-! ### layer (c): uncompressed meta-blocks -/

theorem Progress.of_le {s0 s s' : State} (h : Progress s s') (hle : s.rd.bits.length ≤ s0.rd.bits.length) :
    Progress s0 s' :=
  ⟨fun he => Nat.le_trans (h.1 he) hle, fun ht he => Nat.lt_of_lt_of_le (h.2 ht he) hle⟩

theorem readFlush_length (d : Dict) (h : d.wrPos ≤ d.hist.size) : d.readFlush.2.length = d.wrPos - d.rdPos := by
  rw [readFlush_snd]; simp; omega

theorem stepOnce_raw (sd : ByteArray) (s : State) (h : s.step = .rawData) :
    stepOnce sd s = fin (readRawData s) := by
  rw [stepOnce_eq, h]

theorem stepOnce_hdr (sd : ByteArray) (s : State) (h : s.step = .blockHeader) :
    stepOnce sd s = fin (readBlockHeader s) := by
  rw [stepOnce_eq, h]

open Compress.Proofs.FlateRefine (toBytes_take_length) in
/-- `readRawData`, entered with `blkLen = n` bytes of the meta-block still to copy, against
    `copyBytes n` followed by `K`. -/
theorem raw_action (sd : ByteArray) (ws : Nat) (ds : Dists) (B : Nat) (K : Dec Unit) (L : Nat) (P : St → Prop)
    (HK : ∀ s' st' del', P st' → RelZ ws s' st' ds del' → s'.step = .blockHeader → s'.last = false →
      st'.bits.length ≤ L → Outcome sd s' del' B (K st')) :
    ∀ (m : Nat) (n : Nat) (s1 : State) (st : St) (del : List UInt8),
      2 * n + (if s1.dict.availSize = 0 then 1 else 0) ≤ m →
      RelZ ws s1 st ds del → s1.blkLen = (n : Int) → 1 ≤ n → s1.last = false → st.used % 8 = 0 →
      st.bits.length ≤ L → (∀ st', copyBytes n st = (.ok (), st') → P st') →
      Progress s1 (fin (readRawData s1)) ∧
      Outcome sd (fin (readRawData s1)) del B ((copyBytes n >>= fun _ => K) st) := by
  intro m
  induction m with
  | zero => intro n s1 st del hm _ _ hn; omega
  | succ m ih =>
    intro n s1 st del hm hR hbl hn hlast hu hL hP
    have hrd := hR.rd
    have hlen8 : st.bits.length % 8 = 0 := by have := hR.aligned; omega
    unfold readRawData
    simp only [hrd, brOf_bits, brOf_used, hbl, Int.toNat_natCast]
    by_cases h0 : st.bits.length / 8 = 0
    · -- nothing left: unexpected EOF
      simp only [h0, if_true]
      refine ⟨progress_error _ _ _, ?_⟩
      obtain ⟨st', h1, h2⟩ := copyBytes_short n st (by omega)
      rw [Dec_bind_apply, h1]
      refine outcome_error sd .unexpectedEOF (by decide) s1 ws del B _ st' ?_
      rw [h2, h0]
      simpa [stCopy, Bits.toBytes, Bits.toBytesAux] using hR.win
    · simp only [h0, if_false]
      generalize hk : min (min s1.dict.availSize n) (st.bits.length / 8) = k
      have hk8 : 8 * k ≤ st.bits.length := by omega
      have hkn : k ≤ n := by omega
      have hka : k ≤ s1.dict.availSize := by omega
      have hbytes : (Bits.toBytes (st.bits.take (8 * k))).length = k := toBytes_take_length k st.bits hk8
      have hwb := hR.win.writeBytes (Bits.toBytes (st.bits.take (8 * k)))
      have htake : (Bits.toBytes (st.bits.take (8 * k))).take
          (min (Bits.toBytes (st.bits.take (8 * k))).length s1.dict.availSize) =
          Bits.toBytes (st.bits.take (8 * k)) := List.take_of_length_le (by rw [hbytes]; omega)
      rw [htake] at hwb
      obtain ⟨hcnt, hInv⟩ := hwb
      have hout : st.out.toList ++ Bits.toBytes (st.bits.take (8 * k)) = (stCopy st k).out.toList := by
        simp [stCopy]
      rw [hout] at hInv
      have hsplit : (copyBytes n >>= fun _ => K) st =
          (copyBytes (n - k) >>= fun _ => K) (stCopy st k) := by
        rw [Dec_bind_apply, Dec_bind_apply]
        have : n = k + (n - k) := by omega
        conv => lhs; rw [this, copyBytes_take k (n - k) st hk8]
      have hwr : (s1.dict.writeBytes (Bits.toBytes (st.bits.take (8 * k)))).1.wrPos = s1.dict.wrPos + k := by
        simp only [Dict.writeBytes, hbytes, Nat.min_eq_left hka]
      have hrdp : (s1.dict.writeBytes (Bits.toBytes (st.bits.take (8 * k)))).1.rdPos = s1.dict.rdPos := rfl
      have hhs : (s1.dict.writeBytes (Bits.toBytes (st.bits.take (8 * k)))).1.hist.size = s1.dict.hist.size := by
        have := hInv.hsz; have := hR.win.hsz
        have e1 : (s1.dict.writeBytes (Bits.toBytes (st.bits.take (8 * k)))).1.cap = s1.dict.cap := rfl
        omega
      by_cases hmore : ((n : Int) - (k : Int)) > 0
      · -- more of the meta-block to come: flush and come back
        simp only [hmore, if_true]
        rw [fin_ok _ (by simpa using hR.err)]
        have hfl := hInv.readFlush
        generalize hd1 : (s1.dict.writeBytes (Bits.toBytes (st.bits.take (8 * k)))).1 = d1 at *
        -- the flush is not empty
        have hne : d1.readFlush.2 ≠ [] := by
          intro h
          have hl := readFlush_length d1 hInv.wr_le
          rw [h] at hl
          simp only [List.length_nil] at hl
          have h1 := hInv.rd_le
          rw [hwr, hrdp] at hl h1
          by_cases hk0 : k = 0
          · have hav : s1.dict.availSize = 0 := by omega
            have := hR.avail (by unfold Dict.availSize at hav; have := hR.win.wr_le; omega)
            omega
          · have := hR.win.rd_le; omega
        constructor
        · constructor
          · intro _; simp only [List.length_drop, hrd, brOf_bits]; omega
          · intro h; exact absurd h hne
        · rw [hsplit]
          -- the state after the step: pending = the flush
          refine Outcome.run (run_drain sd _) ?_
          simp only
          have hnk : 1 ≤ n - k := by omega
          -- the drained state is a raw-data state again
          have hRel0 : Rel ws (drain { s1 with
              dict := d1.readFlush.1, toRead := d1.readFlush.2, step := Step.rawData,
              blkLen := (n : Int) - (k : Int),
              rd := { bits := st.bits.drop (8 * k), used := st.used + 8 * k },
              inOff := (st.used + 8 * k + 7) / 8 }) (stCopy st k) ds (del ++ d1.readFlush.2) := by
            constructor
            · simp [drain, deliver]
            · simpa [drain, deliver] using hR.err
            · simpa [drain, deliver] using hR.sub
            · simpa [drain, deliver] using hR.word
            · simp [drain, deliver, stCopy, brOf]
            · simpa [drain, deliver] using hfl.1
            · intro h
              simp only [drain, deliver] at h ⊢
              have := hfl.2.1
              omega
            · simpa [drain, deliver] using hR.dists
            · exact hR.dpos
            · have := hR.aligned
              simp only [stCopy, List.length_drop]; omega
            · simpa [drain, deliver] using hR.mtf
          have hz1 : Zeros d1 := by rw [← hd1]; exact hR.zeros.writeBytes hR.win.wr_le _
          have hsz : st.out.size ≤ (stCopy st k).out.size := by
            simp only [stCopy, Array.size_append]; omega
          have hRel : RelZ ws (drain { s1 with
              dict := d1.readFlush.1, toRead := d1.readFlush.2, step := Step.rawData,
              blkLen := (n : Int) - (k : Int),
              rd := { bits := st.bits.drop (8 * k), used := st.used + 8 * k },
              inOff := (st.used + 8 * k + 7) / 8 }) (stCopy st k) ds (del ++ d1.readFlush.2) :=
            ⟨hRel0, hz1.readFlush, by have := hR.dinv; omega, hR.ws2⟩
          have hav' : (drain { s1 with
              dict := d1.readFlush.1, toRead := d1.readFlush.2, step := Step.rawData,
              blkLen := (n : Int) - (k : Int),
              rd := { bits := st.bits.drop (8 * k), used := st.used + 8 * k },
              inOff := (st.used + 8 * k + 7) / 8 }).dict.availSize ≠ 0 := by
            simp only [drain, deliver, Dict.availSize]
            have := hfl.2.1
            omega
          have hmeasure : 2 * (n - k) + (if (drain { s1 with
              dict := d1.readFlush.1, toRead := d1.readFlush.2, step := Step.rawData,
              blkLen := (n : Int) - (k : Int),
              rd := { bits := st.bits.drop (8 * k), used := st.used + 8 * k },
              inOff := (st.used + 8 * k + 7) / 8 }).dict.availSize = 0 then 1 else 0) ≤ m := by
            rw [if_neg hav']
            by_cases hk0 : k = 0
            · subst hk0
              have hav : s1.dict.availSize = 0 := by omega
              rw [if_pos hav] at hm
              omega
            · split at hm <;> omega
          have hih := ih (n - k) _ (stCopy st k) (del ++ d1.readFlush.2) hmeasure hRel
            (by simp only [drain, deliver]; omega) hnk (by simpa [drain, deliver] using hlast)
            (by simp only [stCopy]; omega) (by simp only [stCopy, List.length_drop]; omega)
            (fun st' h' => hP st' (by
              have : n = k + (n - k) := by omega
              rw [this, copyBytes_take k (n - k) st hk8]; exact h'))
          have hstep := stepOnce_raw sd _ (show (drain { s1 with
              dict := d1.readFlush.1, toRead := d1.readFlush.2, step := Step.rawData,
              blkLen := (n : Int) - (k : Int),
              rd := { bits := st.bits.drop (8 * k), used := st.used + 8 * k },
              inOff := (st.used + 8 * k + 7) / 8 }).step = Step.rawData from rfl)
          refine Outcome.step hRel.toRead hRel.err ?_ ?_
          · rw [hstep]; exact hih.1
          · rw [hstep]; exact hih.2
      · -- the meta-block is complete
        simp only [hmore, if_false]
        rw [fin_ok _ (by simpa using hR.err)]
        have hkeq : k = n := by omega
        subst hkeq
        constructor
        · constructor
          · intro _; simp only [List.length_drop, hrd, brOf_bits]; omega
          · intro _ _; simp only [List.length_drop, hrd, brOf_bits]; omega
        · rw [hsplit, Nat.sub_self]
          have hc0 : (copyBytes 0 >>= fun _ => K) (stCopy st k) = K (stCopy st k) := rfl
          rw [hc0]
          have hsz : st.out.size ≤ (stCopy st k).out.size := by
            simp only [stCopy, Array.size_append]; omega
          refine HK _ (stCopy st k) del (hP _ (copyBytes_ok k st hk8))
            ⟨⟨?_, ?_, ?_, ?_, ?_, ?_, ?_, ?_, ?_, ?_, ?_⟩, hR.zeros.writeBytes hR.win.wr_le _,
              by have := hR.dinv; omega, hR.ws2⟩ rfl (by simpa using hlast)
            (by simp only [stCopy, List.length_drop]; omega)
          · simpa using hR.toRead
          · simpa using hR.err
          · simpa using hR.sub
          · simpa using hR.word
          · simp [stCopy, brOf]
          · simpa using hInv
          · intro h
            simp only at h ⊢
            have := hR.win.rd_le
            rw [hwr] at h ⊢
            rw [hrdp]
            omega
          · simpa using hR.dists
          · exact hR.dpos
          · have := hR.aligned
            simp only [stCopy, List.length_drop]; omega
          · simpa using hR.mtf

/-! ### one meta-block header step, and the induction over the meta-blocks -/

/-- the boundary form of the induction hypothesis. -/
def BlocksOK (sd : ByteArray) (ws B : Nat) (I : St → Prop) (fuel : Nat) : Prop :=
  ∀ (s : State) (st : St) (ds : Dists) (del : List UInt8), I st → RelZ ws s st ds del → s.step = .blockHeader →
    s.last = false → st.bits.length < fuel → st.bits.length ≤ B →
    Outcome sd s del B (readMetaBlocks sd ws fuel ds st)

theorem pad_used (st : St) : (stAt st ((8 - st.used % 8) % 8)).used % 8 = 0 := by
  simp only [stAt_used]; omega

theorem readPads_snd (st : St) : (readPads (brOf st)).2 = brOf (stAt st ((8 - st.used % 8) % 8)) := rfl

theorem alignToByte_aligned (st : St) (h : st.used % 8 = 0) : alignToByte st = (.ok (), st) := by
  have h0 : (8 - st.used % 8) % 8 = 0 := by omega
  have := (alignToByte_eq st).1 (by rw [h0]; exact Nat.zero_le _)
  rw [this, h0]
  simp [Bits.toNat, stAt_zero]

theorem readMetaData_eq (s : State) (n : Nat) (h : s.blkLen = (n : Int)) :
    readMetaData s =
      if s.rd.bits.length / 8 < n then
        (.error .unexpectedEOF, { s with rd := { bits := s.rd.bits.drop (8 * (s.rd.bits.length / 8)),
                                                  used := s.rd.used + 8 * (s.rd.bits.length / 8) } })
      else
        (.ok (), { s with rd := { bits := s.rd.bits.drop (8 * n), used := s.rd.used + 8 * n },
                          step := .blockHeader }) := by
  unfold readMetaData
  simp only [h, Int.toNat_natCast]
  by_cases hs : s.rd.bits.length / 8 < n
  · have hmin : min n (s.rd.bits.length / 8) = s.rd.bits.length / 8 := Nat.min_eq_right (by omega)
    simp only [hmin, hs, ↓reduceIte]
  · have hmin : min n (s.rd.bits.length / 8) = n := Nat.min_eq_left (by omega)
    simp only [hmin, hs, Nat.lt_irrefl, ↓reduceIte]

/-- a `Rel` survives changes of the fields it does not mention. -/
theorem Rel.congr {ws : Nat} {s s' : State} {st st' : St} {ds : Dists} {del : List UInt8} (h : Rel ws s st ds del)
    (h1 : s'.toRead = s.toRead) (h2 : s'.err = s.err) (h3 : s'.stepState = s.stepState) (h4 : s'.word = s.word)
    (h5 : s'.rd = brOf st') (h6 : s'.dict = s.dict) (h7 : st'.out = st.out)
    (h8 : s'.dists0 = s.dists0 ∧ s'.dists1 = s.dists1 ∧ s'.dists2 = s.dists2 ∧ s'.dists3 = s.dists3)
    (h9 : (st'.used + st'.bits.length) % 8 = 0) (h10 : s'.mtf = s.mtf) : Rel ws s' st' ds del := by
  constructor
  · rw [h1]; exact h.toRead
  · rw [h2]; exact h.err
  · rw [h3]; exact h.sub
  · rw [h4]; exact h.word
  · exact h5
  · rw [h6, h7]; exact h.win
  · rw [h6]; exact h.avail
  · rw [h8.1, h8.2.1, h8.2.2.1, h8.2.2.2]; exact h.dists
  · exact h.dpos
  · exact h9
  · rw [h10]; exact h.mtf

theorem RelZ.congr {ws : Nat} {s s' : State} {st st' : St} {ds : Dists} {del : List UInt8} (h : RelZ ws s st ds del)
    (h1 : s'.toRead = s.toRead) (h2 : s'.err = s.err) (h3 : s'.stepState = s.stepState) (h4 : s'.word = s.word)
    (h5 : s'.rd = brOf st') (h6 : s'.dict = s.dict) (h7 : st'.out = st.out)
    (h8 : s'.dists0 = s.dists0 ∧ s'.dists1 = s.dists1 ∧ s'.dists2 = s.dists2 ∧ s'.dists3 = s.dists3)
    (h9 : (st'.used + st'.bits.length) % 8 = 0) (h10 : s'.mtf = s.mtf) : RelZ ws s' st' ds del :=
  ⟨h.toRel.congr h1 h2 h3 h4 h5 h6 h7 h8 h9 h10, by rw [h6]; exact h.zeros, by rw [h7]; exact h.dinv, h.ws2⟩

theorem hdr_action (sd : ByteArray) (ws B fuel : Nat) (I G : St → Prop) (hReach : Reach sd ws I G)
    (hC : CompressedSimOnZ sd G) (IH : BlocksOK sd ws B I fuel)
    (s1 : State) (st : St) (ds : Dists) (del : List UInt8) (hI : I st) (hR : RelZ ws s1 st ds del)
    (hl : s1.last = false)
    (hf : st.bits.length ≤ fuel) (hB : st.bits.length ≤ B) :
    Progress s1 (fin (readBlockHeader s1)) ∧
    Outcome sd (fin (readBlockHeader s1)) del B (readMetaBlocks sd ws (fuel+1) ds st) := by
  rw [readMetaBlocks_succ, readBlockHeader_notlast s1 hl, hR.rd, Dec_bind_apply]
  have hsim := hdr_sim st
  unfold SimAt at hsim
  rcases hx : Impl.readHdr (brOf st) with ⟨e | hd, r⟩ <;> rcases hy : specHdr st with ⟨e' | hd', st1⟩ <;>
    rw [hx, hy] at hsim <;> simp only at hsim
  · -- the header is bad on both sides
    refine ⟨progress_error _ _ _, ?_⟩
    exact outcome_error sd e hsim.1 _ ws del B e' st1 (by rw [hsim.2]; exact hR.win)
  · -- both headers are read
    obtain ⟨k, hk, hr, hst, hrel⟩ := hsim
    subst hr hst
    obtain ⟨hlt, hfacts⟩ := readHdr_spec (brOf st) hd _ hx
    simp only [brOf_bits, stAt_bits] at hlt
    have hal1 : ((stAt st k).used + (stAt st k).bits.length) % 8 = 0 := by
      have := hR.aligned
      simp only [stAt_used, stAt_bits, List.length_drop]; omega
    have hpadle : (8 - (stAt st k).used % 8) % 8 ≤ (stAt st k).bits.length := by omega
    cases hd with
    | lastEmpty =>
      cases hd' with
      | lastEmpty =>
        simp only [specBody]
        constructor
        · rw [finishStream_eq]; split <;> exact progress_error _ _ _
        · exact finish_outcome sd _ (stAt st k) ws del B rfl hR.win hal1
      | metadata _ _ => exact absurd hrel (by simp [HdrRel])
      | data _ _ _ => exact absurd hrel (by simp [HdrRel])
    | metadata last skip =>
      cases hd' with
      | lastEmpty => exact absurd hrel (by simp [HdrRel])
      | data _ _ _ => exact absurd hrel (by simp [HdrRel])
      | metadata last' skip' =>
        obtain ⟨rfl, rfl⟩ := hrel
        simp only [specBody, Dec_bind_apply, brOf_bits, brOf_used]
        rw [(alignToByte_eq (stAt st k)).1 hpadle]
        by_cases hp : Bits.toNat ((stAt st k).bits.take ((8 - (stAt st k).used % 8) % 8)) > 0
        · have hp' : Bits.toNat ((stAt st k).bits.take ((8 - (stAt st k).used % 8) % 8)) ≠ 0 := by omega
          simp only [hp, hp', ↓reduceIte, ne_eq, not_false_eq_true]
          exact ⟨progress_error _ _ _, outcome_error sd .corrupted (by decide) _ ws del B _ _ hR.win⟩
        · have hp' : Bits.toNat ((stAt st k).bits.take ((8 - (stAt st k).used % 8) % 8)) = 0 := by omega
          simp only [hp', ↓reduceIte, ne_eq, not_true_eq_false, gt_iff_lt, Nat.lt_irrefl, readPads_snd]
          generalize hst2 : stAt (stAt st k) ((8 - (stAt st k).used % 8) % 8) = st2
          have hu2 : st2.used % 8 = 0 := by rw [← hst2]; exact pad_used _
          have hal2 : (st2.used + st2.bits.length) % 8 = 0 := by
            rw [← hst2]; simp only [stAt_used, stAt_bits, List.length_drop] at hal1 ⊢; omega
          have hlen2 : st2.bits.length ≤ (stAt st k).bits.length := by
            rw [← hst2]; simp only [stAt_bits, List.length_drop]; omega
          have hout2 : st2.out = st.out := by rw [← hst2]; rfl
          rw [readMetaData_eq _ skip rfl]
          simp only [brOf_bits, brOf_used]
          by_cases hshort : st2.bits.length / 8 < skip
          · -- the metadata is cut short
            simp only [hshort, ↓reduceIte]
            obtain ⟨st', h1, h2⟩ := skipBytes_short skip st2 hshort
            rw [h1]
            exact ⟨progress_error _ _ _, outcome_error sd .unexpectedEOF (by decide) _ ws del B _ _
              (by rw [h2, hout2]; exact hR.win)⟩
          · have h8 : 8 * skip ≤ st2.bits.length := by omega
            simp only [hshort, ↓reduceIte]
            rw [skipBytes_ok skip st2 h8]
            simp only
            rw [fin_ok _ (by simpa using hR.err)]
            have hRel : RelZ ws { s1 with
                rd := { bits := st2.bits.drop (8 * skip), used := st2.used + 8 * skip }, last := last,
                blkLen := (skip : Int), step := Step.blockHeader,
                inOff := (st2.used + 8 * skip + 7) / 8 } (stAt st2 (8 * skip)) ds del :=
              hR.congr rfl rfl rfl rfl rfl rfl (by rw [stAt_out, hout2]) ⟨rfl, rfl, rfl, rfl⟩
                (by simp only [stAt_used, stAt_bits, List.length_drop]; omega) rfl
            have hlen3 : (stAt st2 (8 * skip)).bits.length < st.bits.length := by
              simp only [stAt_bits, List.length_drop] at hlt hlen2 ⊢; omega
            constructor
            · exact ⟨fun _ => by simp only [stAt_bits, List.length_drop, hR.rd, brOf_bits] at hlen3 ⊢; omega,
                fun _ _ => by simp only [stAt_bits, List.length_drop, hR.rd, brOf_bits] at hlen3 ⊢; omega⟩
            · cases last with
              | true =>
                simp only [if_true]
                have := last_outcome sd _ (stAt st2 (8 * skip)) ws ds del B hRel.toRel rfl rfl
                rwa [alignToByte_aligned _ (by simp only [stAt_used]; omega)] at this
              | false =>
                simp only [Bool.false_eq_true, if_false]
                have hI' : I (stAt st2 (8 * skip)) := by
                  refine hReach.mdata st (stAt st k) skip _ hI hy ?_
                  rw [Dec_bind_apply, (alignToByte_eq (stAt st k)).1 hpadle]
                  have hp'' : ¬ (Bits.toNat ((stAt st k).bits.take ((8 - (stAt st k).used % 8) % 8)) ≠ 0) := by omega
                  rw [if_neg hp'', hst2]
                  exact skipBytes_ok skip st2 h8
                exact IH _ _ ds del hI' hRel rfl rfl (by omega) (by omega)
    | data last mlen unc =>
      cases hd' with
      | lastEmpty => exact absurd hrel (by simp [HdrRel])
      | metadata _ _ => exact absurd hrel (by simp [HdrRel])
      | data last' mlen' unc' =>
        obtain ⟨rfl, rfl, rfl⟩ := hrel
        obtain ⟨hm1, hm2, hunc⟩ := hfacts last mlen unc rfl
        cases unc with
        | true =>
          have hlast : last = false := hunc rfl
          subst hlast
          simp only [specBody, Dec_bind_apply, brOf_bits, brOf_used]
          rw [(alignToByte_eq (stAt st k)).1 hpadle]
          by_cases hp : Bits.toNat ((stAt st k).bits.take ((8 - (stAt st k).used % 8) % 8)) > 0
          · have hp' : Bits.toNat ((stAt st k).bits.take ((8 - (stAt st k).used % 8) % 8)) ≠ 0 := by omega
            simp only [hp, hp', ↓reduceIte, ne_eq, not_false_eq_true]
            exact ⟨progress_error _ _ _, outcome_error sd .corrupted (by decide) _ ws del B _ _ hR.win⟩
          · have hp' : Bits.toNat ((stAt st k).bits.take ((8 - (stAt st k).used % 8) % 8)) = 0 := by omega
            simp only [hp', ↓reduceIte, ne_eq, not_true_eq_false, gt_iff_lt, Nat.lt_irrefl, readPads_snd]
            generalize hst2 : stAt (stAt st k) ((8 - (stAt st k).used % 8) % 8) = st2
            have hu2 : st2.used % 8 = 0 := by rw [← hst2]; exact pad_used _
            have hal2 : (st2.used + st2.bits.length) % 8 = 0 := by
              rw [← hst2]; simp only [stAt_used, stAt_bits, List.length_drop] at hal1 ⊢; omega
            have hlen2 : st2.bits.length < st.bits.length := by
              rw [← hst2]; simp only [stAt_bits, List.length_drop] at hlt ⊢; omega
            have hout2 : st2.out = st.out := by rw [← hst2]; rfl
            have hRel : RelZ ws { s1 with rd := brOf st2, last := false, blkLen := (mlen : Int) } st2 ds del :=
              hR.congr rfl rfl rfl rfl rfl rfl hout2 ⟨rfl, rfl, rfl, rfl⟩ hal2 rfl
            have hra := raw_action sd ws ds B (readMetaBlocks sd ws fuel ds) st2.bits.length I
              (fun s' st' del' hI' hR' hs' hl' hL' => IH s' st' ds del' hI' hR' hs' hl' (by omega) (by omega))
              _ mlen _ st2 del (Nat.le_refl _) hRel rfl hm1 rfl hu2 (Nat.le_refl _)
              (fun st' hcb => by
                refine hReach.raw st (stAt st k) mlen st' hI hy ?_
                rw [Dec_bind_apply, (alignToByte_eq (stAt st k)).1 hpadle]
                have hp'' : ¬ (Bits.toNat ((stAt st k).bits.take ((8 - (stAt st k).used % 8) % 8)) ≠ 0) := by omega
                rw [if_neg hp'', hst2]
                exact hcb)
            have h2 := hra.2
            rw [Dec_bind_apply] at h2
            refine ⟨hra.1.of_le ?_, h2⟩
            simp only [hR.rd, brOf_bits]; omega
        | false =>
          simp only [specBody, Dec_bind_apply]
          have hRel : RelZ ws { s1 with rd := brOf (stAt st k), last := last, blkLen := (mlen : Int) }
              (stAt st k) ds del :=
            hR.congr rfl rfl rfl rfl rfl rfl rfl ⟨rfl, rfl, rfl, rfl⟩ hal1 rfl
          obtain ⟨hc1, hc2⟩ := hC ws _ (stAt st k) ds del mlen (hReach.comp st _ last mlen hI hy) hRel rfl hm1 hm2
          constructor
          · constructor
            · intro he
              have := hc1 he
              simp only [brOf_bits, stAt_bits, hR.rd] at this ⊢
              omega
            · intro _ he
              have := hc1 he
              simp only [brOf_bits, stAt_bits, hR.rd] at this ⊢
              omega
          · rcases hsc : specCompressed sd ws mlen ds (stAt st k) with ⟨e'' | ds', st'⟩
            · rw [hsc] at hc2
              simp only at hc2 ⊢
              exact hc2
            · rw [hsc] at hc2
              simp only at hc2 ⊢
              obtain ⟨X, s', hrun, hRel', hstep', hlast', hbits'⟩ := hc2
              simp only [stAt_bits, List.length_drop] at hbits' hlt
              refine Outcome.run hrun ?_
              cases last with
              | true =>
                simp only [if_true]
                exact last_outcome sd s' st' ws ds' (del ++ X) B hRel'.toRel hstep' (by rw [hlast'])
              | false =>
                simp only [Bool.false_eq_true, if_false]
                exact IH s' st' ds' (del ++ X) (hReach.next st _ mlen ds ds' st' hI hy hsc) hRel' hstep'
                  (by rw [hlast']) (by omega) (by omega)

theorem blocks_sim (sd : ByteArray) (ws B : Nat) (I G : St → Prop) (hReach : Reach sd ws I G)
    (hC : CompressedSimOnZ sd G) : ∀ fuel, BlocksOK sd ws B I fuel := by
  intro fuel
  induction fuel with
  | zero => intro s st ds del _ _ _ _ h; omega
  | succ fuel ih =>
    intro s st ds del hI hR hs hl hf hB
    obtain ⟨hp, ho⟩ := hdr_action sd ws B fuel I G hReach hC ih s st ds del hI hR hl (by omega) hB
    rw [← stepOnce_hdr sd s hs] at hp ho
    exact Outcome.step hR.toRead hR.err hp ho

/-! ### the stream header, and the whole stream -/

/-- WBITS through `decWinBits` (statement of `winBits_sim`, proved in BrImplFixed). -/
def WinBitsSim : Prop :=
  Sim (do let w ← Impl.readSymbol Impl.decWinBits; if w = 0 then Impl.panic .corrupted else pure w)
    Brotli.readWindowBits

attribute [local irreducible] Impl.decWinBits in
theorem readStreamHeader_eq (s : State) :
    readStreamHeader s =
      match (do let w ← Impl.readSymbol Impl.decWinBits
                if w = 0 then Impl.panic .corrupted else pure w : Impl.M Nat) s.rd with
      | (.error e, r) => (.error e, { s with rd := r })
      | (.ok w, r) => readBlockHeader { s with rd := r, dict := Dict.init (2 ^ w - 16) s.dict.cap } := by
  unfold readStreamHeader
  simp only [bind, S.bind, liftR, M.bind]
  rcases Impl.readSymbol Impl.decWinBits s.rd with ⟨e | w, r⟩
  · rfl
  · by_cases hw : w = 0
    · simp only [hw, if_true, spanic]; rfl
    · simp only [hw, if_false, modS]; rfl

open Compress.Proofs.BitIO in
theorem specReadBits_lt' (n : Nat) (st st' : St) (v : Nat) (h : Brotli.readBits n st = (.ok v, st')) : v < 2 ^ n := by
  by_cases hl : n ≤ st.bits.length
  · rw [(specReadBits_eq n st).1 hl] at h
    simp only [Prod.mk.injEq, Except.ok.injEq] at h
    rw [← h.1]
    have := toNat_lt (st.bits.take n)
    rwa [List.length_take, Nat.min_eq_left hl] at this
  · obtain ⟨s2, h1, _⟩ := (specReadBits_eq n st).2 (by omega)
    rw [h1] at h; cases h

open Compress.Proofs.BrCut (bind_ok) in
/-- WBITS is between 10 and 24. -/
theorem readWindowBits_range (st st' : St) (w : Nat) (h : readWindowBits st = (.ok w, st')) : 10 ≤ w ∧ w ≤ 24 := by
  unfold readWindowBits at h
  obtain ⟨b, s1, h1, h2⟩ := bind_ok h
  cases b with
  | false =>
    simp only [Bool.not_false, if_true] at h2
    cases h2; omega
  | true =>
    simp only [Bool.not_true, Bool.false_eq_true, if_false] at h2
    obtain ⟨n, s2, h3, h4⟩ := bind_ok h2
    have hn := specReadBits_lt' 3 s1 s2 n h3
    by_cases hn0 : n ≠ 0
    · simp only [hn0, ne_eq, not_false_eq_true, if_true] at h4
      cases h4; omega
    · simp only [hn0, if_false] at h4
      obtain ⟨m, s3, h5, h6⟩ := bind_ok h4
      have hm := specReadBits_lt' 3 s2 s3 m h5
      by_cases hm0 : m = 0
      · simp only [hm0, if_true] at h6
        cases h6; omega
      · by_cases hm1 : m = 1
        · simp only [hm1, if_true] at h6
          cases h6
        · simp only [hm0, hm1, if_false] at h6
          cases h6; omega

theorem mtfOK_init : MtfOK ({} : Mtf) := by
  refine ⟨List.length_replicate .., by decide, ?_⟩
  intro i h1 h2
  have : ({} : Mtf).tail = 0 := rfl
  rw [this] at h1; omega

attribute [local irreducible] Impl.decWinBits in
/-- **Stream level.** Given the simulation of compressed meta-blocks, the reader model started on
    `bytes` ends like the specification's `readStream`. -/
theorem stream_sim_on (sd : ByteArray) (hW : WinBitsSim) (I G : St → Prop)
    (hReach : ∀ ws, Reach sd ws I G) (hC : CompressedSimOnZ sd G) (bytes : List UInt8)
    (hI0 : ∀ w st1, readWindowBits { bits := Bits.ofBytes bytes, used := 0, out := #[] } = (.ok w, st1) → I st1) :
    Outcome sd (init bytes) [] (8 * bytes.length)
      (readStream sd { bits := Bits.ofBytes bytes, used := 0, out := #[] }) := by
  generalize hst0 : ({ bits := Bits.ofBytes bytes, used := 0, out := #[] } : St) = st0 at hI0 ⊢
  have hrd0 : (init bytes).rd = brOf st0 := by rw [← hst0]; rfl
  have hlen0 : st0.bits.length = 8 * bytes.length := by rw [← hst0]; exact length_ofBytes bytes
  have hused0 : st0.used = 0 := by rw [← hst0]
  have hout0 : st0.out = #[] := by rw [← hst0]
  have hstep : stepOnce sd (init bytes) = fin (readStreamHeader (init bytes)) := by
    rw [stepOnce_eq]; rfl
  have hsim := hW st0
  unfold SimAt at hsim
  have main : Progress (init bytes) (fin (readStreamHeader (init bytes))) ∧
      Outcome sd (fin (readStreamHeader (init bytes))) [] (8 * bytes.length) (readStream sd st0) := by
    rw [readStreamHeader_eq, hrd0]
    unfold readStream
    rw [Dec_bind_apply]
    rcases hx : (do let w ← Impl.readSymbol Impl.decWinBits
                    if w = 0 then Impl.panic .corrupted else pure w : Impl.M Nat) (brOf st0) with ⟨e | w, r⟩ <;>
      rcases hy : readWindowBits st0 with ⟨e' | w', st1⟩ <;> rw [hx, hy] at hsim <;> simp only at hsim
    · -- bad WBITS
      refine ⟨progress_error _ _ _, ?_⟩
      refine ⟨[], e, ?_, hsim.1, ?_⟩
      · have := trace_latched sd (fin (.error e, { (init bytes) with rd := r })) e (by rw [fin_err])
        rw [fin_err] at this ⊢
        exact this
      · rw [hsim.2, hout0]; exact Agree.refl _
    · obtain ⟨k, hk, hr, hst, hw⟩ := hsim
      subst hr hst hw
      obtain ⟨hw10, hw24⟩ := readWindowBits_range st0 _ w hy
      have hws : 1 ≤ 2 ^ w - 16 := by
        have : 2 ^ 10 ≤ 2 ^ w := Nat.pow_le_pow_right (by omega) hw10
        omega
      simp only [Dec_bind_apply]
      have hrem : remainingBits (stAt st0 k) = (.ok (stAt st0 k).bits.length, stAt st0 k) := rfl
      rw [hrem]
      simp only
      have hRel0 : Rel (2 ^ w - 16) { (init bytes) with rd := brOf (stAt st0 k), dict := Dict.init (2 ^ w - 16) (init bytes).dict.cap } (stAt st0 k) {} [] := by
        constructor
        · rfl
        · rfl
        · rfl
        · rfl
        · rfl
        · have : (stAt st0 k).out.toList = [] := by rw [stAt_out, hout0]
          rw [this]
          exact Inv.init (2 ^ w - 16) 0 hws
        · intro h
          have h1 : (Dict.init (2 ^ w - 16) 0).wrPos = 0 := by simp [Dict.init]
          have h2 : (Dict.init (2 ^ w - 16) 0).hist.size = min 4096 (2 ^ w - 16) := by simp [Dict.init, initSize]
          have h3 : ({ (init bytes) with rd := brOf (stAt st0 k), dict := Dict.init (2 ^ w - 16) (init bytes).dict.cap } : State).dict = Dict.init (2 ^ w - 16) 0 := rfl
          rw [h3, h1, h2] at h
          omega
        · exact ⟨rfl, rfl, rfl, rfl⟩
        · exact ⟨by decide, by decide, by decide, by decide⟩
        · simp only [stAt_used, stAt_bits, List.length_drop]; omega
        · exact mtfOK_init
      have hRel : RelZ (2 ^ w - 16) { (init bytes) with rd := brOf (stAt st0 k), dict := Dict.init (2 ^ w - 16) (init bytes).dict.cap } (stAt st0 k) {} [] :=
        ⟨hRel0, Zeros.init _ _, ⟨by show 4 ≤ _; omega, by show 11 ≤ _; omega, by show 15 ≤ _; omega, by show 16 ≤ _; omega⟩, by
          have : 2 ^ 10 ≤ 2 ^ w := Nat.pow_le_pow_right (by omega) hw10
          omega⟩
      have hact := hdr_action sd (2 ^ w - 16) (8 * bytes.length) (stAt st0 k).bits.length I G (hReach _) hC
        (blocks_sim sd _ _ I G (hReach _) hC _) _ (stAt st0 k) {} [] (hI0 w _ hy) hRel rfl (Nat.le_refl _)
        (by simp only [stAt_bits, List.length_drop]; omega)
      refine ⟨hact.1.of_le ?_, hact.2⟩
      simp only [brOf_bits, stAt_bits, List.length_drop, hrd0]; omega
  exact Outcome.step rfl rfl (by rw [hstep]; exact main.1) (by rw [hstep]; exact main.2)

attribute [local irreducible] Impl.decWinBits in
/-- the stream level with the simulation of compressed meta-blocks available everywhere. -/
theorem stream_sim (sd : ByteArray) (hW : WinBitsSim) (hC : CompressedSimZ sd) (bytes : List UInt8) :
    Outcome sd (init bytes) [] (8 * bytes.length)
      (readStream sd { bits := Bits.ofBytes bytes, used := 0, out := #[] }) :=
  stream_sim_on sd hW (fun _ => True) (fun _ => True) (fun ws => Reach.trivial sd ws) hC bytes
    (fun _ _ _ => True.intro)

/-! ### layer (c): streams without compressed meta-blocks -/

/-- the specification's walk over the meta-block headers from `st` meets only metadata and
    uncompressed meta-blocks (or the end of the stream, or an invalid header). -/
inductive RawOnly : St → Prop
  | bad {st st1 : St} {e : Err} : specHdr st = (.error e, st1) → RawOnly st
  | lastEmpty {st st1 : St} : specHdr st = (.ok .lastEmpty, st1) → RawOnly st
  | metadata {st st1 : St} {last : Bool} {skip : Nat} : specHdr st = (.ok (.metadata last skip), st1) →
      (last = false → ∀ st', (alignToByte >>= fun _ => skipBytes skip) st1 = (.ok (), st') → RawOnly st') →
      RawOnly st
  | raw {st st1 : St} {last : Bool} {mlen : Nat} : specHdr st = (.ok (.data last mlen true), st1) →
      (∀ st', (alignToByte >>= fun _ => copyBytes mlen) st1 = (.ok (), st') → RawOnly st') → RawOnly st

theorem reach_rawOnly (sd : ByteArray) (ws : Nat) : Reach sd ws RawOnly (fun _ => False) := by
  refine ⟨?_, ?_, ?_, ?_⟩
  · intro st st1 last mlen hI h
    cases hI with
    | bad h' => rw [h] at h'; cases h'
    | lastEmpty h' => rw [h] at h'; cases h'
    | metadata h' _ => rw [h] at h'; cases h'
    | raw h' _ => rw [h] at h'; cases h'
  · intro st st1 skip st' hI h hrun
    cases hI with
    | bad h' => rw [h] at h'; cases h'
    | lastEmpty h' => rw [h] at h'; cases h'
    | metadata h' hn => rw [h] at h'; cases h'; exact hn rfl st' hrun
    | raw h' _ => rw [h] at h'; cases h'
  · intro st st1 mlen st' hI h hrun
    cases hI with
    | bad h' => rw [h] at h'; cases h'
    | lastEmpty h' => rw [h] at h'; cases h'
    | metadata h' _ => rw [h] at h'; cases h'
    | raw h' hn => rw [h] at h'; cases h'; exact hn st' hrun
  · intro st st1 mlen ds ds' st' hI h _
    cases hI with
    | bad h' => rw [h] at h'; cases h'
    | lastEmpty h' => rw [h] at h'; cases h'
    | metadata h' _ => rw [h] at h'; cases h'
    | raw h' _ => rw [h] at h'; cases h'

attribute [local irreducible] Impl.decWinBits in
/-- **Layer (c), end to end.** On a stream whose meta-blocks are all metadata or uncompressed ones the
    reader model ends like the specification — no hypothesis about compressed meta-blocks. -/
theorem stream_sim_uncompressed (sd : ByteArray) (hW : WinBitsSim) (bytes : List UInt8)
    (hU : ∀ w st1, readWindowBits { bits := Bits.ofBytes bytes, used := 0, out := #[] } = (.ok w, st1) → RawOnly st1) :
    Outcome sd (init bytes) [] (8 * bytes.length)
      (readStream sd { bits := Bits.ofBytes bytes, used := 0, out := #[] }) :=
  stream_sim_on sd hW RawOnly (fun _ => False) (fun ws => reach_rawOnly sd ws)
    (fun _ _ _ _ _ _ hG => hG.elim) bytes hU

end Compress.Proofs.BrImpl
