/-
C11 helper: what the `ReadByte` loop of `PullBits` does to the source and the
counters, and the `ReadSymbol` retry loop on a ReadByte-only source.
-/
import Compress.Proofs.BitIOExCanon
import Compress.Proofs.BitIOReaderByte

namespace Compress.Proofs.BitIOExact
open Compress Compress.Prefix Compress.Proofs.PrefixTables Compress.Proofs.BitIO

/-- the `ReadByte` loop takes `k` bytes, counts them in `offset` and `numBits`, and stops as
    soon as `nb` bits are there. -/
theorem pullBytes_track (nb : Nat) : ∀ (fuel : Nat) (r : BR),
    ∃ k, ((BR.pullBytes nb fuel r).1).src.data = r.src.data.drop k ∧ k ≤ r.src.data.length ∧
      ((BR.pullBytes nb fuel r).1).offset = r.offset + (k : Int) ∧
      ((BR.pullBytes nb fuel r).1).numBits = r.numBits + 8 * k ∧
      (k = 0 ∨ ((BR.pullBytes nb fuel r).1).numBits < nb + 8) ∧
      ((BR.pullBytes nb fuel r).1).bigEndian = r.bigEndian ∧
      ((BR.pullBytes nb fuel r).1).src.buffered? = r.src.buffered?
  | 0, r => ⟨0, by simp [BR.pullBytes]⟩
  | fuel+1, r => by
    rw [BR.pullBytes]
    by_cases hge : r.numBits ≥ nb
    · rw [if_pos hge]; exact ⟨0, by simp⟩
    · rw [if_neg hge]
      rcases r with ⟨off, bb, nbits, big, bp, db, fb, src⟩
      rcases src with ⟨data, fa, ft, adv, pk, bf⟩
      simp only at hge
      cases data with
      | nil => exact ⟨0, by simp [Source.readByte]⟩
      | cons b rest =>
        simp only [Source.readByte]
        by_cases hav : (Source.mk (b :: rest) fa ft adv pk bf).avail ≥ 1
        · rw [if_pos hav]
          simp only []
          obtain ⟨k, h1, h2, h3, h4, h5, h6, h7⟩ := pullBytes_track nb fuel
            { offset := off + 1, bufBits := (bb ||| ((if big = true then revByte b else b).toNat * 2 ^ nbits)) % two64,
              numBits := nbits + 8, bigEndian := big, bufPeek := bp, discardBits := db, fedBits := fb,
              src := (Source.mk (b :: rest) fa ft adv pk bf).consume 1 }
          simp only [Source.consume, List.drop_succ_cons, List.drop_zero] at h1 h2 h3 h4 h5 h6 h7
          refine ⟨k + 1, ?_, ?_, ?_, ?_, ?_, h6, h7⟩
          · simp only [Source.consume, List.drop_succ_cons, List.drop_zero]; exact h1
          · simp only [List.length_cons]; omega
          · simp only [Source.consume, List.drop_succ_cons, List.drop_zero]; rw [h3]; omega
          · simp only [Source.consume, List.drop_succ_cons, List.drop_zero]; rw [h4]; omega
          · right
            simp only [Source.consume, List.drop_succ_cons, List.drop_zero]
            rcases h5 with rfl | h5
            · rw [h4]; omega
            · exact h5
        · rw [if_neg hav]; exact ⟨0, by simp⟩

theorem bufBits_eq (r : BR) (h : ByteInv r) : r.bufBits = absVal r % 2 ^ r.numBits := by
  rw [absVal, Nat.add_mul_mod_self_left, Nat.mod_eq_of_lt h.lt]

theorem chunks_size_ne (cs : List Code) (h : GoodCodes cs) : (Decoder.init cs).chunks.size ≠ 0 := by
  obtain ⟨n, ch1, res, hfold, hcm, hlm, hcb, hmb⟩ := init_fields cs h.two
  have inv := fill_inv cs h.pf h.vals _ n ((Decoder.init cs).linkMask + 1) ch1 res (by omega)
  rw [← hfold] at inv
  have := inv.size1
  have hpos : 0 < 2 ^ (min (maxLen cs) 9) := Nat.two_pow_pos _
  simp only at this
  omega

theorem go_succ (d : Decoder) (fuel nb : Nat) (r : BR) : BR.readSymbol.go d (fuel+1) nb r =
    match r.pullBits nb with
    | (r, some err) => (r, .error err)
    | (r, none) =>
      if (d.lookup (r.bufBits % 2 ^ 32)).2 ≤ r.numBits then
        ({ r with bufBits := r.bufBits / 2 ^ (d.lookup (r.bufBits % 2 ^ 32)).2,
                  numBits := r.numBits - (d.lookup (r.bufBits % 2 ^ 32)).2 },
          .ok (d.lookup (r.bufBits % 2 ^ 32)).1)
      else BR.readSymbol.go d fuel (d.lookup (r.bufBits % 2 ^ 32)).2 r := by
  rw [BR.readSymbol.go]
  rcases r.pullBits nb with ⟨r1, _ | e⟩ <;> rfl

/-- the retry loop of `ReadSymbol` on a byte source whose remaining stream (as a number `V`
    of `L` bits) starts with the word of `c`. -/
theorem go_spec (cs : List Code) (h : GoodCodes cs) (hnd : cs.Nodup) (hcan : Canonical cs)
    (c : Code) (hc : c ∈ cs) (V L : Nat) (hV : V % 2 ^ c.len = c.val) (hL : c.len ≤ L) :
    ∀ (fuel nb : Nat) (r : BR), ByteInv r → absVal r = V → absLen r = L → nb ≤ c.len →
      r.numBits < c.len + 8 → c.len + 1 ≤ fuel + min c.len (max r.numBits nb) →
      ∃ r1, BR.readSymbol.go (Decoder.init cs) fuel nb r = (r1, .ok c.sym) ∧ ByteInv r1 ∧
        absVal r1 = V / 2 ^ c.len ∧ absLen r1 = L - c.len ∧ r1.numBits < 8 ∧
        r1.bigEndian = r.bigEndian
  | 0, nb, r, _, _, _, _, _, hf => by omega
  | fuel+1, nb, r, hI, hv, hl, hnb, hnum, hf => by
    have hc27 : c.len ≤ 27 := (h.lens c hc).2
    rw [go_succ]
    have e : r.pullBits nb = BR.pullBytes nb 9 r := by simp [BR.pullBits, hI.mode]
    rw [e]
    obtain ⟨k, _, _, _, t4, t5, t6, _⟩ := pullBytes_track nb 9 r
    rcases pullBytes_spec nb (by omega) 9 r hI (by omega) with ⟨r1, p1, p2, p3, p4, p5⟩ | ⟨r1, p1, p2⟩
    · rw [p1] at t4 t5 t6 ⊢
      simp only at t4 t5 t6 ⊢
      have hbb := bufBits_eq r1 p2
      rw [p4, hv] at hbb
      have h32 : (2:Nat) ^ c.len ∣ 2 ^ 32 := Nat.pow_dvd_pow 2 (by omega)
      by_cases hdone : c.len ≤ r1.numBits
      · -- the whole word is in the buffer
        have hlk : (Decoder.init cs).lookup (r1.bufBits % 2 ^ 32) = (c.sym, c.len) := by
          apply decoder_lookup_val cs h.two (fun c hc => (h.lens c hc).2) h.vals h.pf c hc
          rw [Nat.mod_mod_of_dvd _ h32, hbb, Nat.mod_mod_of_dvd _ (Nat.pow_dvd_pow 2 hdone)]
          exact hV
        rw [hlk]
        simp only []
        rw [if_pos hdone]
        obtain ⟨_, _, q1, q2, q3⟩ := byteRel_cons r1 (absVal r1) (absLen r1) c.len ⟨p2, rfl, rfl⟩ hdone
        refine ⟨_, rfl, q1, ?_, ?_, ?_, t6⟩
        · rw [← q2, p4, hv]
        · rw [← q3, p5, hl]
        · simp only; omega
      · -- only a proper prefix is there: the table suggests a code no longer than `c`
        have hk : r1.numBits < c.len := by omega
        have hsmall : r1.bufBits < 2 ^ 32 :=
          Nat.lt_of_lt_of_le p2.lt (Nat.pow_le_pow_right (by omega) (by omega))
        obtain ⟨c', hc', hv'⟩ := cover cs h hnd r1.bufBits
        have hz := zeroExt_len cs h hcan c hc c' hc' V r1.numBits hV hk (by rw [← hbb]; exact hv')
        have hlk : (Decoder.init cs).lookup (r1.bufBits % 2 ^ 32) = (c'.sym, c'.len) := by
          apply decoder_lookup_val cs h.two (fun c hc => (h.lens c hc).2) h.vals h.pf c' hc'
          rw [Nat.mod_eq_of_lt hsmall]; exact hv'
        rw [hlk]
        simp only []
        rw [if_neg (by omega)]
        obtain ⟨r2, g1, g2, g3, g4, g5, g6⟩ := go_spec cs h hnd hcan c hc V L hV hL fuel c'.len r1 p2
          (by rw [p4, hv]) (by rw [p5, hl]) hz.2 (by omega) (by omega)
        exact ⟨r2, g1, g2, g3, g4, g5, g6.trans t6⟩
    · rw [hl] at p2; omega

theorem bits_eq_of_toNat (a b : Bits) (h1 : a.length = b.length) (h2 : Bits.toNat a = Bits.toNat b) :
    a = b := by
  rw [← BitIO.ofNat_toNat a, ← BitIO.ofNat_toNat b, h1, h2]

theorem absVal_eq_toNat (r : BR) (h : r.bufBits < 2 ^ r.numBits) :
    absVal r = Bits.toNat (Bits.ofNat r.bufBits r.numBits ++ streamBits r.bigEndian r.src.data) := by
  rw [BitIO.toNat_append, BitIO.toNat_ofNat, Nat.mod_eq_of_lt h, BitIO.length_ofNat, toNat_streamBits,
    absVal]

theorem absLen_eq_length (r : BR) :
    absLen r = (Bits.ofNat r.bufBits r.numBits ++ streamBits r.bigEndian r.src.data).length := by
  rw [List.length_append, BitIO.length_ofNat, length_streamBits, absLen]

end Compress.Proofs.BitIOExact
