/-
bzip2 round trip: the stream level (`readBlocks`, `decodeStreams`).
-/
import Compress.Proofs.BzRTBlock
import Compress.Proofs.Bzip2Crc

namespace Compress.Proofs.BzRT
open Compress Compress.Bzip2 Compress.Prefix

/-! ### checksums stay below 2^32 -/

theorem blockCRC_lt (bs : List UInt8) : blockCRC bs < 2 ^ 32 := by
  unfold blockCRC
  exact Nat.xor_lt_two_pow (Bzip2Crc.foldl_lt bs _ (by decide)) (by decide)

theorem combineCRC_lt (e b : Nat) (he : e < 2 ^ 32) (hb : b < 2 ^ 32) : combineCRC e b < 2 ^ 32 := by
  unfold combineCRC
  refine Nat.xor_lt_two_pow ?_ hb
  omega

/-! ### the block loop of `encodeStream` -/

/-- the fold step of `encodeStream`. -/
def streamStep (st : Option (Bits × Nat)) (blk : List UInt8 × List UInt8) : Option (Bits × Nat) :=
  match st with
  | none => none
  | some (bits, endCRC) =>
    let crc := blockCRC blk.2
    match encodeBlock blk.1 crc with
    | none => none
    | some bb => some (bits ++ bb, combineCRC endCRC crc)

theorem encodeStream_eq (level : Nat) (data : List UInt8) :
    encodeStream level data =
      match (splitBlocks (level * blockSize) (data.length + 1) data).foldl streamStep
          (some (bitsBE hdrMagic 16 ++ bitsBE 0x68 8 ++ bitsBE (0x30 + level) 8, 0)) with
      | none => none
      | some (bits, endCRC) =>
        some (Bits.toBytesMSB (bits ++ bitsBE endMagic 48 ++ bitsBE endCRC 32)) := rfl

theorem foldl_streamStep_none (l : List (List UInt8 × List UInt8)) : l.foldl streamStep none = none := by
  induction l with
  | nil => rfl
  | cons a l ih => simpa [List.foldl_cons, streamStep] using ih

theorem foldl_streamStep_total (l : List (List UInt8 × List UInt8)) (st : Bits × Nat) :
    ∃ r, l.foldl streamStep (some st) = some r := by
  induction l generalizing st with
  | nil => exact ⟨st, rfl⟩
  | cons a l ih =>
    obtain ⟨bb, hbb⟩ := encodeBlock_total a.1 (blockCRC a.2)
    rw [List.foldl_cons]
    obtain ⟨bits, c⟩ := st
    simp only [streamStep, hbb]
    exact ih _

theorem readBlocks_blocks (level : Nat) (hl : 1 ≤ level ∧ level ≤ 9) :
    ∀ (blocks : List (List UInt8 × List UInt8)) (pre : Bits) (c0 : Nat) (bits : Bits) (endCRC : Nat),
    (∀ blk ∈ blocks, blk.1 ≠ [] ∧ blk.1.length ≤ level * blockSize ∧
      rle1Decode (blk.1.length + 1) blk.1 none 0 [] = some blk.2) →
    c0 < 2 ^ 32 →
    blocks.foldl streamStep (some (pre, c0)) = some (bits, endCRC) →
    ∃ bb, bits = pre ++ bb ∧ blocks.length ≤ bb.length ∧ endCRC < 2 ^ 32 ∧
      ∀ (fuel : Nat) (out : Array UInt8) (tail : Bits), blocks.length < fuel →
        readBlocks level fuel c0 out (bb ++ (bitsBE endMagic 48 ++ (bitsBE endCRC 32 ++ tail)))
          = ({ out := out ++ ((blocks.map (·.2)).flatten).toArray, verdict := .ok },
              some (tail.drop (tail.length % 8))) := by
  intro blocks
  induction blocks with
  | nil =>
    intro pre c0 bits endCRC _ hc h
    simp only [List.foldl_nil, Option.some.injEq, Prod.mk.injEq] at h
    obtain ⟨rfl, rfl⟩ := h
    refine ⟨[], by simp, by simp, hc, ?_⟩
    intro fuel out tail hf
    obtain ⟨f, rfl⟩ : ∃ f, fuel = f + 1 := ⟨fuel - 1, by simp at hf; omega⟩
    rw [readBlocks]
    simp only [List.nil_append]
    rw [readBE_bitsBE endMagic 48 (by decide)]
    simp only [if_true]
    rw [readBE_bitsBE c0 32 hc]
    simp
  | cons blk rest ih =>
    intro pre c0 bits endCRC hb hc h
    rw [List.foldl_cons] at h
    obtain ⟨b1, b2, b3⟩ := hb blk (by simp)
    cases he : encodeBlock blk.1 (blockCRC blk.2) with
    | none =>
      simp only [streamStep, he] at h
      rw [foldl_streamStep_none] at h
      cases h
    | some bb1 =>
      simp only [streamStep, he] at h
      have hcrc := blockCRC_lt blk.2
      obtain ⟨bb', e1, e2, e3, e4⟩ := ih (pre ++ bb1) (combineCRC c0 (blockCRC blk.2)) bits endCRC
        (fun x hx => hb x (by simp [hx])) (combineCRC_lt _ _ hc hcrc) h
      refine ⟨bb1 ++ bb', by rw [e1, List.append_assoc], ?_, e3, ?_⟩
      · obtain ⟨tl, t1, _⟩ := readBlock_encodeBlock level hl blk.1 b1 b2 _ hcrc bb1 he []
        rw [t1]
        simp only [List.length_append, List.length_cons, bitsBE_length]
        omega
      · intro fuel out tail hf
        obtain ⟨f, rfl⟩ : ∃ f, fuel = f + 1 := ⟨fuel - 1, by simp at hf; omega⟩
        obtain ⟨tl, t1, t2⟩ := readBlock_encodeBlock level hl blk.1 b1 b2 _ hcrc bb1 he
          (bb' ++ (bitsBE endMagic 48 ++ (bitsBE endCRC 32 ++ tail)))
        rw [readBlocks, t1]
        simp only [List.append_assoc]
        rw [readBE_bitsBE blkMagic 48 (by decide)]
        simp only []
        rw [if_neg (by decide), if_neg (by simp), t2]
        simp only [unrle1, List.size_toArray, b3]
        rw [if_neg (by simp)]
        rw [e4 f _ tail (by simpa using hf)]
        simp

/-! ### one stream -/

theorem drop_pad (pad : Nat) (hp : pad < 8) (more : List UInt8) :
    (List.replicate pad false ++ Bits.ofBytesMSB more).drop
      ((List.replicate pad false ++ Bits.ofBytesMSB more).length % 8) = Bits.ofBytesMSB more := by
  rw [List.length_append, List.length_replicate, ofBytesMSB_length]
  have : (pad + 8 * more.length) % 8 = pad := by omega
  rw [this, List.drop_append_of_le_length (by simp)]
  simp

/-- decoding one emitted stream, followed by arbitrary further bytes. -/
theorem decodeStreams_stream (level : Nat) (hl : 1 ≤ level ∧ level ≤ 9) (data bytes : List UInt8)
    (h : encodeStream level data = some bytes) (fuel n : Nat) (out : Array UInt8) (more : List UInt8) :
    decodeStreams (fuel + 1) n out (Bits.ofBytesMSB (bytes ++ more))
      = decodeStreams fuel (n + 1) (out ++ data.toArray) (Bits.ofBytesMSB more) := by
  rw [encodeStream_eq] at h
  cases hf : (splitBlocks (level * blockSize) (data.length + 1) data).foldl streamStep
      (some (bitsBE hdrMagic 16 ++ bitsBE 0x68 8 ++ bitsBE (0x30 + level) 8, 0)) with
  | none => rw [hf] at h; cases h
  | some r =>
    obtain ⟨bits, endCRC⟩ := r
    rw [hf] at h
    simp only [Option.some.injEq] at h
    have hcap : 1 ≤ level * blockSize := by
      show 1 ≤ level * 100000
      omega
    obtain ⟨s1, s2⟩ := splitBlocks_spec (level * blockSize) hcap (data.length + 1) data (by omega)
    obtain ⟨bb, e1, e2, e3, e4⟩ := readBlocks_blocks level hl _ _ 0 bits endCRC s2 (by decide) hf
    obtain ⟨pad, p1, _, p3⟩ := ofBytesMSB_toBytesMSB (bits ++ bitsBE endMagic 48 ++ bitsBE endCRC 32)
    rw [ofBytesMSB_append, ← h, p3, e1]
    simp only [List.append_assoc]
    rw [decodeStreams]
    have hne : (bitsBE hdrMagic 16 ++ (bitsBE 104 8 ++ (bitsBE (48 + level) 8 ++ (bb ++ (bitsBE endMagic 48 ++
        (bitsBE endCRC 32 ++ (List.replicate pad false ++ Bits.ofBytesMSB more))))))).isEmpty = false := by
      rw [List.isEmpty_eq_false_iff]
      intro h0
      have := congrArg List.length h0
      simp [bitsBE_length] at this
    rw [hne]
    simp only [Bool.false_eq_true, if_false]
    rw [readBE_bitsBE hdrMagic 16 (by decide)]
    simp only [ne_eq, not_true_eq_false, if_false]
    rw [readBE_bitsBE 104 8 (by decide)]
    simp only [not_true_eq_false, if_false]
    rw [readBE_bitsBE (48 + level) 8 (by omega)]
    simp only []
    rw [if_neg (by omega)]
    have hlv : 48 + level - 48 = level := by omega
    rw [hlv, e4 _ out _ (by simp only [List.length_append]; omega)]
    simp only [s1]
    rw [drop_pad pad p1]

end Compress.Proofs.BzRT
