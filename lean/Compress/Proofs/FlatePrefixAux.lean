/-
Prefix-monotonicity ("locality") of the components of the DEFLATE
specification decoder.  For each component `P`:

  if `P xs` succeeds with value `v` leaving `rest`, there is a consumed part
  `c` with `xs = c ++ rest` such that on every input `zs` comparable with `c`
  in the prefix order
    * either `zs = c ++ ys` and `P zs` succeeds with the same `v` leaving `ys`,
    * or `zs` is strictly shorter than `c` and `P zs` runs out of input.
-/
import Compress.Flate.Spec

namespace Compress.Proofs.FlatePrefix
open Compress Compress.Flate

/-- `c` and `zs` are comparable in the prefix order. -/
def Agree (c zs : Bits) : Prop := c <+: zs ∨ zs <+: c

theorem agree_nil_left (zs : Bits) : Agree [] zs := Or.inl List.nil_prefix
theorem agree_nil_right (c : Bits) : Agree c [] := Or.inr List.nil_prefix

theorem agree_left {c1 c2 zs : Bits} (h : Agree (c1 ++ c2) zs) : Agree c1 zs := by
  rcases h with h | h
  · exact Or.inl (List.IsPrefix.trans (List.prefix_append c1 c2) h)
  · exact (List.prefix_or_prefix_of_prefix (List.prefix_append c1 c2) h)

theorem agree_cancel {c1 c2 ys : Bits} (h : Agree (c1 ++ c2) (c1 ++ ys)) : Agree c2 ys := by
  rcases h with h | h
  · exact Or.inl ((List.prefix_append_right_inj c1).1 h)
  · exact Or.inr ((List.prefix_append_right_inj c1).1 h)

theorem agree_append {c1 c2 ys : Bits} (h : Agree c2 ys) : Agree (c1 ++ c2) (c1 ++ ys) := by
  rcases h with h | h
  · exact Or.inl ((List.prefix_append_right_inj c1).2 h)
  · exact Or.inr ((List.prefix_append_right_inj c1).2 h)

theorem agree_cons {b b' : Bool} {c zs : Bits} (h : Agree (b :: c) (b' :: zs)) :
    b = b' ∧ Agree c zs := by
  rcases h with h | h
  · rw [List.cons_prefix_cons] at h; exact ⟨h.1, Or.inl h.2⟩
  · rw [List.cons_prefix_cons] at h; exact ⟨h.1.symm, Or.inr h.2⟩

/-- comparable with `c`: an extension of `c`, or strictly shorter. -/
theorem agree_cases {c zs : Bits} (h : Agree c zs) :
    (∃ ys, zs = c ++ ys) ∨ (zs.length < c.length ∧ zs <+: c) := by
  rcases h with h | h
  · obtain ⟨ys, rfl⟩ := h; exact Or.inl ⟨ys, rfl⟩
  · by_cases hl : zs.length < c.length
    · exact Or.inr ⟨hl, h⟩
    · have : zs = c := h.eq_of_length_le (by omega)
      exact Or.inl ⟨[], by simp [this]⟩

/-! ### takeBits -/

theorem takeBits_some {n : Nat} {xs : Bits} {v : Nat} {rest : Bits}
    (h : takeBits n xs = some (v, rest)) :
    n ≤ xs.length ∧ v = Bits.toNat (xs.take n) ∧ rest = xs.drop n := by
  unfold takeBits at h
  simp only [List.length_take] at h
  split at h
  · cases h
  · simp only [Option.some.injEq, Prod.mk.injEq] at h
    exact ⟨by omega, h.1.symm, h.2.symm⟩

theorem takeBits_append {n : Nat} (c ys : Bits) (hc : c.length = n) :
    takeBits n (c ++ ys) = some (Bits.toNat c, ys) := by
  subst hc
  unfold takeBits
  simp

theorem takeBits_short {n : Nat} {zs : Bits} (h : zs.length < n) : takeBits n zs = none := by
  unfold takeBits
  simp only [List.length_take]
  rw [if_pos (by omega)]

/-- the shape all `Option`-valued components share. -/
def GoodO {α : Type} (P : Bits → Option (α × Bits)) (c : Bits) (v : α) : Prop :=
  ∀ zs, Agree c zs →
    (∃ ys, zs = c ++ ys ∧ P zs = some (v, ys)) ∨ (zs.length < c.length ∧ P zs = none)

theorem takeBits_good {n : Nat} {xs : Bits} {v : Nat} {rest : Bits}
    (h : takeBits n xs = some (v, rest)) :
    ∃ c, xs = c ++ rest ∧ c.length = n ∧ GoodO (takeBits n) c v := by
  obtain ⟨hn, hv, hr⟩ := takeBits_some h
  refine ⟨xs.take n, by rw [hr, List.take_append_drop], by simp [hn], ?_⟩
  intro zs hz
  have hcl : (xs.take n).length = n := by simp [hn]
  rcases agree_cases hz with ⟨ys, rfl⟩ | ⟨hl, _⟩
  · exact Or.inl ⟨ys, rfl, by rw [takeBits_append _ _ hcl, hv]⟩
  · exact Or.inr ⟨hl, takeBits_short (by omega)⟩

/-! ### readCLens -/

theorem readCLens_good : ∀ (ps : List Nat) (acc : Array Nat) (xs : Bits) (v : Array Nat) (rest : Bits),
    readCLens ps acc xs = some (v, rest) →
    ∃ c, xs = c ++ rest ∧ GoodO (readCLens ps acc) c v := by
  intro ps
  induction ps with
  | nil =>
    intro acc xs v rest h
    simp only [readCLens, Option.some.injEq, Prod.mk.injEq] at h
    obtain ⟨rfl, rfl⟩ := h
    refine ⟨[], rfl, ?_⟩
    intro zs _
    exact Or.inl ⟨zs, rfl, by simp [readCLens]⟩
  | cons p ps ih =>
    intro acc xs v rest h
    simp only [readCLens] at h
    split at h
    · cases h
    · rename_i v1 r1 h1
      obtain ⟨c1, rfl, hc1, g1⟩ := takeBits_good h1
      obtain ⟨c2, rfl, g2⟩ := ih _ _ _ _ h
      refine ⟨c1 ++ c2, by simp, ?_⟩
      intro zs hz
      rcases g1 zs (agree_left hz) with ⟨ys, rfl, e1⟩ | ⟨hl, e1⟩
      · rcases g2 ys (agree_cancel hz) with ⟨ys2, rfl, e2⟩ | ⟨hl2, e2⟩
        · exact Or.inl ⟨ys2, by simp, by simp only [readCLens, e1, e2]⟩
        · exact Or.inr ⟨by simp; omega, by simp only [readCLens, e1, e2]⟩
      · exact Or.inr ⟨by simp; omega, by simp only [readCLens, e1]⟩

/-! ### Huffman symbol decoding -/

/-- the shape for `Sym`-valued components; a symbol consumes at least one bit. -/
def GoodS (P : Bits → Sym) (c : Bits) (s : Nat) : Prop :=
  ∀ zs, Agree c zs →
    (∃ ys, zs = c ++ ys ∧ P zs = .sym s ys) ∨ (zs.length < c.length ∧ P zs = .eof)

theorem decodeAux_nil (t : HuffTab) (fuel len code first index : Nat) :
    t.decodeAux (fuel + 1) len code first index [] =
      if t.sorted.size = 0 then .invalid else .eof := rfl

theorem decodeAux_cons (t : HuffTab) (fuel len code first index : Nat) (b : Bool) (rest : Bits) :
    t.decodeAux (fuel + 1) len code first index (b :: rest) =
      if code + (if b then 1 else 0) < first + t.count.getD len 0 then
        match t.sorted[index + (code + (if b then 1 else 0) - first)]? with
        | some s => .sym s rest
        | none => .invalid
      else if index + t.count.getD len 0 ≥ t.sorted.size then .invalid
      else t.decodeAux fuel (len + 1) (2 * (code + (if b then 1 else 0)))
        (2 * (first + t.count.getD len 0)) (index + t.count.getD len 0) rest := rfl

theorem decodeAux_good (t : HuffTab) : ∀ (fuel len code first index : Nat) (xs : Bits) (s : Nat) (rest : Bits),
    t.decodeAux fuel len code first index xs = .sym s rest →
    ∃ c, xs = c ++ rest ∧ 0 < c.length ∧ GoodS (t.decodeAux fuel len code first index) c s := by
  intro fuel
  induction fuel with
  | zero => intro len code first index xs s rest h; simp [HuffTab.decodeAux] at h
  | succ fuel ih =>
    intro len code first index xs s rest h
    cases xs with
    | nil =>
      rw [decodeAux_nil] at h
      split at h <;> cases h
    | cons b xs =>
      rw [decodeAux_cons] at h
      generalize hcode : code + (if b = true then 1 else 0) = code' at h
      by_cases hlt : code' < first + t.count.getD len 0
      · rw [if_pos hlt] at h
        cases hs : t.sorted[index + (code' - first)]? with
        | none => rw [hs] at h; cases h
        | some s' =>
          rw [hs] at h
          simp only [Sym.sym.injEq] at h
          obtain ⟨rfl, rfl⟩ := h
          have hsz : t.sorted.size ≠ 0 := by
            intro h0
            have := Array.getElem?_eq_none (xs := t.sorted)
              (i := index + (code' - first)) (by omega)
            rw [this] at hs; cases hs
          refine ⟨[b], rfl, by simp, ?_⟩
          intro zs hz
          cases zs with
          | nil => exact Or.inr ⟨by simp, by rw [decodeAux_nil, if_neg hsz]⟩
          | cons b' zs =>
            obtain ⟨rfl, _⟩ := agree_cons hz
            exact Or.inl ⟨zs, rfl, by rw [decodeAux_cons, hcode, if_pos hlt, hs]⟩
      · rw [if_neg hlt] at h
        by_cases hidx : index + t.count.getD len 0 ≥ t.sorted.size
        · rw [if_pos hidx] at h; cases h
        · rw [if_neg hidx] at h
          obtain ⟨c, rfl, hc, g⟩ := ih _ _ _ _ _ _ _ h
          have hsz : t.sorted.size ≠ 0 := by omega
          refine ⟨b :: c, rfl, by simp, ?_⟩
          intro zs hz
          cases zs with
          | nil => exact Or.inr ⟨by simp, by rw [decodeAux_nil, if_neg hsz]⟩
          | cons b' zs =>
            obtain ⟨rfl, hz'⟩ := agree_cons hz
            rcases g zs hz' with ⟨ys, rfl, e⟩ | ⟨hl, e⟩
            · exact Or.inl ⟨ys, rfl, by rw [decodeAux_cons, hcode, if_neg hlt, if_neg hidx, e]⟩
            · exact Or.inr ⟨by simp; omega, by rw [decodeAux_cons, hcode, if_neg hlt, if_neg hidx, e]⟩

theorem decode_good (t : HuffTab) {xs : Bits} {s : Nat} {rest : Bits}
    (h : t.decode xs = .sym s rest) :
    ∃ c, xs = c ++ rest ∧ 0 < c.length ∧ GoodS t.decode c s :=
  decodeAux_good t _ _ _ _ _ _ _ _ h

/-! ### readLengths -/

/-- the shape for `Except`-valued components (`mk` packs value and rest). -/
def GoodE {α ρ : Type} (mk : α → Bits → ρ) (P : Bits → Except Verdict ρ) (c : Bits) (v : α) : Prop :=
  ∀ zs, Agree c zs →
    (∃ ys, zs = c ++ ys ∧ P zs = .ok (mk v ys)) ∨
    (zs.length < c.length ∧ P zs = .error .unexpectedEOF)

theorem goodE_nil {α ρ : Type} {mk : α → Bits → ρ} {P : Bits → Except Verdict ρ} {v : α}
    (h : ∀ zs, P zs = .ok (mk v zs)) : GoodE mk P [] v :=
  fun zs _ => Or.inl ⟨zs, rfl, h zs⟩

def GoodFnL {α ρ : Type} (mk : α → Bits → ρ) (P : Bits → Except Verdict ρ) : Prop :=
  ∀ xs v rest, P xs = .ok (mk v rest) → ∃ c, xs = c ++ rest ∧ GoodE mk P c v

/-- a genuine error verdict. -/
def IsErr (e : Verdict) : Prop := e = .corrupt ∨ e = .unexpectedEOF

/-- failures are reported as `corrupt` or `unexpectedEOF`. -/
def ErrOK {ρ : Type} (P : Bits → Except Verdict ρ) : Prop :=
  ∀ xs e, P xs = .error e → IsErr e

def GoodFn {α ρ : Type} (mk : α → Bits → ρ) (P : Bits → Except Verdict ρ) : Prop :=
  GoodFnL mk P ∧ ErrOK P

def GoodFnO {α : Type} (P : Bits → Option (α × Bits)) : Prop :=
  ∀ xs v rest, P xs = some (v, rest) → ∃ c, xs = c ++ rest ∧ GoodO P c v

def GoodFnS (P : Bits → Sym) : Prop :=
  ∀ xs s rest, P xs = .sym s rest → ∃ c, xs = c ++ rest ∧ 0 < c.length ∧ GoodS P c s

theorem takeBits_goodFn (n : Nat) : GoodFnO (takeBits n) := by
  intro xs v rest h
  obtain ⟨c, h1, _, h2⟩ := takeBits_good h
  exact ⟨c, h1, h2⟩

theorem readCLens_goodFn (ps : List Nat) (acc : Array Nat) : GoodFnO (readCLens ps acc) :=
  readCLens_good ps acc

theorem decode_goodFn (t : HuffTab) : GoodFnS t.decode := fun _ _ _ h => decode_good t h

theorem goodFn_pure {α ρ : Type} (mk : α → Bits → ρ)
    (hmk : ∀ a a' r r', mk a r = mk a' r' → a = a' ∧ r = r') (a : α) :
    GoodFn mk (fun bits => .ok (mk a bits)) := by
  refine ⟨?_, fun xs e h => by cases h⟩
  intro xs v rest h
  simp only [Except.ok.injEq] at h
  obtain ⟨rfl, rfl⟩ := hmk _ _ _ _ h
  exact ⟨[], rfl, goodE_nil (fun zs => rfl)⟩

theorem goodFn_error {α ρ : Type} (mk : α → Bits → ρ) :
    GoodFn mk (fun _ => (.error .corrupt : Except Verdict ρ)) := by
  refine ⟨?_, fun xs e h => by cases h; exact Or.inl rfl⟩
  intro xs v rest h; cases h

theorem goodFn_ite {α ρ : Type} {mk : α → Bits → ρ} (p : Prop) [Decidable p]
    {P : Bits → Except Verdict ρ} (hP : GoodFn mk P) :
    GoodFn mk (fun bits => if p then .error .corrupt else P bits) := by
  by_cases hp : p
  · simp only [if_pos hp]; exact goodFn_error mk
  · simp only [if_neg hp]; exact hP

theorem goodFn_bindO {α β ρ : Type} {mk : β → Bits → ρ} {P : Bits → Option (α × Bits)} (hP : GoodFnO P)
    {K : α → Bits → Except Verdict ρ} (hK : ∀ a, GoodFn mk (K a)) :
    GoodFn mk (fun bits => match P bits with
      | none => .error .unexpectedEOF
      | some (a, r) => K a r) := by
  refine ⟨?_, ?E⟩
  case E =>
    intro xs e h
    simp only at h
    cases h1 : P xs with
    | none => rw [h1] at h; cases h; exact Or.inr rfl
    | some ar =>
      obtain ⟨a, r⟩ := ar
      rw [h1] at h
      exact (hK a).2 _ _ h
  intro xs v rest h
  simp only at h
  cases h1 : P xs with
  | none => rw [h1] at h; cases h
  | some ar =>
    obtain ⟨a, r⟩ := ar
    rw [h1] at h
    simp only at h
    obtain ⟨c1, rfl, g1⟩ := hP _ _ _ h1
    obtain ⟨c2, rfl, g2⟩ := (hK a).1 _ _ _ h
    refine ⟨c1 ++ c2, by simp, ?_⟩
    intro zs hz
    rcases g1 zs (agree_left hz) with ⟨ys, rfl, e1⟩ | ⟨hl, e1⟩
    · rcases g2 ys (agree_cancel hz) with ⟨ys2, rfl, e2⟩ | ⟨hl2, e2⟩
      · exact Or.inl ⟨ys2, by simp, by simp only [e1, e2]⟩
      · exact Or.inr ⟨by simp; omega, by simp only [e1, e2]⟩
    · exact Or.inr ⟨by simp; omega, by simp only [e1]⟩

theorem goodFn_bindE {α β ρ : Type} {mk : β → Bits → ρ} {P : Bits → Except Verdict (α × Bits)}
    (hP : GoodFn Prod.mk P)
    {K : α → Bits → Except Verdict ρ} (hK : ∀ a, GoodFn mk (K a)) :
    GoodFn mk (fun bits => match P bits with
      | .error e => .error e
      | .ok (a, r) => K a r) := by
  refine ⟨?_, ?E⟩
  case E =>
    intro xs e h
    simp only at h
    cases h1 : P xs with
    | error e' => rw [h1] at h; cases h; exact hP.2 _ _ h1
    | ok ar =>
      obtain ⟨a, r⟩ := ar
      rw [h1] at h
      exact (hK a).2 _ _ h
  intro xs v rest h
  simp only at h
  cases h1 : P xs with
  | error e => rw [h1] at h; cases h
  | ok ar =>
    obtain ⟨a, r⟩ := ar
    rw [h1] at h
    simp only at h
    obtain ⟨c1, rfl, g1⟩ := hP.1 _ _ _ h1
    obtain ⟨c2, rfl, g2⟩ := (hK a).1 _ _ _ h
    refine ⟨c1 ++ c2, by simp, ?_⟩
    intro zs hz
    rcases g1 zs (agree_left hz) with ⟨ys, rfl, e1⟩ | ⟨hl, e1⟩
    · rcases g2 ys (agree_cancel hz) with ⟨ys2, rfl, e2⟩ | ⟨hl2, e2⟩
      · exact Or.inl ⟨ys2, by simp, by simp only [e1, e2]⟩
      · exact Or.inr ⟨by simp; omega, by simp only [e1, e2]⟩
    · exact Or.inr ⟨by simp; omega, by simp only [e1]⟩

theorem goodFn_bindS {β ρ : Type} {mk : β → Bits → ρ} {P : Bits → Sym} (hP : GoodFnS P)
    {K : Nat → Bits → Except Verdict ρ} (hK : ∀ a, GoodFn mk (K a)) :
    GoodFn mk (fun bits => match P bits with
      | .eof => .error .unexpectedEOF
      | .invalid => .error .corrupt
      | .sym a r => K a r) := by
  refine ⟨?_, ?E⟩
  case E =>
    intro xs e h
    simp only at h
    cases h1 : P xs with
    | eof => rw [h1] at h; cases h; exact Or.inr rfl
    | invalid => rw [h1] at h; cases h; exact Or.inl rfl
    | sym a r =>
      rw [h1] at h
      exact (hK a).2 _ _ h
  intro xs v rest h
  simp only at h
  cases h1 : P xs with
  | eof => rw [h1] at h; cases h
  | invalid => rw [h1] at h; cases h
  | sym a r =>
    rw [h1] at h
    simp only at h
    obtain ⟨c1, rfl, _, g1⟩ := hP _ _ _ h1
    obtain ⟨c2, rfl, g2⟩ := (hK a).1 _ _ _ h
    refine ⟨c1 ++ c2, by simp, ?_⟩
    intro zs hz
    rcases g1 zs (agree_left hz) with ⟨ys, rfl, e1⟩ | ⟨hl, e1⟩
    · rcases g2 ys (agree_cancel hz) with ⟨ys2, rfl, e2⟩ | ⟨hl2, e2⟩
      · exact Or.inl ⟨ys2, by simp, by simp only [e1, e2]⟩
      · exact Or.inr ⟨by simp; omega, by simp only [e1, e2]⟩
    · exact Or.inr ⟨by simp; omega, by simp only [e1]⟩

/-! the same three, with the shape of the composite given by equations (the
    matchers of the specification are not syntactically those above). -/

theorem goodFn_bindO' {α β ρ : Type} {mk : β → Bits → ρ} {P : Bits → Option (α × Bits)} (hP : GoodFnO P)
    {Q : Bits → Except Verdict ρ} (K : α → Bits → Except Verdict ρ)
    (hnone : ∀ bits, P bits = none → Q bits = .error .unexpectedEOF)
    (hsome : ∀ bits a r, P bits = some (a, r) → Q bits = K a r)
    (hK : ∀ a, GoodFn mk (K a)) : GoodFn mk Q := by
  have : Q = (fun bits => match P bits with
      | none => .error .unexpectedEOF
      | some (a, r) => K a r) := by
    funext bits
    cases h : P bits with
    | none => exact hnone bits h
    | some ar => exact hsome bits ar.1 ar.2 h
  rw [this]; exact goodFn_bindO hP hK

theorem goodFn_bindE' {α β ρ : Type} {mk : β → Bits → ρ} {P : Bits → Except Verdict (α × Bits)}
    (hP : GoodFn Prod.mk P)
    {Q : Bits → Except Verdict ρ} (K : α → Bits → Except Verdict ρ)
    (herr : ∀ bits e, P bits = .error e → Q bits = .error e)
    (hok : ∀ bits a r, P bits = .ok (a, r) → Q bits = K a r)
    (hK : ∀ a, GoodFn mk (K a)) : GoodFn mk Q := by
  have : Q = (fun bits => match P bits with
      | .error e => .error e
      | .ok (a, r) => K a r) := by
    funext bits
    cases h : P bits with
    | error e => exact herr bits e h
    | ok ar => exact hok bits ar.1 ar.2 h
  rw [this]; exact goodFn_bindE hP hK

theorem goodFn_bindS' {β ρ : Type} {mk : β → Bits → ρ} {P : Bits → Sym} (hP : GoodFnS P)
    {Q : Bits → Except Verdict ρ} (K : Nat → Bits → Except Verdict ρ)
    (heof : ∀ bits, P bits = .eof → Q bits = .error .unexpectedEOF)
    (hinv : ∀ bits, P bits = .invalid → Q bits = .error .corrupt)
    (hsym : ∀ bits a r, P bits = .sym a r → Q bits = K a r)
    (hK : ∀ a, GoodFn mk (K a)) : GoodFn mk Q := by
  have : Q = (fun bits => match P bits with
      | .eof => .error .unexpectedEOF
      | .invalid => .error .corrupt
      | .sym a r => K a r) := by
    funext bits
    cases h : P bits with
    | eof => exact heof bits h
    | invalid => exact hinv bits h
    | sym a r => exact hsym bits a r h
  rw [this]; exact goodFn_bindS hP hK

theorem prodMk_inj {α : Type} : ∀ (a a' : α) (r r' : Bits), (a, r) = (a', r') → a = a' ∧ r = r' := by
  intro a a' r r' h; cases h; exact ⟨rfl, rfl⟩

theorem readLengths_good (cl : HuffTab) : ∀ (fuel n : Nat) (acc : List Nat),
    GoodFn Prod.mk (readLengths cl fuel n acc) := by
  intro fuel
  induction fuel with
  | zero =>
    intro n acc
    exact goodFn_pure Prod.mk prodMk_inj acc.reverse
  | succ fuel ih =>
    intro n acc
    have e : readLengths cl (fuel + 1) n acc = fun bits => readLengths cl (fuel + 1) n acc bits := rfl
    rw [e]
    simp only [readLengths]
    by_cases hge : acc.length ≥ n
    · simp only [if_pos hge]
      by_cases hn : acc.length = n
      · simp only [if_pos hn]
        exact goodFn_pure Prod.mk prodMk_inj acc.reverse
      · simp only [if_neg hn]
        exact goodFn_error _
    · simp only [if_neg hge]
      refine goodFn_bindS' (decode_goodFn cl) _ (fun bits h => by rw [h]) (fun bits h => by rw [h])
        (fun bits a r h => by rw [h]) (fun s => ?_)
      by_cases hs : s < 16
      · simp only [if_pos hs]; exact ih _ _
      · simp only [if_neg hs]
        by_cases h16 : s = 16
        · simp only [if_pos h16]
          cases acc with
          | nil => exact goodFn_error _
          | cons prev acc' =>
            simp only
            refine goodFn_bindO' (takeBits_goodFn 2) _ (fun bits h => by rw [h]) (fun bits a r h => by rw [h]) (fun v => ?_)
            exact goodFn_ite _ (ih _ _)
        · simp only [if_neg h16]
          by_cases h17 : s = 17
          · simp only [if_pos h17]
            refine goodFn_bindO' (takeBits_goodFn 3) _ (fun bits h => by rw [h]) (fun bits a r h => by rw [h]) (fun v => ?_)
            exact goodFn_ite _ (ih _ _)
          · simp only [if_neg h17]
            refine goodFn_bindO' (takeBits_goodFn 7) _ (fun bits h => by rw [h]) (fun bits a r h => by rw [h]) (fun v => ?_)
            exact goodFn_ite _ (ih _ _)

/-- packing of `readDynamic`'s result. -/
def mkDyn (p : Huff × Huff) (r : Bits) : Huff × Huff × Bits := (p.1, p.2, r)

theorem mkDyn_inj : ∀ (a a' : Huff × Huff) (r r' : Bits), mkDyn a r = mkDyn a' r' → a = a' ∧ r = r' := by
  intro ⟨a1, a2⟩ ⟨b1, b2⟩ r r' h
  simp only [mkDyn, Prod.mk.injEq] at h
  obtain ⟨rfl, rfl, rfl⟩ := h
  exact ⟨rfl, rfl⟩

theorem readDynamic_good : GoodFn mkDyn readDynamic := by
  have e : readDynamic = fun bits => readDynamic bits := rfl
  rw [e]
  simp only [readDynamic]
  refine goodFn_bindO' (takeBits_goodFn 5) _ (fun bits h => by rw [h]) (fun bits a r h => by rw [h]) (fun hlit => ?_)
  dsimp only
  refine goodFn_bindO' (takeBits_goodFn 5) _ (fun bits h => by rw [h]) (fun bits a r h => by rw [h]) (fun hdist => ?_)
  dsimp only
  refine goodFn_bindO' (takeBits_goodFn 4) _ (fun bits h => by rw [h]) (fun bits a r h => by rw [h]) (fun hclen => ?_)
  dsimp only
  refine goodFn_ite _ ?_
  refine goodFn_bindO' (readCLens_goodFn _ _) _ (fun bits h => by rw [h]) (fun bits a r h => by rw [h]) (fun cl => ?_)
  dsimp only
  refine goodFn_ite _ ?_
  refine goodFn_bindE' (readLengths_good _ _ _ _) _ (fun bits e h => by rw [h]) (fun bits a r h => by rw [h]) (fun lens => ?_)
  dsimp only
  refine goodFn_ite _ ?_
  exact goodFn_pure mkDyn mkDyn_inj (_, _)

end Compress.Proofs.FlatePrefix
