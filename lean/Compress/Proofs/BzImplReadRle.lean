/-
Helper theory for `BzImplRead.lean`: the resumable RLE1 reader `RleR.read` composes, terminates
(potential `256 * (buf.size - idx) + lastCnt`), and once ended stays ended and silent.
-/
import Compress.Proofs.BzImplDefs
import Compress.Proofs.Bzip2Rle

namespace Compress.Proofs.BzImpl.RdAux
open Compress Compress.Bzip2 Compress.Prefix
open Compress.Proofs.Bzip2Rle (rstep takeByte read_succ)

theorem read_zero (r : RleR) (acc : List UInt8) : RleR.read 0 r acc = (r, acc.reverse, .ok) := rfl

theorem rstep_ne_ok (r : RleR) : rstep r ≠ .error .ok := by
  unfold rstep
  split
  · split
    · simp
    · simp only []
      split
      · simp
      · split <;> simp
  · split
    · split <;> simp
    · simp

theorem rle_read_add (a b : Nat) : ∀ (r : RleR) (acc : List UInt8),
    RleR.read (a + b) r acc =
      match RleR.read a r acc with
      | (r1, o1, .ok) => RleR.read b r1 o1.reverse
      | x => x := by
  induction a with
  | zero => intro r acc; simp [read_zero]
  | succ a ih =>
    intro r acc
    have : a + 1 + b = (a + b) + 1 := by omega
    rw [this, read_succ, read_succ]
    cases hr : rstep r with
    | error st =>
      simp only []
      cases st with
      | ok => exact absurd hr (rstep_ne_ok r)
      | done => rfl
      | corrupted => rfl
    | ok r' => simp only []; exact ih _ _

/-- the accumulator is only prepended. -/
theorem read_acc (n : Nat) : ∀ (r : RleR) (acc : List UInt8),
    RleR.read n r acc = ((RleR.read n r []).1, acc.reverse ++ (RleR.read n r []).2.1, (RleR.read n r []).2.2) := by
  induction n with
  | zero => intro r acc; simp [read_zero]
  | succ n ih =>
    intro r acc
    rw [read_succ, read_succ]
    cases hr : rstep r with
    | error st => simp
    | ok r' =>
      simp only []
      rw [ih _ (r'.lastVal :: acc), ih _ [r'.lastVal]]
      simp

/-- a read that is still `ok` delivered everything that was asked for. -/
theorem read_ok_length (n : Nat) : ∀ (r : RleR) (acc : List UInt8),
    (RleR.read n r acc).2.2 = .ok → (RleR.read n r acc).2.1.length = acc.length + n := by
  induction n with
  | zero => intro r acc _; simp [read_zero]
  | succ n ih =>
    intro r acc
    rw [read_succ]
    cases hr : rstep r with
    | error st =>
      simp only []
      intro h; subst h
      exact absurd hr (rstep_ne_ok r)
    | ok r' =>
      simp only []
      intro h
      rw [ih _ _ h]
      simp; omega

/-- the potential. -/
def pot (r : RleR) : Nat := 256 * (r.buf.size - r.idx) + r.lastCnt.toNat

theorem takeByte_facts (r : RleR) (hc : r.lastCnt ≤ 0) :
    (takeByte r).buf = r.buf ∧ (takeByte r).idx = r.idx + 1 ∧ (takeByte r).lastCnt ≤ 0 := by
  unfold takeByte
  simp only []
  split
  · exact ⟨rfl, rfl, Int.le_refl _⟩
  · exact ⟨rfl, rfl, hc⟩

theorem rstep_pot (r r' : RleR) (h : rstep r = .ok r') :
    pot { r' with lastCnt := r'.lastCnt - 1 } < pot r ∧ r'.buf = r.buf := by
  unfold rstep at h
  split at h
  · rename_i h4
    split at h
    · cases h
    · rename_i hi
      simp only [] at h
      have hb : (r.buf.getD r.idx 0).toNat < 256 := (r.buf.getD r.idx 0).toNat_lt
      split at h
      · cases h
        unfold pot
        simp only []
        refine ⟨?_, by trivial⟩
        omega
      · rename_i hc
        split at h
        · cases h
        · rename_i hi2
          cases h
          obtain ⟨e1, e2, e3⟩ := takeByte_facts { r with lastCnt := ((r.buf.getD r.idx 0).toNat : Int), idx := r.idx + 1 }
            (by simp only []; omega)
          simp only [] at e1 e2 e3
          refine ⟨?_, e1⟩
          unfold pot
          simp only [e1, e2]
          omega
  · split at h
    · rename_i hc
      split at h
      · cases h
      · cases h
        obtain ⟨e1, e2, e3⟩ := takeByte_facts r hc
        refine ⟨?_, e1⟩
        unfold pot
        simp only [e1, e2]
        omega
    · cases h
      unfold pot
      simp only []
      refine ⟨?_, by trivial⟩
      omega

/-- more fuel than potential: the read ends. -/
theorem read_ends (n : Nat) : ∀ (r : RleR) (acc : List UInt8), pot r < n → (RleR.read n r acc).2.2 ≠ .ok := by
  induction n with
  | zero => intro r acc h; omega
  | succ n ih =>
    intro r acc h
    rw [read_succ]
    cases hr : rstep r with
    | error st =>
      simp only []
      intro hst; subst hst
      exact absurd hr (rstep_ne_ok r)
    | ok r' =>
      simp only []
      exact ih _ _ (by have := (rstep_pot r r' hr).1; omega)

theorem rleAll_ne_ok (r : RleR) : (rleAll r).2.2 ≠ .ok := by
  unfold rleAll
  apply read_ends
  unfold pot
  have : 256 * (r.buf.size - r.idx) ≤ 256 * r.buf.size := Nat.mul_le_mul_left _ (Nat.sub_le _ _)
  omega

/-- an ended read does not depend on the fuel. -/
theorem read_more (n k : Nat) (r : RleR) (acc : List UInt8) (h : (RleR.read n r acc).2.2 ≠ .ok) :
    RleR.read (n + k) r acc = RleR.read n r acc := by
  rw [rle_read_add]
  generalize RleR.read n r acc = x at h ⊢
  obtain ⟨r1, o1, st⟩ := x
  cases st with
  | ok => exact absurd rfl h
  | done => rfl
  | corrupted => rfl

theorem read_ended_eq (a b : Nat) (r : RleR) (acc : List UInt8)
    (ha : (RleR.read a r acc).2.2 ≠ .ok) (hb : (RleR.read b r acc).2.2 ≠ .ok) :
    RleR.read a r acc = RleR.read b r acc := by
  by_cases h : a ≤ b
  · obtain ⟨k, rfl⟩ := Nat.exists_eq_add_of_le h
    exact (read_more a k r acc ha).symm
  · obtain ⟨k, rfl⟩ := Nat.exists_eq_add_of_le (Nat.le_of_not_le h)
    exact read_more b k r acc hb

/-- the state of an ended read is the one at which the switch failed. -/
theorem read_ended_state (n : Nat) : ∀ (r : RleR) (acc : List UInt8),
    (RleR.read n r acc).2.2 ≠ .ok → rstep (RleR.read n r acc).1 = .error (RleR.read n r acc).2.2 := by
  induction n with
  | zero => intro r acc h; exact absurd rfl h
  | succ n ih =>
    intro r acc
    rw [read_succ]
    cases hr : rstep r with
    | error st => simp only []; intro _; exact hr
    | ok r' => simp only []; exact ih _ _

/-- a stage whose switch fails with `st`. -/
def Ended (r : RleR) (st : RleStatus) : Prop := rstep r = .error st

theorem Ended.ne_ok {r : RleR} {st : RleStatus} (h : Ended r st) : st ≠ .ok := by
  intro e; subst e; exact rstep_ne_ok r h

theorem Ended.read {r : RleR} {st : RleStatus} (h : Ended r st) (n : Nat) :
    RleR.read n r [] = (r, [], if n = 0 then .ok else st) := by
  cases n with
  | zero => rfl
  | succ n =>
    rw [read_succ, h]
    simp

theorem Ended.rleAll {r : RleR} {st : RleStatus} (h : Ended r st) : rleAll r = (r, [], st) := by
  unfold BzImpl.rleAll
  rw [h.read]
  simp

theorem read_ended (n : Nat) (r : RleR) (acc : List UInt8) (h : (RleR.read n r acc).2.2 ≠ .ok) :
    Ended (RleR.read n r acc).1 (RleR.read n r acc).2.2 := read_ended_state n r acc h

theorem rleAll_Ended (r : RleR) : Ended (rleAll r).1 (rleAll r).2.2 :=
  read_ended _ _ _ (rleAll_ne_ok r)

theorem rleAll_ended (r : RleR) : (rleAll r).2.2 ≠ .ok ∧
    ∀ n, RleR.read n (rleAll r).1 [] = ((rleAll r).1, [], if n = 0 then .ok else (rleAll r).2.2) :=
  ⟨rleAll_ne_ok r, fun n => (rleAll_Ended r).read n⟩

/-- an ended partial read is the whole rest. -/
theorem rleAll_of_ended (n : Nat) (r : RleR) (h : (RleR.read n r []).2.2 ≠ .ok) :
    rleAll r = RleR.read n r [] :=
  read_ended_eq _ _ r [] (rleAll_ne_ok r) h

/-- an `ok` partial read followed by emptying is emptying. -/
theorem rleAll_of_ok (n : Nat) (r : RleR) (h : (RleR.read n r []).2.2 = .ok) :
    rleAll r = ((rleAll (RleR.read n r []).1).1, (RleR.read n r []).2.1 ++ (rleAll (RleR.read n r []).1).2.1,
      (rleAll (RleR.read n r []).1).2.2) := by
  generalize hx : RleR.read n r [] = x at h
  obtain ⟨r1, o1, st⟩ := x
  simp only [] at h
  subst h
  simp only []
  have hN := rleAll_ne_ok r1
  unfold BzImpl.rleAll at hN ⊢
  generalize 256 * r1.buf.size + r1.lastCnt.toNat + 8 = N1 at hN ⊢
  have h2 : RleR.read (n + N1) r [] = ((RleR.read N1 r1 []).1, o1 ++ (RleR.read N1 r1 []).2.1, (RleR.read N1 r1 []).2.2) := by
    rw [rle_read_add, hx]
    simp only []
    rw [read_acc]
    simp
  rw [← h2]
  apply read_ended_eq
  · exact rleAll_ne_ok r
  · rw [h2]; exact hN

theorem rleAll_split (n : Nat) (r : RleR) :
    match RleR.read n r [] with
    | (r1, o1, .ok) => (rleAll r).2.1 = o1 ++ (rleAll r1).2.1 ∧ (rleAll r).2.2 = (rleAll r1).2.2 ∧ (rleAll r).1 = (rleAll r1).1
    | (r1, o1, st) => rleAll r = (r1, o1, st) := by
  generalize hx : RleR.read n r [] = x
  obtain ⟨r1, o1, st⟩ := x
  cases st with
  | ok =>
    simp only []
    have := rleAll_of_ok n r (by rw [hx])
    rw [hx] at this
    simp only [] at this
    rw [this]
    exact ⟨rfl, rfl, rfl⟩
  | done =>
    simp only []
    have := rleAll_of_ended n r (by rw [hx]; simp)
    rw [this, hx]
  | corrupted =>
    simp only []
    have := rleAll_of_ended n r (by rw [hx]; simp)
    rw [this, hx]

theorem rleAll_fresh (blk : Array UInt8) :
    match unrle1 blk with
    | some data => (rleAll { buf := blk }).2 = (data, .done)
    | none => (rleAll { buf := blk }).2 = (Bzip2.readBlocks.rle1Partial blk, .corrupted) := by
  have hs := Bzip2Rle.read_spec blk.toList (256 * blk.size + 8) { buf := blk.toList.toArray } [] []
    (Bzip2Rle.rinv_init blk.toList)
  have hne := rleAll_ne_ok { buf := blk }
  have hall : rleAll { buf := blk } = RleR.read (256 * blk.size + 8) { buf := blk } [] := by
    unfold BzImpl.rleAll; simp
  have hpart : Bzip2.readBlocks.rle1Partial blk = (RleR.read (256 * blk.size + 8) { buf := blk } []).2.1 := rfl
  rw [Array.toArray_toList] at hs
  obtain ⟨P', p1, _, p3⟩ := hs
  rw [hall] at hne ⊢
  rw [hpart]
  have hg := p3 hne
  have hun : unrle1 blk = Bzip2Rle.dec blk.toList := by
    unfold unrle1
    have : blk.size = blk.toList.length := by simp
    rw [this]
    exact Bzip2Rle.rle1Decode_dec blk.toList
  rw [hun]
  unfold Bzip2Rle.Good at hg
  generalize RleR.read (256 * blk.size + 8) { buf := blk } [] = x at *
  obtain ⟨r1, o1, st⟩ := x
  simp only [] at hne p1 hg ⊢
  simp only [List.reverse_nil, List.nil_append] at p1 hg
  subst p1
  cases hd : Bzip2Rle.dec blk.toList with
  | none =>
    rw [hd] at hg
    simp only [] at hg ⊢
    cases st with
    | ok => exact absurd rfl hne
    | done => exact absurd rfl hg
    | corrupted => rfl
  | some full =>
    rw [hd] at hg
    simp only [] at hg ⊢
    cases st with
    | ok => exact absurd rfl hne
    | done => rw [hg.2.1 rfl]
    | corrupted => exact absurd rfl hg.2.2

end Compress.Proofs.BzImpl.RdAux
