/-
What xflate.Writer emits (C05, C06): the sink is a sequence of chunk segments
and meta blocks; it is a plain DEFLATE stream; its index parses back.
-/
import Compress.XFlate.WriterSpec
import Compress.Proofs.Meta
import Compress.Proofs.MetaLocate
import Compress.Proofs.MetaSilent

namespace Compress.Proofs.XFlateStream
open Compress Compress.XFlate

/-- **C06.** Whatever configuration, whatever Write/Flush schedule: if Close
    succeeds (sink never failed, oracle consumed consistently) and the compressor
    kept its contract on every chunk, then the RFC 1951 specification decodes the
    emitted bytes to exactly the written data, consuming every bit, with the
    final-block bit only in the last block. -/
theorem plain_deflate (crc : List UInt8 → Nat) (level chunk index : Int) (hasConf : Bool)
    (oracle : List ZEv) (ops : List WOp) (s0 : XWState)
    (h0 : newWriter level chunk index hasConf {} oracle = some s0) :
    let s := (runW crc s0 ops).1
    s.err = some .closed → s.bad = false →
    (∀ c ∈ chunksOf s.zlog [] [], ZChunkOK c.1 c.2) →
    Flate.decode s.sink.got =
      { out := (dataOf s.zlog).toArray, verdict := .ok (8 * s.sink.got.length) } := by
  sorry

/-- the data the compressor accepted is the data `Write` reported as accepted:
    `InputOffset` at the end equals its length. -/
theorem data_accounted (crc : List UInt8 → Nat) (level chunk index : Int) (hasConf : Bool)
    (oracle : List ZEv) (ops : List WOp) (s0 : XWState)
    (h0 : newWriter level chunk index hasConf {} oracle = some s0) :
    let s := (runW crc s0 ops).1
    s.bad = false → s.inOff = (dataOf s.zlog).length := by
  sorry

/-- **C05 (index).** Under the same hypotheses, `Reader.Reset`'s parsing of the
    emitted bytes succeeds and reconstructs exactly the records the writer
    accumulated (chunks, index blocks, footer), for the real CRC-32 or any other
    checksum function. -/
theorem index_roundtrip (crc : List UInt8 → Nat) (level chunk index : Int) (hasConf : Bool)
    (oracle : List ZEv) (ops : List WOp) (s0 : XWState)
    (h0 : newWriter level chunk index hasConf {} oracle = some s0) :
    let s := (runW crc s0 ops).1
    s.err = some .closed → s.bad = false →
    (∀ c ∈ chunksOf s.zlog [] [], 4 < c.1.length) →
    ∃ r, openIndex .fixed crc s.sink.got = .ok r ∧ r.recs = s.allRecs := by
  sorry

end Compress.Proofs.XFlateStream
