/-
What xflate.Writer emits (C05, C06): the sink is a sequence of chunk segments
and meta blocks; it is a plain DEFLATE stream; its index parses back.
-/
import Compress.XFlate.WriterSpec
import Compress.Proofs.Meta
import Compress.Proofs.MetaLocate
import Compress.Proofs.MetaSilent
import Compress.Proofs.XWData
import Compress.Proofs.XWDecode
import Compress.Proofs.XWOpen

namespace Compress.Proofs.XFlateStream
open Compress Compress.XFlate

/-- the compressor contract `ZChunkOK` (restricted to byte-aligned contexts,
    see WriterSpec) is satisfiable: compress/flate's empty sync flush fulfils it. -/
theorem zchunkOK_syncMarker : ZChunkOK [0,0,0,255,255] [] := XWShape.zchunkOK_syncMarker

/-- **C06.** Whatever configuration, whatever Write/Flush schedule: if Close
    succeeds (sink never failed, oracle consumed consistently) and the compressor
    kept its contract on every chunk, then the RFC 1951 specification decodes the
    emitted bytes to exactly the written data, consuming every bit, with the
    final-block bit only in the last block.
    -- STATEMENT ADJUSTED: hypothesis `hz` added.  The oracle is otherwise free to
    -- answer a compressor call with xflate's own `closed` error, which the model
    -- cannot tell from a successful Close: oracle = [reset, {zflush, err := closed}],
    -- ops = [flush 0] ends with err = closed, bad = false, an empty sink, and
    -- `Flate.decode [] = unexpectedEOF`.  compress/flate never returns that error.
    -- (`ZChunkOK` itself was also adjusted, see WriterSpec.) -/
theorem plain_deflate (crc : List UInt8 → Nat) (level chunk index : Int) (hasConf : Bool)
    (oracle : List ZEv) (ops : List WOp) (s0 : XWState)
    (h0 : newWriter level chunk index hasConf {} oracle = some s0)
    (hz : ∀ ev ∈ oracle, ev.err ≠ some .closed) :
    let s := (runW crc s0 ops).1
    s.err = some .closed → s.bad = false →
    (∀ c ∈ chunksOf s.zlog [] [], ZChunkOK c.1 c.2) →
    Flate.decode s.sink.got =
      { out := (dataOf s.zlog).toArray, verdict := .ok (8 * s.sink.got.length) } := by
  intro s he hb hc
  obtain ⟨rgs, tr, foot, hf⟩ := XWShape.closed_shape crc level chunk index hasConf oracle ops s0 h0 hz he hb
  exact XWShape.fin_decode crc s rgs tr foot hf hc

/-- the data the compressor accepted is the data `Write` reported as accepted:
    `InputOffset` at the end equals its length. -/
theorem data_accounted (crc : List UInt8 → Nat) (level chunk index : Int) (hasConf : Bool)
    (oracle : List ZEv) (ops : List WOp) (s0 : XWState)
    (h0 : newWriter level chunk index hasConf {} oracle = some s0) :
    let s := (runW crc s0 ops).1
    s.bad = false → s.inOff = (dataOf s.zlog).length := by
  intro s hb
  rcases XWShape.da_runW crc ops s0 (XWShape.da_newWriter level chunk index hasConf {} oracle s0 h0) with h | h
  · rw [hb] at h; cases h
  · simpa using h

/-- **C05 (index).** Under the same hypotheses, `Reader.Reset`'s parsing of the
    emitted bytes succeeds and reconstructs exactly the records the writer
    accumulated (chunks, index blocks, footer), for the real CRC-32 or any other
    32-bit checksum function.
    -- STATEMENT ADJUSTED: five hypotheses added.
    -- * `hz` (the compressor never returns xflate's `closed` error): as for
    --   `plain_deflate`; without it `err = closed` does not mean that Close ran.
    -- * `hcrc` (the checksum fits 32 bits): the writer stores only the low four
    --   bytes of `crc body`, the reader compares `le32` of them with the full value.
    -- * `hflush` (a compressor Flush emits at least one byte; compress/flate always
    --   emits the sync marker): otherwise FALSE — oracle = [reset, {zflush,
    --   emitted := []}, reset], ops = [flush 1, close] closes with bad = false and
    --   `chunksOf = []` (so the size hypothesis is vacuous), but the index holds a
    --   record of compressed size 0, which `decodeIndex` rejects (`cs ≤ 4`).
    -- * the two size bounds: `AppendRecord` refuses sums above `maxI64`, the
    --   writer ignores that refusal (`getD`), the reader reports corruption;
    --   `readVLI` also rejects values above `maxI64`. -/
theorem index_roundtrip (crc : List UInt8 → Nat) (level chunk index : Int) (hasConf : Bool)
    (oracle : List ZEv) (ops : List WOp) (s0 : XWState)
    (h0 : newWriter level chunk index hasConf {} oracle = some s0)
    (hz : ∀ ev ∈ oracle, ev.err ≠ some .closed)
    (hcrc : ∀ l, crc l < 2 ^ 32) :
    let s := (runW crc s0 ops).1
    s.err = some .closed → s.bad = false →
    (∀ c ∈ chunksOf s.zlog [] [], 4 < c.1.length) →
    (∀ p ∈ s.zlog, p.1.kind = .zflush → p.1.emitted ≠ []) →
    s.sink.got.length < 2 ^ 63 → (dataOf s.zlog).length < 2 ^ 63 →
    ∃ r, openIndex .fixed crc s.sink.got = .ok r ∧ r.recs = s.allRecs := by
  intro s he hb hc hflush hg hd
  obtain ⟨rgs, tr, foot, hf⟩ := XWShape.closed_shape crc level chunk index hasConf oracle ops s0 h0 hz he hb
  exact XWShape.fin_open crc hcrc s rgs tr foot hf hc hflush hg hd

/-! the bitwise IEEE CRC-32 of the model satisfies `hcrc`. -/

theorem crc32_go_lt : ∀ (k c : Nat), c < 2 ^ 32 → crc32Byte.go k c < 2 ^ 32
  | 0, c, h => by simpa [crc32Byte.go] using h
  | k+1, c, h => by
    unfold crc32Byte.go
    apply crc32_go_lt k
    split
    · exact Nat.xor_lt_two_pow (by omega) (by decide)
    · omega

theorem crc32Byte_lt (c : Nat) (b : UInt8) (h : c < 2 ^ 32) : crc32Byte c b < 2 ^ 32 := by
  unfold crc32Byte
  apply crc32_go_lt
  have := b.toNat_lt
  exact Nat.xor_lt_two_pow h (by omega)

theorem crc32_foldl_lt : ∀ (l : List UInt8) (c : Nat), c < 2 ^ 32 → l.foldl crc32Byte c < 2 ^ 32
  | [], _, h => h
  | b :: l, c, h => crc32_foldl_lt l _ (crc32Byte_lt c b h)

theorem crc32IEEE_lt (l : List UInt8) : crc32IEEE l < 2 ^ 32 := by
  unfold crc32IEEE
  exact Nat.xor_lt_two_pow (crc32_foldl_lt l _ (by decide)) (by decide)

/-- `index_roundtrip` for the real checksum. -/
theorem index_roundtrip_crc32 (level chunk index : Int) (hasConf : Bool)
    (oracle : List ZEv) (ops : List WOp) (s0 : XWState)
    (h0 : newWriter level chunk index hasConf {} oracle = some s0)
    (hz : ∀ ev ∈ oracle, ev.err ≠ some .closed) :
    let s := (runW crc32IEEE s0 ops).1
    s.err = some .closed → s.bad = false →
    (∀ c ∈ chunksOf s.zlog [] [], 4 < c.1.length) →
    (∀ p ∈ s.zlog, p.1.kind = .zflush → p.1.emitted ≠ []) →
    s.sink.got.length < 2 ^ 63 → (dataOf s.zlog).length < 2 ^ 63 →
    ∃ r, openIndex .fixed crc32IEEE s.sink.got = .ok r ∧ r.recs = s.allRecs :=
  index_roundtrip crc32IEEE level chunk index hasConf oracle ops s0 h0 hz crc32IEEE_lt

end Compress.Proofs.XFlateStream

