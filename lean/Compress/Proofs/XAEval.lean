/-
C15: `#eval` replay of the two counterexamples quoted in `XFlateAccept.lean` (not imported by
anything; run with `lake env lean Compress/Proofs/XAEval.lean`).
-/
import Compress.XFlate.SeqRead
import Compress.XFlate.Open
import Compress.XFlate.WriterSpec
import Compress.Proofs.XFlateGlue
open Compress Compress.XFlate Compress.Proofs.XFlateGlue

namespace Compress.Proofs.XFlateAccept.Eval

def report (chunk : List UInt8) : String :=
  let rs := Flate.decode (chunk ++ endBlockBytes)
  let R := rs.out.size
  let idx := ((Meta.encode (indexPayload crc32IEEE [⟨chunk.length, R, 1⟩] 0) .fmeta).getD []).flatten
  let foot := ((Meta.encode (footerPayload idx.length) .fstream).getD []).flatten
  let stream := chunk ++ idx ++ foot
  let recs := ((openIndex .fixed crc32IEEE stream).toOption.map (·.recs)).getD []
  let L := layoutOf stream recs
  let rd := seqRead L 4096 100 (opened .fixed L) [] []
  let dec := Flate.decode stream
  s!"stream ({stream.length} bytes) = {stream}\n" ++
  s!"inflater on chunk++endBlock: {R} bytes, {repr rs.verdict} (chunk {chunk.length} bytes)\n" ++
  s!"openIndex recs = {repr recs}\n" ++
  s!"seqRead: {rd.1.length} bytes, {repr rd.2}; endRaw = {L.endRaw}\n" ++
  s!"Flate.decode stream: {dec.out.size} bytes, {repr dec.verdict}\n" ++
  s!"same bytes: {decide (rd.1 = dec.out.toList)}; same size: {decide (L.endRaw = (dec.out.size : Int))}"

/-- D10 witness: final stored block (content differs, sizes agree). -/
def chunkStored : List UInt8 := [0x01, 0x09, 0x00, 0xf6, 0xff, 0x00, 0x00, 0xff, 0xff]
#eval IO.println (report chunkStored)

/-- final dynamic-Huffman block running through the end block (sizes differ). -/
def chunkHuff : List UInt8 :=
  [237,210,1,161,29,65,16,4,161,234,217,123,63,254,29,199,8,104,32,0,0,255,255]
#eval IO.println (report chunkHuff)

end Compress.Proofs.XFlateAccept.Eval
