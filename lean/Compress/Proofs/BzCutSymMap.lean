/-
bzip2 cut: the symbol map reader is prefix-monotone.
-/
import Compress.Proofs.BzCutCore

namespace Compress.Proofs.BzCut
open Compress Compress.Bzip2

/-- one step of the fold in `readSymMap`. -/
def smStep (hi : Nat) (st : Option (List UInt8 × Bits)) (i : Nat) : Option (List UInt8 × Bits) :=
  match st with
  | none => none
  | some (dict, bits) =>
    if (hi / 2 ^ (15 - i)) % 2 = 1 then
      match readBE 16 bits with
      | none => none
      | some (lo, rest') =>
        some (dict ++ ((List.range 16).filter (fun j => (lo / 2 ^ (15 - j)) % 2 = 1)).map (fun j => UInt8.ofNat (16 * i + j)), rest')
    else some (dict, bits)

theorem readSymMap_eq (bits : Bits) :
    readSymMap bits = match readBE 16 bits with
      | none => none
      | some (hi, rest) => (List.range 16).foldl (smStep hi) (some ([], rest)) := by
  unfold readSymMap
  cases readBE 16 bits with
  | none => rfl
  | some x => obtain ⟨hi, rest⟩ := x; rfl

theorem foldl_smStep_none (hi : Nat) (is : List Nat) : is.foldl (smStep hi) none = none := by
  induction is with
  | nil => rfl
  | cons i is ih => simpa [List.foldl_cons, smStep] using ih

/-- the fold as a parser. -/
def foldE (hi : Nat) : List Nat → List UInt8 → Parser (List UInt8)
  | [], dict => liftE (.ok dict)
  | i :: is, dict => fun bits =>
    if (hi / 2 ^ (15 - i)) % 2 = 1 then
      bindP (beP 16) (fun lo => foldE hi is
        (dict ++ ((List.range 16).filter (fun j => (lo / 2 ^ (15 - j)) % 2 = 1)).map (fun j => UInt8.ofNat (16 * i + j)))) bits
    else foldE hi is dict bits

theorem foldE_prefixOK (hi : Nat) (is : List Nat) (dict : List UInt8) : PrefixOK (foldE hi is dict) := by
  induction is generalizing dict with
  | nil => exact liftE_prefixOK _
  | cons i is ih =>
    unfold foldE
    exact PrefixOK.ite (fun _ => PrefixOK.bind (beP_prefixOK 16) (fun _ _ _ _ => ih _)) (fun _ => ih dict)

theorem foldl_eq_foldE (hi : Nat) (is : List Nat) (dict : List UInt8) (bits : Bits) :
    (is.foldl (smStep hi) (some (dict, bits))).elim (.error .unexpectedEOF) .ok = foldE hi is dict bits := by
  induction is generalizing dict bits with
  | nil => rfl
  | cons i is ih =>
    rw [List.foldl_cons]
    unfold foldE
    by_cases hb : (hi / 2 ^ (15 - i)) % 2 = 1
    · simp only [smStep, hb, if_true]
      cases hr : readBE 16 bits with
      | none =>
        rw [bindP_error _ _ _ .unexpectedEOF (by simp [beP, hr])]
        simp only [foldl_smStep_none]; rfl
      | some x =>
        obtain ⟨lo, rest'⟩ := x
        rw [bindP_ok _ _ _ lo rest' (by simp [beP, hr])]
        exact ih _ _
    · simp only [smStep, hb, if_false]
      exact ih _ _

theorem symMapP_eq (bits : Bits) :
    symMapP bits = bindP (beP 16) (fun hi => foldE hi (List.range 16) []) bits := by
  unfold symMapP
  rw [readSymMap_eq]
  cases hr : readBE 16 bits with
  | none =>
    rw [bindP_error _ _ _ .unexpectedEOF (by simp [beP, hr])]; rfl
  | some x =>
    obtain ⟨hi, rest⟩ := x
    rw [bindP_ok _ _ _ hi rest (by simp [beP, hr])]
    exact foldl_eq_foldE _ _ _ _

theorem symMapP_prefixOK : PrefixOK symMapP :=
  PrefixOK.congr (PrefixOK.bind (beP_prefixOK 16) (fun _ hi _ _ => foldE_prefixOK hi _ _)) symMapP_eq

end Compress.Proofs.BzCut
