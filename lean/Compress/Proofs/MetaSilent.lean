/-
C16 (M2): to an RFC 1951 decoder a meta block is a complete dynamic block that
produces no output.
-/
import Compress.Meta.Codec
import Compress.Flate.Spec
import Compress.Proofs.Meta

namespace Compress.Proofs.MetaSilent
open Compress Compress.Meta Compress.Flate

/-- **M2.** Wherever a meta block stands in a DEFLATE stream, the RFC 1951
    decoder reads it as one complete dynamic block with an empty body: no output,
    exactly the block's bits consumed, and the stream ends there iff the block was
    written with `FinalStream`. -/
theorem meta_block_silent (buf : List UInt8) (final : FinalMode) (bits : Bits)
    (h : encodeBlock buf final = some bits)
    (total fuel : Nat) (out : Array UInt8) (rest : Bits) :
    decodeBlocks total (fuel + 1) out (bits ++ rest) =
      if final = .fstream then
        { out := out, verdict := .ok (total - rest.length + padTo8 (total - rest.length)) }
      else decodeBlocks total fuel out rest := by
  sorry

end Compress.Proofs.MetaSilent
