/-
C16 (M2): to an RFC 1951 decoder a meta block is a complete dynamic block that
produces no output.
-/
import Compress.Meta.Codec
import Compress.Flate.Spec
import Compress.Proofs.Meta
import Compress.Proofs.MetaSilentHdr

namespace Compress.Proofs.MetaSilent
open Compress Compress.Meta Compress.Flate Compress.Proofs.Meta

/-- one dynamic block whose body is just the end-of-block code. -/
theorem decodeBlocks_dyn (total fuel : Nat) (out : Array UInt8) (bits b1 b2 b3 rest : Bits) (bfinal : Nat)
    (lit dist : Huff)
    (h1 : takeBits 1 bits = some (bfinal, b1)) (h2 : takeBits 2 b1 = some (2, b2))
    (h3 : readDynamic b2 = .ok (lit, dist, b3))
    (h4 : inflateBlock lit.tab dist.tab (b3.length + 1) out b3 = (out, .ok rest)) :
    decodeBlocks total (fuel + 1) out bits =
      if bfinal = 1 then
        { out := out, verdict := .ok (total - rest.length + padTo8 (total - rest.length)) }
      else decodeBlocks total fuel out rest := by
  simp only [decodeBlocks, h1, h2, h3, h4]

/-- the bits of a meta block, cut into the fields an RFC 1951 decoder reads. -/
theorem blockBits_fields (buf : List UInt8) (final : FinalMode) (h : Nat) (inv : Bool) (t rest : Bits)
    (h1 : 1 ≤ h) (h7 : h ≤ 7) (hs : symbolBits buf h (final ≠ .fnil) inv = false :: t) :
    blockBits buf final h inv ++ rest =
      Bits.ofNat (if final = .fstream then 1 else 0) 1 ++ (Bits.ofNat 2 2 ++
        (Bits.ofNat (padsOf buf final h inv) 5 ++ (Bits.ofNat 0 5 ++ (Bits.ofNat (2 * (8 - h)) 4 ++
          (fieldBits (fields h) ++ ([false] ++ (encodeRuns (runs t) false ++
            (List.replicate (padsOf buf final h inv) false ++ ([false] ++
              (List.replicate h true ++ rest)))))))))) := by
  have e : magicOf final h (padsOf buf final h inv) =
      magicVals + (if final = .fstream then 1 else 0) + (2 * (8 - h)) * 8192 + padsOf buf final h inv * 8 := by
    unfold magicOf
    have : (4 + (8 - h) * 2 - 4) = 2 * (8 - h) := by omega
    rw [this]
  have hb : bodyBits buf final h inv = encodeRuns (runs t) false := by
    unfold bodyBits; rw [hs]; rfl
  rw [← fieldBits_eq, ← ofNat_ones]
  unfold blockBits hclensBits
  rw [e, magic_bits _ (by split <;> omega) (8 - h) (by omega) _ (padsOf_lt _ _ _ _), hb]
  simp only [List.append_assoc]

/-- **M2.** Wherever a meta block stands in a DEFLATE stream, the RFC 1951
    decoder reads it as one complete dynamic block with an empty body: no output,
    exactly the block's bits consumed, and the stream ends there iff the block was
    written with `FinalStream`. -/
theorem meta_block_silent (buf : List UInt8) (final : FinalMode) (bits : Bits)
    (h : encodeBlock buf final = some bits)
    (total fuel : Nat) (out : Array UInt8) (rest : Bits) :
    decodeBlocks total (fuel + 1) out (bits ++ rest) =
      if final = .fstream then
        { out := out, verdict := .ok (total - rest.length + padTo8 (total - rest.length)) }
      else decodeBlocks total fuel out rest := by
  obtain ⟨hl, inv, a1, a2, a3, a4, a5, rfl⟩ := encodeBlock_some buf final bits h
  obtain ⟨s1, s2, s3, s4⟩ := symbolBits_shape_aux buf hl (final ≠ .fnil) inv (by omega) a4 a5
  obtain ⟨t, hs⟩ : ∃ t, symbolBits buf hl (final ≠ .fnil) inv = false :: t := by
    cases hsym : symbolBits buf hl (final ≠ .fnil) inv with
    | nil => rw [hsym] at s1; simp at s1
    | cons b t => rw [hsym] at s2; simp at s2; exact ⟨t, by rw [s2]⟩
  rw [hs] at s1 s3 s4
  have ht : t.length = 256 := by simpa using s1
  have hp := padsOf_lt buf final hl inv
  rw [blockBits_fields buf final hl inv t rest a1 a2 hs]
  rw [decodeBlocks_dyn total fuel out _ _ _ _ rest _ _ _
    (takeBits_ofNat_lt 1 _ _ (by split <;> omega))
    (takeBits_ofNat_lt 2 2 _ (by omega))
    (readDynamic_meta hl (padsOf buf final hl inv) t _ a1 a2 hp ht s4)
    (inflate_eob _ _ _ out _ rest (litHuff_decode_eob hl (false :: t) _ rest a1 a2 s1 s3 s4))]
  cases final <;> simp

end Compress.Proofs.MetaSilent
