/-
The histogram fix-up of `GenerateLengths` (`treeRotate`, `fixLevel`,
`reassign`), analysed through three functionals of a histogram
`f : Nat → Int` (`f l` = number of symbols of length `l`):

* `S f i = Σ_{l ≤ i} f l * 2^(i-l)`  (Kraft sum scaled by `2^i`),
* `C f i = Σ_{l ≤ i} f l`            (number of symbols),
* `W f i = Σ_{l ≤ i} l * f l`        (total code length; the termination measure).

Support for `Compress.Proofs.PrefixLengths`.
-/
import Compress.Prefix.Spec

set_option linter.unusedSimpArgs false

namespace Compress.Proofs.PLHist
open Compress Compress.Prefix

/-! ### the three functionals -/

def S (f : Nat → Int) : Nat → Int
  | 0 => f 0
  | i+1 => 2 * S f i + f (i+1)

def C (f : Nat → Int) : Nat → Int
  | 0 => f 0
  | i+1 => C f i + f (i+1)

def W (f : Nat → Int) : Nat → Int
  | 0 => 0
  | i+1 => W f i + ((i:Int)+1) * f (i+1)

theorem S_add (f g : Nat → Int) (i : Nat) : S (fun j => f j + g j) i = S f i + S g i := by
  induction i with
  | zero => simp [S]
  | succ i ih => simp only [S, ih]; omega

theorem C_add (f g : Nat → Int) (i : Nat) : C (fun j => f j + g j) i = C f i + C g i := by
  induction i with
  | zero => simp [C]
  | succ i ih => simp only [C, ih]; omega

theorem W_add (f g : Nat → Int) (i : Nat) : W (fun j => f j + g j) i = W f i + W g i := by
  induction i with
  | zero => simp [W]
  | succ i ih => simp only [W, ih, Int.mul_add]; omega

theorem S_congr {f g : Nat → Int} (i : Nat) (h : ∀ j ≤ i, f j = g j) : S f i = S g i := by
  induction i with
  | zero => simp [S, h 0 (Nat.le_refl _)]
  | succ i ih => simp only [S, ih (fun j hj => h j (by omega)), h (i+1) (Nat.le_refl _)]

theorem C_congr {f g : Nat → Int} (i : Nat) (h : ∀ j ≤ i, f j = g j) : C f i = C g i := by
  induction i with
  | zero => simp [C, h 0 (Nat.le_refl _)]
  | succ i ih => simp only [C, ih (fun j hj => h j (by omega)), h (i+1) (Nat.le_refl _)]

theorem W_congr {f g : Nat → Int} (i : Nat) (h : ∀ j ≤ i, f j = g j) : W f i = W g i := by
  induction i with
  | zero => simp [W]
  | succ i ih => simp only [W, ih (fun j hj => h j (by omega)), h (i+1) (Nat.le_refl _)]

theorem SC_zero {f : Nat → Int} (i : Nat) (h : ∀ j ≤ i, f j = 0) : S f i = 0 ∧ C f i = 0 := by
  induction i with
  | zero => simp [S, C, h 0 (Nat.le_refl _)]
  | succ i ih =>
    have := ih (fun j hj => h j (by omega))
    simp [S, C, this.1, this.2, h (i+1) (Nat.le_refl _)]

/-- extending the range over empty levels. -/
theorem C_extend {f : Nat → Int} (i k : Nat) (h : ∀ j, i < j → f j = 0) : C f (i + k) = C f i := by
  induction k with
  | zero => rfl
  | succ k ih =>
    have : i + (k + 1) = (i + k) + 1 := by omega
    rw [this, C, ih, h (i + k + 1) (by omega)]; omega

theorem W_nonneg {f : Nat → Int} (i : Nat) (h : ∀ j, 0 ≤ f j) : 0 ≤ W f i := by
  induction i with
  | zero => simp [W]
  | succ i ih =>
    simp only [W]
    have : 0 ≤ ((i:Int) + 1) * f (i+1) := Int.mul_nonneg (by omega) (h _)
    omega

/-! ### one elementary rotation: `-1` at `k`, `+3` at `k+1`, `-2` at `k+2` -/

def delta (k : Nat) (j : Nat) : Int :=
  if j = k then -1 else if j = k + 1 then 3 else if j = k + 2 then -2 else 0

theorem S_delta (k i : Nat) :
    S (delta k) i = if i < k then 0 else if i = k then -1 else if i = k + 1 then 1 else 0 := by
  induction i with
  | zero => simp only [S, delta]; grind
  | succ i ih => simp only [S, ih, delta]; grind

theorem C_delta (k i : Nat) :
    C (delta k) i = if i < k then 0 else if i = k then -1 else if i = k + 1 then 2 else 0 := by
  induction i with
  | zero => simp only [C, delta]; grind
  | succ i ih => simp only [C, ih, delta]; grind

theorem W_delta (k i : Nat) :
    W (delta k) i = if i < k then 0 else if i = k then -(k:Int) else if i = k + 1 then 2 * (k:Int) + 3 else -1 := by
  induction i with
  | zero => simp only [W]; grind
  | succ i ih => simp only [W, ih, delta]; grind

/-! ### `histGet` / `histSet` -/

theorem histGet_histSet (h : List Int) (i : Nat) (v : Int) (j : Nat) :
    histGet (histSet h i v) j = if j = i then v else histGet h j := by
  unfold histGet histSet
  split
  · rename_i hi
    simp only [List.getD_eq_getElem?_getD, List.getElem?_set]
    split <;> rename_i hji
    · subst hji; simp [hi]
    · split <;> simp_all <;> omega
  · rename_i hi
    simp only [List.getD_eq_getElem?_getD]
    grind

theorem histSet_length (h : List Int) (i : Nat) (v : Int) (hi : i < h.length) :
    (histSet h i v).length = h.length := by
  simp [histSet, hi]

theorem histGet_of_le (h : List Int) (j : Nat) (hj : h.length ≤ j) : histGet h j = 0 := by
  simp [histGet, List.getD_eq_getElem?_getD, List.getElem?_eq_none hj]

/-- the three writes of one `treeRotate` frame. -/
def step (h : List Int) (k : Nat) : List Int :=
  let h := histSet h k (histGet h k - 1)
  let h := histSet h (k + 1) (histGet h (k + 1) + 3)
  histSet h (k + 2) (histGet h (k + 2) - 2)

theorem histGet_step (h : List Int) (k j : Nat) :
    histGet (step h k) j = histGet h j + delta k j := by
  simp only [step, histGet_histSet, delta]
  grind

theorem step_length (h : List Int) (k : Nat) (hk : k + 2 < h.length) :
    (step h k).length = h.length := by
  simp only [step]
  rw [histSet_length, histSet_length, histSet_length] <;>
    (try rw [histSet_length]) <;> (try rw [histSet_length]) <;> omega

theorem treeRotate_succ (fuel : Nat) (h : List Int) (k : Nat) :
    treeRotate (fuel + 1) h (k + 1) =
      (if histGet h k = 0 then treeRotate fuel h k else some h).map (fun h => step h k) := by
  simp only [treeRotate, Nat.add_sub_cancel, step]
  split <;> rename_i hk
  · simp at hk
  · split <;> simp_all

/-! ### specification of `treeRotate` -/

structure TR (f f' : Nat → Int) (nb : Nat) : Prop where
  sums : ∀ i, nb + 1 ≤ i → S f' i = S f i ∧ C f' i = C f i ∧ W f' i + 1 ≤ W f i
  above : ∀ j, nb + 1 < j → f' j = f j
  top : f' (nb + 1) = f (nb + 1) - 2
  mid : f nb + 1 ≤ f' nb
  below : (∀ j < nb, 0 ≤ f j) → ∀ j < nb, 0 ≤ f' j

theorem TR_step {f f1 : Nat → Int} {k : Nat}
    (hsum : ∀ i, k + 2 ≤ i → S f1 i = S f i ∧ C f1 i = C f i ∧ W f1 i ≤ W f i)
    (habove : ∀ j, k + 1 < j → f1 j = f j)
    (hmid : f1 (k + 1) + 2 ≥ f (k + 1))
    (hk : (∀ j < k + 1, 0 ≤ f j) → 1 ≤ f1 k)
    (hbelow : (∀ j < k + 1, 0 ≤ f j) → ∀ j < k, 0 ≤ f1 j) :
    TR f (fun j => f1 j + delta k j) (k + 1) := by
  constructor
  · intro i hi
    have := hsum i hi
    rw [S_add, C_add, W_add, S_delta, C_delta, W_delta]
    grind
  · intro j hj
    have := habove j (by omega)
    simp only [delta]; grind
  · have := habove (k + 2) (by omega)
    simp only [delta]; grind
  · simp only [delta]; grind
  · intro h0 j hj
    have h1 := hk h0
    have h2 := hbelow h0
    simp only [delta]
    by_cases hjk : j = k
    · subst hjk; simp; omega
    · have := h2 j (by omega); grind

theorem treeRotate_spec : ∀ (fuel : Nat) (h : List Int) (nb : Nat) (h' : List Int),
    treeRotate fuel h nb = some h' →
    TR (histGet h) (histGet h') nb ∧ (nb + 1 < h.length → h'.length = h.length) := by
  intro fuel
  induction fuel with
  | zero => intro h nb h' e; simp [treeRotate] at e
  | succ fuel ih =>
    intro h nb h' e
    cases nb with
    | zero => simp [treeRotate] at e
    | succ k =>
      rw [treeRotate_succ] at e
      split at e <;> rename_i hk
      · -- recursive frame
        cases e1 : treeRotate fuel h k with
        | none => simp [e1] at e
        | some h1 =>
          simp only [e1, Option.map_some, Option.some.injEq] at e
          subst e
          obtain ⟨tr, hlen⟩ := ih h k h1 e1
          refine ⟨?_, ?_⟩
          · have : histGet (step h1 k) = fun j => histGet h1 j + delta k j :=
              funext (histGet_step h1 k)
            rw [this]
            apply TR_step
            · intro i hi
              have := tr.sums i (by omega); omega
            · intro j hj; exact tr.above j hj
            · have := tr.top; omega
            · intro _; have := tr.mid; omega
            · intro h0; exact tr.below (fun j hj => h0 j (by omega))
          · intro hl
            rw [step_length _ _ (by rw [hlen (by omega)]; omega), hlen (by omega)]
      · simp only [Option.map_some, Option.some.injEq] at e
        subst e
        refine ⟨?_, ?_⟩
        · have : histGet (step h k) = fun j => histGet h j + delta k j :=
            funext (histGet_step h k)
          rw [this]
          apply TR_step
          · intro i hi; simp
          · intro j hj; rfl
          · omega
          · intro h0; have := h0 k (by omega); omega
          · intro h0 j hj; exact h0 j (by omega)
        · intro hl; exact step_length _ _ (by omega)

theorem treeRotate_isSome : ∀ (fuel : Nat) (h : List Int) (nb : Nat),
    (∃ j < nb, histGet h j ≠ 0) → nb + 1 ≤ fuel → ∃ h', treeRotate fuel h nb = some h' := by
  intro fuel
  induction fuel with
  | zero => intro h nb _ hf; omega
  | succ fuel ih =>
    intro h nb ⟨j, hj, hne⟩ hf
    cases nb with
    | zero => omega
    | succ k =>
      rw [treeRotate_succ]
      split <;> rename_i hk
      · have hjk : j < k := by
          rcases Nat.lt_or_ge j k with h | h
          · exact h
          · have : j = k := by omega
            subst this; exact absurd hk hne
        obtain ⟨h1, e1⟩ := ih h k ⟨j, hjk, hne⟩ (by omega)
        exact ⟨_, by rw [e1]; rfl⟩
      · exact ⟨_, rfl⟩

/-! ### `fixLevel`: what any successful run guarantees -/

theorem fixLevel_sound (maxBits : Nat) : ∀ (fuel : Nat) (h : List Int) (i : Nat) (h' : List Int),
    fixLevel maxBits fuel h i = some h' → i < h.length → (∀ j, i < j → histGet h j ≤ 0) →
    h'.length = h.length ∧ S (histGet h') (h.length - 1) = S (histGet h) (h.length - 1) ∧
      ∀ j, maxBits < j → histGet h' j ≤ 0 := by
  intro fuel
  induction fuel with
  | zero => intro h i h' e; simp [fixLevel] at e
  | succ fuel ih =>
    intro h i h' e hi habove
    simp only [fixLevel] at e
    split at e <;> rename_i hle
    · cases e
      exact ⟨rfl, rfl, fun j hj => habove j (by omega)⟩
    · split at e <;> rename_i hpos
      · cases e1 : treeRotate (i + 2) h (i - 1) with
        | none => simp [e1] at e
        | some h1 =>
          simp only [e1] at e
          obtain ⟨tr, hlen⟩ := treeRotate_spec _ _ _ _ e1
          have hlen := hlen (by omega)
          obtain ⟨r1, r2, r3⟩ := ih h1 i h' e (by omega) (fun j hj => by
            rw [tr.above j (by omega)]; exact habove j hj)
          refine ⟨by omega, ?_, r3⟩
          rw [hlen] at r2
          rw [r2]
          exact (tr.sums _ (by omega)).1
      · obtain ⟨r1, r2, r3⟩ := ih h (i - 1) h' e (by omega) (fun j hj => by
          by_cases hji : j = i
          · subst hji; omega
          · exact habove j (by omega))
        exact ⟨r1, r2, r3⟩

/-! ### `fixLevel`: termination without underflow -/

/-- invariant of the outer loop at level `i` for `n` symbols. -/
structure FI (n : Int) (f : Nat → Int) (i : Nat) : Prop where
  nonneg : ∀ j, 0 ≤ f j
  zero : ∀ j, i < j → f j = 0
  kraft : S f i = 2 ^ i
  count : C f i = n

theorem pow_succ_int (k : Nat) : (2:Int) ^ (k + 1) = 2 * 2 ^ k := by
  rw [Int.pow_succ]; omega

/-- some level strictly between the root and `i-1` is occupied. -/
theorem FI.exists_lower {n : Int} {f : Nat → Int} {i maxBits : Nat} (h : FI n f i)
    (hfit : n ≤ 2 ^ maxBits) (hi : maxBits < i) (h1 : 1 ≤ maxBits) (hpos : 0 < f i) :
    ∃ j < i - 1, f j ≠ 0 := by
  apply Classical.byContradiction
  intro hno
  have hz : ∀ j < i - 1, f j = 0 := by
    intro j hj
    apply Classical.byContradiction
    intro hne
    exact hno ⟨j, hj, hne⟩
  obtain ⟨k, rfl⟩ : ∃ k, i = k + 2 := ⟨i - 2, by omega⟩
  have hsc := SC_zero k (fun j hj => hz j (by omega))
  have hk := h.kraft
  have hc := h.count
  simp only [S, C, hsc.1, hsc.2] at hk hc
  have hpow : (2:Int) ^ maxBits ≤ 2 ^ (k + 1) := by
    have : (2:Nat) ^ maxBits ≤ 2 ^ (k + 1) := Nat.pow_le_pow_right (by omega) (by omega)
    exact_mod_cast this
  rw [pow_succ_int (k + 1)] at hk
  simp only [show k + 1 + 1 = k + 2 from rfl] at hk hc
  omega

theorem fixLevel_total (maxBits : Nat) (n : Int) (hfit : n ≤ 2 ^ maxBits) (h1 : 1 ≤ maxBits) :
    ∀ (fuel : Nat) (h : List Int) (i : Nat),
    FI n (histGet h) i → i < h.length → W (histGet h) i + i + 1 ≤ fuel →
    ∃ h', fixLevel maxBits fuel h i = some h' ∧ h'.length = h.length ∧
      (∀ j, 0 ≤ histGet h' j) ∧ C (histGet h') (h.length - 1) = n := by
  intro fuel
  induction fuel with
  | zero =>
    intro h i fi _ hf
    have := W_nonneg i fi.nonneg
    omega
  | succ fuel ih =>
    intro h i fi hi hf
    simp only [fixLevel]
    split <;> rename_i hle
    · refine ⟨h, rfl, rfl, fi.nonneg, ?_⟩
      have : h.length - 1 = i + (h.length - 1 - i) := by omega
      rw [this, C_extend _ _ fi.zero, fi.count]
    · have hi1 : 1 ≤ i := by omega
      split <;> rename_i hpos
      · -- rotate
        obtain ⟨h1', e1⟩ := treeRotate_isSome (i + 2) h (i - 1)
          (fi.exists_lower hfit (by omega) h1 hpos) (by omega)
        simp only [e1]
        obtain ⟨tr, hlen⟩ := treeRotate_spec _ _ _ _ e1
        have hlen' := hlen (by omega)
        have hsum := tr.sums i (by omega)
        have e : i - 1 + 1 = i := by omega
        -- parity: the deepest occupied level holds at least two symbols
        have hk := fi.kraft
        obtain ⟨k, rfl⟩ : ∃ k, i = k + 1 := ⟨i - 1, by omega⟩
        simp only [S] at hk
        rw [pow_succ_int k] at hk
        have hfi2 : 2 ≤ histGet h (k + 1) := by omega
        have fi' : FI n (histGet h1') (k + 1) := by
          constructor
          · intro j
            rcases Nat.lt_trichotomy j k with hj | hj | hj
            · exact tr.below (fun j _ => fi.nonneg j) j (by omega)
            · subst hj
              have := tr.mid; have := fi.nonneg j
              simp only [Nat.add_sub_cancel] at *; omega
            · rcases Nat.lt_or_ge (k + 1) j with hj' | hj'
              · rw [tr.above j (by omega)]; exact fi.nonneg j
              · have : j = k + 1 := by omega
                subst this
                have := tr.top
                simp only [Nat.add_sub_cancel] at *; omega
          · intro j hj
            rw [tr.above j (by omega)]; exact fi.zero j hj
          · rw [hsum.1]; exact fi.kraft
          · rw [hsum.2.1]; exact fi.count
        obtain ⟨h', r1, r2, r3, r4⟩ := ih h1' (k + 1) fi' (by omega) (by omega)
        exact ⟨h', r1, by omega, r3, by rw [← hlen']; exact r4⟩
      · -- this level is empty: go down
        have hz : histGet h i = 0 := by have := fi.nonneg i; omega
        obtain ⟨k, rfl⟩ : ∃ k, i = k + 1 := ⟨i - 1, by omega⟩
        have hk := fi.kraft
        have hc := fi.count
        simp only [S, C, hz] at hk hc
        rw [pow_succ_int k] at hk
        have fi' : FI n (histGet h) k := by
          constructor
          · exact fi.nonneg
          · intro j hj
            by_cases hjk : j = k + 1
            · subst hjk; exact hz
            · exact fi.zero j (by omega)
          · omega
          · omega
        have hw : W (histGet h) (k + 1) = W (histGet h) k := by simp [W, hz]
        simp only [Nat.add_sub_cancel]
        exact ih h k fi' (by omega) (by omega)

/-! ### histograms of length lists -/

def cnt (lens : List Nat) (l : Nat) : Int := ((lens.filter (· == l)).length : Int)

def ind (x : Nat) (l : Nat) : Int := if x = l then 1 else 0

theorem cnt_nil (l : Nat) : cnt [] l = 0 := rfl

theorem cnt_cons (x : Nat) (xs : List Nat) : cnt (x :: xs) = fun l => cnt xs l + ind x l := by
  funext l
  simp only [cnt, ind, List.filter_cons]
  split <;> simp_all

theorem S_ind (x i : Nat) : S (ind x) i = if x ≤ i then ((2 ^ (i - x) : Nat) : Int) else 0 := by
  induction i with
  | zero => simp only [S, ind]; grind
  | succ i ih =>
    simp only [S, ih, ind]
    by_cases h1 : x ≤ i
    · have : i + 1 - x = (i - x) + 1 := by omega
      simp only [h1, if_true, this, Nat.pow_succ]
      have : ¬ x = i + 1 := by omega
      simp [this]; omega
    · by_cases h2 : x = i + 1
      · subst h2
        have : ¬ i + 1 ≤ i := by omega
        simp [this]
      · have : ¬ x ≤ i + 1 := by omega
        simp [h1, h2, this]

theorem C_ind (x i : Nat) : C (ind x) i = if x ≤ i then 1 else 0 := by
  induction i with
  | zero => simp only [C, ind]; grind
  | succ i ih => simp only [C, ih, ind]; grind

theorem W_ind (x i : Nat) : W (ind x) i = if x ≤ i then (x : Int) else 0 := by
  induction i with
  | zero => simp only [W]; grind
  | succ i ih => simp only [W, ih, ind]; grind

theorem S_cnt (lens : List Nat) (i : Nat) (h : ∀ l ∈ lens, l ≤ i) :
    S (cnt lens) i = (((lens.map (fun l => 2 ^ (i - l))).sum : Nat) : Int) := by
  induction lens with
  | nil => simp [(SC_zero i (fun j _ => cnt_nil j)).1]
  | cons x xs ih =>
    rw [cnt_cons, S_add, ih (fun l hl => h l (by simp [hl])), S_ind]
    have := h x (by simp)
    simp [this]; omega

theorem C_cnt (lens : List Nat) (i : Nat) (h : ∀ l ∈ lens, l ≤ i) :
    C (cnt lens) i = (lens.length : Int) := by
  induction lens with
  | nil => simp [(SC_zero i (fun j _ => cnt_nil j)).2]
  | cons x xs ih =>
    rw [cnt_cons, C_add, ih (fun l hl => h l (by simp [hl])), C_ind]
    have := h x (by simp)
    simp [this]

theorem W_cnt (lens : List Nat) (i : Nat) (h : ∀ l ∈ lens, l ≤ i) :
    W (cnt lens) i = ((lens.sum : Nat) : Int) := by
  induction lens with
  | nil =>
    have : W (cnt []) i = W (fun _ => 0) i := W_congr i (fun j _ => cnt_nil j)
    rw [this]
    clear this h
    induction i with
    | zero => simp [W]
    | succ i ih => simp [W, ih]
  | cons x xs ih =>
    rw [cnt_cons, W_add, ih (fun l hl => h l (by simp [hl])), W_ind]
    have := h x (by simp)
    simp [this]; omega

theorem cnt_pos_iff (lens : List Nat) (l : Nat) : 0 < cnt lens l ↔ l ∈ lens := by
  simp only [cnt]
  constructor
  · intro h
    have : 0 < (lens.filter (· == l)).length := by omega
    obtain ⟨x, hx⟩ := List.exists_mem_of_length_pos this
    simp only [List.mem_filter, beq_iff_eq] at hx
    exact hx.2 ▸ hx.1
  · intro h
    have : l ∈ lens.filter (· == l) := by simp [List.mem_filter, h]
    have := List.length_pos_of_mem this
    omega

theorem cnt_nonneg (lens : List Nat) (l : Nat) : 0 ≤ cnt lens l := by simp [cnt]

theorem cnt_append (a b : List Nat) (l : Nat) : cnt (a ++ b) l = cnt a l + cnt b l := by
  simp [cnt]

theorem cnt_replicate (k x l : Nat) : cnt (List.replicate k x) l = if x = l then (k : Int) else 0 := by
  simp only [cnt, List.filter_replicate]
  split <;> simp_all

/-! ### `reassign` -/

theorem go_spec : ∀ (cs : List Int) (nb rem : Nat) (acc res : List Nat),
    reassign.go cs nb rem acc = some res →
    res.length = acc.length + rem ∧
    (∀ l, cnt res l = cnt acc l + (if nb ≤ l then max 0 (histGet cs (l - nb)) else 0)) ∧
    (acc.Pairwise (· ≥ ·) → (∀ a ∈ acc, a ≤ nb) → res.Pairwise (· ≥ ·)) := by
  intro cs
  induction cs with
  | nil =>
    intro nb rem acc res e
    simp only [reassign.go] at e
    split at e
    · cases e
      rename_i h0
      refine ⟨by omega, ?_, fun h _ => h⟩
      intro l; simp [histGet]
    · cases e
  | cons c cs ih =>
    intro nb rem acc res e
    simp only [reassign.go] at e
    have hget : ∀ l, nb ≤ l → histGet (c :: cs) (l - nb) =
        if l = nb then c else histGet cs (l - (nb + 1)) := by
      intro l hl
      by_cases h : l = nb
      · subst h; simp [histGet]
      · have : l - nb = (l - (nb + 1)) + 1 := by omega
        simp [histGet, this, h]
    split at e <;> rename_i hc
    · split at e <;> rename_i hr
      · cases e
      · obtain ⟨r1, r2, r3⟩ := ih _ _ _ _ e
        refine ⟨?_, ?_, ?_⟩
        · simp at r1; omega
        · intro l
          rw [r2 l, cnt_append, cnt_replicate]
          by_cases h1 : nb ≤ l
          · rw [if_pos h1, hget l h1]
            by_cases h2 : nb = l
            · subst h2; simp; omega
            · have : nb + 1 ≤ l := by omega
              have h3 : ¬ l = nb := by omega
              simp [this, h2, h3]
          · have : ¬ nb + 1 ≤ l := by omega
            have h2 : ¬ nb = l := by omega
            simp [h1, this, h2]
        · intro hp hle
          apply r3
          · rw [List.pairwise_append]
            refine ⟨?_, hp, ?_⟩
            · simp [List.pairwise_replicate]
            · intro a ha b hb
              have := (List.mem_replicate.1 ha).2
              have := hle b hb
              omega
          · intro a ha
            rcases List.mem_append.1 ha with ha | ha
            · have := (List.mem_replicate.1 ha).2; omega
            · have := hle a ha; omega
    · obtain ⟨r1, r2, r3⟩ := ih _ _ _ _ e
      refine ⟨r1, ?_, ?_⟩
      · intro l
        rw [r2 l]
        by_cases h1 : nb ≤ l
        · rw [if_pos h1, hget l h1]
          by_cases h2 : l = nb
          · subst h2
            have : ¬ l + 1 ≤ l := by omega
            simp [this]; omega
          · have : nb + 1 ≤ l := by omega
            simp [this, h2]
        · have : ¬ nb + 1 ≤ l := by omega
          simp [h1, this]
      · intro hp hle
        exact r3 hp (fun a ha => by have := hle a ha; omega)

theorem go_isSome : ∀ (cs : List Int) (nb rem : Nat) (acc : List Nat),
    (cs.map Int.toNat).sum = rem → ∃ res, reassign.go cs nb rem acc = some res := by
  intro cs
  induction cs with
  | nil => intro nb rem acc h; simp at h; subst h; exact ⟨acc, by simp [reassign.go]⟩
  | cons c cs ih =>
    intro nb rem acc h
    simp only [List.map_cons, List.sum_cons] at h
    simp only [reassign.go]
    split <;> rename_i hc
    · split <;> rename_i hr
      · omega
      · exact ih _ _ _ (by omega)
    · have : c.toNat = 0 := by omega
      exact ih _ _ _ (by omega)

theorem C_histGet (h : List Int) (hne : h ≠ []) (hnn : ∀ j, 0 ≤ histGet h j) :
    C (histGet h) (h.length - 1) = (((h.map Int.toNat).sum : Nat) : Int) := by
  induction h with
  | nil => exact absurd rfl hne
  | cons c cs ih =>
    have hc : 0 ≤ c := by simpa [histGet] using hnn 0
    have hshift : ∀ k, C (histGet (c :: cs)) (k + 1) = c + C (histGet cs) k := by
      intro k
      induction k with
      | zero => simp [C, histGet]
      | succ k ihk => rw [C, ihk, C]; simp [histGet]; omega
    cases cs with
    | nil => simp [C, histGet]; omega
    | cons d ds =>
      have := ih (by simp) (fun j => by simpa [histGet] using hnn (j + 1))
      simp only [List.length_cons, Nat.add_sub_cancel] at this ⊢
      rw [hshift, this]
      simp; omega

end Compress.Proofs.PLHist
