/-
Lifecycle and failure contract of the API-level model of meta.Reader
(`Compress/Meta/ReaderApi.lean`): latch, Close, closed state, no reachable nil
dereference, source errors verbatim, Reset = fresh, OutputOffset.
Core-only reasoning (nothing of the codec is used here).
-/
import Compress.Meta.ReaderApi

namespace Compress.Proofs.MetaRApi
open Compress Compress.Meta

/-! ### Read -/

theorem read_latched (s : MR) (n : Nat) (e : RErr) (h : s.err = some e) :
    s.read n = (s, [], some e) := by
  simp [MR.read, h]

/-- the error `Read` returns is the latch it leaves. -/
theorem read_err_state (s : MR) (n : Nat) : (s.read n).1.err = (s.read n).2.2 := by
  unfold MR.read
  by_cases h : s.err ≠ none
  · simp [h]
  · have h' : s.err = none := by simpa using h
    by_cases hn : n = 0
    · simp [h', hn]
    · simp [h', hn]

theorem decodeStep_frame (s : MR) :
    s.decodeStep.1.err = s.err ∧ s.decodeStep.1.done = s.done ∧ s.decodeStep.1.rdNil = s.rdNil ∧
    s.decodeStep.1.ftag = s.ftag ∧ s.decodeStep.1.outOff = s.outOff ∧
    s.decodeStep.1.finalMode = s.finalMode := by
  unfold MR.decodeStep
  by_cases h : s.rdNil = true
  · simp [h]
  · have h' : s.rdNil = false := by simpa using h
    simp only [h', Bool.false_eq_true, if_false]
    split <;> simp [h']

theorem decodeStep_err (s : MR) (h : s.rdNil = false) (e : RErr) (he : s.decodeStep.2 = some e) :
    e ≠ .nilDeref ∧ e ≠ .closed ∧ e ≠ .corrupt → ((∀ t, e = .fault t → s.ftag = some t) ∧ (e = .ueof → s.ftag = none) ∧
      (e = .eof → s.ftag = none)) := by
  intro _
  unfold MR.decodeStep at he
  simp only [h, Bool.false_eq_true, if_false] at he
  split at he
  · simp at he
  · cases hf : s.ftag <;> simp [hf] at he <;> subst he <;> simp
  · cases hf : s.ftag <;> simp [MR.endErr, hf] at he <;> subst he <;> simp
  · simp at he; subst he; simp

theorem decodeStep_err_ne (s : MR) (h : s.rdNil = false) (e : RErr) (he : s.decodeStep.2 = some e) :
    e ≠ .nilDeref ∧ e ≠ .closed := by
  unfold MR.decodeStep at he
  simp only [h, Bool.false_eq_true, if_false] at he
  split at he
  · simp at he
  · cases hf : s.ftag <;> simp [hf] at he <;> subst he <;> simp
  · cases hf : s.ftag <;> simp [MR.endErr, hf] at he <;> subst he <;> simp
  · simp at he; subst he; simp

/-- fields the Read loop never touches. -/
theorem readLoop_frame : ∀ (fuel : Nat) (s : MR) (n : Nat),
    (MR.readLoop fuel s n).1.done = s.done ∧ (MR.readLoop fuel s n).1.rdNil = s.rdNil ∧
    (MR.readLoop fuel s n).1.ftag = s.ftag ∧ (MR.readLoop fuel s n).1.outOff = s.outOff := by
  intro fuel
  induction fuel with
  | zero => intro s n; simp [MR.readLoop]
  | succ fuel ih =>
    intro s n
    unfold MR.readLoop
    by_cases hb : s.buf ≠ []
    · simp [hb]
    · simp only [hb, if_false]
      by_cases hf : s.final ≠ .fnil
      · simp [hf]
      · simp only [hf, if_false]
        obtain ⟨_, f2, f3, f4, f5, _⟩ := decodeStep_frame s
        cases hd : s.decodeStep.2 with
        | some e => simp [f2, f3, f4, f5]
        | none =>
          simp only []
          obtain ⟨i1, i2, i3, i4⟩ := ih s.decodeStep.1 n
          exact ⟨i1.trans f2, i2.trans f3, i3.trans f4, i4.trans f5⟩

/-- a Read that ends with an error delivers nothing; the possible errors. -/
theorem readLoop_err : ∀ (fuel : Nat) (s : MR) (n : Nat), s.err = none → s.rdNil = false →
    ∀ e, (MR.readLoop fuel s n).1.err = some e →
      (MR.readLoop fuel s n).2 = [] ∧ e ≠ .nilDeref ∧ e ≠ .closed ∧
      (∀ t, e = .fault t → s.ftag = some t) ∧ (e = .ueof → s.ftag = none) ∧
      (e = .eof → s.ftag = none ∨ (MR.readLoop fuel s n).1.final ≠ .fnil) := by
  intro fuel
  induction fuel with
  | zero => intro s n h _ e he; simp [MR.readLoop, h] at he
  | succ fuel ih =>
    intro s n h hr e he
    unfold MR.readLoop at he ⊢
    by_cases hb : s.buf ≠ []
    · simp [hb, h] at he
    · simp only [hb, if_false] at he ⊢
      by_cases hf : s.final ≠ .fnil
      · rw [if_pos hf] at he ⊢
        simp only [Option.some.injEq] at he; subst he
        simp [hf]
      · simp only [hf, if_false] at he ⊢
        obtain ⟨f1, _, f3, f4, _, _⟩ := decodeStep_frame s
        cases hd : s.decodeStep.2 with
        | some e' =>
          simp only [hd] at he ⊢
          simp at he; subst he
          obtain ⟨n1, n2⟩ := decodeStep_err_ne s hr e' hd
          refine ⟨trivial, n1, n2, ?_⟩
          by_cases hc : e' = .corrupt
          · subst hc; simp
          · obtain ⟨a, b, c⟩ := decodeStep_err s hr e' hd ⟨n1, n2, hc⟩
            exact ⟨a, b, fun h' => Or.inl (c h')⟩
        | none =>
          simp only [hd] at he ⊢
          have := ih s.decodeStep.1 n (f1.trans h) (f3.trans hr) e he
          rw [f4] at this
          exact this

theorem readLoop_nodata : ∀ (fuel : Nat) (s : MR) (n : Nat), s.err = none →
    (MR.readLoop fuel s n).1.err ≠ none → (MR.readLoop fuel s n).2 = [] := by
  intro fuel
  induction fuel with
  | zero => intro s n h he; simp [MR.readLoop]
  | succ fuel ih =>
    intro s n h he
    unfold MR.readLoop at he ⊢
    by_cases hb : s.buf ≠ []
    · simp [hb, h] at he
    · simp only [hb, if_false] at he ⊢
      by_cases hf : s.final ≠ .fnil
      · simp [hf]
      · simp only [hf, if_false] at he ⊢
        obtain ⟨f1, _⟩ := decodeStep_frame s
        cases hd : s.decodeStep.2 with
        | some e' => simp
        | none =>
          simp only [hd] at he ⊢
          exact ih s.decodeStep.1 n (f1.trans h) he

theorem read_err_nodata (s : MR) (n : Nat) (e : RErr) (h : (s.read n).2.2 = some e) :
    (s.read n).2.1 = [] := by
  unfold MR.read at h ⊢
  by_cases h0 : s.err ≠ none
  · simp [h0]
  · have h' : s.err = none := by simpa using h0
    by_cases hn : n = 0
    · simp [h', hn]
    · simp only [h', hn, ne_eq, not_true_eq_false, if_false] at h ⊢
      exact readLoop_nodata _ s n h' (by rw [h]; simp)

theorem read_outOff (s : MR) (n : Nat) :
    (s.read n).1.outOff = s.outOff + (s.read n).2.1.length := by
  unfold MR.read
  by_cases h0 : s.err ≠ none
  · simp [h0]
  · have h' : s.err = none := by simpa using h0
    by_cases hn : n = 0
    · simp [h', hn]
    · simp only [h', hn, ne_eq, not_true_eq_false, if_false]
      rw [(readLoop_frame _ s n).2.2.2]

theorem readLoop_len : ∀ (fuel : Nat) (s : MR) (n : Nat), (MR.readLoop fuel s n).2.length ≤ n := by
  intro fuel
  induction fuel with
  | zero => intro s n; simp [MR.readLoop]
  | succ fuel ih =>
    intro s n
    unfold MR.readLoop
    by_cases hb : s.buf ≠ []
    · rw [if_pos hb]; simp only [List.length_take]; omega
    · simp only [hb, if_false]
      by_cases hf : s.final ≠ .fnil
      · simp [hf]
      · simp only [hf, if_false]
        cases hd : s.decodeStep.2 with
        | some e' => simp
        | none => exact ih _ n

theorem read_len (s : MR) (n : Nat) : (s.read n).2.1.length ≤ n := by
  unfold MR.read
  by_cases h0 : s.err ≠ none
  · simp [h0]
  · have h' : s.err = none := by simpa using h0
    by_cases hn : n = 0
    · simp [h', hn]
    · simp only [h', hn, ne_eq, not_true_eq_false, if_false]
      exact readLoop_len _ s n

/-! ### Close -/

theorem close_done (s : MR) (h : s.done = true) : s.close = (s, none) := by
  simp [MR.close, h]

theorem close_failed (s : MR) (h : s.done = false) (e : RErr) (he : s.err = some e) (hne : e ≠ .eof) :
    s.close = (s, some e) := by
  simp [MR.close, h, he, hne]

theorem close_ok (s : MR) (h : s.done = false) (he : s.err = none ∨ s.err = some .eof) :
    s.close = ({ s with finalMode := s.final, err := some .closed, done := true, rdNil := true }, none) := by
  rcases he with he | he <;> simp [MR.close, h, he]

/-- when `Close` returns nil. -/
theorem close_nil_iff (s : MR) :
    s.close.2 = none ↔ (s.done = true ∨ s.err = none ∨ s.err = some .eof) := by
  by_cases hd : s.done = true
  · simp [close_done s hd, hd]
  · have hd' : s.done = false := by simpa using hd
    cases he : s.err with
    | none => simp [close_ok s hd' (Or.inl he)]
    | some e =>
      by_cases hne : e = .eof
      · subst hne; simp [close_ok s hd' (Or.inr he)]
      · simp [close_failed s hd' e he hne, hd', hne]

/-- after a nil `Close` the reader is closed. -/
theorem close_nil_closed (s : MR) (hinv : s.done = true → s.err = some .closed) (h : s.close.2 = none) :
    s.close.1.done = true ∧ s.close.1.err = some .closed := by
  by_cases hd : s.done = true
  · rw [close_done s hd]; exact ⟨hd, hinv hd⟩
  · have hd' : s.done = false := by simpa using hd
    rcases (close_nil_iff s).1 h with h1 | h1
    · exact absurd h1 hd
    · rw [close_ok s hd' h1]; simp

/-- a failed `Close` changes nothing and reports the latched error. -/
theorem close_err (s : MR) (e : RErr) (h : s.close.2 = some e) : s.close.1 = s ∧ s.err = some e ∧ e ≠ .eof := by
  by_cases hd : s.done = true
  · rw [close_done s hd] at h; simp at h
  · have hd' : s.done = false := by simpa using hd
    cases he : s.err with
    | none => rw [close_ok s hd' (Or.inl he)] at h; simp at h
    | some e' =>
      by_cases hne : e' = .eof
      · subst hne; rw [close_ok s hd' (Or.inr he)] at h; simp at h
      · rw [close_failed s hd' e' he hne] at h ⊢
        simp only [Option.some.injEq] at h; subst h
        exact ⟨rfl, rfl, hne⟩

/-! ### the closed state -/

def closedRes : ROp → RRes
  | .read _ => .read [] (some .closed)
  | .close => .close none
  | .reset _ => .reset

def noReset (ops : List ROp) : Prop := ∀ op ∈ ops, ∀ src, op ≠ .reset src

theorem closed_step (s : MR) (hd : s.done = true) (he : s.err = some .closed) (op : ROp)
    (hop : ∀ src, op ≠ .reset src) : s.step op = (s, closedRes op) := by
  cases op with
  | read n => simp [MR.step, read_latched s n _ he, closedRes]
  | close => simp [MR.step, close_done s hd, closedRes]
  | reset src => exact absurd rfl (hop src)

theorem closed_forever (s : MR) (hd : s.done = true) (he : s.err = some .closed) :
    ∀ ops, noReset ops → MR.run s ops = (s, ops.map closedRes) := by
  intro ops
  induction ops with
  | nil => intro _; rfl
  | cons op ops ih =>
    intro h
    have h1 := closed_step s hd he op (h op (List.mem_cons_self ..))
    have h2 := ih (fun o ho => h o (List.mem_cons_of_mem _ ho))
    simp only [MR.run, h1, h2, List.map_cons]

/-! ### the latch -/

def stuckRes (e : RErr) : ROp → RRes
  | .read _ => .read [] (some e)
  | .close => .close (some e)
  | .reset _ => .reset

/-- an error other than io.EOF, latched in a reader that is not closed, is what
    every later Read and Close returns; nothing changes until Reset. -/
theorem stuck_forever (s : MR) (e : RErr) (he : s.err = some e) (hne : e ≠ .eof) (hd : s.done = false) :
    ∀ ops, noReset ops → MR.run s ops = (s, ops.map (stuckRes e)) := by
  intro ops
  induction ops with
  | nil => intro _; rfl
  | cons op ops ih =>
    intro h
    have h2 := ih (fun o ho => h o (List.mem_cons_of_mem _ ho))
    cases op with
    | read n => simp only [MR.run, MR.step, read_latched s n e he, h2, List.map_cons, stuckRes]
    | close => simp only [MR.run, MR.step, close_failed s hd e he hne, h2, List.map_cons, stuckRes]
    | reset src => exact absurd rfl (h _ (List.mem_cons_self ..) src)

/-- any latched error (io.EOF too) is what every later Read returns, with no data. -/
theorem reads_latched (s : MR) (e : RErr) (he : s.err = some e) (ns : List Nat) :
    MR.run s (ns.map .read) = (s, ns.map (fun _ => RRes.read [] (some e))) := by
  induction ns with
  | nil => rfl
  | cons n ns ih => simp only [List.map_cons, MR.run, MR.step, read_latched s n e he, ih]

/-! ### invariant of reachable states -/

structure Inv (s : MR) : Prop where
  done_closed : s.done = true → s.err = some .closed
  nil_done    : s.rdNil = true → s.done = true
  no_panic    : s.err ≠ some .nilDeref
  closed_done : s.err = some .closed → s.done = true
  fault_tag   : ∀ t, s.err = some (.fault t) → s.ftag = some t
  ueof_src    : s.err = some .ueof → s.ftag = none
  eof_src     : s.err = some .eof → s.ftag = none ∨ s.final ≠ .fnil

theorem inv_reset (s : MR) (src : Src) : Inv (s.reset src) := by
  constructor <;> simp [MR.reset]

theorem inv_close (s : MR) (h : Inv s) : Inv s.close.1 := by
  by_cases hd : s.done = true
  · rw [close_done s hd]; exact h
  · have hd' : s.done = false := by simpa using hd
    cases he : s.err with
    | none => rw [close_ok s hd' (Or.inl he)]; constructor <;> simp
    | some e =>
      by_cases hne : e = .eof
      · subst hne; rw [close_ok s hd' (Or.inr he)]; constructor <;> simp
      · rw [close_failed s hd' e he hne]; exact h

theorem inv_read (s : MR) (h : Inv s) (n : Nat) : Inv (s.read n).1 := by
  by_cases h0 : s.err ≠ none
  · obtain ⟨e, he⟩ := Option.ne_none_iff_exists'.1 h0
    rw [read_latched s n e he]; exact h
  · have h' : s.err = none := by simpa using h0
    have hr : s.rdNil = false := by
      cases hr : s.rdNil with
      | false => rfl
      | true => have := h.done_closed (h.nil_done hr); rw [h'] at this; cases this
    have hdn : s.done = false := by
      cases hd : s.done with
      | false => rfl
      | true => have := h.done_closed hd; rw [h'] at this; cases this
    by_cases hn : n = 0
    · have : s.read n = (s, [], none) := by simp [MR.read, h', hn]
      rw [this]; exact h
    · have hst : (s.read n).1 = { (MR.readLoop (s.rest.length + 2) s n).1 with
          outOff := (MR.readLoop (s.rest.length + 2) s n).1.outOff + (MR.readLoop (s.rest.length + 2) s n).2.length } := by
        simp [MR.read, h', hn]
      obtain ⟨f1, f2, f3, _⟩ := readLoop_frame (s.rest.length + 2) s n
      have key := readLoop_err (s.rest.length + 2) s n h' hr
      rw [hst]
      constructor
      · simp only [f1, hdn]; intro hh; cases hh
      · simp only [f2, hr]; intro hh; cases hh
      · intro hh; exact (key _ hh).2.1 rfl
      · intro hh; exact absurd rfl (key _ hh).2.2.1
      · intro t hh; simp only [f3]; exact (key _ hh).2.2.2.1 t rfl
      · intro hh; simp only [f3]; exact (key _ hh).2.2.2.2.1 rfl
      · intro hh; simp only [f3]; exact (key _ hh).2.2.2.2.2 rfl

theorem inv_step (s : MR) (h : Inv s) (op : ROp) : Inv (s.step op).1 := by
  cases op with
  | read n => exact inv_read s h n
  | close => exact inv_close s h
  | reset src => exact inv_reset s src

theorem inv_run : ∀ (ops : List ROp) (s : MR), Inv s → Inv (MR.run s ops).1 := by
  intro ops
  induction ops with
  | nil => intro s h; exact h
  | cons op ops ih => intro s h; exact ih _ (inv_step s h op)

theorem inv_new (src : Src) : Inv (newMR src) := inv_reset _ src

/-- results of a run from a state satisfying the invariant: no nil dereference. -/
def panicRes : RRes → Prop
  | .read _ e => e = some .nilDeref
  | .close e => e = some .nilDeref
  | .reset => False

theorem step_no_panic (s : MR) (h : Inv s) (op : ROp) : ¬ panicRes (s.step op).2 := by
  cases op with
  | read n =>
    simp only [MR.step, panicRes]
    rw [← read_err_state]; exact (inv_read s h n).no_panic
  | close =>
    simp only [MR.step, panicRes]
    intro hh
    obtain ⟨_, he, _⟩ := close_err s _ hh
    exact h.no_panic he
  | reset src => simp [MR.step, panicRes]

theorem run_no_panic : ∀ (ops : List ROp) (s : MR), Inv s → ∀ r ∈ (MR.run s ops).2, ¬ panicRes r := by
  intro ops
  induction ops with
  | nil => intro s _ r hr; simp [MR.run] at hr
  | cons op ops ih =>
    intro s h r hr
    simp only [MR.run, List.mem_cons] at hr
    rcases hr with hr | hr
    · rw [hr]; exact step_no_panic s h op
    · exact ih _ (inv_step s h op) r hr

/-! ### Reset -/

theorem reset_fresh (s : MR) (src : Src) : s.reset src = newMR src := rfl

theorem run_reset (s : MR) (src : Src) (ops : List ROp) :
    MR.run s (.reset src :: ops) = ((MR.run (newMR src) ops).1, .reset :: (MR.run (newMR src) ops).2) := rfl

/-! ### the source a reachable state reads from -/

/-- the source handed to the last Reset (or to NewReader). -/
def lastSrc : Src → List ROp → Src
  | src, [] => src
  | _, .reset src' :: ops => lastSrc src' ops
  | src, _ :: ops => lastSrc src ops

theorem read_ftag (s : MR) (n : Nat) : (s.read n).1.ftag = s.ftag := by
  unfold MR.read
  by_cases h0 : s.err ≠ none
  · simp [h0]
  · have h' : s.err = none := by simpa using h0
    by_cases hn : n = 0
    · simp [h', hn]
    · simp only [h', hn, ne_eq, not_true_eq_false, if_false]
      exact (readLoop_frame _ s n).2.2.1

theorem close_ftag (s : MR) : s.close.1.ftag = s.ftag := by
  unfold MR.close
  by_cases hd : s.done = true
  · simp [hd]
  · simp only [hd, Bool.false_eq_true, if_false]
    split <;> rfl

theorem run_ftag : ∀ (ops : List ROp) (s : MR) (src : Src), s.ftag = src.tag →
    (MR.run s ops).1.ftag = (lastSrc src ops).tag := by
  intro ops
  induction ops with
  | nil => intro s src h; exact h
  | cons op ops ih =>
    intro s src h
    cases op with
    | read n => exact ih _ src ((read_ftag s n).trans h)
    | close => exact ih _ src ((close_ftag s).trans h)
    | reset src' => exact ih _ src' rfl

/-- the input the source hands out ends at a block boundary or inside a block,
    and the source has a fault pending: `Read` returns exactly that error. -/
theorem read_fault (s : MR) (n : Nat) (t : Nat) (he : s.err = none) (hr : s.rdNil = false)
    (hb : s.buf = []) (hf : s.final = .fnil) (ht : s.ftag = some t)
    (hd : decodeBlock s.rest = .error .eof ∨ decodeBlock s.rest = .error .unexpectedEOF) :
    (s.read (n + 1)).2.2 = some (.fault t) ∧ (s.read (n + 1)).2.1 = [] := by
  have hstep : s.decodeStep.2 = some (.fault t) := by
    unfold MR.decodeStep
    rcases hd with hd | hd <;> simp [hr, hd, ht, MR.endErr]
  have : MR.readLoop (s.rest.length + 2) s (n + 1) =
      ({ s.decodeStep.1 with err := some (.fault t) }, []) := by
    rw [show s.rest.length + 2 = (s.rest.length + 1) + 1 from rfl]
    unfold MR.readLoop
    simp [hb, hf, hstep]
  simp [MR.read, he, this]

/-! ### the property theorems (statements: Props/C09.lean, Props/C18.lean) -/

theorem C09_meta_reader_sticky_proof (src : Src) (ops : List Meta.ROp) (n : Nat) (e : RErr)
    (h : ((MR.run (newMR src) ops).1.read n).2.2 = some e) :
    ((MR.run (newMR src) ops).1.read n).2.1 = [] ∧
    (∀ ns : List Nat, MR.run ((MR.run (newMR src) ops).1.read n).1 (ns.map .read) =
      (((MR.run (newMR src) ops).1.read n).1, ns.map (fun _ => RRes.read [] (some e)))) ∧
    (e ≠ .eof → e ≠ .closed → ∀ ops', noReset ops' →
      MR.run ((MR.run (newMR src) ops).1.read n).1 ops' =
        (((MR.run (newMR src) ops).1.read n).1, ops'.map (stuckRes e))) := by
  have hs : ((MR.run (newMR src) ops).1.read n).1.err = some e := by rw [read_err_state]; exact h
  have hinv := inv_read _ (inv_run ops _ (inv_new src)) n
  refine ⟨read_err_nodata _ n e h, reads_latched _ e hs, fun h1 h2 ops' ho => ?_⟩
  have hd : ((MR.run (newMR src) ops).1.read n).1.done = false := by
    cases hd : ((MR.run (newMR src) ops).1.read n).1.done with
    | false => rfl
    | true => have := hinv.done_closed hd; rw [hs] at this; cases this; exact absurd rfl h2
  exact stuck_forever _ e hs h1 hd ops' ho

theorem C09_meta_reader_close_proof (src : Src) (ops : List Meta.ROp) :
    let s := (MR.run (newMR src) ops).1
    (s.close.2 = none ↔ (s.err = none ∨ s.err = some .eof ∨ s.err = some .closed)) ∧
    (∀ e, s.close.2 = some e → s.close.1 = s ∧ s.err = some e ∧ e ≠ .eof) ∧
    (s.close.2 = none → s.close.1.done = true ∧ s.close.1.err = some .closed) := by
  intro s
  have hinv : Inv s := inv_run ops _ (inv_new src)
  refine ⟨?_, fun e he => close_err s e he, fun h => close_nil_closed s hinv.done_closed h⟩
  rw [close_nil_iff]
  constructor
  · rintro (h | h | h)
    · exact Or.inr (Or.inr (hinv.done_closed h))
    · exact Or.inl h
    · exact Or.inr (Or.inl h)
  · rintro (h | h | h)
    · exact Or.inr (Or.inl h)
    · exact Or.inr (Or.inr h)
    · exact Or.inl (hinv.closed_done h)

theorem C09_meta_reader_io_error_verbatim_proof (src : Src) (ops : List Meta.ROp) (n : Nat) :
    let s := (MR.run (newMR src) ops).1
    (∀ t, (s.read n).2.2 = some (.fault t) → (lastSrc src ops).tag = some t) ∧
    ((s.read n).2.2 = some .ueof → (lastSrc src ops).tag = none) ∧
    ((s.read n).2.2 = some .eof → (lastSrc src ops).tag = none ∨ (s.read n).1.final ≠ .fnil) ∧
    (∀ t, s.err = none → s.buf = [] → s.final = .fnil → (lastSrc src ops).tag = some t →
      (decodeBlock s.rest = .error .eof ∨ decodeBlock s.rest = .error .unexpectedEOF) →
      (s.read (n + 1)).2.2 = some (.fault t) ∧ (s.read (n + 1)).2.1 = []) := by
  intro s
  have hinv : Inv s := inv_run ops _ (inv_new src)
  have hinv' := inv_read s hinv n
  have hft : s.ftag = (lastSrc src ops).tag := run_ftag ops _ src rfl
  have hft' : (s.read n).1.ftag = (lastSrc src ops).tag := (read_ftag s n).trans hft
  refine ⟨fun t h => ?_, fun h => ?_, fun h => ?_, fun t he hb hf ht hd => ?_⟩
  · rw [← hft']; exact hinv'.fault_tag t (by rw [read_err_state]; exact h)
  · rw [← hft']; exact hinv'.ueof_src (by rw [read_err_state]; exact h)
  · rw [← hft']; exact hinv'.eof_src (by rw [read_err_state]; exact h)
  · have hr : s.rdNil = false := by
      cases hr : s.rdNil with
      | false => rfl
      | true => have := hinv.done_closed (hinv.nil_done hr); rw [he] at this; cases this
    exact read_fault s n t he hr hb hf (hft.trans ht) hd

theorem C18_meta_reader_closed_proof (src : Src) (ops : List Meta.ROp) :
    let s := (MR.run (newMR src) ops).1
    (∀ r ∈ (MR.run (newMR src) ops).2, ¬ panicRes r) ∧
    (s.close.2 = none → s.close.1.done = true ∧ s.close.1.err = some .closed) ∧
    (s.done = true ↔ s.err = some .closed) ∧
    (s.done = true → ∀ ops', noReset ops' → MR.run s ops' = (s, ops'.map closedRes)) ∧
    (∀ src' ops', MR.run s (.reset src' :: ops') =
      ((MR.run (newMR src') ops').1, .reset :: (MR.run (newMR src') ops').2)) := by
  intro s
  have hinv : Inv s := inv_run ops _ (inv_new src)
  exact ⟨run_no_panic ops _ (inv_new src), fun h => close_nil_closed s hinv.done_closed h,
    ⟨hinv.done_closed, hinv.closed_done⟩, fun hd => closed_forever s hd (hinv.done_closed hd),
    fun src' ops' => run_reset s src' ops'⟩

end Compress.Proofs.MetaRApi
