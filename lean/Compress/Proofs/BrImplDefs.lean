/-
C02, refinement of the Go-shaped model of brotli.Reader (Brotli/Impl*.lean) to
the RFC 7932 specification (Brotli/Spec.lean): the shared vocabulary.

* `SimRel R x y`: a bit-reader action `x` of the model (monad `Impl.M`) and an
  action `y` of the specification (monad `Dec`) that does not touch the output
  agree from every state: both succeed, at the same bit position, with
  `R`-related values; or both fail (the specification leaves its output alone).
  The classes of the two failures are not compared: RFC 7932 does not fix which
  check fires first on an invalid stream, and brotli.Reader orders some checks
  differently from the specification (DESIGN.md §5 C02).  A model failure is
  never `io.EOF`.
* `TreeRel d c`: the table decoder `d` and the canonical code `c` read the same
  symbol from every state.
-/
import Compress.Brotli.Impl
import Compress.Brotli.Spec
import Compress.Proofs.FlateHuff

namespace Compress.Proofs.BrImpl
open Compress Compress.Brotli

/-- the bit reader of a specification state. -/
def brOf (st : St) : Impl.BR := { bits := st.bits, used := st.used }

/-- the specification state after `k` more bits. -/
def stAt (st : St) (k : Nat) : St := { st with bits := st.bits.drop k, used := st.used + k }

@[simp] theorem stAt_out (st : St) (k : Nat) : (stAt st k).out = st.out := rfl
@[simp] theorem stAt_bits (st : St) (k : Nat) : (stAt st k).bits = st.bits.drop k := rfl
@[simp] theorem stAt_used (st : St) (k : Nat) : (stAt st k).used = st.used + k := rfl
@[simp] theorem brOf_bits (st : St) : (brOf st).bits = st.bits := rfl
@[simp] theorem brOf_used (st : St) : (brOf st).used = st.used := rfl

theorem stAt_zero (st : St) : stAt st 0 = st := by
  cases st; simp [stAt]

theorem stAt_stAt (st : St) (a b : Nat) : stAt (stAt st a) b = stAt st (a + b) := by
  cases st; simp [stAt, List.drop_drop, Nat.add_assoc]

/-- what `SimRel` says at one state. -/
def SimAt {α β : Type} (R : α → β → Prop) (x : Impl.M α) (y : Dec β) (st : St) : Prop :=
  match x (brOf st), y st with
  | (.ok a, r), (.ok b, st') =>
    ∃ k, k ≤ st.bits.length ∧ r = brOf (stAt st k) ∧ st' = stAt st k ∧ R a b
  | (.error e, _), (.error _, st') => e ≠ .eof ∧ st'.out = st.out
  | _, _ => False

/-- model action and specification action agree from every state (see the file header). -/
def SimRel {α β : Type} (R : α → β → Prop) (x : Impl.M α) (y : Dec β) : Prop :=
  ∀ st : St, SimAt R x y st

/-- same value on both sides. -/
abbrev Sim {α : Type} (x : Impl.M α) (y : Dec α) : Prop := SimRel (· = ·) x y

/-- the table decoder and the canonical code decode alike. -/
def TreeRel (d : Prefix.Decoder) (c : PrefixCode) : Prop :=
  Sim (Impl.readSymbol d) (Brotli.readSymbol c)

/-! ### the two binds -/

theorem M_bind_apply {α β : Type} (x : Impl.M α) (f : α → Impl.M β) (r : Impl.BR) :
    (x >>= f) r = match x r with
      | (.ok a, r') => f a r'
      | (.error e, r') => (.error e, r') := rfl

theorem Dec_bind_apply {α β : Type} (x : Dec α) (f : α → Dec β) (s : St) :
    (x >>= f) s = match x s with
      | (.ok a, s') => f a s'
      | (.error e, s') => (.error e, s') := rfl

theorem M_pure_apply {α : Type} (a : α) (r : Impl.BR) : (pure a : Impl.M α) r = (.ok a, r) := rfl
theorem Dec_pure_apply {α : Type} (a : α) (s : St) : (pure a : Dec α) s = (.ok a, s) := rfl

theorem SimRel.pure {α β : Type} {R : α → β → Prop} {a : α} {b : β} (h : R a b) :
    SimRel R (pure a) (pure b) := by
  intro st
  simp only [SimAt, M_pure_apply, Dec_pure_apply]
  exact ⟨0, Nat.zero_le _, by rw [stAt_zero], by rw [stAt_zero], h⟩

theorem SimRel.mono {α β : Type} {R R' : α → β → Prop} {x : Impl.M α} {y : Dec β}
    (h : SimRel R x y) (hR : ∀ a b, R a b → R' a b) : SimRel R' x y := by
  intro st
  have := h st
  unfold SimAt at this ⊢
  rcases hx : x (brOf st) with ⟨_ | a, r⟩ <;> rcases hy : y st with ⟨_ | b, st'⟩ <;>
    rw [hx, hy] at this <;> simp only at this ⊢
  · exact this
  · obtain ⟨k, h1, h2, h3, h4⟩ := this
    exact ⟨k, h1, h2, h3, hR _ _ h4⟩

theorem SimRel.bind {α β α' β' : Type} {R : α → β → Prop} {R' : α' → β' → Prop}
    {x : Impl.M α} {y : Dec β} {f : α → Impl.M α'} {g : β → Dec β'}
    (h : SimRel R x y) (hf : ∀ a b, R a b → SimRel R' (f a) (g b)) :
    SimRel R' (x >>= f) (y >>= g) := by
  intro st
  have h0 := h st
  unfold SimAt at h0 ⊢
  rw [M_bind_apply, Dec_bind_apply]
  rcases hx : x (brOf st) with ⟨e | a, r⟩ <;> rcases hy : y st with ⟨e' | b, st'⟩ <;>
    rw [hx, hy] at h0 <;> simp only at h0 ⊢
  · exact h0
  · obtain ⟨k, hk, hr, hs, hR⟩ := h0
    subst hr hs
    have h1 := hf a b hR (stAt st k)
    unfold SimAt at h1
    rcases hx1 : f a (brOf (stAt st k)) with ⟨e1 | a1, r1⟩ <;>
      rcases hy1 : g b (stAt st k) with ⟨e1' | b1, st1⟩ <;>
      rw [hx1, hy1] at h1 <;> simp only at h1 ⊢
    · exact ⟨h1.1, by rw [h1.2]; rfl⟩
    · obtain ⟨k1, hk1, hr1, hs1, hR1⟩ := h1
      refine ⟨k + k1, ?_, ?_, ?_, hR1⟩
      · simp only [stAt_bits, List.length_drop] at hk1; omega
      · rw [hr1, stAt_stAt]
      · rw [hs1, stAt_stAt]

/-- both sides fail, whatever the state. -/
theorem SimRel.fail {α β : Type} {R : α → β → Prop} {x : Impl.M α} {y : Dec β}
    (hx : ∀ r, ∃ e r', x r = (.error e, r') ∧ e ≠ .eof)
    (hy : ∀ s, ∃ e s', y s = (.error e, s') ∧ s'.out = s.out) : SimRel R x y := by
  intro st
  obtain ⟨e, r', h1, h2⟩ := hx (brOf st)
  obtain ⟨e', s', h3, h4⟩ := hy st
  simp only [SimAt, h1, h3]
  exact ⟨h2, h4⟩

theorem SimRel.ite {α β : Type} {R : α → β → Prop} {c : Prop} [Decidable c]
    {x1 x2 : Impl.M α} {y1 y2 : Dec β} (h1 : c → SimRel R x1 y1) (h2 : ¬c → SimRel R x2 y2) :
    SimRel R (if c then x1 else x2) (if c then y1 else y2) := by
  by_cases hc : c
  · simp only [if_pos hc]; exact h1 hc
  · simp only [if_neg hc]; exact h2 hc


/-! ### interfaces between the layers

Each layer is proved against the *statement* of the layer below, passed as a
named hypothesis; `BrImplAll` plugs the proofs together. -/

open Compress.Prefix in
/-- the code lengths a list of (symbol, length) codes assigns to an alphabet of `n` symbols. -/
def lensArr (n : Nat) (codes : List Prefix.Code) : Array Nat :=
  codes.foldl (fun a c => a.setIfInBounds c.sym c.len) (Array.replicate n 0)

/-- Kraft sum scaled by 2^15. -/
def kraft15 (codes : List Prefix.Code) : Nat := (codes.map fun c => 2 ^ (15 - c.len)).sum

/-- every symbol the code yields lies in the alphabet. -/
def SymsBelow (n : Nat) (c : PrefixCode) : Prop :=
  ∀ (st st' : St) (s : Nat), Brotli.readSymbol c st = (.ok s, st') → s < n

/-- table decoder and canonical code over an alphabet of `n` symbols. -/
def CodeRel (n : Nat) (d : Prefix.Decoder) (c : PrefixCode) : Prop := TreeRel d c ∧ SymsBelow n c

open Compress.Prefix Compress.Proofs.PrefixCodes Compress.Proofs.FlateRefine in
/-- the canonical code words for the (symbol, length) list `cs`. -/
def canon (cs : List Prefix.Code) : List Prefix.Code := Prefix.assignVals cs (nextFn cs)

open Compress.Prefix Compress.Proofs.PrefixCodes Compress.Proofs.FlateRefine in
/-- **(d), specification side.** The counting decoder of the specification, on the canonical code
    with the lengths of `cs` (`CodesOK`: lengths 1..15, Kraft sum one), reads the code word that
    starts the input, or fails when none does. -/
def WalkSpec : Prop :=
  ∀ (cs : List Prefix.Code) (n : Nat), 2 ≤ cs.length → Prefix.symsIncreasing cs = true →
    (∀ c ∈ cs, c.sym < n) → CodesOK cs → ∀ st : St,
      (∃ c ∈ canon cs, ∃ rest, st.bits = c.word ++ rest ∧
        Brotli.readSymbol (PrefixCode.ofLengths (lensArr n cs)) st = (.ok c.sym, stAt st c.len)) ∨
      ((∀ c ∈ canon cs, ¬ c.word <+: st.bits) ∧
        ∃ e st', Brotli.readSymbol (PrefixCode.ofLengths (lensArr n cs)) st = (.error e, st') ∧ st'.out = st.out)

open Compress.Prefix Compress.Proofs.PrefixCodes Compress.Proofs.FlateRefine in
/-- **(d), model side.** `prefixDecoder.Init(codes, true)` succeeds on such a list and its two-level
    table, looked up by `ReadSymbol`, finds the same code word. -/
def TableSpec : Prop :=
  ∀ (cs : List Prefix.Code), 2 ≤ cs.length → Prefix.symsIncreasing cs = true → CodesOK cs →
    (∀ c ∈ cs, c.sym < 2 ^ 27) →
    ∃ d, Impl.initDecoder cs true = .ok d ∧ ∀ r : Impl.BR,
      (∀ c ∈ canon cs, ∀ rest, r.bits = c.word ++ rest →
        Impl.readSymbol d r = (.ok c.sym, { bits := rest, used := r.used + c.len })) ∧
      ((∀ c ∈ canon cs, ¬ c.word <+: r.bits) → Impl.readSymbol d r = (.error .unexpectedEOF, r))

/-- **(d), tables.** `prefixDecoder.Init` with `assignCodes` on at least two codes with increasing
    symbols, lengths 1..15 and Kraft sum one builds a table that decodes the canonical code.
    (`n ≤ 2^27`: Init refuses symbols that do not fit the 27 symbol bits of a table entry.) -/
def InitTreeRel : Prop :=
  ∀ (codes : List Prefix.Code) (n : Nat), n ≤ 2 ^ 27 → 2 ≤ codes.length → Prefix.symsIncreasing codes = true →
    (∀ c ∈ codes, c.sym < n ∧ 1 ≤ c.len ∧ c.len ≤ 15) → kraft15 codes = 2 ^ 15 →
    ∃ d, Impl.initDecoder codes true = .ok d ∧ CodeRel n d (PrefixCode.ofLengths (lensArr n codes))

/-- **(d), tables, refusal.** Otherwise (symbols not increasing, or Kraft sum not one) `Init` panics. -/
def InitFails : Prop :=
  ∀ (codes : List Prefix.Code), 2 ≤ codes.length → (∀ c ∈ codes, 1 ≤ c.len ∧ c.len ≤ 15) →
    (Prefix.symsIncreasing codes = false ∨ kraft15 codes ≠ 2 ^ 15) →
    ∃ e, Impl.initDecoder codes true = .error e ∧ e ≠ .eof

/-- **(d), code definitions.** `ReadPrefixCode` = section 3.4/3.5, for every alphabet brotli uses. -/
def PrefixSim : Prop :=
  ∀ n, 2 ≤ n → n ≤ 704 → SimRel (CodeRel n) (Impl.readPrefixCode n) (Brotli.readPrefixCode n)

/-- the code NBLTYPESx / NTREESx of section 9.2 through `decCounts`. -/
def CountsSim : Prop := Sim (Impl.readSymbol Impl.decCounts) Brotli.readCount256

/-- RLEMAX of section 7.3 through `decMaxRLE`. -/
def MaxRLESim : Prop :=
  Sim (Impl.readSymbol Impl.decMaxRLE)
    (do if (← Brotli.readBit) then (· + 1) <$> Brotli.readBits 4 else pure 0)

/-- the invariant of `internal.MoveToFront` between calls of `Decode`: beyond `256 - tail` the
    dictionary is the identity. -/
def MtfOK (m : Impl.Mtf) : Prop :=
  m.dict.length = 256 ∧ m.tail ≤ 256 ∧ ∀ i, 256 - m.tail ≤ i → i < 256 → m.dict.getD i 0 = i

/-- a block decoder of the model and the block state of the specification (with a single block type
    both count the only block down from 2^24). -/
def BlkRel (bd : Impl.BlockDec) (b : Blocks) : Prop :=
  bd.numTypes = b.ntypes ∧ 1 ≤ b.ntypes ∧ b.ntypes ≤ 256 ∧
  bd.type0 = b.cur ∧ bd.type1 = b.prev ∧ b.cur < b.ntypes ∧ (2 ≤ b.ntypes → b.prev < b.ntypes) ∧
  (2 ≤ b.ntypes → CodeRel (b.ntypes + 2) bd.decType b.typeCode ∧ CodeRel 26 bd.decLen b.countCode) ∧
  bd.typeLen = (b.count : Int)

end Compress.Proofs.BrImpl
