/-
Helper theory for `BzImplRead.lean`: a schedule of Reads against `beh`.
-/
import Compress.Proofs.BzImplReadOne

namespace Compress.Proofs.BzImpl.RdAux
open Compress Compress.Bzip2 Compress.Prefix
open Compress.Bzip2.Impl (Err M State ReadRes)

theorem runFrom_cons (s : State) (n : Nat) (rest : List Nat) (acc : List ReadRes) :
    Impl.runFrom s (n :: rest) acc =
      match (Impl.read (Impl.readFuel s) n s).2.2 with
      | some _ =>
        (({ out := (Impl.read (Impl.readFuel s) n s).2.1, err := (Impl.read (Impl.readFuel s) n s).2.2, inOff := (Impl.read (Impl.readFuel s) n s).1.inOff, outOff := (Impl.read (Impl.readFuel s) n s).1.outOff : ReadRes } :: acc).reverse,
          (Impl.read (Impl.readFuel s) n s).1)
      | none =>
        Impl.runFrom (Impl.read (Impl.readFuel s) n s).1 rest
          ({ out := (Impl.read (Impl.readFuel s) n s).2.1, err := (Impl.read (Impl.readFuel s) n s).2.2, inOff := (Impl.read (Impl.readFuel s) n s).1.inOff, outOff := (Impl.read (Impl.readFuel s) n s).1.outOff : ReadRes } :: acc) := by
  rw [Impl.runFrom]
  generalize Impl.read (Impl.readFuel s) n s = r
  obtain ⟨s', out, e⟩ := r
  cases e <;> rfl

theorem runFrom_acc : ∀ (sched : List Nat) (s : State) (acc : List ReadRes),
    Impl.runFrom s sched acc = (acc.reverse ++ (Impl.runFrom s sched []).1, (Impl.runFrom s sched []).2) := by
  intro sched
  induction sched with
  | nil => intro s acc; simp [Impl.runFrom]
  | cons n rest ih =>
    intro s acc
    rw [runFrom_cons, runFrom_cons]
    generalize Impl.read (Impl.readFuel s) n s = r
    obtain ⟨s', out, e⟩ := r
    cases e with
    | some e => simp
    | none =>
      simp only []
      rw [ih s' (_ :: acc), ih s' [_]]
      simp

theorem lastErr_cons (x : ReadRes) (rs : List ReadRes) (hx : x.err = none) :
    (x :: rs).getLast?.bind (·.err) = rs.getLast?.bind (·.err) := by
  cases rs with
  | nil => simp [hx]
  | cons y ys => simp [List.getLast?_cons_cons]

theorem runFrom_spec : ∀ (sched : List Nat) (s : State), ReadOK s →
    ((Impl.runFrom s sched []).1.flatMap (·.out)) <+: (beh s).1 ∧
    (∀ e, (Impl.runFrom s sched []).1.getLast?.bind (·.err) = some e →
      ((Impl.runFrom s sched []).1.flatMap (·.out)) = (beh s).1 ∧ e = (beh s).2 ∧
      ∀ m, Impl.read (Impl.readFuel (Impl.runFrom s sched []).2) m (Impl.runFrom s sched []).2
        = ((Impl.runFrom s sched []).2, [], some e)) ∧
    ((Impl.runFrom s sched []).1.getLast?.bind (·.err) = none →
      (sched.filter (0 < ·)).length ≤ ((Impl.runFrom s sched []).1.flatMap (·.out)).length) := by
  intro sched
  induction sched with
  | nil =>
    intro s _
    simp [Impl.runFrom]
  | cons n rest ih =>
    intro s hok
    have hr := read_spec_inv (Impl.readFuel s) s n hok (Nat.le_refl _)
    rw [runFrom_cons]
    generalize Impl.read (Impl.readFuel s) n s = r at hr ⊢
    obtain ⟨s', out, e⟩ := r
    simp only [] at hr ⊢
    obtain ⟨r1, r2, r3, r4, r5, r6⟩ := hr
    cases e with
    | some e0 =>
      obtain ⟨q1, q2, q3⟩ := r5 e0 rfl
      subst q1
      rw [q2] at r3 r4
      simp only [List.nil_append] at r3
      simp only [List.reverse_cons, List.reverse_nil, List.nil_append, List.flatMap_cons, List.flatMap_nil,
        List.append_nil, List.getLast?_singleton, Option.bind_some]
      refine ⟨List.nil_prefix, ?_, ?_⟩
      · intro e he
        cases he
        exact ⟨r3.symm, r4.symm, fun m => q3 m _ (Nat.le_refl _)⟩
      · intro h; cases h
    | none =>
      simp only []
      rw [runFrom_acc]
      obtain ⟨i1, i2, i3⟩ := ih s' r1
      simp only [List.reverse_cons, List.reverse_nil, List.nil_append, List.singleton_append, List.flatMap_cons]
      rw [lastErr_cons _ _ rfl]
      refine ⟨?_, ?_, ?_⟩
      · rw [r3]; exact (List.prefix_append_right_inj out).2 i1
      · intro e he
        obtain ⟨j1, j2, j3⟩ := i2 e he
        exact ⟨by rw [r3, j1], by rw [r4]; exact j2, j3⟩
      · intro he
        have := i3 he
        have hlen : (0 < n) → 1 ≤ out.length := by
          intro hn
          have := r6 rfl hn
          cases out with
          | nil => exact absurd rfl this
          | cons a l => simp
        rw [List.filter_cons, List.length_append]
        split
        · rename_i hn
          have := hlen (by simpa using hn)
          simp only [List.length_cons]
          omega
        · omega

theorem readOK_init (bits : Bits) : ReadOK (Impl.init bits) :=
  ⟨by show (0 : Nat) < 2 ^ 32; decide, by intro e h; cases h⟩

end Compress.Proofs.BzImpl.RdAux
