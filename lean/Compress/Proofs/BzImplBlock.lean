/-
Stage lemmas (c)/(e): given that tables agree, the trees, the symbols of a block and the whole
block body (`decodeBlock` after the magic) of the model simulate the specification's `readBlock`.
-/
import Compress.Proofs.BzImplBits
import Compress.Proofs.BzImplSels
import Compress.Proofs.BzImplTabC

namespace Compress.Proofs.BzImpl
open Compress Compress.Bzip2 Compress.Prefix
open Compress.Bzip2.Impl (Err M State)

theorem simx_some {α : Type} {x : M α} {a : α} (h : SimX x (optE (some a))) : x = .ok a := by
  cases x with
  | ok b => simpa [SimX, optE] using h
  | error e => simp [SimX, optE] at h

theorem simx_none {α : Type} {x : M α} (h : SimX x (optE (none : Option α))) :
    ∃ r, x = .error (.unexpectedEOF, r) := by
  cases x with
  | ok b => simp [SimX, optE] at h
  | error e =>
    obtain ⟨e, r⟩ := e
    simp [SimX, optE] at h
    cases h; exact ⟨r, rfl⟩

theorem simx_ok {α : Type} {x : M α} {a : α} (h : SimX x (.ok a)) : x = .ok a := by
  cases x with
  | ok b => simpa [SimX] using h
  | error e => simp [SimX] at h

theorem simx_error {α : Type} {x : M α} {v : Verdict} (h : SimX x (.error v)) :
    ∃ e r, x = .error (e, r) ∧ ErrEq e v := by
  cases x with
  | ok b => simp [SimX] at h
  | error e =>
    obtain ⟨e, r⟩ := e
    exact ⟨e, r, rfl, by simpa [SimX] using h⟩

theorem tabsRel_snoc {ds : List Decoder} {ts : List CTab} {n : Nat} {d : Decoder} {t : CTab}
    (h : TabsRel ds ts n) (hd : TabRel d t n) : TabsRel (ds ++ [d]) (ts ++ [t]) n := by
  obtain ⟨hl, hi⟩ := h
  refine ⟨by simp [hl], fun i => ?_⟩
  have := hi i
  by_cases h1 : i < ds.length
  · have h2 : i < ts.length := hl ▸ h1
    simpa [List.getD_eq_getElem?_getD, List.getElem?_append_left, h1, h2] using this
  · by_cases h2 : i = ds.length
    · subst h2
      simpa [List.getD_eq_getElem?_getD, hl] using hd
    · have h3 : ds.length < i := by omega
      have h4 : ts.length < i := hl ▸ h3
      have e1 : (ds ++ [d]).getD i {} = ds.getD i {} := by
        simp [List.getD_eq_getElem?_getD]
        rw [List.getElem?_eq_none (by simp; omega), List.getElem?_eq_none (by omega)]
      have e2 : (ts ++ [t]).getD i default = ts.getD i default := by
        simp [List.getD_eq_getElem?_getD]
        rw [List.getElem?_eq_none (by simp; omega), List.getElem?_eq_none (by omega)]
      rw [e1, e2]; exact this

theorem readTrees_sim (hT : TablesAgree) (numSyms : Nat) (h3 : 3 ≤ numSyms) (h258 : numSyms ≤ 258)
    (k : Nat) (accD : List Decoder) (accT : List CTab)
    (hacc : TabsRel accD.reverse accT.reverse numSyms) (bits : Bits) :
    match Impl.readTrees k numSyms accD bits, Bzip2.readTables k numSyms accT bits with
    | .ok (ds, r), .ok (ts, r') => r = r' ∧ TabsRel ds ts numSyms
    | .error (e, _), .error v => ErrRel e v
    | _, _ => False := by
  induction k generalizing accD accT bits with
  | zero => simp [Impl.readTrees, Bzip2.readTables]; exact hacc
  | succ k ih =>
    unfold Impl.readTrees Bzip2.readTables Impl.readTree
    have hb := readBitsBE64_simx 5 (by omega) bits
    cases hr : readBE 5 bits with
    | none =>
      rw [hr] at hb
      obtain ⟨r, hx⟩ := simx_none hb
      simp [hx]; exact .ueof
    | some p =>
      obtain ⟨clen, b1⟩ := p
      rw [hr] at hb
      have hx := simx_some hb
      simp only [hx]
      have hl := readLens_simx (numSyms * 64 + 64) numSyms clen [] b1
      cases hy : Bzip2.readLens (numSyms * 64 + 64) numSyms clen [] b1 with
      | error v =>
        rw [hy] at hl
        obtain ⟨e, r, hx2, he⟩ := simx_error hl
        simp [hx2]; exact he.rel
      | ok q =>
        obtain ⟨lens, b2⟩ := q
        rw [hy] at hl
        have hx2 := simx_ok hl
        simp only [hx2]
        have hok := readLens_ok _ _ _ _ _ _ _ hx2 (by simp)
        have hL : LensOK lens numSyms := ⟨by simpa using hok.1, h3, h258, hok.2.1⟩
        obtain ⟨d, hd, hrel⟩ := hT lens numSyms hL trivial
        simp only [hd]
        apply ih
        simp only [List.reverse_cons]
        exact tabsRel_snoc hacc hrel

/- FALSE AS STATED (numSyms = 0): the model tests `s = numSyms - 1` (truncated subtraction) before
   `s ≥ numSyms`, so with `numSyms = 0` a decoded symbol 0 is taken for the end-of-block symbol, while
   the specification's `CTab.decode 0` never yields a symbol.  Counterexample: `numSyms = 0`,
   `trees = #[{ chunks := #[0] }]` (its `readSymbol` returns `(0, bits)` on every input), `tabs = #[]`
   (`default` decodes everything to `.bad`), `sels = #[]`, `fuel = 1`, `blkLen = 1`, `selIdx = 0`:
   `hrel` holds (both sides of `TabRel` are "corrupted"/"corrupt" for every `i`), the model returns
   `.ok ([], bits)`, the specification `.error .corrupt`.  See `readSyms_sim_counterexample` below.
   Corrected statement: `readSyms_sim'` with the extra hypothesis `1 ≤ numSyms`.

theorem readSyms_sim (trees : Array Decoder) (tabs : Array CTab) (numSyms : Nat)
    (hrel : ∀ i, TabRel (trees.getD i {}) (tabs.getD i default) numSyms)
    (sels : Array Nat) (limit fuel blkLen selIdx cnt : Nat) (acc : List Nat) (bits : Bits) :
    Sim (Impl.readSyms trees sels numSyms limit fuel blkLen selIdx cnt acc bits)
        (Bzip2.readSyms tabs sels numSyms limit fuel blkLen selIdx cnt acc bits)
-/

theorem readSyms_sim' (trees : Array Decoder) (tabs : Array CTab) (numSyms : Nat) (h1 : 1 ≤ numSyms)
    (hrel : ∀ i, TabRel (trees.getD i {}) (tabs.getD i default) numSyms)
    (sels : Array Nat) (limit fuel blkLen selIdx cnt : Nat) (acc : List Nat) (bits : Bits) :
    Sim (Impl.readSyms trees sels numSyms limit fuel blkLen selIdx cnt acc bits)
        (Bzip2.readSyms tabs sels numSyms limit fuel blkLen selIdx cnt acc bits) := by
  induction fuel generalizing blkLen selIdx cnt acc bits with
  | zero => simp [Impl.readSyms, Bzip2.readSyms, Sim]; exact .corrupt
  | succ fuel ih =>
    have step : ∀ bl si : Nat,
        Sim (match Impl.readSymbol (trees.getD (sels.getD (si - 1) 0) {}) bits with
            | .error e => .error e
            | .ok (s, rest) =>
              if s = numSyms - 1 then .ok (acc.reverse, rest)
              else if s ≥ numSyms then .error (.corrupted, rest)
              else if cnt ≥ limit then .error (.corrupted, rest)
              else Impl.readSyms trees sels numSyms limit fuel (bl - 1) si (cnt + 1) (s :: acc) rest)
          (match (tabs.getD (sels.getD (si - 1) 0) default).decode numSyms bits with
            | .eof => .error .unexpectedEOF
            | .bad => .error .corrupt
            | .sym s rest =>
              if s = numSyms - 1 then .ok (acc.reverse, rest)
              else if cnt ≥ limit then .error .corrupt
              else Bzip2.readSyms tabs sels numSyms limit fuel (bl - 1) si (cnt + 1) (s :: acc) rest) := by
      intro bl si
      have h := hrel (sels.getD (si - 1) 0) bits
      unfold goSym specSym at h
      cases hx : Impl.readSymbol (trees.getD (sels.getD (si - 1) 0) {}) bits with
      | error e =>
        obtain ⟨e, r⟩ := e
        rw [hx] at h
        cases hy : (tabs.getD (sels.getD (si - 1) 0) default).decode numSyms bits with
        | eof => rw [hy] at h; simpa [Sim] using h
        | bad => rw [hy] at h; simpa [Sim] using h
        | sym s rest => rw [hy] at h; simp [Sim] at h
      | ok p =>
        obtain ⟨s, rest⟩ := p
        rw [hx] at h
        cases hy : (tabs.getD (sels.getD (si - 1) 0) default).decode numSyms bits with
        | eof =>
          rw [hy] at h
          by_cases hs : s ≥ numSyms
          · have : ¬ s = numSyms - 1 := by omega
            simp [hs, this, Sim] at h ⊢; exact h
          · simp [hs, Sim] at h
        | bad =>
          rw [hy] at h
          by_cases hs : s ≥ numSyms
          · have : ¬ s = numSyms - 1 := by omega
            simp [hs, this, Sim] at h ⊢; exact h
          · simp [hs, Sim] at h
        | sym s' rest' =>
          rw [hy] at h
          by_cases hs : s ≥ numSyms
          · simp [hs, Sim] at h
          · simp [hs, Sim] at h
            obtain ⟨rfl, rfl⟩ := h
            simp only []
            by_cases h2 : s = numSyms - 1
            · simp [h2, Sim]
            · by_cases h3 : cnt ≥ limit
              · simp [h2, hs, h3, Sim]; exact .corrupt
              · simp only [h2, hs, h3, if_false]
                exact ih _ _ _ _ _
    unfold Impl.readSyms Bzip2.readSyms
    by_cases hb : blkLen = 0
    · by_cases hsel : selIdx ≥ sels.size
      · simp [hb, hsel, Sim]; exact .corrupt
      · simp only [hb, hsel, if_true, if_false]
        exact step _ _
    · simp only [hb, if_false]
      exact step _ _

/-- **the block body.** -/
theorem block_sim (hT : TablesAgree) (level : Nat) (bits : Bits) :
    Sim (Impl.blockBody level bits) (Bzip2.readBlock level bits) := by
  unfold Impl.blockBody Bzip2.readBlock
  simp only [bind, Except.bind, pure, Except.pure, throw, throwThe, MonadExceptOf.throw]
  -- crc
  have hb := readBitsBE64_simx 32 (by omega) bits
  rcases hr : readBE 32 bits with _ | ⟨crc, b2⟩
  · rw [hr] at hb; obtain ⟨r, hx⟩ := simx_none hb; simp [hx, Sim]; exact .ueof
  rw [hr] at hb; have hx := simx_some hb; simp only [hx, Option.elim_some]
  clear hb hr hx
  -- rnd
  have hb := readBitsBE64_simx 1 (by omega) b2
  rcases hr : readBE 1 b2 with _ | ⟨rnd, b3⟩
  · rw [hr] at hb; obtain ⟨r, hx⟩ := simx_none hb; simp [hx, Sim]; exact .ueof
  rw [hr] at hb; have hx := simx_some hb; simp only [hx, Option.elim_some]
  clear hb hr hx
  by_cases hrnd : rnd ≠ 0
  · simp [hrnd, Sim]; exact .deprecated
  simp only [hrnd, if_false]
  -- ptr
  have hb := readBitsBE64_simx 24 (by omega) b3
  rcases hr : readBE 24 b3 with _ | ⟨ptr, b4⟩
  · rw [hr] at hb; obtain ⟨r, hx⟩ := simx_none hb; simp [hx, Sim]; exact .ueof
  rw [hr] at hb; have hx := simx_some hb; simp only [hx, Option.elim_some]
  clear hb hr hx
  -- symbol map
  have hb := readSymMap_simx b4
  rcases hr : Bzip2.readSymMap b4 with _ | ⟨dict, b5⟩
  · rw [hr] at hb; obtain ⟨r, hx⟩ := simx_none hb; simp [hx, Sim]; exact .ueof
  rw [hr] at hb; have hx := simx_some hb; simp only [hx, Option.elim_some]
  have hdl := (readSymMap_length _ _ _ hx).1
  clear hb hr hx
  unfold Impl.decodePrefix
  simp only [bind, Except.bind, throw, throwThe, MonadExceptOf.throw]
  by_cases hns : dict.length + 2 < 3
  · simp [hns, Sim]; exact .corrupt
  simp only [hns, if_false]
  -- numTrees
  have hb := readBitsBE64_simx 3 (by omega) b5
  rcases hr : readBE 3 b5 with _ | ⟨numTrees, b6⟩
  · rw [hr] at hb; obtain ⟨r, hx⟩ := simx_none hb; simp [hx, Sim]; exact .ueof
  rw [hr] at hb; have hx := simx_some hb; simp only [hx, Option.elim_some]
  clear hb hr hx
  by_cases hnt : numTrees < 2 ∨ numTrees > 6
  · simp [hnt, Impl.maxNumTrees, Sim]; exact .corrupt
  simp only [hnt, Impl.maxNumTrees, if_false]
  -- numSels
  have hb := readBitsBE64_simx 15 (by omega) b6
  rcases hr : readBE 15 b6 with _ | ⟨numSels, b7⟩
  · rw [hr] at hb; obtain ⟨r, hx⟩ := simx_none hb; simp [hx, Sim]; exact .ueof
  rw [hr] at hb; have hx := simx_some hb; simp only [hx, Option.elim_some]
  clear hb hr hx
  -- selectors
  have hb := readSels_simx numTrees (by omega) numSels [] b7
  rcases hr : Bzip2.readSels numTrees numSels [] b7 with v | ⟨selsM, b8⟩
  · rw [hr] at hb; obtain ⟨e, r, hx, he⟩ := simx_error hb; simp [hx, Sim]; exact he.rel
  rw [hr] at hb; have hx := simx_ok hb; simp only [hx]
  have hlt := (readSels_lt _ _ _ _ _ _ hx (by simp)).1
  have hmtf : mtfSels selsM (List.range 256) [] = mtfSels selsM (List.range 6) [] :=
    mtfSels_256 selsM (fun i hi => by have := hlt i hi; omega)
  rw [hmtf]
  clear hb hr hx
  -- trees
  have hb := readTrees_sim hT (dict.length + 2) (by omega) (by omega) numTrees [] []
    ⟨rfl, fun i => by simpa using tabRel_default _⟩ b8
  rcases hr : Bzip2.readTables numTrees (dict.length + 2) [] b8 with v | ⟨tabs, b9⟩
  · rw [hr] at hb
    rcases hx : Impl.readTrees numTrees (dict.length + 2) [] b8 with ⟨e, r⟩ | ⟨ds, r⟩
    · rw [hx] at hb; simp [Sim]; exact hb
    · rw [hx] at hb; simp at hb
  rcases hx : Impl.readTrees numTrees (dict.length + 2) [] b8 with ⟨e, r⟩ | ⟨ds, r⟩
  · rw [hr, hx] at hb; simp at hb
  rw [hr, hx] at hb
  obtain ⟨rfl, hrel⟩ := hb
  simp only []
  clear hr hx
  -- symbols
  have hb := readSyms_sim' ds.toArray tabs.toArray (dict.length + 2) (by omega)
    (fun i => by simpa using hrel.2 i) (mtfSels selsM (List.range 6) []).toArray
    (level * blockSize) (r.length + 2) 0 0 0 [] r
  generalize Impl.readSyms ds.toArray (mtfSels selsM (List.range 6) []).toArray (dict.length + 2)
    (level * blockSize) (r.length + 2) 0 0 0 [] r = X at hb ⊢
  generalize Bzip2.readSyms tabs.toArray (mtfSels selsM (List.range 6) []).toArray (dict.length + 2)
    (level * blockSize) (r.length + 2) 0 0 0 [] r = Y at hb ⊢
  rcases X with ⟨e, r1⟩ | ⟨syms, r1⟩ <;> rcases Y with v | ⟨syms', r2⟩
  · simpa [Sim] using hb
  · simp [Sim] at hb
  · simp [Sim] at hb
  simp only [Sim, Prod.mk.injEq] at hb
  obtain ⟨rfl, rfl⟩ := hb
  simp only []
  rcases mtfDecode (level * blockSize) dict syms 0 0 #[] with _ | buf
  · simp [Sim]; exact .corrupt
  simp only []
  by_cases hp : ptr ≥ buf.size
  · simp [hp, Sim]; exact .corrupt
  · simp [hp, Sim]

theorem readSymbol_length (d : Decoder) (bits : Bits) (s : Nat) (rest : Bits) :
    Impl.readSymbol d bits = .ok (s, rest) → rest.length ≤ bits.length := by
  intro h
  unfold Impl.readSymbol at h
  split at h
  · simp at h
  cases hr : d.readSymbol bits with
  | none => simp [hr] at h
  | some r =>
    simp only [hr, Except.ok.injEq] at h
    subst h
    unfold Decoder.readSymbol at hr
    split at hr
    · simp at hr
    split at hr
    · simp at hr
    generalize d.lookup (Bits.toNat (bits.take 32)) = p at hr
    obtain ⟨sym, len⟩ := p
    simp only at hr
    split at hr
    · simp only [Option.some.injEq, Prod.mk.injEq] at hr
      rw [← hr.2]; simp
    · simp at hr

theorem readTrees_length (k numSyms : Nat) (acc : List Decoder) (bits : Bits) (ds : List Decoder)
    (rest : Bits) :
    Impl.readTrees k numSyms acc bits = .ok (ds, rest) → rest.length ≤ bits.length := by
  induction k generalizing acc bits with
  | zero => simp [Impl.readTrees]; intro _ h; simp [h]
  | succ k ih =>
    unfold Impl.readTrees Impl.readTree
    intro h
    rcases h1 : Impl.readBitsBE64 5 bits with e | ⟨clen, b1⟩
    · simp [h1] at h
    simp only [h1] at h
    rcases h2 : Impl.readLens (numSyms * 64 + 64) numSyms clen [] b1 with e | ⟨lens, b2⟩
    · simp [h2] at h
    simp only [h2] at h
    rcases h3 : Impl.treeOfLens lens with _ | d
    · simp [h3] at h
    simp only [h3] at h
    have := ih _ _ h
    have := readBitsBE64_length _ _ _ _ h1
    have := (readLens_ok _ _ _ _ _ _ _ h2 (by simp)).2.2
    omega

theorem readSyms_length (trees : Array Decoder) (sels : Array Nat) (numSyms limit fuel blkLen selIdx cnt : Nat)
    (acc : List Nat) (bits : Bits) (syms : List Nat) (rest : Bits) :
    Impl.readSyms trees sels numSyms limit fuel blkLen selIdx cnt acc bits = .ok (syms, rest) →
    rest.length ≤ bits.length := by
  induction fuel generalizing blkLen selIdx cnt acc bits with
  | zero => simp [Impl.readSyms]
  | succ fuel ih =>
    have step : ∀ bl si : Nat,
        ((match Impl.readSymbol (trees.getD (sels.getD (si - 1) 0) {}) bits with
            | .error e => .error e
            | .ok (s, rest) =>
              if s = numSyms - 1 then .ok (acc.reverse, rest)
              else if s ≥ numSyms then .error (.corrupted, rest)
              else if cnt ≥ limit then .error (.corrupted, rest)
              else Impl.readSyms trees sels numSyms limit fuel (bl - 1) si (cnt + 1) (s :: acc) rest) : M (List Nat × Bits))
          = .ok (syms, rest) → rest.length ≤ bits.length := by
      intro bl si h
      rcases hx : Impl.readSymbol (trees.getD (sels.getD (si - 1) 0) {}) bits with e | ⟨s, r⟩
      · rw [hx] at h; simp at h
      rw [hx] at h; simp only at h
      have hl := readSymbol_length _ _ _ _ hx
      split at h
      · simp only [Except.ok.injEq, Prod.mk.injEq] at h; rw [← h.2]; exact hl
      · split at h
        · simp at h
        · split at h
          · simp at h
          · have := ih _ _ _ _ _ h; omega
    unfold Impl.readSyms
    by_cases hb : blkLen = 0
    · by_cases hsel : selIdx ≥ sels.size
      · simp [hb, hsel]
      · simp only [hb, hsel, if_true, if_false]
        exact step _ _
    · simp only [hb, if_false]
      exact step _ _

theorem decodePrefix_length (level dictLen : Nat) (bits : Bits) (syms : List Nat) (rest : Bits) :
    Impl.decodePrefix level dictLen bits = .ok (syms, rest) → rest.length ≤ bits.length := by
  unfold Impl.decodePrefix
  simp only [bind, Except.bind, throw, throwThe, MonadExceptOf.throw]
  intro h
  split at h
  · simp at h
  rcases h1 : Impl.readBitsBE64 3 bits with e | ⟨numTrees, b1⟩
  · simp [h1] at h
  simp only [h1] at h
  split at h
  · simp at h
  rcases h2 : Impl.readBitsBE64 15 b1 with e | ⟨numSels, b2⟩
  · simp [h2] at h
  simp only [h2] at h
  rcases h3 : Impl.readSels numTrees numSels [] b2 with e | ⟨selsM, b3⟩
  · simp [h3] at h
  simp only [h3] at h
  rcases h4 : Impl.readTrees numTrees (dictLen + 2) [] b3 with e | ⟨trees, b4⟩
  · simp [h4] at h
  simp only [h4] at h
  have := readBitsBE64_length _ _ _ _ h1
  have := readBitsBE64_length _ _ _ _ h2
  have := (readSels_lt _ _ _ _ _ _ h3 (by simp)).2
  have := readTrees_length _ _ _ _ _ _ h4
  have := readSyms_length _ _ _ _ _ _ _ _ _ _ _ _ h
  omega

/-- a decoded block leaves no more input than it was given (independent of `TablesAgree`). -/
theorem blockBody_length (level : Nat) (bits : Bits) (buf : Array UInt8) (crc : Nat) (rest : Bits) :
    Impl.blockBody level bits = .ok (buf, crc, rest) → rest.length ≤ bits.length := by
  unfold Impl.blockBody
  simp only [bind, Except.bind, throw, throwThe, MonadExceptOf.throw, pure, Except.pure]
  intro h
  rcases h1 : Impl.readBitsBE64 32 bits with e | ⟨c, b2⟩
  · simp [h1] at h
  simp only [h1] at h
  rcases h2 : Impl.readBitsBE64 1 b2 with e | ⟨rnd, b3⟩
  · simp [h2] at h
  simp only [h2] at h
  split at h
  · simp at h
  rcases h3 : Impl.readBitsBE64 24 b3 with e | ⟨ptr, b4⟩
  · simp [h3] at h
  simp only [h3] at h
  rcases h4 : Impl.readSymMap b4 with e | ⟨dict, b5⟩
  · simp [h4] at h
  simp only [h4] at h
  rcases h5 : Impl.decodePrefix level dict.length b5 with e | ⟨syms, b6⟩
  · simp [h5] at h
  simp only [h5] at h
  have := readBitsBE64_length _ _ _ _ h1
  have := readBitsBE64_length _ _ _ _ h2
  have := readBitsBE64_length _ _ _ _ h3
  have := (readSymMap_length _ _ _ h4).2
  have := decodePrefix_length _ _ _ _ _ h5
  split at h
  · simp at h
  · split at h
    · simp at h
    · simp only [Except.ok.injEq, Prod.mk.injEq] at h
      rw [← h.2.2]; omega


/-! ### the counterexample to `readSyms_sim` as originally stated (`numSyms = 0`) -/

theorem specSym_default_zero (bits : Bits) : specSym default 0 bits = .error .corrupt := by
  have h : (default : CTab).decode 0 bits = .bad := by
    show CTab.decode ⟨0, 0, #[], #[], #[]⟩ 0 bits = .bad
    simp [CTab.decode, readBE, CTab.decode.go, Bits.toNatMSB, maxPrefixBits]
  simp [specSym, h]

theorem readSyms_sim_counterexample :
    ¬ ∀ (trees : Array Decoder) (tabs : Array CTab) (numSyms : Nat)
      (_ : ∀ i, TabRel (trees.getD i {}) (tabs.getD i default) numSyms)
      (sels : Array Nat) (limit fuel blkLen selIdx cnt : Nat) (acc : List Nat) (bits : Bits),
      Sim (Impl.readSyms trees sels numSyms limit fuel blkLen selIdx cnt acc bits)
          (Bzip2.readSyms tabs sels numSyms limit fuel blkLen selIdx cnt acc bits) := by
  intro H
  have hd : ∀ bits, Impl.readSymbol { chunks := #[0] } bits = .ok (0, bits) := by
    intro bits
    have hl : ∀ v, Decoder.lookup { chunks := #[0] } v = (0, 0) := by
      intro v
      have : v % (0 + 1) = 0 := by omega
      simp [Decoder.lookup, this]
    simp [Impl.readSymbol, Decoder.readSymbol, hl]
  have hrel : ∀ i, TabRel ((#[{ chunks := #[0] }] : Array Decoder).getD i {})
      ((#[] : Array CTab).getD i default) 0 := by
    intro i bits
    have e2 : (#[] : Array CTab).getD i default = default := by simp
    rw [e2, specSym_default_zero]
    cases i with
    | zero =>
      have e1 : (#[{ chunks := #[0] }] : Array Decoder).getD 0 {} = { chunks := #[0] } := by simp
      rw [e1]; simp [goSym, hd, Sim]; exact .corrupt
    | succ i =>
      have e1 : (#[{ chunks := #[0] }] : Array Decoder).getD (i + 1) {} = {} := by simp
      rw [e1]; simp [goSym, Impl.readSymbol, Sim]; exact .corrupt
  have := H _ _ 0 hrel #[] 0 1 1 0 0 [] []
  have e1 : (#[{ chunks := #[0] }] : Array Decoder).getD 0 {} = { chunks := #[0] } := by simp
  have h : (default : CTab).decode 0 [] = .bad := by
    have := specSym_default_zero []
    unfold specSym at this
    split at this <;> simp_all
  unfold Impl.readSyms Bzip2.readSyms at this
  simp [hd, h, Sim] at this

end Compress.Proofs.BzImpl
