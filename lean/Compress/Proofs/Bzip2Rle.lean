/-
bzip2 RLE1: encoder/decoder round trip and the resumable reader.
-/
import Compress.Bzip2.Stages

namespace Compress.Proofs.Bzip2Rle
open Compress Compress.Bzip2

/-! ### the list decoder as a fold -/

abbrev DSt := Option UInt8 × Nat × List UInt8

def dstep (s : DSt) (b : UInt8) : DSt :=
  if s.2.1 = 4 then (s.1, 0, List.replicate b.toNat (s.1.getD 0) ++ s.2.2)
  else if s.1 = some b ∧ s.2.1 > 0 then (s.1, s.2.1 + 1, b :: s.2.2)
  else (some b, 1, b :: s.2.2)

def dfin (s : DSt) : Option (List UInt8) := if s.2.1 = 4 then none else some s.2.2.reverse

def dinit : DSt := (none, 0, [])

theorem rle1Decode_eq : ∀ (l : List UInt8) (fuel : Nat) (last : Option UInt8) (run : Nat) (acc : List UInt8),
    l.length < fuel → rle1Decode fuel l last run acc = dfin (l.foldl dstep (last, run, acc))
  | [], 0, _, _, _, h => by simp at h
  | [], fuel+1, last, run, acc, _ => by
    by_cases h : run = 4 <;> simp [rle1Decode, dfin, h]
  | b :: bs, 0, _, _, _, h => by simp at h
  | b :: bs, fuel+1, last, run, acc, h => by
    have h' : bs.length < fuel := by simpa using h
    rw [rle1Decode, List.foldl_cons]
    unfold dstep
    simp only []
    split
    · exact rle1Decode_eq bs fuel _ _ _ h'
    · split
      · exact rle1Decode_eq bs fuel _ _ _ h'
      · exact rle1Decode_eq bs fuel _ _ _ h'

def dec (l : List UInt8) : Option (List UInt8) := dfin (l.foldl dstep dinit)

theorem rle1Decode_dec (l : List UInt8) : rle1Decode (l.length + 1) l none 0 [] = dec l :=
  rle1Decode_eq l _ _ _ _ (Nat.lt_succ_self _)

/-! ### encoder invariant -/

def Inv (r : RleW) (cons : List UInt8) : Prop :=
  (r.lastCnt ≤ 3 ∧ ∃ l, r.out.toList.foldl dstep dinit = (l, r.lastCnt, cons.reverse) ∧
      (r.lastCnt > 0 → l = some r.lastVal)) ∨
  (4 ≤ r.lastCnt ∧ r.lastCnt ≤ 255 ∧ ∃ (pre : Array UInt8) (c : UInt8) (acc : List UInt8), r.out = pre.push c ∧ c.toNat = r.lastCnt - 4 ∧
      pre.toList.foldl dstep dinit = (some r.lastVal, 4, acc) ∧
      cons.reverse = List.replicate (r.lastCnt - 4) r.lastVal ++ acc)

theorem inv_init (cap : Nat) : Inv { cap := cap } [] := by
  left
  exact ⟨by simp, none, by simp [dinit], by simp⟩

theorem inv_dec (r : RleW) (cons : List UInt8) (h : Inv r cons) : dec r.out.toList = some cons := by
  unfold dec
  rcases h with ⟨h1, l, h2, _⟩ | ⟨h1, h2, pre, c, acc, h3, h4, h5, h6⟩
  · rw [h2]
    simp [dfin]
    omega
  · rw [h3, Array.toList_push, List.foldl_append, h5]
    simp only [List.foldl_cons, List.foldl_nil, dstep, dfin]
    simp only [if_true, Option.getD_some, h4, ← h6]
    simp

/-- the state the decoder reaches after the encoder's output followed by a fresh byte. -/
theorem inv_push_fresh (r : RleW) (cons : List UInt8) (b : UInt8) (h : Inv r cons)
    (hne : r.lastVal ≠ b ∨ r.lastCnt = 0 ∨ r.lastCnt = 255) :
    (r.out.push b).toList.foldl dstep dinit = (some b, 1, (cons ++ [b]).reverse) := by
  rw [Array.toList_push, List.foldl_append]
  rcases h with ⟨h1, l, h2, h7⟩ | ⟨h1, h2, pre, c, acc, h3, h4, h5, h6⟩
  · rw [h2]
    simp only [List.foldl_cons, List.foldl_nil, dstep]
    rw [if_neg (by omega)]
    have : ¬ (l = some b ∧ r.lastCnt > 0) := by
      rintro ⟨e1, e2⟩
      have := h7 e2
      rw [this] at e1
      have : r.lastVal = b := Option.some.inj e1
      rcases hne with h' | h' | h'
      · exact h' this
      · omega
      · omega
    rw [if_neg this]
    simp
  · rw [h3, Array.toList_push, List.foldl_append, h5]
    simp only [List.foldl_cons, List.foldl_nil, dstep]
    simp [h4, ← h6]

def cntOf (r : RleW) (b : UInt8) : Nat := (if r.lastVal ≠ b then 0 else r.lastCnt) + 1

theorem put_small (r : RleW) (b : UInt8) (h : cntOf r b < 4) :
    r.put b = if r.out.size ≥ r.cap then none
      else some { r with out := r.out.push b, lastVal := b, lastCnt := cntOf r b } := by
  unfold cntOf at h
  unfold RleW.put cntOf
  simp only []
  rw [if_pos h]

theorem put_four (r : RleW) (b : UInt8) (h : cntOf r b = 4) :
    r.put b = if r.out.size + 1 ≥ r.cap then none
      else some { r with out := (r.out.push b).push 0, lastVal := b, lastCnt := 4 } := by
  unfold cntOf at h
  unfold RleW.put
  simp only []
  rw [if_neg (by omega), if_pos h, h]

theorem put_incr (r : RleW) (b : UInt8) (h1 : 4 < cntOf r b) (h2 : cntOf r b < 256) :
    r.put b = some { r with out := r.out.setIfInBounds (r.out.size - 1) (r.out.getD (r.out.size - 1) 0 + 1),
                            lastVal := b, lastCnt := cntOf r b } := by
  unfold cntOf at h1 h2
  unfold RleW.put cntOf
  simp only []
  rw [if_neg (by omega), if_neg (by omega), if_pos h2]

theorem put_restart (r : RleW) (b : UInt8) (h : 256 ≤ cntOf r b) :
    r.put b = if r.out.size ≥ r.cap then none
      else some { r with out := r.out.push b, lastVal := b, lastCnt := 1 } := by
  unfold cntOf at h
  unfold RleW.put
  simp only []
  rw [if_neg (by omega), if_neg (by omega), if_neg (by omega)]

theorem put_spec (r : RleW) (cons : List UInt8) (b : UInt8) (h : Inv r cons) (hc : r.out.size ≤ r.cap) :
    match r.put b with
    | none => r.cap ≤ r.out.size + 1
    | some r' => Inv r' (cons ++ [b]) ∧ r'.out.size ≤ r'.cap ∧ r'.cap = r.cap := by
  by_cases hfresh : r.lastVal ≠ b ∨ r.lastCnt = 0 ∨ r.lastCnt = 255
  · -- a fresh run starts
    have hf := inv_push_fresh r cons b h hfresh
    have hput : r.put b = if r.out.size ≥ r.cap then none
        else some { r with out := r.out.push b, lastVal := b, lastCnt := 1 } := by
      rcases hfresh with h' | h' | h'
      · have : cntOf r b = 1 := by simp [cntOf, h']
        rw [put_small r b (by omega), this]
      · have : cntOf r b = 1 := by unfold cntOf; split <;> omega
        rw [put_small r b (by omega), this]
      · by_cases hb : r.lastVal ≠ b
        · have : cntOf r b = 1 := by simp [cntOf, hb]
          rw [put_small r b (by omega), this]
        · have : cntOf r b = 256 := by simp [cntOf, hb, h']
          rw [put_restart r b (by omega)]
    rw [hput]
    split
    · rename_i heq
      split at heq
      · omega
      · cases heq
    · rename_i r' heq
      split at heq
      · cases heq
      · cases heq
        refine ⟨Or.inl ⟨by simp, some b, hf, by simp⟩, ?_, by simp⟩
        simp; omega
  · -- the run continues
    have hb : r.lastVal = b := by
      apply Classical.byContradiction
      intro hh
      exact hfresh (Or.inl hh)
    subst hb
    have hcnt : cntOf r r.lastVal = r.lastCnt + 1 := by simp [cntOf]
    have h0 : r.lastCnt ≠ 0 := fun hh => hfresh (Or.inr (Or.inl hh))
    have h255 : r.lastCnt ≠ 255 := fun hh => hfresh (Or.inr (Or.inr hh))
    rcases h with ⟨h1, l, h2, h7⟩ | ⟨h1, h2, pre, c, acc, h3, h4, h5, h6⟩
    · have hl : l = some r.lastVal := by rw [h7 (by omega)]
      subst hl
      have hpush : (r.out.push r.lastVal).toList.foldl dstep dinit = (some r.lastVal, r.lastCnt + 1, (cons ++ [r.lastVal]).reverse) := by
        rw [Array.toList_push, List.foldl_append, h2]
        simp only [List.foldl_cons, List.foldl_nil, dstep]
        rw [if_neg (by omega), if_pos (by simp; omega)]
        simp
      by_cases h3 : r.lastCnt = 3
      · rw [put_four r _ (by omega)]
        split
        · rename_i heq
          split at heq
          · omega
          · cases heq
        · rename_i r' heq
          split at heq
          · cases heq
          · cases heq
            refine ⟨Or.inr ⟨by simp, by simp, r.out.push r.lastVal, 0, (cons ++ [r.lastVal]).reverse, rfl, by simp, ?_, by simp⟩, ?_, by simp⟩
            · rw [hpush, h3]
            · simp; omega
      · rw [put_small r _ (by omega)]
        split
        · rename_i heq
          split at heq
          · omega
          · cases heq
        · rename_i r' heq
          split at heq
          · cases heq
          · cases heq
            refine ⟨Or.inl ⟨by simp; omega, some r.lastVal, ?_, by simp⟩, ?_, by simp⟩
            · rw [hcnt]; exact hpush
            · simp; omega
    · rw [put_incr r _ (by omega) (by omega)]
      have hout : r.out.setIfInBounds (r.out.size - 1) (r.out.getD (r.out.size - 1) 0 + 1) = pre.push (c + 1) := by
        rw [h3]
        apply Array.ext'
        simp
      have hc1 : (c + 1).toNat = r.lastCnt + 1 - 4 := by
        rw [UInt8.toNat_add, h4]
        simp
        omega
      simp only []
      refine ⟨Or.inr ⟨by simp; omega, by simp; omega, pre, c + 1, acc, hout, ?_, ?_, ?_⟩, ?_, by simp⟩
      · simp only [hcnt]; exact hc1
      · exact h5
      · simp only [hcnt]
        have : r.lastCnt + 1 - 4 = (r.lastCnt - 4) + 1 := by omega
        rw [this, List.replicate_succ, List.reverse_append, List.cons_append, ← h6]
        simp
      · simp only [hout]
        rw [h3] at hc
        simpa using hc

theorem write_spec : ∀ (xs : List UInt8) (r : RleW) (n : Nat) (cons : List UInt8),
    Inv r cons → r.out.size ≤ r.cap →
    ∃ k, (RleW.write r xs n).2 = n + k ∧ k ≤ xs.length ∧ Inv (RleW.write r xs n).1 (cons ++ xs.take k) ∧
      (RleW.write r xs n).1.out.size ≤ r.cap ∧ (RleW.write r xs n).1.cap = r.cap ∧
      (k = xs.length ∨ r.cap ≤ (RleW.write r xs n).1.out.size + 1)
  | [], r, n, cons, h, hc => ⟨0, by simp [RleW.write], by simp, by simpa [RleW.write] using h,
      by simpa [RleW.write] using hc, by simp [RleW.write], Or.inl rfl⟩
  | b :: bs, r, n, cons, h, hc => by
    have hp := put_spec r cons b h hc
    rw [RleW.write]
    cases hput : r.put b with
    | none =>
      rw [hput] at hp
      exact ⟨0, by simp, by simp, by simpa using h, by simpa using hc, by simp, Or.inr (by simpa using hp)⟩
    | some r' =>
      rw [hput] at hp
      obtain ⟨h1, h2, h3⟩ := hp
      simp only []
      obtain ⟨k, k1, k2, k3, k4, k5, k6⟩ := write_spec bs r' (n + 1) (cons ++ [b]) h1 h2
      rw [h3] at k4 k5 k6
      refine ⟨k + 1, by omega, by simp; omega, ?_, k4, k5, ?_⟩
      · simpa using k3
      · rcases k6 with k6 | k6
        · left; simp; omega
        · right; exact k6

theorem rle1_roundtrip (cap : Nat) (xs : List UInt8) :
    let r := rle1Encode cap xs
    r.2 ≤ xs.length ∧ r.1.length ≤ cap ∧ (r.2 = xs.length ∨ cap ≤ r.1.length + 1) ∧
    rle1Decode (r.1.length + 1) r.1 none 0 [] = some (xs.take r.2) := by
  obtain ⟨k, k1, k2, k3, k4, k5, k6⟩ := write_spec xs { cap := cap } 0 [] (inv_init cap) (by simp)
  have hd := inv_dec _ _ k3
  simp only [rle1Encode]
  rw [rle1Decode_dec, k1]
  simp only [Nat.zero_add, List.nil_append] at *
  refine ⟨k2, by simpa using k4, ?_, hd⟩
  simpa using k6

/-! ### the resumable reader -/

/-- read the next literal byte. -/
def takeByte (r : RleR) : RleR :=
  let b := r.buf.getD r.idx 0
  let r := { r with idx := r.idx + 1 }
  if b ≠ r.lastVal then { r with lastCnt := 0, lastVal := b } else r

/-- the switch of `RleR.read`. -/
def rstep (r : RleR) : Except RleStatus RleR :=
  if r.lastCnt = -4 then
    if r.idx ≥ r.buf.size then .error .corrupted
    else
      let c : Int := (r.buf.getD r.idx 0).toNat
      let r := { r with lastCnt := c, idx := r.idx + 1 }
      if c > 0 then .ok r
      else
        if r.idx ≥ r.buf.size then .error .done
        else .ok (takeByte r)
  else if r.lastCnt ≤ 0 then
    if r.idx ≥ r.buf.size then .error .done
    else .ok (takeByte r)
  else .ok r

theorem read_succ (n : Nat) (r : RleR) (acc : List UInt8) :
    RleR.read (n + 1) r acc =
      match rstep r with
      | .error st => (r, acc.reverse, st)
      | .ok r' => RleR.read n { r' with lastCnt := r'.lastCnt - 1 } (r'.lastVal :: acc) := rfl

def Good (blk : List UInt8) (P : List UInt8) (st : RleStatus) : Prop :=
  match dec blk with
  | some full => P <+: full ∧ (st = .done → P = full) ∧ st ≠ .corrupted
  | none => st ≠ .done

def RInv (blk : List UInt8) (r : RleR) (P : List UInt8) : Prop :=
  r.buf = blk.toArray ∧ r.idx ≤ blk.length ∧
  ∃ (l : Option UInt8) (run : Nat) (acc : List UInt8), (blk.take r.idx).foldl dstep dinit = (l, run, acc) ∧
    ((run ≤ 4 ∧ r.lastCnt = -(run : Int) ∧ acc.reverse = P ∧ (run > 0 → l = some r.lastVal)) ∨
     (run = 0 ∧ 0 < r.lastCnt ∧ acc.reverse = P ++ List.replicate r.lastCnt.toNat r.lastVal))

theorem dstep_mono : ∀ (xs : List UInt8) (s : DSt), ∃ ext, (xs.foldl dstep s).2.2 = ext ++ s.2.2
  | [], s => ⟨[], rfl⟩
  | x :: xs, s => by
    obtain ⟨e, he⟩ := dstep_mono xs (dstep s x)
    rw [List.foldl_cons, he]
    unfold dstep
    split
    · exact ⟨e ++ List.replicate x.toNat (s.1.getD 0), by simp⟩
    · split
      · exact ⟨e ++ [x], by simp⟩
      · exact ⟨e ++ [x], by simp⟩

theorem foldl_take_succ (blk : List UInt8) (i : Nat) (h : i < blk.length) (s : DSt) :
    (blk.take (i + 1)).foldl dstep s = dstep ((blk.take i).foldl dstep s) (blk.toArray.getD i 0) := by
  rw [List.take_succ_eq_append_getElem h, List.foldl_append]
  simp [h]

theorem rinv_good (blk : List UInt8) (r : RleR) (P : List UInt8) (h : RInv blk r P) : Good blk P .ok := by
  obtain ⟨_, _, l, run, acc, h1, h2⟩ := h
  unfold Good
  cases hd : dec blk with
  | none => simp
  | some full =>
    refine ⟨?_, by simp, by simp⟩
    unfold dec at hd
    rw [← List.take_append_drop r.idx blk, List.foldl_append, h1] at hd
    obtain ⟨e, he⟩ := dstep_mono (blk.drop r.idx) (l, run, acc)
    unfold dfin at hd
    split at hd
    · cases hd
    · have hf : full = acc.reverse ++ e.reverse := by
        rw [← Option.some.inj hd, he]; simp
      rcases h2 with ⟨_, _, h3, _⟩ | ⟨_, _, h3⟩
      · rw [hf, h3]; exact List.prefix_append _ _
      · rw [hf, h3, List.append_assoc]; exact List.prefix_append _ _

theorem rinv_init (blk : List UInt8) : RInv blk { buf := blk.toArray } [] :=
  ⟨rfl, by simp, none, 0, [], by simp [dinit], Or.inl ⟨by simp, by simp, by simp, by simp⟩⟩

theorem good_done (blk P : List UInt8) (l : Option UInt8) (run : Nat) (acc : List UInt8)
    (h : blk.foldl dstep dinit = (l, run, acc)) (hr : run ≠ 4) (hp : acc.reverse = P) : Good blk P .done := by
  unfold Good dec
  rw [h]
  simp [dfin, hr, hp]

theorem good_corrupt (blk P : List UInt8) (l : Option UInt8) (acc : List UInt8)
    (h : blk.foldl dstep dinit = (l, 4, acc)) : Good blk P .corrupted := by
  unfold Good dec
  rw [h]
  simp [dfin]

theorem takeByte_spec (blk : List UInt8) (r : RleR) (P : List UInt8) (l : Option UInt8) (run : Nat)
    (acc : List UInt8) (hbuf : r.buf = blk.toArray) (hidx : r.idx < blk.length)
    (h1 : (blk.take r.idx).foldl dstep dinit = (l, run, acc)) (hr : run ≤ 3) (hlc : r.lastCnt = -(run : Int))
    (hacc : acc.reverse = P) (hl : run > 0 → l = some r.lastVal) :
    RInv blk { takeByte r with lastCnt := (takeByte r).lastCnt - 1 } (P ++ [(takeByte r).lastVal]) := by
  obtain ⟨buf, idx, lastVal, lastCnt⟩ := r
  simp only at hbuf hidx h1 hlc hl
  subst hbuf
  have hs := foldl_take_succ blk idx hidx dinit
  rw [h1] at hs
  unfold takeByte
  simp only []
  by_cases hb : blk.toArray.getD idx 0 ≠ lastVal
  · rw [if_pos hb]
    refine ⟨rfl, by simp; omega, some (blk.toArray.getD idx 0), 1, blk.toArray.getD idx 0 :: acc, ?_,
      Or.inl ⟨by omega, by simp, by simp [hacc], by simp⟩⟩
    simp only []
    rw [hs]
    unfold dstep
    simp only []
    rw [if_neg (by omega)]
    have : ¬ (l = some (blk.toArray.getD idx 0) ∧ run > 0) := by
      rintro ⟨e1, e2⟩
      rw [hl e2] at e1
      exact hb (Option.some.inj e1).symm
    rw [if_neg this]
  · rw [if_neg hb]
    have hb' : blk.toArray.getD idx 0 = lastVal := Classical.not_not.1 hb
    refine ⟨rfl, by simp; omega, some lastVal, run + 1, lastVal :: acc, ?_,
      Or.inl ⟨by omega, by simp [hlc]; omega, by simp [hacc], by simp⟩⟩
    simp only []
    rw [hs, hb']
    unfold dstep
    simp only []
    rw [if_neg (by omega)]
    by_cases h0 : run > 0
    · rw [if_pos ⟨hl h0, h0⟩, hl h0]
    · rw [if_neg (fun hh => h0 hh.2)]
      have : run = 0 := by omega
      rw [this]

theorem rstep_spec (blk : List UInt8) (r : RleR) (P : List UInt8) (h : RInv blk r P) :
    match rstep r with
    | .ok r' => RInv blk { r' with lastCnt := r'.lastCnt - 1 } (P ++ [r'.lastVal])
    | .error st => Good blk P st := by
  obtain ⟨hbuf, hidx, l, run, acc, h1, h2⟩ := h
  obtain ⟨buf, idx, lastVal, lastCnt⟩ := r
  simp only at hbuf hidx h1 h2
  subst hbuf
  unfold rstep
  simp only [List.size_toArray]
  rcases h2 with ⟨hr4, hlc, hacc, hl⟩ | ⟨hr0, hpos, hacc⟩
  · by_cases h4 : run = 4
    · subst h4
      have hlc' : lastCnt = -4 := by omega
      rw [if_pos hlc']
      by_cases hi : idx ≥ blk.length
      · rw [if_pos hi]
        rw [List.take_of_length_le hi] at h1
        exact good_corrupt blk P l acc h1
      · rw [if_neg hi]
        have hi' : idx < blk.length := by omega
        have hs := foldl_take_succ blk idx hi' dinit
        rw [h1] at hs
        have hl' : l = some lastVal := hl (by omega)
        subst hl'
        simp only [dstep, if_true, Option.getD_some] at hs
        generalize blk.toArray.getD idx 0 = cb at hs ⊢
        by_cases hc : (cb.toNat : Int) > 0
        · rw [if_pos hc]
          refine ⟨rfl, by simp; omega, some lastVal, 0, _, hs, ?_⟩
          by_cases hc1 : cb.toNat = 1
          · left
            refine ⟨by omega, by simp [hc1], ?_, by simp⟩
            simp [hc1, hacc]
          · right
            refine ⟨rfl, by simp; omega, ?_⟩
            simp only [List.reverse_append, List.reverse_replicate, hacc, List.append_assoc]
            congr 1
            have : cb.toNat
                = ((cb.toNat : Int) - 1).toNat + 1 := by omega
            conv => lhs; rw [this]
            rw [List.replicate_succ]
            rfl
        · rw [if_neg hc]
          have hc0 : cb.toNat = 0 := by omega
          rw [hc0] at hs
          simp only [List.replicate_zero, List.nil_append] at hs
          by_cases hi2 : idx + 1 ≥ blk.length
          · rw [if_pos hi2]
            rw [List.take_of_length_le hi2] at hs
            exact good_done blk P _ _ _ hs (by omega) hacc
          · rw [if_neg hi2]
            exact takeByte_spec blk _ P (some lastVal) 0 acc rfl (by simp; omega) hs (by omega)
              (by simp [hc0]) hacc (by simp)
    · rw [if_neg (by omega), if_pos (by omega)]
      by_cases hi : idx ≥ blk.length
      · rw [if_pos hi]
        rw [List.take_of_length_le hi] at h1
        exact good_done blk P _ _ _ h1 h4 hacc
      · rw [if_neg hi]
        exact takeByte_spec blk _ P l run acc rfl (by simp; omega) h1 (by omega) hlc hacc hl
  · rw [if_neg (by omega), if_neg (by omega)]
    subst hr0
    refine ⟨rfl, hidx, l, 0, acc, h1, ?_⟩
    by_cases hc1 : lastCnt = 1
    · left
      subst hc1
      exact ⟨by omega, by simp, by simpa using hacc, by simp⟩
    · right
      refine ⟨rfl, by simp; omega, ?_⟩
      simp only [hacc, List.append_assoc]
      congr 1
      have : lastCnt.toNat = (lastCnt - 1).toNat + 1 := by omega
      rw [this, List.replicate_succ]
      rfl

theorem read_spec (blk : List UInt8) : ∀ (n : Nat) (r : RleR) (acc P : List UInt8), RInv blk r P →
    ∃ P', (RleR.read n r acc).2.1 = acc.reverse ++ P' ∧
      ((RleR.read n r acc).2.2 = .ok → RInv blk (RleR.read n r acc).1 (P ++ P')) ∧
      ((RleR.read n r acc).2.2 ≠ .ok → Good blk (P ++ P') (RleR.read n r acc).2.2)
  | 0, r, acc, P, h => ⟨[], by simp [RleR.read], by simpa [RleR.read] using h, by simp [RleR.read]⟩
  | n+1, r, acc, P, h => by
    have hs := rstep_spec blk r P h
    rw [read_succ]
    cases hr : rstep r with
    | error st =>
      rw [hr] at hs
      simp only [] at hs ⊢
      refine ⟨[], by simp, ?_, by simpa using fun _ => hs⟩
      intro hst
      subst hst
      simpa using h
    | ok r' =>
      rw [hr] at hs
      simp only [] at hs ⊢
      obtain ⟨P', p1, p2, p3⟩ := read_spec blk n _ (r'.lastVal :: acc) _ hs
      refine ⟨r'.lastVal :: P', by rw [p1]; simp, ?_, ?_⟩
      · simpa using p2
      · simpa using p3

end Compress.Proofs.Bzip2Rle
