/-
C15 helpers: history independence of the DEFLATE specification — whatever decodes
successfully from some output decodes the same way when more output precedes it.
-/
import Compress.Flate.Spec
import Compress.Proofs.FlatePrefixBlock

namespace Compress.Proofs.XFlateAccept
open Compress Compress.Flate Compress.Proofs.FlatePrefix

theorem getD_append_right (P out : Array UInt8) (i : Nat) :
    (P ++ out).getD (P.size + i) 0 = out.getD i 0 := by
  simp only [Array.getD_eq_getD_getElem?]
  rw [Array.getElem?_append_right (by omega)]
  congr 2
  omega

theorem copyBack_hist (P : Array UInt8) (d : Nat) : ∀ (len : Nat) (out : Array UInt8), d ≤ out.size →
    copyBack (P ++ out) d len = P ++ copyBack out d len := by
  intro len
  induction len with
  | zero => intro out _; rfl
  | succ len ih =>
    intro out hd
    rw [copyBack, copyBack]
    have e : (P ++ out).size - d = P.size + (out.size - d) := by
      rw [Array.size_append]; omega
    rw [e, getD_append_right, ← Array.append_push]
    exact ih _ (by rw [Array.size_push]; omega)

theorem takeBytes_hist (P : Array UInt8) : ∀ (n : Nat) (out : Array UInt8) (bits : Bits),
    takeBytes n (P ++ out) bits = (P ++ (takeBytes n out bits).1, (takeBytes n out bits).2) := by
  intro n
  induction n with
  | zero => intro out bits; rfl
  | succ n ih =>
    intro out bits
    rw [takeBytes, takeBytes]
    cases h : takeBits 8 bits with
    | none => rfl
    | some v =>
      obtain ⟨v, rest⟩ := v
      dsimp only
      rw [← Array.append_push]
      exact ih _ _

theorem inflateBlock_hist (lit dist : HuffTab) (P : Array UInt8) : ∀ (fuel : Nat) (out : Array UInt8)
    (bits : Bits) (o : Array UInt8) (rest : Bits),
    inflateBlock lit dist fuel out bits = (o, .ok rest) →
    inflateBlock lit dist fuel (P ++ out) bits = (P ++ o, .ok rest) := by
  intro fuel
  induction fuel with
  | zero =>
    intro out bits o rest h
    rw [inflateBlock_zero] at h
    cases h
  | succ fuel ih =>
    intro out bits o rest h
    rw [inflateBlock_succ] at h ⊢
    cases hd : lit.decode bits with
    | eof => rw [hd] at h; cases h
    | invalid => rw [hd] at h; cases h
    | sym s r1 =>
      rw [hd] at h
      dsimp only at h ⊢
      by_cases h1 : s < 256
      · rw [if_pos h1] at h ⊢
        rw [← Array.append_push]
        exact ih _ _ _ _ h
      rw [if_neg h1] at h ⊢
      by_cases h2 : s = 256
      · rw [if_pos h2] at h ⊢
        simp only [Prod.mk.injEq, Except.ok.injEq] at h
        obtain ⟨rfl, rfl⟩ := h
        rfl
      rw [if_neg h2] at h ⊢
      by_cases h3 : s ≥ 286
      · rw [if_pos h3] at h; cases h
      rw [if_neg h3] at h ⊢
      cases hm : readMatch dist s r1 with
      | error e' => rw [hm] at h; cases h
      | ok v =>
        obtain ⟨⟨len, d⟩, r3⟩ := v
        rw [hm] at h
        dsimp only at h ⊢
        by_cases h4 : d > min out.size maxHist
        · rw [if_pos h4] at h; cases h
        rw [if_neg h4] at h
        have h5 : ¬ d > min (P ++ out).size maxHist := by
          rw [Array.size_append]; omega
        rw [if_neg h5]
        rw [copyBack_hist P d len out (by omega)]
        exact ih _ _ _ _ h

theorem blockBody_hist (P : Array UInt8) (used btype : Nat) (out : Array UInt8) (bits : Bits)
    (o : Array UInt8) (rest : Bits) (h : blockBody used btype out bits = (o, .ok rest)) :
    blockBody used btype (P ++ out) bits = (P ++ o, .ok rest) := by
  match btype with
  | 0 =>
    rw [blockBody_zero] at h ⊢
    cases h1 : takeBits 16 (bits.drop (padTo8 used)) with
    | none => rw [h1] at h; cases h
    | some v =>
      obtain ⟨len, b4⟩ := v
      rw [h1] at h; dsimp only at h ⊢
      cases h2 : takeBits 16 b4 with
      | none => rw [h2] at h; cases h
      | some v =>
        obtain ⟨nlen, b5⟩ := v
        rw [h2] at h; dsimp only at h ⊢
        by_cases hl : len + nlen ≠ 65535
        · rw [if_pos hl] at h; cases h
        rw [if_neg hl] at h ⊢
        rw [takeBytes_hist]
        cases h3 : takeBytes len out b5 with
        | mk o' r =>
          rw [h3] at h
          cases r with
          | none => cases h
          | some b6 =>
            simp only [Prod.mk.injEq, Except.ok.injEq] at h
            obtain ⟨rfl, rfl⟩ := h
            rfl
  | 1 =>
    rw [blockBody_one] at h ⊢
    exact inflateBlock_hist _ _ _ _ _ _ _ _ h
  | 2 =>
    rw [blockBody_two] at h ⊢
    cases h1 : readDynamic bits with
    | error e' => rw [h1] at h; cases h
    | ok v =>
      obtain ⟨lit, dist, b3⟩ := v
      rw [h1] at h; dsimp only at h ⊢
      exact inflateBlock_hist _ _ _ _ _ _ _ _ h
  | n + 3 =>
    rw [blockBody_other] at h
    cases h

theorem decodeBlocks_hist (total : Nat) (P : Array UInt8) : ∀ (fuel : Nat) (out : Array UInt8) (bits : Bits)
    (o : Array UInt8) (n : Nat),
    decodeBlocks total fuel out bits = { out := o, verdict := .ok n } →
    decodeBlocks total fuel (P ++ out) bits = { out := P ++ o, verdict := .ok n } := by
  intro fuel
  induction fuel with
  | zero =>
    intro out bits o n h
    rw [decodeBlocks_zero] at h
    simp at h
  | succ fuel ih =>
    intro out bits o n h
    rw [decodeBlocks_succ] at h ⊢
    cases h1 : takeBits 1 bits with
    | none => rw [h1] at h; simp at h
    | some v =>
      obtain ⟨bfinal, b1⟩ := v
      rw [h1] at h; dsimp only at h ⊢
      cases h2 : takeBits 2 b1 with
      | none => rw [h2] at h; simp at h
      | some v =>
        obtain ⟨btype, b2⟩ := v
        rw [h2] at h; dsimp only at h ⊢
        cases hb : blockBody (total - b2.length) btype out b2 with
        | mk o1 r =>
          rw [hb] at h
          cases r with
          | error e =>
            dsimp only at h
            simp only [Result.mk.injEq] at h
            obtain ⟨_, rfl⟩ := h
            rcases blockBody_err _ _ _ _ _ _ hb with h' | h' <;> cases h'
          | ok b6 =>
            dsimp only at h
            rw [blockBody_hist P _ _ _ _ _ _ hb]
            dsimp only
            by_cases hf : bfinal = 1
            · rw [if_pos hf] at h ⊢
              simp only [Result.mk.injEq, Verdict.ok.injEq] at h
              obtain ⟨rfl, rfl⟩ := h
              rfl
            · rw [if_neg hf] at h ⊢
              exact ih _ _ _ _ h

end Compress.Proofs.XFlateAccept
