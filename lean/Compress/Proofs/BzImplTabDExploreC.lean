import Compress.Proofs.BzImplTabDExploreB

namespace Compress.Proofs.BzImpl.TabD
open Compress Compress.Bzip2 Compress.Prefix
open Compress.Bzip2.Impl (GStatus Explored)

theorem add_inv {t : CTab} {ex : Explored} {cc : Code} (hex : ExOK t ex)
    (hf : LeafOK t { cc with sym := 258 + ex.extra.size })
    (hincf : ∀ a, Mem ex a → ¬ a.word <+: cc.word ∧ ¬ cc.word <+: a.word) :
    ExOK t (ex.addInvalid cc) := by
  refine add_ok (f := { cc with sym := 258 + ex.extra.size }) hex hex.size hex.idx ?_ hf hincf
  intro a ha
  rcases (mem_addInvalid _ _ _).1 ha with h1 | ⟨_, h1⟩
  · exact Or.inl h1
  · exact Or.inr h1

theorem split_ext (w : Bits) (b : Bool) (x : Bits) : w ++ b :: x = (w ++ [b]) ++ x := by simp

theorem explore_need {t : CTab} {n : Nat} (h : StOK t n) (c : Code) (ex ex0 ex1 : Explored)
    (b0 b1 : Bool)
    (hv : c.val < 2 ^ c.len)
    (hpar : ∀ q x, c.word = q ++ x → x ≠ [] → St t q = .needBits)
    (hinc : ∀ a, Mem ex a → ¬ a.word <+: c.word ∧ ¬ c.word <+: a.word)
    (hs : St t c.word = .needBits)
    (P0 : Post t (c.word ++ [false]) ex (b0, ex0))
    (P1 : Post t (c.word ++ [true]) ex0 (b1, ex1)) :
    Post t c.word ex (b0 || b1,
      if (!b0 && b1) = true then ex1.addInvalid { c with len := c.len + 1 }
      else if (!b1 && b0) = true then
        ex1.addInvalid { c with len := c.len + 1, val := c.val ||| (1 <<< c.len) }
      else ex1) := by
  have hlen : c.word.length ≤ t.maxLen := h.need_len _ hs
  have hw0 := word_child0 c hv
  obtain ⟨hw1, hv1⟩ := word_child1 c hv
  have hv0 : c.val < 2 ^ (c.len + 1) := by
    rw [Nat.pow_succ]; omega
  have hcov0 : ∀ x, t.maxLen + 1 ≤ (c.word ++ x).length → x ≠ [] := by
    intro x hx hx0
    subst hx0
    simp only [List.append_nil] at hx
    omega
  cases b0 <;> cases b1
  · -- neither
    obtain ⟨he0, N0⟩ := P0.no rfl
    obtain ⟨he1, N1⟩ := P1.no rfl
    simp only at he0 he1
    subst he0
    subst he1
    refine ⟨P1.ok, fun a ha => ha, fun a ha => Or.inl ha, fun _ => ⟨rfl, ?_⟩, ?_⟩
    · intro x
      cases x with
      | nil => simp [hs]
      | cons b x' =>
        rw [split_ext]
        cases b
        · exact N0 x'
        · exact N1 x'
    · intro h1; cases h1
  · -- only the second
    obtain ⟨he0, N0⟩ := P0.no rfl
    obtain ⟨hl1, C1⟩ := P1.yes rfl
    simp only at he0
    subst he0
    simp only [List.length_append, List.length_cons, List.length_nil, word_len] at hl1
    have hf : LeafOK t { ({ c with len := c.len + 1 } : Code) with sym := 258 + ex1.extra.size } := by
      refine ⟨hv0, Nat.succ_pos _, hl1, ?_, Or.inr ⟨Nat.le_add_right _ _, ?_⟩⟩
      · show ∀ q x, ({ c with len := c.len + 1 } : Code).word = q ++ x → _
        rw [hw0]; exact par_child false hs hpar
      · show ∀ x, St t (({ c with len := c.len + 1 } : Code).word ++ x) = .needBits ∨
          St t (({ c with len := c.len + 1 } : Code).word ++ x) = .maxBits
        rw [hw0]; exact N0
    have hi : ∀ a, Mem ex1 a → ¬ a.word <+: ({ c with len := c.len + 1 } : Code).word ∧
        ¬ ({ c with len := c.len + 1 } : Code).word <+: a.word := by
      intro a ha
      rw [hw0]
      rcases P1.new a ha with h1 | h1
      · exact inc_child false (hinc a h1)
      · exact inc_sib (by decide) h1
    refine ⟨add_inv P1.ok hf hi, ?_, ?_, ?_, ?_⟩
    · intro a ha
      exact (mem_addInvalid _ _ _).2 (Or.inl (P1.mono a ha))
    · intro a ha
      rcases (mem_addInvalid _ _ _).1 ha with h1 | ⟨_, h1⟩
      · rcases P1.new a h1 with h2 | h2
        · exact Or.inl h2
        · exact Or.inr (List.IsPrefix.trans (List.prefix_append _ _) h2)
      · subst h1
        right
        show c.word <+: ({ c with len := c.len + 1 } : Code).word
        rw [hw0]; exact List.prefix_append _ _
    · intro h1; cases h1
    · intro _
      refine ⟨hlen, ?_⟩
      intro x hx
      cases x with
      | nil => exact absurd rfl (hcov0 _ hx)
      | cons b x' =>
        rw [split_ext] at hx ⊢
        cases b
        · refine ⟨_, (mem_addInvalid _ _ _).2 (Or.inr ⟨Nat.succ_pos _, rfl⟩), ?_⟩
          show ({ c with len := c.len + 1 } : Code).word <+: _
          rw [hw0]; exact List.prefix_append _ _
        · obtain ⟨a, ha, hp⟩ := C1 x' hx
          exact ⟨a, (mem_addInvalid _ _ _).2 (Or.inl ha), hp⟩
  · -- only the first
    obtain ⟨hl0, C0⟩ := P0.yes rfl
    obtain ⟨he1, N1⟩ := P1.no rfl
    simp only at he1
    subst he1
    simp only [List.length_append, List.length_cons, List.length_nil, word_len] at hl0
    have hf : LeafOK t { ({ c with len := c.len + 1, val := c.val ||| (1 <<< c.len) } : Code) with
        sym := 258 + ex1.extra.size } := by
      refine ⟨hv1, Nat.succ_pos _, hl0, ?_, Or.inr ⟨Nat.le_add_right _ _, ?_⟩⟩
      · show ∀ q x, ({ c with len := c.len + 1, val := c.val ||| (1 <<< c.len) } : Code).word
          = q ++ x → _
        rw [hw1]; exact par_child true hs hpar
      · show ∀ x, St t (({ c with len := c.len + 1, val := c.val ||| (1 <<< c.len) } : Code).word
          ++ x) = .needBits ∨ St t (({ c with len := c.len + 1, val := c.val ||| (1 <<< c.len) } :
            Code).word ++ x) = .maxBits
        rw [hw1]; exact N1
    have hi : ∀ a, Mem ex1 a →
        ¬ a.word <+: ({ c with len := c.len + 1, val := c.val ||| (1 <<< c.len) } : Code).word ∧
        ¬ ({ c with len := c.len + 1, val := c.val ||| (1 <<< c.len) } : Code).word <+: a.word := by
      intro a ha
      rw [hw1]
      rcases P0.new a ha with h1 | h1
      · exact inc_child true (hinc a h1)
      · exact inc_sib (by decide) h1
    refine ⟨add_inv P1.ok hf hi, ?_, ?_, ?_, ?_⟩
    · intro a ha
      exact (mem_addInvalid _ _ _).2 (Or.inl (P0.mono a ha))
    · intro a ha
      rcases (mem_addInvalid _ _ _).1 ha with h1 | ⟨_, h1⟩
      · rcases P0.new a h1 with h2 | h2
        · exact Or.inl h2
        · exact Or.inr (List.IsPrefix.trans (List.prefix_append _ _) h2)
      · subst h1
        right
        show c.word <+: ({ c with len := c.len + 1, val := c.val ||| (1 <<< c.len) } : Code).word
        rw [hw1]; exact List.prefix_append _ _
    · intro h1; cases h1
    · intro _
      refine ⟨hlen, ?_⟩
      intro x hx
      cases x with
      | nil => exact absurd rfl (hcov0 _ hx)
      | cons b x' =>
        rw [split_ext] at hx ⊢
        cases b
        · obtain ⟨a, ha, hp⟩ := C0 x' hx
          exact ⟨a, (mem_addInvalid _ _ _).2 (Or.inl ha), hp⟩
        · refine ⟨_, (mem_addInvalid _ _ _).2 (Or.inr ⟨Nat.succ_pos _, rfl⟩), ?_⟩
          show ({ c with len := c.len + 1, val := c.val ||| (1 <<< c.len) } : Code).word <+: _
          rw [hw1]; exact List.prefix_append _ _
  · -- both
    obtain ⟨hl0, C0⟩ := P0.yes rfl
    obtain ⟨hl1, C1⟩ := P1.yes rfl
    refine ⟨P1.ok, fun a ha => P1.mono a (P0.mono a ha), ?_, ?_, ?_⟩
    · intro a ha
      rcases P1.new a ha with h1 | h1
      · rcases P0.new a h1 with h2 | h2
        · exact Or.inl h2
        · exact Or.inr (List.IsPrefix.trans (List.prefix_append _ _) h2)
      · exact Or.inr (List.IsPrefix.trans (List.prefix_append _ _) h1)
    · intro h1; cases h1
    · intro _
      refine ⟨hlen, ?_⟩
      intro x hx
      cases x with
      | nil => exact absurd rfl (hcov0 _ hx)
      | cons b x' =>
        rw [split_ext] at hx ⊢
        cases b
        · obtain ⟨a, ha, hp⟩ := C0 x' hx
          exact ⟨a, P1.mono a ha, hp⟩
        · exact C1 x' hx

end Compress.Proofs.BzImpl.TabD
