/-
C16 (converse of M2), part (b): the shape of an accepted meta block.

Everything `decodeBlock` accepts is: 32 magic bits whose free fields are the
final-stream bit, `pads` and `huffLen`; the fixed HCLEN fields of that
`huffLen`; a body the symbol loop accepts; `pads` zero bits, one zero bit and
`huffLen` one bits; and it is a whole number of bytes.
-/
import Compress.Proofs.MetaConvSym
import Compress.Proofs.MetaSilentLit
import Compress.Proofs.MetaParts

namespace Compress.Proofs.MetaConv
open Compress Compress.Meta Compress.Flate Compress.Proofs.Meta Compress.Proofs.MetaSilent

/-! ### the magic word -/

theorem magic_bit (m j : Nat) (hm : m &&& magicMask = magicVals) (hmask : magicMask.testBit j = true) :
    m.testBit j = magicVals.testBit j := by
  have := congrArg (fun x => Nat.testBit x j) hm
  simpa only [Nat.testBit_and, hmask, Bool.and_true] using this

theorem bitval (m j : Nat) (c : Bool) (h : m.testBit j = c) : m / 2 ^ j % 2 = if c then 1 else 0 := by
  rw [Nat.testBit_eq_decide_div_mod_eq] at h
  cases c <;> simp at h ⊢ <;> omega

/-- a 32-bit word carrying the signature under the mask is the signature plus
    its three free fields: bit 0, bits 3-5 and bits 14-16. -/
theorem magic_decomp (m : Nat) (hlt : m < 2 ^ 32) (hm : m &&& magicMask = magicVals) :
    ∃ fs k pads, fs < 2 ∧ k < 8 ∧ pads < 8 ∧ m = magicVals + fs + (2 * k) * 8192 + pads * 8 := by
  have b := fun j c (hmask : magicMask.testBit j = true) (hc : magicVals.testBit j = c) =>
    bitval m j c ((magic_bit m j hm hmask).trans hc)
  have b1 := b 1 false (by decide) (by decide)
  have b2 := b 2 true (by decide) (by decide)
  have b6 := b 6 false (by decide) (by decide)
  have b7 := b 7 false (by decide) (by decide)
  have b8 := b 8 false (by decide) (by decide)
  have b9 := b 9 false (by decide) (by decide)
  have b10 := b 10 false (by decide) (by decide)
  have b11 := b 11 false (by decide) (by decide)
  have b12 := b 12 false (by decide) (by decide)
  have b13 := b 13 false (by decide) (by decide)
  have b17 := b 17 true (by decide) (by decide)
  have b18 := b 18 true (by decide) (by decide)
  have b19 := b 19 false (by decide) (by decide)
  have b20 := b 20 false (by decide) (by decide)
  have b21 := b 21 false (by decide) (by decide)
  have b22 := b 22 false (by decide) (by decide)
  have b23 := b 23 true (by decide) (by decide)
  have b24 := b 24 true (by decide) (by decide)
  have b25 := b 25 false (by decide) (by decide)
  have b26 := b 26 true (by decide) (by decide)
  have b27 := b 27 false (by decide) (by decide)
  have b28 := b 28 false (by decide) (by decide)
  have b29 := b 29 false (by decide) (by decide)
  have b30 := b 30 false (by decide) (by decide)
  have b31 := b 31 false (by decide) (by decide)
  simp only [Bool.false_eq_true, if_false, if_true] at *
  refine ⟨m % 2, m / 16384 % 8, m / 8 % 8, by omega, by omega, by omega, ?_⟩
  simp only [magicVals]
  omega

/-! ### inverting the header and footer parsers -/

theorem ofNat_zero : ∀ n, Bits.ofNat 0 n = List.replicate n false
  | 0 => rfl
  | n+1 => by simp [Bits.ofNat, ofNat_zero n, List.replicate_succ]

theorem readEmptyHCLens_inv : ∀ (k : Nat) (bs r : Bits), readEmptyHCLens k bs = .ok (false, r) →
    bs = (List.replicate k (Bits.ofNat 0 3)).flatten ++ r
  | 0, bs, r, h => by
    simp only [readEmptyHCLens, Except.ok.injEq, Prod.mk.injEq, true_and] at h
    simp [h]
  | k+1, bs, r, h => by
    cases hrb : readBits 3 bs with
    | error e => simp [readEmptyHCLens, hrb] at h
    | ok p =>
      obtain ⟨v, r1⟩ := p
      obtain ⟨_, rfl⟩ := readBits_inv 3 bs v r1 hrb
      by_cases hv : v = 0
      · subst hv
        simp only [readEmptyHCLens, hrb, ne_eq, not_true_eq_false, if_false] at h
        have ih := readEmptyHCLens_inv k r1 r h
        rw [ih]
        simp [List.replicate_succ]
      · simp [readEmptyHCLens, hrb, hv] at h

theorem readHeaderRest_inv' (n : Nat) (h6 : ¬ n < 6) (bs r : Bits)
    (h : readHeaderRest n bs = .ok (false, r)) :
    bs = (List.replicate (n - 1 - 5) (Bits.ofNat 0 3)).flatten ++ Bits.ofNat 2 3 ++ [false] ++ r := by
  simp only [readHeaderRest, h6, if_false] at h
  cases h1 : readEmptyHCLens (n - 1 - 5) bs with
  | error e => rw [h1] at h; cases h
  | ok p =>
    obtain ⟨f, r1⟩ := p
    rw [h1] at h
    cases f with
    | true => simp at h
    | false =>
      have s1 := readEmptyHCLens_inv _ _ _ h1
      simp only at h
      cases h2 : readBits 3 r1 with
      | error e => rw [h2] at h; cases h
      | ok p =>
        obtain ⟨v2, r2⟩ := p
        obtain ⟨_, s2⟩ := readBits_inv 3 r1 v2 r2 h2
        rw [h2] at h
        simp only at h
        by_cases hv2 : v2 = 2
        · subst hv2
          simp only [ne_eq, not_true_eq_false, if_false] at h
          cases h3 : readBits 1 r2 with
          | error e => rw [h3] at h; cases h
          | ok p =>
            obtain ⟨v3, r3⟩ := p
            obtain ⟨_, s3⟩ := readBits_inv 1 r2 v3 r3 h3
            rw [h3] at h
            simp only [Except.ok.injEq, Prod.mk.injEq, decide_eq_false_iff_not, Decidable.not_not] at h
            obtain ⟨hv3, rfl⟩ := h
            subst hv3
            rw [s1, s2, s3]
            simp [Bits.ofNat]
        · simp [hv2] at h

theorem readHeaderRest_inv (k : Nat) (hk : k < 8) (bs r : Bits)
    (h : readHeaderRest (4 + 2 * k) bs = .ok (false, r)) : 1 ≤ k ∧ bs = hclensBits (8 - k) ++ r := by
  by_cases h6 : 4 + 2 * k < 6
  · simp [readHeaderRest, h6] at h
  · refine ⟨by omega, ?_⟩
    have e : 4 + (8 - (8 - k)) * 2 = 4 + 2 * k := by omega
    rw [readHeaderRest_inv' _ h6 bs r h, hclensBits, e]

theorem readFooter_inv (pads h total : Nat) (bs r : Bits)
    (hf : readFooter pads h total bs = .ok ((), r)) :
    bs = List.replicate pads false ++ ([false] ++ (List.replicate h true ++ r)) ∧ (total - r.length) % 8 = 0 := by
  simp only [readFooter] at hf
  cases h1 : readBits pads bs with
  | error e => simp [h1] at hf
  | ok p =>
    obtain ⟨p, r1⟩ := p
    obtain ⟨_, s1⟩ := readBits_inv pads bs p r1 h1
    simp only [h1] at hf
    by_cases hp : p > 0
    · simp [hp] at hf
    · have hp0 : p = 0 := by omega
      subst hp0
      simp only [Nat.lt_irrefl, if_false] at hf
      cases h2 : readBits 1 r1 with
      | error e => simp [h2] at hf
      | ok q =>
        obtain ⟨d, r2⟩ := q
        obtain ⟨_, s2⟩ := readBits_inv 1 r1 d r2 h2
        simp only [h2] at hf
        by_cases hd : d > 0
        · simp [hd] at hf
        · have hd0 : d = 0 := by omega
          subst hd0
          simp only [Nat.lt_irrefl, if_false] at hf
          cases h3 : readBits h r2 with
          | error e => simp [h3] at hf
          | ok q =>
            obtain ⟨e, r3⟩ := q
            obtain ⟨_, s3⟩ := readBits_inv h r2 e r3 h3
            rw [h3] at hf
            simp only at hf
            split at hf
            · cases hf
            · rename_i hc
              simp only [Except.ok.injEq, Prod.mk.injEq, true_and] at hf
              subst hf
              simp only [ne_eq, Bool.or_eq_true, decide_eq_true_eq, not_or, Decidable.not_not] at hc
              obtain ⟨he, hal⟩ := hc
              subst he
              refine ⟨?_, hal⟩
              rw [s1, s2, s3, ofNat_zero, ofNat_ones]
              simp [Bits.ofNat]

theorem interpretSyms_inv (st : SymState) (h : Nat) (fs : Bool) (buf : List UInt8) (final : FinalMode)
    (hi : interpretSyms st h fs = .ok (buf, final)) :
    st.out.length = 257 ∧ st.ones = 2 ^ h ∧ st.out.getD 256 false = true ∧ (final = .fstream ↔ fs = true) := by
  unfold interpretSyms at hi
  by_cases h1 : st.out.length ≠ maxSyms
  · rw [if_pos h1] at hi; cases hi
  · rw [if_neg h1] at hi
    by_cases h2 : st.ones ≠ 2 ^ h
    · rw [if_pos h2] at hi; cases hi
    · rw [if_neg h2] at hi
      by_cases h3 : st.out.getD (maxSyms - 1) false = false
      · rw [if_pos h3] at hi; cases hi
      · rw [if_neg h3] at hi
        simp only at hi
        split at hi
        · cases hi
        · simp only [Except.ok.injEq, Prod.mk.injEq] at hi
          obtain ⟨_, hfin⟩ := hi
          refine ⟨by simpa [maxSyms] using h1, by simpa using h2, by simpa [maxSyms] using h3, ?_⟩
          cases fs
          · simp only [Bool.false_eq_true, if_false] at hfin
            split at hfin <;> subst hfin <;> simp
          · simp only [if_true] at hfin
            subst hfin; simp

/-- `decodeBlock` accepted: every phase accepted. -/
theorem decodeBlock_inv (bs0 : Bits) (blk : Block) (h : decodeBlock bs0 = .ok blk) :
    ∃ magic bs1 bs2 bs3 bs4 st buf,
      readBits 32 bs0 = .ok (magic, bs1) ∧ magic &&& magicMask = magicVals ∧
      readHeaderRest (4 + magic / 2 ^ 13 % 16) bs1 = .ok (false, bs2) ∧
      symLoop maxSyms {} bs2 = .ok (st, bs3) ∧
      interpretSyms st (8 - (4 + magic / 2 ^ 13 % 16 - 4) / 2) (magic % 2 == 1) = .ok (buf, blk.final) ∧
      readFooter (magic / 8 % 8) (8 - (4 + magic / 2 ^ 13 % 16 - 4) / 2) bs0.length bs3 = .ok ((), bs4) ∧
      blk.consumed = bs0.length - bs4.length := by
  by_cases h0 : bs0 = []
  · (simp only [decodeBlock, h0] at h; all_goals (try cases h))
  cases h1 : readBits 32 bs0 with
  | error e => (simp only [decodeBlock, h0, if_false, h1] at h; all_goals (try cases h))
  | ok p =>
    obtain ⟨magic, bs1⟩ := p
    by_cases h2 : magic &&& magicMask = magicVals
    · cases h3 : readHeaderRest (4 + magic / 2 ^ 13 % 16) bs1 with
      | error e => (simp only [decodeBlock, h0, if_false, h1, h2, ne_eq, not_true_eq_false, h3] at h; all_goals (try cases h))
      | ok p =>
        obtain ⟨fail, bs2⟩ := p
        cases fail with
        | true => (simp only [decodeBlock, h0, if_false, h1, h2, ne_eq, not_true_eq_false, h3] at h; all_goals (try cases h))
        | false =>
          cases h4 : symLoop maxSyms {} bs2 with
          | error e => (simp only [decodeBlock, h0, if_false, h1, h2, ne_eq, not_true_eq_false, h3, h4] at h; all_goals (try cases h))
          | ok p =>
            obtain ⟨st, bs3⟩ := p
            cases h5 : interpretSyms st (8 - (4 + magic / 2 ^ 13 % 16 - 4) / 2) (magic % 2 == 1) with
            | error e => (simp only [decodeBlock, h0, if_false, h1, h2, ne_eq, not_true_eq_false, h3, h4, h5] at h; all_goals (try cases h))
            | ok p =>
              obtain ⟨buf, final⟩ := p
              cases h6 : readFooter (magic / 8 % 8) (8 - (4 + magic / 2 ^ 13 % 16 - 4) / 2) bs0.length bs3 with
              | error e => (simp only [decodeBlock, h0, if_false, h1, h2, ne_eq, not_true_eq_false, h3, h4, h5, h6] at h; all_goals (try cases h))
              | ok p =>
                obtain ⟨u, bs4⟩ := p
                cases u
                have := decodeBlock_parts bs0 bs1 bs2 bs3 bs4 magic st buf final h0 h1 h2 h3 h4 h5 h6
                rw [this] at h
                simp only [Except.ok.injEq] at h
                subst h
                exact ⟨magic, bs1, bs2, bs3, bs4, st, buf, by first | rfl | exact h1, h2, by first | rfl | exact h3,
                  h4, h5, by first | rfl | exact h6, rfl⟩
    · (simp only [decodeBlock, h0, if_false, h1, h2, ne_eq] at h; all_goals (try cases h))

/-! ### the shape -/

/-- the bits of a block the decoder accepts: free are the final-stream bit `fs`,
    the code length `h`, `pads`, and the body. -/
def accBits (fs h pads : Nat) (body : Bits) : Bits :=
  Bits.ofNat (magicVals + fs + (2 * (8 - h)) * 8192 + pads * 8) 32 ++ (hclensBits h ++ (body ++
    (List.replicate pads false ++ ([false] ++ List.replicate h true))))

/-- **shape of an accepted block.** -/
theorem accepted_shape (bs : Bits) (blk : Block) (hd : decodeBlock bs = .ok blk) :
    ∃ (fs h pads : Nat) (body : Bits) (st : SymState),
      fs < 2 ∧ 1 ≤ h ∧ h ≤ 7 ∧ pads < 8 ∧
      bs = accBits fs h pads body ++ bs.drop blk.consumed ∧
      blk.consumed = (accBits fs h pads body).length ∧ blk.consumed % 8 = 0 ∧
      (∀ r, symLoop maxSyms {} (body ++ r) = .ok (st, r)) ∧
      st.out.length = 257 ∧ Bits.countOnes st.out = 2 ^ h ∧ st.out.getD 256 false = true ∧
      (blk.final = .fstream ↔ fs = 1) := by
  obtain ⟨magic, bs1, bs2, bs3, bs4, st, buf, h1, h2, h3, h4, h5, h6, hc⟩ := decodeBlock_inv bs blk hd
  obtain ⟨hlt, s1⟩ := readBits_inv 32 bs magic bs1 h1
  obtain ⟨fs, k, pads, hfs, hk, hp, rfl⟩ := magic_decomp magic hlt h2
  obtain ⟨_, _, t3, t4, t5⟩ := magic_table fs hfs k hk pads hp
  have e13 : (2 : Nat) ^ 13 = 8192 := by decide
  rw [e13, t5] at h3 h5 h6
  rw [t3] at h5
  rw [t4] at h6
  have eh : 8 - (4 + 2 * k - 4) / 2 = 8 - k := by omega
  rw [eh] at h5 h6
  obtain ⟨hk1, s2⟩ := readHeaderRest_inv k hk bs1 bs2 h3
  obtain ⟨body, s3, hloc⟩ := symLoop_local _ _ _ _ _ h4
  obtain ⟨i1, i2, i3, i4⟩ := interpretSyms_inv _ _ _ _ _ h5
  obtain ⟨s4, hal⟩ := readFooter_inv _ _ _ _ _ h6
  have hones := (symLoop_inv_out _ _ _ _ _ h4).2 rfl
  have ek : 8 - (8 - k) = k := by omega
  have hbs : bs = accBits fs (8 - k) pads body ++ bs4 := by
    rw [s1, s2, s3, s4, accBits, ek]
    simp only [List.append_assoc]
  have hlen : bs.length - bs4.length = (accBits fs (8 - k) pads body).length := by
    rw [hbs]; simp
  have hdrop : bs.drop blk.consumed = bs4 := by
    rw [hc, hlen, hbs, List.drop_left]
  refine ⟨fs, 8 - k, pads, body, st, hfs, by omega, by omega, hp, ?_, ?_, ?_, hloc, i1, ?_, i3, ?_⟩
  · rw [hdrop]; exact hbs
  · rw [hc, hlen]
  · rw [hc]; exact hal
  · rw [← hones]; exact i2
  · rw [i4]
    have : fs = 0 ∨ fs = 1 := by omega
    rcases this with rfl | rfl <;> simp

end Compress.Proofs.MetaConv
