/-
Vocabulary for the slow path (`handleDegenerateCodes`) of stage lemma (d): the libbzip2 walk as a
function on words, its non-recursive characterisation, and the interfaces between the layers of
the proof of `tables_agree_degenerate`.
-/
import Compress.Proofs.BzImplDefs
import Compress.Prefix.Spec

namespace Compress.Proofs.BzImpl.TabD
open Compress Compress.Bzip2 Compress.Prefix
open Compress.Bzip2.Impl (GStatus Explored)

/-- outcome of the libbzip2 walk on a word: accepted at length `zn` with value `zvec`,
    word exhausted, or longest length exceeded. -/
inductive W where
  | acc (zn : Nat) (zvec : Int) | need | max
deriving DecidableEq

/-- the `for` loop of GET_MTF_VAL on the remaining bits `u` of a word. -/
def walk (t : CTab) : Nat → Nat → Int → Bits → W
  | 0, _, _, _ => .max
  | f+1, zn, zvec, u =>
    if zn > t.maxLen then .max
    else if zvec ≤ t.limit.getD zn 0 then .acc zn zvec
    else
      match u with
      | [] => .need
      | b :: u' => walk t f (zn + 1) (zvec * 2 + (if b then 1 else 0)) u'

/-- what `getSymbol` makes of the outcome. -/
def fin (t : CTab) : W → GStatus
  | .acc zn zvec =>
    let k := zvec - t.base.getD zn 0
    if k < 0 ∨ k ≥ (258 : Int) then .invalid else .okay (t.perm.getD k.toNat 0)
  | .need => .needBits
  | .max => .maxBits

/-- the walk on a whole word. -/
def wk (t : CTab) (w : Bits) : W :=
  if t.minLen > w.length then .need
  else walk t 22 t.minLen (Bits.toNatMSB (w.take t.minLen) : Nat) (w.drop t.minLen)

/-- `getSymbol` as a function of the code word. -/
def St (t : CTab) (w : Bits) : GStatus := fin t (wk t w)

/-- no prefix of `w` of a length in `[minLen, zn)` is accepted. -/
def NoAcc (t : CTab) (w : Bits) (zn : Nat) : Prop :=
  ∀ j, t.minLen ≤ j → j < zn → t.limit.getD j 0 < ((Bits.toNatMSB (w.take j) : Nat) : Int)

/-- the prefix of length `zn` of `w` is the first accepted one. -/
def Acc (t : CTab) (w : Bits) (zn : Nat) : Prop :=
  t.minLen ≤ zn ∧ zn ≤ t.maxLen ∧ zn ≤ w.length ∧
    ((Bits.toNatMSB (w.take zn) : Nat) : Int) ≤ t.limit.getD zn 0 ∧ NoAcc t w zn

/-- the `perm` index of an accepted value is a genuine one. -/
def GoodK (t : CTab) (n zn : Nat) (zvec : Int) : Prop :=
  0 ≤ zvec - t.base.getD zn 0 ∧ zvec - t.base.getD zn 0 < 258 ∧
    ∃ s, t.perm[(zvec - t.base.getD zn 0).toNat]? = some s ∧ s < n

/-- everything the exploration and the final comparison need to know about `St`. -/
structure StOK (t : CTab) (n : Nat) : Prop where
  n_le : n ≤ 258
  min_pos : 1 ≤ t.minLen
  max_le : t.maxLen ≤ 20
  stable : ∀ w x, St t w ≠ .needBits → St t (w ++ x) = St t w
  need_len : ∀ w, St t w = .needBits → w.length ≤ t.maxLen
  no_invalid : ∀ w, St t w ≠ .invalid
  sym_lt : ∀ w s, St t w = .okay s → s < n
  okay_len : ∀ w s, St t w = .okay s → St t (w.take t.maxLen) = .okay s
  inj : ∀ w w' s, St t w = .okay s → St t w' = .okay s →
    ∃ p, p <+: w ∧ p <+: w' ∧ St t p = .okay s
  root : ∃ w s, St t w = .okay s
  spec : ∀ bits,
    match t.decode n bits with
    | .sym s rest => ∃ p, bits = p ++ rest ∧ St t p = .okay s ∧
        ∀ q x, p = q ++ x → x ≠ [] → St t q = .needBits
    | .eof => St t bits = .needBits ∧ bits.length < t.maxLen
    | .bad => St t bits = .maxBits ∨ (St t bits = .needBits ∧ bits.length = t.maxLen)

/-- the codes `handleDegenerateCodes` keeps of an exploration state. -/
def Mem (ex : Explored) (c : Code) : Prop :=
  0 < c.len ∧ (c ∈ ex.valid.toList ∨ c ∈ ex.extra.toList)

/-- a code the exploration inserted: a first accepted word with its symbol, or the root of a
    subtree without accepted words (whose sibling subtree has one) with a symbol ≥ 258. -/
structure LeafOK (t : CTab) (c : Code) : Prop where
  val_lt : c.val < 2 ^ c.len
  len_pos : 1 ≤ c.len
  len_le : c.len ≤ t.maxLen
  parents : ∀ q x, c.word = q ++ x → x ≠ [] → St t q = .needBits
  kind : St t c.word = .okay c.sym ∨
    (258 ≤ c.sym ∧ ∀ x, St t (c.word ++ x) = .needBits ∨ St t (c.word ++ x) = .maxBits)

end Compress.Proofs.BzImpl.TabD
