/-
bzip2 cut: `readSels` is prefix-monotone.
-/
import Compress.Proofs.BzCutCore

namespace Compress.Proofs.BzCut
open Compress Compress.Bzip2

theorem readSels_unary_prefixOK (fuel n : Nat) : PrefixOK (readSels.unary fuel n) := by
  induction fuel generalizing n with
  | zero =>
    refine (liftE_prefixOK (.ok n)).congr ?_
    intro bits
    simp [readSels.unary, liftE, Except.map]
  | succ fuel ih =>
    have hk : ∀ b : Bool, PrefixOK (fun bits =>
        if b = true then readSels.unary fuel (n + 1) bits else liftE (.ok n) bits) :=
      fun b => PrefixOK.ite (fun _ => ih (n + 1)) (fun _ => liftE_prefixOK (.ok n))
    refine (bitP_prefixOK hk).congr ?_
    intro bits
    cases bits with
    | nil => simp [readSels.unary, bitP]
    | cons b rest =>
      cases b <;> simp [readSels.unary, bitP, liftE, Except.map]

theorem readSels_prefixOK (numTrees k : Nat) (acc : List Nat) : PrefixOK (readSels numTrees k acc) := by
  induction k generalizing acc with
  | zero =>
    refine (liftE_prefixOK (.ok acc.reverse)).congr ?_
    intro bits
    simp [readSels, liftE, Except.map]
  | succ k ih =>
    have h2 : ∀ v : Nat, PrefixOK (fun rest =>
        if v ≥ numTrees then (.error .corrupt : Except Verdict (List Nat × Bits))
        else readSels numTrees k (v :: acc) rest) :=
      fun v => PrefixOK.ite (fun _ => prefixOK_error .corrupt) (fun _ => ih (v :: acc))
    refine (PrefixOK.bind (readSels_unary_prefixOK 6 0) (fun _ v _ _ => h2 v)).congr ?_
    intro bits
    rw [readSels]
    cases h : readSels.unary 6 0 bits with
    | error e => rw [bindP_error _ _ _ _ h]
    | ok x =>
      obtain ⟨v, rest⟩ := x
      rw [bindP_ok _ _ _ _ _ h]

end Compress.Proofs.BzCut
