/-
Prefix-monotonicity of the bzip2 specification decoder: the parser vocabulary.
A parser is `PrefixOK` when, whenever it succeeds on an input, it consumed a
prefix `c` of it, reports "unexpected EOF" on every cut inside `c`, and
returns the same value on every cut at or after the end of `c`.
-/
import Compress.Bzip2.Spec

namespace Compress.Proofs.BzCut
open Compress Compress.Bzip2

abbrev Parser (α : Type) := Bits → Except Verdict (α × Bits)

def PrefixOK {α : Type} (R : Parser α) : Prop :=
  ∀ full v rest, R full = .ok (v, rest) →
    ∃ c, full = c ++ rest ∧ ∀ m,
      (m < c.length → R (full.take m) = .error .unexpectedEOF) ∧
      (c.length ≤ m → R (full.take m) = .ok (v, rest.take (m - c.length)))

theorem PrefixOK.suffix {α : Type} {R : Parser α} (h : PrefixOK R) {full : Bits} {v : α} {rest : Bits}
    (hr : R full = .ok (v, rest)) : ∃ c, full = c ++ rest := by
  obtain ⟨c, hc, _⟩ := h full v rest hr
  exact ⟨c, hc⟩

theorem PrefixOK.length_le {α : Type} {R : Parser α} (h : PrefixOK R) {full : Bits} {v : α} {rest : Bits}
    (hr : R full = .ok (v, rest)) : rest.length ≤ full.length := by
  obtain ⟨c, hc⟩ := h.suffix hr
  rw [hc]; simp

/-! ### combinators -/

/-- sequencing, in the shape `do`-notation produces. -/
def bindP {α β : Type} (R1 : Parser α) (R2 : α → Parser β) : Parser β :=
  fun bits => R1 bits >>= fun x => match x with | (v, rest) => R2 v rest

theorem bindP_ok {α β : Type} (R1 : Parser α) (R2 : α → Parser β) (bits : Bits) (v : α) (rest : Bits)
    (h : R1 bits = .ok (v, rest)) : bindP R1 R2 bits = R2 v rest := by
  simp [bindP, h, bind, Except.bind]

theorem bindP_error {α β : Type} (R1 : Parser α) (R2 : α → Parser β) (bits : Bits) (e : Verdict)
    (h : R1 bits = .error e) : bindP R1 R2 bits = .error e := by
  simp [bindP, h, bind, Except.bind]

theorem bindP_eq_ok {α β : Type} (R1 : Parser α) (R2 : α → Parser β) (bits : Bits) (w : β) (rest : Bits)
    (h : bindP R1 R2 bits = .ok (w, rest)) :
    ∃ v r1, R1 bits = .ok (v, r1) ∧ R2 v r1 = .ok (w, rest) := by
  cases h1 : R1 bits with
  | error e => rw [bindP_error _ _ _ _ h1] at h; cases h
  | ok x =>
    obtain ⟨v, r1⟩ := x
    rw [bindP_ok _ _ _ _ _ h1] at h
    exact ⟨v, r1, rfl, h⟩

theorem PrefixOK.bind {α β : Type} {R1 : Parser α} {R2 : α → Parser β} (h1 : PrefixOK R1)
    (h2 : ∀ full v rest, R1 full = .ok (v, rest) → PrefixOK (R2 v)) : PrefixOK (bindP R1 R2) := by
  intro full w rest h
  obtain ⟨v, r1, e1, e2⟩ := bindP_eq_ok _ _ _ _ _ h
  obtain ⟨c1, hc1, p1⟩ := h1 full v r1 e1
  obtain ⟨c2, hc2, p2⟩ := h2 full v r1 e1 r1 w rest e2
  refine ⟨c1 ++ c2, by rw [hc1, hc2, List.append_assoc], fun m => ⟨fun hm => ?_, fun hm => ?_⟩⟩
  · rw [List.length_append] at hm
    by_cases hm1 : m < c1.length
    · exact bindP_error _ _ _ _ ((p1 m).1 hm1)
    · rw [bindP_ok _ _ _ _ _ ((p1 m).2 (by omega))]
      exact (p2 (m - c1.length)).1 (by omega)
  · rw [List.length_append] at hm
    rw [bindP_ok _ _ _ _ _ ((p1 m).2 (by omega)), (p2 (m - c1.length)).2 (by omega)]
    congr 3
    rw [List.length_append]; omega

/-- a parser that reads nothing. -/
def liftE {α : Type} (x : Except Verdict α) : Parser α := fun bits => x.map (·, bits)

theorem liftE_prefixOK {α : Type} (x : Except Verdict α) : PrefixOK (liftE x) := by
  intro full v rest h
  cases x with
  | error e => simp [liftE, Except.map] at h
  | ok a =>
    simp only [liftE, Except.map, Except.ok.injEq, Prod.mk.injEq] at h
    obtain ⟨rfl, rfl⟩ := h
    exact ⟨[], rfl, fun m => ⟨fun hm => by simp at hm, fun _ => by simp [liftE, Except.map]⟩⟩

theorem PrefixOK.ite {α : Type} {c : Prop} [Decidable c] {A B : Parser α}
    (ha : c → PrefixOK A) (hb : ¬ c → PrefixOK B) : PrefixOK (fun bits => if c then A bits else B bits) := by
  by_cases h : c
  · simp only [h, if_true]; exact ha h
  · simp only [h, if_false]; exact hb h

theorem prefixOK_error {α : Type} (e : Verdict) : PrefixOK (fun _ => (.error e : Except Verdict (α × Bits))) := by
  intro full v rest h; cases h

theorem PrefixOK.congr {α : Type} {A B : Parser α} (h : PrefixOK A) (e : ∀ bits, B bits = A bits) :
    PrefixOK B := by
  have : B = A := funext e
  rw [this]; exact h

/-- `n` bits as a number. -/
def beP (n : Nat) : Parser Nat := fun bits => (readBE n bits).elim (.error .unexpectedEOF) .ok

theorem beP_prefixOK (n : Nat) : PrefixOK (beP n) := by
  intro full v rest h
  unfold beP readBE at h
  simp only [] at h
  split at h
  · simp at h
  · rename_i hlen
    simp only [Option.elim, Except.ok.injEq, Prod.mk.injEq] at h
    obtain ⟨hv, hr⟩ := h
    have hn : n ≤ full.length := by
      rw [List.length_take] at hlen; omega
    refine ⟨full.take n, by rw [← hr, List.take_append_drop], fun m => ⟨fun hm => ?_, fun hm => ?_⟩⟩
    · rw [List.length_take, Nat.min_eq_left hn] at hm
      unfold beP readBE
      simp only []
      rw [if_pos (by simp only [List.length_take]; omega)]
      rfl
    · rw [List.length_take, Nat.min_eq_left hn] at hm ⊢
      unfold beP readBE
      simp only []
      rw [if_neg (by simp only [List.length_take]; omega)]
      simp only [Option.elim, Except.ok.injEq, Prod.mk.injEq]
      refine ⟨?_, ?_⟩
      · rw [← hv, List.take_take, Nat.min_eq_left hm]
      · rw [← hr, List.drop_take]

/-- read one bit and continue. -/
def bitP {α : Type} (k : Bool → Parser α) : Parser α := fun bits =>
  match bits with
  | [] => .error .unexpectedEOF
  | b :: rest => k b rest

theorem bitP_prefixOK {α : Type} {k : Bool → Parser α} (h : ∀ b, PrefixOK (k b)) : PrefixOK (bitP k) := by
  intro full v rest hr
  cases full with
  | nil => simp [bitP] at hr
  | cons b tl =>
    simp only [bitP] at hr
    obtain ⟨c, hc, p⟩ := h b tl v rest hr
    refine ⟨b :: c, by rw [hc]; rfl, fun m => ⟨fun hm => ?_, fun hm => ?_⟩⟩
    · cases m with
      | zero => simp [bitP]
      | succ m =>
        simp only [List.take_succ_cons, bitP]
        exact (p m).1 (by simpa using hm)
    · cases m with
      | zero => simp at hm
      | succ m =>
        simp only [List.take_succ_cons, bitP, List.length_cons]
        rw [(p m).2 (by simpa using hm)]
        congr 3
        omega

/-! ### symbol decoding as a parser -/

/-- `CTab.decode` with the verdicts `readSyms` assigns. -/
def symE (t : CTab) (numSyms : Nat) : Parser Nat := fun bits =>
  match t.decode numSyms bits with
  | .eof => .error .unexpectedEOF
  | .bad => .error .corrupt
  | .sym s rest => .ok (s, rest)

/-- a table built from a non-empty vector of lengths 1..20 (what `readTables` produces). -/
def GoodTab (t : CTab) : Prop :=
  ∃ lens : List Nat, t = mkCTab lens ∧ lens ≠ [] ∧ ∀ l ∈ lens, 1 ≤ l ∧ l ≤ maxPrefixBits

/-- every successful symbol decode consumes at least one bit. -/
def Consumes (t : CTab) : Prop :=
  ∀ numSyms bits s rest, symE t numSyms bits = .ok (s, rest) → rest.length < bits.length

/-- the symbol map as a parser. -/
def symMapP : Parser (List UInt8) := fun bits => (readSymMap bits).elim (.error .unexpectedEOF) .ok

/-- the symbol loop of `readBlock` (its fuel depends on the input length). -/
def symsP (tabs : List CTab) (sels : List Nat) (numSyms limit : Nat) : Parser (List Nat) :=
  fun b8 => readSyms tabs.toArray sels.toArray numSyms limit (b8.length + 2) 0 0 0 [] b8

end Compress.Proofs.BzCut
