/-
bzip2 cut: no reader ever fails with the verdict `.ok`.
-/
import Compress.Proofs.BzCutCore

namespace Compress.Proofs.BzCut
open Compress Compress.Bzip2

/-- the parser never returns `.error .ok`. -/
def NoOk {α : Type} (R : Parser α) : Prop := ∀ bits, R bits ≠ .error .ok

theorem NoOk.bind {α β : Type} {R1 : Parser α} {R2 : α → Parser β} (h1 : NoOk R1)
    (h2 : ∀ v, NoOk (R2 v)) : NoOk (bindP R1 R2) := by
  intro bits
  cases h : R1 bits with
  | error e =>
    rw [bindP_error _ _ _ _ h]
    intro h'; cases h'; exact h1 bits h
  | ok x =>
    obtain ⟨v, r⟩ := x
    rw [bindP_ok _ _ _ _ _ h]
    exact h2 v r

theorem beP_noOk (n : Nat) : NoOk (beP n) := by
  intro bits
  unfold beP
  cases readBE n bits <;> simp [Option.elim]

theorem liftE_noOk {α : Type} (x : Except Verdict α) (h : x ≠ .error .ok) : NoOk (liftE x) := by
  intro bits
  cases x with
  | error e =>
    simp only [liftE, Except.map]
    intro h'; cases h'; exact h rfl
  | ok a => simp [liftE, Except.map]

theorem NoOk.ite {α : Type} {c : Prop} [Decidable c] {A B : Parser α}
    (ha : c → NoOk A) (hb : ¬ c → NoOk B) : NoOk (fun bits => if c then A bits else B bits) := by
  by_cases h : c
  · simp only [h, if_true]; exact ha h
  · simp only [h, if_false]; exact hb h

theorem noOk_error {α : Type} (e : Verdict) (h : e ≠ .ok) :
    NoOk (fun _ => (.error e : Except Verdict (α × Bits))) := by
  intro bits h'; cases h'; exact h rfl

theorem symMapP_noOk : NoOk symMapP := by
  intro bits
  unfold symMapP
  cases readSymMap bits <;> simp [Option.elim]

theorem symE_noOk (t : CTab) (numSyms : Nat) : NoOk (symE t numSyms) := by
  intro bits
  unfold symE
  cases t.decode numSyms bits <;> simp

theorem unary_noOk (fuel n : Nat) (bits : Bits) : readSels.unary fuel n bits ≠ .error .ok := by
  induction fuel generalizing n bits with
  | zero => simp [readSels.unary]
  | succ f ih =>
    cases bits with
    | nil => simp [readSels.unary]
    | cons b r =>
      cases b
      · simp [readSels.unary]
      · simp only [readSels.unary]; exact ih _ _

theorem readSels_noOk (numTrees k : Nat) (acc : List Nat) : NoOk (readSels numTrees k acc) := by
  induction k generalizing acc with
  | zero => intro bits; simp [readSels]
  | succ k ih =>
    intro bits
    simp only [readSels]
    cases h : readSels.unary 6 0 bits with
    | error e =>
      simp only
      intro h'; cases h'; exact unary_noOk _ _ _ h
    | ok x =>
      obtain ⟨v, r⟩ := x
      simp only
      split
      · simp
      · exact ih _ _

theorem readLens_noOk (fuel n clen : Nat) (acc : List Nat) : NoOk (readLens fuel n clen acc) := by
  induction fuel generalizing n clen acc with
  | zero => intro bits; simp [readLens]
  | succ f ih =>
    intro bits
    cases n with
    | zero => simp [readLens]
    | succ n =>
      simp only [readLens]
      split
      · simp
      · split
        · simp
        · exact ih _ _ _ _
        · split
          · simp
          · exact ih _ _ _ _
          · exact ih _ _ _ _

theorem readTables_noOk (k numSyms : Nat) (acc : List CTab) : NoOk (readTables k numSyms acc) := by
  induction k generalizing acc with
  | zero => intro bits; simp [readTables]
  | succ k ih =>
    intro bits
    simp only [readTables]
    cases h : readBE 5 bits with
    | none => simp
    | some x =>
      obtain ⟨clen, rest⟩ := x
      simp only
      cases h2 : readLens (numSyms * 64 + 64) numSyms clen [] rest with
      | error e =>
        simp only
        intro h'; cases h'; exact readLens_noOk _ _ _ _ _ h2
      | ok y =>
        obtain ⟨lens, r'⟩ := y
        exact ih _ _

theorem readSyms_noOk (tabs : Array CTab) (sels : Array Nat) (numSyms limit fuel blkLen selIdx cnt : Nat)
    (acc : List Nat) : NoOk (readSyms tabs sels numSyms limit fuel blkLen selIdx cnt acc) := by
  induction fuel generalizing blkLen selIdx cnt acc with
  | zero => intro bits; simp [readSyms]
  | succ f ih =>
    intro bits
    simp only [readSyms]
    split
    · rename_i e he
      split at he
      · split at he
        · cases he; simp
        · cases he
      · cases he
    · split
      · simp
      · simp
      · split
        · simp
        · split
          · simp
          · exact ih _ _ _ _ _

theorem symsP_noOk (tabs : List CTab) (sels : List Nat) (numSyms limit : Nat) :
    NoOk (symsP tabs sels numSyms limit) := by
  intro bits
  exact readSyms_noOk _ _ _ _ _ _ _ _ _ _

end Compress.Proofs.BzCut
