/-
bzip2 round trip, bit level: `bitsBE`/`readBE`, MSB-first numbers, byte packing
and padding.
-/
import Compress.Bzip2.Writer
import Compress.Proofs.PrefixCodesAux

namespace Compress.Proofs.BzRT
open Compress Compress.Bzip2 Compress.Prefix
open Compress.Proofs.PrefixCodes (length_ofNat toNat_ofNat toNat_lt ofNat_toNat)

/-! ### MSB-first numbers -/

theorem foldl_msb (bs : Bits) (a : Nat) :
    bs.foldl (fun acc b => 2 * acc + (if b then 1 else 0)) a = a * 2 ^ bs.length + Bits.toNatMSB bs := by
  induction bs generalizing a with
  | nil => simp [Bits.toNatMSB]
  | cons b bs ih =>
    simp only [List.foldl_cons, Bits.toNatMSB, List.length_cons]
    rw [ih, ih (2 * 0 + _), Nat.pow_succ]
    simp only [Bits.toNatMSB]
    rw [Nat.add_mul, Nat.add_mul]
    have : 2 * a * 2 ^ bs.length = a * (2 ^ bs.length * 2) := by
      rw [Nat.mul_comm 2 a, Nat.mul_assoc, Nat.mul_comm 2]
    omega

theorem toNatMSB_nil : Bits.toNatMSB [] = 0 := rfl

theorem toNatMSB_cons (b : Bool) (bs : Bits) :
    Bits.toNatMSB (b :: bs) = (if b then 1 else 0) * 2 ^ bs.length + Bits.toNatMSB bs := by
  have := foldl_msb bs (2 * 0 + (if b then 1 else 0))
  simp only [Bits.toNatMSB, List.foldl_cons] at this ⊢
  rw [this]; simp

theorem toNatMSB_append (a b : Bits) :
    Bits.toNatMSB (a ++ b) = Bits.toNatMSB a * 2 ^ b.length + Bits.toNatMSB b := by
  have := foldl_msb b (Bits.toNatMSB a)
  simp only [Bits.toNatMSB, List.foldl_append] at this ⊢
  exact this

theorem toNatMSB_lt (bs : Bits) : Bits.toNatMSB bs < 2 ^ bs.length := by
  induction bs with
  | nil => simp [Bits.toNatMSB]
  | cons b bs ih =>
    rw [toNatMSB_cons, List.length_cons, Nat.pow_succ]
    cases b <;> simp <;> omega

theorem toNatMSB_reverse (bs : Bits) : Bits.toNatMSB bs.reverse = Bits.toNat bs := by
  induction bs with
  | nil => rfl
  | cons b bs ih =>
    rw [List.reverse_cons, toNatMSB_append, ih, Bits.toNat]
    simp [Bits.toNatMSB]
    omega

theorem bitsBE_length (v n : Nat) : (bitsBE v n).length = n := by
  simp [bitsBE, length_ofNat]

theorem toNatMSB_bitsBE (v n : Nat) : Bits.toNatMSB (bitsBE v n) = v % 2 ^ n := by
  rw [bitsBE, toNatMSB_reverse, toNat_ofNat]

/-- MSB-first bit `i` of an `n`-bit list. -/
theorem toNatMSB_bit (bs : Bits) (i : Nat) (hi : i < bs.length) :
    (Bits.toNatMSB bs / 2 ^ (bs.length - 1 - i)) % 2 = if bs.getD i false then 1 else 0 := by
  induction bs generalizing i with
  | nil => simp at hi
  | cons b bs ih =>
    rw [toNatMSB_cons]
    cases i with
    | zero =>
      simp only [List.length_cons, Nat.add_sub_cancel, Nat.sub_zero, List.getD_cons_zero]
      have := toNatMSB_lt bs
      rw [Nat.add_comm, Nat.add_mul_div_right _ _ (Nat.two_pow_pos _), Nat.div_eq_of_lt this]
      cases b <;> simp
    | succ i =>
      have hi' : i < bs.length := by simpa using hi
      have e : (b :: bs).length - 1 - (i + 1) = bs.length - 1 - i := by simp; omega
      rw [e, List.getD_cons_succ, ← ih i hi']
      obtain ⟨d, hd⟩ : ∃ d, bs.length = (bs.length - 1 - i) + d + 1 := ⟨i, by omega⟩
      generalize bs.length - 1 - i = k at hd ⊢
      have e2 : (if b then 1 else 0) * 2 ^ bs.length = 2 ^ k * (2 * ((if b then 1 else 0) * 2 ^ d)) := by
        rw [hd, Nat.add_assoc, Nat.pow_add, Nat.pow_succ]
        ac_rfl
      rw [e2, Nat.mul_add_div (Nat.two_pow_pos _), Nat.mul_add_mod]

/-! ### `readBE` -/

theorem readBE_append (bs rest : Bits) :
    readBE bs.length (bs ++ rest) = some (Bits.toNatMSB bs, rest) := by
  simp [readBE]

theorem readBE_bitsBE (v n : Nat) (h : v < 2 ^ n) (rest : Bits) :
    readBE n (bitsBE v n ++ rest) = some (v, rest) := by
  have := readBE_append (bitsBE v n) rest
  rw [bitsBE_length, toNatMSB_bitsBE, Nat.mod_eq_of_lt h] at this
  exact this

/-! ### byte packing -/

theorem ofBytesMSB_append (a b : List UInt8) :
    Bits.ofBytesMSB (a ++ b) = Bits.ofBytesMSB a ++ Bits.ofBytesMSB b := by
  induction a with
  | nil => rfl
  | cons x a ih => simp [Bits.ofBytesMSB, ih]

theorem ofBytesMSB_length (a : List UInt8) : (Bits.ofBytesMSB a).length = 8 * a.length := by
  induction a with
  | nil => rfl
  | cons x a ih => simp [Bits.ofBytesMSB, Bits.ofByteMSB, length_ofNat, ih]; omega

theorem ofByteMSB_ofNat (bs : Bits) (h : bs.length = 8) :
    Bits.ofByteMSB (UInt8.ofNat (Bits.toNatMSB bs)) = bs := by
  have hlt := toNatMSB_lt bs
  rw [h] at hlt
  have e : (UInt8.ofNat (Bits.toNatMSB bs)).toNat = Bits.toNatMSB bs := by
    simp [UInt8.toNat_ofNat']
    omega
  rw [Bits.ofByteMSB, e]
  have h2 := ofNat_toNat bs.reverse
  rw [← toNatMSB_reverse, List.reverse_reverse, List.length_reverse, h] at h2
  rw [h2, List.reverse_reverse]

/-- state of the packing loop: `acc` is the value of the first `k` bits `pre` of
    the current byte, left-aligned. -/
theorem toBytesAux_spec (bs pre : Bits) (hk : pre.length < 8) :
    ∃ pad, pad < 8 ∧ (pre.length + bs.length + pad) % 8 = 0 ∧
      (pre = [] → bs = [] → pad = 0) ∧
      Bits.ofBytesMSB (Bits.toBytesAux (fun k => 2 ^ (7 - k)) bs
        (Bits.toNatMSB pre * 2 ^ (8 - pre.length)) pre.length)
        = pre ++ bs ++ List.replicate pad false := by
  induction bs generalizing pre with
  | nil =>
    by_cases h0 : pre.length = 0
    · have : pre = [] := List.length_eq_zero_iff.1 h0
      subst this
      exact ⟨0, by omega, by simp, fun _ _ => rfl, by simp [Bits.toBytesAux, Bits.ofBytesMSB]⟩
    · refine ⟨8 - pre.length, by omega, by simp; omega, fun h => by simp [h] at h0, ?_⟩
      simp only [Bits.toBytesAux, if_neg h0, Bits.ofBytesMSB, List.append_nil]
      have h1 := ofByteMSB_ofNat (pre ++ List.replicate (8 - pre.length) false) (by simp; omega)
      rw [toNatMSB_append] at h1
      have hz : Bits.toNatMSB (List.replicate (8 - pre.length) false) = 0 := by
        generalize 8 - pre.length = m
        induction m with
        | zero => rfl
        | succ m ih => rw [List.replicate_succ, toNatMSB_cons, ih]; simp
      rw [hz, List.length_replicate, Nat.add_zero] at h1
      exact h1
  | cons b bs ih =>
    have hstep : Bits.toNatMSB pre * 2 ^ (8 - pre.length) + (if b then 2 ^ (7 - pre.length) else 0)
        = Bits.toNatMSB (pre ++ [b]) * 2 ^ (8 - (pre.length + 1)) := by
      rw [toNatMSB_append]
      have e : 8 - pre.length = (8 - (pre.length + 1)) + 1 := by omega
      have e7 : 7 - pre.length = 8 - (pre.length + 1) := by omega
      rw [e, e7, Nat.pow_succ, Nat.add_mul]
      simp only [List.length_cons, List.length_nil, Nat.zero_add, Nat.pow_one]
      cases b <;> simp [Bits.toNatMSB] <;> rw [Nat.mul_assoc, Nat.mul_comm 2]
    simp only [Bits.toBytesAux]
    rw [hstep]
    by_cases h7 : pre.length = 7
    · rw [if_pos h7]
      obtain ⟨pad, p1, p2, p3, p4⟩ := ih [] (by simp)
      simp only [Bits.toNatMSB, List.foldl_nil, List.length_nil, Nat.zero_mul, List.nil_append] at p4
      refine ⟨pad, p1, by simp at p2 ⊢; omega, fun h => by simp [h] at h7, ?_⟩
      rw [Bits.ofBytesMSB, p4]
      have e8 : 8 - (pre.length + 1) = 0 := by omega
      rw [e8, Nat.pow_zero, Nat.mul_one, ofByteMSB_ofNat _ (by simp; omega)]
      simp
    · rw [if_neg h7]
      obtain ⟨pad, p1, p2, p3, p4⟩ := ih (pre ++ [b]) (by simp; omega)
      refine ⟨pad, p1, by simp at p2 ⊢; omega, fun _ h => (by cases h), ?_⟩
      simp only [List.length_append, List.length_cons, List.length_nil, Nat.zero_add] at p4
      rw [p4]
      simp

/-- packing MSB-first and unpacking gives the bits back, zero-padded to a byte boundary. -/
theorem ofBytesMSB_toBytesMSB (bs : Bits) :
    ∃ pad, pad < 8 ∧ (bs.length + pad) % 8 = 0 ∧
      Bits.ofBytesMSB (Bits.toBytesMSB bs) = bs ++ List.replicate pad false := by
  obtain ⟨pad, p1, p2, _, p4⟩ := toBytesAux_spec bs [] (by simp)
  refine ⟨pad, p1, by simpa using p2, ?_⟩
  simpa [Bits.toBytesMSB, Bits.toNatMSB] using p4

end Compress.Proofs.BzRT
