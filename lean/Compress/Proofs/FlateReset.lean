/-
flate.Reader after Reset: the refinement theorem for a reader whose window buffer was
left behind by an earlier stream (`Impl.init bits prevCap` with any `prevCap`).  The
invariant `J` of the refinement proof holds initially for every previous capacity, so
the whole simulation goes through unchanged.
-/
import Compress.Proofs.FlateRefine

namespace Compress.Proofs.FlateRefine
open Compress Compress.Flate Compress.Flate.Impl Compress.Window Compress.Proofs.Window

/-- the state after `Reset` satisfies the invariant, whatever capacity was retained. -/
theorem J_init_cap (bits : Bits) (prevCap : Nat) :
    J bits.length (decodeBits bits) (Impl.init bits prevCap) [] := by
  refine ⟨#[], ?_, ?_, ?_, ?_⟩
  · exact Inv.init 32768 prevCap (by omega)
  · intro _; right
    show 0 < (Dict.init 32768 prevCap).availSize
    by_cases hp : prevCap = 0
    · simp [Dict.init, Dict.availSize, initSize, hp]
    · simp [Dict.init, Dict.availSize, hp]; omega
  · refine ⟨rfl, Nat.le_refl _, ?_, ?_, ?_, ?_⟩
    · intro e he; cases he
    · intro _ _; exact ⟨rfl, bits.length + 1, Nat.le_refl _, rfl⟩
    · intro _ h; cases h
    · intro _ h; cases h
  · intro h; exact absurd rfl h

/-- refinement from a reset state. -/
theorem impl_refines_spec_cap (bytes : List UInt8) (prevCap : Nat) (sched : List Nat)
    (hs : ∀ n, sched.getLast? = some n → 0 < n) :
    let bits := Bits.ofBytes bytes
    let r := Impl.run (runFuel bits sched) (Impl.init bits prevCap) sched
    let spec := Flate.decodeBits bits
    r.1 = spec.out.toList ∧ r.2.1 = some (errOf spec.verdict) ∧
    (∀ n, spec.verdict = .ok n → r.2.2.total - r.2.2.bits.length = n) := by
  intro bits r spec
  have h8 : bits.length % 8 = 0 := by
    show (Bits.ofBytes bytes).length % 8 = 0
    rw [Compress.Proofs.Meta.length_ofBytes]; omega
  have S := stepSys (headerEquiv treeEquiv) fixedEquiv bits.length (Flate.decodeBits bits) h8
  have hsz := decodeBits_size bits
  obtain ⟨s', hrun, hJ, herr, _⟩ := run_correct _ _ _ S (Impl.init bits prevCap) (J_init_cap bits prevCap) sched hs
    (runFuel bits sched) (by unfold runFuel; simp only [Array.length_toList]; omega)
  show (Impl.run (runFuel bits sched) (Impl.init bits prevCap) sched).1 = _ ∧
    (Impl.run (runFuel bits sched) (Impl.init bits prevCap) sched).2.1 = _ ∧
    ∀ n, _ → (Impl.run (runFuel bits sched) (Impl.init bits prevCap) sched).2.2.total -
      (Impl.run (runFuel bits sched) (Impl.init bits prevCap) sched).2.2.bits.length = n
  rw [hrun, errOf_eq_verr]
  refine ⟨rfl, rfl, ?_⟩
  obtain ⟨out, _, _, Rl, _⟩ := hJ
  intro n hn
  rw [Rl.tot]
  exact (Rl.err _ herr).2.2 n hn

/-- **Reset = fresh (flate.Reader model).** A reader reset onto a new stream behaves, for every
    Read schedule, exactly like a newly constructed one: same bytes, same final error. -/
theorem reset_eq_fresh (bytes : List UInt8) (prevCap : Nat) (s1 s2 : List Nat)
    (h1 : ∀ n, s1.getLast? = some n → 0 < n) (h2 : ∀ n, s2.getLast? = some n → 0 < n) :
    let bits := Bits.ofBytes bytes
    (Impl.run (runFuel bits s1) (Impl.init bits prevCap) s1).1 = (Impl.run (runFuel bits s2) (Impl.init bits) s2).1 ∧
    (Impl.run (runFuel bits s1) (Impl.init bits prevCap) s1).2.1 = (Impl.run (runFuel bits s2) (Impl.init bits) s2).2.1 := by
  intro bits
  have a := impl_refines_spec_cap bytes prevCap s1 h1
  have b := impl_refines_spec bytes s2 h2
  simp only at a b
  exact ⟨a.1.trans b.1.symm, a.2.1.trans b.2.1.symm⟩

/-- the state `Reset` produces from ANY earlier state (half-read stream, failed stream, stale
    window contents, any capacity) satisfies the invariant of the refinement proof. -/
theorem J_reset (s0 : FState) (bits : Bits) :
    J bits.length (decodeBits bits) (Impl.reset s0 bits) [] := by
  refine ⟨#[], ?_, ?_, ?_, ?_⟩
  · exact Inv.initOver 32768 s0.dict.cap s0.dict.hist (by omega)
  · intro _; right
    show 0 < (Dict.initOver 32768 s0.dict.cap s0.dict.hist).availSize
    by_cases hp : s0.dict.cap = 0
    · simp [Dict.initOver, Dict.availSize, initSize, hp]
    · simp [Dict.initOver, Dict.availSize, hp]; omega
  · refine ⟨rfl, Nat.le_refl _, ?_, ?_, ?_, ?_⟩
    · intro e he; cases he
    · intro _ _; exact ⟨rfl, bits.length + 1, Nat.le_refl _, rfl⟩
    · intro _ h; cases h
    · intro _ h; cases h
  · intro h; exact absurd rfl h

/-- **Reset makes a used flate.Reader indistinguishable from a new one (model).** Whatever state
    `s0` the reader was in - any step, pending output, latched error, counters, window capacity and
    window contents - after `Reset` onto `bytes` it delivers, for every Read schedule, exactly the
    specification's output for `bytes` and ends with the matching error, having consumed exactly
    the stream: nothing of the earlier stream shows. -/
theorem reset_refines_spec (s0 : FState) (bytes : List UInt8) (sched : List Nat)
    (hs : ∀ n, sched.getLast? = some n → 0 < n) :
    let bits := Bits.ofBytes bytes
    let r := Impl.run (runFuel bits sched) (Impl.reset s0 bits) sched
    let spec := Flate.decodeBits bits
    r.1 = spec.out.toList ∧ r.2.1 = some (errOf spec.verdict) ∧
    (∀ n, spec.verdict = .ok n → r.2.2.total - r.2.2.bits.length = n) := by
  intro bits r spec
  have h8 : bits.length % 8 = 0 := by
    show (Bits.ofBytes bytes).length % 8 = 0
    rw [Compress.Proofs.Meta.length_ofBytes]; omega
  have S := stepSys (headerEquiv treeEquiv) fixedEquiv bits.length (Flate.decodeBits bits) h8
  have hsz := decodeBits_size bits
  obtain ⟨s', hrun, hJ, herr, _⟩ := run_correct _ _ _ S (Impl.reset s0 bits) (J_reset s0 bits) sched hs
    (runFuel bits sched) (by unfold runFuel; simp only [Array.length_toList]; omega)
  show (Impl.run (runFuel bits sched) (Impl.reset s0 bits) sched).1 = _ ∧
    (Impl.run (runFuel bits sched) (Impl.reset s0 bits) sched).2.1 = _ ∧
    ∀ n, _ → (Impl.run (runFuel bits sched) (Impl.reset s0 bits) sched).2.2.total -
      (Impl.run (runFuel bits sched) (Impl.reset s0 bits) sched).2.2.bits.length = n
  rw [hrun, errOf_eq_verr]
  refine ⟨rfl, rfl, ?_⟩
  obtain ⟨out, _, _, Rl, _⟩ := hJ
  intro n hn
  rw [Rl.tot]
  exact (Rl.err _ herr).2.2 n hn

/-- corollary: same bytes and same final error as a newly constructed reader. -/
theorem reset_state_eq_fresh (s0 : FState) (bytes : List UInt8) (s1 s2 : List Nat)
    (h1 : ∀ n, s1.getLast? = some n → 0 < n) (h2 : ∀ n, s2.getLast? = some n → 0 < n) :
    let bits := Bits.ofBytes bytes
    (Impl.run (runFuel bits s1) (Impl.reset s0 bits) s1).1 = (Impl.run (runFuel bits s2) (Impl.init bits) s2).1 ∧
    (Impl.run (runFuel bits s1) (Impl.reset s0 bits) s1).2.1 = (Impl.run (runFuel bits s2) (Impl.init bits) s2).2.1 := by
  intro bits
  have a := reset_refines_spec s0 bytes s1 h1
  have b := impl_refines_spec bytes s2 h2
  simp only at a b
  exact ⟨a.1.trans b.1.symm, a.2.1.trans b.2.1.symm⟩

end Compress.Proofs.FlateRefine
