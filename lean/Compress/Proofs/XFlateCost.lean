/-
C17 — which parts of the compressed stream `xflate.Reader` touches.
Statements first (they are re-exported unchanged by `Compress.Props.C17`);
helper lemmas may be added above them or in `Compress/Proofs/XCost*.lean`.
-/
import Compress.XFlate.Cost
import Compress.XFlate.Open
import Compress.Proofs.XFlateReader
import Compress.Proofs.XCostSeek
import Compress.Proofs.XCostRead
import Compress.Proofs.XCostOpen

namespace Compress.Proofs.XFlateCost
open Compress.XFlate
open Compress.Proofs.XRIndex Compress.Proofs.XRSeek Compress.Proofs.XRRead
open Compress.Proofs.XCostSeek Compress.Proofs.XCostRead Compress.Proofs.XCostOpen

/-! ### the cost-instrumented functions are the validated model -/

theorem seekC_proj (v : Variant) (L : Layout) (s : RState) (off : Int) (wh : Nat) :
    (seekC v L s off wh).1 = seek v L s off wh :=
  seekC_fst v L s off wh

/-- when `seekC` reports no opened segment on a successful seek, the inflater really is untouched -/
theorem seekC_untouched (v : Variant) (L : Layout) (s : RState) (off : Int) (wh : Nat)
    (h : (seekC v L s off wh).2 = []) (hok : (seek v L s off wh).2.2 = none) :
    (seek v L s off wh).1.seg = s.seg ∧ (seek v L s off wh).1.zout = s.zout ∧
    (seek v L s off wh).1.chk = s.chk ∧ (seek v L s off wh).1.ri = s.ri := by
  rcases seekC_cases v L s off wh with ⟨hne, _⟩ | ⟨pos, _, heq, _⟩ | ⟨_, _, h3⟩
  · exact absurd hok hne
  · rw [heq]; exact ⟨rfl, rfl, rfl, rfl⟩
  · rw [h3] at h; cases h

/-- … and when it reports one, it is the segment the reader is now positioned on, at its start -/
theorem seekC_opened (v : Variant) (L : Layout) (s : RState) (off : Int) (wh : Nat) (j : Nat)
    (h : j ∈ (seekC v L s off wh).2) :
    (seekC v L s off wh).2 = [j] ∧ (seek v L s off wh).1.seg = j ∧ (seek v L s off wh).1.zout = 0 := by
  rcases seekC_cases v L s off wh with ⟨_, h0⟩ | ⟨pos, _, _, h0⟩ | ⟨_, hz, h3⟩
  · rw [h0] at h; cases h
  · rw [h0] at h; cases h
  · rw [h3] at h
    have hj : j = (seek v L s off wh).1.seg := List.mem_singleton.1 h
    rw [h3, hj]
    exact ⟨rfl, rfl, hz⟩

theorem readLoopC_proj (v : Variant) (L : Layout) (n fuel : Nat) (s : RState) (adv : Adv) (o : List Nat) :
    (readLoopC v L n fuel s adv o).map (·.1) = readLoop v L n fuel s adv :=
  readLoopC_fst v L n fuel s adv o

theorem readC_proj (v : Variant) (L : Layout) (s : RState) (n : Nat) (adv : Adv) (fuel : Nat) :
    (readC v L s n adv fuel).map (·.1) = read v L s n adv fuel := by
  unfold readC Compress.XFlate.read
  by_cases h1 : s.err ≠ none
  · rw [if_pos h1, if_pos h1]; rfl
  · rw [if_neg h1, if_neg h1]
    by_cases h2 : v = .fixed ∧ n = 0
    · rw [if_pos h2, if_pos h2]; rfl
    · rw [if_neg h2, if_neg h2]
      simp only []
      by_cases h3 : (discardStep L s).err ≠ none
      · rw [if_pos h3, if_pos h3]; rfl
      · rw [if_neg h3, if_neg h3, ← readLoopC_fst v L n fuel (discardStep L s) adv []]
        cases readLoopC v L n fuel (discardStep L s) adv [] with
        | none => rfl
        | some r =>
          obtain ⟨⟨s2, data⟩, opens⟩ := r
          rfl

/-! ### ownership -/

/-- segment `j` holds position `p` (half-open; zero-length segments hold their own start;
    the tail segment past the footer holds everything from the end on). -/
def Owns (L : Layout) (j : Nat) (p : Int) : Prop :=
  j ≤ L.recs.length ∧ segLo L j ≤ p ∧ (p < segHi L j ∨ p = segLo L j ∨ j = L.recs.length)

/-- **Seek.** A successful `Seek` to `p` opens at most one segment, and that segment holds `p`:
    nothing before the start of the chunk holding `p` is touched, wherever the cursor was and
    however much data precedes `p`. -/
theorem seek_opens_owner (L : Layout) (plain : List UInt8) (wf : WellFormed L plain)
    (s : RState) (inv : Inv L s) (off : Int) (wh : Nat) :
    (seekC .fixed L s off wh).2.length ≤ 1 ∧
    ∀ j ∈ (seekC .fixed L s off wh).2, Owns L j (seek .fixed L s off wh).2.1 := by
  have herr : s.err = none ∨ s.err = some .eof := by
    rcases inv.errOK with h | h
    · exact Or.inl h
    · exact Or.inr h.1
  rw [seekC_eq L s off wh herr, seek_eq L s off wh herr]
  cases hsp : specSeek L.endRaw s.offset off wh with
  | none =>
    refine ⟨by simp, ?_⟩
    intro j hj; cases hj
  | some pos =>
    have hpos : 0 ≤ pos := Compress.Proofs.XFlateReader.specSeek_nonneg hsp
    simp only []
    unfold seekToC
    by_cases hf : fastCond s pos
    · rw [if_pos hf]
      refine ⟨by simp, ?_⟩
      intro j hj; cases hj
    · rw [if_neg hf]
      refine ⟨by simp, ?_⟩
      intro j hj
      have hri : s.ri ≤ L.recs.length := by rw [inv.riEq]; omega
      obtain ⟨a, b, c⟩ := pickRi_owns wf s hri pos hpos
      have hj : j = pickRi L s pos := by
        have : j = min (pickRi L s pos) L.recs.length := List.mem_singleton.1 hj
        omega
      rw [(seekTo_pos L s pos).1, hj]
      exact ⟨a, b, c⟩

/-- the tail segment past the footer has no compressed bytes: opening it fetches nothing. -/
theorem segCsize_tail (L : Layout) : segCsize L L.recs.length = 0 := by
  have := (seg_tail L).2.2.2
  unfold segCsize
  omega

theorem discardStep_seg (L : Layout) (s : RState) : (discardStep L s).seg = s.seg := by
  unfold discardStep
  split
  · simp only []
    split
    · rfl
    · split <;> rfl
  · rfl

-- STATEMENT ADJUSTED: the original conclusion `∀ j ∈ opens, s.seg < j ∧ j ≤ L.recs.length ∧
--   s.offset ≤ segLo L j ∧ segLo L j ≤ s.offset + data.length` is false when the reader already
-- sits on the empty tail segment past the footer (`s.seg = L.recs.length`, `s.err = none`, which
-- is the state after any successful `Seek` to a position `≥` the end).  There the inflater
-- reports EOF at once and `Read` re-runs the slow path of `Seek(xr.offset)`, which lands on the
-- tail segment again.  Counterexample with `Compress.Regress.C07.L` (one 10-byte chunk, footer;
-- 2 records) and `s := (seek .fixed L (opened .fixed L) 15 0).1` (so `s.seg = 2`, `s.offset = 15`,
-- `s.err = none`, `Inv L s`): `readC .fixed L s 1 [] (readFuel L) = some ((_, [], some .eof), [2])`,
-- so `j = 2 = s.seg` (violates `s.seg < j`) and `segLo L 2 = 10 < 15 = s.offset` (violates
-- `s.offset ≤ segLo L j`); with `Seek(10)` instead only `s.seg < j` fails.
-- Smallest repair: a second disjunct for exactly that case (`s.seg = j = L.recs.length`).  The
-- re-opened tail segment has `segCsize L j = 0` (`segCsize_tail`), so nothing is fetched for it,
-- and `opens` is still strictly increasing.
/-- **Read.** A `Read` at position `p` that delivers `k` bytes opens only segments after the
    current one, in increasing order (so each at most once), and each of them starts inside
    `[p, p + k]`: nothing beyond the chunk holding `p + k` is touched.  (Only exception: a reader
    already sitting on the empty tail segment past the footer re-opens that segment, which has
    no compressed bytes.) -/
theorem read_opens_between (L : Layout) (plain : List UInt8) (wf : WellFormed L plain)
    (s : RState) (inv : Inv L s) (herr : s.err = none) (n : Nat) (adv : Adv)
    (s' : RState) (data : List UInt8) (e : Option Err) (opens : List Nat)
    (h : readC .fixed L s n adv (readFuel L) = some ((s', data, e), opens)) :
    opens.Pairwise (· < ·) ∧
    ∀ j ∈ opens, j ≤ L.recs.length ∧
      ((s.seg < j ∧ s.offset ≤ segLo L j ∧ segLo L j ≤ s.offset + data.length) ∨
       (s.seg = L.recs.length ∧ j = L.recs.length)) := by
  unfold readC at h
  rw [if_neg (by rw [herr]; simp)] at h
  by_cases hn : n = 0
  · rw [if_pos ⟨rfl, hn⟩] at h
    have h' := Option.some.inj h
    have ho : opens = [] := (congrArg Prod.snd h').symm
    subst ho
    exact ⟨List.Pairwise.nil, by intro j hj; cases hj⟩
  · rw [if_neg (by intro hc; exact hn hc.2)] at h
    obtain ⟨inv1, herr1, hd1, hoff1⟩ := discard_ok wf s inv
    rw [herr] at herr1
    simp only [] at h
    rw [if_neg (by rw [herr1]; simp)] at h
    cases hrl : readLoopC .fixed L n (readFuel L) (discardStep L s) adv [] with
    | none => rw [hrl] at h; cases h
    | some r =>
      rw [hrl] at h
      obtain ⟨⟨s2, d2⟩, o2⟩ := r
      simp only [] at h
      have h' := Option.some.inj h
      have ho : o2 = opens := congrArg Prod.snd h'
      have hdat : d2 = data := congrArg (fun x => x.1.2.1) h'
      obtain ⟨ex, h1, h2, h3⟩ :=
        readLoopC_opens wf n (by omega) (readFuel L) (discardStep L s) adv [] _ inv1 herr1 hd1 hrl
      simp only [List.nil_append] at h1
      subst ho hdat h1
      refine ⟨h2, ?_⟩
      intro j hj
      have := h3 j hj
      unfold OpenOK at this
      rw [discardStep_seg, hoff1] at this
      exact this

/-- the segment the reader sits on holds its position (so the bytes a `Read` pulls without
    opening anything come from the chunk holding `p`). -/
theorem inv_current_owns (L : Layout) (plain : List UInt8) (wf : WellFormed L plain)
    (s : RState) (inv : Inv L s) (hpos : s.offset ≤ L.endRaw) :
    segLo L s.seg ≤ s.offset ∧ s.offset ≤ segHi L s.seg := by
  obtain ⟨segLe, riEq, chkEq, discNonneg, within, offNonneg, posEq, errOK, beyond⟩ := inv
  have hrs : s.chk.rsize = (getRecords L.recs s.seg).2.raw - (getRecords L.recs s.seg).1.raw := by
    rw [chkEq]
  unfold segLo segHi
  omega

/-- **Cost bound for random access.** `Seek(p)` then `Read(n)` delivering `k` bytes: every segment
    opened by the two calls together lies between the chunk holding `p` and the chunk holding
    `p + k`, and the compressed bytes they span are what bounds the fetch. -/
theorem access_cost (L : Layout) (plain : List UInt8) (wf : WellFormed L plain)
    (s : RState) (inv : Inv L s) (p : Int) (hp : 0 ≤ p) (n : Nat) (adv : Adv)
    (s' : RState) (data : List UInt8) (e : Option Err) (o2 : List Nat)
    (h : readC .fixed L (seek .fixed L s p 0).1 n adv (readFuel L) = some ((s', data, e), o2)) :
    ∀ j ∈ (seekC .fixed L s p 0).2 ++ o2,
      j ≤ L.recs.length ∧ (Owns L j p ∨ (p ≤ segLo L j ∧ segLo L j ≤ p + data.length)) := by
  have hsr := Compress.Proofs.XFlateReader.seek_refines L plain wf s inv p 0
  have hsp : specSeek (plain.length : Int) s.offset p 0 = some p := by
    simp [specSeek, Int.not_lt.2 hp]
  rw [hsp] at hsr
  obtain ⟨_, hpos, hoff, inv1, herr1⟩ := hsr
  intro j hj
  rcases List.mem_append.1 hj with hj | hj
  · have ho := (seek_opens_owner L plain wf s inv p 0).2 j hj
    rw [hpos] at ho
    exact ⟨ho.1, Or.inl ho⟩
  · obtain ⟨hj1, hj2⟩ :=
      (read_opens_between L plain wf _ inv1 herr1 n adv s' data e o2 h).2 j hj
    refine ⟨hj1, ?_⟩
    rcases hj2 with hj2 | hj2
    · rw [hoff] at hj2
      exact Or.inr hj2.2
    · left
      have ht := (inv_tail_off _ inv1 hj2.1).1
      rw [hoff] at ht
      have hlo := (seg_tail L).1
      rw [hj2.2]
      refine ⟨Nat.le_refl _, ?_, Or.inr (Or.inr rfl)⟩
      unfold segLo
      omega

/-! ### open -/

/-- sum of the compressed sizes of the index-type records of `recs`, taken against the
    preceding record. -/
def indexBytes : List Record → Int → Int
  | [], _ => 0
  | r :: rs, prevComp => (if r.typ = indexType then r.comp - prevComp else 0) + indexBytes rs r.comp

/-- **Open.** Opening reads the footer window (at most `maxEncBytes` = 64 bytes) and exactly the
    index blocks; the ghost counter `idxBytes` is the sum of the compressed sizes of the
    index-type records of the merged index — no term depends on chunk data. -/
theorem open_cost (crc : List UInt8 → Nat) (stream : List UInt8) (r : OpenResult)
    (h : openIndex .fixed crc stream = .ok r) :
    r.idxBytes = indexBytes r.recs 0 := by
  have heq : ∀ (recs : List Record) (c : Int), indexBytes recs c = idxSum recs c := by
    intro recs
    induction recs with
    | nil => intro c; rfl
    | cons a rs ih => intro c; simp only [indexBytes, idxSum, ih]
  rw [heq]
  exact openIndex_sum crc stream r h

/-! ### D7 regression: the closed shortcut test of the pinned commit -/

/-- three 10-byte chunks then the footer; cursor on chunk 0, `Seek(20)` (= end of chunk 1 =
    start of chunk 2). -/
def L7 : Layout :=
  { recs := [⟨100, 10, deflateType⟩, ⟨200, 20, deflateType⟩, ⟨300, 30, deflateType⟩, ⟨310, 30, footerType⟩],
    segs := [] }

theorem D7_orig_opens_wrong_segment :
    (seekC .orig L7 (opened .orig L7) 20 0).2 = [1] ∧ ¬ Owns L7 1 20 := by
  refine ⟨by decide, ?_⟩
  unfold Owns segLo segHi
  decide

theorem D7_fixed_opens_owner :
    (seekC .fixed L7 (opened .fixed L7) 20 0).2 = [2] ∧ Owns L7 2 20 := by
  refine ⟨by decide, ?_⟩
  unfold Owns segLo segHi
  decide

end Compress.Proofs.XFlateCost
