/-
A coarse bound on the output of the RFC 1951 specification: every consumed bit
yields at most 258 output bytes.
-/
import Compress.Proofs.FlateDefs

namespace Compress.Proofs.FlateRefine
open Compress Compress.Flate

/-! ### basic facts -/

theorem copyBack_size (out : Array UInt8) (d len : Nat) :
    (copyBack out d len).size = out.size + len := by
  induction len generalizing out with
  | zero => simp [copyBack]
  | succ len ih => rw [copyBack, ih]; simp; omega

theorem takeBits_spec {n : Nat} {b : Bits} {v : Nat} {r : Bits}
    (h : takeBits n b = some (v, r)) : r = b.drop n ∧ n ≤ b.length ∧ v < 2 ^ n := by
  unfold takeBits at h
  simp only at h
  split at h
  · cases h
  · rename_i hlt
    have hn : n ≤ b.length := by
      simp only [List.length_take] at hlt; omega
    have hl : (b.take n).length = n := by
      simp only [List.length_take]; omega
    injection h with h
    injection h with h1 h2
    refine ⟨h2.symm, hn, ?_⟩
    have := PrefixCodes.toNat_lt (b.take n)
    rw [hl] at this
    omega

theorem takeBits_length {n : Nat} {b : Bits} {v : Nat} {r : Bits}
    (h : takeBits n b = some (v, r)) : r.length + n = b.length := by
  obtain ⟨rfl, hn, _⟩ := takeBits_spec h
  simp only [List.length_drop]; omega

theorem takeBits_length_le {n : Nat} {b : Bits} {v : Nat} {r : Bits}
    (h : takeBits n b = some (v, r)) : r.length ≤ b.length := by
  have := takeBits_length h; omega

theorem lenTable_bound : ∀ i, i < 29 → lenBase.getD i 0 + 2 ^ lenExtra.getD i 0 ≤ 259 := by
  decide

/-- bits left after a block body (0 if it failed). -/
def exLen : Except Verdict Bits → Nat
  | .ok r => r.length
  | .error _ => 0

@[simp] theorem exLen_ok (r : Bits) : exLen (.ok r) = r.length := rfl
@[simp] theorem exLen_error (v : Verdict) : exLen (.error v) = 0 := rfl

/-! ### block bodies -/

set_option maxRecDepth 4000 in
theorem inflateBlock_bound' (lit dist : HuffTab) : ∀ (fuel : Nat) (out : Array UInt8) (bits : Bits),
    (inflateBlock lit dist fuel out bits).1.size + 258 * exLen (inflateBlock lit dist fuel out bits).2
      ≤ out.size + 258 * bits.length := by
  intro fuel
  induction fuel with
  | zero => intro out bits; rw [inflateBlock_zero]; simp
  | succ fuel ih =>
    intro out bits
    rw [inflateBlock_succ]
    cases hd : lit.decode bits with
    | eof => simp
    | invalid => simp
    | sym s rest =>
      have h1 := decode_length_lt lit bits s rest hd
      simp only []
      by_cases c1 : s < 256
      · rw [if_pos c1]
        have := ih (out.push (UInt8.ofNat s)) rest
        simp only [Array.size_push] at this
        omega
      · rw [if_neg c1]
        by_cases c2 : s = 256
        · rw [if_pos c2]; simp only [exLen_ok]; omega
        · rw [if_neg c2]
          by_cases c3 : s ≥ 286
          · rw [if_pos c3]; simp
          · rw [if_neg c3]
            cases ht : takeBits (lenExtra.getD (s - 257) 0) rest with
            | none => simp
            | some p =>
              obtain ⟨le, r1⟩ := p
              obtain ⟨_, _, hle⟩ := takeBits_spec ht
              have h2 := takeBits_length_le ht
              have hb := lenTable_bound (s - 257) (by omega)
              simp only []
              cases hdd : dist.decode r1 with
              | eof => simp
              | invalid => simp
              | sym ds r2 =>
                have h3 := decode_length_lt dist r1 ds r2 hdd
                simp only []
                by_cases c4 : ds ≥ 30
                · rw [if_pos c4]; simp
                · rw [if_neg c4]
                  cases ht2 : takeBits (distExtra.getD ds 0) r2 with
                  | none => simp
                  | some q =>
                    obtain ⟨de, r3⟩ := q
                    have h4 := takeBits_length_le ht2
                    simp only []
                    split
                    · simp
                    · have := ih (copyBack out (distBase.getD ds 0 + de) (lenBase.getD (s - 257) 0 + le)) r3
                      rw [copyBack_size] at this
                      omega

set_option maxRecDepth 4000 in
theorem inflateBlock_rest_length (lit dist : HuffTab) (fuel : Nat) (out : Array UInt8)
    (bits rest : Bits) (out' : Array UInt8)
    (h : inflateBlock lit dist fuel out bits = (out', .ok rest)) : rest.length < bits.length := by
  induction fuel generalizing out bits with
  | zero => rw [inflateBlock_zero] at h; cases h
  | succ fuel ih =>
    rw [inflateBlock_succ] at h
    cases hd : lit.decode bits with
    | eof => rw [hd] at h; cases h
    | invalid => rw [hd] at h; cases h
    | sym s r0 =>
      have h1 := decode_length_lt lit bits s r0 hd
      rw [hd] at h
      simp only [] at h
      by_cases c1 : s < 256
      · rw [if_pos c1] at h
        have := ih _ _ h
        omega
      · rw [if_neg c1] at h
        by_cases c2 : s = 256
        · rw [if_pos c2] at h; cases h; omega
        · rw [if_neg c2] at h
          by_cases c3 : s ≥ 286
          · rw [if_pos c3] at h; cases h
          · rw [if_neg c3] at h
            cases ht : takeBits (lenExtra.getD (s - 257) 0) r0 with
            | none => rw [ht] at h; cases h
            | some p =>
              obtain ⟨le, r1⟩ := p
              have h2 := takeBits_length_le ht
              rw [ht] at h
              simp only [] at h
              cases hdd : dist.decode r1 with
              | eof => rw [hdd] at h; cases h
              | invalid => rw [hdd] at h; cases h
              | sym ds r2 =>
                have h3 := decode_length_lt dist r1 ds r2 hdd
                rw [hdd] at h
                simp only [] at h
                by_cases c4 : ds ≥ 30
                · rw [if_pos c4] at h; cases h
                · rw [if_neg c4] at h
                  cases ht2 : takeBits (distExtra.getD ds 0) r2 with
                  | none => rw [ht2] at h; cases h
                  | some q =>
                    obtain ⟨de, r3⟩ := q
                    have h4 := takeBits_length_le ht2
                    rw [ht2] at h
                    simp only [] at h
                    split at h
                    · cases h
                    · have := ih _ _ h
                      omega

theorem inflateBlock_bound (lit dist : HuffTab) (fuel : Nat) (out : Array UInt8) (bits : Bits) :
    (inflateBlock lit dist fuel out bits).1.size +
        258 * (match (inflateBlock lit dist fuel out bits).2 with
               | .ok rest => rest.length
               | .error _ => 0)
      ≤ out.size + 258 * bits.length := by
  have := inflateBlock_bound' lit dist fuel out bits
  cases h : (inflateBlock lit dist fuel out bits).2 with
  | ok r => rw [h] at this; simpa using this
  | error e => rw [h] at this; simpa using this

/-! ### stored blocks -/

def optLen : Option Bits → Nat
  | some r => r.length
  | none => 0

@[simp] theorem optLen_some (r : Bits) : optLen (some r) = r.length := rfl
@[simp] theorem optLen_none : optLen none = 0 := rfl

theorem takeBytes_bound' : ∀ (n : Nat) (out : Array UInt8) (bits : Bits),
    (takeBytes n out bits).1.size + 258 * optLen (takeBytes n out bits).2
      ≤ out.size + 258 * bits.length := by
  intro n
  induction n with
  | zero => intro out bits; simp [takeBytes]
  | succ n ih =>
    intro out bits
    rw [takeBytes]
    cases ht : takeBits 8 bits with
    | none => simp
    | some p =>
      obtain ⟨v, rest⟩ := p
      have h1 := takeBits_length ht
      have := ih (out.push (UInt8.ofNat v)) rest
      simp only [Array.size_push] at this
      simp only []
      omega

theorem takeBytes_bound (n : Nat) (out : Array UInt8) (bits : Bits) :
    (takeBytes n out bits).1.size +
        258 * (match (takeBytes n out bits).2 with
               | some r => r.length
               | none => 0)
      ≤ out.size + 258 * bits.length := by
  have := takeBytes_bound' n out bits
  cases h : (takeBytes n out bits).2 with
  | some r => rw [h] at this; simpa using this
  | none => rw [h] at this; simpa using this

/-! ### the dynamic header only drops bits -/

theorem readCLens_length : ∀ (ps : List Nat) (acc : Array Nat) (bits : Bits) (cl : Array Nat)
    (r : Bits), readCLens ps acc bits = some (cl, r) → r.length ≤ bits.length := by
  intro ps
  induction ps with
  | nil => intro acc bits cl r h; simp only [readCLens] at h; cases h; exact Nat.le_refl _
  | cons p ps ih =>
    intro acc bits cl r h
    rw [readCLens] at h
    cases ht : takeBits 3 bits with
    | none => rw [ht] at h; cases h
    | some q =>
      obtain ⟨v, rest⟩ := q
      rw [ht] at h
      simp only [] at h
      have := ih _ _ _ _ h
      have := takeBits_length_le ht
      omega

theorem readLengths_length (cl : HuffTab) : ∀ (fuel n : Nat) (acc : List Nat) (bits : Bits)
    (l : List Nat) (r : Bits), readLengths cl fuel n acc bits = .ok (l, r) →
    r.length ≤ bits.length := by
  intro fuel
  induction fuel with
  | zero => intro n acc bits l r h; simp only [readLengths] at h; cases h; exact Nat.le_refl _
  | succ fuel ih =>
    intro n acc bits l r h
    rw [readLengths] at h
    split at h
    · split at h
      · cases h; exact Nat.le_refl _
      · cases h
    · cases hd : cl.decode bits with
      | eof => rw [hd] at h; cases h
      | invalid => rw [hd] at h; cases h
      | sym s rest =>
        have h1 := decode_length_lt cl bits s rest hd
        rw [hd] at h
        simp only [] at h
        split at h
        · have := ih _ _ _ _ _ h; omega
        · split at h
          · split at h
            · cases h
            · split at h
              · cases h
              · rename_i ht
                have := takeBits_length_le ht
                split at h
                · cases h
                · have := ih _ _ _ _ _ h; omega
          · split at h
            · split at h
              · cases h
              · rename_i ht
                have := takeBits_length_le ht
                split at h
                · cases h
                · have := ih _ _ _ _ _ h; omega
            · split at h
              · cases h
              · rename_i ht
                have := takeBits_length_le ht
                split at h
                · cases h
                · have := ih _ _ _ _ _ h; omega

theorem readDynamic_length (b : Bits) (lit dist : Huff) (r : Bits)
    (h : Flate.readDynamic b = .ok (lit, dist, r)) : r.length ≤ b.length := by
  unfold readDynamic at h
  cases h1 : takeBits 5 b with
  | none => rw [h1] at h; cases h
  | some p1 =>
    obtain ⟨hlit, b1⟩ := p1
    rw [h1] at h; simp only [] at h
    cases h2 : takeBits 5 b1 with
    | none => rw [h2] at h; cases h
    | some p2 =>
      obtain ⟨hdist, b2⟩ := p2
      rw [h2] at h; simp only [] at h
      cases h3 : takeBits 4 b2 with
      | none => rw [h3] at h; cases h
      | some p3 =>
        obtain ⟨hclen, b3⟩ := p3
        rw [h3] at h; simp only [] at h
        have l1 := takeBits_length_le h1
        have l2 := takeBits_length_le h2
        have l3 := takeBits_length_le h3
        split at h
        · cases h
        · cases h4 : readCLens (clenOrder.take (hclen + 4)) (Array.replicate 19 0) b3 with
          | none => rw [h4] at h; cases h
          | some p4 =>
            obtain ⟨cl, b4⟩ := p4
            rw [h4] at h; simp only [] at h
            have l4 := readCLens_length _ _ _ _ _ h4
            split at h
            · cases h
            · split at h
              · cases h
              · rename_i lens b5 h5
                have l5 := readLengths_length _ _ _ _ _ _ _ h5
                split at h
                · cases h
                · injection h with h
                  injection h with _ h
                  injection h with _ h
                  subst h
                  omega

/-! ### the sequence of blocks -/

theorem decodeBlocks_bound (total : Nat) : ∀ (fuel : Nat) (out : Array UInt8) (bits : Bits),
    (decodeBlocks total fuel out bits).out.size ≤ out.size + 258 * bits.length := by
  intro fuel
  induction fuel with
  | zero => intro out bits; simp [decodeBlocks]
  | succ fuel ih =>
    intro out bits
    rw [decodeBlocks]
    cases h1 : takeBits 1 bits with
    | none => simp
    | some p1 =>
      obtain ⟨bfinal, b1⟩ := p1
      have l1 := takeBits_length_le h1
      simp only []
      cases h2 : takeBits 2 b1 with
      | none => simp
      | some p2 =>
        obtain ⟨btype, b2⟩ := p2
        have l2 := takeBits_length_le h2
        simp only []
        have hfin : ∀ (o : Array UInt8) (rest : Bits),
            (if bfinal = 1 then
                ({ out := o, verdict := .ok (total - rest.length + padTo8 (total - rest.length)) } : Result)
              else decodeBlocks total fuel o rest).out.size ≤ o.size + 258 * rest.length := by
          intro o rest
          split
          · simp
          · exact ih o rest
        split
        · -- stored
          cases h3 : takeBits 16 (b2.drop (padTo8 (total - b2.length))) with
          | none => simp
          | some p3 =>
            obtain ⟨len, b4⟩ := p3
            have l3 := takeBits_length_le h3
            simp only [List.length_drop] at l3
            simp only []
            cases h4 : takeBits 16 b4 with
            | none => simp
            | some p4 =>
              obtain ⟨nlen, b5⟩ := p4
              have l4 := takeBits_length_le h4
              simp only []
              split
              · simp
              · have hb := takeBytes_bound' len out b5
                cases h5 : takeBytes len out b5 with
                | mk o' ob =>
                  rw [h5] at hb
                  cases ob with
                  | none => simp only [optLen_none] at hb ⊢; omega
                  | some b6 =>
                    simp only [optLen_some] at hb ⊢
                    have := hfin o' b6
                    omega
        · -- fixed
          have hb := inflateBlock_bound' fixedLit.tab fixedDist.tab (b2.length + 1) out b2
          cases h5 : inflateBlock fixedLit.tab fixedDist.tab (b2.length + 1) out b2 with
          | mk o' e =>
            rw [h5] at hb
            cases e with
            | error v => simp only [exLen_error] at hb ⊢; omega
            | ok rest =>
              simp only [exLen_ok] at hb ⊢
              have := hfin o' rest
              omega
        · -- dynamic
          cases h3 : readDynamic b2 with
          | error v => simp
          | ok t =>
            obtain ⟨lit, dist, b3⟩ := t
            have l3 := readDynamic_length _ _ _ _ h3
            simp only []
            have hb := inflateBlock_bound' lit.tab dist.tab (b3.length + 1) out b3
            cases h5 : inflateBlock lit.tab dist.tab (b3.length + 1) out b3 with
            | mk o' e =>
              rw [h5] at hb
              cases e with
              | error v => simp only [exLen_error] at hb ⊢; omega
              | ok rest =>
                simp only [exLen_ok] at hb ⊢
                have := hfin o' rest
                omega
        · simp

/-- **Output bound.** The specification decoder yields at most 258 bytes per input bit. -/
theorem decodeBits_size (bits : Bits) : (Flate.decodeBits bits).out.size ≤ 258 * bits.length := by
  have := decodeBlocks_bound bits.length (bits.length + 1) #[] bits
  simpa [decodeBits] using this

end Compress.Proofs.FlateRefine
