/-
C17 helpers: the segments `Reader.Read` opens while it advances through the
stream (`readLoopC`), by the same induction as `XRRead.readLoop_ok`.
-/
import Compress.XFlate.Cost
import Compress.Proofs.XRIndex
import Compress.Proofs.XRSeek
import Compress.Proofs.XRRead
import Compress.Proofs.XCostSeek

namespace Compress.Proofs.XCostRead
open Compress.XFlate Compress.Proofs.XRIndex Compress.Proofs.XRSeek Compress.Proofs.XRRead
open Compress.Proofs.XCostSeek

/-! ### projections (both variants) -/

theorem seekC_fst (v : Variant) (L : Layout) (s : RState) (off : Int) (wh : Nat) :
    (seekC v L s off wh).1 = seek v L s off wh := by
  rw [seekC_def]
  split
  · rfl
  · split <;> rfl

theorem readLoopC_fst (v : Variant) (L : Layout) (n : Nat) :
    ∀ (fuel : Nat) (s : RState) (adv : Adv) (o : List Nat),
      (readLoopC v L n fuel s adv o).map (·.1) = readLoop v L n fuel s adv := by
  intro fuel
  induction fuel with
  | zero => intro s adv o; rfl
  | succ fuel ih =>
    intro s adv o
    rw [readLoopC, readLoop]
    generalize zrRead (L.seg s.seg) s.zout n (adv.head?.getD (n, true)) = z
    obtain ⟨cnt, e⟩ := z
    simp only []
    rcases e with _ | _ | err
    · simp only []
      by_cases hc : cnt = 0
      · rw [if_pos hc, if_pos hc]; exact ih _ _ _
      · rw [if_neg hc, if_neg hc]; rfl
    · simp only []
      by_cases h1 : s.chk.typ = deflateType ∧ (L.seg s.seg).sync ≠ 0x0000ffff
      · rw [if_pos h1, if_pos h1]; rfl
      · rw [if_neg h1, if_neg h1]
        by_cases h2 : (if s.chk.typ ≠ footerType then s.chk.csize + endBlockLen else s.chk.csize) ≠
            (L.seg s.seg).inOff ∨ s.chk.rsize ≠ ((s.zout + cnt : Nat) : Int)
        · rw [if_pos h2, if_pos h2]; rfl
        · rw [if_neg h2, if_neg h2, ← seekC_fst]
          generalize seekC v L _ _ 0 = r
          obtain ⟨⟨s3, p3, e3⟩, o3⟩ := r
          simp only []
          cases e3 with
          | some err => rfl
          | none =>
            simp only [apply_ite (Option.map (fun x : (RState × List UInt8) × List Nat => x.1)), ih,
              Option.map_some]
    · rfl

section
variable {L : Layout} {plain : List UInt8}

/-! ### the automatic advance opens exactly the next segment -/

theorem seekC_advance (wf : WellFormed L plain) (s : RState) (herr : s.err = none)
    (hoff0 : 0 ≤ s.offset) (hsegle : s.seg ≤ L.recs.length)
    (hri : s.ri = min (s.seg + 1) L.recs.length)
    (h1 : s.seg < L.recs.length → s.offset = (getRecords L.recs s.seg).2.raw)
    (h2 : s.seg = L.recs.length → L.endRaw ≤ s.offset) :
    seekC .fixed L s s.offset 0 =
      ((slowState L s s.offset (min (s.seg + 1) L.recs.length), s.offset, none),
       [min (s.seg + 1) L.recs.length]) := by
  rw [seekC_def, seek_advance wf s herr hoff0 hsegle hri h1 h2]
  have hnf : ¬ (fastB .fixed s s.offset = true) := by
    intro h
    have := (fastB_iff .fixed s s.offset).1 h
    unfold fastP at this
    omega
  simp only [ne_eq, not_true_eq_false, if_false, hnf]
  have : (slowState L s s.offset (min (s.seg + 1) L.recs.length)).seg =
      min (s.seg + 1) L.recs.length := by
    show min (min (s.seg + 1) L.recs.length) L.recs.length = _
    omega
  rw [this]
  simp

theorem readLoopC_eof (wf : WellFormed L plain) (n fuel : Nat) (s : RState) (adv : Adv) (k : Nat)
    (o : List Nat)
    (inv : Inv L s) (herr : s.err = none) (hd : s.discard = 0)
    (hfull : s.zout + k = (L.seg s.seg).out.length)
    (hz : zrRead (L.seg s.seg) s.zout n (adv.head?.getD (n, true)) = (k, some none)) :
    readLoopC .fixed L n (fuel+1) s adv o =
      if k = 0 ∧ (nextState L (stepState s k)).err = none
      then readLoopC .fixed L n fuel
            (nextState L (stepState s k))
            (if (L.seg s.seg).out.length - s.zout = 0 ∨ n = 0 then adv else adv.tail)
            (o ++ [min (s.seg + 1) L.recs.length])
      else some ((nextState L (stepState s k), segBytes L s k),
                 o ++ [min (s.seg + 1) L.recs.length]) := by
  have inv1 := inv_advance wf s inv hd k (by omega)
  have hlen := inv_out_len wf s inv
  have hchk := inv.chkEq
  have hc1 : ¬ (s.chk.typ = deflateType ∧ (L.seg s.seg).sync ≠ 65535) := by
    intro ⟨a, b⟩
    apply b
    apply wf.segSync s.seg inv.segLe
    rw [hchk] at a; exact a
  have hc2 : ¬ ((if s.chk.typ ≠ footerType then s.chk.csize + endBlockLen else s.chk.csize) ≠
      (L.seg s.seg).inOff ∨ s.chk.rsize ≠ ((s.zout + k : Nat) : Int)) := by
    have hin := wf.segIn s.seg inv.segLe
    have ht : s.chk.typ = (getRecords L.recs s.seg).2.typ := by rw [hchk]
    have hcs : s.chk.csize = (getRecords L.recs s.seg).2.comp - (getRecords L.recs s.seg).1.comp := by
      rw [hchk]
    rw [hin, ← ht, ← hcs]
    unfold endBlockLen
    intro h
    rcases h with h | h
    · apply h; by_cases hf : s.chk.typ = footerType <;> simp [hf]
    · apply h; omega
  rw [readLoopC]
  simp only [hz]
  rw [if_neg hc1, if_neg hc2]
  generalize hsk : seekC Variant.fixed L _ (s.offset + (k : Int)) 0 = r
  have hb := seg_bounds wf s.seg inv.segLe
  have hsa := seekC_advance wf
    { ri := s.ri, offset := s.offset + ↑k, discard := s.discard,
      chk := { csize := if s.chk.typ ≠ footerType then s.chk.csize + endBlockLen else s.chk.csize,
               rsize := s.chk.rsize, typ := s.chk.typ },
      seg := s.seg, zout := s.zout + k, err := s.err, fetched := s.fetched }
    herr inv1.offNonneg inv.segLe inv.riEq
    (by
      intro hlt
      have hlt' : s.seg < L.recs.length := hlt
      have hle : s.offset + (k : Int) ≤ L.endRaw := inv_off_le _ inv1 hlt'
      have hrs : s.chk.rsize = (getRecords L.recs s.seg).2.raw - (getRecords L.recs s.seg).1.raw := by
        rw [hchk]
      show s.offset + (k : Int) = (getRecords L.recs s.seg).2.raw
      have hp' : min (s.offset + (k : Int)) L.endRaw =
          (getRecords L.recs s.seg).1.raw + ((s.zout + k : Nat) : Int) + s.discard := inv1.posEq
      clear hlt
      omega)
    (by
      intro heq
      exact (inv_tail_off _ inv1 heq).1)
  rw [hsk] at hsa
  subst hsa
  rfl

theorem readLoopC_data (n fuel : Nat) (s : RState) (adv : Adv) (k : Nat) (o : List Nat) (hk : k ≠ 0)
    (hz : zrRead (L.seg s.seg) s.zout n (adv.head?.getD (n, true)) = (k, none)) :
    readLoopC .fixed L n (fuel+1) s adv o =
      some ((stepState s k, segBytes L s k), o) := by
  rw [readLoopC]
  simp only [hz]
  rw [if_neg hk]

/-- a fully consumed, non-tail segment ends where the next one starts. -/
theorem off_at_end (_wf : WellFormed L plain) (s1 : RState) (inv1 : Inv L s1) (hd : s1.discard = 0)
    (hfull : (s1.zout : Int) = s1.chk.rsize) (hseg : s1.seg < L.recs.length) :
    segLo L (s1.seg + 1) = s1.offset := by
  unfold segLo
  rw [seg_next L s1.seg hseg]
  have hle := inv_off_le s1 inv1 hseg
  have hpos := inv1.posEq
  have hrs : s1.chk.rsize = (getRecords L.recs s1.seg).2.raw - (getRecords L.recs s1.seg).1.raw := by
    rw [inv1.chkEq]
  omega

/-- what one opened segment must satisfy, relative to the state the `Read` started in and the
    number of bytes it delivered. -/
def OpenOK (L : Layout) (s : RState) (len : Nat) (j : Nat) : Prop :=
  j ≤ L.recs.length ∧
    ((s.seg < j ∧ s.offset ≤ segLo L j ∧ segLo L j ≤ s.offset + (len : Int)) ∨
     (s.seg = L.recs.length ∧ j = L.recs.length))

theorem readLoopC_opens (wf : WellFormed L plain) (n : Nat) (hn : 0 < n) :
    ∀ (fuel : Nat) (s : RState) (adv : Adv) (o : List Nat) (r : (RState × List UInt8) × List Nat),
      Inv L s → s.err = none → s.discard = 0 →
      readLoopC .fixed L n fuel s adv o = some r →
      ∃ ex, r.2 = o ++ ex ∧ ex.Pairwise (· < ·) ∧ ∀ j ∈ ex, OpenOK L s r.1.2.length j := by
  intro fuel
  induction fuel with
  | zero => intro s adv o r _ _ _ h; simp [readLoopC] at h
  | succ fuel ih =>
    intro s adv o r inv herr hd h
    have hlen := inv_out_len wf s inv
    have hwithin := inv.within
    have hfin := wf.segFin s.seg inv.segLe
    by_cases hrem : (L.seg s.seg).out.length - s.zout = 0
    · have hz := zr_zero (L.seg s.seg) s.zout n (adv.head?.getD (n, true)) hrem
      rw [hfin] at hz
      have hfull : s.zout + 0 = (L.seg s.seg).out.length := by omega
      have inv1 := inv_advance wf s inv hd 0 (by omega)
      have hstep := readLoopC_eof wf n fuel s adv 0 o inv herr hd hfull hz
      have hfull1 : (((stepState s 0).zout : Nat) : Int) = (stepState s 0).chk.rsize := by
        show ((s.zout + 0 : Nat) : Int) = s.chk.rsize; omega
      obtain ⟨inv4, hoff4, hd4, hseg4, herr4a, herr4b, _⟩ :=
        nextState_props wf (stepState s 0) inv1 hd hfull1
      have hoff4' : (nextState L (stepState s 0)).offset = s.offset := by
        rw [hoff4]; show s.offset + ((0 : Nat) : Int) = s.offset; omega
      have hb0 : segBytes L s 0 = [] := by simp [segBytes]
      rw [hstep] at h
      by_cases hnext : s.seg + 1 < L.recs.length
      · have he := herr4a hnext
        rw [if_pos ⟨rfl, he⟩] at h
        have hm : min (s.seg + 1) L.recs.length = s.seg + 1 := by omega
        have hseg4' : (nextState L (stepState s 0)).seg = s.seg + 1 := by
          rw [hseg4]; exact hm
        obtain ⟨ex, h1, h2, h3⟩ := ih _ _ _ r inv4 he hd4 h
        have hlo : segLo L (s.seg + 1) = s.offset := by
          have := off_at_end wf (stepState s 0) inv1 hd hfull1 (by show s.seg < _; omega)
          have h0 : (stepState s 0).offset = s.offset := by
            show s.offset + ((0 : Nat) : Int) = s.offset; omega
          rw [h0] at this; exact this
        refine ⟨(s.seg + 1) :: ex, ?_, ?_, ?_⟩
        · rw [h1, hm, List.append_assoc]; rfl
        · refine List.Pairwise.cons ?_ h2
          intro j hj
          obtain ⟨_, hj2⟩ := h3 j hj
          rcases hj2 with hj2 | hj2
          · rw [hseg4'] at hj2; exact hj2.1
          · rw [hseg4'] at hj2; omega
        · intro j hj
          rcases List.mem_cons.1 hj with hj | hj
          · subst hj
            refine ⟨by omega, Or.inl ⟨by omega, ?_, ?_⟩⟩
            · rw [hlo]; exact Int.le_refl _
            · rw [hlo]; omega
          · obtain ⟨hj1, hj2⟩ := h3 j hj
            refine ⟨hj1, ?_⟩
            rcases hj2 with hj2 | hj2
            · rw [hseg4', hoff4'] at hj2
              exact Or.inl ⟨by omega, hj2.2.1, hj2.2.2⟩
            · rw [hseg4'] at hj2; omega
      · obtain ⟨he, hge⟩ := herr4b (show L.recs.length ≤ s.seg + 1 by omega)
        have hcond : ¬ (0 = 0 ∧ (nextState L (stepState s 0)).err = none) := by
          rw [he]; simp
        rw [if_neg hcond] at h
        have hr : r = ((nextState L (stepState s 0), segBytes L s 0),
            o ++ [min (s.seg + 1) L.recs.length]) := (Option.some.inj h).symm
        subst hr
        refine ⟨[min (s.seg + 1) L.recs.length], rfl, List.pairwise_singleton _ _, ?_⟩
        intro j hj
        have hj : j = min (s.seg + 1) L.recs.length := by simpa using hj
        subst hj
        refine ⟨by omega, ?_⟩
        rcases Nat.lt_or_eq_of_le inv.segLe with hlt | heq
        · left
          have hm : min (s.seg + 1) L.recs.length = s.seg + 1 := by omega
          have hlo : segLo L (s.seg + 1) = s.offset := by
            have := off_at_end wf (stepState s 0) inv1 hd hfull1 hlt
            have h0 : (stepState s 0).offset = s.offset := by
              show s.offset + ((0 : Nat) : Int) = s.offset; omega
            rw [h0] at this; exact this
          rw [hm, hlo]
          refine ⟨by omega, Int.le_refl _, ?_⟩
          show s.offset ≤ s.offset + ((segBytes L s 0).length : Int)
          omega
        · right; exact ⟨heq, by omega⟩
    · have hseg := seg_lt_of_out wf s inv (by omega)
      obtain ⟨k, hk1, hkn, hkr, hz⟩ :=
        zr_pos (L.seg s.seg) s.zout n (adv.head?.getD (n, true)) hrem (by omega)
      have hc : s.zout + k ≤ (L.seg s.seg).out.length := by omega
      have inv1 := inv_advance wf s inv hd k hc
      obtain ⟨hdata, hdlen⟩ := segBytes_eq wf s inv hd k hc (by omega)
      rcases hz with hz | ⟨hkeq, hz⟩
      · rw [readLoopC_data n fuel s adv k o (by omega) hz] at h
        have hr := (Option.some.inj h).symm
        subst hr
        exact ⟨[], by simp, List.Pairwise.nil, by intro j hj; cases hj⟩
      · rw [hfin] at hz
        have hfull : s.zout + k = (L.seg s.seg).out.length := by omega
        have hstep := readLoopC_eof wf n fuel s adv k o inv herr hd hfull hz
        have hcond : ¬ (k = 0 ∧ (nextState L (stepState s k)).err = none) := by
          intro h; omega
        rw [hstep, if_neg hcond] at h
        have hr := (Option.some.inj h).symm
        subst hr
        have hfull1 : (((stepState s k).zout : Nat) : Int) = (stepState s k).chk.rsize := by
          show ((s.zout + k : Nat) : Int) = s.chk.rsize; omega
        have hlo : segLo L (s.seg + 1) = s.offset + (k : Int) :=
          off_at_end wf (stepState s k) inv1 hd hfull1 hseg
        have hm : min (s.seg + 1) L.recs.length = s.seg + 1 := by omega
        refine ⟨[s.seg + 1], by rw [hm], List.pairwise_singleton _ _, ?_⟩
        intro j hj
        have hj : j = s.seg + 1 := by simpa using hj
        subst hj
        refine ⟨by omega, Or.inl ⟨by omega, ?_, ?_⟩⟩
        · rw [hlo]; omega
        · rw [hlo]
          show s.offset + (k : Int) ≤ s.offset + ((segBytes L s k).length : Int)
          rw [hdlen]; exact Int.le_refl _

end

end Compress.Proofs.XCostRead
