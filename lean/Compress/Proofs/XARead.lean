/-
C15 helpers: a sequential read that ends in `io.EOF` has visited every segment in order, made
`Read`'s end-of-chunk checks on each of them, and delivered the segments' outputs in order.
No `WellFormed` assumption: the layout is arbitrary apart from what `Reset` guarantees of the
records.
-/
import Compress.XFlate.SeqRead
import Compress.Proofs.XRSeek
import Compress.Proofs.XRRead

namespace Compress.Proofs.XFlateAccept
open Compress Compress.XFlate Compress.Proofs.XRIndex Compress.Proofs.XRSeek Compress.Proofs.XRRead

/-- what the sequential walk needs of the index and of the inflater. -/
structure RecsOK (L : Layout) : Prop where
  pos   : 0 < L.recs.length
  mono  : ∀ j, j < L.recs.length → bnd L.recs j ≤ bnd L.recs (j + 1)
  typed : ∀ j, j < L.recs.length → (getRecords L.recs j).2.typ ≠ unknownType
  finOK : ∀ j, (L.seg j).fin ≠ some .eof

/-- the checks `Read` makes when the inflater reports the end of segment `j`. -/
def Checked (L : Layout) (j : Nat) : Prop :=
  (L.seg j).fin = none ∧
  ((chkOf L j).typ = deflateType → (L.seg j).sync = 0x0000ffff) ∧
  (L.seg j).inOff = (chkOf L j).csize + (if (chkOf L j).typ ≠ footerType then 5 else 0) ∧
  (chkOf L j).rsize = ((L.seg j).out.length : Int)

/-- the reader in the middle of segment `j` during a sequential read. -/
structure SI (L : Layout) (j : Nat) (s : RState) : Prop where
  err  : s.err = none
  seg  : s.seg = j
  lt   : j < L.recs.length
  ri   : s.ri = j + 1
  chk  : s.chk = chkOf L j
  disc : s.discard = 0
  off  : s.offset = bnd L.recs j + (s.zout : Int)
  zle  : s.zout ≤ (L.seg j).out.length

def outs (L : Layout) : List (List UInt8) := (List.range L.recs.length).map (fun i => (L.seg i).out)

/-- the outputs of the segments `j, j+1, …` before the tail. -/
def tailOut (L : Layout) (j : Nat) : List UInt8 := ((outs L).drop j).flatten

theorem tailOut_lt (L : Layout) (j : Nat) (h : j < L.recs.length) :
    tailOut L j = (L.seg j).out ++ tailOut L (j + 1) := by
  unfold tailOut
  have hl : j < (outs L).length := by simp [outs]; exact h
  rw [List.drop_eq_getElem_cons hl, List.flatten_cons]
  simp [outs]

theorem tailOut_len (L : Layout) : tailOut L L.recs.length = [] := by
  unfold tailOut
  rw [List.drop_of_length_le (by simp [outs])]
  rfl

section
variable {L : Layout}

theorem bnd_nonneg' (ok : RecsOK L) : ∀ j, j ≤ L.recs.length → 0 ≤ bnd L.recs j := by
  intro j
  induction j with
  | zero => intro _; rw [bnd_zero]; exact Int.le_refl _
  | succ j ih => intro h; have := ok.mono j (by omega); have := ih (by omega); omega

theorem bnd_le_end (ok : RecsOK L) : ∀ d j, j + d = L.recs.length → bnd L.recs j ≤ L.endRaw := by
  intro d
  induction d with
  | zero =>
    intro j h
    have : j = L.recs.length := by omega
    subst this
    unfold Layout.endRaw; rw [bnd_len]; exact Int.le_refl _
  | succ d ih =>
    intro j h
    have := ok.mono j (by omega)
    have := ih (j + 1) (by omega)
    omega

/-- the `Seek(xr.offset)` at the end of a verified chunk: on to the next segment. -/
theorem seek_next (ok : RecsOK L) (s1 : RState) (j : Nat) (hlt : j < L.recs.length)
    (herr : s1.err = none) (hri : s1.ri = j + 1) (hoff : s1.offset = bnd L.recs (j + 1)) :
    seek .fixed L s1 s1.offset 0 = (slowState L s1 s1.offset (j + 1), s1.offset, none) := by
  rw [seek_eq L s1 s1.offset 0 (Or.inl herr)]
  have h0 : 0 ≤ s1.offset := by rw [hoff]; exact bnd_nonneg' ok _ (by omega)
  have hsp : specSeek L.endRaw s1.offset s1.offset 0 = some s1.offset := by
    simp [specSeek, Int.not_lt.2 h0]
  rw [hsp]
  have hnf : ¬ fastCond s1 s1.offset := by
    unfold fastCond; omega
  show seekTo L s1 s1.offset = _
  unfold seekTo
  rw [if_neg hnf]
  have hpick : pickRi L s1 s1.offset = j + 1 := by
    unfold pickRi
    rw [hri, gr_prev_raw _ _ (by omega : j + 1 ≤ L.recs.length), ← hoff]
    rw [if_neg (by intro h; exact h ⟨Int.le_refl _, Or.inr rfl⟩)]
  rw [hpick]

theorem slowState_next (ok : RecsOK L) (s1 : RState) (j : Nat) (hlt : j < L.recs.length)
    (hoff : s1.offset = bnd L.recs (j + 1)) :
    slowState L s1 s1.offset (j + 1) =
      { s1 with ri := min (j + 2) L.recs.length, chk := chkOf L (j + 1), discard := 0,
                seg := j + 1, zout := 0, err := none } := by
  unfold slowState
  have hle := bnd_le_end ok (L.recs.length - (j + 1)) (j + 1) (by omega)
  have h1 : ¬ s1.offset > L.endRaw := by omega
  have h2 : (getRecords L.recs (j + 1)).1.raw = s1.offset := by
    rw [gr_prev_raw _ _ (by omega : j + 1 ≤ L.recs.length), hoff]
  rw [if_neg h1, h2]
  have h3 : min (j + 1) L.recs.length = j + 1 := by omega
  rw [h3, Int.sub_self]

theorem opened_si (ok : RecsOK L) : SI L 0 (opened .fixed L) := by
  have hop : opened .fixed L = slowState L preOpen 0 0 := by
    unfold opened
    rw [seek_eq L preOpen 0 0 (Or.inl rfl)]
    have hsp : specSeek L.endRaw preOpen.offset 0 0 = some 0 := by simp [specSeek]
    rw [hsp]
    show (seekTo L preOpen 0).1 = _
    unfold seekTo
    have hnf : ¬ fastCond preOpen 0 := by unfold fastCond preOpen; simp
    rw [if_neg hnf]
    have hpick : pickRi L preOpen 0 = 0 := by
      unfold pickRi
      have : preOpen.ri = 0 := rfl
      rw [this, gr_prev_raw _ _ (Nat.zero_le _), bnd_zero]
      rw [if_neg (by intro h; exact h ⟨Int.le_refl _, Or.inr rfl⟩)]
    rw [hpick]
  have hend : (0 : Int) ≤ L.endRaw := by
    have := bnd_le_end ok L.recs.length 0 (by omega)
    rw [bnd_zero] at this; exact this
  have h1 : ¬ (0 : Int) > L.endRaw := by omega
  have h2 : (getRecords L.recs 0).1.raw = 0 := by
    rw [gr_prev_raw _ _ (Nat.zero_le _), bnd_zero]
  have hpos := ok.pos
  rw [hop]
  unfold slowState
  rw [if_neg h1, h2]
  refine ⟨rfl, by show min 0 L.recs.length = 0; omega, hpos, by show min (0 + 1) L.recs.length = 0 + 1; omega,
    rfl, by show (0 : Int) - 0 = 0; omega, by show (0 : Int) = bnd L.recs 0 + ((0 : Nat) : Int); rw [bnd_zero]; rfl,
    Nat.zero_le _⟩

/-- the state after a verified chunk (`XRRead.nextState` with the chunk size overwritten as `Read` does). -/
def afterEof (L : Layout) (s : RState) (k : Nat) : RState :=
  nextState L
    { ri := s.ri, offset := s.offset + ↑k, discard := s.discard,
      chk := { csize := if s.chk.typ ≠ footerType then s.chk.csize + endBlockLen else s.chk.csize,
               rsize := s.chk.rsize, typ := s.chk.typ },
      seg := s.seg, zout := s.zout + k, err := s.err, fetched := s.fetched }

/-- the inflater reports the end of segment `j`: either a check fails (`corrupted`), or the
    reader moves to segment `j+1` (latching `io.EOF` when that is the tail). -/
theorem readLoop_eof' (ok : RecsOK L) (n fuel : Nat) (s : RState) (adv : Adv) (k j : Nat) (si : SI L j s)
    (hfull : s.zout + k = (L.seg j).out.length) (hfin : (L.seg j).fin = none)
    (hz : zrRead (L.seg s.seg) s.zout n (adv.head?.getD (n, true)) = (k, some none)) :
    (¬ Checked L j → ∃ sb, readLoop .fixed L n (fuel+1) s adv = some (sb, segBytes L s k) ∧
        sb.err = some .corrupted) ∧
    (Checked L j → readLoop .fixed L n (fuel+1) s adv =
      if k = 0 ∧ (afterEof L s k).err = none
      then readLoop .fixed L n fuel (afterEof L s k)
            (if (L.seg s.seg).out.length - s.zout = 0 ∨ n = 0 then adv else adv.tail)
      else some (afterEof L s k, segBytes L s k)) := by
  have hseg := si.seg
  have hchk := si.chk
  constructor
  · intro hnc
    rw [readLoop]
    simp only [hz]
    by_cases hc1 : s.chk.typ = deflateType ∧ (L.seg s.seg).sync ≠ 65535
    · rw [if_pos hc1]; exact ⟨_, rfl, rfl⟩
    rw [if_neg hc1]
    by_cases hc2 : (if s.chk.typ ≠ footerType then s.chk.csize + endBlockLen else s.chk.csize) ≠
        (L.seg s.seg).inOff ∨ s.chk.rsize ≠ ((s.zout + k : Nat) : Int)
    · rw [if_pos hc2]; exact ⟨_, rfl, rfl⟩
    exfalso
    apply hnc
    rw [hseg, hchk] at hc1 hc2
    refine ⟨hfin, ?_, ?_, ?_⟩
    · intro ht
      exact Decidable.byContradiction (fun hne => hc1 ⟨ht, hne⟩)
    · have h := not_or.1 hc2
      have h1 := Decidable.not_not.1 h.1
      rw [← h1]
      unfold endBlockLen
      by_cases hf : (chkOf L j).typ = footerType <;> simp [hf]
    · have h := not_or.1 hc2
      have h2 := Decidable.not_not.1 h.2
      rw [h2, hfull]
  · intro hck
    obtain ⟨_, c2, c3, c4⟩ := hck
    have hc1 : ¬ (s.chk.typ = deflateType ∧ (L.seg s.seg).sync ≠ 65535) := by
      rw [hseg, hchk]
      intro ⟨a, b⟩
      exact b (c2 a)
    have hc2 : ¬ ((if s.chk.typ ≠ footerType then s.chk.csize + endBlockLen else s.chk.csize) ≠
        (L.seg s.seg).inOff ∨ s.chk.rsize ≠ ((s.zout + k : Nat) : Int)) := by
      rw [hseg, hchk, c3, c4, hfull]
      unfold endBlockLen
      intro h
      rcases h with h | h
      · apply h; by_cases hf : (chkOf L j).typ = footerType <;> simp [hf]
      · exact h rfl
    rw [readLoop]
    simp only [hz]
    rw [if_neg hc1, if_neg hc2]
    generalize hsk : seek Variant.fixed L _ (s.offset + (k : Int)) 0 = r
    have hoff : s.offset + (k : Int) = bnd L.recs (j + 1) := by
      have h1 : (chkOf L j).rsize = bnd L.recs (j + 1) - bnd L.recs j := by
        unfold chkOf
        simp only
        rw [gr_prev_raw _ _ (Nat.le_of_lt si.lt), gr_curr_raw_lt _ _ si.lt]
      have := si.off
      rw [c4] at h1
      omega
    have hsa := seek_next ok
      { ri := s.ri, offset := s.offset + ↑k, discard := s.discard,
        chk := { csize := if s.chk.typ ≠ footerType then s.chk.csize + endBlockLen else s.chk.csize,
                 rsize := s.chk.rsize, typ := s.chk.typ },
        seg := s.seg, zout := s.zout + k, err := s.err, fetched := s.fetched }
      j si.lt si.err si.ri hoff
    have hm : min (s.seg + 1) L.recs.length = j + 1 := by have := si.lt; omega
    rw [hsk] at hsa
    subst hsa
    unfold afterEof nextState
    simp only [hm]

theorem afterEof_last (ok : RecsOK L) (s : RState) (k j : Nat) (si : SI L j s)
    (hoff : s.offset + (k : Int) = bnd L.recs (j + 1)) (hj : j + 1 = L.recs.length) :
    (afterEof L s k).err = some .eof := by
  have hm : min (s.seg + 1) L.recs.length = j + 1 := by have := si.lt; have := si.seg; omega
  unfold afterEof nextState
  simp only [hm]
  rw [slowState_next ok _ j si.lt hoff]
  have ht : (chkOf L (j + 1)).typ = unknownType := by
    unfold chkOf; simp only; rw [hj, gr_curr_typ_len]
  simp only [ht, if_true]

theorem afterEof_mid (ok : RecsOK L) (s : RState) (k j : Nat) (si : SI L j s)
    (hoff : s.offset + (k : Int) = bnd L.recs (j + 1)) (hj : j + 1 < L.recs.length) :
    SI L (j + 1) (afterEof L s k) ∧ (afterEof L s k).zout = 0 := by
  have hm : min (s.seg + 1) L.recs.length = j + 1 := by have := si.lt; have := si.seg; omega
  unfold afterEof nextState
  simp only [hm]
  rw [slowState_next ok _ j si.lt hoff]
  have ht : (chkOf L (j + 1)).typ ≠ unknownType := by
    unfold chkOf; simp only; exact ok.typed _ hj
  simp only [ht, if_false]
  refine ⟨⟨rfl, rfl, hj, by show min (j + 2) L.recs.length = j + 1 + 1; omega, rfl, rfl, ?_, Nat.zero_le _⟩, trivial⟩
  show s.offset + (k : Int) = bnd L.recs (j + 1) + ((0 : Nat) : Int)
  rw [hoff]; simp

/-- what one `readLoop` call can end in, started at offset `z` of segment `j`. -/
def Outcome (L : Layout) (j z : Nat) (s' : RState) (data : List UInt8) : Prop :=
  (∃ e, s'.err = some e ∧ e ≠ .eof) ∨
  (s'.err = some .eof ∧ data = (L.seg j).out.drop z ++ tailOut L (j + 1) ∧
    ∀ i, j ≤ i → i < L.recs.length → Checked L i) ∨
  (∃ j', SI L j' s' ∧ j ≤ j' ∧
    (L.seg j).out.drop z ++ tailOut L (j + 1) =
      data ++ ((L.seg j').out.drop s'.zout ++ tailOut L (j' + 1)) ∧
    ∀ i, j ≤ i → i < j' → Checked L i)

theorem segBytes_eq' (s : RState) (j k : Nat) (hseg : s.seg = j) :
    segBytes L s k = ((L.seg j).out.drop s.zout).take k := by
  unfold segBytes; rw [hseg]

theorem readLoop_out (ok : RecsOK L) (n : Nat) (hn : 0 < n) : ∀ (fuel : Nat) (s : RState) (adv : Adv) (j : Nat)
    (s' : RState) (data : List UInt8), SI L j s →
    readLoop .fixed L n fuel s adv = some (s', data) → Outcome L j s.zout s' data := by
  intro fuel
  induction fuel with
  | zero => intro s adv j s' data _ h; simp [readLoop] at h
  | succ fuel ih =>
    intro s adv j s' data si h
    have hseg := si.seg
    have hzle := si.zle
    -- common treatment of the end of the segment
    have eofCase : ∀ k, s.zout + k = (L.seg j).out.length →
        zrRead (L.seg s.seg) s.zout n (adv.head?.getD (n, true)) = (k, some (L.seg j).fin) →
        Outcome L j s.zout s' data := by
      intro k hfull hz
      have hdata : segBytes L s k = (L.seg j).out.drop s.zout := by
        rw [segBytes_eq' s j k hseg]
        apply List.take_of_length_le
        rw [List.length_drop]; omega
      cases hfin : (L.seg j).fin with
      | some err =>
        rw [hfin] at hz
        rw [readLoop] at h
        simp only [hz] at h
        simp only [Option.some.injEq, Prod.mk.injEq] at h
        left
        refine ⟨err, by rw [← h.1], ?_⟩
        intro he
        exact ok.finOK j (by rw [hfin, he])
      | none =>
        rw [hfin] at hz
        obtain ⟨hbad, hgood⟩ := readLoop_eof' ok n fuel s adv k j si hfull hfin hz
        by_cases hck : Checked L j
        · have hr := hgood hck
          have hoff : s.offset + (k : Int) = bnd L.recs (j + 1) := by
            have h1 : (chkOf L j).rsize = bnd L.recs (j + 1) - bnd L.recs j := by
              unfold chkOf
              simp only
              rw [gr_prev_raw _ _ (Nat.le_of_lt si.lt), gr_curr_raw_lt _ _ si.lt]
            have := si.off
            rw [hck.2.2.2] at h1
            omega
          rcases Nat.lt_or_ge (j + 1) L.recs.length with hj | hj
          · -- a further segment follows
            obtain ⟨si', hz0⟩ := afterEof_mid ok s k j si hoff hj
            by_cases hk : k = 0 ∧ (afterEof L s k).err = none
            · rw [hr, if_pos hk] at h
              have o := ih _ _ (j + 1) s' data si' h
              rw [hz0] at o
              have hk0 : k = 0 := hk.1
              have hdrop : (L.seg j).out.drop s.zout = [] := by
                apply List.drop_of_length_le; omega
              rcases o with o | ⟨e1, e2, e3⟩ | ⟨j', sj, hle, e2, e3⟩
              · exact Or.inl o
              · right; left
                refine ⟨e1, ?_, ?_⟩
                · rw [hdrop, List.nil_append, tailOut_lt L (j + 1) hj, e2, List.drop_zero]
                · intro i h1 h2
                  rcases Nat.lt_or_ge j i with h3 | h3
                  · exact e3 i h3 h2
                  · have : i = j := by omega
                    subst this; exact hck
              · right; right
                refine ⟨j', sj, by omega, ?_, ?_⟩
                · rw [hdrop, List.nil_append, tailOut_lt L (j + 1) hj, ← e2, List.drop_zero]
                · intro i h1 h2
                  rcases Nat.lt_or_ge j i with h3 | h3
                  · exact e3 i h3 h2
                  · have : i = j := by omega
                    subst this; exact hck
            · rw [hr, if_neg hk] at h
              simp only [Option.some.injEq, Prod.mk.injEq] at h
              right; right
              refine ⟨j + 1, by rw [← h.1]; exact si', by omega, ?_, ?_⟩
              · rw [← h.1, ← h.2, hz0, hdata, List.drop_zero, tailOut_lt L (j + 1) hj]
              · intro i h1 h2
                have : i = j := by omega
                subst this; exact hck
          · -- this was the last segment
            have hjl : j + 1 = L.recs.length := by have := si.lt; omega
            have he := afterEof_last ok s k j si hoff hjl
            have hk : ¬ (k = 0 ∧ (afterEof L s k).err = none) := by
              intro hk; rw [he] at hk; cases hk.2
            rw [hr, if_neg hk] at h
            simp only [Option.some.injEq, Prod.mk.injEq] at h
            right; left
            refine ⟨by rw [← h.1]; exact he, ?_, ?_⟩
            · rw [← h.2, hdata, hjl, tailOut_len, List.append_nil]
            · intro i h1 h2
              have : i = j := by omega
              subst this; exact hck
        · obtain ⟨sb, hr, hb⟩ := hbad hck
          rw [hr] at h
          simp only [Option.some.injEq, Prod.mk.injEq] at h
          left
          exact ⟨.corrupted, by rw [← h.1]; exact hb, by decide⟩
    by_cases hrem : (L.seg s.seg).out.length - s.zout = 0
    · have hz := zr_zero (L.seg s.seg) s.zout n (adv.head?.getD (n, true)) hrem
      rw [hseg] at hrem
      refine eofCase 0 (by omega) ?_
      rw [hz, hseg]
    · obtain ⟨k, hk1, _, hkr, hz⟩ := zr_pos (L.seg s.seg) s.zout n (adv.head?.getD (n, true)) hrem (by omega)
      rcases hz with hz | ⟨hkeq, hz⟩
      · rw [readLoop_data n fuel s adv k (by omega) hz] at h
        simp only [Option.some.injEq, Prod.mk.injEq] at h
        rw [hseg] at hkr
        right; right
        refine ⟨j, ?_, Nat.le_refl _, ?_, by intro i h1 h2; omega⟩
        · rw [← h.1]
          exact ⟨si.err, si.seg, si.lt, si.ri, si.chk, si.disc,
            by show s.offset + (k : Int) = bnd L.recs j + ((s.zout + k : Nat) : Int); have := si.off; omega,
            by show s.zout + k ≤ _; omega⟩
        · rw [← h.1, ← h.2, segBytes_eq' s j k hseg]
          show _ = _ ++ (List.drop (s.zout + k) _ ++ _)
          rw [← List.append_assoc, ← List.drop_drop, List.take_append_drop]
      · rw [hseg] at hkeq
        refine eofCase k (by omega) ?_
        rw [hz, hseg]

/-- a sequential read from the middle of segment `j` that ends in `io.EOF`. -/
theorem seqRead_out (ok : RecsOK L) (n : Nat) (hn : 0 < n) : ∀ (fuel : Nat) (s : RState) (advs : List Adv)
    (acc : List UInt8) (j : Nat) (d : List UInt8), SI L j s →
    seqRead L n fuel s advs acc = (d, some .eof) →
    d = acc ++ ((L.seg j).out.drop s.zout ++ tailOut L (j + 1)) ∧
    ∀ i, j ≤ i → i < L.recs.length → Checked L i := by
  intro fuel
  induction fuel with
  | zero => intro s advs acc j d _ h; simp [seqRead] at h
  | succ fuel ih =>
    intro s advs acc j d si h
    rw [seqRead] at h
    have hread : XFlate.read .fixed L s n (advs.headD []) (readFuel L) =
        match readLoop .fixed L n (readFuel L) s (advs.headD []) with
        | none => none
        | some (s2, data) => some (s2, data, s2.err) := by
      unfold XFlate.read
      rw [if_neg (by rw [si.err]; simp), if_neg (by intro h; omega)]
      have hds : discardStep L s = s := by
        unfold discardStep; rw [if_neg (by rw [si.disc]; omega)]
      simp only [hds]
      rw [if_neg (by rw [si.err]; simp)]
      cases readLoop Variant.fixed L n (readFuel L) s (advs.headD []) <;> rfl
    rw [hread] at h
    cases hrl : readLoop .fixed L n (readFuel L) s (advs.headD []) with
    | none => rw [hrl] at h; simp at h
    | some v =>
      obtain ⟨s2, data⟩ := v
      rw [hrl] at h
      dsimp only at h
      rcases readLoop_out ok n hn _ _ _ _ _ _ si hrl with ⟨e, he, hne⟩ | ⟨he, hd, hck⟩ | ⟨j', sj, hle, hd, hck⟩
      · rw [he] at h
        simp only [ne_eq, reduceCtorEq, not_false_eq_true, if_true, Prod.mk.injEq, Option.some.injEq] at h
        exact absurd h.2 hne
      · rw [he] at h
        simp only [ne_eq, reduceCtorEq, not_false_eq_true, if_true, Prod.mk.injEq, and_true] at h
        exact ⟨by rw [← h, hd], hck⟩
      · rw [sj.err] at h
        simp only [ne_eq, not_true_eq_false, if_false] at h
        obtain ⟨e1, e2⟩ := ih _ _ _ _ _ sj h
        refine ⟨by rw [e1, List.append_assoc, ← hd], ?_⟩
        intro i h1 h2
        rcases Nat.lt_or_ge i j' with h3 | h3
        · exact hck i h1 h3
        · exact e2 i h3 h2

/-- **the walk.** A sequential read of a freshly opened reader that ends in `io.EOF` has
    delivered the outputs of all segments in order, and every segment passed `Read`'s checks. -/
theorem seq_accept (ok : RecsOK L) (n fuel : Nat) (hn : 0 < n) (advs : List Adv) (d : List UInt8)
    (hs : seqRead L n fuel (opened .fixed L) advs [] = (d, some .eof)) :
    d = tailOut L 0 ∧ ∀ i, i < L.recs.length → Checked L i := by
  obtain ⟨e1, e2⟩ := seqRead_out ok n hn fuel _ advs [] 0 d (opened_si ok) hs
  have hz : (opened .fixed L).zout = 0 := by
    have := (opened_si ok).off
    have h0 : (opened Variant.fixed L).offset = 0 := by
      unfold opened
      rw [seek_eq L preOpen 0 0 (Or.inl rfl)]
      have hsp : specSeek L.endRaw preOpen.offset 0 0 = some 0 := by simp [specSeek]
      rw [hsp]
      show (seekTo L preOpen 0).1.offset = 0
      unfold seekTo
      split <;> rfl
    rw [h0, bnd_zero] at this
    omega
  rw [hz, List.drop_zero, List.nil_append, ← tailOut_lt L 0 ok.pos] at e1
  exact ⟨e1, fun i hi => e2 i (Nat.zero_le _) hi⟩

end

end Compress.Proofs.XFlateAccept
