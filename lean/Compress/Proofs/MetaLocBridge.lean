/-
From the byte window of `ReverseSearch` to bits of the stream (C16 / M4).
-/
import Compress.Proofs.MetaLocSearch
import Compress.Proofs.MetaStream

namespace Compress.Proofs.MetaLoc
open Compress Compress.Meta Compress.Proofs.Meta

theorem getD_ofNat : ∀ (n v j : Nat), (Bits.ofNat v n).getD j false = (decide (j < n) && v.testBit j)
  | 0, v, j => by simp [Bits.ofNat]
  | n+1, v, 0 => by
    simp only [Bits.ofNat, List.getD_cons_zero, Nat.testBit_zero]
    by_cases h : v % 2 = 1 <;> simp [h]
  | n+1, v, j+1 => by
    simp only [Bits.ofNat, List.getD_cons_succ, getD_ofNat n (v / 2) j, Nat.testBit_add_one]
    by_cases h : j < n <;> simp [h]

theorem getD_append_left' (a b : Bits) (j : Nat) (h : j < a.length) :
    (a ++ b).getD j false = a.getD j false := by
  simp [List.getD_eq_getElem?_getD, List.getElem?_append_left h]

theorem getD_append_right' (a b : Bits) (j : Nat) :
    (a ++ b).getD (a.length + j) false = b.getD j false := by
  simp [List.getD_eq_getElem?_getD, List.getElem?_append_right]

theorem getD_ofBytes : ∀ (B : List UInt8) (i r : Nat), r < 8 →
    (Bits.ofBytes B).getD (8 * i + r) false = (B.getD i 0).toNat.testBit r
  | [], i, r, _ => by simp [Bits.ofBytes]
  | b :: bs, 0, r, hr => by
    simp only [Bits.ofBytes, Nat.mul_zero, Nat.zero_add, List.getD_cons_zero]
    rw [getD_append_left' _ _ _ (by rw [length_ofByte]; exact hr)]
    unfold Bits.ofByte
    rw [getD_ofNat]
    simp [hr]
  | b :: bs, i+1, r, hr => by
    simp only [Bits.ofBytes, List.getD_cons_succ]
    have e : 8 * (i + 1) + r = (Bits.ofByte b).length + (8 * i + r) := by rw [length_ofByte]; omega
    rw [e, getD_append_right', getD_ofBytes bs i r hr]

theorem window_testBit (B : List UInt8) (i q r : Nat) (hq : q < 4) (hr : r < 8) :
    (window B i).testBit (8 * q + r) = (B.getD (i + q) 0).toNat.testBit r := by
  have ha := UInt8.toNat_lt (B.getD i 0)
  have hb := UInt8.toNat_lt (B.getD (i + 1) 0)
  have hc := UInt8.toNat_lt (B.getD (i + 2) 0)
  have e : window B i = 2 ^ 8 * (2 ^ 8 * (2 ^ 8 * (B.getD (i + 3) 0).toNat + (B.getD (i + 2) 0).toNat) +
      (B.getD (i + 1) 0).toNat) + (B.getD i 0).toNat := by
    unfold window; omega
  rw [e]
  have hcases : q = 0 ∨ q = 1 ∨ q = 2 ∨ q = 3 := by omega
  rcases hcases with rfl | rfl | rfl | rfl
  · rw [Nat.testBit_two_pow_mul_add _ ha, if_pos (by omega)]
    simp only [Nat.mul_zero, Nat.zero_add, Nat.add_zero]
  · rw [Nat.testBit_two_pow_mul_add _ ha, if_neg (by omega), Nat.testBit_two_pow_mul_add _ hb,
      if_pos (by omega)]
    congr 1; omega
  · rw [Nat.testBit_two_pow_mul_add _ ha, if_neg (by omega), Nat.testBit_two_pow_mul_add _ hb,
      if_neg (by omega), Nat.testBit_two_pow_mul_add _ hc, if_pos (by omega)]
    congr 1; omega
  · rw [Nat.testBit_two_pow_mul_add _ ha, if_neg (by omega), Nat.testBit_two_pow_mul_add _ hb,
      if_neg (by omega), Nat.testBit_two_pow_mul_add _ hc, if_neg (by omega)]
    congr 1; omega

theorem window_testBit_bits (B : List UInt8) (i j : Nat) (hj : j < 32) :
    (window B i).testBit j = (Bits.ofBytes B).getD (8 * i + j) false := by
  have e1 : j = 8 * (j / 8) + j % 8 := by omega
  have e2 : 8 * i + j = 8 * (i + j / 8) + j % 8 := by omega
  rw [e2, getD_ofBytes _ _ _ (by omega)]
  conv => lhs; rw [e1]
  exact window_testBit B i (j / 8) (j % 8) (by omega) (by omega)

/-- a signature match at byte `i` fixes the masked bits of the stream. -/
theorem magicAt_bit (B : List UInt8) (i j : Nat) (hm : magicAt B i = true) (hj : j < 32)
    (hmask : magicMask.testBit j = true) :
    (Bits.ofBytes B).getD (8 * i + j) false = magicVals.testBit j := by
  have h : window B i &&& magicMask = magicVals := by simpa [magicAt] using hm
  have := congrArg (fun x => Nat.testBit x j) h
  simp only [Nat.testBit_and, hmask, Bool.and_true] at this
  rw [← window_testBit_bits B i j hj, this]

/-- the same for the bytes of an aligned bit list. -/
theorem magicAt_toBytes_bit (L : Bits) (hal : L.length % 8 = 0) (i j : Nat)
    (hm : magicAt (Bits.toBytes L) i = true) (hj : j < 32) (hmask : magicMask.testBit j = true) :
    L.getD (8 * i + j) false = magicVals.testBit j := by
  have := magicAt_bit (Bits.toBytes L) i j hm hj hmask
  rwa [ofBytes_toBytes L hal] at this

end Compress.Proofs.MetaLoc
