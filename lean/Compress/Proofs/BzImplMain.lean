/-
The refinement theorem for the Go-shaped model of bzip2.Reader, assembled from the stage
lemmas: (a) Read loop / RLE1 resumption (`run_spec`), (b) framing (`beh_init_spec`),
(c) prefix-code section and (e) shared MTF/BWT/CRC stages (`block_sim`), (d) decode tables
(`tables_agree_complete`, `tables_agree_degenerate`).
-/
import Compress.Proofs.BzImplStream
import Compress.Proofs.BzImplTabD

namespace Compress.Proofs.BzImpl
open Compress Compress.Bzip2 Compress.Prefix
open Compress.Bzip2.Impl (Err M State)

/-- the named hypothesis that remains when only the fast path of stage (d) is used: tables
    built by `handleDegenerateCodes` + `Decoder.Init` for vectors that are not Kraft-equal decode
    like libbzip2's tables. -/
def DegenerateTablesAgree : Prop := TablesAgreeOn (fun lens => ¬ Complete lens)

theorem tablesAgree_of_degenerate (hD : DegenerateTablesAgree) : TablesAgree := by
  intro lens n hl _
  by_cases hc : Complete lens
  · exact tables_agree_complete lens n hl hc
  · exact hD lens n hl hc

/-- what the property says about one run `r` of the reader model against the reference result `s`;
    `sched` are the buffer lengths of the successive `Read` calls. -/
structure RefinesCore (r : Impl.Run) (s : Result) (sched : List Nat) : Prop where
  /-- everything delivered is a prefix of the reference output -/
  pref : r.delivered <+: s.out.toList
  /-- an error (io.EOF included) is returned only after all of the reference output -/
  all_before_error : ∀ e, r.err = some e →
    r.delivered = s.out.toList
  /-- io.EOF only if the reference accepts -/
  eof_sound : r.err = some .eof → s.verdict = .ok
  /-- if the reference accepts, the only error ever returned is io.EOF -/
  eof_complete : s.verdict = .ok → ∀ e, r.err = some e → e = .eof
  /-- deprecated exactly when the reference meets a bzip1 header or a randomised block -/
  deprecated_sound : r.err = some .deprecated → s.verdict = .deprecated
  deprecated_complete : s.verdict = .deprecated →
    ∀ e, r.err = some e → e = .deprecated
  /-- unexpected EOF only if the reference runs out of input -/
  ueof_sound : r.err = some .unexpectedEOF → s.verdict = .unexpectedEOF
  /-- what the reference calls corrupt the reader calls corrupted; the reader may call an input
      corrupted that the reference reports as cut short (never one the reference accepts or calls deprecated) -/
  corrupt_complete : s.verdict = .corrupt →
    ∀ e, r.err = some e → e = .corrupted
  corrupted_sound : r.err = some .corrupted →
    s.verdict = .corrupt ∨ s.verdict = .unexpectedEOF
  /-- progress: every Read with a non-empty buffer delivers at least one byte or returns the
      error, so a schedule with more such Reads than the reference output has bytes reaches the end -/
  progress : s.out.size < (sched.filter (0 < ·)).length → r.err ≠ none
  /-- sticky error: after the error every later Read, whatever its size, returns no data, the same
      error, and leaves the state alone -/
  sticky : ∀ e, r.err = some e → ∀ m,
    Impl.read (Impl.readFuel r.final) m r.final =
      (r.final, [], some e)

/-- the property for the input `bytes` and the schedule `sched` of `Read` buffer lengths (zeros
    allowed; the run stops at the first error or when the schedule is used up). -/
def Refines (bytes : List UInt8) (sched : List Nat) : Prop :=
  RefinesCore (Impl.run bytes sched) (Bzip2.decode bytes) sched

theorem refines_core (r : Impl.Run) (s : Result) (b : List UInt8 × Err) (sched : List Nat)
    (hp : r.delivered <+: b.1)
    (he : ∀ e, r.err = some e → r.delivered = b.1 ∧ e = b.2 ∧
      ∀ m, Impl.read (Impl.readFuel r.final) m r.final = (r.final, [], some e))
    (hn : r.err = none → (sched.filter (0 < ·)).length ≤ r.delivered.length)
    (ho : b.1 = s.out.toList) (heof : b.2 = .eof ↔ s.verdict = .ok)
    (hrel : b.2 ≠ .eof → ErrRel b.2 s.verdict) : RefinesCore r s sched := by
  have hclass : ∀ e, r.err = some e → e ≠ .eof → ErrRel e s.verdict := by
    intro e h1 h2
    obtain ⟨_, h3, _⟩ := he e h1
    subst h3
    exact hrel h2
  have hnoteof : ∀ e, r.err = some e → s.verdict ≠ .ok → e ≠ .eof := by
    intro e h hv h2
    subst h2
    obtain ⟨_, h3, _⟩ := he _ h
    exact hv (heof.1 h3.symm)
  refine
    { pref := by rw [← ho]; exact hp
      all_before_error := fun e h => by rw [← ho]; exact (he e h).1
      eof_sound := fun h => by
        obtain ⟨_, h3, _⟩ := he _ h
        exact heof.1 h3.symm
      eof_complete := fun hv e h => by
        obtain ⟨_, h3, _⟩ := he e h
        rw [h3]; exact heof.2 hv
      deprecated_sound := fun h => by
        have := hclass _ h (by decide)
        generalize s.verdict = v at this
        cases this; rfl
      deprecated_complete := fun hv e h => by
        have := hclass e h (hnoteof e h (by rw [hv]; decide))
        rw [hv] at this
        cases this; rfl
      ueof_sound := fun h => by
        have := hclass _ h (by decide)
        generalize s.verdict = v at this
        cases this; rfl
      corrupt_complete := fun hv e h => by
        have := hclass e h (hnoteof e h (by rw [hv]; decide))
        rw [hv] at this
        cases this; rfl
      corrupted_sound := fun h => by
        have := hclass _ h (by decide)
        generalize s.verdict = v at this
        cases this
        · exact Or.inl rfl
        · exact Or.inr rfl
      progress := fun hlt hnone => by
        have h1 := hn hnone
        have h2 : r.delivered.length ≤ s.out.toList.length := by
          rw [← ho]; exact hp.length_le
        simp only [Array.length_toList] at h2
        omega
      sticky := fun e h m => (he e h).2.2 m }

theorem refines_of_tables (hT : TablesAgree) (bytes : List UInt8) (sched : List Nat) :
    Refines bytes sched := by
  obtain ⟨hp, he, hn⟩ := run_spec bytes sched
  obtain ⟨ho, heof, hrel⟩ := beh_init_spec hT bytes
  exact refines_core _ _ _ sched hp he hn ho heof hrel

/-- **schedule independence** (corollary): two runs over the same input that both ended delivered
    the same bytes and ended with the same error; in general what they delivered is comparable. -/
theorem schedule_independent (hT : TablesAgree) (bytes : List UInt8) (s1 s2 : List Nat) :
    ((Impl.run bytes s1).delivered <+: (Impl.run bytes s2).delivered ∨
      (Impl.run bytes s2).delivered <+: (Impl.run bytes s1).delivered) ∧
    (∀ e1 e2, (Impl.run bytes s1).err = some e1 → (Impl.run bytes s2).err = some e2 →
      (Impl.run bytes s1).delivered = (Impl.run bytes s2).delivered ∧ e1 = e2) := by
  obtain ⟨hp1, he1, _⟩ := run_spec bytes s1
  obtain ⟨hp2, he2, _⟩ := run_spec bytes s2
  refine ⟨List.prefix_or_prefix_of_prefix hp1 hp2, fun e1 e2 h1 h2 => ?_⟩
  obtain ⟨a1, a2, _⟩ := he1 e1 h1
  obtain ⟨b1, b2, _⟩ := he2 e2 h2
  exact ⟨a1.trans b1.symm, a2.trans b2.symm⟩

end Compress.Proofs.BzImpl
