/-
C02 refinement, complex prefix codes (RFC 7932 section 3.5), first half: the code length code.
`readCLens` (model) against `readCodeLengthCodeLengths` (specification), in continuation
passing style: the model never fails in this loop on its own account, it notices an over- or
under-subscribed code only in `prefixDecoder.Init`; the specification fails at once.
-/
import Compress.Proofs.BrImplComplexAux

namespace Compress.Proofs.BrImpl.Complex
open Compress Compress.Brotli Compress.Prefix

/-- `CodeRel` as one simulation: same symbol, inside the alphabet. -/
theorem codeRel_sim {n : Nat} {d : Decoder} {c : PrefixCode} (h : CodeRel n d c) :
    SimRel (fun a b => a = b ∧ b < n) (Impl.readSymbol d) (Brotli.readSymbol c) := by
  intro st
  have h0 := h.1 st
  unfold SimAt at h0 ⊢
  rcases hx : Impl.readSymbol d (brOf st) with ⟨e | a, r⟩ <;>
    rcases hy : Brotli.readSymbol c st with ⟨e' | b, st'⟩ <;>
    rw [hx, hy] at h0 <;> simp only at h0 ⊢
  · exact h0
  · obtain ⟨k, h1, h2, h3, h4⟩ := h0
    exact ⟨k, h1, h2, h3, h4, h.2 st st' b hy⟩

/-- the specification side fails at once. -/
theorem spec_corrupt {α β γ : Type} {R : α → β → Prop} {x : Impl.M α} (g : γ → Dec β)
    (hx : ∀ r, ∃ e r', x r = (.error e, r') ∧ e ≠ .eof) :
    SimRel R x ((Brotli.corrupt : Dec γ) >>= g) :=
  SimRel.fail hx (fun s => ⟨.corrupt, s, rfl, rfl⟩)

/-! ### the fixed code for the code length code lengths -/

theorem decCLens_rel (hI : InitTreeRel) : CodeRel 6 Impl.decCLens codeLengthCodeLengthCode := by
  obtain ⟨d, h1, h2⟩ := hI Impl.codeCLens 6 (by decide) (by decide) (by decide) (by decide) (by decide)
  have hd : Impl.decCLens = d := by
    unfold Impl.decCLens
    rw [h1]; rfl
  have hl : lensArr 6 Impl.codeCLens = codeLengthCodeLengths := by decide
  rw [hd, codeLengthCodeLengthCode, ← hl]
  exact h2

/-! ### the loop -/

theorem readCLens_nil (sum : Int) (arr : Array Nat) : Impl.readCLens [] sum arr = pure arr := rfl

theorem readCLens_cons (sym : Nat) (rest : List Nat) (sum : Int) (arr : Array Nat) :
    Impl.readCLens (sym :: rest) sum arr =
      Impl.readSymbol Impl.decCLens >>= fun clen =>
        if clen > 0 then
          if sum - ((32 >>> clen : Nat) : Int) ≤ 0 then pure (arr.setIfInBounds sym clen)
          else Impl.readCLens rest (sum - ((32 >>> clen : Nat) : Int)) (arr.setIfInBounds sym clen)
        else Impl.readCLens rest sum arr := rfl

theorem readCLCL_nil (space num : Nat) (acc : Array Nat) :
    readCodeLengthCodeLengths [] space num acc = if space = 0 ∨ num = 1 then pure acc else corrupt := rfl

theorem readCLCL_cons (pos : Nat) (rest : List Nat) (space num : Nat) (acc : Array Nat) :
    readCodeLengthCodeLengths (pos :: rest) space num acc =
      Brotli.readSymbol codeLengthCodeLengthCode >>= fun v =>
        if v = 0 then readCodeLengthCodeLengths rest space num acc
        else if 32 >>> v > space then corrupt
        else if 32 >>> v = space then pure (acc.setIfInBounds pos v)
        else readCodeLengthCodeLengths rest (space - 32 >>> v) (num + 1) (acc.setIfInBounds pos v) := rfl

/-- loop invariant of the code length code loop. -/
structure CLInv (l : List Nat) (sum : Int) (space num : Nat) (arr : Array Nat) : Prop where
  size : arr.size = 18
  le5 : ∀ x ∈ arr.toList, x ≤ 5
  nodup : l.Nodup
  zero : ∀ p ∈ l, arr.toList[p]? = some 0
  sum_eq : sum = (space : Int)
  pos : 0 < space
  cnt_eq : cnt arr.toList = num
  ws_eq : ws arr.toList + space = 32

/-- final arrays on which the specification succeeds. -/
def CLGood (arr : Array Nat) : Prop :=
  arr.size = 18 ∧ (∀ x ∈ arr.toList, x ≤ 5) ∧ (ws arr.toList = 32 ∨ cnt arr.toList = 1)

/-- final arrays on which the specification has failed. -/
def CLBad (arr : Array Nat) : Prop :=
  arr.size = 18 ∧ (∀ x ∈ arr.toList, x ≤ 5) ∧
    (cnt arr.toList = 0 ∨ (2 ≤ cnt arr.toList ∧ ws arr.toList ≠ 32))

theorem clens_loop {α β : Type} {R' : α → β → Prop} (f : Array Nat → Impl.M α) (g : Array Nat → Dec β)
    (hgood : ∀ arr, CLGood arr → SimRel R' (f arr) (g arr))
    (hbad : ∀ arr, CLBad arr → ∀ r, ∃ e r', f arr r = (.error e, r') ∧ e ≠ .eof)
    (hC : CodeRel 6 Impl.decCLens codeLengthCodeLengthCode) :
    ∀ (l : List Nat) (sum : Int) (space num : Nat) (arr : Array Nat), CLInv l sum space num arr →
      SimRel R' (Impl.readCLens l sum arr >>= f) (readCodeLengthCodeLengths l space num arr >>= g) := by
  intro l
  induction l with
  | nil =>
    intro sum space num arr inv
    rw [readCLens_nil, readCLCL_nil, M_pure_bind]
    have hpos := inv.pos
    by_cases h1 : num = 1
    · rw [if_pos (Or.inr h1), Dec_pure_bind]
      exact hgood arr ⟨inv.size, inv.le5, Or.inr (inv.cnt_eq.trans h1)⟩
    · rw [if_neg (by omega)]
      refine spec_corrupt g (hbad arr ⟨inv.size, inv.le5, ?_⟩)
      have := inv.cnt_eq
      have := inv.ws_eq
      omega
  | cons p rest ih =>
    intro sum space num arr inv
    rw [readCLens_cons, readCLCL_cons, M_bind_assoc, Dec_bind_assoc]
    refine SimRel.bind (codeRel_sim hC) ?_
    rintro v _ ⟨rfl, hv⟩
    have hnd := List.nodup_cons.1 inv.nodup
    by_cases hv0 : v = 0
    · rw [if_neg (by omega), if_pos hv0]
      exact ih sum space num arr
        { inv with nodup := hnd.2, zero := fun q hq => inv.zero q (List.mem_cons_of_mem _ hq) }
    · rw [if_pos (by omega), if_neg hv0, shr32 v (by omega) (by omega)]
      have hp0 : arr.toList[p]? = some 0 := inv.zero p List.mem_cons_self
      obtain ⟨hc, hw⟩ := cnt_ws_set arr.toList p v hp0 (by omega)
      have hsz : (arr.setIfInBounds p v).size = 18 := by simpa using inv.size
      have hle : ∀ x ∈ (arr.setIfInBounds p v).toList, x ≤ 5 := by
        intro x hx
        rw [Array.toList_setIfInBounds] at hx
        rcases List.mem_or_eq_of_mem_set hx with h | h
        · exact inv.le5 x h
        · omega
      have hws := inv.ws_eq
      have hcnt := inv.cnt_eq
      have hsum := inv.sum_eq
      have hwle := ws_le arr.toList
      have hp16 : 2 ^ (5 - v) ≤ 2 ^ 4 := Nat.pow_le_pow_right (by omega) (by omega)
      by_cases h1 : 2 ^ (5 - v) > space
      · rw [if_pos (by omega), if_pos h1, M_pure_bind]
        refine spec_corrupt g (hbad _ ⟨hsz, hle, Or.inr ?_⟩)
        rw [Array.toList_setIfInBounds, hc, hw]
        constructor <;> omega
      · by_cases h2 : 2 ^ (5 - v) = space
        · rw [if_pos (by omega), if_neg h1, if_pos h2, M_pure_bind, Dec_pure_bind]
          refine hgood _ ⟨hsz, hle, Or.inl ?_⟩
          rw [Array.toList_setIfInBounds, hw]; omega
        · rw [if_neg (by omega), if_neg h1, if_neg h2]
          refine ih _ _ _ _ ⟨hsz, hle, hnd.2, ?_, ?_, by omega, ?_, ?_⟩
          · intro q hq
            rw [Array.toList_setIfInBounds, List.getElem?_set_ne]
            · exact inv.zero q (List.mem_cons_of_mem _ hq)
            · rintro rfl; exact hnd.1 hq
          · omega
          · rw [Array.toList_setIfInBounds, hc]; omega
          · rw [Array.toList_setIfInBounds, hw]; omega

end Compress.Proofs.BrImpl.Complex
