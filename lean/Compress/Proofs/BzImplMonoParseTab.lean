/-
Prefix-monotonicity, tables: the two-level table of a prefix-free code list that covers every
long bit string is monotone and consumes input; the tables of `ReadPrefixCodes` and `decSel`.
-/
import Compress.Proofs.BzImplMonoDefs
import Compress.Proofs.BzImplSels
import Compress.Proofs.BzImplTabC
import Compress.Proofs.BzImplTabD

namespace Compress.Proofs.BzImpl
open Compress Compress.Bzip2 Compress.Prefix
open Compress.Bzip2.Impl (Err M State)
open Compress.Proofs.PrefixCodes Compress.Proofs.PrefixTables

/-- what `Impl.readSymbol` does on the table of a prefix-free covering code list. -/
theorem readSymbol_cover (cs : List Code) (h2 : 2 ≤ cs.length)
    (hl : ∀ c ∈ cs, 1 ≤ c.len ∧ c.len ≤ 27) (hv : ∀ c ∈ cs, c.val < 2 ^ c.len)
    (pf : PrefixFree cs) (c : Code) (hc : c ∈ cs) (bits : Bits) (k : Nat)
    (hp : c.word <+: bits ++ List.replicate k false) :
    Impl.readSymbol (Decoder.init cs) bits =
      if c.len ≤ bits.length then .ok (c.sym, bits.drop c.len)
      else .error (.unexpectedEOF, bits) := by
  obtain ⟨hsz, hrs⟩ := TabD.readSymbol_of_prefix cs h2 hl hv pf c hc bits k hp
  unfold Impl.readSymbol
  rw [if_neg hsz, hrs]
  by_cases hle : c.len ≤ bits.length
  · rw [if_pos hle, if_pos hle]
  · rw [if_neg hle, if_neg hle]

theorem treeOK_of_cover (cs : List Code) (h2 : 2 ≤ cs.length)
    (hl : ∀ c ∈ cs, 1 ≤ c.len ∧ c.len ≤ 27) (hv : ∀ c ∈ cs, c.val < 2 ^ c.len)
    (pf : PrefixFree cs) (L : Nat)
    (hcov : ∀ bits : Bits, ∃ c ∈ cs, c.word <+: bits ++ List.replicate L false) :
    TreeOK (Decoder.init cs) := by
  constructor
  · intro xs ys
    obtain ⟨c, hc, hp⟩ := hcov xs
    have hx := readSymbol_cover cs h2 hl hv pf c hc xs L hp
    have hwl : c.word.length = c.len := TabD.word_length c
    by_cases hle : c.len ≤ xs.length
    · rw [if_pos hle] at hx
      have hwp : c.word <+: xs :=
        List.prefix_of_prefix_length_le hp (List.prefix_append _ _) (by rw [hwl]; exact hle)
      have hwp' : c.word <+: (xs ++ ys) ++ List.replicate 0 false := by
        obtain ⟨r, hr⟩ := hwp
        exact ⟨r ++ ys, by rw [← hr]; simp⟩
      have hy := readSymbol_cover cs h2 hl hv pf c hc (xs ++ ys) 0 hwp'
      rw [if_pos (by rw [List.length_append]; omega),
        List.drop_append_of_le_length hle] at hy
      constructor
      · intro v rest h
        rw [hx] at h
        cases h
        exact hy
      · intro e r h
        rw [hx] at h
        cases h
    · rw [if_neg hle] at hx
      constructor
      · intro v rest h
        rw [hx] at h
        cases h
      · intro e r h hne
        rw [hx] at h
        cases h
        exact absurd rfl hne
  · intro bits s rest h
    obtain ⟨c, hc, hp⟩ := hcov bits
    have hx := readSymbol_cover cs h2 hl hv pf c hc bits L hp
    rw [hx] at h
    have hpos := (hl c hc).1
    by_cases hle : c.len ≤ bits.length
    · rw [if_pos hle] at h
      cases h
      rw [List.length_drop]
      omega
    · rw [if_neg hle] at h
      cases h

/-! ### the complete path -/

theorem treeOK_complete (lens : List Nat) (numSyms : Nat) (hok : LensOK lens numSyms)
    (hc : Impl.kraftSum lens = 2 ^ maxPrefixBits) :
    Impl.treeOfLens lens = some (Decoder.init (csOf lens)) ∧ TreeOK (Decoder.init (csOf lens)) := by
  obtain ⟨hlen, h3, h258, hl⟩ := hok
  have h2 : 2 ≤ lens.length := by omega
  have hk := kraftComplete_of_sum lens (fun l h => (hl l h).2) hc
  obtain ⟨hgp, hg⟩ := gp_complete lens h2 hl hk
  obtain ⟨hv, hE, hrange, -⟩ := BzRT.codeSpec lens h2 hl hk
  refine ⟨?_, ?_⟩
  · unfold Impl.treeOfLens
    rw [if_pos hc, hgp]
  have hmax : maxB (BzRT.codesOf lens) ≤ 20 :=
    foldl_max_le _ 0 20 (Nat.zero_le _) (fun c hc => by
      have : c.len ∈ (BzRT.codesOf lens).map (·.len) := List.mem_map.2 ⟨c, hc, rfl⟩
      rw [BzRT.codesOf_lens] at this
      exact (hl _ this).2)
  apply treeOK_of_cover (csOf lens) hg.two
    (fun c hc => by have := hg.lens c hc; simp only [valueBits] at this; exact this)
    hg.vals hg.pf 20
  intro bits
  exact cover (BzRT.codesOf lens) hE (bits ++ List.replicate 20 false)
    (by rw [List.length_append, List.length_replicate]; omega)

/-! ### the degenerate path -/

open Compress.Proofs.BzImpl.TabD in
theorem treeOK_deg (lens : List Nat) (n : Nat) (hok : LensOK lens n) :
    TreeOK (Decoder.init (Impl.handleDegenerateCodes lens)) := by
  have h := stOK lens n hok
  obtain ⟨hleaf, hpf, hcov⟩ := explore_root (mkCTab lens) n h
  generalize hcs : Impl.handleDegenerateCodes lens = cs
  generalize ht : mkCTab lens = t at h hleaf hpf hcov
  have mem : ∀ c, c ∈ cs → Mem (Impl.exploreCode t 23 { sym := 0 }
      { valid := Array.replicate 258 { sym := 0 } }).2 c := by
    intro c hc
    rw [← hcs, mem_handle] at hc
    unfold finalEx at hc
    rw [ht] at hc
    exact hc
  have mem' : ∀ c, Mem (Impl.exploreCode t 23 { sym := 0 }
      { valid := Array.replicate 258 { sym := 0 } }).2 c → c ∈ cs := by
    intro c hc
    rw [← hcs, mem_handle]
    unfold finalEx
    rw [ht]
    exact hc
  have hM := h.max_le
  have hl : ∀ c ∈ cs, 1 ≤ c.len ∧ c.len ≤ 27 := fun c hc => by
    have := hleaf c (mem c hc)
    exact ⟨this.len_pos, by have := this.len_le; omega⟩
  have hv : ∀ c ∈ cs, c.val < 2 ^ c.len := fun c hc => (hleaf c (mem c hc)).val_lt
  have pf : PrefixFree cs := fun a ha b hb hne => hpf a b (mem a ha) (mem b hb) hne
  have h2 : 2 ≤ cs.length := by
    obtain ⟨a, ha, hap⟩ := hcov (List.replicate 21 false) (by simp)
    obtain ⟨b, hb, hbp⟩ := hcov (List.replicate 21 true) (by simp)
    apply two_le_of_mem cs a b (mem' a ha) (mem' b hb)
    intro hab
    subst hab
    have hpos := (hleaf a ha).len_pos
    have hwl := TabD.word_length a
    obtain ⟨r1, hr1⟩ := hap
    obtain ⟨r2, hr2⟩ := hbp
    cases hw : a.word with
    | nil => rw [hw] at hwl; simp at hwl; omega
    | cons x xs =>
      rw [hw] at hr1 hr2
      have e1 : x = false := by
        have := congrArg List.head? hr1
        simpa [List.replicate_succ] using this
      have e2 : x = true := by
        have := congrArg List.head? hr2
        simpa [List.replicate_succ] using this
      rw [e1] at e2
      cases e2
  apply treeOK_of_cover cs h2 hl hv pf 21
  intro bits
  obtain ⟨c, hcm, hcp⟩ := hcov (bits ++ List.replicate 21 false) (by simp)
  exact ⟨c, mem' c hcm, hcp⟩

/-! ### the selector table -/

theorem selList_cover (bits : Bits) :
    ∃ c ∈ selList, c.word <+: bits ++ List.replicate 6 false := by
  match bits with
  | [] => exact ⟨{ sym := 0, len := 1, val := 0 }, by decide, ⟨_, rfl⟩⟩
  | [true] => exact ⟨{ sym := 1, len := 2, val := 1 }, by decide, ⟨_, rfl⟩⟩
  | [true, true] => exact ⟨{ sym := 2, len := 3, val := 3 }, by decide, ⟨_, rfl⟩⟩
  | [true, true, true] => exact ⟨{ sym := 3, len := 4, val := 7 }, by decide, ⟨_, rfl⟩⟩
  | [true, true, true, true] => exact ⟨{ sym := 4, len := 5, val := 15 }, by decide, ⟨_, rfl⟩⟩
  | [true, true, true, true, true] =>
    exact ⟨{ sym := 5, len := 6, val := 31 }, by decide, ⟨_, rfl⟩⟩
  | false :: rest => exact ⟨{ sym := 0, len := 1, val := 0 }, by decide, ⟨_, rfl⟩⟩
  | true :: false :: rest => exact ⟨{ sym := 1, len := 2, val := 1 }, by decide, ⟨_, rfl⟩⟩
  | true :: true :: false :: rest =>
    exact ⟨{ sym := 2, len := 3, val := 3 }, by decide, ⟨_, rfl⟩⟩
  | true :: true :: true :: false :: rest =>
    exact ⟨{ sym := 3, len := 4, val := 7 }, by decide, ⟨_, rfl⟩⟩
  | true :: true :: true :: true :: false :: rest =>
    exact ⟨{ sym := 4, len := 5, val := 15 }, by decide, ⟨_, rfl⟩⟩
  | true :: true :: true :: true :: true :: false :: rest =>
    exact ⟨{ sym := 5, len := 6, val := 31 }, by decide, ⟨_, rfl⟩⟩
  | true :: true :: true :: true :: true :: true :: rest =>
    exact ⟨{ sym := 6, len := 6, val := 63 }, by decide, ⟨_, rfl⟩⟩

theorem decSel_ok' : TreeOK Impl.decSel := by
  rw [decSel_eq]
  have hg := selList_good
  exact treeOK_of_cover selList hg.two
    (fun c hc => by have := hg.lens c hc; simp only [valueBits] at this; exact this)
    hg.vals hg.pf 6 selList_cover

/-- the empty table rejects everything: trivially monotone. -/
theorem treeOK_empty : TreeOK ({} : Decoder) := by
  have h : ∀ bits, Impl.readSymbol ({} : Decoder) bits = .error (.corrupted, bits) := by
    intro bits; simp [Impl.readSymbol]
  constructor
  · intro xs ys
    constructor
    · intro v rest hx; rw [h] at hx; cases hx
    · intro e r hx _; rw [h] at hx; cases hx; exact ⟨_, h _⟩
  · intro bits s rest hx; rw [h] at hx; cases hx

end Compress.Proofs.BzImpl
