/-
bzip2 round trip: selectors (round-robin tree choice, move-to-front, unary code).
-/
import Compress.Proofs.BzRTBits

namespace Compress.Proofs.BzRT
open Compress Compress.Bzip2 Compress.Prefix

theorem mtfSelsEncode_acc (sels dict acc : List Nat) :
    mtfSelsEncode sels dict acc = acc.reverse ++ mtfSelsEncode sels dict [] := by
  induction sels generalizing dict acc with
  | nil => simp [mtfSelsEncode]
  | cons v vs ih =>
    simp only [mtfSelsEncode]
    rw [ih _ (_ :: acc), ih _ [_]]
    simp

theorem unary_selCode (idx : Nat) (rest : Bits) (fuel n : Nat) (h : idx < fuel) :
    readSels.unary fuel n (List.replicate idx true ++ false :: rest) = .ok (n + idx, rest) := by
  induction idx generalizing fuel n with
  | zero =>
    obtain ⟨f, rfl⟩ : ∃ f, fuel = f + 1 := ⟨fuel - 1, by omega⟩
    simp [readSels.unary]
  | succ k ih =>
    obtain ⟨f, rfl⟩ : ∃ f, fuel = f + 1 := ⟨fuel - 1, by omega⟩
    simp only [List.replicate_succ, List.cons_append, readSels.unary]
    rw [ih f (n+1) (by omega)]
    congr 2; omega

/-- every value below `numTrees` sits at an index below `numTrees`. -/
def SelInv (numTrees : Nat) (dict : List Nat) : Prop :=
  ∀ v < numTrees, ∃ idx < numTrees, dict[idx]? = some v

theorem selInv_find {numTrees : Nat} {dict : List Nat} (hd : SelInv numTrees dict) {v : Nat}
    (hv : v < numTrees) :
    ∃ idx, dict.findIdx? (· == v) = some idx ∧ idx < numTrees ∧ dict[idx]? = some v := by
  obtain ⟨j, hj, hjv⟩ := hd v hv
  obtain ⟨hjl, hje⟩ := List.getElem?_eq_some_iff.mp hjv
  have hsome : (dict.findIdx? (· == v)).isSome := by
    rw [List.findIdx?_isSome, List.any_eq_true]
    exact ⟨v, hje ▸ List.getElem_mem hjl, by simp⟩
  obtain ⟨idx, hidx⟩ := Option.isSome_iff_exists.mp hsome
  refine ⟨idx, hidx, ?_, ?_⟩
  · obtain ⟨hl, hp, hmin⟩ := List.findIdx?_eq_some_iff_getElem.mp hidx
    apply Classical.byContradiction
    intro hcon
    exact hmin j (by omega) (by simp [hje])
  · obtain ⟨hl, hp, hmin⟩ := List.findIdx?_eq_some_iff_getElem.mp hidx
    rw [List.getElem?_eq_getElem hl]
    simpa using hp

theorem selInv_step {numTrees : Nat} (h1 : 1 ≤ numTrees) {dict : List Nat}
    (hd : SelInv numTrees dict) {v idx : Nat} (hidx : idx < numTrees) (hg : dict[idx]? = some v) :
    SelInv numTrees (v :: (dict.take idx ++ dict.drop (idx + 1))) := by
  rw [← List.eraseIdx_eq_take_drop_succ]
  intro w hw
  by_cases hwv : w = v
  · exact ⟨0, by omega, by simp [hwv]⟩
  · obtain ⟨j, hj, hjw⟩ := hd w hw
    have hne : j ≠ idx := by
      rintro rfl
      rw [hg] at hjw
      exact hwv (by injection hjw with h; exact h.symm)
    by_cases hlt : j < idx
    · refine ⟨j + 1, by omega, ?_⟩
      simp [List.getElem?_eraseIdx, hlt, hjw]
    · obtain ⟨k, rfl⟩ : ∃ k, j = k + 1 := ⟨j - 1, by omega⟩
      refine ⟨k + 1, hj, ?_⟩
      have : ¬ k < idx := by omega
      simp [List.getElem?_eraseIdx, this, hjw]

theorem sels_aux (numTrees : Nat) (h1 : 1 ≤ numTrees) (h6 : numTrees ≤ 6) (rest : Bits) :
    ∀ (sels dict : List Nat), (∀ v ∈ sels, v < numTrees) → SelInv numTrees dict →
    (∀ racc, readSels numTrees sels.length racc
        (((mtfSelsEncode sels dict []).map selCode).flatten ++ rest)
      = .ok (racc.reverse ++ mtfSelsEncode sels dict [], rest)) ∧
    (∀ dacc, mtfSels (mtfSelsEncode sels dict []) dict dacc = dacc.reverse ++ sels) := by
  intro sels
  induction sels with
  | nil => intro dict _ _; simp [mtfSelsEncode, readSels, mtfSels]
  | cons v vs ih =>
    intro dict hs hd
    obtain ⟨idx, hf, hidx, hg⟩ := selInv_find hd (hs v (by simp))
    have hd' := selInv_step h1 hd hidx hg
    obtain ⟨ih1, ih2⟩ := ih _ (fun w hw => hs w (by simp [hw])) hd'
    have henc : mtfSelsEncode (v :: vs) dict [] =
        idx :: mtfSelsEncode vs (v :: (dict.take idx ++ dict.drop (idx + 1))) [] := by
      simp only [mtfSelsEncode, hf, Option.getD_some]
      rw [mtfSelsEncode_acc]; simp
    rw [henc]
    constructor
    · intro racc
      have hsc : selCode idx = List.replicate idx true ++ [false] := by
        simp [selCode, show idx < 6 by omega]
      simp only [List.map_cons, List.flatten_cons, List.length_cons, readSels, hsc,
        List.append_assoc, List.cons_append, List.nil_append]
      rw [unary_selCode idx _ 6 0 (by omega)]
      simp only [Nat.zero_add, ge_iff_le, show ¬ numTrees ≤ idx by omega, if_false]
      rw [ih1]; simp
    · intro dacc
      simp only [mtfSels, hg]
      rw [ih2]; simp

theorem sels_roundtrip (numTrees numSels : Nat) (h1 : 1 ≤ numTrees) (h6 : numTrees ≤ 6) (rest : Bits) :
    let sels := (List.range numSels).map (· % numTrees)
    let M := mtfSelsEncode sels (List.range 6) []
    readSels numTrees numSels [] ((M.map selCode).flatten ++ rest) = .ok (M, rest) ∧
    mtfSels M (List.range 6) [] = sels := by
  intro sels M
  have hs : ∀ v ∈ sels, v < numTrees := by
    intro v hv
    simp only [sels, List.mem_map] at hv
    obtain ⟨a, _, rfl⟩ := hv
    exact Nat.mod_lt _ (by omega)
  have hd : SelInv numTrees (List.range 6) := by
    intro v hv
    exact ⟨v, hv, by simp [show v < 6 by omega]⟩
  obtain ⟨a, b⟩ := sels_aux numTrees h1 h6 rest sels (List.range 6) hs hd
  have hl : sels.length = numSels := by simp [sels]
  constructor
  · have := a []
    rw [hl] at this
    simpa using this
  · simpa using b []

end Compress.Proofs.BzRT
