/-
bzip2 cut: `readLens` / `readTables` are prefix-monotone, and `readTables` only
produces tables of non-empty length vectors within 1..20.
-/
import Compress.Proofs.BzCutCore

namespace Compress.Proofs.BzCut
open Compress Compress.Bzip2

theorem readLens_succ_succ_eq (fuel n clen : Nat) (acc : List Nat) (bits : Bits) :
    readLens (fuel + 1) (n + 1) clen acc bits =
      (if clen < 1 ∨ clen > maxPrefixBits then (fun _ => .error .corrupt : Parser (List Nat)) bits
       else bitP (fun b => if b then bitP (fun b2 => if b2 then readLens fuel (n + 1) (clen - 1) acc
                                            else readLens fuel (n + 1) (clen + 1) acc)
                           else readLens fuel n clen (clen :: acc)) bits) := by
  by_cases hc : clen < 1 ∨ clen > maxPrefixBits
  · rw [if_pos hc]; simp only [readLens, if_pos hc]
  · rw [if_neg hc]
    cases bits with
    | nil => simp only [readLens, if_neg hc, bitP]
    | cons b tl =>
      cases b with
      | false => simp only [readLens, if_neg hc, bitP, Bool.false_eq_true, if_false]
      | true =>
        cases tl with
        | nil => simp only [readLens, if_neg hc, bitP, if_true]
        | cons b2 tl2 =>
          cases b2 <;> simp only [readLens, if_neg hc, bitP, Bool.false_eq_true, if_false, if_true]

theorem readLens_prefixOK (fuel n clen : Nat) (acc : List Nat) : PrefixOK (readLens fuel n clen acc) := by
  induction fuel generalizing n clen acc with
  | zero =>
    refine PrefixOK.congr (prefixOK_error .corrupt) (fun bits => ?_)
    simp only [readLens]
  | succ f ih =>
    cases n with
    | zero =>
      refine PrefixOK.congr (liftE_prefixOK (.ok acc.reverse)) (fun bits => ?_)
      simp only [readLens, liftE, Except.map]
    | succ n =>
      refine PrefixOK.congr (PrefixOK.ite (c := clen < 1 ∨ clen > maxPrefixBits)
        (fun _ => prefixOK_error .corrupt) (fun _ => bitP_prefixOK (fun b => ?_)))
        (fun bits => readLens_succ_succ_eq f n clen acc bits)
      cases b with
      | false => exact ih _ _ _
      | true =>
        refine bitP_prefixOK (fun b2 => ?_)
        cases b2 with
        | false => exact ih _ _ _
        | true => exact ih _ _ _

theorem readTables_succ_eq (k numSyms : Nat) (acc : List CTab) (bits : Bits) :
    readTables (k + 1) numSyms acc bits =
      bindP (beP 5) (fun clen => bindP (readLens (numSyms * 64 + 64) numSyms clen [])
        (fun lens => readTables k numSyms (mkCTab lens :: acc))) bits := by
  cases h5 : readBE 5 bits with
  | none =>
    rw [bindP_error (e := .unexpectedEOF)]
    · simp only [readTables, h5]
    · simp only [beP, h5, Option.elim]
  | some x =>
    obtain ⟨clen, rest⟩ := x
    rw [bindP_ok (v := clen) (rest := rest)]
    · cases hl : readLens (numSyms * 64 + 64) numSyms clen [] rest with
      | error e =>
        rw [bindP_error _ _ _ _ hl]
        simp only [readTables, h5, hl]
      | ok y =>
        obtain ⟨lens, rest'⟩ := y
        rw [bindP_ok _ _ _ _ _ hl]
        simp only [readTables, h5, hl]
    · simp only [beP, h5, Option.elim]

theorem readTables_prefixOK (k numSyms : Nat) (acc : List CTab) : PrefixOK (readTables k numSyms acc) := by
  induction k generalizing acc with
  | zero =>
    refine PrefixOK.congr (liftE_prefixOK (.ok acc.reverse)) (fun bits => ?_)
    simp only [readTables, liftE, Except.map]
  | succ k ih =>
    refine PrefixOK.congr (PrefixOK.bind (beP_prefixOK 5) (fun _ clen _ _ =>
      PrefixOK.bind (readLens_prefixOK _ _ _ _) (fun _ lens _ _ => ih _)))
      (fun bits => readTables_succ_eq k numSyms acc bits)

theorem readLens_range (fuel n clen : Nat) (acc : List Nat) (bits : Bits) (lens : List Nat) (rest : Bits)
    (hacc : ∀ l ∈ acc, 1 ≤ l ∧ l ≤ maxPrefixBits)
    (h : readLens fuel n clen acc bits = .ok (lens, rest)) :
    (∀ l ∈ lens, 1 ≤ l ∧ l ≤ maxPrefixBits) ∧ lens.length = acc.length + n := by
  induction fuel generalizing n clen acc bits with
  | zero => simp [readLens] at h
  | succ f ih =>
    cases n with
    | zero =>
      simp only [readLens, Except.ok.injEq, Prod.mk.injEq] at h
      obtain ⟨rfl, _⟩ := h
      refine ⟨fun l hl => hacc l (by simpa using hl), by simp⟩
    | succ n =>
      rw [readLens_succ_succ_eq] at h
      by_cases hc : clen < 1 ∨ clen > maxPrefixBits
      · rw [if_pos hc] at h; cases h
      · rw [if_neg hc] at h
        cases bits with
        | nil => simp [bitP] at h
        | cons b tl =>
          cases b with
          | false =>
            simp only [bitP, Bool.false_eq_true, if_false] at h
            have := ih n clen (clen :: acc) tl (by
              intro l hl
              rcases List.mem_cons.1 hl with rfl | hl
              · omega
              · exact hacc l hl) h
            refine ⟨this.1, ?_⟩
            rw [this.2, List.length_cons]; omega
          | true =>
            cases tl with
            | nil => simp [bitP] at h
            | cons b2 tl2 =>
              cases b2 with
              | false =>
                simp only [bitP, Bool.false_eq_true, if_false, if_true] at h
                exact ih (n + 1) _ acc tl2 hacc h
              | true =>
                simp only [bitP, if_true] at h
                exact ih (n + 1) _ acc tl2 hacc h

theorem readTables_good (k numSyms : Nat) (hn : 1 ≤ numSyms) (acc : List CTab) (bits : Bits)
    (tabs : List CTab) (rest : Bits) (hacc : ∀ t ∈ acc, GoodTab t)
    (h : readTables k numSyms acc bits = .ok (tabs, rest)) : ∀ t ∈ tabs, GoodTab t := by
  induction k generalizing acc bits with
  | zero =>
    simp only [readTables, Except.ok.injEq, Prod.mk.injEq] at h
    obtain ⟨rfl, _⟩ := h
    intro t ht
    exact hacc t (by simpa using ht)
  | succ k ih =>
    rw [readTables_succ_eq] at h
    obtain ⟨clen, r1, _, h2⟩ := bindP_eq_ok _ _ _ _ _ h
    obtain ⟨lens, r2, h3, h4⟩ := bindP_eq_ok _ _ _ _ _ h2
    have hr := readLens_range _ _ _ _ _ _ _ (by intro l hl; cases hl) h3
    refine ih (mkCTab lens :: acc) r2 ?_ h4
    intro t ht
    rcases List.mem_cons.1 ht with rfl | ht
    · refine ⟨lens, rfl, ?_, hr.1⟩
      intro he
      have := hr.2
      rw [he] at this
      simp at this
      omega
    · exact hacc t ht

end Compress.Proofs.BzCut
