/-
C16 (converse of M2), part (c): whatever the meta decoder accepts is, to RFC
1951, one complete dynamic block with an empty body.
-/
import Compress.Proofs.MetaConvShape
import Compress.Proofs.MetaSilent

namespace Compress.Proofs.MetaConv
open Compress Compress.Meta Compress.Flate Compress.Proofs.Meta Compress.Proofs.MetaSilent

/-- all code lengths of an accepted block: the header's zero symbol, the body
    (whatever run splitting it uses), the pads and the empty distance tree. -/
theorem rl_block_gen {cl : HuffTab} {h : Nat} (ok : ClOK cl h) (body : Bits) (st : SymState)
    (hloc : ∀ r, symLoop maxSyms {} (body ++ r) = .ok (st, r)) (hlen : st.out.length = 257)
    (pads : Nat) (rest : Bits) :
    readLengths cl (258 + pads + 1) (258 + pads) []
        ([false] ++ (body ++ (List.replicate pads false ++ ([false] ++ rest)))) =
      .ok (st.out.map (L h) ++ List.replicate (pads + 1) 0, rest) := by
  simp only [List.cons_append, List.nil_append]
  rw [rl_zero ok _ _ [] _ (by simp; omega)]
  obtain ⟨f1, e1, u1⟩ := symLoop_rl ok (258 + pads) maxSyms {} _ st _ (258 + pads)
    (hloc (List.replicate pads false ++ (false :: rest))) (by omega) rfl (by simp)
  have e0 : ((({} : SymState).out.map (L h)).reverse) = [0] := rfl
  rw [e0] at e1
  rw [e1]
  have e : List.replicate pads false ++ (false :: rest) = List.replicate (pads + 1) false ++ rest := by
    rw [List.replicate_succ']; simp
  rw [e]
  obtain ⟨f2, e2, u2⟩ := rl_zeros ok (258 + pads) (pads + 1) f1 ((st.out.map (L h)).reverse) rest
    (by simp [hlen]; omega) (by simp [hlen]; omega)
  rw [e2, rl_done]
  · simp
  · simp [hlen]; omega

/-- the header of an accepted block as a dynamic DEFLATE block header. -/
theorem readDynamic_gen (h pads : Nat) (body : Bits) (st : SymState) (tail : Bits)
    (h1 : 1 ≤ h) (h7 : h ≤ 7) (hp : pads < 8)
    (hloc : ∀ r, symLoop maxSyms {} (body ++ r) = .ok (st, r)) (hlen : st.out.length = 257)
    (hc : Bits.countOnes st.out = 2 ^ h) :
    readDynamic (Bits.ofNat pads 5 ++ (Bits.ofNat 0 5 ++ (Bits.ofNat (2 * (8 - h)) 4 ++
      (fieldBits (fields h) ++ ([false] ++ (body ++
        (List.replicate pads false ++ ([false] ++ tail)))))))) =
      .ok (litHuff h st.out pads, ⟨#[0]⟩, tail) := by
  have hn : pads + 257 + (0 + 1) = 258 + pads := by omega
  have hbad : ¬ (pads + 257 > 286 ∨ 0 + 1 > 30) := by omega
  have hlit : List.take (pads + 257) (List.map (L h) st.out ++ List.replicate (pads + 1) 0) =
      litLens h st.out pads := by
    rw [List.replicate_succ', ← List.append_assoc]
    rw [List.take_left' (by simp [hlen]; omega)]
    rfl
  have hdist : List.drop (pads + 257) (List.map (L h) st.out ++ List.replicate (pads + 1) 0) = [0] := by
    rw [List.replicate_succ', ← List.append_assoc]
    rw [List.drop_left' (by simp [hlen]; omega)]
  have hlv : (!(litHuff h st.out pads).valid) = false := by
    rw [litHuff_valid h st.out pads h1 h7 hc]; rfl
  have hcv : (!(clHuff h).valid) = false := by rw [clHuff_valid h h1 h7]; rfl
  have hdv : (!(⟨#[0]⟩ : Huff).valid) = false := by rw [distHuff_valid]; rfl
  unfold readDynamic
  rw [takeBits_ofNat_lt 5 pads _ (by omega)]
  simp only
  rw [takeBits_ofNat_lt 5 0 _ (by omega)]
  simp only
  rw [takeBits_ofNat_lt 4 (2 * (8 - h)) _ (by omega)]
  simp only [hbad, if_false]
  rw [readCLens_meta h h1 h7]
  simp only
  rw [show (⟨clLens h⟩ : Huff) = clHuff h from rfl, hcv]
  simp only [Bool.false_eq_true, if_false]
  rw [clHuff_tab h h1 h7, hn, rl_block_gen (clTab_ok h h7) body st hloc hlen pads tail]
  simp only [hlit, hdist]
  rw [show (⟨(litLens h st.out pads).toArray⟩ : Huff) = litHuff h st.out pads from rfl, hlv]
  rw [show ([0] : List Nat).toArray = #[0] from rfl, hdv]
  simp

/-- the accepted bits, cut into the fields an RFC 1951 decoder reads. -/
theorem accBits_fields (fs h pads : Nat) (body rest : Bits) (hfs : fs < 2) (h1 : 1 ≤ h) (hp : pads < 8) :
    accBits fs h pads body ++ rest =
      Bits.ofNat fs 1 ++ (Bits.ofNat 2 2 ++
        (Bits.ofNat pads 5 ++ (Bits.ofNat 0 5 ++ (Bits.ofNat (2 * (8 - h)) 4 ++
          (fieldBits (fields h) ++ ([false] ++ (body ++
            (List.replicate pads false ++ ([false] ++
              (List.replicate h true ++ rest)))))))))) := by
  rw [← fieldBits_eq]
  unfold accBits hclensBits
  rw [magic_bits fs hfs (8 - h) (by omega) pads hp]
  simp only [List.append_assoc]

/-- **shape ⇒ silent.** -/
theorem accBits_silent (fs h pads : Nat) (body : Bits) (st : SymState)
    (hfs : fs < 2) (h1 : 1 ≤ h) (h7 : h ≤ 7) (hp : pads < 8)
    (hloc : ∀ r, symLoop maxSyms {} (body ++ r) = .ok (st, r)) (hlen : st.out.length = 257)
    (hc : Bits.countOnes st.out = 2 ^ h) (hg : st.out.getD 256 false = true)
    (total fuel : Nat) (out : Array UInt8) (rest : Bits) :
    decodeBlocks total (fuel + 1) out (accBits fs h pads body ++ rest) =
      if fs = 1 then
        { out := out, verdict := .ok (total - rest.length + padTo8 (total - rest.length)) }
      else decodeBlocks total fuel out rest := by
  rw [accBits_fields fs h pads body rest hfs h1 hp]
  exact decodeBlocks_dyn total fuel out _ _ _ _ rest _ _ _
    (takeBits_ofNat_lt 1 _ _ (by omega))
    (takeBits_ofNat_lt 2 2 _ (by omega))
    (readDynamic_gen h pads body st _ h1 h7 hp hloc hlen hc)
    (inflate_eob _ _ _ out _ rest (litHuff_decode_eob h st.out pads rest h1 h7 hlen hg hc))

/-- **Converse of M2 (block).** Whatever `decodeBlock` accepts — any code length
    `h` that fits, any splitting of the runs — is a whole number of bytes which
    the RFC 1951 specification reads, wherever they stand in a stream and
    whatever follows them, as one complete dynamic block with an empty body: no
    output, exactly the accepted bits consumed, and the stream ends there iff the
    decoded mode is `FinalStream`. -/
theorem accepted_block_silent (bs : Bits) (blk : Block) (hd : decodeBlock bs = .ok blk)
    (total fuel : Nat) (out : Array UInt8) (rest : Bits) :
    blk.consumed ≤ bs.length ∧ blk.consumed % 8 = 0 ∧
    decodeBlocks total (fuel + 1) out (bs.take blk.consumed ++ rest) =
      if blk.final = .fstream then
        { out := out, verdict := .ok (total - rest.length + padTo8 (total - rest.length)) }
      else decodeBlocks total fuel out rest := by
  obtain ⟨fs, h, pads, body, st, hfs, h1, h7, hp, hbs, hcons, hal, hloc, hlen, hc, hg, hfin⟩ :=
    accepted_shape bs blk hd
  have hle : blk.consumed ≤ bs.length := by
    have := congrArg List.length hbs
    rw [List.length_append, ← hcons] at this
    omega
  have htake : bs.take blk.consumed = accBits fs h pads body := by
    rw [hbs, hcons, List.take_left]
  refine ⟨hle, hal, ?_⟩
  rw [htake, accBits_silent fs h pads body st hfs h1 h7 hp hloc hlen hc hg]
  by_cases hf : fs = 1
  · rw [if_pos hf, if_pos (hfin.2 hf)]
  · rw [if_neg hf, if_neg (fun hh => hf (hfin.1 hh))]

end Compress.Proofs.MetaConv
