/-
C15 helpers: where the specification meets the first final block (`finalHeader`), the run of
complete non-final blocks in front of it, and relocation of a decode inside a longer stream.
-/
import Compress.Proofs.XAHist

namespace Compress.Proofs.XFlateAccept
open Compress Compress.Flate Compress.Proofs.FlatePrefix

/-- The number of bits still unread when the specification (`Flate.decodeBlocks`, same
    arguments), having decoded zero or more complete non-final blocks, stands in front of the
    header of a block whose final bit is set; `none` when it never gets there (error, end of
    input, fuel). -/
def finalHeader (total : Nat) : Nat → Array UInt8 → Bits → Option Nat
  | 0, _, _ => none
  | fuel+1, out, bits =>
    match takeBits 1 bits with
    | none => none
    | some (bfinal, b1) =>
      if bfinal = 1 then some bits.length
      else
        match takeBits 2 b1 with
        | none => none
        | some (btype, b2) =>
          match blockBody (total - b2.length) btype out b2 with
          | (_, .error _) => none
          | (out', .ok rest) => finalHeader total fuel out' rest

theorem padTo8_congr {a b : Nat} (h : a % 8 = b % 8) : padTo8 a = padTo8 b := by
  unfold padTo8; rw [h]

theorem blockBody_congr {u u' : Nat} (h : u % 8 = u' % 8) (btype : Nat) (out : Array UInt8) (bits : Bits) :
    blockBody u btype out bits = blockBody u' btype out bits := by
  match btype with
  | 0 => rw [blockBody_zero, blockBody_zero, padTo8_congr h]
  | 1 => rfl
  | 2 => rfl
  | n + 3 => rfl

theorem goodO_ext {α : Type} {P : Bits → Option (α × Bits)} {c : Bits} {v : α} (g : GoodO P c v) (ys : Bits) :
    P (c ++ ys) = some (v, ys) := by
  rcases g (c ++ ys) (Or.inl (List.prefix_append c ys)) with ⟨ys', e, h⟩ | ⟨hl, _⟩
  · have e' := List.append_cancel_left e
    subst e'
    exact h
  · simp only [List.length_append] at hl; omega

theorem goodB_ext {P : Bits → Array UInt8 × Except Verdict Bits} {c : Bits} {o : Array UInt8}
    (g : GoodB P c o) (ys : Bits) : P (c ++ ys) = (o, .ok ys) := by
  rcases g (c ++ ys) (Or.inl (List.prefix_append c ys)) with ⟨ys', e, h⟩ | ⟨hl, _⟩
  · have e' := List.append_cancel_left e
    subst e'
    exact h
  · simp only [List.length_append] at hl; omega

/-- `c` is `k` complete non-final blocks taking the output from `out` to `outm`, wherever it is
    placed at a bit position congruent to `a` modulo 8 and whatever output precedes `out`. -/
def RunOK (a : Nat) (c : Bits) (k : Nat) (out outm : Array UInt8) : Prop :=
  ∀ (total f : Nat) (P : Array UInt8) (tail : Bits), (c ++ tail).length ≤ total →
    (total - (c ++ tail).length) % 8 = a % 8 →
    decodeBlocks total (f + k) (P ++ out) (c ++ tail) = decodeBlocks total f (P ++ outm) tail

theorem run_of_finalHeader : ∀ (fuel c0 : Nat) (out : Array UInt8) (xs : Bits) (r : Nat),
    finalHeader (c0 + xs.length) fuel out xs = some r →
    ∃ c rest k outm, xs = c ++ rest ∧ rest.length = r ∧ k < fuel ∧ 3 * k ≤ c.length ∧
      RunOK c0 c k out outm := by
  intro fuel
  induction fuel with
  | zero => intro c0 out xs r h; simp [finalHeader] at h
  | succ fuel ih =>
    intro c0 out xs r h
    rw [finalHeader] at h
    cases h1 : takeBits 1 xs with
    | none => rw [h1] at h; simp at h
    | some v =>
      obtain ⟨bfinal, b1⟩ := v
      rw [h1] at h; dsimp only at h
      by_cases hf : bfinal = 1
      · rw [if_pos hf] at h
        simp only [Option.some.injEq] at h
        refine ⟨[], xs, 0, out, rfl, h, by omega, by simp, ?_⟩
        intro total f P tail _ _
        rfl
      rw [if_neg hf] at h
      cases h2 : takeBits 2 b1 with
      | none => rw [h2] at h; simp at h
      | some v =>
        obtain ⟨btype, b2⟩ := v
        rw [h2] at h; dsimp only at h
        obtain ⟨c1, rfl, hc1, g1⟩ := takeBits_good h1
        obtain ⟨c2, rfl, hc2, g2⟩ := takeBits_good h2
        have hu : c0 + (c1 ++ (c2 ++ b2)).length - b2.length = c0 + 3 := by
          simp only [List.length_append]; omega
        rw [hu] at h
        cases hb : blockBody (c0 + 3) btype out b2 with
        | mk o1 rr =>
          rw [hb] at h
          cases rr with
          | error e => simp at h
          | ok rest1 =>
            dsimp only at h
            obtain ⟨c3, rfl, _, g3⟩ := blockBody_good _ _ _ _ _ _ hb
            have e : c0 + (c1 ++ (c2 ++ (c3 ++ rest1))).length = (c0 + 3 + c3.length) + rest1.length := by
              simp only [List.length_append]; omega
            rw [e] at h
            obtain ⟨c4, rest, k, outm, rfl, hr, hk, h3k, run⟩ := ih _ _ _ _ h
            refine ⟨c1 ++ (c2 ++ (c3 ++ c4)), rest, k + 1, outm, by simp, hr, by omega,
              by simp only [List.length_append]; omega, ?_⟩
            intro total f P tail hle hal
            have ef : f + (k + 1) = (f + k) + 1 := by omega
            rw [ef, decodeBlocks_succ]
            have ea : c1 ++ (c2 ++ (c3 ++ c4)) ++ tail = c1 ++ (c2 ++ (c3 ++ (c4 ++ tail))) := by simp
            rw [ea] at hle hal ⊢
            rw [goodO_ext g1]; dsimp only
            rw [goodO_ext g2]; dsimp only
            simp only [List.length_append] at hle hal
            have hcg : (total - (c3 ++ (c4 ++ tail)).length) % 8 = (c0 + 3) % 8 := by
              simp only [List.length_append]; omega
            rw [blockBody_congr hcg, blockBody_hist P _ _ _ _ _ _ (goodB_ext g3 (c4 ++ tail))]
            dsimp only
            rw [if_neg hf]
            exact run total f P tail (by simp only [List.length_append]; omega)
              (by simp only [List.length_append]; omega)

/-- moving a successful decode to a later byte position of a longer stream. -/
theorem decodeBlocks_shift (m : Nat) : ∀ (fuel total : Nat) (out : Array UInt8) (bits : Bits)
    (o : Array UInt8) (n : Nat), bits.length ≤ total →
    decodeBlocks total fuel out bits = { out := o, verdict := .ok n } →
    decodeBlocks (total + 8 * m) fuel out bits = { out := o, verdict := .ok (n + 8 * m) } := by
  intro fuel
  induction fuel with
  | zero =>
    intro total out bits o n _ h
    rw [decodeBlocks_zero] at h
    simp at h
  | succ fuel ih =>
    intro total out bits o n hle h
    rw [decodeBlocks_succ] at h ⊢
    cases h1 : takeBits 1 bits with
    | none => rw [h1] at h; simp at h
    | some v =>
      obtain ⟨bfinal, b1⟩ := v
      rw [h1] at h; dsimp only at h ⊢
      cases h2 : takeBits 2 b1 with
      | none => rw [h2] at h; simp at h
      | some v =>
        obtain ⟨btype, b2⟩ := v
        rw [h2] at h; dsimp only at h ⊢
        obtain ⟨c1, rfl, hc1, _⟩ := takeBits_good h1
        obtain ⟨c2, rfl, hc2, _⟩ := takeBits_good h2
        simp only [List.length_append] at hle
        have hcg : (total + 8 * m - b2.length) % 8 = (total - b2.length) % 8 := by omega
        rw [blockBody_congr hcg]
        cases hb : blockBody (total - b2.length) btype out b2 with
        | mk o1 r =>
          rw [hb] at h
          cases r with
          | error e =>
            dsimp only at h
            simp only [Result.mk.injEq] at h
            obtain ⟨_, rfl⟩ := h
            rcases blockBody_err _ _ _ _ _ _ hb with h' | h' <;> cases h'
          | ok b6 =>
            dsimp only at h ⊢
            obtain ⟨c3, rfl, _, _⟩ := blockBody_good _ _ _ _ _ _ hb
            simp only [List.length_append] at hle
            by_cases hf : bfinal = 1
            · rw [if_pos hf] at h ⊢
              simp only [Result.mk.injEq, Verdict.ok.injEq] at h
              obtain ⟨rfl, rfl⟩ := h
              have e1 : total + 8 * m - b6.length = (total - b6.length) + 8 * m := by omega
              have e2 : padTo8 (total - b6.length + 8 * m) = padTo8 (total - b6.length) :=
                padTo8_congr (by omega)
              rw [e1, e2]
              simp only [Result.mk.injEq, Verdict.ok.injEq, true_and]
              omega
            · rw [if_neg hf] at h ⊢
              exact ih _ _ _ _ _ (by omega) h

end Compress.Proofs.XFlateAccept
