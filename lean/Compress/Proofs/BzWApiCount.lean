/-
bzip2.Writer (API-level model): the `InputOffset`/`OutputOffset` bookkeeping,
the ghost `acc`, and append-only output, for every sink adversary, with or
without errors.
-/
import Compress.Bzip2.WriterApi
import Compress.Proofs.BzWApiBits
import Compress.Proofs.BzWApiLatch

namespace Compress.Proofs.BzWApi
open Compress Compress.Bzip2 Compress.XFlate

/-- InputOffset = bytes accepted, OutputOffset = bytes the sink accepted since it was attached. -/
def Counted (s : BzW) : Prop :=
  s.inOff = (s.acc.length : Int) ∧ s.outOff + (s.base.length : Int) = (s.bw.sink.got.length : Int) ∧
    s.bw.off = s.outOff

/-- the output half of `Counted`. -/
def OutCnt (s : BzW) : Prop :=
  s.outOff + (s.base.length : Int) = (s.bw.sink.got.length : Int) ∧ s.bw.off = s.outOff

/-- what the internal steps (`script`, `flush`, the loop of `Write`) leave alone. -/
structure Frame (s s' : BzW) : Prop where
  acc   : s'.acc = s.acc
  base  : s'.base = s.base
  inOff : s'.inOff = s.inOff
  level : s'.level = s.level
  got   : ∃ suf, s'.bw.sink.got = s.bw.sink.got ++ suf
  cnt   : OutCnt s → OutCnt s'

theorem Frame.refl (s : BzW) : Frame s s := ⟨rfl, rfl, rfl, rfl, ⟨[], by simp⟩, fun h => h⟩

theorem Frame.trans {a b c : BzW} (h1 : Frame a b) (h2 : Frame b c) : Frame a c := by
  obtain ⟨s1, g1⟩ := h1.got
  obtain ⟨s2, g2⟩ := h2.got
  exact ⟨h2.acc.trans h1.acc, h2.base.trans h1.base, h2.inOff.trans h1.inOff, h2.level.trans h1.level,
    ⟨s1 ++ s2, by rw [g2, g1, List.append_assoc]⟩, fun h => h2.cnt (h1.cnt h)⟩

/-- a change of fields other than the bit writer, the offsets and the ghosts. -/
theorem Frame.of_eq (s s' : BzW) (h1 : s'.acc = s.acc) (h2 : s'.base = s.base) (h3 : s'.inOff = s.inOff)
    (h4 : s'.level = s.level) (h5 : s'.bw = s.bw) (h6 : s'.outOff = s.outOff) : Frame s s' :=
  ⟨h1, h2, h3, h4, ⟨[], by simp [h5]⟩, fun h => by unfold OutCnt at h ⊢; rw [h2, h5, h6]; exact h⟩

theorem script_frame (s : BzW) (fs : List Field) : Frame s (s.script fs) := by
  have h1 := writeFields_step ({ s.bw with off := s.outOff } : BitW) fs
  have h2 := flush_step (({ s.bw with off := s.outOff } : BitW).writeFields fs).1
  refine ⟨rfl, rfl, rfl, rfl, ?_, fun h => ?_⟩
  · obtain ⟨a, ha⟩ := h1.got
    obtain ⟨b, hb⟩ := h2.got
    exact ⟨a ++ b, by simp only [BzW.script]; rw [hb, ha, List.append_assoc]⟩
  · have c0 : Cnt ({ s.bw with off := s.outOff } : BitW) s.base.length := h.1
    have c2 := h2.cnt _ (h1.cnt _ c0)
    exact ⟨c2, rfl⟩

theorem flushBlk_frame (s : BzW) : Frame s s.flushBlk := by
  rcases flushBlk_cases s with h | h | ⟨fs, ⟨h, _⟩ | ⟨h, _⟩⟩ <;> rw [h]
  · exact Frame.of_eq _ _ rfl rfl rfl rfl rfl rfl
  · exact Frame.of_eq _ _ rfl rfl rfl rfl rfl rfl
  · exact script_frame s fs
  · exact (script_frame s fs).trans (Frame.of_eq _ _ rfl rfl rfl rfl rfl rfl)

theorem writeLoop_frame : ∀ (fuel : Nat) (s : BzW) (d : List UInt8), Frame s (BzW.writeLoop fuel s d).1
  | 0, s, d => Frame.of_eq _ _ rfl rfl rfl rfl rfl rfl
  | fuel+1, s, d => by
    rw [BzW.writeLoop]
    simp only []
    have h0 : Frame s { s with rle := (RleW.write s.rle d 0).1, raw := s.raw ++ d.take (RleW.write s.rle d 0).2 } :=
      Frame.of_eq _ _ rfl rfl rfl rfl rfl rfl
    split
    · exact h0
    · split
      · exact h0.trans (flushBlk_frame _)
      · exact (h0.trans (flushBlk_frame _)).trans (writeLoop_frame fuel _ _)

theorem counted_reset (s : BzW) (sk : Sink) : Counted (s.reset sk) := by
  simp [Counted, BzW.reset]

theorem counted_write (s : BzW) (h : Counted s) (d : List UInt8) : Counted (s.write d).1 := by
  unfold BzW.write
  by_cases he : s.err ≠ none
  · simpa [he] using h
  · simp only [he, if_false]
    have hf := writeLoop_frame (d.length + 2) s d
    have hc := hf.cnt h.2
    cases hok : (BzW.writeLoop (d.length + 2) s d).2 with
    | true =>
      simp only [if_true]
      refine ⟨?_, hc⟩
      show (BzW.writeLoop (d.length + 2) s d).1.inOff + (d.length : Int)
        = (((BzW.writeLoop (d.length + 2) s d).1.acc ++ d).length : Int)
      rw [hf.inOff, hf.acc, h.1, List.length_append]
      omega
    | false =>
      simp only [Bool.false_eq_true, if_false]
      exact ⟨by rw [hf.inOff, hf.acc]; exact h.1, hc⟩

theorem close_frame (s : BzW) : Frame s (s.close).1 := by
  rw [close_eq]
  by_cases hd : s.done = true
  · rw [if_pos hd]; exact Frame.refl s
  · rw [if_neg hd]
    by_cases he : s.err ≠ none
    · rw [if_pos he]; exact Frame.refl s
    · rw [if_neg he]
      by_cases h1 : (s.flushBlk).err ≠ none
      · rw [if_pos h1]; exact flushBlk_frame s
      · rw [if_neg h1]
        generalize closeFields s.flushBlk = fs
        have h := (flushBlk_frame s).trans (script_frame s.flushBlk fs)
        by_cases h2 : (s.flushBlk.script fs).err ≠ none
        · rw [if_pos h2]; exact h
        · rw [if_neg h2]; exact h.trans (Frame.of_eq _ _ rfl rfl rfl rfl rfl rfl)

theorem counted_close (s : BzW) (h : Counted s) : Counted (s.close).1 := by
  have hf := close_frame s
  exact ⟨by rw [hf.inOff, hf.acc]; exact h.1, hf.cnt h.2⟩

/-- **the offsets are exact**: every op, every sink adversary, with or without errors. -/
theorem counted_step (s : BzW) (h : Counted s) (op : BzOp) : Counted (s.step op).1 := by
  cases op with
  | write d => exact counted_write s h d
  | close => exact counted_close s h
  | reset sk => exact counted_reset s sk

theorem counted_run : ∀ (ops : List BzOp) (s : BzW), Counted s → Counted (BzW.run s ops).1
  | [], _, h => h
  | op :: ops, s, h => by
    rw [BzW.run]
    exact counted_run ops _ (counted_step s h op)

/-- `acc` grows by exactly the bytes Write reports. -/
theorem write_acc (s : BzW) (d : List UInt8) :
    (s.write d).1.acc = s.acc ++ d.take (s.write d).2.1 ∧ (s.write d).2.1 ≤ d.length := by
  unfold BzW.write
  by_cases he : s.err ≠ none
  · simp [he]
  · simp only [he, if_false]
    have hf := writeLoop_frame (d.length + 2) s d
    cases hok : (BzW.writeLoop (d.length + 2) s d).2 with
    | true => simp [hf.acc]
    | false => simp [hf.acc]

theorem write_base_level (s : BzW) (d : List UInt8) :
    (s.write d).1.base = s.base ∧ (s.write d).1.level = s.level := by
  unfold BzW.write
  by_cases he : s.err ≠ none
  · simp [he]
  · simp only [he, if_false]
    have hf := writeLoop_frame (d.length + 2) s d
    cases hok : (BzW.writeLoop (d.length + 2) s d).2 with
    | true => simp [hf.base, hf.level]
    | false => simp [hf.base, hf.level]

theorem close_acc (s : BzW) :
    (s.close).1.acc = s.acc ∧ (s.close).1.base = s.base ∧ (s.close).1.level = s.level :=
  ⟨(close_frame s).acc, (close_frame s).base, (close_frame s).level⟩

theorem write_got (s : BzW) (d : List UInt8) : ∃ suf, (s.write d).1.bw.sink.got = s.bw.sink.got ++ suf := by
  unfold BzW.write
  by_cases he : s.err ≠ none
  · exact ⟨[], by simp [he]⟩
  · simp only [he, if_false]
    have hf := writeLoop_frame (d.length + 2) s d
    cases hok : (BzW.writeLoop (d.length + 2) s d).2 with
    | true => simpa using hf.got
    | false => simpa using hf.got

/-- **append-only**: no call other than Reset takes back or changes a byte the sink holds. -/
theorem sink_append_only (s : BzW) (op : BzOp) (h : op.noReset) :
    ∃ suf, (s.step op).1.bw.sink.got = s.bw.sink.got ++ suf := by
  cases op with
  | write d => exact write_got s d
  | close => exact (close_frame s).got
  | reset sk => exact absurd h (by simp [BzOp.noReset])

theorem run_append_only : ∀ (ops : List BzOp) (s : BzW), (∀ op ∈ ops, op.noReset) →
    ∃ suf, (BzW.run s ops).1.bw.sink.got = s.bw.sink.got ++ suf
  | [], s, _ => ⟨[], by simp [BzW.run]⟩
  | op :: ops, s, hn => by
    rw [BzW.run]
    obtain ⟨a, ha⟩ := sink_append_only s op (hn op (by simp))
    obtain ⟨b, hb⟩ := run_append_only ops (s.step op).1 (fun o ho => hn o (by simp [ho]))
    exact ⟨a ++ b, by simp only []; rw [hb, ha, List.append_assoc]⟩

end Compress.Proofs.BzWApi
