/-
C02 layer (f2): the labels of the Go `readCommands`, unfolded: what `doLabel`
does at each label in terms of the bit-reader actions it runs (`iacM`, `distM`,
`litLoop`) and of explicit state updates.  Model-side only.
-/
import Compress.Proofs.BrImplCmdLit

set_option linter.unusedSimpArgs false

namespace Compress.Proofs.BrImpl
open Compress Compress.Brotli Compress.Brotli.Impl Compress.Window Compress.Proofs.Window

theorem cmdLoop_succ (sd : ByteArray) (f : Nat) (l : Label) (s : State) :
    cmdLoop sd (f+1) l s =
      match doLabel sd l s with
      | (.ok (.goto l'), s1) => cmdLoop sd f l' s1
      | (.ok .ret, s1) => (.ok (), s1)
      | (.error e, s1) => (.error e, s1) := by
  simp only [cmdLoop, bind, S.bind]
  rcases doLabel sd l s with ⟨e | n, s1⟩
  · rfl
  · cases n <;> rfl

/-! ### startCommand -/

/-- the bit reads of `startCommand`. -/
def iacM (s : State) : M (BlockDec × Nat × Nat × Nat) := do
  let bd ← nextM s.iacBlk
  let iacSym ← Impl.readSymbol (bd.prefixes.getD bd.type0 {})
  let rec_ := iacLUT.getD iacSym default
  let insExtra ← Impl.readBits rec_.1.extra
  let cpyExtra ← Impl.readBits rec_.2.extra
  pure (bd, iacSym, insExtra, cpyExtra)

theorem doLabel_start (sd : ByteArray) (s : State) :
    match iacM s s.rd with
    | (.ok (bd, sym, ie, ce), r) =>
      doLabel sd .startCommand s =
        (.ok (.goto (if (iacLUT.getD sym default).1.base + ie > 0 then .readLiterals else .readDistance)),
          { s with rd := r, iacBlk := bd, insLen := (iacLUT.getD sym default).1.base + ie,
                   cpyLen := (iacLUT.getD sym default).2.base + ce, distZero := decide (sym < 128) })
    | (.error e, _) => ∃ s1, doLabel sd .startCommand s = (.error e, s1) ∧ s1.dict = s.dict := by
  unfold iacM nextM
  by_cases ht : s.iacBlk.typeLen = 0
  · simp only [doLabel, ht, if_true, bind, S.bind, getS, modS, liftR, pure, M.bind, M.pure]
    rcases Impl.readBlockSwitch s.iacBlk s.rd with ⟨e | bd, r⟩
    · exact ⟨_, rfl, rfl⟩
    · dsimp only
      rcases Impl.readSymbol _ r with ⟨e | sym, r1⟩
      · exact ⟨_, rfl, rfl⟩
      · dsimp only
        rcases Impl.readBits _ r1 with ⟨e | ie, r2⟩
        · exact ⟨_, rfl, rfl⟩
        · dsimp only
          rcases Impl.readBits _ r2 with ⟨e | ce, r3⟩
          · exact ⟨_, rfl, rfl⟩
          · dsimp only
            split <;> rfl
  · simp only [doLabel, ht, if_false, bind, S.bind, getS, modS, liftR, pure, M.bind, M.pure]
    rcases Impl.readSymbol _ s.rd with ⟨e | sym, r1⟩
    · exact ⟨_, rfl, rfl⟩
    · dsimp only
      rcases Impl.readBits _ r1 with ⟨e | ie, r2⟩
      · exact ⟨_, rfl, rfl⟩
      · dsimp only
        rcases Impl.readBits _ r2 with ⟨e | ce, r3⟩
        · exact ⟨_, rfl, rfl⟩
        · dsimp only
          split <;> rfl

/-! ### readLiterals, copyDynamicDict, copyStaticDict, finishCommand -/

/-- the state `suspend st` leaves. -/
def susp (st : Sub) (s : State) : State :=
  { s with dict := s.dict.readFlush.1, toRead := s.dict.readFlush.2, step := .commands, stepState := st }

theorem suspend_apply (st : Sub) (s : State) : suspend st s = (.ok (), susp st s) := by
  simp only [suspend, flush, bind, S.bind, modS, susp]

/-- `readLiterals` after the loop. -/
def litTail (n : Nat) (s1 : State) : Except BErr Next × State :=
  if s1.insLen - n > 0 then
    (.ok .ret, susp .literals { s1 with insLen := s1.insLen - n, blkLen := s1.blkLen - n })
  else if s1.blkLen - n > 0 then (.ok (.goto .readDistance), { s1 with insLen := s1.insLen - n, blkLen := s1.blkLen - n })
  else (.ok (.goto .finishCommand), { s1 with insLen := s1.insLen - n, blkLen := s1.blkLen - n })

theorem doLabel_lit (sd : ByteArray) (s : State) :
    doLabel sd .readLiterals s =
      match litLoop (min s.dict.availSize s.insLen) s.dict.lastBytes.1 s.dict.lastBytes.2 s with
      | (.error e, s1) => (.error e, s1)
      | (.ok _, s1) => litTail (min s.dict.availSize s.insLen) s1 := by
  simp only [doLabel, bind, S.bind, getS, modS, pure, S.pure]
  rcases litLoop (min s.dict.availSize s.insLen) s.dict.lastBytes.1 s.dict.lastBytes.2 s with ⟨e | u, s1⟩
  · rfl
  · simp only [litTail, suspend_apply]
    split
    · rfl
    · split <;> rfl

/-- the state after `WriteCopy`. -/
def dynUpd (s : State) : State :=
  { s with dict := (s.dict.writeCopy s.dist s.cpyLen).1, blkLen := s.blkLen - (s.dict.writeCopy s.dist s.cpyLen).2,
           cpyLen := s.cpyLen - (s.dict.writeCopy s.dist s.cpyLen).2 }

/-- `copyDynamicDict`. -/
theorem doLabel_dyn (sd : ByteArray) (s : State) :
    doLabel sd .copyDynamicDict s =
      if (dynUpd s).cpyLen > 0 then (.ok .ret, susp .dynamicDict (dynUpd s))
      else (.ok (.goto .finishCommand), dynUpd s) := by
  by_cases hc : (dynUpd s).cpyLen > 0
  · rw [if_pos hc]
    simp only [dynUpd] at hc
    simp only [doLabel, dictWriteCopy, bind, S.bind, getS, modS, pure, S.pure, suspend_apply, hc, if_true, dynUpd]
  · rw [if_neg hc]
    simp only [dynUpd] at hc
    simp only [doLabel, dictWriteCopy, bind, S.bind, getS, modS, pure, S.pure, suspend_apply, hc, if_false, dynUpd]

/-- the state after the word (what fits of it) has been written. -/
def wordUpd (s : State) : State :=
  { s with dict := (s.dict.writeBytes s.word).1, word := s.word.drop (s.dict.writeBytes s.word).2,
           blkLen := s.blkLen - (s.dict.writeBytes s.word).2 }

/-- the tail of `copyStaticDict`: write what fits of the word. -/
def wordTail (s : State) : Except BErr Next × State :=
  if !(wordUpd s).word.isEmpty then (.ok .ret, susp .staticDict (wordUpd s))
  else (.ok (.goto .finishCommand), wordUpd s)

theorem wordTail_eq (s : State) :
    (do
      let cnt ← dictWriteWord
      modS fun s => { s with word := s.word.drop cnt, blkLen := s.blkLen - cnt }
      if !(← getS).word.isEmpty then do
        suspend .staticDict
        pure .ret
      else pure (.goto .finishCommand) : S Next) s = wordTail s := by
  unfold wordTail
  by_cases hc : (!(wordUpd s).word.isEmpty) = true
  · rw [if_pos hc]
    simp only [wordUpd] at hc
    simp only [dictWriteWord, bind, S.bind, getS, modS, pure, S.pure, suspend_apply, hc, if_true, wordUpd]
  · rw [if_neg hc]
    simp only [wordUpd] at hc
    simp only [dictWriteWord, bind, S.bind, getS, modS, pure, S.pure, suspend_apply, hc, wordUpd]
    rfl

theorem doLabel_static (sd : ByteArray) (s : State) :
    doLabel sd .copyStaticDict s =
      if s.word.isEmpty then
        match staticWord sd s.cpyLen (s.dist - (s.dict.histSize + 1)) with
        | .error e => (.error e, s)
        | .ok w => wordTail { s with word := w }
      else wordTail s := by
  by_cases hw : s.word.isEmpty
  · rw [if_pos hw]
    rcases hsw : staticWord sd s.cpyLen (s.dist - (s.dict.histSize + 1)) with e | w
    · simp only [doLabel, hw, hsw, if_true, bind, S.bind, getS, spanic]
    · show doLabel sd .copyStaticDict s = wordTail { s with word := w }
      rw [← wordTail_eq]
      simp only [doLabel, hw, hsw, if_true, bind, S.bind, getS, modS]
  · rw [if_neg hw, ← wordTail_eq]
    simp only [doLabel, hw, bind, S.bind, getS, pure, S.pure]
    rfl

theorem doLabel_fin (sd : ByteArray) (s : State) :
    doLabel sd .finishCommand s =
      if s.blkLen < 0 then (.error .corrupted, s)
      else if s.blkLen > 0 then (.ok (.goto .startCommand), s)
      else (.ok .ret, { s with dict := s.dict.readFlush.1, toRead := s.dict.readFlush.2,
                               step := .blockHeader, stepState := .init }) := by
  simp only [doLabel, flush, bind, S.bind, getS, modS, pure, S.pure, spanic]
  split
  · rfl
  · split <;> rfl

/-! ### readDistance -/

/-- `decodeDistance` on the fields it reads. -/
def decodeDistanceF (d0 d1 d2 d3 ndirect npostfix : Nat) (distSym : Nat) : M Int :=
  if distSym < 16 then
    let rec_ := distShortLUT.getD distSym default
    let base := match rec_.1 with | 0 => d0 | 1 => d1 | 2 => d2 | _ => d3
    pure ((base : Int) + rec_.2)
  else if distSym < 16 + ndirect then pure ((distSym - 15 : Nat) : Int)
  else do
    let rec_ := (distLongLUTs.getD npostfix #[]).getD (distSym - (16 + ndirect)) default
    let extra ← Impl.readBits rec_.extra
    pure ((ndirect + rec_.base + (extra <<< npostfix) : Nat) : Int)

theorem decodeDistance_eq (s : State) (sym : Nat) :
    decodeDistance s sym = decodeDistanceF s.dists0 s.dists1 s.dists2 s.dists3 s.ndirect s.npostfix sym := rfl

/-- the bit reads of `readDistance` for an explicit distance. -/
def distM (s : State) : M (BlockDec × Nat × Int) := do
  let bd ← nextM s.distBlk
  let tree := bd.prefixes.getD (s.distMap.getD (4 * bd.type0 + getDistContextID s.cpyLen) 0) {}
  let distSym ← Impl.readSymbol tree
  let dist ← decodeDistanceF s.dists0 s.dists1 s.dists2 s.dists3 s.ndirect s.npostfix distSym
  pure (bd, distSym, dist)

/-- the ring of last distances after a copy from the window. -/
def ringUpd (s : State) : State :=
  { s with dists3 := s.dists2, dists2 := s.dists1, dists1 := s.dists0, dists0 := s.dist }

/-- `readDistance` once the distance is known. -/
def distTail (s : State) : Except BErr Next × State :=
  if s.dist ≤ s.dict.histSize then (.ok (.goto .copyDynamicDict), if !s.distZero then ringUpd s else s)
  else (.ok (.goto .copyStaticDict), s)

theorem doLabel_dist (sd : ByteArray) (s : State) (h1 : s.distMapOff = 4 * s.distBlk.type0) :
    if s.distZero then doLabel sd .readDistance s = distTail { s with dist := s.dists0 }
    else
      match distM s s.rd with
      | (.ok (bd, sym, d), r) =>
        if d ≤ 0 then ∃ s1, doLabel sd .readDistance s = (.error .corrupted, s1) ∧ s1.dict = s.dict
        else doLabel sd .readDistance s =
          distTail { s with rd := r, distBlk := bd, distMapOff := 4 * bd.type0,
                            distZero := decide (sym = 0), dist := d.toNat }
      | (.error e, _) => ∃ s1, doLabel sd .readDistance s = (.error e, s1) ∧ s1.dict = s.dict := by
  by_cases hz : s.distZero
  · rw [if_pos hz]
    simp only [doLabel, distTail, ringUpd, hz, if_true, bind, S.bind, getS, modS, pure, S.pure]
    split
    · split <;> rfl
    · rfl
  · rw [if_neg hz]
    unfold distM nextM
    by_cases ht : s.distBlk.typeLen = 0
    · simp only [doLabel, distTail, ringUpd, hz, ht, if_true, Bool.false_eq_true, if_false, bind, S.bind, getS, modS,
        liftR, spanic, M.bind, M.pure, pure, S.pure, decodeDistance_eq]
      rcases Impl.readBlockSwitch s.distBlk s.rd with ⟨e | bd, r⟩
      · exact ⟨_, rfl, rfl⟩
      · dsimp only
        rcases Impl.readSymbol _ r with ⟨e | sym, r1⟩
        · exact ⟨_, rfl, rfl⟩
        · dsimp only
          rcases decodeDistanceF _ _ _ _ _ _ sym r1 with ⟨e | d, r2⟩
          · exact ⟨_, rfl, rfl⟩
          · dsimp only
            by_cases hd : d ≤ 0
            · simp only [hd, if_true, S.bind, spanic]
              exact ⟨_, rfl, rfl⟩
            · simp only [hd, if_false, S.bind, S.pure, getS, modS]
              split
              · split <;> rfl
              · rfl
    · simp only [doLabel, distTail, ringUpd, hz, ht, if_true, Bool.false_eq_true, if_false, bind, S.bind, getS, modS,
        liftR, spanic, M.bind, M.pure, pure, S.pure, decodeDistance_eq]
      rw [← h1]
      rcases Impl.readSymbol _ s.rd with ⟨e | sym, r1⟩
      · exact ⟨_, rfl, rfl⟩
      · dsimp only
        rcases decodeDistanceF _ _ _ _ _ _ sym r1 with ⟨e | d, r2⟩
        · exact ⟨_, rfl, rfl⟩
        · dsimp only
          by_cases hd : d ≤ 0
          · simp only [hd, if_true, S.bind, spanic]
            exact ⟨_, rfl, rfl⟩
          · simp only [hd, if_false, S.bind, S.pure, getS, modS]
            rw [h1]
            split
            · split <;> rfl
            · rfl

end Compress.Proofs.BrImpl
