/-
The bit writer `BitW` of `Bzip2/WriterApi.lean` over an arbitrary (adversarial)
sink: what a run without error has written, the offset counter, append-only
output, errors and the sink's `failed` flag, and the packing facts for the end
of a stream.
-/
import Compress.Bzip2.WriterApi
import Compress.Proofs.BzRTBits
import Compress.Proofs.BzWApiFields

namespace Compress.Proofs.BzWApi
open Compress Compress.Bzip2 Compress.Prefix
open Compress.XFlate (Sink Err)
open Compress.Proofs.BzRT (ofBytesMSB_append ofBytesMSB_length ofBytesMSB_toBytesMSB bitsBE_length)
open Compress.Proofs.PrefixCodes (length_ofNat toNat_ofNat)

/-! ### the sink -/

theorem Sink.write_ok (s : Sink) (b : List UInt8) (h : (s.write b).2.2 = none) :
    (s.write b).1.got = s.got ++ b ∧ (s.write b).2.1 = b.length ∧ (s.write b).1.failed = s.failed := by
  rcases s with ⟨got, budget, mode, forever, tag, failed⟩
  cases budget with
  | none => simp [Sink.write]
  | some k =>
    by_cases hk : b.length ≤ k
    · simp [Sink.write, hk]
    · simp [Sink.write, hk] at h

theorem Sink.write_got (s : Sink) (b : List UInt8) :
    ∃ k, k ≤ b.length ∧ (s.write b).2.1 = k ∧ (s.write b).1.got = s.got ++ b.take k := by
  rcases s with ⟨got, budget, mode, forever, tag, failed⟩
  cases budget with
  | none => exact ⟨b.length, Nat.le_refl _, by simp [Sink.write], by simp [Sink.write]⟩
  | some k =>
    by_cases hk : b.length ≤ k
    · exact ⟨b.length, Nat.le_refl _, by simp [Sink.write, hk], by simp [Sink.write, hk]⟩
    · cases mode
      · exact ⟨0, Nat.zero_le _, by simp [Sink.write, hk], by simp [Sink.write, hk]⟩
      · exact ⟨k, by omega, by simp [Sink.write, hk], by simp [Sink.write, hk]⟩

theorem Sink.write_err_failed (s : Sink) (b : List UInt8) (h : (s.write b).2.2 ≠ none) :
    (s.write b).1.failed = true := by
  rcases s with ⟨got, budget, mode, forever, tag, failed⟩
  cases budget with
  | none => simp [Sink.write] at h
  | some k =>
    by_cases hk : b.length ≤ k
    · simp [Sink.write, hk] at h
    · simp [Sink.write, hk]

theorem Sink.write_failed (s : Sink) (b : List UInt8) (h : (s.write b).1.failed = true) :
    s.failed = true ∨ (s.write b).2.2 ≠ none := by
  rcases s with ⟨got, budget, mode, forever, tag, failed⟩
  cases budget with
  | none => left; simpa [Sink.write] using h
  | some k =>
    by_cases hk : b.length ≤ k
    · left; simpa [Sink.write, hk] using h
    · right; simp [Sink.write, hk]

theorem Sink.write_failed_mono (s : Sink) (b : List UInt8) (h : s.failed = true) :
    (s.write b).1.failed = true := by
  rcases s with ⟨got, budget, mode, forever, tag, failed⟩
  cases budget with
  | none => simpa [Sink.write] using h
  | some k =>
    by_cases hk : b.length ≤ k
    · simpa [Sink.write, hk] using h
    · simp [Sink.write, hk]

/-! ### what has been written -/

/-- every bit handed to the bit writer so far, in stream order. -/
def view (w : BitW) : Bits := Bits.ofBytesMSB (w.sink.got ++ w.stage) ++ w.bits

/-- no invariant is needed. -/
def WF (_w : BitW) : Prop := True

theorem view_off (w : BitW) (o : Int) : view { w with off := o } = view w := rfl

theorem view_length_mod (w : BitW) : (view w).length % 8 = w.bits.length % 8 := by
  simp only [view, List.length_append, ofBytesMSB_length]
  omega

/-- packing a whole number of bytes loses nothing. -/
theorem ofBytesMSB_toBytesMSB_of_mod (bs : Bits) (h : bs.length % 8 = 0) :
    Bits.ofBytesMSB (Bits.toBytesMSB bs) = bs := by
  obtain ⟨pad, p1, p2, p3⟩ := ofBytesMSB_toBytesMSB bs
  have : pad = 0 := by omega
  subst this
  simpa using p3

theorem emitStage_ok (w : BitW) (h : (w.emitStage).2 = none) :
    view (w.emitStage).1 = view w ∧ (w.emitStage).1.stage = [] ∧ (w.emitStage).1.bits = w.bits := by
  simp only [BitW.emitStage] at h ⊢
  obtain ⟨h1, h2, _⟩ := Sink.write_ok w.sink w.stage h
  simp [view, h1, h2]

/-- the byte-aligned part of the bit buffer moved to the staging buffer. -/
def pack (w : BitW) : BitW :=
  { w with stage := w.stage ++ Bits.toBytesMSB (w.bits.take (8 * (w.bits.length / 8))),
           bits := w.bits.drop (8 * (w.bits.length / 8)) }

theorem view_pack (w : BitW) : view (pack w) = view w := by
  simp only [view, pack, ← List.append_assoc, ofBytesMSB_append]
  rw [ofBytesMSB_toBytesMSB_of_mod]
  · simp [List.append_assoc]
  · rw [List.length_take, Nat.min_eq_left (by omega)]
    omega

theorem pack_bits_length (w : BitW) : (pack w).bits.length < 8 := by
  simp only [pack, List.length_drop]
  omega

theorem pushBits_eq (w : BitW) :
    w.pushBits =
      if w.stage.length ≥ stageLimit then
        match w.emitStage.2 with
        | some e => (w.emitStage.1, some e)
        | none => (pack w.emitStage.1, none)
      else (pack w, none) := by
  unfold BitW.pushBits
  by_cases h : w.stage.length ≥ stageLimit
  · simp only [if_pos h]
    cases he : w.emitStage.2 <;> simp [pack]
  · simp only [if_neg h]
    rfl

theorem pushBits_ok (w : BitW) (h : (w.pushBits).2 = none) :
    view (w.pushBits).1 = view w ∧ (w.pushBits).1.bits.length < 8 := by
  rw [pushBits_eq] at h ⊢
  by_cases hs : w.stage.length ≥ stageLimit
  · simp only [if_pos hs] at h ⊢
    cases he : w.emitStage.2 with
    | some e => simp [he] at h
    | none =>
      dsimp only
      exact ⟨by rw [view_pack, (emitStage_ok w he).1], pack_bits_length _⟩
  · simp only [if_neg hs]
    exact ⟨view_pack w, pack_bits_length w⟩

theorem pushField_eq (w : BitW) (f : Bits) :
    w.pushField f =
      match w.pushBits.2 with
      | some e => (w.pushBits.1, some e)
      | none => ({ w.pushBits.1 with bits := w.pushBits.1.bits ++ f }, none) := rfl

theorem view_addBits (w : BitW) (f : Bits) : view { w with bits := w.bits ++ f } = view w ++ f := by
  simp [view]

theorem pushField_ok (w : BitW) (f : Bits) (h : (w.pushField f).2 = none) :
    view (w.pushField f).1 = view w ++ f := by
  rw [pushField_eq] at h ⊢
  cases he : w.pushBits.2 with
  | some e => simp [he] at h
  | none =>
    dsimp only
    rw [view_addBits, (pushBits_ok w he).1]

theorem writeField_pad (w : BitW) :
    w.writeField ([], .pad)
      = ({ w with bits := w.bits ++ List.replicate ((8 - w.bits.length % 8) % 8) false }, none) := rfl

theorem writeField_ok (w : BitW) (f : Field) (hp : f.2 ≠ FKind.pad) (h : (w.writeField f).2 = none) :
    view (w.writeField f).1 = view w ++ f.1 := by
  obtain ⟨b, k⟩ := f
  cases k with
  | push => exact pushField_ok w b h
  | «try» =>
    simp only [BitW.writeField] at h ⊢
    by_cases hc : 64 - w.bits.length < b.length
    · simp only [if_pos hc] at h ⊢
      exact pushField_ok w b h
    · simp only [if_neg hc]
      exact view_addBits w b
  | pad => exact absurd rfl hp

theorem writeFields_nil (w : BitW) : w.writeFields [] = (w, none) := rfl

theorem writeFields_cons (w : BitW) (f : Field) (fs : List Field) :
    w.writeFields (f :: fs) =
      match (w.writeField f).2 with
      | some e => ((w.writeField f).1, some e)
      | none => (w.writeField f).1.writeFields fs := by
  rw [BitW.writeFields]
  rcases w.writeField f with ⟨w', _ | e⟩ <;> rfl

theorem writeFields_ok (w : BitW) (fs : List Field) (hp : ∀ f ∈ fs, f.2 ≠ FKind.pad)
    (h : (w.writeFields fs).2 = none) : view (w.writeFields fs).1 = view w ++ flat fs := by
  induction fs generalizing w with
  | nil => simp [writeFields_nil, flat_nil]
  | cons f fs ih =>
    rw [writeFields_cons] at h ⊢
    cases he : (w.writeField f).2 with
    | some e => simp [he] at h
    | none =>
      simp only [he] at h ⊢
      rw [ih _ (fun g hg => hp g (List.mem_cons_of_mem _ hg)) h,
        writeField_ok w f (hp f List.mem_cons_self) he, flat_cons, List.append_assoc]

theorem writeFields_append (w : BitW) (a b : List Field) :
    w.writeFields (a ++ b) =
      match w.writeFields a with
      | (w', some e) => (w', some e)
      | (w', none) => w'.writeFields b := by
  induction a generalizing w with
  | nil => rfl
  | cons f a ih =>
    rw [List.cons_append, writeFields_cons, writeFields_cons]
    cases he : (w.writeField f).2 with
    | some e => rfl
    | none => exact ih _

theorem flush_eq (w : BitW) :
    w.flush =
      if w.bits.length < 8 ∧ w.stage.isEmpty then (w, none)
      else
        match w.pushBits.2 with
        | some e => (w.pushBits.1, some e)
        | none => w.pushBits.1.emitStage := rfl

theorem flush_ok (w : BitW) (h : (w.flush).2 = none) :
    view (w.flush).1 = view w ∧ (w.flush).1.stage = [] ∧ (w.flush).1.bits.length < 8 := by
  rw [flush_eq] at h ⊢
  by_cases hc : w.bits.length < 8 ∧ w.stage.isEmpty
  · rw [if_pos hc]
    exact ⟨rfl, by simpa using hc.2, hc.1⟩
  · simp only [if_neg hc] at h ⊢
    cases he : w.pushBits.2 with
    | some e => simp [he] at h
    | none =>
      simp only [he] at h ⊢
      obtain ⟨e1, e2, e3⟩ := emitStage_ok _ h
      obtain ⟨p1, p2⟩ := pushBits_ok w he
      exact ⟨by rw [e1, p1], e2, by rw [e3]; exact p2⟩

/-! ### counters, append-only output, errors: any sink, with or without errors -/

/-- the `OutputOffset` invariant: the offset counts the bytes the sink took since
    it held `base` bytes. -/
def Cnt (w : BitW) (base : Nat) : Prop := w.off + (base : Int) = (w.sink.got.length : Int)

/-- what one operation of the bit writer (result state `w'`, result error `e`)
    does to the sink and the offset. -/
structure Step (w w' : BitW) (e : Option Err) : Prop where
  got    : ∃ suf, w'.sink.got = w.sink.got ++ suf
  off    : w'.off + (w.sink.got.length : Int) = w.off + (w'.sink.got.length : Int)
  err    : e ≠ none → w'.sink.failed = true
  failed : w'.sink.failed = true → w.sink.failed = true ∨ e ≠ none
  mono   : w.sink.failed = true → w'.sink.failed = true

theorem Step.cnt {w w' : BitW} {e : Option Err} (h : Step w w' e) (base : Nat) (hc : Cnt w base) :
    Cnt w' base := by
  have := h.off
  unfold Cnt at hc ⊢
  omega

theorem Step.refl (w : BitW) : Step w w none :=
  ⟨⟨[], by simp⟩, rfl, fun h => absurd rfl h, fun h => Or.inl h, fun h => h⟩

/-- a change of the bit buffer and the staging buffer only. -/
theorem Step.of_eq (w w' : BitW) (hs : w'.sink = w.sink) (ho : w'.off = w.off) : Step w w' none :=
  ⟨⟨[], by simp [hs]⟩, by rw [hs, ho], fun h => absurd rfl h, fun h => Or.inl (hs ▸ h), fun h => hs ▸ h⟩

theorem Step.trans {a b c : BitW} {e : Option Err} (h1 : Step a b none) (h2 : Step b c e) : Step a c e := by
  obtain ⟨s1, g1⟩ := h1.got
  obtain ⟨s2, g2⟩ := h2.got
  refine ⟨⟨s1 ++ s2, by rw [g2, g1, List.append_assoc]⟩, ?_, h2.err, ?_, fun h => h2.mono (h1.mono h)⟩
  · have := h1.off
    have := h2.off
    omega
  · intro h
    rcases h2.failed h with h | h
    · rcases h1.failed h with h | h
      · exact Or.inl h
      · exact absurd rfl h
    · exact Or.inr h

theorem emitStage_step (w : BitW) : Step w w.emitStage.1 w.emitStage.2 := by
  obtain ⟨k, hk, h1, h2⟩ := Sink.write_got w.sink w.stage
  simp only [BitW.emitStage]
  refine ⟨⟨_, h2⟩, ?_, Sink.write_err_failed _ _, Sink.write_failed _ _, Sink.write_failed_mono _ _⟩
  simp only [h1, h2, List.length_append, List.length_take, Nat.min_eq_left hk]
  omega

theorem pack_step (w : BitW) : Step w (pack w) none := Step.of_eq _ _ rfl rfl

theorem pushBits_step (w : BitW) : Step w w.pushBits.1 w.pushBits.2 := by
  rw [pushBits_eq]
  by_cases hs : w.stage.length ≥ stageLimit
  · simp only [if_pos hs]
    have h := emitStage_step w
    cases he : w.emitStage.2 with
    | some e => rw [he] at h; exact h
    | none => rw [he] at h; exact h.trans (pack_step _)
  · simp only [if_neg hs]
    exact pack_step w

theorem pushField_step (w : BitW) (f : Bits) : Step w (w.pushField f).1 (w.pushField f).2 := by
  rw [pushField_eq]
  have h := pushBits_step w
  cases he : w.pushBits.2 with
  | some e => rw [he] at h; exact h
  | none => rw [he] at h; exact h.trans (Step.of_eq _ _ rfl rfl)

theorem writeField_step (w : BitW) (f : Field) : Step w (w.writeField f).1 (w.writeField f).2 := by
  obtain ⟨b, k⟩ := f
  cases k with
  | push => exact pushField_step w b
  | «try» =>
    simp only [BitW.writeField]
    by_cases hc : 64 - w.bits.length < b.length
    · simp only [if_pos hc]
      exact pushField_step w b
    · simp only [if_neg hc]
      exact Step.of_eq _ _ rfl rfl
  | pad => exact Step.of_eq _ _ rfl rfl

theorem writeFields_step (w : BitW) (fs : List Field) : Step w (w.writeFields fs).1 (w.writeFields fs).2 := by
  induction fs generalizing w with
  | nil => exact Step.refl w
  | cons f fs ih =>
    rw [writeFields_cons]
    have h := writeField_step w f
    cases he : (w.writeField f).2 with
    | some e => rw [he] at h; exact h
    | none => rw [he] at h; exact h.trans (ih _)

theorem flush_step (w : BitW) : Step w w.flush.1 w.flush.2 := by
  rw [flush_eq]
  by_cases hc : w.bits.length < 8 ∧ w.stage.isEmpty
  · rw [if_pos hc]
    exact Step.refl w
  · rw [if_neg hc]
    have h := pushBits_step w
    cases he : w.pushBits.2 with
    | some e => rw [he] at h; exact h
    | none => rw [he] at h; exact h.trans (emitStage_step _)

/-! the individual statements -/

theorem emitStage_cnt (w : BitW) (base : Nat) (h : Cnt w base) : Cnt w.emitStage.1 base :=
  (emitStage_step w).cnt base h
theorem pushBits_cnt (w : BitW) (base : Nat) (h : Cnt w base) : Cnt w.pushBits.1 base :=
  (pushBits_step w).cnt base h
theorem writeField_cnt (w : BitW) (f : Field) (base : Nat) (h : Cnt w base) : Cnt (w.writeField f).1 base :=
  (writeField_step w f).cnt base h
theorem writeFields_cnt (w : BitW) (fs : List Field) (base : Nat) (h : Cnt w base) :
    Cnt (w.writeFields fs).1 base :=
  (writeFields_step w fs).cnt base h
theorem flush_cnt (w : BitW) (base : Nat) (h : Cnt w base) : Cnt w.flush.1 base :=
  (flush_step w).cnt base h

theorem emitStage_got (w : BitW) : ∃ suf, w.emitStage.1.sink.got = w.sink.got ++ suf := (emitStage_step w).got
theorem pushBits_got (w : BitW) : ∃ suf, w.pushBits.1.sink.got = w.sink.got ++ suf := (pushBits_step w).got
theorem writeField_got (w : BitW) (f : Field) : ∃ suf, (w.writeField f).1.sink.got = w.sink.got ++ suf :=
  (writeField_step w f).got
theorem writeFields_got (w : BitW) (fs : List Field) :
    ∃ suf, (w.writeFields fs).1.sink.got = w.sink.got ++ suf := (writeFields_step w fs).got
theorem flush_got (w : BitW) : ∃ suf, w.flush.1.sink.got = w.sink.got ++ suf := (flush_step w).got

theorem writeFields_err_failed (w : BitW) (fs : List Field) (e : Err) (h : (w.writeFields fs).2 = some e) :
    (w.writeFields fs).1.sink.failed = true := (writeFields_step w fs).err (by rw [h]; simp)
theorem flush_err_failed (w : BitW) (e : Err) (h : w.flush.2 = some e) : w.flush.1.sink.failed = true :=
  (flush_step w).err (by rw [h]; simp)
theorem writeFields_failed (w : BitW) (fs : List Field) (h : (w.writeFields fs).1.sink.failed = true) :
    w.sink.failed = true ∨ (w.writeFields fs).2 ≠ none := (writeFields_step w fs).failed h
theorem flush_failed (w : BitW) (h : w.flush.1.sink.failed = true) :
    w.sink.failed = true ∨ w.flush.2 ≠ none := (flush_step w).failed h

theorem emitStage_err_failed (w : BitW) (h : w.emitStage.2 ≠ none) : w.emitStage.1.sink.failed = true :=
  (emitStage_step w).err h
theorem pushBits_err_failed (w : BitW) (h : w.pushBits.2 ≠ none) : w.pushBits.1.sink.failed = true :=
  (pushBits_step w).err h
theorem writeField_err_failed (w : BitW) (f : Field) (h : (w.writeField f).2 ≠ none) :
    (w.writeField f).1.sink.failed = true := (writeField_step w f).err h
theorem emitStage_failed (w : BitW) (h : w.emitStage.1.sink.failed = true) :
    w.sink.failed = true ∨ w.emitStage.2 ≠ none := (emitStage_step w).failed h
theorem pushBits_failed (w : BitW) (h : w.pushBits.1.sink.failed = true) :
    w.sink.failed = true ∨ w.pushBits.2 ≠ none := (pushBits_step w).failed h
theorem writeField_failed (w : BitW) (f : Field) (h : (w.writeField f).1.sink.failed = true) :
    w.sink.failed = true ∨ (w.writeField f).2 ≠ none := (writeField_step w f).failed h

/-- an operation without error leaves the `failed` flag as it was. -/
theorem Step.failed_eq {w w' : BitW} (h : Step w w' none) : w'.sink.failed = w.sink.failed := by
  cases hf : w.sink.failed with
  | true => exact h.mono hf
  | false =>
    cases hf' : w'.sink.failed with
    | false => rfl
    | true =>
      rcases h.failed hf' with h | h
      · rw [hf] at h; cases h
      · exact absurd rfl h

/-- a fresh bit writer over a sink (`Reset`) shows what the sink holds. -/
theorem view_init (sink : Sink) : view { sink := sink } = Bits.ofBytesMSB sink.got := by
  simp [view]

theorem cnt_init (sink : Sink) : Cnt { sink := sink } sink.got.length := by
  simp [Cnt]

/-! ### packing at the end of a stream -/

theorem ofByteMSB_length (a : UInt8) : (Bits.ofByteMSB a).length = 8 := by
  simp [Bits.ofByteMSB, length_ofNat]

theorem ofByteMSB_injective {a b : UInt8} (h : Bits.ofByteMSB a = Bits.ofByteMSB b) : a = b := by
  have h1 : Bits.ofNat a.toNat 8 = Bits.ofNat b.toNat 8 := List.reverse_inj.1 h
  have h2 := congrArg Bits.toNat h1
  rw [toNat_ofNat, toNat_ofNat] at h2
  have := a.toNat_lt
  have := b.toNat_lt
  apply UInt8.toNat_inj.1
  omega

theorem ofBytesMSB_injective {a b : List UInt8} (h : Bits.ofBytesMSB a = Bits.ofBytesMSB b) : a = b := by
  induction a generalizing b with
  | nil =>
    cases b with
    | nil => rfl
    | cons y b =>
      have := congrArg List.length h
      simp [Bits.ofBytesMSB, ofByteMSB_length] at this
      omega
  | cons x a ih =>
    cases b with
    | nil =>
      have := congrArg List.length h
      simp [Bits.ofBytesMSB, ofByteMSB_length] at this
    | cons y b =>
      simp only [Bits.ofBytesMSB] at h
      obtain ⟨h1, h2⟩ := List.append_inj h (by rw [ofByteMSB_length, ofByteMSB_length])
      rw [ofByteMSB_injective h1, ih h2]

/-- the state after the footer, `WritePads(0)` and a successful `Flush`: the sink
    holds exactly the packed bits. -/
theorem close_bytes (base got : List UInt8) (allbits bits : Bits) (hlt : bits.length < 8)
    (hv : Bits.ofBytesMSB got ++ bits
      = Bits.ofBytesMSB base ++ allbits ++ List.replicate ((8 - allbits.length % 8) % 8) false) :
    got = base ++ Bits.toBytesMSB allbits ∧ bits = [] := by
  obtain ⟨pad, p1, p2, p3⟩ := ofBytesMSB_toBytesMSB allbits
  have hp : (8 - allbits.length % 8) % 8 = pad := by omega
  rw [hp, List.append_assoc, ← p3, ← ofBytesMSB_append] at hv
  have hl := congrArg List.length hv
  simp only [List.length_append, ofBytesMSB_length] at hl
  have hb : bits = [] := List.length_eq_zero_iff.1 (by omega)
  subst hb
  rw [List.append_nil] at hv
  exact ⟨ofBytesMSB_injective hv, rfl⟩

/-- writes and the `Flush` after them (`BzW.script`), no pads: the view grows by the fields. -/
theorem script_ok (w : BitW) (fs : List Field) (hp : ∀ f ∈ fs, f.2 ≠ FKind.pad)
    (h1 : (w.writeFields fs).2 = none) (h2 : (w.writeFields fs).1.flush.2 = none) :
    view (w.writeFields fs).1.flush.1 = view w ++ flat fs ∧
      (w.writeFields fs).1.flush.1.stage = [] ∧ (w.writeFields fs).1.flush.1.bits.length < 8 := by
  obtain ⟨f1, f2, f3⟩ := flush_ok _ h2
  exact ⟨by rw [f1, writeFields_ok w fs hp h1], f2, f3⟩

/-- with empty staging buffer the view is the sink's bytes and the bit buffer. -/
theorem view_of_stage_nil (w : BitW) (h : w.stage = []) :
    view w = Bits.ofBytesMSB w.sink.got ++ w.bits := by
  simp [view, h]

theorem writeFields_pad (w : BitW) :
    w.writeFields [([], FKind.pad)]
      = ({ w with bits := w.bits ++ List.replicate ((8 - w.bits.length % 8) % 8) false }, none) := rfl

/-- a state `w3` that shows what `w1` padded to the byte boundary shows, with
    nothing staged and less than a byte buffered, has handed everything to the sink. -/
theorem close_view (w1 w3 : BitW) (base : List UInt8) (allbits : Bits)
    (hv1 : view w1 = Bits.ofBytesMSB base ++ allbits)
    (f1 : view w3 = view { w1 with bits := w1.bits ++ List.replicate ((8 - w1.bits.length % 8) % 8) false })
    (f2 : w3.stage = []) (f3 : w3.bits.length < 8) :
    w3.sink.got = base ++ Bits.toBytesMSB allbits ∧ w3.bits = [] := by
  have hm : w1.bits.length % 8 = allbits.length % 8 := by
    rw [← view_length_mod, hv1, List.length_append, ofBytesMSB_length]
    omega
  rw [view_of_stage_nil _ f2, view_addBits, hv1, hm] at f1
  exact close_bytes _ _ _ _ f3 f1

/-- pad-free fields, `WritePads(0)`, `Flush`, all without error, starting where
    everything written so far is `base` followed by the bits `allbits`: the sink
    ends up with `base` and the packing of all the bits; nothing is left in the
    writer. -/
theorem close_script (w : BitW) (fs : List Field) (hp : ∀ f ∈ fs, f.2 ≠ FKind.pad)
    (base : List UInt8) (allbits : Bits) (hv : view w = Bits.ofBytesMSB base ++ allbits)
    (h1 : (w.writeFields (fs ++ [([], FKind.pad)])).2 = none)
    (h2 : (w.writeFields (fs ++ [([], FKind.pad)])).1.flush.2 = none) :
    (w.writeFields (fs ++ [([], FKind.pad)])).1.flush.1.sink.got
        = base ++ Bits.toBytesMSB (allbits ++ flat fs) ∧
      (w.writeFields (fs ++ [([], FKind.pad)])).1.flush.1.stage = [] ∧
      (w.writeFields (fs ++ [([], FKind.pad)])).1.flush.1.bits = [] := by
  rw [writeFields_append] at h1 h2 ⊢
  have hv1 := writeFields_ok w fs hp
  rcases hw : w.writeFields fs with ⟨w1, _ | e⟩
  · rw [hw] at h1 h2 hv1
    simp only [writeFields_pad] at h2 ⊢
    have hv1 := hv1 rfl
    simp only at hv1
    rw [hv, List.append_assoc] at hv1
    obtain ⟨f1, f2, f3⟩ := flush_ok _ h2
    obtain ⟨c1, c2⟩ := close_view w1 _ base _ hv1 f1 f2 f3
    exact ⟨c1, f2, c2⟩
  · rw [hw] at h1
    simp at h1

end Compress.Proofs.BzWApi
