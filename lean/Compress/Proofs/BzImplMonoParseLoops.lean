/-
Prefix-monotonicity, the parsers: bit fields, symbol map, selectors, delta-coded lengths, trees,
symbols, `decodePrefix`.
-/
import Compress.Proofs.BzImplMonoParseTab
import Compress.Proofs.BzImplBits
import Compress.Proofs.BzImplBlock

namespace Compress.Proofs.BzImpl
open Compress Compress.Bzip2 Compress.Prefix
open Compress.Bzip2.Impl (Err M State)

/-- `y` is what `x` becomes when the input is extended by `ys`. -/
def Ext {α : Type} (x y : M (α × Bits)) (ys : Bits) : Prop :=
  (∀ v rest, x = .ok (v, rest) → y = .ok (v, rest ++ ys)) ∧
  (∀ e r, x = .error (e, r) → e ≠ .unexpectedEOF → ∃ r', y = .error (e, r'))

theorem mono_iff {α : Type} (R : Bits → M (α × Bits)) :
    Mono R ↔ ∀ xs ys, Ext (R xs) (R (xs ++ ys)) ys := Iff.rfl

theorem Ext.ok {α : Type} {v : α} {rest ys : Bits} :
    Ext (.ok (v, rest)) (.ok (v, rest ++ ys)) ys :=
  ⟨fun _ _ h => (by cases h; rfl), fun _ _ h => (by cases h)⟩

theorem Ext.err {α : Type} {e : Err} {r r' ys : Bits} :
    Ext (α := α) (.error (e, r)) (.error (e, r')) ys :=
  ⟨fun _ _ h => (by cases h), fun _ _ h _ => (by cases h; exact ⟨_, rfl⟩)⟩

theorem Ext.ueof {α : Type} {r ys : Bits} {y : M (α × Bits)} :
    Ext (.error (.unexpectedEOF, r)) y ys :=
  ⟨fun _ _ h => (by cases h), fun _ _ h hne => (by cases h; exact absurd rfl hne)⟩

theorem Ext.cases {α : Type} {x y : M (α × Bits)} {ys : Bits} (h : Ext x y ys) :
    (∃ r, x = .error (.unexpectedEOF, r)) ∨
    (∃ e r r', x = .error (e, r) ∧ y = .error (e, r')) ∨
    (∃ v rest, x = .ok (v, rest) ∧ y = .ok (v, rest ++ ys)) := by
  rcases x with ⟨e, r⟩ | ⟨v, rest⟩
  · by_cases he : e = .unexpectedEOF
    · subst he; exact Or.inl ⟨r, rfl⟩
    · obtain ⟨r', hr⟩ := h.2 e r rfl he
      exact Or.inr (Or.inl ⟨e, r, r', rfl, hr⟩)
  · exact Or.inr (Or.inr ⟨v, rest, rfl, h.1 v rest rfl⟩)

/-! ### bit fields -/

theorem mono_readBits (n : Nat) : Mono (Impl.readBits n) := by
  intro xs ys
  show Ext _ _ ys
  unfold Impl.readBits
  by_cases h : xs.length < n
  · have h1 : (xs.take n).length < n := by rw [List.length_take]; omega
    simp only [h1, if_true]
    exact Ext.ueof
  · have h1 : ¬ (xs.take n).length < n := by rw [List.length_take]; omega
    have h2 : ¬ ((xs ++ ys).take n).length < n := by
      rw [List.length_take, List.length_append]; omega
    simp only [h1, if_false, List.take_append_of_le_length (Nat.le_of_not_lt h),
      List.drop_append_of_le_length (Nat.le_of_not_lt h)]
    exact Ext.ok

theorem mono_readBitsBE (n : Nat) : Mono (Impl.readBitsBE n) := by
  intro xs ys
  show Ext _ _ ys
  unfold Impl.readBitsBE
  by_cases h : xs.length < n
  · have h1 : (xs.take n).length < n := by rw [List.length_take]; omega
    simp only [h1, if_true]
    exact Ext.ueof
  · have h1 : ¬ (xs.take n).length < n := by rw [List.length_take]; omega
    have h2 : ¬ ((xs ++ ys).take n).length < n := by
      rw [List.length_take, List.length_append]; omega
    simp only [h1, if_false, List.take_append_of_le_length (Nat.le_of_not_lt h),
      List.drop_append_of_le_length (Nat.le_of_not_lt h)]
    exact Ext.ok

theorem mono_readBitsBE64' (n : Nat) : Mono (Impl.readBitsBE64 n) := by
  intro xs ys
  show Ext _ _ ys
  unfold Impl.readBitsBE64
  by_cases hn : n ≤ 32
  · simp only [hn, if_true]
    exact mono_readBitsBE n xs ys
  · simp only [hn, if_false, bind, Except.bind, pure, Except.pure]
    rcases Ext.cases (mono_readBitsBE 32 xs ys) with ⟨r, h1⟩ | ⟨e, r, r', h1, h2⟩ |
      ⟨v0, b1, h1, h2⟩
    · simp only [h1]; exact Ext.ueof
    · simp only [h1, h2]; exact Ext.err
    simp only [h1, h2]
    rcases Ext.cases (mono_readBitsBE (n - 32) b1 ys) with ⟨r, h3⟩ | ⟨e, r, r', h3, h4⟩ |
      ⟨v1, b2, h3, h4⟩
    · simp only [h3]; exact Ext.ueof
    · simp only [h3, h4]; exact Ext.err
    simp only [h3, h4]
    exact Ext.ok

/-! ### the symbol map -/

theorem ext_symMapLoop (hi : Nat) (is : List Nat) (dict : List UInt8) (xs ys : Bits) :
    Ext (Impl.symMapLoop hi is dict xs) (Impl.symMapLoop hi is dict (xs ++ ys)) ys := by
  induction is generalizing dict xs with
  | nil => simp only [Impl.symMapLoop]; exact Ext.ok
  | cons i is ih =>
    simp only [Impl.symMapLoop]
    by_cases hb : (hi / 2 ^ i) % 2 = 1
    · simp only [hb, if_true]
      rcases Ext.cases (mono_readBits 16 xs ys) with ⟨r, h1⟩ | ⟨e, r, r', h1, h2⟩ |
        ⟨lo, b1, h1, h2⟩
      · simp only [h1]; exact Ext.ueof
      · simp only [h1, h2]; exact Ext.err
      simp only [h1, h2]
      exact ih _ _
    · simp only [hb, if_false]
      exact ih _ _

theorem mono_readSymMap' : Mono Impl.readSymMap := by
  intro xs ys
  show Ext _ _ ys
  unfold Impl.readSymMap
  rcases Ext.cases (mono_readBits 16 xs ys) with ⟨r, h1⟩ | ⟨e, r, r', h1, h2⟩ |
    ⟨hi, b1, h1, h2⟩
  · simp only [h1]; exact Ext.ueof
  · simp only [h1, h2]; exact Ext.err
  simp only [h1, h2]
  exact ext_symMapLoop _ _ _ _ _

/-! ### selectors -/

theorem ext_readSels (numTrees k : Nat) (acc : List Nat) (xs ys : Bits) :
    Ext (Impl.readSels numTrees k acc xs) (Impl.readSels numTrees k acc (xs ++ ys)) ys := by
  induction k generalizing acc xs with
  | zero => simp only [Impl.readSels]; exact Ext.ok
  | succ k ih =>
    simp only [Impl.readSels]
    rcases Ext.cases (decSel_ok'.1 xs ys) with ⟨r, h1⟩ | ⟨e, r, r', h1, h2⟩ |
      ⟨v, b1, h1, h2⟩
    · simp only [h1]; exact Ext.ueof
    · simp only [h1, h2]; exact Ext.err
    simp only [h1, h2]
    by_cases hv : v ≥ numTrees
    · simp only [hv, if_true]; exact Ext.err
    · simp only [hv, if_false]; exact ih _ _

/-! ### delta-coded lengths -/

theorem ext_readLens (fuel n clen : Nat) (acc : List Nat) (xs ys : Bits) :
    Ext (Impl.readLens fuel n clen acc xs) (Impl.readLens fuel n clen acc (xs ++ ys)) ys := by
  induction fuel generalizing n clen acc xs with
  | zero => simp only [Impl.readLens]; exact Ext.err
  | succ fuel ih =>
    cases n with
    | zero => simp only [Impl.readLens]; exact Ext.ok
    | succ n =>
      simp only [Impl.readLens]
      by_cases hc : clen < 1 ∨ clen > maxPrefixBits
      · simp only [hc, if_true]; exact Ext.err
      · simp only [hc, if_false]
        cases xs with
        | nil => simp only [readBits_one_nil]; exact Ext.ueof
        | cons b rest =>
          cases b with
          | false =>
            simp only [List.cons_append, readBits_one_cons]
            exact ih n clen (clen :: acc) rest
          | true =>
            simp only [List.cons_append, readBits_one_cons]
            cases rest with
            | nil => simp only [readBits_one_nil]; exact Ext.ueof
            | cons b' rest' =>
              cases b' with
              | false =>
                simp only [List.cons_append, readBits_one_cons]
                exact ih (n + 1) (clen + 1) acc rest'
              | true =>
                simp only [List.cons_append, readBits_one_cons]
                exact ih (n + 1) (clen - 1) acc rest'

end Compress.Proofs.BzImpl
