/-
C02 stream level, definitions: the step machine of the brotli.Reader
model walks the specification's `readStream`, meta-block by meta-block.

* `fin`: the bookkeeping `stepOnce` does after the step function returned.
* `Run sd s X s'`: from `s` the reader hands out `X` and reaches `s'`.
* `Bnd`: the relation between model state and specification state at a
  meta-block boundary (window = output so far, same bit position, same last
  distances).
* uncompressed and metadata meta-blocks are simulated here; a compressed
  meta-block is the hypothesis `CompressedSim` (layers (d)-(f)).
-/
import Compress.Proofs.BrImplHeader
import Compress.Proofs.BrImplRead
import Compress.Proofs.WindowInv
import Compress.Proofs.WindowCopy
import Compress.Proofs.FlateStep

namespace Compress.Proofs.BrImpl
open Compress Compress.Brotli Compress.Brotli.Impl Compress.Window Compress.Proofs.Window

/-! ### `stepOnce` = step function, then `fin` -/

/-- the bookkeeping of `Read` after `br.step(br)` returned or panicked. -/
def fin (p : Except BErr Unit × State) : State :=
  let s' := match p.1 with
    | .error e => { p.2 with err := some e }
    | .ok _ => p.2
  let s' := { s' with inOff := if s'.err = some .unexpectedEOF then s'.totalBytes else (s'.rd.used + 7) / 8 }
  if s'.err ≠ none then
    let (d, fl) := s'.dict.readFlush
    { s' with dict := d, toRead := fl }
  else s'

theorem stepOnce_eq (sd : ByteArray) (s : State) :
    stepOnce sd s = fin (match s.step with
      | .streamHeader => readStreamHeader s
      | .blockHeader => readBlockHeader s
      | .rawData => readRawData s
      | .commands => readCommands sd s) := by
  unfold stepOnce fin
  rcases (match s.step with
      | .streamHeader => readStreamHeader s
      | .blockHeader => readBlockHeader s
      | .rawData => readRawData s
      | .commands => readCommands sd s) with ⟨r, s'⟩
  rfl

/-- a successful step of a reader without latched error. -/
theorem fin_ok (s' : State) (h : s'.err = none) :
    fin (.ok (), s') = { s' with inOff := (s'.rd.used + 7) / 8 } := by
  simp [fin, h]

/-- a failing step: the error is latched and the window is flushed. -/
theorem fin_err (e : BErr) (s' : State) :
    fin (.error e, s') =
      { s' with err := some e,
                inOff := if e = .unexpectedEOF then s'.totalBytes else (s'.rd.used + 7) / 8,
                dict := s'.dict.readFlush.1, toRead := s'.dict.readFlush.2 } := by
  simp only [fin]
  by_cases he : e = .unexpectedEOF
  · subst he; simp
  · simp [he]

/-! ### multi-step runs -/

inductive Run (sd : ByteArray) : State → List UInt8 → State → Prop
  | refl (s : State) : Run sd s [] s
  | out {s : State} {X : List UInt8} {s' : State} : s.toRead ≠ [] →
      Run sd (deliver s s.toRead.length) X s' → Run sd s (s.toRead ++ X) s'
  | step {s : State} {X : List UInt8} {s' : State} : s.toRead = [] → s.err = none →
      Progress s (stepOnce sd s) → Run sd (stepOnce sd s) X s' → Run sd s X s'

theorem Run.trace {sd : ByteArray} {s s' : State} {X Y : List UInt8} {e : BErr}
    (R : Run sd s X s') (T : Trace sd s' Y e) : Trace sd s (X ++ Y) e := by
  induction R with
  | refl _ => exact T
  | out h _ ih => rw [List.append_assoc]; exact Trace.out h (ih T)
  | step h1 h2 hp _ ih => exact Trace.step h1 h2 hp (ih T)

theorem Run.trans {sd : ByteArray} {s s' s'' : State} {X Y : List UInt8}
    (R : Run sd s X s') (R' : Run sd s' Y s'') : Run sd s (X ++ Y) s'' := by
  induction R with
  | refl _ => exact R'
  | out h _ ih => rw [List.append_assoc]; exact Run.out h (ih R')
  | step h1 h2 hp _ ih => exact Run.step h1 h2 hp (ih R')

/-- hand out whatever is pending. -/
def drain (s : State) : State := deliver s s.toRead.length

@[simp] theorem drain_toRead (s : State) : (drain s).toRead = [] := by simp [drain, deliver]

theorem run_drain (sd : ByteArray) (s : State) : Run sd s s.toRead (drain s) := by
  by_cases h : s.toRead = []
  · have : drain s = s := by
      cases s; simp only [drain, deliver] at *; simp [h]
    rw [this, h]; exact Run.refl s
  · have := Run.out (sd := sd) h (Run.refl (deliver s s.toRead.length))
    simpa [drain] using this

/-- a latched state: pending bytes, then the error. -/
theorem trace_latched (sd : ByteArray) (s : State) (e : BErr) (h : s.err = some e) :
    Trace sd s s.toRead e := by
  have hd : Trace sd (drain s) [] e := Trace.done (drain_toRead s) (by simpa [drain, deliver] using h)
  have := (run_drain sd s).trace hd
  simpa using this


/-! ### the relation between the two states -/

/-- model state `s` (nothing pending, no error) and specification state `st`: same bit position,
    the window holds the output of which `del` has been handed out, same last distances. -/
structure Rel (ws : Nat) (s : State) (st : St) (ds : Dists) (del : List UInt8) : Prop where
  toRead : s.toRead = []
  err : s.err = none
  sub : s.stepState = .init
  word : s.word = []
  rd : s.rd = brOf st
  win : Inv ws s.dict st.out.toList del
  avail : s.dict.wrPos = s.dict.hist.size → s.dict.rdPos < s.dict.wrPos
  dists : s.dists0 = ds.d1 ∧ s.dists1 = ds.d2 ∧ s.dists2 = ds.d3 ∧ s.dists3 = ds.d4
  dpos : 0 < ds.d1 ∧ 0 < ds.d2 ∧ 0 < ds.d3 ∧ 0 < ds.d4
  aligned : (st.used + st.bits.length) % 8 = 0
  mtf : MtfOK s.mtf

theorem readFlush_snd (d : Dict) : d.readFlush.2 = (d.hist.extract d.rdPos d.wrPos).toList := by
  unfold Dict.readFlush
  simp only
  split
  · split <;> rfl
  · rfl

/-- a failing step ends the trace: the window is flushed, everything produced has been handed out. -/
theorem trace_error (sd : ByteArray) (e : BErr) (s1 : State) (ws : Nat) (out del : List UInt8)
    (hw : Inv ws s1.dict out del) :
    ∃ X, Trace sd (fin (.error e, s1)) X e ∧ del ++ X = out := by
  refine ⟨s1.dict.readFlush.2, ?_, ?_⟩
  · have := trace_latched sd (fin (.error e, s1)) e (by rw [fin_err])
    rw [fin_err] at this ⊢
    exact this
  · rw [readFlush_snd]; exact hw.acc_append

theorem progress_error (s : State) (e : BErr) (s1 : State) : Progress s (fin (.error e, s1)) := by
  constructor
  · intro h; rw [fin_err] at h; cases h
  · intro _ h; rw [fin_err] at h; cases h

/-- one failing step from a related state. -/
theorem step_error (sd : ByteArray) (s : State) (e : BErr) (s1 : State) (ws : Nat) (out del : List UInt8)
    (hT : s.toRead = []) (hE : s.err = none) (hs : stepOnce sd s = fin (.error e, s1))
    (hw : Inv ws s1.dict out del) :
    ∃ X, Trace sd s X e ∧ del ++ X = out := by
  obtain ⟨X, T, h⟩ := trace_error sd e s1 ws out del hw
  exact ⟨X, Trace.step hT hE (by rw [hs]; exact progress_error s e s1) (by rw [hs]; exact T), h⟩

/-! ### the commands phase: interface of layers (e)-(f) -/

/-- one list is a prefix of the other: the two outputs agree position by position. -/
def Agree (a b : List UInt8) : Prop := a <+: b ∨ b <+: a

theorem Agree.refl (a : List UInt8) : Agree a a := Or.inl (List.prefix_refl a)

/-- what `readPrefixCodes` set up for the commands of a meta-block, against the specification's `Header`. -/
structure HdrOK (s : State) (h : Header) (ntL ntI ntD : Nat) : Prop where
  npostfix : s.npostfix = h.npostfix ∧ h.npostfix ≤ 3
  ndirect : s.ndirect = h.ndirect ∧ h.ndirect ≤ 120
  cmodes : s.cmodes = h.cmodes ∧ h.cmodes.size = ntL ∧ ∀ m ∈ h.cmodes, m < 4
  litMap : s.litMap = h.cmapL ∧ h.cmapL.size = 64 * ntL ∧ ∀ v ∈ h.cmapL, v < h.treesL.size
  distMap : s.distMap = h.cmapD ∧ h.cmapD.size = 4 * ntD ∧ ∀ v ∈ h.cmapD, v < h.treesD.size
  litTrees : s.litBlk.prefixes.size = h.treesL.size ∧
    ∀ i, i < h.treesL.size → CodeRel 256 (s.litBlk.prefixes.getD i {}) (h.treesL.getD i default)
  iacTrees : s.iacBlk.prefixes.size = h.treesI.size ∧ h.treesI.size = ntI ∧
    ∀ i, i < h.treesI.size → CodeRel 704 (s.iacBlk.prefixes.getD i {}) (h.treesI.getD i default)
  distTrees : s.distBlk.prefixes.size = h.treesD.size ∧
    ∀ i, i < h.treesD.size →
      CodeRel (16 + h.ndirect + (48 <<< h.npostfix)) (s.distBlk.prefixes.getD i {}) (h.treesD.getD i default)

/-- the model state in the commands phase against the specification's `Header` and `Cmd`
    (everything except the bit position, the window and `blkLen`/`insLen`/`cpyLen`). -/
structure CmdRel (s : State) (h : Header) (c : Cmd) : Prop where
  hdr : HdrOK s h c.litB.ntypes c.cmdB.ntypes c.distB.ntypes
  lit : BlkRel s.litBlk c.litB
  iac : BlkRel s.iacBlk c.cmdB
  dist : BlkRel s.distBlk c.distB
  litMapOff : s.litMapOff = 64 * c.litB.cur
  cmode : s.cmode = h.cmodes.getD c.litB.cur 0
  distMapOff : s.distMapOff = 4 * c.distB.cur
  dists : s.dists0 = c.d1 ∧ s.dists1 = c.d2 ∧ s.dists2 = c.d3 ∧ s.dists3 = c.d4

/-- **(f1)** `readPrefixCodes` = `readCompressedHeader`: from related states (model `s1` inside the
    header step, `blkLen` = MLEN) both fail, or both succeed at the same bit position with the model
    ready for `readCommands` (`CmdRel`), nothing else touched. -/
def PrefixCodesSim : Prop :=
  ∀ (ws : Nat) (s1 : State) (st1 : St) (ds : Dists) (del : List UInt8),
    Rel ws s1 st1 ds del → 0 ≤ s1.blkLen →
    match readCompressedHeader st1 with
    | (.ok (litB, cmdB, distB, h), st2) =>
      ∃ s2 k, readPrefixCodes s1 = (.ok (), s2) ∧ k ≤ st1.bits.length ∧ st2 = stAt st1 k ∧ s2.step = .commands ∧
        Rel ws s2 st2 ds del ∧ s2.blkLen = s1.blkLen ∧ s2.last = s1.last ∧ s2.dict = s1.dict ∧
        CmdRel s2 h { mlen := s1.blkLen.toNat, litB := litB, cmdB := cmdB, distB := distB,
                       d1 := ds.d1, d2 := ds.d2, d3 := ds.d3, d4 := ds.d4 } ∧
        (litB.ntypes < 2 → litB.count = 2 ^ 24) ∧ (cmdB.ntypes < 2 → cmdB.count = 2 ^ 24) ∧
        (distB.ntypes < 2 → distB.count = 2 ^ 24)
    | (.error _, st2) =>
      ∃ e s2, readPrefixCodes s1 = (.error e, s2) ∧ e ≠ .eof ∧ s2.dict = s1.dict ∧ st2.out = st1.out

/-- **(f2)** the commands of a meta-block: from a model state ready for `readCommands`
    (`step = commands`, `stepState = init`, `CmdRel`, `blkLen = c.mlen ≥ 1`) the reader runs through the
    steps of `readCommands` (window-full suspensions included) like the specification's `readCommands`:
    if that succeeds, the model reaches the next meta-block boundary with the same output, bit position
    and last distances; if it fails, so does the model (never `io.EOF`), and the outputs agree — the
    latter under a size cap: the specification gives a single-type block a count of 2^24 and fails when
    it is used up, the Go code (like libbrotlidec) lets such a block run on; every command consumes a bit
    or produces a byte, so with fewer than 2^24 input bits plus output bytes the cap is never reached. -/
def CommandsSim (sd : ByteArray) : Prop :=
  ∀ (ws : Nat) (s : State) (st : St) (ds : Dists) (del : List UInt8) (h : Header) (c : Cmd),
    Rel ws s st ds del → s.step = .commands → CmdRel s h c → s.blkLen = (c.mlen : Int) →
    1 ≤ c.mlen → c.mlen ≤ 2 ^ 24 →
    (c.litB.ntypes < 2 → c.litB.count = 2 ^ 24) → (c.cmdB.ntypes < 2 → c.cmdB.count = 2 ^ 24) →
    (c.distB.ntypes < 2 → c.distB.count = 2 ^ 24) →
    match readCommands sd ws h (c.mlen + st.bits.length + 1) c st with
    | (.ok c', st') =>
      ∃ X s', Run sd s X s' ∧ Rel ws s' st' { d1 := c'.d1, d2 := c'.d2, d3 := c'.d3, d4 := c'.d4 } (del ++ X) ∧
        s'.step = .blockHeader ∧ s'.last = s.last ∧ st'.bits.length ≤ st.bits.length
    | (.error _, st') =>
      st.bits.length + st'.out.size < 2 ^ 24 →
      ∃ X e, Trace sd s X e ∧ e ≠ .eof ∧ Agree (del ++ X) st'.out.toList

/-- **compressed meta-blocks** (layers (d)-(f) together): from the state `s1` the model is in when
    `readBlockHeader` calls `readPrefixCodes` (same step!), with `blkLen` = MLEN. -/
def CompressedSim (sd : ByteArray) : Prop :=
  ∀ (ws : Nat) (s1 : State) (st1 : St) (ds : Dists) (del : List UInt8) (mlen : Nat),
    Rel ws s1 st1 ds del → s1.blkLen = (mlen : Int) → 1 ≤ mlen → mlen ≤ 2 ^ 24 →
    ((fin (readPrefixCodes s1)).err = none →
      (fin (readPrefixCodes s1)).rd.bits.length ≤ s1.rd.bits.length) ∧
    match specCompressed sd ws mlen ds st1 with
    | (.ok ds', st') =>
      ∃ X s', Run sd (fin (readPrefixCodes s1)) X s' ∧ Rel ws s' st' ds' (del ++ X) ∧
        s'.step = .blockHeader ∧ s'.last = s1.last ∧ st'.bits.length ≤ st1.bits.length
    | (.error _, st') =>
      st1.bits.length + st'.out.size < 2 ^ 24 →
      ∃ X e, Trace sd (fin (readPrefixCodes s1)) X e ∧ e ≠ .eof ∧ Agree (del ++ X) st'.out.toList

/-- `CompressedSim` asked only at specification states that satisfy `G`. -/
def CompressedSimOn (sd : ByteArray) (G : St → Prop) : Prop :=
  ∀ (ws : Nat) (s1 : State) (st1 : St) (ds : Dists) (del : List UInt8) (mlen : Nat), G st1 →
    Rel ws s1 st1 ds del → s1.blkLen = (mlen : Int) → 1 ≤ mlen → mlen ≤ 2 ^ 24 →
    ((fin (readPrefixCodes s1)).err = none →
      (fin (readPrefixCodes s1)).rd.bits.length ≤ s1.rd.bits.length) ∧
    match specCompressed sd ws mlen ds st1 with
    | (.ok ds', st') =>
      ∃ X s', Run sd (fin (readPrefixCodes s1)) X s' ∧ Rel ws s' st' ds' (del ++ X) ∧
        s'.step = .blockHeader ∧ s'.last = s1.last ∧ st'.bits.length ≤ st1.bits.length
    | (.error _, st') =>
      st1.bits.length + st'.out.size < 2 ^ 24 →
      ∃ X e, Trace sd (fin (readPrefixCodes s1)) X e ∧ e ≠ .eof ∧ Agree (del ++ X) st'.out.toList

theorem CompressedSim.on {sd : ByteArray} (h : CompressedSim sd) (G : St → Prop) : CompressedSimOn sd G :=
  fun ws s1 st1 ds del mlen _ => h ws s1 st1 ds del mlen

/-- where compressed meta-blocks may occur in the specification's run: `I` holds at the meta-block
    boundaries, `G` where a compressed meta-block starts. -/
structure Reach (sd : ByteArray) (ws : Nat) (I G : St → Prop) : Prop where
  comp : ∀ st st1 last mlen, I st → specHdr st = (.ok (.data last mlen false), st1) → G st1
  mdata : ∀ st st1 skip st', I st → specHdr st = (.ok (.metadata false skip), st1) →
      (alignToByte >>= fun _ => skipBytes skip) st1 = (.ok (), st') → I st'
  raw : ∀ st st1 mlen st', I st → specHdr st = (.ok (.data false mlen true), st1) →
      (alignToByte >>= fun _ => copyBytes mlen) st1 = (.ok (), st') → I st'
  next : ∀ st st1 mlen ds ds' st', I st → specHdr st = (.ok (.data false mlen false), st1) →
      specCompressed sd ws mlen ds st1 = (.ok ds', st') → I st'

theorem Reach.trivial (sd : ByteArray) (ws : Nat) : Reach sd ws (fun _ => True) (fun _ => True) :=
  ⟨fun _ _ _ _ _ _ => True.intro, fun _ _ _ _ _ _ _ => True.intro, fun _ _ _ _ _ _ _ => True.intro,
   fun _ _ _ _ _ _ _ _ _ => True.intro⟩

end Compress.Proofs.BrImpl
