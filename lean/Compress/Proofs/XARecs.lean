/-
C15 helpers: what `Reader.Reset` (`openIndex`) guarantees of the merged index for an arbitrary
byte string: both offsets grow, the compressed offsets end at the length of the stream, the
last record is the footer and no other record is.
-/
import Compress.XFlate.Open
import Compress.Proofs.XRIndex
import Compress.Proofs.XWRecords
import Compress.Proofs.XCostOpen
import Compress.Proofs.XGAlloc

namespace Compress.Proofs.XFlateAccept
open Compress Compress.XFlate Compress.Proofs.XRIndex Compress.Proofs.XWShape

/-- compressed offset at which segment `j` starts. -/
def cbnd (recs : List Record) (j : Nat) : Int :=
  if j = 0 then 0 else (recs[j-1]?.getD Record.zero).comp

theorem cbnd_zero (recs : List Record) : cbnd recs 0 = 0 := by simp [cbnd]

theorem cbnd_succ (recs : List Record) (j : Nat) (h : j < recs.length) :
    cbnd recs (j+1) = recs[j].comp := by
  simp [cbnd, h]

theorem gr_prev_comp (recs : List Record) (j : Nat) (h : j ≤ recs.length) :
    (getRecords recs j).1.comp = cbnd recs j := by
  rcases Nat.lt_or_eq_of_le h with h | h
  · rw [gr_lt recs j h]
    by_cases hj : j = 0
    · subst hj; simp [cbnd, Record.zero]
    · have : j ≥ 1 := by omega
      simp [cbnd, hj, this]
  · subst h
    rw [gr_len]
    by_cases hj : recs.length = 0
    · simp [cbnd, hj, Record.zero]
    · have : recs.length ≥ 1 := by omega
      simp [cbnd, hj, this]

theorem gr_curr_comp_lt (recs : List Record) (j : Nat) (h : j < recs.length) :
    (getRecords recs j).2.comp = cbnd recs (j+1) := by
  rw [gr_curr_lt recs j h, cbnd_succ recs j h]

theorem cbnd_len (recs : List Record) : cbnd recs recs.length = (lastRecord recs).comp := by
  unfold lastRecord cbnd
  cases recs with
  | nil => simp [Record.zero]
  | cons a rs =>
    simp [List.getLast?_eq_getElem?]

/-- both offsets grow from record to record (and start from zero). -/
def Grow (recs : List Record) : Prop :=
  ∀ j, j < recs.length → bnd recs j ≤ bnd recs (j+1) ∧ cbnd recs j ≤ cbnd recs (j+1)

theorem grow_nil : Grow [] := by intro j h; simp at h

theorem bnd_snoc_le (recs : List Record) (x : Record) (j : Nat) (h : j ≤ recs.length) :
    bnd (recs ++ [x]) j = bnd recs j := by
  unfold bnd
  by_cases hj : j = 0
  · simp [hj]
  · simp only [hj, if_false]
    rw [List.getElem?_append_left (by omega)]

theorem cbnd_snoc_le (recs : List Record) (x : Record) (j : Nat) (h : j ≤ recs.length) :
    cbnd (recs ++ [x]) j = cbnd recs j := by
  unfold cbnd
  by_cases hj : j = 0
  · simp [hj]
  · simp only [hj, if_false]
    rw [List.getElem?_append_left (by omega)]

theorem bnd_snoc_last (recs : List Record) (x : Record) :
    bnd (recs ++ [x]) (recs.length + 1) = x.raw := by
  simp [bnd]

theorem cbnd_snoc_last (recs : List Record) (x : Record) :
    cbnd (recs ++ [x]) (recs.length + 1) = x.comp := by
  simp [cbnd]

theorem grow_snoc (recs : List Record) (x : Record) (h : Grow recs)
    (hr : (lastRecord recs).raw ≤ x.raw) (hc : (lastRecord recs).comp ≤ x.comp) : Grow (recs ++ [x]) := by
  intro j hj
  simp only [List.length_append, List.length_cons, List.length_nil] at hj
  rcases Nat.lt_or_ge j recs.length with hlt | hge
  · rw [bnd_snoc_le _ _ _ (by omega), bnd_snoc_le _ _ _ (by omega), cbnd_snoc_le _ _ _ (by omega),
      cbnd_snoc_le _ _ _ (by omega)]
    exact h j hlt
  · have : j = recs.length := by omega
    subst this
    rw [bnd_snoc_le _ _ _ (Nat.le_refl _), cbnd_snoc_le _ _ _ (Nat.le_refl _), bnd_snoc_last, cbnd_snoc_last,
      bnd_len, cbnd_len]
    exact ⟨hr, hc⟩

theorem appendRecord_some {recs out : List Record} {cs rs : Int} {t : Nat}
    (h : appendRecord recs cs rs t = some out) :
    0 ≤ cs ∧ 0 ≤ rs ∧ out = recs ++ [⟨(lastRecord recs).comp + cs, (lastRecord recs).raw + rs, t⟩] := by
  unfold appendRecord at h
  split at h
  · cases h
  · rename_i hneg
    simp only [Bool.or_eq_true, decide_eq_true_eq, not_or, Int.not_lt] at hneg
    simp only at h
    split at h
    · cases h
    · exact ⟨hneg.2, hneg.1, (Option.some.inj h).symm⟩

/-- record types an index contributes. -/
def ChunkTyp (t : Nat) : Prop := t = deflateType ∨ t = indexType

theorem appendRecord_keeps {recs out : List Record} {cs rs : Int} {t : Nat}
    (h : appendRecord recs cs rs t = some out) (hg : Grow recs) (ht : ∀ r ∈ recs, ChunkTyp r.typ)
    (hT : ChunkTyp t) :
    Grow out ∧ (∀ r ∈ out, ChunkTyp r.typ) ∧ lastC out = lastC recs + cs := by
  obtain ⟨h1, h2, rfl⟩ := appendRecord_some h
  refine ⟨grow_snoc _ _ hg (by simp only; omega) (by simp only; omega), ?_, ?_⟩
  · intro r hr
    rcases List.mem_append.1 hr with hr | hr
    · exact ht r hr
    · rw [List.mem_singleton.1 hr]; exact hT
  · unfold lastC; rw [lastRecord_snoc]

theorem appendIndex_go_keeps : ∀ (other acc : List Record) (pre : Record) (out : List Record),
    Grow acc → (∀ r ∈ acc, ChunkTyp r.typ) → (∀ r ∈ other, r.typ = deflateType) →
    appendIndex.go acc pre other = some out →
    Grow out ∧ (∀ r ∈ out, ChunkTyp r.typ) ∧
      lastC out = lastC acc + (XCostOpen.lastCompOr other pre.comp - pre.comp)
  | [], acc, pre, out, hg, ht, _, h => by
    simp only [appendIndex.go] at h
    rw [← Option.some.inj h]
    exact ⟨hg, ht, by simp [XCostOpen.lastCompOr]⟩
  | r :: rs, acc, pre, out, hg, ht, ho, h => by
    simp only [appendIndex.go] at h
    cases ha : appendRecord acc (r.comp - pre.comp) (r.raw - pre.raw) r.typ with
    | none => rw [ha] at h; cases h
    | some acc' =>
      rw [ha] at h
      simp only [] at h
      obtain ⟨g1, t1, l1⟩ := appendRecord_keeps ha hg ht (Or.inl (ho r (List.mem_cons_self ..)))
      obtain ⟨g2, t2, l2⟩ := appendIndex_go_keeps rs acc' r out g1 t1
        (fun q hq => ho q (List.mem_cons_of_mem _ hq)) h
      refine ⟨g2, t2, ?_⟩
      rw [l2, l1]
      simp only [XCostOpen.lastCompOr]
      omega

/-- total compressed size the indexes account for: their chunks and themselves. -/
def tot : List (Int × List Record) → Int
  | [] => 0
  | p :: ps => (lastRecord p.2).comp + p.1 + tot ps

theorem mergeIndexes_keeps : ∀ (idxs : List (Int × List Record)) (recs out : List Record),
    Grow recs → (∀ r ∈ recs, ChunkTyp r.typ) → (∀ p ∈ idxs, ∀ r ∈ p.2, r.typ = deflateType) →
    mergeIndexes idxs recs = .ok out →
    Grow out ∧ (∀ r ∈ out, ChunkTyp r.typ) ∧ lastC out = lastC recs + tot idxs
  | [], recs, out, hg, ht, _, h => by
    simp only [mergeIndexes] at h
    cases h
    exact ⟨hg, ht, by simp [tot]⟩
  | (isz, irecs) :: rest, recs, out, hg, ht, hi, h => by
    simp only [mergeIndexes] at h
    cases h1 : appendIndex recs irecs with
    | none => rw [h1] at h; cases h
    | some r1 =>
      rw [h1] at h
      simp only [] at h
      cases h2 : appendRecord r1 isz 0 indexType with
      | none => rw [h2] at h; cases h
      | some r2 =>
        rw [h2] at h
        simp only [] at h
        obtain ⟨g1, t1, l1⟩ := appendIndex_go_keeps irecs recs Record.zero r1 hg ht
          (hi (isz, irecs) (List.mem_cons_self ..)) h1
        obtain ⟨g2, t2, l2⟩ := appendRecord_keeps h2 g1 t1 (Or.inr rfl)
        obtain ⟨g3, t3, l3⟩ := mergeIndexes_keeps rest r2 out g2 t2
          (fun p hp => hi p (List.mem_cons_of_mem _ hp)) h
        refine ⟨g3, t3, ?_⟩
        have hz : Record.zero.comp = 0 := rfl
        rw [l3, l2, l1, hz, XCostOpen.lastCompOr_zero]
        simp only [tot]
        omega

theorem walk_tot (crc : List UInt8 → Nat) (stream : List UInt8) :
    ∀ (fuel : Nat) (pos back comp : Int) (acc : List (Int × List Record)) (alloc : Nat)
      (idxs : List (Int × List Record)) (alloc' : Nat),
      walkIndexes .fixed crc stream fuel pos back comp acc alloc = .ok (idxs, alloc') →
      tot idxs = tot acc + (pos - comp)
  | 0, _, _, _, _, _, _, _, h => by simp [walkIndexes] at h
  | fuel+1, pos, back, comp, acc, alloc, idxs, alloc', h => by
    rw [walkIndexes] at h
    split at h
    · cases h
    · split at h
      · rename_i hb
        split at h
        · cases h
        · rename_i hz
          simp only [Except.ok.injEq, Prod.mk.injEq] at h
          obtain ⟨rfl, _⟩ := h
          have : pos - (back + comp) = 0 := Decidable.not_not.1 hz
          omega
      · split at h
        · cases h
        · rename_i ir hdi
          have := walk_tot crc stream fuel _ _ _ _ _ idxs alloc' h
          rw [this]
          simp only [tot]
          omega

/-- **what `Reset` guarantees of the merged index.** -/
theorem open_recs (crc : List UInt8 → Nat) (stream : List UInt8) (r : OpenResult)
    (h : openIndex .fixed crc stream = .ok r) :
    ∃ recs0 foot, r.recs = recs0 ++ [foot] ∧ foot.typ = footerType ∧
      (∀ x ∈ recs0, ChunkTyp x.typ) ∧ Grow r.recs ∧ (lastRecord r.recs).comp = (stream.length : Int) := by
  unfold openIndex at h
  cases hf : decodeFooter stream with
  | error e => rw [hf] at h; cases h
  | ok bf =>
    obtain ⟨backSize, footSize⟩ := bf
    rw [hf] at h
    simp only [] at h
    cases hw : walkIndexes .fixed crc stream (stream.length + 2)
        ((stream.length : Int) - footSize) backSize 0 [] 0 with
    | error e => rw [hw] at h; cases h
    | ok ia =>
      obtain ⟨idxs, alloc⟩ := ia
      rw [hw] at h
      simp only [] at h
      cases hm : mergeIndexes idxs [] with
      | error e => rw [hm] at h; cases h
      | ok recs =>
        rw [hm] at h
        simp only [] at h
        cases hap : appendRecord recs footSize 0 footerType with
        | none => rw [hap] at h; cases h
        | some recs' =>
          rw [hap] at h
          simp only [] at h
          cases h
          simp only []
          have ht := XCostOpen.walkIndexes_typ .fixed crc stream _ _ _ _ [] 0 idxs alloc
            (by intro p hp; cases hp) hw
          obtain ⟨g1, t1, l1⟩ := mergeIndexes_keeps idxs [] recs grow_nil (by intro r hr; cases hr) ht hm
          have hwt := walk_tot crc stream _ _ _ _ _ _ idxs alloc hw
          obtain ⟨a1, a2, rfl⟩ := appendRecord_some hap
          refine ⟨recs, _, rfl, rfl, t1, grow_snoc _ _ g1 (by simp only; omega) (by simp only; omega), ?_⟩
          rw [lastRecord_snoc]
          simp only
          unfold lastC at l1
          rw [l1, hwt]
          simp [tot, lastRecord_nil, Record.zero]

end Compress.Proofs.XFlateAccept
