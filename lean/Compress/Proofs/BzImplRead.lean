/-
Stage lemma (a): the Read loop.  `Impl.read` under any schedule of buffer lengths (zeros
included) hands out, piece by piece, the behaviour `beh` of the state (all remaining bytes, then
the final error), the error is sticky, and a positive-length Read always makes progress.
-/
import Compress.Proofs.BzImplDefs
import Compress.Proofs.BzImplBlock
import Compress.Proofs.Bzip2Stages
import Compress.Proofs.BzImplReadRle
import Compress.Proofs.BzImplReadLoop
import Compress.Proofs.BzImplReadOne
import Compress.Proofs.BzImplReadRun

namespace Compress.Proofs.BzImpl
open Compress Compress.Bzip2 Compress.Prefix
open Compress.Bzip2.Impl (Err M State)

/-! ### the RLE1 stage -/

/-- reading `a + b` bytes = reading `a`, then (if the stage has not ended) `b`. -/
theorem rle_read_add (a b : Nat) (r : RleR) (acc : List UInt8) :
    RleR.read (a + b) r acc =
      match RleR.read a r acc with
      | (r1, o1, .ok) => RleR.read b r1 o1.reverse
      | x => x :=
  RdAux.rle_read_add a b r acc

/-- emptying the stage ends it, and an ended stage stays ended and silent. -/
theorem rleAll_ended (r : RleR) : (rleAll r).2.2 ≠ .ok ∧
    ∀ n, RleR.read n (rleAll r).1 [] = ((rleAll r).1, [], if n = 0 then .ok else (rleAll r).2.2) :=
  RdAux.rleAll_ended r

/-- a partial read followed by emptying = emptying. -/
theorem rleAll_split (n : Nat) (r : RleR) :
    match RleR.read n r [] with
    | (r1, o1, .ok) => (rleAll r).2.1 = o1 ++ (rleAll r1).2.1 ∧ (rleAll r).2.2 = (rleAll r1).2.2 ∧ (rleAll r).1 = (rleAll r1).1
    | (r1, o1, st) => rleAll r = (r1, o1, st) :=
  RdAux.rleAll_split n r

/-- a fresh stage over a block delivers the specification's expansion. -/
theorem rleAll_fresh (blk : Array UInt8) :
    match unrle1 blk with
    | some data => (rleAll { buf := blk }).2 = (data, .done)
    | none => (rleAll { buf := blk }).2 = (Bzip2.readBlocks.rle1Partial blk, .corrupted) :=
  RdAux.rleAll_fresh blk

/-! ### chunks consume input -/

theorem chunk_consumes (s s' : State) (h : Impl.chunk s = .ok s') :
    s'.bits.length < s.bits.length ∧ s'.total = s.total ∧ s'.err = s.err ∧ (s'.crc = 0 ∨ s'.crc = s.crc) :=
  RdAux.chunk_consumes s s' h

theorem drain_fuel (s : State) (D : Nat) (h : s.bits.length + 2 ≤ D) : drain D s = beh s :=
  RdAux.drain_fuel s D h

/-! ### one Read -/

/-
The original statement

theorem read_spec (s : State) (hc : CrcOK s) (n fuel : Nat) (hf : s.bits.length + 2 ≤ fuel) :
    let r := Impl.read fuel n s
    CrcOK r.1 ∧ r.1.bits.length ≤ s.bits.length ∧
    (beh s).1 = r.2.1 ++ (beh r.1).1 ∧ (beh s).2 = (beh r.1).2 ∧
    (∀ e, r.2.2 = some e → r.2.1 = [] ∧ beh r.1 = ([], e) ∧
      ∀ m f, r.1.bits.length + 2 ≤ f → Impl.read f m r.1 = (r.1, [], some e)) ∧
    (r.2.2 = none → 0 < n → r.2.1 ≠ [])

is false for unreachable states and is restated as `read_spec_inv` below, with two changes:
* `CrcOK` alone is too weak an invariant: a state with a latched error whose RLE1 stage still holds
  data (say `err := some .eof`, `rle` fresh over a non-empty block) answers `Read(0)` with
  `(s, [], some .eof)` although `beh s` still starts with the bytes of the stage, so
  `beh r.1 = ([], e)` fails.  Reachable states never look like that (an error is latched only when the
  stage has ended); `ReadOK` = `CrcOK` + "a latched error means the stage has ended" is preserved by
  `Impl.read` and holds of `Impl.init`.
* `r.1.bits.length ≤ s.bits.length` is claimed only for a Read that returned no error: after a failed
  closure the remaining input is the error position of `blockBody`, about which the imported lemmas
  say nothing (`blockBody_length` covers success only).  Nothing downstream needs the bound after an
  error (`run_spec` is proved from this form).
-/

/-- invariant of reachable reader states: checksum register in range, and a latched error means
    the RLE1 stage has ended (its switch fails). -/
def ReadOK (s : State) : Prop := CrcOK s ∧ ∀ e, s.err = some e → ∃ st, Bzip2Rle.rstep s.rle = .error st

theorem readOK_init (bits : Bits) : ReadOK (Impl.init bits) := RdAux.readOK_init bits

theorem read_spec_inv (s : State) (hc : ReadOK s) (n fuel : Nat) (hf : s.bits.length + 2 ≤ fuel) :
    let r := Impl.read fuel n s
    ReadOK r.1 ∧ (r.2.2 = none → r.1.bits.length ≤ s.bits.length) ∧
    (beh s).1 = r.2.1 ++ (beh r.1).1 ∧ (beh s).2 = (beh r.1).2 ∧
    (∀ e, r.2.2 = some e → r.2.1 = [] ∧ beh r.1 = ([], e) ∧
      ∀ m f, r.1.bits.length + 2 ≤ f → Impl.read f m r.1 = (r.1, [], some e)) ∧
    (r.2.2 = none → 0 < n → r.2.1 ≠ []) :=
  RdAux.read_spec_inv fuel s n hc hf

/-! ### a schedule of Reads -/

/-- **every schedule delivers a prefix of the behaviour; a run that ended delivered all of it and
    ended with its error, which later Reads repeat without data; a run that has not ended delivered
    at least one byte per positive-length Read.** -/
theorem run_spec (bytes : List UInt8) (sched : List Nat) :
    let r := Impl.run bytes sched
    let b := beh (Impl.init (Bits.ofBytesMSB bytes))
    r.delivered <+: b.1 ∧
    (∀ e, r.err = some e → r.delivered = b.1 ∧ e = b.2 ∧
      ∀ m, Impl.read (Impl.readFuel r.final) m r.final = (r.final, [], some e)) ∧
    (r.err = none → (sched.filter (0 < ·)).length ≤ r.delivered.length) :=
  RdAux.runFrom_spec sched (Impl.init (Bits.ofBytesMSB bytes)) (RdAux.readOK_init _)

end Compress.Proofs.BzImpl
