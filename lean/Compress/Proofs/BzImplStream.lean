/-
Stage lemma (b): framing.  The behaviour of the initial reader state (stream header, blocks with
the CRC check deferred to the next chunk, footer, combined CRC, padding, restart on the next
stream, io.EOF only after at least one stream) is the specification's `decode`.
-/
import Compress.Proofs.BzImplBlock
import Compress.Proofs.BzImplRead
import Compress.Proofs.BzRTBits

namespace Compress.Proofs.BzImpl
open Compress Compress.Bzip2 Compress.Prefix
open Compress.Bzip2.Impl (Err M State)

/-- the model's remaining behaviour `b` continues the output `out` the way the result `R` says. -/
def Agree (out : Array UInt8) (b : List UInt8 × Err) (R : Result) : Prop :=
  R.out.toList = out.toList ++ b.1 ∧ (b.2 = .eof ↔ R.verdict = .ok) ∧ (b.2 ≠ .eof → ErrRel b.2 R.verdict)

theorem agree_err {e : Err} {v : Verdict} (h : ErrRel e v) (out : Array UInt8) :
    Agree out ([], e) { out := out, verdict := v } := by
  refine ⟨by simp, ?_, fun _ => h⟩
  cases h <;> simp

theorem agree_prepend {out : Array UInt8} {d : List UInt8} {b : List UInt8 × Err} {R : Result}
    (h : Agree (out ++ d.toArray) b R) : Agree out (d ++ b.1, b.2) R := by
  obtain ⟨h1, h2, h3⟩ := h
  exact ⟨by simpa [List.append_assoc] using h1, h2, h3⟩

/-- what follows a chunk. -/
def after (x : M State) : List UInt8 × Err :=
  match x with
  | .error (e, _) => ([], e)
  | .ok s3 => beh { s3 with inOff := Impl.offsetOf s3.total s3.bits }

/-- the state in which `drain` runs the chunk. -/
def preChunk (s : State) : State :=
  let x := rleAll s.rle
  { afterRle s x.1 x.2.2 with
    crc := if x.2.1.length > 0 then crcUpdateGo s.crc x.2.1 else s.crc
    outOff := s.outOff + x.2.1.length }

theorem beh_step (s : State) :
    beh s =
      match (preChunk s).err with
      | some e => ((rleAll s.rle).2.1, e)
      | none => ((rleAll s.rle).2.1 ++ (after (Impl.chunk (preChunk s))).1, (after (Impl.chunk (preChunk s))).2) := by
  have hs2 : ∀ (rle' : RleR) (out : List UInt8) (st : RleStatus), rleAll s.rle = (rle', out, st) →
      (if out.length > 0 then
        { afterRle s rle' st with crc := crcUpdateGo (afterRle s rle' st).crc out,
                                  outOff := (afterRle s rle' st).outOff + out.length }
       else afterRle s rle' st) = preChunk s := by
    intro rle' out st h
    unfold preChunk
    simp only [h]
    split
    · rfl
    · have : out.length = 0 := by omega
      simp [this, afterRle]
  unfold beh
  show drain (s.bits.length + 1 + 1) s = _
  rw [drain]
  rcases h : rleAll s.rle with ⟨rle', out, st⟩
  simp only [hs2 rle' out st h]
  cases he : (preChunk s).err with
  | some e => rfl
  | none =>
    simp only []
    cases hc : Impl.chunk (preChunk s) with
    | error e => obtain ⟨e, r⟩ := e; simp [after]
    | ok s3 =>
      simp only [after]
      have hcc := chunk_consumes _ _ hc
      have hb : (preChunk s).bits = s.bits := by simp [preChunk, afterRle]
      rw [drain_fuel]
      · show s3.bits.length + 2 ≤ s.bits.length + 1
        rw [hb] at hcc
        omega

/-- a stage whose block lacks its final count: the partial bytes, then `Corrupted`. -/
theorem beh_block_bad (s : State) (blk : Array UInt8) (hrle : s.rle = { buf := blk }) (herr : s.err = none)
    (hu : unrle1 blk = none) : beh s = (Bzip2.readBlocks.rle1Partial blk, .corrupted) := by
  have h := rleAll_fresh blk
  rw [hu] at h
  simp only [] at h
  rw [beh_step]
  have he : (preChunk s).err = some .corrupted := by
    simp [preChunk, afterRle, hrle, h, herr]
  rw [he, hrle, h]

/-- a stage over a complete block: its bytes, then the chunk run with the block's CRC. -/
theorem beh_block_good (s : State) (blk : Array UInt8) (data : List UInt8) (hrle : s.rle = { buf := blk })
    (herr : s.err = none) (hu : unrle1 blk = some data) :
    ∃ s2 : State, s2.err = none ∧ (s.crc = 0 → s2.crc = blockCRC data) ∧ s2.bits = s.bits ∧ s2.level = s.level ∧
      s2.rdHdrFtr = s.rdHdrFtr ∧ s2.blkCRC = s.blkCRC ∧ s2.endCRC = s.endCRC ∧
      beh s = (data ++ (after (Impl.chunk s2)).1, (after (Impl.chunk s2)).2) := by
  have h := rleAll_fresh blk
  rw [hu] at h
  simp only [] at h
  have he : (preChunk s).err = none := by
    simp [preChunk, afterRle, hrle, h, herr]
  refine ⟨preChunk s, he, ?_, by simp [preChunk, afterRle], by simp [preChunk, afterRle],
    by simp [preChunk, afterRle], by simp [preChunk, afterRle], by simp [preChunk, afterRle], ?_⟩
  · intro hcrc
    simp only [preChunk, hrle, h, hcrc]
    split
    · exact Bzip2Stages.crc_go_block data
    · have : data = [] := by
        cases data with
        | nil => rfl
        | cons a l => simp at *
      subst this; rfl
  · rw [beh_step, he, hrle, h]

/-- the specification's continuation after the blocks of a stream. -/
def cont (F nS : Nat) (x : Result × Option Bits) : Result :=
  match x with
  | (r, none) => r
  | (r, some rest) => decodeStreams F (nS + 1) r.out rest

/-- the stream-start statement for the stream fuel `F`. -/
def StreamOK (F : Nat) : Prop :=
  ∀ (nS : Nat) (out : Array UInt8) (s : State), s.err = none → s.rdHdrFtr = 2 * nS →
    s.rle = { buf := #[] } → s.endCRC = 0 → s.bits.length + 8 ≤ 8 * F → Agree out (beh s) (decodeStreams F nS out s.bits)

theorem hdr_sim (F nS : Nat) (out : Array UInt8) (bits : Bits) (hne : bits.isEmpty = false) :
    match Impl.streamHeader bits with
    | .error (e, _) => ∃ v, decodeStreams (F + 1) nS out bits = { out := out, verdict := v } ∧ ErrRel e v
    | .ok (lv, b3) => decodeStreams (F + 1) nS out bits = cont F nS (readBlocks lv (b3.length + 2) 0 out b3) ∧
        b3.length + 32 = bits.length := by
  unfold Impl.streamHeader
  rw [decodeStreams]
  simp only [hne, bind, Except.bind, pure, Except.pure, throw, throwThe, MonadExceptOf.throw]
  cases h1 : Impl.readBitsBE64 16 bits with
  | error e =>
    obtain ⟨e, r⟩ := e
    obtain ⟨he, hs⟩ := readBitsBE64_error 16 (by omega) bits e r h1
    subst he
    simp [hs]
    exact .ueof
  | ok x =>
    obtain ⟨m, b1⟩ := x
    have hs1 := (readBitsBE64_ok 16 (by omega) bits m b1).1 h1
    have hl1 := readBitsBE64_length 16 bits m b1 h1
    simp only [hs1]
    by_cases hm : m = hdrMagic
    · simp only [hm, ne_eq, not_true_eq_false, if_false]
      cases h2 : Impl.readBitsBE64 8 b1 with
      | error e =>
        obtain ⟨e, r⟩ := e
        obtain ⟨he, hs⟩ := readBitsBE64_error 8 (by omega) b1 e r h2
        subst he
        simp [hs]
        exact .ueof
      | ok x =>
        obtain ⟨ver, b2⟩ := x
        have hs2 := (readBitsBE64_ok 8 (by omega) b1 ver b2).1 h2
        have hl2 := readBitsBE64_length 8 b1 ver b2 h2
        simp only [hs2]
        by_cases hv : ver = 0x68
        · simp only [hv, not_true_eq_false, if_false]
          cases h3 : Impl.readBitsBE64 8 b2 with
          | error e =>
            obtain ⟨e, r⟩ := e
            obtain ⟨he, hs⟩ := readBitsBE64_error 8 (by omega) b2 e r h3
            subst he
            simp [hs]
            exact .ueof
          | ok x =>
            obtain ⟨lv, b3⟩ := x
            have hs3 := (readBitsBE64_ok 8 (by omega) b2 lv b3).1 h3
            have hl3 := readBitsBE64_length 8 b2 lv b3 h3
            simp only [hs3]
            by_cases hlv : lv < 0x31 ∨ lv > 0x39
            · simp only [hlv, if_true]
              exact ⟨_, rfl, .corrupt⟩
            · simp only [hlv, if_false]
              refine ⟨?_, by omega⟩
              unfold cont
              rfl
        · simp only [hv, not_false_eq_true, if_true]
          refine ⟨_, rfl, ?_⟩
          split
          · exact .deprecated
          · exact .corrupt
    · simp only [hm, ne_eq, not_false_eq_true, if_true]
      exact ⟨_, rfl, .corrupt⟩

theorem blocks_ok (hT : TablesAgree) (F : Nat) (hF : StreamOK F) :
    ∀ (f nS : Nat) (out : Array UInt8) (s0 : State) (bits : Bits), s0.err = none → s0.rdHdrFtr = 2 * nS + 1 →
      bits.length < f → bits.length ≤ 8 * F →
      Agree out (after (Impl.decodeBlock s0 bits)) (cont F nS (readBlocks s0.level f s0.endCRC out bits)) := by
  intro f
  induction f with
  | zero => intro nS out s0 bits _ _ h; omega
  | succ f ih =>
    intro nS out s0 bits herr hrd hf hF8
    unfold Impl.decodeBlock
    rw [readBlocks]
    cases h1 : Impl.readBitsBE64 48 bits with
    | error e =>
      obtain ⟨e, r⟩ := e
      obtain ⟨he, hs⟩ := readBitsBE64_error 48 (by omega) bits e r h1
      subst he
      simp only [hs, cont, after]
      exact agree_err .ueof out
    | ok x =>
      obtain ⟨magic, b1⟩ := x
      have hs1 := (readBitsBE64_ok 48 (by omega) bits magic b1).1 h1
      have hl1 := readBitsBE64_length 48 bits magic b1 h1
      simp only [hs1]
      by_cases hme : magic = endMagic
      · have hmb : magic ≠ blkMagic := by rw [hme]; decide
        subst hme
        simp only [ne_eq, hmb, not_false_eq_true, if_true]
        cases h2 : Impl.readBitsBE64 32 b1 with
        | error e =>
          obtain ⟨e, r⟩ := e
          obtain ⟨he, hs⟩ := readBitsBE64_error 32 (by omega) b1 e r h2
          subst he
          simp only [hs, cont, after]
          exact agree_err .ueof out
        | ok x =>
          obtain ⟨crc, b2⟩ := x
          have hs2 := (readBitsBE64_ok 32 (by omega) b1 crc b2).1 h2
          have hl2 := readBitsBE64_length 32 b1 crc b2 h2
          simp only [hs2]
          by_cases hc : s0.endCRC = crc
          · have hc' : ¬ crc ≠ s0.endCRC := by simp [hc]
            simp only [hc, not_true_eq_false, if_false, cont, after]
            refine hF (nS + 1) out _ herr ?_ rfl rfl ?_
            · show s0.rdHdrFtr + 1 = 2 * (nS + 1)
              omega
            · show (List.drop (b2.length % 8) b2).length + 8 ≤ 8 * F
              rw [List.length_drop]; omega
          · have hc' : crc ≠ s0.endCRC := fun h => hc h.symm
            simp only [hc, hc', not_false_eq_true, if_true, cont, after]
            exact agree_err .corrupt out
      · by_cases hmb : magic = blkMagic
        · subst hmb
          simp only [hme, ne_eq, not_true_eq_false, if_false]
          have hsim := block_sim hT s0.level b1
          unfold Sim at hsim
          cases hb : Impl.blockBody s0.level b1 with
          | error e =>
            obtain ⟨e, r⟩ := e
            rw [hb] at hsim
            cases hr : readBlock s0.level b1 with
            | ok y => rw [hr] at hsim; exact hsim.elim
            | error v =>
              rw [hr] at hsim
              simp only [cont, after]
              exact agree_err hsim out
          | ok x =>
            obtain ⟨blk, crc, rest⟩ := x
            rw [hb] at hsim
            cases hr : readBlock s0.level b1 with
            | error v => rw [hr] at hsim; exact hsim.elim
            | ok y =>
              rw [hr] at hsim
              simp only [] at hsim
              subst hsim
              have hl2 := blockBody_length s0.level b1 blk crc rest hb
              simp only [after]
              generalize hs1d : ({ s0 with crc := 0, blkCRC := crc, bits := rest, rle := { buf := blk }, inOff := Impl.offsetOf s0.total rest } : State) = s1
              have q1 : s1.rle = { buf := blk } := by rw [← hs1d]
              have q2 : s1.err = none := by rw [← hs1d]; exact herr
              have q3 : s1.crc = 0 := by rw [← hs1d]
              have q4 : s1.bits = rest := by rw [← hs1d]
              have q5 : s1.level = s0.level := by rw [← hs1d]
              have q6 : s1.rdHdrFtr = s0.rdHdrFtr := by rw [← hs1d]
              have q7 : s1.blkCRC = crc := by rw [← hs1d]
              have q8 : s1.endCRC = s0.endCRC := by rw [← hs1d]
              clear hs1d
              cases hu : unrle1 blk with
              | none =>
                rw [beh_block_bad s1 blk q1 q2 hu]
                simp only [cont]
                exact ⟨by simp, by simp, fun _ => .corrupt⟩
              | some data =>
                obtain ⟨s2, e2, c2, b2, l2, r2, k2, n2, hbeh⟩ := beh_block_good s1 blk data q1 q2 hu
                replace c2 := c2 q3
                rw [hbeh]
                rw [q4] at b2; rw [q5] at l2; rw [q6] at r2; rw [q7] at k2; rw [q8] at n2
                simp only []
                have hodd : ¬ s2.rdHdrFtr % 2 = 0 := by omega
                rw [Impl.chunk, if_neg hodd]
                by_cases hcrc : blockCRC data = crc
                · have hcrc' : ¬ s2.blkCRC ≠ s2.crc := by simp [k2, c2, hcrc]
                  rw [if_neg hcrc']
                  simp only [hcrc, not_true_eq_false, if_false]
                  have h := ih nS (out ++ data.toArray) { s2 with endCRC := combineCRC s2.endCRC s2.blkCRC } s2.bits
                    e2 (by show s2.rdHdrFtr = _; omega) (by rw [b2]; omega) (by rw [b2]; omega)
                  simp only [l2, k2, n2, b2] at h ⊢
                  exact agree_prepend h
                · have hcrc' : s2.blkCRC ≠ s2.crc := by rw [k2, c2]; exact fun h => hcrc h.symm
                  rw [if_pos hcrc']
                  simp only [hcrc, not_false_eq_true, if_true, cont, after]
                  exact ⟨by simp, by simp, fun _ => .corrupt⟩
        · simp only [hme, hmb, ne_eq, not_false_eq_true, if_true, if_false, cont, after]
          exact agree_err .corrupt out

theorem stream_ok (hT : TablesAgree) : ∀ F, StreamOK F := by
  intro F
  induction F with
  | zero => intro nS out s _ _ _ _ h; omega
  | succ F ihF =>
    intro nS out s herr hrd hrle hend hlen
    obtain ⟨s2, e2, -, b2, -, r2, -, n2, hbeh⟩ := beh_block_good s #[] [] hrle herr (by decide)
    rw [hbeh]
    have heven : s2.rdHdrFtr % 2 = 0 := by omega
    rw [Impl.chunk, if_pos heven, b2]
    cases hemp : s.bits.isEmpty with
    | true =>
      rw [decodeStreams]
      simp only [hemp, if_true, after, List.nil_append]
      by_cases hn : nS > 0
      · have : s2.rdHdrFtr > 0 := by omega
        simp only [hn, this, if_true]
        exact ⟨by simp, by simp, fun h => absurd rfl h⟩
      · have : ¬ s2.rdHdrFtr > 0 := by omega
        simp only [hn, this, if_false]
        exact agree_err .ueof out
    | false =>
      have hh := hdr_sim F nS out s.bits hemp
      simp only [Bool.false_eq_true, if_false]
      cases hsh : Impl.streamHeader s.bits with
      | error e =>
        obtain ⟨e, r⟩ := e
        rw [hsh] at hh
        obtain ⟨v, hv, hrel⟩ := hh
        rw [hv]
        simp only [after, List.nil_append]
        exact agree_err hrel out
      | ok x =>
        obtain ⟨lv, b3⟩ := x
        rw [hsh] at hh
        obtain ⟨hd, hl⟩ := hh
        rw [hd]
        simp only [List.nil_append]
        have h := blocks_ok hT F ihF (b3.length + 2) nS out { s2 with level := lv, rdHdrFtr := s2.rdHdrFtr + 1 } b3
          e2 (by show s2.rdHdrFtr + 1 = _; omega) (by omega) (by omega)
        simp only [n2, hend, b2] at h ⊢
        exact h

theorem beh_init_spec (hT : TablesAgree) (bytes : List UInt8) :
    let b := beh (Impl.init (Bits.ofBytesMSB bytes))
    let s := Bzip2.decode bytes
    b.1 = s.out.toList ∧ (b.2 = .eof ↔ s.verdict = .ok) ∧ (b.2 ≠ .eof → ErrRel b.2 s.verdict) := by
  have hlen := BzRT.ofBytesMSB_length bytes
  have h := stream_ok hT (bytes.length + 2) 0 #[] (Impl.init (Bits.ofBytesMSB bytes)) rfl rfl rfl rfl
    (by show (Bits.ofBytesMSB bytes).length + 8 ≤ _; omega)
  change Agree #[] _ (Bzip2.decode bytes) at h
  obtain ⟨h1, h2, h3⟩ := h
  exact ⟨by simpa using h1.symm, h2, h3⟩

end Compress.Proofs.BzImpl
