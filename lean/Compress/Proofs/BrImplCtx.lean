/-
C02 refinement, context layer: context ids (`getLitContextID`, `getDistContextID`)
and the context map of RFC 7932 section 7.3 (`readContextMap` with the run-length
loop and `MoveToFront.Decode` including its `tail` short cut).
-/
import Compress.Proofs.BrImplDefs
import Compress.Proofs.BrImplPrims
import Compress.Brotli.ImplContext

namespace Compress.Proofs.BrImpl
open Compress Compress.Brotli

/-! ### context ids -/

theorem lut2_le : ∀ i, i < 256 → lut2.getD i 0 ≤ 7 := by decide +kernel

theorem litContextID_eq (p1 p2 : UInt8) (mode : Nat) (hm : mode < 4) :
    Impl.getLitContextID p1 p2 mode = Brotli.literalContext mode p1 p2 := by
  have h1 : p1.toNat < 256 := p1.toNat_lt
  match mode, hm with
  | 0, _ => exact (Nat.or_zero (p1.toNat % 64) : p1.toNat % 64 ||| 0 = p1.toNat % 64)
  | 1, _ => exact (Nat.or_zero (p1.toNat / 4) : p1.toNat / 4 ||| 0 = p1.toNat / 4)
  | 2, _ => rfl
  | 3, _ =>
    have := lut2_le p1.toNat h1
    show (lut2.getD p1.toNat 0) * 8 % 256 ||| lut2.getD p2.toNat 0 =
      (lut2.getD p1.toNat 0) * 8 ||| lut2.getD p2.toNat 0
    rw [Nat.mod_eq_of_lt (by omega)]

theorem distContextID_eq (l : Nat) (hl : 2 ≤ l) : Impl.getDistContextID l = Brotli.distanceContext l := by
  unfold Impl.getDistContextID Brotli.distanceContext
  split
  · rfl
  · exact Nat.mod_eq_of_lt (by omega)

/-! ### `internal.MoveToFront.Decode` = inverse move-to-front of section 7.3 -/

/-- one move-to-front step on the dictionary. -/
def mtfStep (dict : List Nat) (idx : Nat) : List Nat := dict.getD idx 0 :: dict.eraseIdx idx

theorem mtfStep_length (dict : List Nat) (idx : Nat) (h : idx < dict.length) :
    (mtfStep dict idx).length = dict.length := by
  simp only [mtfStep, List.length_cons, List.length_eraseIdx, if_pos h]
  omega

theorem mtfStep_getD (dict : List Nat) (idx i : Nat) :
    (mtfStep dict idx).getD i 0 =
      if i = 0 then dict.getD idx 0 else if i - 1 < idx then dict.getD (i - 1) 0 else dict.getD i 0 := by
  cases i with
  | zero => simp [mtfStep]
  | succ j =>
    simp only [mtfStep, Nat.add_sub_cancel, List.getD_eq_getElem?_getD, List.getElem?_cons_succ,
      List.getElem?_eraseIdx, Nat.succ_ne_zero, if_false]
    split <;> rfl

theorem mtfLoop_nil (dict : List Nat) (mx : Nat) (out : List Nat) :
    Impl.mtfLoop [] dict mx out = (dict, mx, out) := rfl

theorem mtfLoop_cons (idx : Nat) (rest dict : List Nat) (mx : Nat) (out : List Nat) :
    Impl.mtfLoop (idx :: rest) dict mx out =
      Impl.mtfLoop rest (mtfStep dict idx) (mx ||| idx) (dict.getD idx 0 :: out) := rfl

/-- the specification's fold. -/
def imtfFold (vs : List Nat) (mtf out : List Nat) : List Nat × List Nat :=
  vs.foldl (fun (acc : List Nat × List Nat) v =>
      let (mtf, out) := acc
      let x := mtf.getD v 0
      (x :: mtf.eraseIdx v, x :: out)) (mtf, out)

theorem inverseMoveToFront_eq (vs : List Nat) :
    Brotli.inverseMoveToFront vs = (imtfFold vs (List.range 256) []).2.reverse := rfl

theorem imtfFold_cons (v : Nat) (vs mtf out : List Nat) :
    imtfFold (v :: vs) mtf out = imtfFold vs (mtfStep mtf v) (mtf.getD v 0 :: out) := rfl

theorem mtfLoop_eq_fold : ∀ (idxs dict : List Nat) (mx : Nat) (out : List Nat),
    (Impl.mtfLoop idxs dict mx out).1 = (imtfFold idxs dict out).1 ∧
    (Impl.mtfLoop idxs dict mx out).2.2 = (imtfFold idxs dict out).2
  | [], _, _, _ => ⟨rfl, rfl⟩
  | idx :: rest, dict, mx, out => by
    rw [mtfLoop_cons, imtfFold_cons]
    exact mtfLoop_eq_fold rest _ _ _

theorem or_lt_256 {a b : Nat} (ha : a < 256) (hb : b < 256) : a ||| b < 256 :=
  Nat.or_lt_two_pow (n := 8) ha hb

/-- what the loop of `Decode` preserves. -/
theorem mtfLoop_inv (k : Nat) (hk : k ≤ 256) : ∀ (idxs dict : List Nat) (mx : Nat) (out : List Nat),
    (∀ i ∈ idxs, i < k) → dict.length = 256 → mx < 256 →
    (∀ i, i < k → dict.getD i 0 < k) → (∀ v ∈ out, v < k) →
    (Impl.mtfLoop idxs dict mx out).1.length = 256 ∧
    (Impl.mtfLoop idxs dict mx out).2.2.length = idxs.length + out.length ∧
    (∀ v ∈ (Impl.mtfLoop idxs dict mx out).2.2, v < k) ∧
    mx ≤ (Impl.mtfLoop idxs dict mx out).2.1 ∧ (Impl.mtfLoop idxs dict mx out).2.1 < 256 ∧
    (∀ i, (Impl.mtfLoop idxs dict mx out).2.1 < i →
      (Impl.mtfLoop idxs dict mx out).1.getD i 0 = dict.getD i 0)
  | [], dict, mx, out, _, hl, hmx, _, ho => by
    rw [mtfLoop_nil]
    exact ⟨hl, by simp, ho, Nat.le_refl _, hmx, fun _ _ => rfl⟩
  | idx :: rest, dict, mx, out, hi, hl, hmx, hd, ho => by
    rw [mtfLoop_cons]
    have hidx : idx < k := hi idx (List.mem_cons_self ..)
    have hval : dict.getD idx 0 < k := hd idx hidx
    have ih := mtfLoop_inv k hk rest (mtfStep dict idx) (mx ||| idx) (dict.getD idx 0 :: out)
      (fun i h => hi i (List.mem_cons_of_mem _ h))
      (by rw [mtfStep_length _ _ (by omega), hl])
      (or_lt_256 hmx (by omega))
      (by
        intro i hik
        rw [mtfStep_getD]
        split
        · exact hval
        · split
          · exact hd _ (by omega)
          · exact hd _ hik)
      (by
        intro v hv
        rcases List.mem_cons.mp hv with rfl | hv
        · exact hval
        · exact ho v hv)
    obtain ⟨h1, h0, h2, h3, h4, h5⟩ := ih
    have hle1 : mx ≤ mx ||| idx := Nat.left_le_or
    have hle2 : idx ≤ mx ||| idx := Nat.right_le_or
    refine ⟨h1, by rw [h0]; simp only [List.length_cons]; omega, h2, by omega, h4, ?_⟩
    intro i hlt
    rw [h5 i hlt, mtfStep_getD, if_neg (by omega), if_neg (by omega)]

/-- with the invariant, resetting the first `256 - tail` entries resets the whole dictionary. -/
theorem mtf_reset (m : Impl.Mtf) (hm : MtfOK m) :
    List.range (256 - m.tail) ++ m.dict.drop (256 - m.tail) = List.range 256 := by
  obtain ⟨hl, ht, hid⟩ := hm
  apply List.ext_getElem
  · simp only [List.length_append, List.length_range, List.length_drop, hl]; omega
  · intro i h1 h2
    simp only [List.length_range] at h2
    rw [List.getElem_range]
    by_cases hi : i < 256 - m.tail
    · rw [List.getElem_append_left (by simpa using hi), List.getElem_range]
    · rw [List.getElem_append_right (by simpa using hi)]
      simp only [List.length_range, List.getElem_drop]
      have := hid i (by omega) h2
      rw [List.getD_eq_getElem?_getD, List.getElem?_eq_getElem (by omega)] at this
      simp only [Option.getD_some] at this
      have e : 256 - m.tail + (i - (256 - m.tail)) = i := by omega
      simp only [e]
      exact this

/-- **`MoveToFront.Decode`**: with the invariant it is the inverse move-to-front transform, it
    re-establishes the invariant, and indexes below `k` give values below `k`. -/
theorem mtf_decode (m : Impl.Mtf) (hm : MtfOK m) (idxs : List Nat) (k : Nat) (hk : k ≤ 256)
    (hi : ∀ i ∈ idxs, i < k) :
    (m.decode idxs).1 = Brotli.inverseMoveToFront idxs ∧ MtfOK (m.decode idxs).2 ∧
    (m.decode idxs).1.length = idxs.length ∧ ∀ v ∈ (m.decode idxs).1, v < k := by
  have hdec : m.decode idxs =
      ((Impl.mtfLoop idxs (List.range 256) 0 []).2.2.reverse,
        { dict := (Impl.mtfLoop idxs (List.range 256) 0 []).1,
          tail := 256 - (Impl.mtfLoop idxs (List.range 256) 0 []).2.1 - 1 }) := by
    rw [← mtf_reset m hm]; rfl
  obtain ⟨h1, h0, h2, -, h4, h5⟩ := mtfLoop_inv k hk idxs (List.range 256) 0 [] hi (by simp) (by omega)
    (by intro i hik; rw [List.getD_eq_getElem?_getD, List.getElem?_range (by omega)]; exact hik)
    (by simp)
  rw [hdec]
  refine ⟨?_, ⟨h1, by dsimp only; omega, ?_⟩, by simpa using h0, by simpa using h2⟩
  · rw [inverseMoveToFront_eq, (mtfLoop_eq_fold idxs (List.range 256) 0 []).2]
  · intro i hlo hhi
    dsimp only at hlo ⊢
    rw [h5 i (by omega), List.getD_eq_getElem?_getD, List.getElem?_range hhi]
    rfl

/-! ### more `SimRel` plumbing -/

/-- whatever holds of every value the specification action returns may be added to the relation. -/
theorem SimRel.strengthen {α β : Type} {R : α → β → Prop} {x : Impl.M α} {y : Dec β}
    (h : SimRel R x y) {P : β → Prop} (hP : ∀ st b st', y st = (.ok b, st') → P b) :
    SimRel (fun a b => R a b ∧ P b) x y := by
  intro st
  have := h st
  unfold SimAt at this ⊢
  rcases hx : x (brOf st) with ⟨_ | a, r⟩ <;> rcases hy : y st with ⟨_ | b, st'⟩ <;>
    rw [hx, hy] at this <;> simp only at this ⊢
  · exact this
  · obtain ⟨k, h1, h2, h3, h4⟩ := this
    exact ⟨k, h1, h2, h3, h4, hP _ _ _ hy⟩

/-- post-processing of the model value only. -/
theorem SimRel.map_left {α α' β : Type} {R : α → β → Prop} {R' : α' → β → Prop}
    {x : Impl.M α} {y : Dec β} {f : α → α'}
    (h : SimRel R x y) (hf : ∀ a b, R a b → R' (f a) b) :
    SimRel R' (x >>= fun a => Pure.pure (f a)) y := by
  intro st
  have := h st
  unfold SimAt at this ⊢
  rw [M_bind_apply]
  rcases hx : x (brOf st) with ⟨_ | a, r⟩ <;> rcases hy : y st with ⟨_ | b, st'⟩ <;>
    rw [hx, hy] at this <;> simp only [M_pure_apply] at this ⊢
  · exact this
  · obtain ⟨k, h1, h2, h3, h4⟩ := this
    exact ⟨k, h1, h2, h3, hf _ _ h4⟩

/-- post-processing of the specification value only. -/
theorem SimRel.map_right {α β β' : Type} {R : α → β → Prop} {R' : α → β' → Prop}
    {x : Impl.M α} {y : Dec β} {g : β → β'}
    (h : SimRel R x y) (hg : ∀ a b, R a b → R' a (g b)) :
    SimRel R' x (y >>= fun b => Pure.pure (g b)) := by
  intro st
  have := h st
  unfold SimAt at this ⊢
  rw [Dec_bind_apply]
  rcases hx : x (brOf st) with ⟨_ | a, r⟩ <;> rcases hy : y st with ⟨_ | b, st'⟩ <;>
    rw [hx, hy] at this <;> simp only [Dec_pure_apply] at this ⊢
  · exact this
  · obtain ⟨k, h1, h2, h3, h4⟩ := this
    exact ⟨k, h1, h2, h3, hg _ _ h4⟩

theorem Dec_bind_assoc {α β γ : Type} (x : Dec α) (f : α → Dec β) (g : β → Dec γ) :
    (x >>= f) >>= g = x >>= fun a => f a >>= g := by
  funext s
  simp only [Dec_bind_apply]
  rcases x s with ⟨e | a, s1⟩ <;> rfl

theorem Dec_map_eq {α β : Type} (f : α → β) (x : Dec α) : f <$> x = x >>= fun a => pure (f a) := rfl

/-- both sides fail, the second form. -/
theorem SimRel.panic_corrupt {α β : Type} {R : α → β → Prop} (e : Impl.BErr) (he : e ≠ .eof) :
    SimRel R (Impl.panic e : Impl.M α) (Brotli.corrupt : Dec β) :=
  SimRel.fail (fun r => ⟨e, r, rfl, he⟩) (fun s => ⟨.corrupt, s, rfl, rfl⟩)

/-! ### value bounds on the specification side -/

theorem specReadBits_lt (n : Nat) (st st' : St) (v : Nat) (h : Brotli.readBits n st = (.ok v, st')) :
    v < 2 ^ n := by
  by_cases hl : n ≤ st.bits.length
  · rw [(specReadBits_eq n st).1 hl] at h
    injection h with h1 _
    injection h1 with h1
    subst h1
    have := Compress.Proofs.PrefixCodes.toNat_lt (st.bits.take n)
    rw [List.length_take, Nat.min_eq_left hl] at this
    exact this
  · obtain ⟨s2, h1, _⟩ := (specReadBits_eq n st).2 (by omega)
    rw [h1] at h
    injection h with h1 _
    cases h1

theorem readCount256_bound (st st' : St) (v : Nat) (h : Brotli.readCount256 st = (.ok v, st')) :
    1 ≤ v ∧ v ≤ 256 := by
  have hdef : Brotli.readCount256 = Brotli.readBit >>= fun b =>
      if (!b) = true then pure 1
      else Brotli.readBits 3 >>= fun n => Brotli.readBits n >>= fun extra => pure (2 ^ n + extra + 1) := rfl
  rw [hdef, Dec_bind_apply] at h
  rcases hb : Brotli.readBit st with ⟨e | b, s1⟩ <;> rw [hb] at h <;> simp only at h
  · injection h with h1 _; cases h1
  · cases b
    · simp only [Bool.not_false, if_true, Dec_pure_apply] at h
      injection h with h1 _; injection h1 with h1; omega
    · simp only [Bool.not_true, Bool.false_eq_true, if_false, Dec_bind_apply] at h
      rcases hn : Brotli.readBits 3 s1 with ⟨e | n, s2⟩ <;> rw [hn] at h <;> simp only at h
      · injection h with h1 _; cases h1
      · rcases hx : Brotli.readBits n s2 with ⟨e | x, s3⟩ <;> rw [hx] at h <;> simp only at h
        · injection h with h1 _; cases h1
        · simp only [Dec_pure_apply] at h
          injection h with h1 _; injection h1 with h1
          have h3 := specReadBits_lt 3 _ _ _ hn
          have hxn := specReadBits_lt n _ _ _ hx
          have : 2 ^ n ≤ 2 ^ 7 := Nat.pow_le_pow_right (by omega) (by omega)
          omega

/-- RLEMAX as the specification reads it. -/
def specMaxRLE : Dec Nat := do if (← Brotli.readBit) then (· + 1) <$> Brotli.readBits 4 else pure 0

theorem specMaxRLE_bound (st st' : St) (v : Nat) (h : specMaxRLE st = (.ok v, st')) : v ≤ 16 := by
  have hdef : specMaxRLE = Brotli.readBit >>= fun b =>
      if b = true then Brotli.readBits 4 >>= fun a => pure (a + 1) else pure 0 := rfl
  rw [hdef, Dec_bind_apply] at h
  rcases hb : Brotli.readBit st with ⟨e | b, s1⟩ <;> rw [hb] at h <;> simp only at h
  · injection h with h1 _; cases h1
  · cases b
    · simp only [Bool.false_eq_true, if_false, Dec_pure_apply] at h
      injection h with h1 _; injection h1 with h1; omega
    · simp only [if_true, Dec_bind_apply] at h
      rcases hn : Brotli.readBits 4 s1 with ⟨e | n, s2⟩ <;> rw [hn] at h <;> simp only at h
      · injection h with h1 _; cases h1
      · simp only [Dec_pure_apply] at h
        injection h with h1 _; injection h1 with h1
        have h3 := specReadBits_lt 4 _ _ _ hn
        omega

/-! ### the run-length loop -/

theorem maxRLERanges_get : ∀ s, s < 16 → Impl.maxRLERanges[s]? = some ⟨2 ^ (s + 1), s + 1⟩ := by
  decide +kernel

/-- a run of zeros: `ReadOffset(sym-1, maxRLERanges)` = `2^sym` + `sym` extra bits. -/
theorem rleOffset_sim (s : Nat) (h1 : 1 ≤ s) (h16 : s ≤ 16) :
    SimRel (fun a b => a = 2 ^ s + b) (Impl.readOffset (s - 1) Impl.maxRLERanges) (Brotli.readBits s) := by
  have hdef : Impl.readOffset (s - 1) Impl.maxRLERanges =
      Impl.readBits s >>= fun v => pure (2 ^ s + v) := by
    unfold Impl.readOffset
    rw [maxRLERanges_get (s - 1) (by omega)]
    have : s - 1 + 1 = s := by omega
    simp only [this]
  rw [hdef]
  exact SimRel.map_left (readBits_sim s) (fun a b h => by rw [h])

theorem readCMapLoop_zero (pd : Prefix.Decoder) (maxRLE size : Nat) (cm : Array Nat) :
    Impl.readCMapLoop pd maxRLE size 0 cm = Impl.panic .corrupted := rfl

theorem readCMapLoop_succ (pd : Prefix.Decoder) (maxRLE size fuel : Nat) (cm : Array Nat) :
    Impl.readCMapLoop pd maxRLE size (fuel + 1) cm =
      if cm.size < size then
        Impl.readSymbol pd >>= fun sym =>
          if sym = 0 ∨ sym > maxRLE then
            Impl.readCMapLoop pd maxRLE size fuel (cm.push ((if sym > 0 then sym - maxRLE else sym) % 256))
          else
            Impl.readOffset (sym - 1) Impl.maxRLERanges >>= fun n =>
              if cm.size + n > size then Impl.panic .corrupted
              else Impl.readCMapLoop pd maxRLE size fuel (cm ++ Array.replicate n 0)
      else pure cm := rfl

theorem readContextMapEntries_zero (code : PrefixCode) (rleMax size : Nat) (acc : List Nat) (n : Nat) :
    Brotli.readContextMapEntries code rleMax size 0 acc n = Brotli.corrupt := rfl

theorem readContextMapEntries_succ (code : PrefixCode) (rleMax size fuel : Nat) (acc : List Nat) (n : Nat) :
    Brotli.readContextMapEntries code rleMax size (fuel + 1) acc n =
      if n ≥ size then pure acc.reverse
      else
        Brotli.readSymbol code >>= fun s =>
          if s = 0 then Brotli.readContextMapEntries code rleMax size fuel (0 :: acc) (n + 1)
          else if s ≤ rleMax then
            Brotli.readBits s >>= fun x =>
              if n + (2 ^ s + x) > size then Brotli.corrupt
              else Brotli.readContextMapEntries code rleMax size fuel (List.replicate (2 ^ s + x) 0 ++ acc) (n + (2 ^ s + x))
          else Brotli.readContextMapEntries code rleMax size fuel ((s - rleMax) :: acc) (n + 1) := rfl

/-- **the run-length loop**: appending to `cm` (model) = consing onto the reversed list with a
    separate counter (specification); all entries end up below `nt`. -/
theorem cmapLoop_sim {pd : Prefix.Decoder} {code : PrefixCode} {nt rleMax : Nat}
    (hT : TreeRel pd code) (hS : SymsBelow (nt + rleMax) code) (hnt : 1 ≤ nt) (hnt2 : nt ≤ 256)
    (hr : rleMax ≤ 16) (size : Nat) :
    ∀ (fuel : Nat) (cm : Array Nat) (acc : List Nat) (n : Nat),
      cm.toList = acc.reverse → n = cm.size → cm.size ≤ size → (∀ v ∈ cm.toList, v < nt) →
      SimRel (fun (a : Array Nat) (b : List Nat) => a.toList = b ∧ a.size = size ∧ ∀ v ∈ a.toList, v < nt)
        (Impl.readCMapLoop pd rleMax size fuel cm)
        (Brotli.readContextMapEntries code rleMax size fuel acc n) := by
  intro fuel
  induction fuel with
  | zero =>
    intro cm acc n _ _ _ _
    rw [readCMapLoop_zero, readContextMapEntries_zero]
    exact SimRel.panic_corrupt _ (by decide)
  | succ fuel ih =>
    intro cm acc n hacc hn hsz hlt
    rw [readCMapLoop_succ, readContextMapEntries_succ]
    subst hn
    by_cases hlo : cm.size < size
    · rw [if_pos hlo, if_neg (by omega)]
      refine SimRel.bind (SimRel.strengthen hT (P := fun s => s < nt + rleMax) (fun st b st' h => hS st st' b h)) ?_
      rintro s _ ⟨rfl, hs⟩
      by_cases h0 : s = 0
      · subst h0
        rw [if_pos (Or.inl rfl), if_pos rfl]
        refine ih _ _ _ ?_ ?_ ?_ ?_
        · simp [hacc]
        · simp
        · simp; omega
        · intro v hv
          simp only [Array.toList_push, List.mem_append, List.mem_singleton] at hv
          rcases hv with hv | rfl
          · exact hlt v hv
          · simp; omega
      · rw [if_neg h0]
        by_cases hle : s ≤ rleMax
        · rw [if_neg (by omega), if_pos hle]
          refine SimRel.bind (rleOffset_sim s (by omega) (by omega)) ?_
          rintro _ x rfl
          by_cases hov : cm.size + (2 ^ s + x) > size
          · rw [if_pos hov, if_pos hov]
            exact SimRel.panic_corrupt _ (by decide)
          · rw [if_neg hov, if_neg hov]
            refine ih _ _ _ ?_ ?_ ?_ ?_
            · simp [hacc]
            · simp
            · simp; omega
            · intro v hv
              simp only [Array.toList_append, Array.toList_replicate, List.mem_append,
                List.mem_replicate] at hv
              rcases hv with hv | ⟨_, rfl⟩
              · exact hlt v hv
              · omega
        · rw [if_pos (Or.inr (by omega)), if_neg hle, if_pos (by omega),
            Nat.mod_eq_of_lt (by omega)]
          refine ih _ _ _ ?_ ?_ ?_ ?_
          · simp [hacc]
          · simp
          · simp; omega
          · intro v hv
            simp only [Array.toList_push, List.mem_append, List.mem_singleton] at hv
            rcases hv with hv | rfl
            · exact hlt v hv
            · omega
    · rw [if_neg hlo, if_pos (by omega)]
      exact SimRel.pure ⟨hacc, by omega, hlt⟩

/-! ### the context map -/

theorem implReadContextMap_eq (mtf : Impl.Mtf) (size nt : Nat) :
    Impl.readContextMap mtf size nt =
      Impl.readSymbol Impl.decMaxRLE >>= fun maxRLE =>
      Impl.readPrefixCode (maxRLE + nt) >>= fun pd =>
      Impl.readCMapLoop pd maxRLE size (size + 1) #[] >>= fun cm =>
      Impl.readBits 1 >>= fun invert =>
      if invert = 1 then pure ((mtf.decode cm.toList).1.toArray, (mtf.decode cm.toList).2)
      else pure (cm, mtf) := rfl

theorem specReadContextMap_eq (size : Nat) :
    Brotli.readContextMap size =
      Brotli.readCount256 >>= fun ntrees =>
      if ntrees < 2 then pure (ntrees, Array.replicate size 0)
      else
        specMaxRLE >>= fun rleMax =>
        Brotli.readPrefixCode (ntrees + rleMax) >>= fun code =>
        Brotli.readContextMapEntries code rleMax size (size + 1) [] 0 >>= fun entries =>
        Brotli.readBit >>= fun imtf =>
        pure (ntrees, (if imtf = true then Brotli.inverseMoveToFront entries else entries).toArray) := by
  unfold specMaxRLE
  simp only [Dec_bind_assoc]
  unfold Brotli.readContextMap
  refine congrArg (Brotli.readCount256 >>= ·) (funext fun ntrees => ?_)
  by_cases h : ntrees < 2
  · rw [if_pos h, if_pos h]
  · rw [if_neg h, if_neg h]
    refine congrArg (Brotli.readBit >>= ·) (funext fun b => ?_)
    cases b <;> rfl

/-- the context map, with the reader of NTREES kept abstract (`rc`; it is `ReadSymbol(&decCounts)`).
    Use this form downstream: a term of type `SimRel _ (… Impl.readSymbol Impl.decCounts …) _` that
    goes through the elaborator's `whnf` makes it evaluate the 256-entry table (`maximum recursion
    depth`); writing hypotheses as `@h` and generalizing the action avoids that. -/
theorem contextMap_sim_gen (hP : PrefixSim) (rc : Impl.M Nat)
    (hC : SimRel (fun (a b : Nat) => a = b) rc Brotli.readCount256) (hR : MaxRLESim)
    (mtf : Impl.Mtf) (hm : MtfOK mtf) (size : Nat) :
    SimRel (fun (a : Nat × Array Nat × Impl.Mtf) (b : Nat × Array Nat) =>
        a.1 = b.1 ∧ a.2.1 = b.2 ∧ MtfOK a.2.2 ∧ a.2.1.size = size ∧ 1 ≤ a.1 ∧ a.1 ≤ 256 ∧ ∀ v ∈ a.2.1, v < a.1)
      (do let nt ← rc
          let (cm, m') ← if nt ≥ 2 then Impl.readContextMap mtf size nt else pure (Array.replicate size 0, mtf)
          pure (nt, cm, m'))
      (Brotli.readContextMap size) := by
  have hR' : SimRel (fun (a b : Nat) => a = b) (Impl.readSymbol Impl.decMaxRLE) specMaxRLE := @hR
  rw [specReadContextMap_eq]
  show SimRel _ (rc >>= fun nt =>
      if nt ≥ 2 then
        Impl.readContextMap mtf size nt >>= fun p =>
          pure ((fun (p : Array Nat × Impl.Mtf) => (nt, p.1, p.2)) p)
      else pure (nt, Array.replicate size 0, mtf)) _
  refine SimRel.bind (SimRel.strengthen hC (P := fun v => 1 ≤ v ∧ v ≤ 256) (fun st b st' h => readCount256_bound st st' b h)) ?_
  rintro nt _ ⟨rfl, h1, h256⟩
  by_cases h2 : nt ≥ 2
  · rw [if_pos h2, if_neg (by omega), implReadContextMap_eq]
    generalize Impl.readSymbol Impl.decMaxRLE = rm at hR' ⊢
    refine SimRel.map_left (R := fun (a : Array Nat × Impl.Mtf) (b : Nat × Array Nat) =>
        nt = b.1 ∧ a.1 = b.2 ∧ MtfOK a.2 ∧ a.1.size = size ∧ ∀ v ∈ a.1.toList, v < nt) ?_ ?_
    rotate_left
    · rintro ⟨cm, m'⟩ ⟨n', cm'⟩ ⟨e1, e2, e3, e4, e5⟩
      dsimp only at e1 e2 e3 e4 e5 ⊢
      exact ⟨e1, e2, e3, e4, h1, h256, fun v hv => e5 v (Array.mem_toList_iff.mpr hv)⟩
    refine SimRel.bind (SimRel.strengthen hR' (P := fun v => v ≤ 16) (fun st b st' h => specMaxRLE_bound st st' b h)) ?_
    rintro rleMax _ ⟨rfl, h16⟩
    rw [Nat.add_comm rleMax nt]
    refine SimRel.bind (hP (nt + rleMax) (by omega) (by omega)) ?_
    rintro pd code ⟨hT, hS⟩
    refine SimRel.bind (cmapLoop_sim hT hS h1 h256 h16 size (size + 1) #[] [] 0 rfl rfl (Nat.zero_le _)
      (by intro v hv; simp at hv)) ?_
    rintro cm _ ⟨rfl, hsz, hlt⟩
    refine SimRel.bind readBit_sim ?_
    rintro invert imtf rfl
    by_cases hinv : invert = 1
    · have hb : (invert == 1) = true := by simp [hinv]
      rw [if_pos hinv, if_pos hb]
      obtain ⟨d1, d2, d3, d4⟩ := mtf_decode mtf hm cm.toList nt h256 hlt
      refine SimRel.pure ⟨rfl, ?_, d2, ?_, ?_⟩
      · dsimp only; rw [d1]
      · dsimp only; rw [List.size_toArray, d3]; simpa using hsz
      · dsimp only; simpa using d4
    · have hb : ¬ (invert == 1) = true := by simp [hinv]
      rw [if_neg hinv, if_neg hb]
      exact SimRel.pure ⟨rfl, by simp, hm, hsz, hlt⟩
  · rw [if_neg h2, if_pos (by omega)]
    refine SimRel.pure ⟨rfl, rfl, hm, by simp, h1, h256, ?_⟩
    intro v hv
    simp only [Array.mem_replicate] at hv
    omega

/-- **the context map** (RFC 7932 section 7.3 / 9.2): NTREES, RLEMAX, the run-length coded entries
    and the inverse move-to-front transform. -/
theorem contextMap_sim (hP : PrefixSim) (hC : CountsSim) (hR : MaxRLESim) (mtf : Impl.Mtf) (hm : MtfOK mtf) (size : Nat) :
    SimRel (fun (a : Nat × Array Nat × Impl.Mtf) (b : Nat × Array Nat) =>
        a.1 = b.1 ∧ a.2.1 = b.2 ∧ MtfOK a.2.2 ∧ a.2.1.size = size ∧ 1 ≤ a.1 ∧ a.1 ≤ 256 ∧ ∀ v ∈ a.2.1, v < a.1)
      (do let nt ← Impl.readSymbol Impl.decCounts
          let (cm, m') ← if nt ≥ 2 then Impl.readContextMap mtf size nt else pure (Array.replicate size 0, mtf)
          pure (nt, cm, m'))
      (Brotli.readContextMap size) :=
  @contextMap_sim_gen hP (Impl.readSymbol Impl.decCounts) (@hC) hR mtf hm size

end Compress.Proofs.BrImpl
