/-
C02 layer (f2): `finishCommand`, and helpers for the phases of a command.
-/
import Compress.Proofs.BrImplCmdCfg
namespace Compress.Proofs.BrImpl
open Compress Compress.Brotli Compress.Brotli.Impl Compress.Window Compress.Proofs.Window
open Compress.Proofs.BrCut (cmdStep DistInv readCommandsAuto cmdContAuto)

/-- the commands from a command boundary inside a step on, for every boundary of measure below `n`. -/
def StartOK (sd : ByteArray) (ws : Nat) (h : Header) (lst : Bool) (B0 : Nat) (n : Nat) : Prop :=
  ∀ (s : State) (st : St) (c : Cmd) (del : List UInt8) (f B : Nat),
    Mid ws h lst s st c del → s.blkLen = (c.mlen : Int) → 1 ≤ c.mlen → s.word = [] →
    DistInv ws c st → c.mlen + st.bits.length < n →
    5 * (c.mlen + st.bits.length + 1) ≤ f → st.bits.length ≤ B →
    After sd ws (readCommandsAuto sd ws h c st) lst B0 B del (cmdLoop sd f .startCommand s)

/-- what is fixed during a command that started with `c0` at `st0`. -/
structure Cx (sd : ByteArray) (ws : Nat) (h : Header) (lst : Bool) (B0 : Nat) (c0 : Cmd) (st0 : St) : Prop where
  inv0 : DistInv ws c0 st0
  nd : h.ndirect ≤ 120
  ih : StartOK sd ws h lst B0 (c0.mlen + st0.bits.length)

theorem res_err {sd : ByteArray} {ws : Nat} {h : Header} {c0 : Cmd} {st0 : St} (hnd : h.ndirect ≤ 120)
    (hi : DistInv ws c0 st0) {e : Err} {st' : St} (hc : cmdStep sd ws h c0 st0 = (.error e, st')) :
    readCommandsAuto sd ws h c0 st0 = (.error e, st') := by
  rw [BrCut.readCommandsAuto_unfold sd ws h hnd c0 st0 hi, BrCut.bind_err_eq hc]

theorem res_inl {sd : ByteArray} {ws : Nat} {h : Header} {c0 : Cmd} {st0 : St} (hnd : h.ndirect ≤ 120)
    (hi : DistInv ws c0 st0) {c' : Cmd} {st' : St} (hc : cmdStep sd ws h c0 st0 = (.ok (.inl c'), st')) :
    readCommandsAuto sd ws h c0 st0 = (.ok c', st') := by
  rw [BrCut.readCommandsAuto_unfold sd ws h hnd c0 st0 hi, BrCut.bind_ok_eq hc]
  rfl

theorem res_inr {sd : ByteArray} {ws : Nat} {h : Header} {c0 : Cmd} {st0 : St} (hnd : h.ndirect ≤ 120)
    (hi : DistInv ws c0 st0) {c' : Cmd} {st' : St} (hc : cmdStep sd ws h c0 st0 = (.ok (.inr c'), st')) :
    readCommandsAuto sd ws h c0 st0 = readCommandsAuto sd ws h c' st' ∧ DistInv ws c' st' ∧
      c'.mlen + st'.bits.length < c0.mlen + st0.bits.length := by
  have hq := (BrCut.cmdStep_pm sd ws h c0 st0 hnd hi).post hc
  refine ⟨?_, hq.1, hq.2⟩
  rw [BrCut.readCommandsAuto_unfold sd ws h hnd c0 st0 hi, BrCut.bind_ok_eq hc]
  rfl

theorem CmdRel.mlen {s : State} {h : Header} {c : Cmd} (hc : CmdRel s h c) (n : Nat) :
    CmdRel s h { c with mlen := n } :=
  ⟨hc.hdr, hc.lit, hc.iac, hc.dist, hc.litMapOff, hc.cmode, hc.distMapOff, hc.dists⟩

theorem KEnd_neg (c : Cmd) (M : Int) (st : St) (h : M < 0) : KEnd c M st = (.error .corrupt, st) := by
  unfold KEnd; rw [if_pos h]; rfl

theorem KEnd_zero (c : Cmd) (st : St) : KEnd c 0 st = (.ok (.inl { c with mlen := 0 }), st) := by
  unfold KEnd; rw [if_neg (by omega), if_pos rfl]; rfl

theorem KEnd_pos (c : Cmd) (M : Int) (st : St) (h : 0 < M) :
    KEnd c M st = (.ok (.inr { c with mlen := M.toNat }), st) := by
  unfold KEnd; rw [if_neg (by omega), if_neg (by omega)]; rfl

/-- the state `finishCommand` leaves at the end of the meta-block. -/
def finSt (s : State) : State :=
  { s with dict := s.dict.readFlush.1, toRead := s.dict.readFlush.2, step := .blockHeader, stepState := .init }

section
variable {sd : ByteArray} {ws : Nat} {h : Header} {lst : Bool} {B0 : Nat} {c0 : Cmd} {st0 : St}

theorem phase_fin (cx : Cx sd ws h lst B0 c0 st0) {s : State} {st : St} {c : Cmd} {del : List UInt8} {M : Int}
    {f B : Nat} (m : Mid ws h lst s st c del) (hb : s.blkLen = M) (hw : s.word = [])
    (tr : Track c0 st0 c st M) (chain : cmdStep sd ws h c0 st0 = KEnd c M st)
    (hq : s.dict.rdPos < s.dict.wrPos ∨ 1 ≤ M)
    (hf : 1 + 5 * min (c0.mlen + st0.bits.length) (st.bits.length + M.toNat + 1) ≤ f)
    (hB : st.bits.length ≤ B) :
    After sd ws (readCommandsAuto sd ws h c0 st0) lst B0 B del (cmdLoop sd f .finishCommand s) := by
  obtain ⟨f', rfl⟩ : ∃ f', f = f' + 1 := ⟨f - 1, by omega⟩
  rw [cmdLoop_succ, doLabel_fin]
  by_cases hneg : M < 0
  · rw [if_pos (by rw [hb]; exact hneg)]
    dsimp only
    rw [KEnd_neg _ _ _ hneg] at chain
    exact After.fail (res_err cx.nd cx.inv0 chain) (by decide) m.win
  · rw [if_neg (by rw [hb]; exact hneg)]
    by_cases hpos : M > 0
    · rw [if_pos (by rw [hb]; exact hpos)]
      dsimp only
      rw [KEnd_pos _ _ _ hpos] at chain
      obtain ⟨hres, hinv, hlt⟩ := res_inr cx.nd cx.inv0 chain
      rw [hres]
      have hM : ((M.toNat : Nat) : Int) = M := by omega
      refine cx.ih s st _ del f' B ⟨m.toRead, m.err, m.rd, m.win, m.zeros, m.avail, m.cr.mlen _, m.dpos, m.aligned,
        m.mtf, m.last⟩ (by rw [hb]; exact hM.symm) (by show 1 ≤ M.toNat; omega) hw hinv hlt ?_ hB
      · have hlt' : M.toNat + st.bits.length < c0.mlen + st0.bits.length := hlt
        show 5 * (M.toNat + st.bits.length + 1) ≤ f'
        omega
    · rw [if_neg (by rw [hb]; exact hpos)]
      dsimp only
      have hM0 : M = 0 := by omega
      subst hM0
      rw [KEnd_zero] at chain
      rw [res_inl cx.nd cx.inv0 chain]
      have hfr : s.dict.rdPos < s.dict.wrPos := by
        rcases hq with hq | hq
        · exact hq
        · omega
      obtain ⟨i1, i2, i3⟩ := m.win.readFlush
      show After sd ws _ lst B0 B del (.ok (), finSt s)
      have he : (finSt s).err = none := m.err
      unfold After
      dsimp only
      refine ⟨_, rfl, he, readFlush_ne_nil m.win hfr, by show s.rd.bits.length ≤ B; rw [m.rd]; exact hB, _, _,
        run_drain sd _, ?_, ?_, ?_, ?_⟩
      · rw [drain_fin_ok _ he]
        have ht : (fin (.ok (), finSt s)).toRead = s.dict.readFlush.2 := by
          rw [fin_ok _ he]; rfl
        rw [ht]
        exact ⟨rfl, m.err, rfl, hw, m.rd, i1, fun hh => absurd hh (Nat.ne_of_lt i2), m.cr.dists, m.dpos,
          m.aligned, m.mtf⟩
      · rw [drain_fin_ok _ he]
        exact m.zeros.readFlush
      · rw [drain_fin_ok _ he]; rfl
      · rw [drain_fin_ok _ he]; exact m.last
end

/-- `readCommands` after one label. -/
def cont (sd : ByteArray) (r : Except BErr Next × State) (f : Nat) : Except BErr Unit × State :=
  match r with
  | (.ok (.goto l'), s1) => cmdLoop sd f l' s1
  | (.ok .ret, s1) => (.ok (), s1)
  | (.error e, s1) => (.error e, s1)

theorem cmdLoop_cont (sd : ByteArray) (f : Nat) (l : Label) (s : State) :
    cmdLoop sd (f+1) l s = cont sd (doLabel sd l s) f := cmdLoop_succ sd f l s

theorem readCommands_static (sd : ByteArray) (s : State) (h : s.stepState = .staticDict) :
    Impl.readCommands sd s =
      cmdLoop sd (6 * (s.rd.bits.length + s.blkLen.toNat + s.insLen + 4)) .copyStaticDict s := by
  unfold Impl.readCommands
  simp only [h]

theorem readCommands_dynamic (sd : ByteArray) (s : State) (h : s.stepState = .dynamicDict) :
    Impl.readCommands sd s =
      cmdLoop sd (6 * (s.rd.bits.length + s.blkLen.toNat + s.insLen + 4)) .copyDynamicDict s := by
  unfold Impl.readCommands
  simp only [h]

theorem readCommands_literals (sd : ByteArray) (s : State) (h : s.stepState = .literals) :
    Impl.readCommands sd s =
      cmdLoop sd (6 * (s.rd.bits.length + s.blkLen.toNat + s.insLen + 4)) .readLiterals s := by
  unfold Impl.readCommands
  simp only [h]

theorem readCommands_init (sd : ByteArray) (s : State) (h : s.stepState = .init) :
    Impl.readCommands sd s =
      cmdLoop sd (6 * (s.rd.bits.length + s.blkLen.toNat + s.insLen + 4)) .startCommand s := by
  unfold Impl.readCommands
  simp only [h]

/-- two window states with the same flushed part: the write cursor moved by what was produced. -/
theorem Inv.wr_of_acc {ws : Nat} {d d' : Dict} {out out' acc : List UInt8} (I : Inv ws d out acc)
    (I' : Inv ws d' out' acc) (hr : d'.rdPos = d.rdPos) {k : Nat} (hl : out'.length = out.length + k) :
    d'.wrPos = d.wrPos + k := by
  have h1 := congrArg List.length I.acc_eq
  have h2 := congrArg List.length I'.acc_eq
  rw [List.length_take] at h1 h2
  have := I.rd_le
  have := I'.rd_le
  have := I.wr_out
  have := I'.wr_out
  omega

theorem Inv.hist_size_eq {ws : Nat} {d d' : Dict} {out out' acc acc' : List UInt8} (I : Inv ws d out acc)
    (I' : Inv ws d' out' acc') (hc : d'.cap = d.cap) : d'.hist.size = d.hist.size := by
  rw [I.hsz, I'.hsz, hc]

/-- the `avail` clause of `Mid` after a write of `k` bytes. -/
theorem avail_after {d d' : Dict} (h : d.wrPos = d.hist.size → d.rdPos < d.wrPos) (hrd : d.rdPos ≤ d.wrPos)
    (e1 : d'.rdPos = d.rdPos) {k : Nat} (e2 : d'.wrPos = d.wrPos + k) (e3 : d'.hist.size = d.hist.size)
    :
    d'.wrPos = d'.hist.size → d'.rdPos < d'.wrPos := by
  intro hh
  by_cases hk : k = 0
  · subst hk
    have := h (by omega)
    omega
  · omega
end Compress.Proofs.BrImpl
