/-
The closed stream of xflate.Writer as a list of segments (chunks, index streams,
footer) whose cumulative sizes are the writer's merged records, and the layout
it presents to a reader.
-/
import Compress.Proofs.XGLayout
import Compress.Proofs.XGDecode
import Compress.Proofs.XWOpen

namespace Compress.Proofs.XGWriter
open Compress Compress.XFlate Compress.Proofs.XWLog Compress.Proofs.XWShape Compress.Proofs.XGLayout
  Compress.Proofs.XGDecode

def chunkSeg (c : Grp) : Seg := ⟨c.1, c.2, deflateType⟩
def idxSeg (g : IG) : Seg := ⟨g.blocks.flatten, [], indexType⟩
def footSeg (foot : List UInt8) : Seg := ⟨foot, [], footerType⟩

/-- the segments of the index groups, in stream order. -/
def segsG : List IG → List Seg
  | [] => []
  | g :: rest => segsG rest ++ (g.chunks.map chunkSeg ++ [idxSeg g])

theorem bytesL_append (a b : List Seg) : bytesL (a ++ b) = bytesL a ++ bytesL b := by simp [bytesL]
theorem dataL_append (a b : List Seg) : dataL (a ++ b) = dataL a ++ dataL b := by simp [dataL]

theorem bytes_chunks (l : List Grp) : (bytesL (l.map chunkSeg)).flatten = cbytes l := by
  unfold bytesL cbytes; rw [List.map_map]; rfl

theorem data_chunks (l : List Grp) : (dataL (l.map chunkSeg)).flatten = cdata l := by
  unfold dataL cdata; rw [List.map_map]; rfl

theorem bytes_segsG : ∀ (rgs : List IG), (bytesL (segsG rgs)).flatten = bytesR rgs
  | [] => rfl
  | g :: rest => by
    simp only [segsG, bytesL_append, List.flatten_append, bytes_segsG rest, bytes_chunks, bytesR]
    simp [bytesL, idxSeg]

theorem data_segsG : ∀ (rgs : List IG), (dataL (segsG rgs)).flatten = cdata (chunksR rgs)
  | [] => rfl
  | g :: rest => by
    simp only [segsG, dataL_append, List.flatten_append, data_segsG rest, data_chunks, chunksR, cdata_append]
    simp [dataL, idxSeg]

theorem cum_eq : ∀ (gs : List Grp) (c0 r0 : Int), cum c0 r0 gs = cumS c0 r0 (gs.map chunkSeg)
  | [], _, _ => rfl
  | g :: gs, c0, r0 => by
    simp only [cum, List.map_cons, cumS, chunkSeg, cum_eq gs]

theorem cumS_congr {c c' r r' : Int} (segs : List Seg) (h1 : c = c') (h2 : r = r') :
    cumS c r segs = cumS c' r' segs := by subst h1; subst h2; rfl

theorem cumS_append : ∀ (a b : List Seg) (c0 r0 : Int),
    cumS c0 r0 (a ++ b) = cumS c0 r0 a ++
      cumS (c0 + ((bytesL a).flatten.length : Nat)) (r0 + ((dataL a).flatten.length : Nat)) b
  | [], b, c0, r0 => by
    simp only [List.nil_append, cumS]
    exact cumS_congr b (by simp [bytesL]) (by simp [dataL])
  | g :: a, b, c0, r0 => by
    simp only [List.cons_append, cumS, cumS_append a b, List.cons.injEq, true_and, List.append_cancel_left_eq]
    apply cumS_congr
    · simp only [bytesL, List.map_cons, List.flatten_cons, List.length_append]; omega
    · simp only [dataL, List.map_cons, List.flatten_cons, List.length_append]; omega

/-- the merged records of the index groups are the cumulative sizes of their segments. -/
theorem allG_cum : ∀ (rgs : List IG), Bnd rgs → allG rgs = cumS 0 0 (segsG rgs)
  | [], _ => rfl
  | g :: rest, hbd => by
    obtain ⟨hbr, hcb, hcd, hsz, hlen, hlen2⟩ := hbd.tail
    obtain ⟨_, i2, i3⟩ := merge_ok rest hbr
    have ih := allG_cum rest hbr
    have hb1 := hbd.1
    have hb2 := hbd.2.1
    rw [hlen] at hb1
    rw [hlen2] at hb2
    have b1 : lastC (allG rest) + ((cbytes g.chunks).length : Int) ≤ maxI64 := by
      rw [i2]; simp only [maxI64]; omega
    have b2 : lastR (allG rest) + ((cdata g.chunks).length : Int) ≤ maxI64 := by
      rw [i3]; simp only [maxI64]; omega
    obtain ⟨f1, f2, f3⟩ := foldl_chunkStep_ok g.chunks (allG rest) b1 b2
    have har := appendRecord_ok (g.chunks.foldl chunkStep (allG rest)) (g.blocks.flatten.length : Int) 0 indexType
      (by omega) (by omega) (by rw [f2, i2]; simp only [maxI64]; omega) (by rw [f3, i3]; simp only [maxI64]; omega)
    have hall : allG (g :: rest) = g.chunks.foldl chunkStep (allG rest) ++
        [⟨lastC (g.chunks.foldl chunkStep (allG rest)) + (g.blocks.flatten.length : Int),
          lastR (g.chunks.foldl chunkStep (allG rest)) + 0, indexType⟩] := by
      simp only [allG, har, Option.getD_some]
    rw [hall, f2, f3, f1, i2, i3, ih]
    simp only [segsG]
    rw [cumS_append, cumS_append, bytes_segsG, data_segsG, bytes_chunks, data_chunks, cum_eq,
      List.append_assoc]
    congr 1
    congr 1
    · exact cumS_congr _ (by omega) (by omega)
    · simp only [cumS, idxSeg, List.length_nil, List.cons.injEq, Record.mk.injEq, and_true]
      constructor <;> omega

/-! ### the inflater on the writer's segments -/

theorem segOK_chunk (c : Grp) (hz : ZChunkOK c.1 c.2)
    (htail : (c.1.reverse.take 4).reverse = [0x00, 0x00, 0xff, 0xff]) : SegOK (chunkSeg c) := by
  have h := spec_chunk c.1 c.2 hz htail
  refine ⟨(by show deflateType ≠ unknownType; decide), ?_, ?_, ?_, ?_⟩
  · show (specSegInfo c.1).out = c.2
    rw [h]
  · show (specSegInfo c.1).fin = none
    rw [h]
  · show (specSegInfo c.1).inOff = (c.1.length : Int) + (if deflateType = footerType then 0 else 5)
    rw [h, if_neg (by decide)]
    simp
  · intro _
    show (specSegInfo c.1).sync = 0x0000ffff
    rw [h]

theorem segOK_idx (g : IG) (payload : List UInt8) (h : Meta.encode payload .fmeta = some g.blocks) :
    SegOK (idxSeg g) := by
  have h := spec_index payload g.blocks h
  refine ⟨(by show indexType ≠ unknownType; decide), ?_, ?_, ?_, ?_⟩
  · show (specSegInfo g.blocks.flatten).out = []
    rw [h]
  · show (specSegInfo g.blocks.flatten).fin = none
    rw [h]
  · show (specSegInfo g.blocks.flatten).inOff =
      (g.blocks.flatten.length : Int) + (if indexType = footerType then 0 else 5)
    rw [h, if_neg (by decide)]
    simp
  · intro h'
    exact absurd h' (by show ¬ indexType = deflateType; decide)

theorem segOK_foot (foot payload : List UInt8) (h : Meta.encode payload .fstream = some [foot]) :
    SegOK (footSeg foot) := by
  have h := spec_footer payload foot h
  refine ⟨(by show footerType ≠ unknownType; decide), ?_, ?_, ?_, ?_⟩
  · show (specSegInfo foot).out = []
    rw [h]
  · show (specSegInfo foot).fin = none
    rw [h]
  · show (specSegInfo foot).inOff = (foot.length : Int) + (if footerType = footerType then 0 else 5)
    rw [h, if_pos rfl]
    simp
  · intro h'
    exact absurd h' (by show ¬ footerType = deflateType; decide)

theorem segsG_ok (crc : List UInt8 → Nat) : ∀ (rgs : List IG), WFR crc rgs →
    (∀ c ∈ chunksR rgs, SegOK (chunkSeg c)) → ∀ sg ∈ segsG rgs, SegOK sg
  | [], _, _, sg, h => by simp [segsG] at h
  | g :: rest, hw, hc, sg, h => by
    simp only [segsG, List.mem_append, List.mem_map, List.mem_singleton] at h
    rcases h with h | ⟨c, hc1, rfl⟩ | rfl
    · exact segsG_ok crc rest hw.2 (fun c hcc => hc c (List.mem_append_left _ hcc)) sg h
    · exact hc c (List.mem_append_right _ hc1)
    · exact segOK_idx g _ hw.1

/-- **C05 (layout)** on the structural description of a closed stream. -/
theorem fin_wf (crc : List UInt8 → Nat)
    (s : XWState) (rgs : List IG) (tr : List Grp) (foot : List UInt8)
    (hf : Fin crc s rgs tr foot)
    (hch : ∀ c ∈ chunksOf s.zlog [] [], ZChunkOK c.1 c.2 ∧ 4 < c.1.length ∧
        (c.1.reverse.take 4).reverse = [0x00, 0x00, 0xff, 0xff])
    (hfl : ∀ p ∈ s.zlog, p.1.kind = .zflush → p.1.emitted ≠ [])
    (hg : s.sink.got.length < 2 ^ 63) (hdl : (dataOf s.zlog).length < 2 ^ 63) :
    WellFormed (layoutS s.sink.got s.allRecs) (dataOf s.zlog) := by
  have hgot := hf.got
  have hdata := hf.data
  rw [hgot] at hg
  rw [hdata] at hdl
  simp only [List.length_append, cdata_append] at hg hdl
  have htr : tr = [] := tr_nil_of_recs tr hf.trEmpty (by omega) (by omega)
  subst htr
  simp only [cbytes_nil, List.append_nil, List.length_nil, Nat.add_zero, cdata_nil] at hgot hdata hg hdl
  have hmem : ∀ c ∈ chunksR rgs, c ∈ chunksOf s.zlog [] [] := by
    intro c hc
    have hc' : c ∈ chunksR rgs ++ [] := by simpa using hc
    have hne : c.1 ≠ [] := by
      intro h0
      obtain ⟨p, hp1, hp2, hp3⟩ := hf.flushed c hc' h0
      exact hfl p hp1 hp2 hp3
    rw [chunksOf_eq, hf.closed, hf.opn, opt_empty, List.append_nil, ne_cons, opt_empty, List.nil_append, mem_ne]
    exact ⟨hc', fun h => hne h.1⟩
  have hbnd : Bnd rgs := ⟨by omega, by omega, fun c hc => (hch c (hmem c hc)).2.1⟩
  obtain ⟨_, m2, m3⟩ := merge_ok rgs hbnd
  have har := appendRecord_ok (allG rgs) (foot.length : Int) 0 footerType (by omega) (by omega)
    (by rw [m2]; simp only [maxI64]; omega) (by rw [m3]; simp only [maxI64]; omega)
  have hall : s.allRecs = cumS 0 0 (segsG rgs ++ [footSeg foot]) := by
    rw [hf.all]
    show (appendRecord (allG rgs) (foot.length : Int) 0 footerType).getD (allG rgs) = _
    rw [har, Option.getD_some, cumS_append, ← allG_cum rgs hbnd, bytes_segsG, data_segsG, m2, m3]
    simp only [cumS, footSeg, List.length_nil, List.append_cancel_left_eq, List.cons.injEq, Record.mk.injEq,
      and_true]
    constructor <;> omega
  have hstream : s.sink.got = (bytesL (segsG rgs ++ [footSeg foot])).flatten := by
    rw [hgot, bytesL_append, List.flatten_append, bytes_segsG]
    simp [bytesL, footSeg]
  have hplain : dataOf s.zlog = (dataL (segsG rgs ++ [footSeg foot])).flatten := by
    rw [hdata, dataL_append, List.flatten_append, data_segsG]
    simp [dataL, footSeg]
  rw [hall, hstream, hplain]
  apply layout_wf
  · simp
  · intro sg hsg
    rcases List.mem_append.1 hsg with h | h
    · refine segsG_ok crc rgs hf.wf ?_ sg h
      intro c hc
      obtain ⟨z1, _, z3⟩ := hch c (hmem c hc)
      exact segOK_chunk c z1 z3
    · rw [List.mem_singleton.1 h]
      exact segOK_foot foot _ hf.footEnc
  · exact spec_tail

end Compress.Proofs.XGWriter
