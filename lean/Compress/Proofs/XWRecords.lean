/-
Record arithmetic of the xflate index when no int64 overflow occurs.
-/
import Compress.Proofs.XWShape

namespace Compress.Proofs.XWShape
open Compress Compress.XFlate Compress.Proofs.XWLog

def lastC (l : List Record) : Int := (lastRecord l).comp
def lastR (l : List Record) : Int := (lastRecord l).raw

theorem lastRecord_snoc (l : List Record) (x : Record) : lastRecord (l ++ [x]) = x := by
  simp [lastRecord]

theorem lastRecord_nil : lastRecord [] = Record.zero := rfl

theorem appendRecord_ok (recs : List Record) (c r : Int) (typ : Nat) (hc : 0 ≤ c) (hr : 0 ≤ r)
    (h1 : lastC recs + c ≤ maxI64) (h2 : lastR recs + r ≤ maxI64) :
    appendRecord recs c r typ = some (recs ++ [⟨lastC recs + c, lastR recs + r, typ⟩]) := by
  unfold appendRecord addWraps
  unfold lastC at h1
  unfold lastR at h2
  have a1 : ¬ (r < 0) := by omega
  have a2 : ¬ (c < 0) := by omega
  have a3 : ¬ ((lastRecord recs).comp + c > maxI64) := by omega
  have a4 : ¬ ((lastRecord recs).raw + r > maxI64) := by omega
  simp [a1, a2, a3, a4, lastC, lastR]

theorem chunkStep_ok (acc : List Record) (g : Grp)
    (h1 : lastC acc + g.1.length ≤ maxI64) (h2 : lastR acc + g.2.length ≤ maxI64) :
    chunkStep acc g = acc ++ [⟨lastC acc + g.1.length, lastR acc + g.2.length, deflateType⟩] := by
  unfold chunkStep
  rw [appendRecord_ok acc _ _ _ (by omega) (by omega) h1 h2]
  rfl

/-- cumulative records of a chunk list starting from the offsets `(c0, r0)`. -/
def cum (c0 r0 : Int) : List Grp → List Record
  | [] => []
  | g :: gs => ⟨c0 + g.1.length, r0 + g.2.length, deflateType⟩ :: cum (c0 + g.1.length) (r0 + g.2.length) gs

theorem cbytes_cons (g : Grp) (gs : List Grp) : cbytes (g :: gs) = g.1 ++ cbytes gs := by simp [cbytes]
theorem cdata_cons (g : Grp) (gs : List Grp) : cdata (g :: gs) = g.2 ++ cdata gs := by simp [cdata]

theorem foldl_chunkStep_ok : ∀ (gs : List Grp) (acc : List Record),
    lastC acc + (cbytes gs).length ≤ maxI64 → lastR acc + (cdata gs).length ≤ maxI64 →
    gs.foldl chunkStep acc = acc ++ cum (lastC acc) (lastR acc) gs ∧
    lastC (gs.foldl chunkStep acc) = lastC acc + (cbytes gs).length ∧
    lastR (gs.foldl chunkStep acc) = lastR acc + (cdata gs).length
  | [], acc, _, _ => by simp [cum, cbytes, cdata]
  | g :: gs, acc, h1, h2 => by
    rw [cbytes_cons, List.length_append] at h1
    rw [cdata_cons, List.length_append] at h2
    have hs := chunkStep_ok acc g (by omega) (by omega)
    have hl : lastRecord (chunkStep acc g) = ⟨lastC acc + g.1.length, lastR acc + g.2.length, deflateType⟩ := by
      rw [hs, lastRecord_snoc]
    have hlc : lastC (chunkStep acc g) = lastC acc + g.1.length := by show (lastRecord (chunkStep acc g)).comp = _; rw [hl]
    have hlr : lastR (chunkStep acc g) = lastR acc + g.2.length := by show (lastRecord (chunkStep acc g)).raw = _; rw [hl]
    obtain ⟨i1, i2, i3⟩ := foldl_chunkStep_ok gs (chunkStep acc g) (by rw [hlc]; omega) (by rw [hlr]; omega)
    simp only [List.foldl_cons]
    refine ⟨?_, ?_, ?_⟩
    · rw [i1, hlc, hlr, hs]; simp [cum]
    · rw [i2, hlc, cbytes_cons, List.length_append]; omega
    · rw [i3, hlr, cdata_cons, List.length_append]; omega

theorem recsOf_ok (gs : List Grp) (h1 : ((cbytes gs).length : Int) ≤ maxI64) (h2 : ((cdata gs).length : Int) ≤ maxI64) :
    recsOf gs = cum 0 0 gs ∧ lastC (recsOf gs) = (cbytes gs).length ∧ lastR (recsOf gs) = (cdata gs).length := by
  have := foldl_chunkStep_ok gs [] (by simpa [lastC, lastRecord, Record.zero] using h1)
    (by simpa [lastR, lastRecord, Record.zero] using h2)
  simpa [recsOf, lastC, lastR, lastRecord, Record.zero] using this

theorem appendIndex_go_cum : ∀ (gs : List Grp) (acc : List Record) (c0 r0 : Int) (t : Nat),
    lastC acc + (cbytes gs).length ≤ maxI64 → lastR acc + (cdata gs).length ≤ maxI64 →
    appendIndex.go acc ⟨c0, r0, t⟩ (cum c0 r0 gs) = some (gs.foldl chunkStep acc)
  | [], acc, c0, r0, t, _, _ => by simp [cum, appendIndex.go]
  | g :: gs, acc, c0, r0, t, h1, h2 => by
    rw [cbytes_cons, List.length_append] at h1
    rw [cdata_cons, List.length_append] at h2
    have hs := chunkStep_ok acc g (by omega) (by omega)
    have hl : lastRecord (chunkStep acc g) = ⟨lastC acc + g.1.length, lastR acc + g.2.length, deflateType⟩ := by
      rw [hs, lastRecord_snoc]
    have hlc : lastC (chunkStep acc g) = lastC acc + g.1.length := by show (lastRecord (chunkStep acc g)).comp = _; rw [hl]
    have hlr : lastR (chunkStep acc g) = lastR acc + g.2.length := by show (lastRecord (chunkStep acc g)).raw = _; rw [hl]
    have e1 : c0 + (g.1.length : Int) - c0 = g.1.length := by omega
    have e2 : r0 + (g.2.length : Int) - r0 = g.2.length := by omega
    simp only [cum, appendIndex.go, e1, e2]
    rw [appendRecord_ok acc _ _ _ (by omega) (by omega) (by omega) (by omega)]
    simp only [List.foldl_cons]
    rw [← hs]
    exact appendIndex_go_cum gs (chunkStep acc g) _ _ _ (by rw [hlc]; omega) (by rw [hlr]; omega)

theorem appendIndex_cum (gs : List Grp) (acc : List Record)
    (h1 : lastC acc + (cbytes gs).length ≤ maxI64) (h2 : lastR acc + (cdata gs).length ≤ maxI64) :
    appendIndex acc (cum 0 0 gs) = some (gs.foldl chunkStep acc) := by
  unfold appendIndex
  exact appendIndex_go_cum gs acc 0 0 0 h1 h2

theorem mergeIndexes_snoc : ∀ (l : List (Int × List Record)) (x : Int × List Record) (acc : List Record),
    mergeIndexes (l ++ [x]) acc =
      match mergeIndexes l acc with
      | .ok r => mergeIndexes [x] r
      | .error e => .error e
  | [], x, acc => by simp [mergeIndexes]
  | (isz, irecs) :: l, x, acc => by
    simp only [List.cons_append, mergeIndexes]
    cases appendIndex acc irecs with
    | none => rfl
    | some r1 =>
      simp only
      cases appendRecord r1 isz 0 indexType with
      | none => rfl
      | some r2 => exact mergeIndexes_snoc l x r2

end Compress.Proofs.XWShape
