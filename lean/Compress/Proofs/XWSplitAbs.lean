/-
C05 split independence, part 1: the writer driven by a compressor FUNCTION.

`AW` is the state of xflate.Writer without the oracle machinery (`oracle`, `bad`,
`zlog`) and without `inOff`, plus the memory `z` of the deterministic compressor.
The operations follow `Compress.XFlate.Writer` one to one, except `Write`, which
is defined BYTE BY BYTE (`aByte`): a byte that does not fit in the current chunk
ends it (`Flush(FlushFull)`) first.  `XWSplitSim` shows that the model run against
`oracleOf Z …` computes exactly this.
-/
import Compress.XFlate.WriterSplitSpec
import Compress.Proofs.XWRun

namespace Compress.Proofs.XWSplit
open Compress Compress.XFlate

structure AW where
  outOff : Int
  zwIn : Int
  zwOut : Int
  recs : List Record
  backSize : Int
  nidx : Int
  nchk : Int
  err : Option Err
  sink : Sink
  allRecs : List Record
  z : ZSt

def proj (s : XWState) (z : ZSt) : AW :=
  { outOff := s.outOff, zwIn := s.zwIn, zwOut := s.zwOut, recs := s.recs, backSize := s.backSize,
    nidx := s.nidx, nchk := s.nchk, err := s.err, sink := s.sink, allRecs := s.allRecs, z := z }

variable (crc : List UInt8 → Nat) (Z : ZFun) (lvl : Int)

def aSync (a : AW) : AW :=
  let ev := Z.flushEv lvl a.z
  { a with zwOut := a.zwOut + ev.emitted.length, outOff := a.outOff + ev.emitted.length,
           sink := a.sink.absorb ev.emitted false, err := none, z := a.z.afterFlush ev }

def aEncodeIndex (a : AW) : AW :=
  match Meta.encode (indexPayload crc a.recs a.backSize) .fmeta with
  | none => { a with err := some .invalid, recs := [], backSize := 0 }
  | some blocks =>
    match emitBlocks a.sink blocks 0 with
    | (sk, acc, some err) => { a with sink := sk, outOff := a.outOff + acc, err := some err, recs := [], backSize := 0 }
    | (sk, acc, none) => { a with sink := sk, outOff := a.outOff + acc, err := none, recs := [], backSize := acc,
                                  allRecs := (appendRecord a.allRecs acc 0 indexType).getD a.allRecs }

/-- the chunk is recorded and the compressor reset. -/
def aRec (a : AW) : AW :=
  { a with recs := (appendRecord a.recs a.zwOut a.zwIn deflateType).getD a.recs,
           allRecs := (appendRecord a.allRecs a.zwOut a.zwIn deflateType).getD a.allRecs,
           zwIn := 0, zwOut := 0, z := {} }

def aFull (a : AW) : AW :=
  let a1 := aRec (aSync Z lvl a)
  if (a1.recs.length : Int) = a1.nidx then aEncodeIndex crc a1 else a1

def aIndex (a : AW) : AW :=
  if a.zwIn + a.zwOut > 0 then
    let a1 := aFull crc Z lvl a
    if a1.err ≠ none then a1 else aEncodeIndex crc a1
  else aEncodeIndex crc a

def aFlush (a : AW) (mode : Nat) : AW :=
  if a.err ≠ none then a
  else
    match mode with
    | 0 => aSync Z lvl a
    | 1 => aFull crc Z lvl a
    | 2 => aIndex crc Z lvl a
    | _ => a

def aPush (a : AW) (d : List UInt8) : AW :=
  { a with zwIn := a.zwIn + d.length, z := { a.z with data := a.z.data ++ d } }

/-- before a byte is taken: a full chunk is ended (`Flush(FlushFull)`). -/
def aPre (a : AW) : AW := if a.nchk - a.zwIn ≤ 0 then aFull crc Z lvl a else a

/-- `Write` of ONE byte. -/
def aByte (a : AW) (x : UInt8) : AW :=
  if a.err ≠ none then a
  else if (aPre crc Z lvl a).err ≠ none then aPre crc Z lvl a else aPush (aPre crc Z lvl a) [x]

def aCloseTail (a : AW) : AW :=
  if a.err ≠ none then a
  else
    match Meta.encode (footerPayload a.backSize) .fstream with
    | none => { a with err := some .invalid }
    | some blocks =>
      match emitBlocks a.sink blocks 0 with
      | (sk, acc, some err) => { a with sink := sk, outOff := a.outOff + acc, err := some err }
      | (sk, acc, none) =>
        if blocks.length ≠ 1 then { a with sink := sk, outOff := a.outOff + acc, err := some .internal }
        else { a with sink := sk, outOff := a.outOff + acc, err := some .closed,
                      allRecs := (appendRecord a.allRecs acc 0 footerType).getD a.allRecs }

def aClose (a : AW) : AW :=
  if a.err = some .closed then a
  else if a.err ≠ none then a
  else aCloseTail (if a.zwOut + a.zwIn > 0 ∨ a.recs.length > 0 then aIndex crc Z lvl a else a)

def aStep (a : AW) : WOp → AW
  | .write d => d.foldl (aByte crc Z lvl) a
  | .flush m => aFlush crc Z lvl a m
  | .close => aClose crc Z lvl a

def aRun (a : AW) (ops : List WOp) : AW := ops.foldl (aStep crc Z lvl) a

/-! ### frame facts -/

/-- compressor memory and counters agree, the chunk size is positive. -/
structure Inv (n : Int) (a : AW) : Prop where
  zwIn : a.zwIn = a.z.data.length
  zwOut : a.zwOut = a.z.out
  nchk : a.nchk = n
  pos : 0 < n

theorem aEncodeIndex_frame (a : AW) :
    (aEncodeIndex crc a).zwIn = a.zwIn ∧ (aEncodeIndex crc a).zwOut = a.zwOut ∧
    (aEncodeIndex crc a).nchk = a.nchk ∧ (aEncodeIndex crc a).nidx = a.nidx ∧ (aEncodeIndex crc a).z = a.z := by
  unfold aEncodeIndex
  split
  · exact ⟨rfl, rfl, rfl, rfl, rfl⟩
  · split <;> exact ⟨rfl, rfl, rfl, rfl, rfl⟩

theorem aFull_frame (a : AW) :
    (aFull crc Z lvl a).zwIn = 0 ∧ (aFull crc Z lvl a).zwOut = 0 ∧
    (aFull crc Z lvl a).nchk = a.nchk ∧ (aFull crc Z lvl a).nidx = a.nidx ∧ (aFull crc Z lvl a).z = {} := by
  unfold aFull
  simp only
  split
  · obtain ⟨h1, h2, h3, h4, h5⟩ := aEncodeIndex_frame crc (aRec (aSync Z lvl a))
    exact ⟨h1, h2, h3, h4, h5⟩
  · exact ⟨rfl, rfl, rfl, rfl, rfl⟩

theorem aFull_inv {n : Int} (a : AW) (h : Inv n a) : Inv n (aFull crc Z lvl a) := by
  obtain ⟨h1, h2, h3, _, h5⟩ := aFull_frame crc Z lvl a
  exact ⟨by rw [h1, h5]; rfl, by rw [h2, h5]; rfl, by rw [h3]; exact h.nchk, h.pos⟩

theorem aEncodeIndex_inv {n : Int} (a : AW) (h : Inv n a) : Inv n (aEncodeIndex crc a) := by
  obtain ⟨h1, h2, h3, _, h5⟩ := aEncodeIndex_frame crc a
  exact ⟨by rw [h1, h5]; exact h.zwIn, by rw [h2, h5]; exact h.zwOut, by rw [h3]; exact h.nchk, h.pos⟩

theorem aSync_inv {n : Int} (a : AW) (h : Inv n a) : Inv n (aSync Z lvl a) := by
  refine ⟨h.zwIn, ?_, h.nchk, h.pos⟩
  simp only [aSync, ZSt.afterFlush, h.zwOut]
  omega

theorem aIndex_inv {n : Int} (a : AW) (h : Inv n a) : Inv n (aIndex crc Z lvl a) := by
  unfold aIndex
  split
  · simp only
    split
    · exact aFull_inv crc Z lvl a h
    · exact aEncodeIndex_inv crc _ (aFull_inv crc Z lvl a h)
  · exact aEncodeIndex_inv crc a h

theorem aPush_inv {n : Int} (a : AW) (d : List UInt8) (h : Inv n a) : Inv n (aPush a d) := by
  refine ⟨?_, h.zwOut, h.nchk, h.pos⟩
  simp only [aPush, h.zwIn, List.length_append]
  omega

theorem aByte_inv {n : Int} (a : AW) (x : UInt8) (h : Inv n a) : Inv n (aByte crc Z lvl a x) := by
  have h1 : Inv n (aPre crc Z lvl a) := by
    unfold aPre
    split
    · exact aFull_inv crc Z lvl a h
    · exact h
  unfold aByte
  split
  · exact h
  · split
    · exact h1
    · exact aPush_inv _ _ h1

theorem foldl_aByte_inv {n : Int} : ∀ (d : List UInt8) (a : AW), Inv n a → Inv n (d.foldl (aByte crc Z lvl) a)
  | [], _, h => h
  | x :: d, a, h => foldl_aByte_inv d _ (aByte_inv crc Z lvl a x h)

theorem aFlush_inv {n : Int} (a : AW) (m : Nat) (h : Inv n a) : Inv n (aFlush crc Z lvl a m) := by
  unfold aFlush
  split
  · exact h
  · split
    · exact aSync_inv Z lvl a h
    · exact aFull_inv crc Z lvl a h
    · exact aIndex_inv crc Z lvl a h
    · exact h

theorem aCloseTail_inv {n : Int} (a : AW) (h : Inv n a) : Inv n (aCloseTail a) := by
  unfold aCloseTail
  split
  · exact h
  · split
    · exact ⟨h.zwIn, h.zwOut, h.nchk, h.pos⟩
    · split
      · exact ⟨h.zwIn, h.zwOut, h.nchk, h.pos⟩
      · split <;> exact ⟨h.zwIn, h.zwOut, h.nchk, h.pos⟩

theorem aClose_inv {n : Int} (a : AW) (h : Inv n a) : Inv n (aClose crc Z lvl a) := by
  unfold aClose
  split
  · exact h
  · split
    · exact h
    · apply aCloseTail_inv
      split
      · exact aIndex_inv crc Z lvl a h
      · exact h

theorem aStep_inv {n : Int} (a : AW) (op : WOp) (h : Inv n a) : Inv n (aStep crc Z lvl a op) := by
  cases op with
  | write d => exact foldl_aByte_inv crc Z lvl d a h
  | flush m => exact aFlush_inv crc Z lvl a m h
  | close => exact aClose_inv crc Z lvl a h

/-! ### a dead writer stays dead -/

theorem aByte_dead (a : AW) (x : UInt8) (h : a.err ≠ none) : aByte crc Z lvl a x = a := by
  unfold aByte; rw [if_pos h]

theorem foldl_aByte_dead : ∀ (d : List UInt8) (a : AW), a.err ≠ none → d.foldl (aByte crc Z lvl) a = a
  | [], _, _ => rfl
  | x :: d, a, h => by
    rw [List.foldl_cons, aByte_dead crc Z lvl a x h]
    exact foldl_aByte_dead d a h

theorem aFlush_dead (a : AW) (m : Nat) (h : a.err ≠ none) : aFlush crc Z lvl a m = a := by
  unfold aFlush; rw [if_pos h]

theorem aClose_dead (a : AW) (h : a.err ≠ none) : aClose crc Z lvl a = a := by
  unfold aClose
  by_cases hc : a.err = some .closed
  · rw [if_pos hc]
  · rw [if_neg hc, if_pos h]

theorem aStep_dead (a : AW) (op : WOp) (h : a.err ≠ none) : aStep crc Z lvl a op = a := by
  cases op with
  | write d => exact foldl_aByte_dead crc Z lvl d a h
  | flush m => exact aFlush_dead crc Z lvl a m h
  | close => exact aClose_dead crc Z lvl a h

theorem aRun_dead : ∀ (ops : List WOp) (a : AW), a.err ≠ none → aRun crc Z lvl a ops = a
  | [], _, _ => rfl
  | op :: ops, a, h => by
    unfold aRun
    rw [List.foldl_cons, aStep_dead crc Z lvl a op h]
    exact aRun_dead ops a h

theorem aCloseTail_err (a : AW) : (aCloseTail a).err ≠ none := by
  unfold aCloseTail
  split
  · assumption
  · split
    · simp
    · split
      · simp
      · split <;> simp

theorem aClose_err (a : AW) : (aClose crc Z lvl a).err ≠ none := by
  unfold aClose
  split
  · rename_i h; rw [h]; simp
  · split
    · assumption
    · exact aCloseTail_err _

/-! ### bytes that fit in the chunk are just appended -/

theorem aPre_fit (a : AW) (h : ¬ a.nchk - a.zwIn ≤ 0) : aPre crc Z lvl a = a := by
  unfold aPre; rw [if_neg h]

theorem aPre_full (a : AW) (h : a.nchk - a.zwIn ≤ 0) : aPre crc Z lvl a = aFull crc Z lvl a := by
  unfold aPre; rw [if_pos h]

theorem aByte_fit (a : AW) (x : UInt8) (he : a.err = none) (h : ¬ a.nchk - a.zwIn ≤ 0) :
    aByte crc Z lvl a x = aPush a [x] := by
  have hn : ¬ a.err ≠ none := by rw [he]; simp
  unfold aByte
  rw [if_neg hn, aPre_fit crc Z lvl a h, if_neg hn]

theorem aPush_push (a : AW) (d e : List UInt8) : aPush (aPush a d) e = aPush a (d ++ e) := by
  simp only [aPush, List.length_append, List.append_assoc]
  congr 1
  omega

theorem aPush_nil (a : AW) : aPush a [] = a := by
  obtain ⟨o, i, zo, r, b, ni, nc, e, sk, ar, ⟨zd, zf, zout⟩⟩ := a
  simp [aPush]

theorem foldl_aByte_push : ∀ (d : List UInt8) (a : AW), a.err = none → (d.length : Int) ≤ a.nchk - a.zwIn →
    d.foldl (aByte crc Z lvl) a = aPush a d
  | [], a, _, _ => (aPush_nil a).symm
  | x :: d, a, he, hl => by
    have hl' : (d.length : Int) + 1 ≤ a.nchk - a.zwIn := by
      have : ((x :: d).length : Int) = (d.length : Int) + 1 := by simp
      omega
    rw [List.foldl_cons, aByte_fit crc Z lvl a x he (by omega),
      foldl_aByte_push d (aPush a [x]) he (by
        show (d.length : Int) ≤ a.nchk - (a.zwIn + (([x] : List UInt8).length : Int))
        simp only [List.length_cons, List.length_nil]; omega), aPush_push]
    rfl

/-- a byte that does not fit: the chunk is ended first. -/
theorem aByte_full (a : AW) (x : UInt8) (he : a.err = none) (hr : a.nchk - a.zwIn ≤ 0) (hn : 0 < a.nchk) :
    aByte crc Z lvl a x = aByte crc Z lvl (aFull crc Z lvl a) x := by
  obtain ⟨h1, _, h3, _, _⟩ := aFull_frame crc Z lvl a
  have hne : ¬ a.err ≠ none := by rw [he]; simp
  by_cases hf : (aFull crc Z lvl a).err = none
  · rw [aByte_fit crc Z lvl _ x hf (by rw [h1, h3]; omega)]
    unfold aByte
    rw [if_neg hne, aPre_full crc Z lvl a hr, if_neg (by rw [hf]; simp)]
  · rw [aByte_dead crc Z lvl _ x hf]
    unfold aByte
    rw [if_neg hne, aPre_full crc Z lvl a hr, if_pos hf]

end Compress.Proofs.XWSplit
