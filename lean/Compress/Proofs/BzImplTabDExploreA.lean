import Compress.Proofs.BzImplTabDBits

namespace Compress.Proofs.BzImpl.TabD
open Compress Compress.Bzip2 Compress.Prefix
open Compress.Bzip2.Impl (GStatus Explored)

theorem ofNat_len : ∀ (n v : Nat), (Bits.ofNat v n).length = n
  | 0, _ => rfl
  | n+1, v => by simp [Bits.ofNat, ofNat_len n]

theorem word_len (c : Code) : c.word.length = c.len := by
  simp [Code.word, ofNat_len]

/-! list facts -/

theorem pre_concat {p w : Bits} {b : Bool} (h : p <+: w ++ [b]) : p <+: w ∨ p = w ++ [b] := by
  rw [List.prefix_concat_iff] at h
  rcases h with h | h
  · exact Or.inr h
  · exact Or.inl h

theorem inc_child {p w : Bits} (b : Bool) (h : ¬ p <+: w ∧ ¬ w <+: p) :
    ¬ p <+: w ++ [b] ∧ ¬ w ++ [b] <+: p := by
  constructor
  · intro hp
    rcases pre_concat hp with h1 | h1
    · exact h.1 h1
    · exact h.2 ⟨[b], h1.symm⟩
  · intro hp
    exact h.2 (List.IsPrefix.trans (List.prefix_append _ _) hp)

theorem inc_sib {p w : Bits} {b b' : Bool} (hb : b ≠ b') (h : w ++ [b] <+: p) :
    ¬ p <+: w ++ [b'] ∧ ¬ w ++ [b'] <+: p := by
  obtain ⟨y, rfl⟩ := h
  constructor
  · rintro ⟨z, hz⟩
    simp only [List.append_assoc, List.append_cancel_left_eq, List.cons_append, List.nil_append,
      List.cons.injEq] at hz
    exact hb hz.1
  · rintro ⟨z, hz⟩
    simp only [List.append_assoc, List.append_cancel_left_eq, List.cons_append, List.nil_append,
      List.cons.injEq] at hz
    exact hb hz.1.symm

theorem par_child {t : CTab} {w : Bits} (b : Bool) (hs : St t w = .needBits)
    (hpar : ∀ q x, w = q ++ x → x ≠ [] → St t q = .needBits) :
    ∀ q x, w ++ [b] = q ++ x → x ≠ [] → St t q = .needBits := by
  intro q x hq hx
  have h1 : q <+: w ++ [b] := ⟨x, hq.symm⟩
  rcases pre_concat h1 with h2 | h2
  · obtain ⟨y, rfl⟩ := h2
    by_cases hy : y = []
    · subst hy; simpa using hs
    · exact hpar q y rfl hy
  · subst h2
    exfalso; apply hx
    have := congrArg List.length hq
    simp only [List.length_append, List.length_cons, List.length_nil] at this
    exact List.eq_nil_of_length_eq_zero (by omega)

/-! membership under `set!` and `addInvalid` -/

theorem mem_set_iff (v : Array Code) (s : Nat) (c' a : Code) :
    a ∈ (v.setIfInBounds s c').toList ↔
      (s < v.size ∧ a = c') ∨ ∃ i, i ≠ s ∧ v[i]? = some a := by
  rw [Array.mem_toList_iff, Array.mem_iff_getElem?]
  constructor
  · rintro ⟨i, hi⟩
    rw [Array.getElem?_setIfInBounds] at hi
    by_cases his : s = i
    · subst his
      simp only [if_true] at hi
      by_cases hlt : s < v.size
      · simp [hlt] at hi; exact Or.inl ⟨hlt, hi.symm⟩
      · simp [hlt] at hi
    · simp only [his, if_false] at hi
      exact Or.inr ⟨i, fun h => his h.symm, hi⟩
  · rintro (⟨hlt, rfl⟩ | ⟨i, his, hi⟩)
    · exact ⟨s, by rw [Array.getElem?_setIfInBounds]; simp [hlt]⟩
    · have his' : ¬ s = i := fun h => his h.symm
      exact ⟨i, by rw [Array.getElem?_setIfInBounds, if_neg his']; exact hi⟩

theorem mem_valid_iff (v : Array Code) (a : Code) :
    a ∈ v.toList ↔ ∃ i : Nat, v[i]? = some a := by
  rw [Array.mem_toList_iff, Array.mem_iff_getElem?]

theorem mem_addInvalid (ex : Explored) (c a : Code) :
    Mem (ex.addInvalid c) a ↔ Mem ex a ∨ (0 < c.len ∧ a = { c with sym := 258 + ex.extra.size }) := by
  unfold Mem Explored.addInvalid
  simp only [Array.toList_push, List.mem_append, List.mem_singleton, Impl.maxNumSyms]
  constructor
  · rintro ⟨h0, h1 | h1 | h1⟩
    · exact Or.inl ⟨h0, Or.inl h1⟩
    · exact Or.inl ⟨h0, Or.inr h1⟩
    · subst h1; exact Or.inr ⟨h0, rfl⟩
  · rintro (⟨h0, h1 | h1⟩ | ⟨h0, h1⟩)
    · exact ⟨h0, Or.inl h1⟩
    · exact ⟨h0, Or.inr (Or.inl h1)⟩
    · subst h1; exact ⟨h0, Or.inr (Or.inr rfl)⟩

theorem St_nil {t : CTab} {n : Nat} (h : StOK t n) : St t [] = .needBits := by
  have := h.min_pos
  simp only [St, wk, List.length_nil]
  rw [if_pos (by omega)]
  rfl

end Compress.Proofs.BzImpl.TabD
