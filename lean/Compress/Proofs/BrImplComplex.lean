/-
C02 refinement, layer (d), complex prefix codes: `readComplexPrefixCode` of the Go-shaped model
(bit_reader.go) against section 3.5 of RFC 7932 (`Brotli.readComplexPrefixCode`).

* first half (the code length code): `BrImplComplexCL.clens_loop`;
* second half (the symbol lengths): `lens_loop`, with the invariant `LInv` between the loop state
  of the model (`CLState`: codes in reverse, Go's repeat bookkeeping by repeat SYMBOL) and of the
  specification (`LengthsState`: length array, repeat bookkeeping by repeat LENGTH);
* `complex_sim`: the two readers agree from every state, given the statements about
  `prefixDecoder.Init` (`InitTreeRel`, `InitFails`).

Both loops are stated in continuation passing style: where the specification fails at once
(over-subscription, a repeat past the alphabet, an incomplete code) the model leaves its loop
normally and fails later in `Init` or in the check before it, without reading anything more.
-/
import Compress.Proofs.BrImplComplexCL

namespace Compress.Proofs.BrImpl.Complex
open Compress Compress.Brotli Compress.Prefix

/-- the literal-length branch of the model loop. -/
def mLit (st : Impl.CLState) (clen : Nat) : Impl.CLState :=
  let st := if clen > 0 then
      { st with codes := { sym := st.sym, len := clen } :: st.codes, clenLast := clen,
                sum := st.sum - (32768 >>> clen : Nat) }
    else st
  { st with repSymLast := 0, sym := st.sym + 1 }

/-- the repeat branch of the model loop (`x`: the extra bits read). -/
def mRep (st : Impl.CLState) (repSym x : Nat) : Impl.CLState :=
  let st := if repSym ≠ st.repSymLast then { st with repCntLast := 0, repSymLast := repSym } else st
  let nb := repSym - 14
  let rep := x + 3
  let rep := if st.repCntLast > 0 then rep + ((st.repCntLast - 2) <<< nb) else rep
  let repDiff := rep - st.repCntLast
  let st := { st with repCntLast := rep }
  if repSym = 16 then
    let clen := st.clenLast
    let codes := (List.range repDiff).foldl (fun (acc : List Code) k => { sym := st.sym + k, len := clen } :: acc) st.codes
    { st with codes := codes, sym := st.sym + repDiff, sum := st.sum - ((repDiff * (32768 >>> clen) : Nat) : Int) }
  else { st with sym := st.sym + repDiff }

theorem readCodeLens_zero (pd : Decoder) (n : Nat) (st : Impl.CLState) :
    Impl.readCodeLens pd n 0 st = Impl.panic .corrupted := rfl

theorem readCodeLens_succ (pd : Decoder) (n fuel : Nat) (st : Impl.CLState) :
    Impl.readCodeLens pd n (fuel + 1) st =
      if st.sym < n ∧ st.sum > 0 then
        Impl.readSymbol pd >>= fun clen =>
          if clen < 16 then Impl.readCodeLens pd n fuel (mLit st clen)
          else Impl.readBits (clen - 14) >>= fun x => Impl.readCodeLens pd n fuel (mRep st clen x)
      else pure st := by
  rw [Impl.readCodeLens]
  split
  · congr 1; funext clen
    split
    · rfl
    · unfold mRep
      by_cases h2 : clen = 16 <;> by_cases h1 : clen ≠ st.repSymLast <;>
        simp only [h1, h2, if_true, if_false] <;> rfl
  · rfl

def sLit (st : LengthsState) (c : Nat) : LengthsState :=
  if c = 0 then { st with repeatCnt := 0, sym := st.sym + 1 }
  else { st with repeatCnt := 0, sym := st.sym + 1, prevLen := c,
                 lens := st.lens.setIfInBounds st.sym c,
                 space := st.space - (32768 >>> c : Nat) }

def sOld (st : LengthsState) (c : Nat) : Nat :=
  if st.repeatLen = (if c = 16 then st.prevLen else 0) then st.repeatCnt else 0

def sRepCnt (st : LengthsState) (c extra : Nat) : Nat :=
  (if sOld st c > 0 then (sOld st c - 2) <<< (c - 14) else 0) + extra + 3

def sRep (st : LengthsState) (c extra : Nat) : LengthsState :=
  let newLen := if c = 16 then st.prevLen else 0
  let delta := sRepCnt st c extra - sOld st c
  { st with repeatCnt := sRepCnt st c extra, repeatLen := newLen, sym := st.sym + delta,
            lens := if newLen = 0 then st.lens else setRange st.lens newLen st.sym delta,
            space := if newLen = 0 then st.space else st.space - (delta * (32768 >>> newLen) : Nat) }

theorem readCodeLengths_succ (cl : PrefixCode) (n fuel : Nat) (st : LengthsState) :
    readCodeLengths cl n (fuel + 1) st =
      if st.space < 0 then corrupt
      else if st.sym ≥ n ∨ st.space = 0 then
        if st.space = 0 then pure st.lens else corrupt
      else Brotli.readSymbol cl >>= fun c =>
        if c < 16 then readCodeLengths cl n fuel (sLit st c)
        else Brotli.readBits (c - 14) >>= fun extra =>
          if st.sym + (sRepCnt st c extra - sOld st c) > n then corrupt
          else readCodeLengths cl n fuel (sRep st c extra) := by
  rw [readCodeLengths]
  split
  · rfl
  · split
    · rfl
    · rfl

/-! ### the steps, field by field -/

theorem mLit_zero (st : Impl.CLState) : mLit st 0 = { st with repSymLast := 0, sym := st.sym + 1 } := rfl

theorem mLit_pos (st : Impl.CLState) (c : Nat) (h : c > 0) :
    mLit st c = { sym := st.sym + 1, sum := st.sum - ((32768 >>> c : Nat) : Int), repSymLast := 0,
                  repCntLast := st.repCntLast, clenLast := c,
                  codes := { sym := st.sym, len := c } :: st.codes } := by
  simp [mLit, h]

theorem mLit_sym (st : Impl.CLState) (c : Nat) : (mLit st c).sym = st.sym + 1 := by
  unfold mLit; split <;> rfl

/-- the model's repeat count in progress, after the `repSym != repSymLast` reset. -/
def mOld (st : Impl.CLState) (c : Nat) : Nat := if c ≠ st.repSymLast then 0 else st.repCntLast

def mRepCnt (st : Impl.CLState) (c x : Nat) : Nat :=
  if mOld st c > 0 then x + 3 + (mOld st c - 2) <<< (c - 14) else x + 3

theorem mRep_eq (st : Impl.CLState) (c x : Nat) :
    mRep st c x =
      { sym := st.sym + (mRepCnt st c x - mOld st c),
        sum := if c = 16 then st.sum - (((mRepCnt st c x - mOld st c) * (32768 >>> st.clenLast) : Nat) : Int)
               else st.sum,
        repSymLast := c, repCntLast := mRepCnt st c x, clenLast := st.clenLast,
        codes := if c = 16 then codesRep st.codes st.sym st.clenLast (mRepCnt st c x - mOld st c)
                 else st.codes } := by
  unfold mRep mRepCnt mOld codesRep
  by_cases h1 : c ≠ st.repSymLast <;> by_cases h2 : c = 16 <;> simp_all

/-! ### the invariant -/

/-- loop invariant of the symbol-lengths loop. -/
structure LInv (n : Nat) (st : Impl.CLState) (ls : LengthsState) : Prop where
  sym_eq : st.sym = ls.sym
  sym_le : st.sym ≤ n
  sum_eq : st.sum = ls.space
  clen_eq : st.clenLast = ls.prevLen
  clen_pos : 1 ≤ st.clenLast
  clen_le : st.clenLast ≤ 15
  lens_eq : lensArr n st.codes.reverse = ls.lens
  incr : st.codes.Pairwise (fun a b => b.sym < a.sym)
  bound : ∀ c ∈ st.codes, c.sym < st.sym ∧ 1 ≤ c.len ∧ c.len ≤ 15
  kraft : (32768 : Int) - st.sum = (kraft15 st.codes : Int)
  rep : (st.repSymLast = 0 ∧ ls.repeatCnt = 0) ∨
        (st.repSymLast = 16 ∧ ls.repeatLen = ls.prevLen ∧ st.repCntLast = ls.repeatCnt ∧ 3 ≤ st.repCntLast) ∨
        (st.repSymLast = 17 ∧ ls.repeatLen = 0 ∧ st.repCntLast = ls.repeatCnt ∧ 3 ≤ st.repCntLast)

theorem LInv_init (n : Nat) : LInv n {} { lens := Array.replicate n 0 } where
  sym_eq := rfl
  sym_le := Nat.zero_le _
  sum_eq := rfl
  clen_eq := rfl
  clen_pos := by decide
  clen_le := by decide
  lens_eq := rfl
  incr := List.Pairwise.nil
  bound := by intro c hc; cases hc
  kraft := by decide
  rep := Or.inl ⟨rfl, rfl⟩

theorem LInv_lit {n : Nat} {st : Impl.CLState} {ls : LengthsState} (inv : LInv n st ls)
    (hn : st.sym < n) (c : Nat) (hc : c < 16) : LInv n (mLit st c) (sLit ls c) := by
  by_cases h0 : c = 0
  · subst h0
    rw [mLit_zero]
    have : sLit ls 0 = { ls with repeatCnt := 0, sym := ls.sym + 1 } := rfl
    rw [this]
    exact { inv with
      sym_eq := by simp only []; rw [inv.sym_eq]
      sym_le := hn
      bound := fun c hc => by have := inv.bound c hc; simp only []; omega
      rep := Or.inl ⟨rfl, rfl⟩ }
  · rw [mLit_pos st c (by omega)]
    have : sLit ls c =
        { ls with
          repeatCnt := 0, sym := ls.sym + 1, prevLen := c,
          lens := ls.lens.setIfInBounds ls.sym c, space := ls.space - ((32768 >>> c : Nat) : Int) } := by
      simp [sLit, h0]
    rw [this]
    refine ⟨?_, ?_, ?_, rfl, ?_, ?_, ?_, ?_, ?_, ?_, Or.inl ⟨rfl, rfl⟩⟩ <;> simp only []
    · rw [inv.sym_eq]
    · omega
    · rw [inv.sum_eq]
    · omega
    · omega
    · rw [List.reverse_cons, lensArr_snoc, inv.lens_eq, inv.sym_eq]
    · rw [List.pairwise_cons]
      exact ⟨fun a ha => (inv.bound a ha).1, inv.incr⟩
    · intro a ha
      rcases List.mem_cons.1 ha with rfl | ha
      · simp only []; omega
      · have := inv.bound a ha; omega
    · rw [kraft15_cons, shr32768 c (by omega)]
      have := inv.kraft
      simp only [] at this ⊢
      push_cast
      omega

theorem rep_old {n : Nat} {st : Impl.CLState} {ls : LengthsState} (inv : LInv n st ls)
    (c : Nat) (hc : c = 16 ∨ c = 17) :
    mOld st c = sOld ls c ∧ (mOld st c = 0 ∨ 3 ≤ mOld st c) := by
  have h1 := inv.clen_pos
  have h2 := inv.clen_eq
  unfold mOld sOld
  rcases inv.rep with ⟨a1, a2⟩ | ⟨a1, a2, a3, a4⟩ | ⟨a1, a2, a3, a4⟩ <;> rcases hc with rfl | rfl
  all_goals simp only [a1, a2]
  all_goals simp
  all_goals first | omega | (constructor <;> omega) | skip

theorem rep_cnt {n : Nat} {st : Impl.CLState} {ls : LengthsState} (inv : LInv n st ls)
    (c : Nat) (hc : c = 16 ∨ c = 17) (x : Nat) :
    mRepCnt st c x = sRepCnt ls c x ∧ mOld st c < mRepCnt st c x ∧ 3 ≤ mRepCnt st c x := by
  obtain ⟨h1, h2⟩ := rep_old inv c hc
  unfold mRepCnt sRepCnt
  rw [← h1]
  by_cases h0 : mOld st c > 0
  · rw [if_pos h0, if_pos h0, Nat.shiftLeft_eq]
    rcases hc with rfl | rfl <;> simp only [Nat.reduceSub, Nat.reducePow] <;> omega
  · rw [if_neg h0, if_neg h0]; omega

theorem LInv_rep {n : Nat} {st : Impl.CLState} {ls : LengthsState} (inv : LInv n st ls)
    (c : Nat) (hc : c = 16 ∨ c = 17) (x : Nat)
    (hle : st.sym + (mRepCnt st c x - mOld st c) ≤ n) : LInv n (mRep st c x) (sRep ls c x) := by
  obtain ⟨e1, _⟩ := rep_old inv c hc
  obtain ⟨e2, e3, e4⟩ := rep_cnt inv c hc x
  have hp := inv.clen_pos
  have hq := inv.clen_eq
  rw [mRep_eq]
  unfold sRep
  rw [← e1, ← e2]
  rcases hc with rfl | rfl
  · have hnz : ¬ ls.prevLen = 0 := by omega
    simp only [if_true, hnz, if_false]
    refine ⟨?_, ?_, ?_, ?_, ?_, ?_, ?_, ?_, ?_, ?_, Or.inr (Or.inl ⟨rfl, rfl, rfl, e4⟩)⟩ <;> simp only []
    · rw [inv.sym_eq]
    · exact hle
    · rw [inv.sum_eq, hq]
    · exact hq
    · exact hp
    · exact inv.clen_le
    · rw [lensArr_codesRep, inv.lens_eq, hq, inv.sym_eq]
    · exact codesRep_pairwise _ _ _ _ inv.incr (fun a ha => (inv.bound a ha).1)
    · intro a ha
      rcases codesRep_mem _ _ _ _ _ ha with h | ⟨_, h2, h3⟩
      · have := inv.bound a h; omega
      · have := inv.clen_le; omega
    · rw [kraft15_codesRep, shr32768 _ inv.clen_le]
      have := inv.kraft
      push_cast
      omega
  · simp only [show ¬ (17 = 16) by decide, if_false, if_true]
    refine ⟨?_, ?_, ?_, ?_, ?_, ?_, ?_, ?_, ?_, ?_, Or.inr (Or.inr ⟨rfl, rfl, rfl, e4⟩)⟩ <;> simp only []
    · rw [inv.sym_eq]
    · exact hle
    · exact inv.sum_eq
    · exact hq
    · exact hp
    · exact inv.clen_le
    · exact inv.lens_eq
    · exact inv.incr
    · intro a ha
      have := inv.bound a ha; omega
    · exact inv.kraft

/-! ### the loop -/

/-- final model states on which the specification succeeds with `lens`. -/
def LGood (n : Nat) (st : Impl.CLState) (lens : Array Nat) : Prop :=
  st.sym ≤ n ∧ st.codes.Pairwise (fun a b => b.sym < a.sym) ∧
    (∀ c ∈ st.codes, c.sym < st.sym ∧ 1 ≤ c.len ∧ c.len ≤ 15) ∧
    kraft15 st.codes = 2 ^ 15 ∧ lensArr n st.codes.reverse = lens

/-- final model states when the specification has failed. -/
def LBad (n : Nat) (st : Impl.CLState) : Prop :=
  st.sym > n ∨ ((∀ c ∈ st.codes, 1 ≤ c.len ∧ c.len ≤ 15) ∧ kraft15 st.codes ≠ 2 ^ 15)

theorem lens_exit_fail {α : Type} (pd : Decoder) (n : Nat) (f : Impl.CLState → Impl.M α)
    (hbad : ∀ st, LBad n st → ∀ r, ∃ e r', f st r = (.error e, r') ∧ e ≠ .eof)
    (fuel : Nat) (st : Impl.CLState) (h : st.sym > n) :
    ∀ r, ∃ e r', (Impl.readCodeLens pd n fuel st >>= f) r = (.error e, r') ∧ e ≠ .eof := by
  intro r
  cases fuel with
  | zero => exact ⟨.corrupted, r, rfl, by decide⟩
  | succ fuel =>
    rw [readCodeLens_succ, if_neg (by omega), M_pure_bind]
    exact hbad st (Or.inl h) r

theorem lens_loop {α β : Type} {R' : α → β → Prop} (n : Nat) (pd : Decoder) (cl : PrefixCode)
    (f : Impl.CLState → Impl.M α) (g : Array Nat → Dec β)
    (hgood : ∀ st lens, LGood n st lens → SimRel R' (f st) (g lens))
    (hbad : ∀ st, LBad n st → ∀ r, ∃ e r', f st r = (.error e, r') ∧ e ≠ .eof)
    (hC : CodeRel 18 pd cl) :
    ∀ (fm fs : Nat) (st : Impl.CLState) (ls : LengthsState), LInv n st ls →
      n + 1 - st.sym ≤ fm → n + 1 - st.sym ≤ fs →
      SimRel R' (Impl.readCodeLens pd n fm st >>= f) (readCodeLengths cl n fs ls >>= g) := by
  intro fm
  induction fm with
  | zero => intro fs st ls inv h1 _; have := inv.sym_le; omega
  | succ fm ih =>
    intro fs st ls inv hm hs
    have hsym := inv.sym_eq
    have hsum := inv.sum_eq
    have hle := inv.sym_le
    have hk := inv.kraft
    obtain ⟨fs, rfl⟩ : ∃ k, fs = k + 1 := ⟨fs - 1, by omega⟩
    rw [readCodeLens_succ, readCodeLengths_succ]
    by_cases hneg : ls.space < 0
    · rw [if_pos hneg, if_neg (by omega), M_pure_bind]
      exact spec_corrupt g (hbad st (Or.inr ⟨fun c hc => (inv.bound c hc).2, by omega⟩))
    · rw [if_neg hneg]
      by_cases h0 : ls.space = 0
      · rw [if_pos (Or.inr h0), if_pos h0, if_neg (by omega), M_pure_bind, Dec_pure_bind]
        exact hgood st ls.lens ⟨hle, inv.incr, inv.bound, by omega, inv.lens_eq⟩
      · by_cases hn : ls.sym ≥ n
        · rw [if_pos (Or.inl hn), if_neg h0, if_neg (by omega), M_pure_bind]
          exact spec_corrupt g (hbad st (Or.inr ⟨fun c hc => (inv.bound c hc).2, by omega⟩))
        · rw [if_neg (by omega : ¬ (ls.sym ≥ n ∨ ls.space = 0)),
            if_pos (by omega : st.sym < n ∧ st.sum > 0), M_bind_assoc, Dec_bind_assoc]
          refine SimRel.bind (codeRel_sim hC) ?_
          rintro c _ ⟨rfl, hc⟩
          by_cases h16 : c < 16
          · rw [if_pos h16, if_pos h16]
            exact ih fs _ _ (LInv_lit inv (by omega) c h16) (by rw [mLit_sym]; omega)
              (by rw [mLit_sym]; omega)
          · rw [if_neg h16, if_neg h16, M_bind_assoc, Dec_bind_assoc]
            refine SimRel.bind (readBits_sim _) ?_
            rintro x _ rfl
            have hc' : c = 16 ∨ c = 17 := by omega
            obtain ⟨e1, _⟩ := rep_old inv c hc'
            obtain ⟨e2, e3, e4⟩ := rep_cnt inv c hc' x
            have hsy : (mRep st c x).sym = st.sym + (mRepCnt st c x - mOld st c) := by rw [mRep_eq]
            by_cases hover : ls.sym + (sRepCnt ls c x - sOld ls c) > n
            · rw [if_pos hover]
              exact spec_corrupt g (lens_exit_fail pd n f hbad fm _ (by rw [hsy]; omega))
            · rw [if_neg hover]
              exact ih fs _ _ (LInv_rep inv c hc' x (by omega)) (by rw [hsy]; omega) (by rw [hsy]; omega)

/-! ### after the loop: `prefixDecoder.Init` -/

/-- what `readComplexPrefixCode` does with the final loop state. -/
def mFin (n : Nat) (st : Impl.CLState) : Impl.M Decoder :=
  if st.codes.length < 2 ∨ st.sym > n then Impl.panic .corrupted
  else Impl.liftE (Impl.initDecoder st.codes.reverse true)

theorem kraft15_small (cs : List Code) (h1 : ∀ c ∈ cs, 1 ≤ c.len) (h2 : cs.length < 2) :
    kraft15 cs < 2 ^ 15 := by
  match cs, h2 with
  | [], _ => decide
  | [c], _ =>
    have : 2 ^ (15 - c.len) ≤ 2 ^ 14 :=
      Nat.pow_le_pow_right (by omega) (by have := h1 c List.mem_cons_self; omega)
    rw [kraft15_cons, kraft15_nil]; omega

theorem lens_sim (hI : InitTreeRel) (hF : InitFails) (n : Nat) (h704 : n ≤ 704)
    (pd : Decoder) (cl : PrefixCode) (hC : CodeRel 18 pd cl) :
    SimRel (CodeRel n) (Impl.readCodeLens pd n (n + 1) {} >>= mFin n)
      (readCodeLengths cl n (n + 2) { lens := Array.replicate n 0 } >>= fun lens =>
        pure (PrefixCode.ofLengths lens)) := by
  refine lens_loop n pd cl (mFin n) _ ?_ ?_ hC (n + 1) (n + 2) {} _ (LInv_init n)
    (by show n + 1 - 0 ≤ n + 1; omega) (by show n + 1 - 0 ≤ n + 2; omega)
  · rintro st lens ⟨hle, hinc, hb, hk, rfl⟩
    have hlen : ¬ st.codes.length < 2 := fun h => by
      have := kraft15_small st.codes (fun c hc => (hb c hc).2.1) h; omega
    obtain ⟨d, hd, hrel⟩ := hI st.codes.reverse n (by omega) (by simp; omega)
      (symsIncreasing_of_pairwise _ (List.pairwise_reverse.2 hinc))
      (fun c hc => by have := hb c (List.mem_reverse.1 hc); omega)
      (by rw [kraft15_reverse]; exact hk)
    unfold mFin
    rw [if_neg (by omega), hd]
    exact SimRel.pure (a := d) hrel
  · rintro st hbad r
    unfold mFin
    by_cases h : st.codes.length < 2 ∨ st.sym > n
    · rw [if_pos h]; exact ⟨.corrupted, r, rfl, by decide⟩
    · rw [if_neg h]
      rcases hbad with h' | ⟨hb, hk⟩
      · omega
      · obtain ⟨e, he, hne⟩ := hF st.codes.reverse (by simp; omega)
          (fun c hc => hb c (List.mem_reverse.1 hc)) (Or.inr (by rw [kraft15_reverse]; exact hk))
        rw [he]
        exact ⟨e, r, rfl, hne⟩

/-! ### a code length code with a single code word -/

theorem single_syms : ∀ s < 18, ∀ l < 6, 1 ≤ l →
    (PrefixCode.ofLengths ((Array.replicate 18 0).setIfInBounds s l)).syms = #[s] := by
  decide +kernel

theorem single_rel (s l : Nat) (hs : s < 18) (h1 : 1 ≤ l) (h5 : l ≤ 5) :
    CodeRel 18 { chunks := #[s * 32], numSyms := 1 }
      (PrefixCode.ofLengths ((Array.replicate 18 0).setIfInBounds s l)) := by
  have hsy := single_syms s hs l (by omega) h1
  have hy : ∀ st : St, Brotli.readSymbol
      (PrefixCode.ofLengths ((Array.replicate 18 0).setIfInBounds s l)) st = (.ok s, st) := by
    intro st
    unfold Brotli.readSymbol
    rw [hsy]; rfl
  have hx : ∀ r : Impl.BR, Impl.readSymbol { chunks := #[s * 32], numSyms := 1 } r = (.ok s, r) := by
    intro r
    have hl : ∀ v, ({ chunks := #[s * 32], numSyms := 1 } : Decoder).lookup v = (s, 0) := by
      intro v
      simp [Decoder.lookup, Nat.mod_one]
    simp [Impl.readSymbol, hl]
  constructor
  · intro st
    simp only [SimAt, hx, hy]
    exact ⟨0, Nat.zero_le _, by rw [stAt_zero], by rw [stAt_zero], trivial⟩
  · intro st st' b hb
    rw [hy] at hb
    cases hb; exact hs

/-! ### the whole of `readComplexPrefixCode` -/

/-- the model after the code length code loop. -/
def mAfterCL (n : Nat) (arr : Array Nat) : Impl.M Decoder :=
  if (codeCL arr).length < 1 then Impl.panic .corrupted
  else Impl.liftE (Impl.initDecoder (codeCL arr) true) >>= fun pd =>
    Impl.readCodeLens pd n (n + 1) {} >>= mFin n

/-- the specification after the code length code lengths. -/
def sAfterCL (n : Nat) (cll : Array Nat) : Dec PrefixCode :=
  readCodeLengths (PrefixCode.ofLengths cll) n (n + 2) { lens := Array.replicate n 0 } >>= fun lens =>
    pure (PrefixCode.ofLengths lens)

theorem impl_complex_eq (n hskip : Nat) :
    Impl.readComplexPrefixCode n hskip =
      Impl.readCLens (codeLengthOrder.drop hskip) 32 (Array.replicate 18 0) >>= mAfterCL n := rfl

theorem spec_complex_eq (n hskip : Nat) :
    Brotli.readComplexPrefixCode n hskip =
      readCodeLengthCodeLengths (codeLengthOrder.drop hskip) 32 0 (Array.replicate 18 0) >>= sAfterCL n := rfl

theorem CLInv_init (hskip : Nat) :
    CLInv (codeLengthOrder.drop hskip) 32 32 0 (Array.replicate 18 0) where
  size := by simp
  le5 := by intro x hx; simp at hx; omega
  nodup := List.Nodup.sublist (List.drop_sublist _ _) (by decide)
  zero := by
    intro p hp
    have h18 : ∀ q ∈ codeLengthOrder, q < 18 := by decide
    have := h18 p (List.mem_of_mem_drop hp)
    rw [Array.toList_replicate, List.getElem?_replicate, if_pos this]
  sum_eq := rfl
  pos := by decide
  cnt_eq := by decide
  ws_eq := by decide

end Compress.Proofs.BrImpl.Complex

namespace Compress.Proofs.BrImpl
open Compress Compress.Brotli Compress.Prefix Compress.Proofs.BrImpl.Complex

set_option linter.unusedVariables false in
/-- **C02 (d), complex prefix codes.** `readComplexPrefixCode` of the model = section 3.5.
    (`h2` and `hs` are not needed.) -/
theorem complex_sim (hI : InitTreeRel) (hF : InitFails) (n : Nat) (h2 : 2 ≤ n) (h704 : n ≤ 704)
    (hskip : Nat) (hs : hskip = 0 ∨ hskip = 2 ∨ hskip = 3) :
    SimRel (CodeRel n) (Impl.readComplexPrefixCode n hskip) (Brotli.readComplexPrefixCode n hskip) := by
  rw [impl_complex_eq, spec_complex_eq]
  refine clens_loop (mAfterCL n) (sAfterCL n) ?_ ?_ (decCLens_rel hI) _ _ _ _ _ (CLInv_init hskip)
  · rintro arr ⟨hsz, hle, hgood⟩
    have hlen := codeCL_length arr
    have hmem : ∀ c ∈ codeCL arr, c.sym < 18 ∧ 1 ≤ c.len ∧ c.len ≤ 5 := by
      intro c hc
      obtain ⟨_, h2, h3, h4⟩ := codeCLFrom_mem _ _ _ hc
      have := hle _ h4
      simp only [Array.length_toList, hsz] at h2
      omega
    have harr := lensArr_codeCL arr
    rw [hsz] at harr
    unfold mAfterCL sAfterCL
    by_cases h1 : cnt arr.toList = 1
    · -- a single code word (of zero bits)
      obtain ⟨c, hc⟩ : ∃ c, codeCL arr = [c] := List.length_eq_one_iff.1 (hlen.trans h1)
      obtain ⟨c1, c2, c3⟩ := hmem c (by rw [hc]; exact List.mem_cons_self)
      rw [hc, if_neg (by simp)]
      have hrel := single_rel c.sym c.len c1 c2 c3
      have : (Array.replicate 18 0).setIfInBounds c.sym c.len = arr := by rw [← harr, hc]; rfl
      rw [this] at hrel
      exact lens_sim hI hF n h704 _ _ hrel
    · have hws : ws arr.toList = 32 := hgood.resolve_right h1
      have hwle := ws_le arr.toList
      have hk : kraft15 (codeCL arr) = 2 ^ 15 := by rw [kraft15_codeCL arr hle, hws]
      obtain ⟨d, hd, hrel⟩ := hI (codeCL arr) 18 (by decide) (by omega) (codeCL_increasing arr)
        (fun c hc => by have := hmem c hc; omega) hk
      rw [harr] at hrel
      rw [if_neg (by omega), hd]
      exact lens_sim hI hF n h704 _ _ hrel
  · rintro arr ⟨hsz, hle, hbad⟩ r
    have hlen := codeCL_length arr
    unfold mAfterCL
    rcases hbad with h0 | ⟨h2, hne⟩
    · rw [if_pos (by omega)]
      exact ⟨.corrupted, r, rfl, by decide⟩
    · rw [if_neg (by omega)]
      obtain ⟨e, he, hne'⟩ := hF (codeCL arr) (by omega)
        (fun c hc => by
          obtain ⟨_, _, h3, h4⟩ := codeCLFrom_mem _ _ _ hc
          have := hle _ h4; omega)
        (Or.inr (by rw [kraft15_codeCL arr hle]; omega))
      rw [he]
      exact ⟨e, r, rfl, hne'⟩

end Compress.Proofs.BrImpl
