/-
bzip2 cut: the symbol loop `readSyms`, with the length-dependent fuel `readBlock`
gives it, is prefix-monotone.
-/
import Compress.Proofs.BzCutCTab

namespace Compress.Proofs.BzCut
open Compress Compress.Bzip2

def swOf (sels : Array Nat) (blkLen selIdx : Nat) : Except Verdict (Nat × Nat) :=
  if blkLen = 0 then
    if selIdx ≥ sels.size then .error .corrupt else .ok (numBlockSyms, selIdx + 1)
  else .ok (blkLen, selIdx)

def contP (tabs : Array CTab) (sels : Array Nat) (numSyms limit fuel bl si cnt : Nat) (acc : List Nat) :
    Nat → Parser (List Nat) := fun s rest =>
  if s = numSyms - 1 then .ok (acc.reverse, rest)
  else if cnt ≥ limit then .error .corrupt
  else readSyms tabs sels numSyms limit fuel (bl - 1) si (cnt + 1) (s :: acc) rest

theorem readSyms_succ (tabs : Array CTab) (sels : Array Nat) (numSyms limit fuel blkLen selIdx cnt : Nat)
    (acc : List Nat) (bits : Bits) :
    readSyms tabs sels numSyms limit (fuel + 1) blkLen selIdx cnt acc bits =
      match swOf sels blkLen selIdx with
      | .error e => .error e
      | .ok (bl, si) =>
        bindP (symE (tabs.getD (sels.getD (si - 1) 0) default) numSyms)
          (contP tabs sels numSyms limit fuel bl si cnt acc) bits := by
  rw [readSyms]
  simp only []
  rw [show (if blkLen = 0 then
        if selIdx ≥ sels.size then (Except.error Verdict.corrupt : Except Verdict (Nat × Nat)) else .ok (numBlockSyms, selIdx + 1)
      else .ok (blkLen, selIdx)) = swOf sels blkLen selIdx from rfl]
  cases hsw : swOf sels blkLen selIdx with
  | error e => rfl
  | ok p =>
    obtain ⟨bl, si⟩ := p
    simp only []
    cases hd : (tabs.getD (sels.getD (si - 1) 0) default).decode numSyms bits with
    | eof => simp only [bindP, symE, hd, bind, Except.bind]
    | bad => simp only [bindP, symE, hd, bind, Except.bind]
    | sym s rest => simp only [bindP, symE, hd, bind, Except.bind, contP]

/-- (A) with a fixed fuel the symbol loop is prefix-monotone. -/
theorem readSyms_prefixOK (tabs : Array CTab) (sels : Array Nat) (numSyms limit : Nat) :
    ∀ (fuel blkLen selIdx cnt : Nat) (acc : List Nat),
      PrefixOK (readSyms tabs sels numSyms limit fuel blkLen selIdx cnt acc) := by
  intro fuel
  induction fuel with
  | zero =>
    intro blkLen selIdx cnt acc
    exact (prefixOK_error .corrupt).congr (fun bits => by rw [readSyms])
  | succ fuel ih =>
    intro blkLen selIdx cnt acc
    refine PrefixOK.congr ?_ (readSyms_succ tabs sels numSyms limit fuel blkLen selIdx cnt acc)
    cases swOf sels blkLen selIdx with
    | error e => exact prefixOK_error e
    | ok p =>
      obtain ⟨bl, si⟩ := p
      refine PrefixOK.bind (symE_prefixOK _ _) (fun _ s _ _ => ?_)
      unfold contP
      refine PrefixOK.ite (fun _ => ?_) (fun _ => PrefixOK.ite (fun _ => prefixOK_error _) (fun _ => ih _ _ _ _))
      exact (liftE_prefixOK (.ok acc.reverse)).congr (fun _ => rfl)

/-- (B) once the fuel exceeds the input length, more fuel changes nothing. -/
theorem readSyms_fuel (tabs : Array CTab) (sels : Array Nat) (numSyms limit : Nat)
    (hC : ∀ i, Consumes (tabs.getD i default)) :
    ∀ (fuel blkLen selIdx cnt : Nat) (acc : List Nat) (bits : Bits) (d : Nat), bits.length + 1 ≤ fuel →
      readSyms tabs sels numSyms limit fuel blkLen selIdx cnt acc bits =
        readSyms tabs sels numSyms limit (fuel + d) blkLen selIdx cnt acc bits := by
  intro fuel
  induction fuel with
  | zero => intro _ _ _ _ _ _ h; omega
  | succ fuel ih =>
    intro blkLen selIdx cnt acc bits d hf
    rw [show fuel + 1 + d = (fuel + d) + 1 by omega, readSyms_succ, readSyms_succ]
    cases swOf sels blkLen selIdx with
    | error e => rfl
    | ok p =>
      obtain ⟨bl, si⟩ := p
      simp only []
      cases hs : symE (tabs.getD (sels.getD (si - 1) 0) default) numSyms bits with
      | error e => rw [bindP_error _ _ _ _ hs, bindP_error _ _ _ _ hs]
      | ok q =>
        obtain ⟨s, rest⟩ := q
        rw [bindP_ok _ _ _ _ _ hs, bindP_ok _ _ _ _ _ hs]
        have hlt := hC _ _ _ _ _ hs
        unfold contP
        split
        · rfl
        · split
          · rfl
          · exact ih _ _ _ _ _ _ (by omega)

theorem consumes_getD (tabs : List CTab) (h : ∀ t ∈ tabs, GoodTab t) (i : Nat) :
    Consumes (tabs.toArray.getD i default) := by
  by_cases hi : i < tabs.length
  · have : tabs.toArray.getD i default = tabs[i] := by simp [Array.getD, hi]
    rw [this]
    exact goodTab_consumes _ (h _ (List.getElem_mem hi))
  · have : tabs.toArray.getD i default = default := by simp [Array.getD, hi]
    rw [this]
    exact default_consumes

theorem symsP_prefixOK (tabs : List CTab) (sels : List Nat) (numSyms limit : Nat)
    (h : ∀ t ∈ tabs, GoodTab t) : PrefixOK (symsP tabs sels numSyms limit) := by
  intro full v rest hr
  unfold symsP at hr
  obtain ⟨c, hc, p⟩ := readSyms_prefixOK tabs.toArray sels.toArray numSyms limit (full.length + 2) 0 0 0 []
    full v rest hr
  refine ⟨c, hc, fun m => ?_⟩
  have key : symsP tabs sels numSyms limit (full.take m) =
      readSyms tabs.toArray sels.toArray numSyms limit (full.length + 2) 0 0 0 [] (full.take m) := by
    unfold symsP
    rw [readSyms_fuel tabs.toArray sels.toArray numSyms limit (consumes_getD tabs h)
      ((full.take m).length + 2) 0 0 0 [] (full.take m) (full.length - (full.take m).length) (by omega)]
    congr 1
    have : (full.take m).length ≤ full.length := by rw [List.length_take]; omega
    omega
  rw [key]
  exact p m

end Compress.Proofs.BzCut
