/-
Layer R of `tables_agree_degenerate`: `Decoder.readSymbol` on the table of a prefix-free code list
(completeness not needed), for a stream whose zero-extension starts with a code word.
-/
import Compress.Proofs.BzImplTabDDefs
import Compress.Proofs.PrefixTables

namespace Compress.Proofs.BzImpl.TabD
open Compress Compress.Bzip2 Compress.Prefix
open Compress.Bzip2.Impl (GStatus Explored)

open Compress.Proofs.PrefixTables

private theorem toNat_append_false' (l : Bits) (n : Nat) :
    Bits.toNat (l ++ List.replicate n false) = Bits.toNat l := by
  induction l with
  | nil =>
    induction n with
    | zero => rfl
    | succ n ih =>
      rw [List.replicate_succ]
      simp only [List.nil_append, Bits.toNat] at ih ⊢
      rw [ih]; rfl
  | cons b l ih => simp only [List.cons_append, Bits.toNat, ih]

theorem readSymbol_of_prefix (cs : List Code) (h2 : 2 ≤ cs.length)
    (hl : ∀ c ∈ cs, 1 ≤ c.len ∧ c.len ≤ 27) (hv : ∀ c ∈ cs, c.val < 2 ^ c.len)
    (pf : PrefixFree cs) (c : Code) (hc : c ∈ cs) (bits : Bits) (k : Nat)
    (hp : c.word <+: bits ++ List.replicate k false) :
    (Decoder.init cs).chunks.size ≠ 0 ∧
    (Decoder.init cs).readSymbol bits =
      if c.len ≤ bits.length then some (c.sym, bits.drop c.len) else none := by
  obtain ⟨r, hr⟩ := hp
  have hl27 := (hl c hc).2
  have hval : Bits.toNat (bits.take 32) % 2 ^ c.len = c.val := by
    have h1 := word_take c (by omega) r
    rw [hr, Nat.mod_eq_of_lt (hv c hc), List.take_append, List.take_replicate,
      toNat_append_false'] at h1
    exact h1
  have hlk := decoder_lookup_val cs h2 (fun c hc => by simp only [valueBits]; exact (hl c hc).2)
    hv pf c hc _ hval
  obtain ⟨n, ch1, res, hfold, hcm, hlm, hcb, hmb⟩ := init_fields cs h2
  have inv := fill_inv cs pf hv _ n ((Decoder.init cs).linkMask + 1) ch1 res (by omega)
  rw [← hfold] at inv
  have hsz : (Decoder.init cs).chunks.size ≠ 0 := by
    have := inv.size1
    have hpos : 0 < 2 ^ (min (maxLen cs) 9) := Nat.two_pow_pos _
    simp only at this
    omega
  refine ⟨hsz, ?_⟩
  unfold Decoder.readSymbol
  rw [if_neg hsz, hlk]
  simp only
  have hmin := minLen_le cs c hc
  by_cases hle : c.len ≤ bits.length
  · rw [if_neg (by rw [hmb]; omega), if_pos hle]
  · rw [if_neg hle]
    by_cases hlt : bits.length < (Decoder.init cs).minBits
    · rw [if_pos hlt]
    · rw [if_neg hlt]

end Compress.Proofs.BzImpl.TabD
