/-
C15 — whatever xflate.Reader accepts, a DEFLATE decoder reads identically … provided no chunk
hides a final block (defect D10: `accepted_not_deflate_witness`).
Helper lemmas in `Compress/Proofs/XA*.lean`.
-/
import Compress.XFlate.SeqRead
import Compress.XFlate.Open
import Compress.XFlate.WriterSpec
import Compress.Proofs.XFlateGlue
import Compress.Proofs.FlatePrefix
import Compress.Proofs.XAMain
import Compress.Proofs.XAWitness
import Compress.Proofs.XAWriter

namespace Compress.Proofs.XFlateAccept
open Compress Compress.XFlate Compress.Proofs.XFlateGlue

/-- history independence of the specification: blocks that decode without error starting from
    an empty output decode the same way after any earlier output (a back-reference that fits in
    the shorter history fits in the longer one and copies the same bytes). -/
theorem decodeBlocks_history (total fuel : Nat) (pre : Array UInt8) (bits : Bits) (out : Array UInt8) (n : Nat)
    (h : Flate.decodeBlocks total fuel #[] bits = { out := out, verdict := .ok n }) :
    Flate.decodeBlocks total fuel pre bits = { out := pre ++ out, verdict := .ok n } := by
  have := decodeBlocks_hist total pre fuel #[] bits out n h
  rw [Array.append_empty] at this
  exact this

/-! ### the hypothesis the Go code does not check -/

/-- `seg` contains no block with the final bit set and no incomplete block: placed on a byte
    boundary of any DEFLATE stream, after any output, the specification decodes it as `k`
    complete blocks that append some `data`, and then carries on with whatever follows.
    (Stated with `Flate.decodeBlocks` only; it is `∃ data, XWShape.Transp seg data`, the property
    C06 derives for everything `xflate.Writer` emits before the footer.) -/
def NoFinalBlock (seg : List UInt8) : Prop :=
  ∃ (data : List UInt8) (k : Nat), k ≤ 8 * seg.length ∧
    ∀ (total fuel : Nat) (out : Array UInt8) (rest : Bits),
      rest.length + 8 * seg.length ≤ total → (total - rest.length) % 8 = 0 →
      Flate.decodeBlocks total (fuel + k) out (Bits.ofBytes seg ++ rest) =
        Flate.decodeBlocks total fuel (out ++ data.toArray) rest

theorem noFinalBlock_iff_transp (seg : List UInt8) : NoFinalBlock seg ↔ ∃ data, XWShape.Transp seg data :=
  Iff.rfl

/-- non-vacuity: every transparent segment qualifies … -/
theorem noFinalBlock_of_transp {seg data : List UInt8} (h : XWShape.Transp seg data) : NoFinalBlock seg :=
  ⟨data, h⟩

/-- … in particular every chunk a compressor satisfying the contract `ZChunkOK` emitted (C06), -/
theorem noFinalBlock_of_chunk {bytes data : List UInt8} (h : ZChunkOK bytes data) : NoFinalBlock bytes :=
  ⟨data, XWShape.transp_of_chunk h⟩

/-- … every index `xflate.Writer` encodes, -/
theorem noFinalBlock_of_index (payload : List UInt8) (blocks : List (List UInt8))
    (h : Meta.encode payload .fmeta = some blocks) : NoFinalBlock blocks.flatten :=
  ⟨[], XWShape.transp_meta payload .fmeta blocks h (by decide)⟩

/-- … and the sync marker `00 00 00 ff ff`. -/
theorem noFinalBlock_syncMarker : NoFinalBlock [0, 0, 0, 255, 255] :=
  noFinalBlock_of_chunk XWShape.zchunkOK_syncMarker

/-- non-vacuity on the Writer's own streams: under the hypotheses of C05
    (`XFlateGlue.writer_layout_wellformed`) every segment in front of the footer of the emitted
    stream satisfies `NoFinalBlock`, so C15 applies to every stream `xflate.Writer` produces. -/
theorem writer_stream_noFinalBlock (crc : List UInt8 → Nat) (level chunk index : Int) (hasConf : Bool)
    (oracle : List ZEv) (ops : List WOp) (s0 : XWState)
    (h0 : newWriter level chunk index hasConf {} oracle = some s0)
    (hz : ∀ ev ∈ oracle, ev.err ≠ some .closed) :
    let s := (runW crc s0 ops).1
    s.err = some .closed → s.bad = false →
    (∀ c ∈ chunksOf s.zlog [] [], ZChunkOK c.1 c.2 ∧ 4 < c.1.length ∧
        (c.1.reverse.take 4).reverse = [0x00, 0x00, 0xff, 0xff]) →
    (∀ p ∈ s.zlog, p.1.kind = .zflush → p.1.emitted ≠ []) →
    s.sink.got.length < 2 ^ 63 → (dataOf s.zlog).length < 2 ^ 63 →
    ∀ j, j + 1 < s.allRecs.length →
      NoFinalBlock (bytesBetween s.sink.got (getRecords s.allRecs j).1.comp (getRecords s.allRecs j).2.comp) := by
  intro s he hb hc hflush hg hd j hj
  obtain ⟨rgs, tr, foot, hf⟩ := XWShape.closed_shape crc level chunk index hasConf oracle ops s0 h0 hz he hb
  exact fin_transp crc s rgs tr foot hf hc hflush hg hd j hj

/-- a computable sufficient condition: the specification, run on the segment followed by the end
    block `01 00 00 ff ff` (what the inflater behind `chunkReader` sees), meets its first block
    with the final bit set exactly 40 bits before the end, i.e. that block is the end block. -/
def FinalIsEndBlock (seg : List UInt8) : Prop :=
  finalHeader (8 * (seg.length + 5)) (8 * (seg.length + 5) + 1) #[]
    (Bits.ofBytes (seg ++ endBlockBytes)) = some 40

instance (seg : List UInt8) : Decidable (FinalIsEndBlock seg) := by
  unfold FinalIsEndBlock; infer_instance

theorem noFinalBlock_of_finalIsEndBlock {seg : List UInt8} (h : FinalIsEndBlock seg) : NoFinalBlock seg :=
  transp_of_finalHeader seg h

/-- the witness chunk of D10 fails the computable condition: its first block is final. -/
theorem witness_chunk_final : ¬ FinalIsEndBlock [1, 9, 0, 246, 255, 0, 0, 255, 255] := by
  decide +kernel

/-! ### D10: an accepted stream that DEFLATE reads differently -/

/-- **Defect witness (D10), kernel-checked on the models.** The 53-byte string `witness`
    (chunk `01 09 00 f6 ff 00 00 ff ff`, a *final* stored block of length 9 of which only 4 bytes
    are in the chunk; then a well-formed index and footer) is accepted by `Reader.Reset`, read to
    `io.EOF` without error as `00 00 ff ff 01 00 00 ff ff` — the last five bytes are
    `chunkReader`'s own end block — while RFC 1951 stops after 14 bytes (112 bits) having
    produced `00 00 ff ff 24 80 86 05 80`.  Confirmed on the Go code. -/
theorem accepted_not_deflate_witness :
    ∃ r, openIndex .fixed crc32IEEE witness = .ok r ∧ r.recs = witnessRecs ∧
      seqRead (layoutOf witness r.recs) 4096 100 (opened .fixed (layoutOf witness r.recs)) [] [] =
        ([0,0,255,255,1,0,0,255,255], some .eof) ∧
      (Flate.decode witness).out = #[0,0,255,255,36,128,134,5,128] ∧
      (Flate.decode witness).verdict = .ok 112 ∧
      Flate.decode witness ≠
        { out := ([0,0,255,255,1,0,0,255,255] : List UInt8).toArray, verdict := .ok (8 * witness.length) } := by
  have ho := witness_open
  cases hr : openIndex .fixed crc32IEEE witness with
  | error e => rw [hr] at ho; cases ho
  | ok r =>
    rw [hr] at ho
    simp only [Except.toOption, Option.map_some, Option.some.injEq] at ho
    refine ⟨r, rfl, ho, ?_, witness_decode.1, witness_decode.2, ?_⟩
    · rw [ho]; exact witness_read
    · intro h
      have := witness_decode.2
      rw [h] at this
      revert this
      decide

/-! ### C15 -/

-- STATEMENT ADJUSTED: as first stated (without `hfin`) this is FALSE, and the counterexample is a
-- defect of the Go code (D10), see `accepted_not_deflate_witness`:
--   stream = 01 09 00 f6 ff 00 00 ff ff ++ index(1 record: csize 9, rsize 9) ++ footer   (53 bytes, `witness`)
--   `openIndex .fixed crc32IEEE` accepts it; `seqRead … 4096 100 … [] []` = (00 00 ff ff 01 00 00 ff ff, io.EOF);
--   `Flate.decode` = out 00 00 ff ff 24 80 86 05 80, verdict `.ok 112` (not `.ok (8*53)`).
-- A chunk may contain a block with the final bit set that extends over the end block `chunkReader`
-- appends; `Read` checks only the sync marker, the input offset and the raw size.  Repair: the
-- hypothesis `hfin` — no segment in front of the footer contains a final (or incomplete) block.
/-- **C15.** For every byte string: if `Reader.Reset` accepts it (footer and index chain parse)
    and reading it sequentially to the end succeeds — whatever buffer size is used and however the
    per-segment inflater hands out its bytes — and no segment in front of the footer hides a final
    block (`NoFinalBlock`; without this the statement is false, D10), then the RFC 1951
    specification accepts the whole string, consuming every byte, and produces exactly the bytes
    that were read.  The layout the reader works on is the one an RFC 1951 inflater behind
    `chunkReader` presents for the parsed index (`layoutOf`). -/
theorem accepted_is_deflate (crc : List UInt8 → Nat) (stream : List UInt8) (r : OpenResult)
    (h : openIndex .fixed crc stream = .ok r)
    (hfin : ∀ j, j + 1 < r.recs.length →
      NoFinalBlock (bytesBetween stream (getRecords r.recs j).1.comp (getRecords r.recs j).2.comp))
    (n fuel : Nat) (hn : 0 < n) (advs : List Adv) (d : List UInt8)
    (hs : seqRead (layoutOf stream r.recs) n fuel (opened .fixed (layoutOf stream r.recs)) advs [] = (d, some .eof)) :
    Flate.decode stream = { out := d.toArray, verdict := .ok (8 * stream.length) } :=
  (accepted_core h (fun j hj => hfin j hj) n fuel hn advs d hs).1

/-- C15 with the computable form of the hypothesis. -/
theorem accepted_is_deflate' (crc : List UInt8 → Nat) (stream : List UInt8) (r : OpenResult)
    (h : openIndex .fixed crc stream = .ok r)
    (hfin : ∀ j, j + 1 < r.recs.length →
      FinalIsEndBlock (bytesBetween stream (getRecords r.recs j).1.comp (getRecords r.recs j).2.comp))
    (n fuel : Nat) (hn : 0 < n) (advs : List Adv) (d : List UInt8)
    (hs : seqRead (layoutOf stream r.recs) n fuel (opened .fixed (layoutOf stream r.recs)) advs [] = (d, some .eof)) :
    Flate.decode stream = { out := d.toArray, verdict := .ok (8 * stream.length) } :=
  accepted_is_deflate crc stream r h (fun j hj => noFinalBlock_of_finalIsEndBlock (hfin j hj)) n fuel hn advs d hs

/-- what is true without any extra hypothesis: the end position the index reports is the length
    of what the reader delivers. -/
theorem index_agrees_read (crc : List UInt8 → Nat) (stream : List UInt8) (r : OpenResult)
    (h : openIndex .fixed crc stream = .ok r) (n fuel : Nat) (hn : 0 < n) (advs : List Adv) (d : List UInt8)
    (hs : seqRead (layoutOf stream r.recs) n fuel (opened .fixed (layoutOf stream r.recs)) advs [] = (d, some .eof)) :
    (layoutOf stream r.recs).endRaw = (d.length : Int) := by
  have ok := open_recsOK h
  obtain ⟨hd, hck⟩ := seq_accept ok n fuel hn advs d hs
  have := tailOut_length hck (layoutOf stream r.recs).recs.length 0 (by omega)
  rw [XRIndex.bnd_zero] at this
  rw [hd]
  omega

-- STATEMENT ADJUSTED: hypothesis `hfin` added, as in `accepted_is_deflate` (D10).  Without it FALSE.
-- (`witness` does not show it: a stored block swallows the end block byte for byte, so both sizes are 9.)
-- Counterexample (70 bytes; the chunk is one FINAL dynamic-Huffman block whose code stream runs through the
-- appended end block and hits end-of-block in its last byte):
--   chunk  = [237,210,1,161,29,65,16,4,161,234,217,123,63,254,29,199,8,104,32,0,0,255,255]         (23 bytes)
--   stream = chunk ++ [60,128,134,5,128,132,178,201,174,100,36,9,137,74,70,146,144,140,84,26,82,33,73,235,
--              250,246,222,1,252] ++ [29,192,134,5,0,32,33,171,68,33,155,84,255,127,214,222,59,248]
--            (= chunk ++ Meta.encode (indexPayload crc32IEEE [⟨23,5162,1⟩] 0) .fmeta ++ Meta.encode (footerPayload 29) .fstream)
--   #eval: `Flate.decode (chunk ++ endBlockBytes)` = 5162 bytes, `.ok 224` = 8*(23+5);
--          `openIndex .fixed crc32IEEE stream` = ok, recs [⟨23,5162,1⟩,⟨52,5162,2⟩,⟨70,5162,3⟩];
--          `seqRead (layoutOf …) 4096 100 (opened …) [] []` = (5162 bytes, some .eof);  `endRaw` = 5162;
--          `Flate.decode stream` = 14995 bytes, verdict `.ok 528` (66 of 70 bytes)  — 5162 ≠ 14995.
--   (`Compress/Proofs/XAEval.lean` replays it with `#eval`; too large for kernel evaluation, hence no theorem.)
-- What holds unconditionally is `index_agrees_read` above.
/-- a stream whose index disagrees with its chunks is rejected, not served differently: if the
    sequential read ends in success (and no segment in front of the footer hides a final block),
    the end position the index reports is the length of what a DEFLATE decoder produces. -/
theorem index_agrees (crc : List UInt8 → Nat) (stream : List UInt8) (r : OpenResult)
    (h : openIndex .fixed crc stream = .ok r)
    (hfin : ∀ j, j + 1 < r.recs.length →
      NoFinalBlock (bytesBetween stream (getRecords r.recs j).1.comp (getRecords r.recs j).2.comp))
    (n fuel : Nat) (hn : 0 < n) (advs : List Adv) (d : List UInt8)
    (hs : seqRead (layoutOf stream r.recs) n fuel (opened .fixed (layoutOf stream r.recs)) advs [] = (d, some .eof)) :
    (layoutOf stream r.recs).endRaw = ((Flate.decode stream).out.size : Int) := by
  obtain ⟨h1, h2⟩ := accepted_core h (fun j hj => hfin j hj) n fuel hn advs d hs
  rw [h1, h2]
  simp

end Compress.Proofs.XFlateAccept

#print axioms Compress.Proofs.XFlateAccept.decodeBlocks_history
#print axioms Compress.Proofs.XFlateAccept.accepted_is_deflate
#print axioms Compress.Proofs.XFlateAccept.accepted_is_deflate'
#print axioms Compress.Proofs.XFlateAccept.index_agrees
#print axioms Compress.Proofs.XFlateAccept.index_agrees_read
#print axioms Compress.Proofs.XFlateAccept.accepted_not_deflate_witness
#print axioms Compress.Proofs.XFlateAccept.witness_chunk_final
#print axioms Compress.Proofs.XFlateAccept.noFinalBlock_of_chunk
#print axioms Compress.Proofs.XFlateAccept.writer_stream_noFinalBlock
