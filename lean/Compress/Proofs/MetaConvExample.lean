/-
C16 (converse of M2): the hypothesis "the meta decoder accepts" is wider than
"the meta encoder wrote": a block the decoder accepts and the encoder never
emits (code length 4, hence HCLEN = 8, where the encoder picks 3 / HCLEN = 10
for an empty payload; and the 240 zero symbols split 138 + 102).
-/
import Compress.Proofs.MetaConvStream
import Compress.Proofs.Meta

namespace Compress.Proofs.MetaConv
open Compress Compress.Meta

/-- an accepted, non-canonical meta block (empty payload, `FinalNil`). -/
def nonCanonical : List UInt8 := [4, 0, 135, 5, 0, 0, 200, 255, 223, 182, 247, 240]

def okIs (r : Except DErr Block) (b : Block) : Bool :=
  match r with
  | .ok x => decide (x = b)
  | .error _ => false

theorem okIs_eq {r : Except DErr Block} {b : Block} (h : okIs r b = true) : r = .ok b := by
  cases r with
  | error e => simp [okIs] at h
  | ok x => simp [okIs] at h; rw [h]

set_option maxRecDepth 100000 in
theorem nonCanonical_accepted :
    decodeBlock (Bits.ofBytes nonCanonical) = .ok { payload := [], final := .fnil, consumed := 96 } :=
  okIs_eq (by decide)

set_option maxRecDepth 100000 in
theorem nonCanonical_not_encoded : ∀ buf final, encodeBlock buf final ≠ some (Bits.ofBytes nonCanonical) := by
  intro buf final h
  have := Compress.Proofs.Meta.decodeBlock_encodeBlock buf final _ [] h
  rw [List.append_nil, nonCanonical_accepted] at this
  simp only [Except.ok.injEq, Block.mk.injEq] at this
  obtain ⟨rfl, rfl, _⟩ := this
  revert h
  decide

end Compress.Proofs.MetaConv
