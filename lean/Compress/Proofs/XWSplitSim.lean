/-
C05 split independence, part 2: the writer model run against the oracle
`oracleOf Z …` computes the function-driven writer `aRun` of `XWSplitAbs`
(and never marks the oracle as mismatching: `bad = false`).
-/
import Compress.Proofs.XWSplitAbs

namespace Compress.Proofs.XWSplit
open Compress Compress.XFlate Compress.Proofs.XWShape

variable (crc : List UInt8 → Nat) (Z : ZFun) (lvl : Int)

theorem absorb_nil (sk : Sink) : sk.absorb [] false = sk := by
  obtain ⟨got, budget, mode, forever, tag, failed⟩ := sk
  cases budget <;> simp [Sink.absorb]

theorem popEv_cons (s : XWState) (k : ZKind) (ev : ZEv) (rest : List ZEv)
    (h : s.oracle = ev :: rest) (hk : ev.kind = k) : popEv s k = (ev, { s with oracle := rest }) := by
  unfold popEv
  rw [h]
  simp only [hk, if_true]

/-! ### predicates on (log of compressor calls, compressor memory) closed under the calls -/

abbrev ZLog := List (ZEv × List UInt8)

structure LogClosed (P : ZLog → ZSt → Prop) : Prop where
  init : P [] {}
  flush : ∀ l z, P l z → P (l ++ [(Z.flushEv lvl z, [])]) (z.afterFlush (Z.flushEv lvl z))
  reset : ∀ l z, P l z → P (l ++ [({ kind := .zreset }, [])]) {}
  write : ∀ l z (d : List UInt8), P l z →
    P (l ++ [({ kind := .zwrite, n := d.length }, d)]) { z with data := z.data ++ d }

theorem logClosed_true : LogClosed Z lvl (fun _ _ => True) := ⟨trivial, fun _ _ _ => trivial, fun _ _ _ => trivial, fun _ _ _ _ => trivial⟩

/-! ### atomic steps -/

theorem sync_sim (s : XWState) (z : ZSt) (rest : List ZEv) (h : s.oracle = Z.flushEv lvl z :: rest) :
    proj (flushSync s) (z.afterFlush (Z.flushEv lvl z)) = aSync Z lvl (proj s z) ∧
      (flushSync s).oracle = rest ∧ (flushSync s).bad = s.bad ∧ (flushSync s).err = none ∧
      (flushSync s).zlog = s.zlog ++ [(Z.flushEv lvl z, [])] := by
  have hp := popEv_cons s .zflush _ rest h rfl
  refine ⟨?_, ?_, ?_, ?_, ?_⟩ <;> simp only [flushSync, hp] <;> rfl

theorem encodeIndex_sim (s : XWState) (z : ZSt) :
    proj (encodeIndexStep crc s) z = aEncodeIndex crc (proj s z) ∧
      (encodeIndexStep crc s).oracle = s.oracle ∧ (encodeIndexStep crc s).bad = s.bad ∧
      (encodeIndexStep crc s).zlog = s.zlog := by
  have hr : (proj s z).recs = s.recs := rfl
  have hb : (proj s z).backSize = s.backSize := rfl
  have hs : (proj s z).sink = s.sink := rfl
  unfold encodeIndexStep aEncodeIndex
  rw [hr, hb, hs]
  rcases hm : Meta.encode (indexPayload crc s.recs s.backSize) .fmeta with _ | blocks
  · exact ⟨rfl, rfl, rfl, rfl⟩
  · simp only
    rcases he : emitBlocks s.sink blocks 0 with ⟨sk, acc, e⟩
    cases e with
    | none => exact ⟨rfl, rfl, rfl, rfl⟩
    | some err => exact ⟨rfl, rfl, rfl, rfl⟩

theorem reset_sim (s : XWState) (z : ZSt) (rest : List ZEv) (h : s.oracle = { kind := .zreset } :: rest) :
    proj (zReset (recState s)) {} = aRec (proj s z) ∧ (zReset (recState s)).oracle = rest ∧
      (zReset (recState s)).bad = s.bad ∧
      (zReset (recState s)).zlog = s.zlog ++ [({ kind := .zreset }, [])] := by
  have hp := popEv_cons (recState s) .zreset _ rest h rfl
  refine ⟨?_, ?_, ?_, ?_⟩ <;> simp only [zReset, hp] <;> rfl

theorem full_sim (s : XWState) (z : ZSt) (rest : List ZEv) (h : s.oracle = endChunkEvs Z lvl z ++ rest) :
    proj (flushFull crc s) {} = aFull crc Z lvl (proj s z) ∧ (flushFull crc s).oracle = rest ∧
      (flushFull crc s).bad = s.bad ∧
      ∀ P, LogClosed Z lvl P → P s.zlog z → P (flushFull crc s).zlog {} := by
  obtain ⟨h1, h2, h3, h4, h5⟩ := sync_sim Z lvl s z ({ kind := .zreset } :: rest) h
  obtain ⟨r1, r2, r3, r4⟩ := reset_sim (flushSync s) (z.afterFlush (Z.flushEv lvl z)) rest h2
  have hlog : ∀ P, LogClosed Z lvl P → P s.zlog z → P (zReset (recState (flushSync s))).zlog {} := by
    intro P hP hl
    rw [r4, h5]
    exact hP.reset _ _ (hP.flush _ _ hl)
  rw [flushFull_eq, if_neg (by rw [h4]; simp)]
  unfold aFull
  simp only
  rw [← h1, ← r1]
  have hl : (proj (zReset (recState (flushSync s))) {}).recs = (zReset (recState (flushSync s))).recs := rfl
  have hn : (proj (zReset (recState (flushSync s))) {}).nidx = (zReset (recState (flushSync s))).nidx := rfl
  rw [hl, hn]
  split
  · obtain ⟨e1, e2, e3, e4⟩ := encodeIndex_sim crc (zReset (recState (flushSync s))) {}
    exact ⟨e1, e2.trans r2, e3.trans (r3.trans h3), by rw [e4]; exact hlog⟩
  · exact ⟨rfl, r2, r3.trans h3, hlog⟩

/-- the compressor calls of `Flush(FlushIndex)`. -/
def evsIndex (z : ZSt) : List ZEv × ZSt :=
  if z.data.length + z.out > 0 then (endChunkEvs Z lvl z, {}) else ([], z)

theorem index_sim (s : XWState) (z : ZSt) (rest : List ZEv) {n : Int} (hi : Inv n (proj s z))
    (h : s.oracle = (evsIndex Z lvl z).1 ++ rest) :
    proj (flushIndex crc s) (evsIndex Z lvl z).2 = aIndex crc Z lvl (proj s z) ∧
      (flushIndex crc s).oracle = rest ∧ (flushIndex crc s).bad = s.bad ∧
      ∀ P, LogClosed Z lvl P → P s.zlog z → P (flushIndex crc s).zlog (evsIndex Z lvl z).2 := by
  have h1 : s.zwIn = z.data.length := hi.zwIn
  have h2 : s.zwOut = z.out := hi.zwOut
  unfold flushIndex aIndex evsIndex at *
  have hc : (proj s z).zwIn + (proj s z).zwOut = s.zwIn + s.zwOut := rfl
  rw [hc]
  by_cases hz : s.zwIn + s.zwOut > 0
  · have hz' : z.data.length + z.out > 0 := by omega
    rw [if_pos hz'] at h ⊢
    rw [if_pos hz, if_pos hz]
    obtain ⟨f1, f2, f3, f4⟩ := full_sim crc Z lvl s z rest h
    simp only
    rw [← f1]
    have he : (proj (flushFull crc s) {}).err = (flushFull crc s).err := rfl
    rw [he]
    split
    · exact ⟨rfl, f2, f3, f4⟩
    · obtain ⟨e1, e2, e3, e4⟩ := encodeIndex_sim crc (flushFull crc s) {}
      exact ⟨e1, e2.trans f2, e3.trans f3, by rw [e4]; exact f4⟩
  · have hz' : ¬ z.data.length + z.out > 0 := by omega
    rw [if_neg hz'] at h ⊢
    rw [if_neg hz, if_neg hz]
    obtain ⟨e1, e2, e3, e4⟩ := encodeIndex_sim crc s z
    exact ⟨e1, e2.trans h, e3, by rw [e4]; exact fun _ _ hl => hl⟩

end Compress.Proofs.XWSplit
