/-
C05 split independence, part 5: the log of compressor calls of a run against
`oracleOf Z …` shows a compressor that behaves as `Z` (`ZBehaves`), for streaming
`Z`; the stored-block compressor `storedZ` is streaming.
-/
import Compress.Proofs.XWSplitSim

namespace Compress.Proofs.XWSplit
open Compress Compress.XFlate

variable (Z : ZFun) (lvl : Int)

/-- (data, flush points, bytes emitted) since the last Reset at the end of a log. -/
def endSt : ZLog → List UInt8 → List Nat → List UInt8 → List UInt8 × List Nat × List UInt8
  | [], D, F, C => (D, F, C)
  | (ev, d) :: rest, D, F, C =>
    match ev.kind with
    | .zreset => endSt rest [] [] []
    | .zwrite => endSt rest (D ++ d) F C
    | .zflush => endSt rest D (F ++ [D.length]) (C ++ ev.emitted)

theorem endSt_append : ∀ (l l' : ZLog) (D : List UInt8) (F : List Nat) (C : List UInt8),
    endSt (l ++ l') D F C = endSt l' (endSt l D F C).1 (endSt l D F C).2.1 (endSt l D F C).2.2
  | [], _, _, _, _ => rfl
  | (ev, d) :: rest, l', D, F, C => by
    simp only [List.cons_append, endSt]
    cases ev.kind <;> exact endSt_append rest l' _ _ _

theorem ZLogOK_append : ∀ (l l' : ZLog) (D : List UInt8) (F : List Nat) (C : List UInt8),
    ZLogOK Z lvl (l ++ l') D F C ↔
      ZLogOK Z lvl l D F C ∧ ZLogOK Z lvl l' (endSt l D F C).1 (endSt l D F C).2.1 (endSt l D F C).2.2
  | [], _, _, _, _ => by simp [ZLogOK, endSt]
  | (ev, d) :: rest, l', D, F, C => by
    simp only [List.cons_append, ZLogOK, endSt]
    cases ev.kind <;> simp only [ZLogOK_append rest l', and_assoc]

/-- the invariant: the log is that of a compressor behaving as `Z`, and `z` is the
    compressor memory at its end. -/
def LG (l : ZLog) (z : ZSt) : Prop :=
  ZLogOK Z lvl l [] [] [] ∧ ∃ cum, endSt l [] [] [] = (z.data, z.fps, cum) ∧ cum.length = z.out ∧
    ((cum = [] ∧ z.fps = []) ∨
      ∃ d0 d1, z.data = d0 ++ d1 ∧ cum = Z.emit lvl d0 z.fps ∧ ∀ p ∈ z.fps, p ≤ d0.length)

theorem LG_closed (hS : Z.Streaming) : LogClosed Z lvl (LG Z lvl) where
  init := ⟨trivial, [], rfl, rfl, Or.inl ⟨rfl, rfl⟩⟩
  flush := by
    rintro l z ⟨hok, cum, hend, hlen, hcase⟩
    have hpre : cum <+: Z.emit lvl z.data (z.fps ++ [z.data.length]) := by
      rcases hcase with ⟨h1, _⟩ | ⟨d0, d1, h1, h2, h3⟩
      · rw [h1]; exact List.nil_prefix
      · rw [h2, h1]; exact hS lvl d0 d1 z.fps h3
    have hcat : cum ++ (Z.flushEv lvl z).emitted = Z.emit lvl z.data (z.fps ++ [z.data.length]) := by
      have := List.prefix_iff_eq_append.1 hpre
      rw [hlen] at this
      exact this
    refine ⟨?_, Z.emit lvl z.data (z.fps ++ [z.data.length]), ?_, ?_, Or.inr ⟨z.data, [], ?_, rfl, ?_⟩⟩
    · rw [ZLogOK_append, hend]
      refine ⟨hok, rfl, rfl, ?_⟩
      exact ⟨rfl, hcat, trivial⟩
    · rw [endSt_append, hend, ← hcat]; rfl
    · rw [← hcat, List.length_append, hlen]; rfl
    · simp [ZSt.afterFlush]
    · intro p hp
      simp only [ZSt.afterFlush, List.mem_append, List.mem_singleton] at hp
      rcases hp with hp | hp
      · rcases hcase with ⟨_, h2⟩ | ⟨d0, d1, h1, _, h3⟩
        · rw [h2] at hp; cases hp
        · have := h3 p hp
          show p ≤ z.data.length
          rw [h1, List.length_append]; omega
      · subst hp; exact Nat.le_refl _
  reset := by
    rintro l z ⟨hok, cum, hend, _, _⟩
    refine ⟨?_, [], ?_, rfl, Or.inl ⟨rfl, rfl⟩⟩
    · rw [ZLogOK_append]
      exact ⟨hok, rfl, rfl, rfl, rfl, trivial⟩
    · rw [endSt_append]; rfl
  write := by
    rintro l z d ⟨hok, cum, hend, hlen, hcase⟩
    refine ⟨?_, cum, ?_, hlen, ?_⟩
    · rw [ZLogOK_append]
      exact ⟨hok, rfl, rfl, rfl, rfl, trivial⟩
    · rw [endSt_append, hend]; rfl
    · rcases hcase with h | ⟨d0, d1, h1, h2, h3⟩
      · exact Or.inl h
      · exact Or.inr ⟨d0, d1 ++ d, by simp only [h1, List.append_assoc], h2, h3⟩

theorem LG_behaves {l : ZLog} {z : ZSt} (h : LG Z lvl l z) : ZBehaves Z lvl l := h.1

/-! ### the stored-block compressor is streaming -/

theorem segsOf_append (d d' : List UInt8) : ∀ (fps : List Nat) (prev : Nat), (∀ p ∈ fps, p ≤ d.length) →
    segsOf (d ++ d') prev fps = segsOf d prev fps
  | [], _, _ => rfl
  | p :: ps, prev, h => by
    have hp : p ≤ d.length := h p (List.mem_cons_self ..)
    simp only [segsOf]
    rw [segsOf_append d d' ps p (fun q hq => h q (List.mem_cons_of_mem _ hq)), List.take_append_of_le_length hp]

theorem segsOf_snoc (D : List UInt8) : ∀ (fps : List Nat) (prev q : Nat),
    segsOf D prev (fps ++ [q]) = segsOf D prev fps ++ [(D.take q).drop ((prev :: fps).getLast (List.cons_ne_nil _ _))]
  | [], _, _ => rfl
  | p :: ps, prev, q => by
    simp only [List.cons_append, segsOf, segsOf_snoc D ps p q, List.getLast_cons (List.cons_ne_nil p ps)]

theorem storedZ_streaming : storedZ.Streaming := by
  intro level d d' fps h
  simp only [storedZ]
  rw [segsOf_snoc, segsOf_append d d' fps 0 h, List.map_append, List.flatten_append]
  exact List.prefix_append _ _

end Compress.Proofs.XWSplit
