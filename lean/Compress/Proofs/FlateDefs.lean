/-
C01 (flate refinement): shared vocabulary of the component proofs —
the relation between the table decoder of the model and the counting decoder
of the specification, the statements of the component theorems (Huffman trees,
dynamic header, Read loop) and one-step unfolding equations for the two big
recursive functions (`Flate.inflateBlock`, `Impl.readBlock`), whose equation
lemmas Lean cannot generate automatically.
-/
import Compress.Flate.Impl
import Compress.Flate.Spec
import Compress.Proofs.Window
import Compress.Proofs.PrefixCodes
import Compress.Proofs.PrefixTables

namespace Compress.Proofs.FlateRefine
open Compress Compress.Flate Compress.Prefix

/-- the error `flate.Reader` ends with, for each verdict of the specification. -/
def verr : Verdict → Impl.FErr
  | .ok _ => .eof
  | .corrupt => .corrupted
  | .unexpectedEOF => .unexpectedEOF

/-- (symbol, length) pairs of the used symbols (length ≠ 0) of a length vector,
    in symbol order; the first symbol is `off`. -/
def codesFrom : Nat → List Nat → List Code
  | _, [] => []
  | off, l :: ls =>
    if l = 0 then codesFrom (off + 1) ls
    else { sym := off, len := l } :: codesFrom (off + 1) ls

/-- the codes `ReadPrefixCodes` hands to `GeneratePrefixes` for a length vector. -/
def codesOf (lens : List Nat) : List Code := codesFrom 0 lens

/-- one symbol read: the model's `readSymbol` result against the specification's.
    `m` = number of symbols of the alphabet; a symbol `≥ m` on the model side is
    the poison symbol of a one-code tree. -/
def SymRel (m : Nat) (r : Impl.M (Nat × Bits)) : Sym → Prop
  | .sym s rest => r = .ok (s, rest) ∧ s < m
  | .eof => r = .error .unexpectedEOF
  | .invalid => r = .error .corrupted ∨ ∃ s rest, r = .ok (s, rest) ∧ m ≤ s

/-- a model decoder and a specification table decode every stream alike. -/
def TreeRel (m : Nat) (d : Decoder) (t : HuffTab) : Prop :=
  ∀ bits : Bits, SymRel m (Impl.readSymbol d bits) (t.decode bits)

/-- **Component 1 (Huffman trees).** `mkTree` accepts exactly the length vectors
    the specification calls valid, and the resulting decoders agree. -/
def TreeEquiv : Prop :=
  ∀ (lens : List Nat) (m : Nat), lens.length ≤ m → (∀ l ∈ lens, l ≤ 15) →
    ((⟨lens.toArray⟩ : Huff).valid = false → Impl.mkTree (codesOf lens) m = .error .corrupted) ∧
    ((⟨lens.toArray⟩ : Huff).valid = true →
      ∃ d, Impl.mkTree (codesOf lens) m = .ok d ∧ TreeRel m d (⟨lens.toArray⟩ : Huff).tab)

/-- **Component 1b (fixed trees).** -/
def FixedEquiv : Prop :=
  TreeRel 288 Impl.fixedLit Flate.fixedLit.tab ∧ TreeRel 32 Impl.fixedDist Flate.fixedDist.tab

/-- **Component 2 (dynamic block header).** -/
def HeaderEquiv : Prop :=
  ∀ bits : Bits,
    match Flate.readDynamic bits with
    | .error v => Impl.readPrefixCodes bits = .error (verr v)
    | .ok (lit, dist, rest) =>
      rest.length ≤ bits.length ∧
      ∃ lt dt, Impl.readPrefixCodes bits = .ok (lt, dt, rest) ∧
        TreeRel 286 lt lit.tab ∧ TreeRel 30 dt dist.tab

/-- **Component 5 (Read loop), hypotheses.** What the Read loop needs to know about
    the step machine: `J s del` is an invariant of the reader state `s` at `Read`
    boundaries, `del` the bytes delivered so far; `full`/`ferr` the whole output
    and the final error. -/
structure StepSys (J : Impl.FState → List UInt8 → Prop) (full : List UInt8) (ferr : Impl.FErr) : Prop where
  step : ∀ s del, J s del → s.toRead = [] → s.err = none → J (Impl.stepOnce s) del
  deliver : ∀ s del k, J s del →
    J { s with toRead := s.toRead.drop k, outOff := s.outOff + (s.toRead.take k).length }
      (del ++ s.toRead.take k)
  pref : ∀ s del, J s del → (del ++ s.toRead).length ≤ full.length
  fin : ∀ s del e, J s del → s.err = some e → e = ferr ∧ del ++ s.toRead = full
  progress : ∀ s del, J s del → s.toRead = [] → s.err = none →
    (Impl.stepOnce s).toRead ≠ [] ∨ (Impl.stepOnce s).err ≠ none ∨
      (Impl.stepOnce s).bits.length < s.bits.length
  total : ∀ s del, J s del → s.bits.length ≤ s.total

/-! ### the specification's symbol decoder consumes at least one bit -/

theorem decodeAux_suffix (t : HuffTab) : ∀ (fuel len code first index : Nat) (bits : Bits) (s : Nat)
    (rest : Bits), t.decodeAux fuel len code first index bits = .sym s rest →
    ∃ p, p ≠ [] ∧ bits = p ++ rest := by
  intro fuel
  induction fuel with
  | zero => intro len code first index bits s rest h; simp [HuffTab.decodeAux] at h
  | succ fuel ih =>
    intro len code first index bits s rest h
    rw [HuffTab.decodeAux.eq_def] at h
    cases bits with
    | nil =>
      simp only at h
      split at h <;> cases h
    | cons b r =>
      simp only at h
      by_cases c1 : code + (if b then 1 else 0) < first + t.count.getD len 0
      · rw [if_pos c1] at h
        split at h
        · cases h
          exact ⟨[b], by simp, rfl⟩
        · cases h
      · rw [if_neg c1] at h
        by_cases c2 : index + t.count.getD len 0 ≥ t.sorted.size
        · rw [if_pos c2] at h; cases h
        · rw [if_neg c2] at h
          obtain ⟨p, _, hp⟩ := ih _ _ _ _ _ _ _ h
          exact ⟨b :: p, by simp, by rw [hp]; rfl⟩

theorem decode_suffix (t : HuffTab) (bits : Bits) (s : Nat) (rest : Bits)
    (h : t.decode bits = .sym s rest) : ∃ p, p ≠ [] ∧ bits = p ++ rest :=
  decodeAux_suffix t _ _ _ _ _ _ _ _ h

theorem decode_length_lt (t : HuffTab) (bits : Bits) (s : Nat) (rest : Bits)
    (h : t.decode bits = .sym s rest) : rest.length < bits.length := by
  obtain ⟨p, hp, rfl⟩ := decode_suffix t bits s rest h
  have : 0 < p.length := List.length_pos_iff.mpr hp
  simp only [List.length_append]; omega

/-! ### one-step equations -/

theorem inflateBlock_zero (lit dist : HuffTab) (out : Array UInt8) (bits : Bits) :
    inflateBlock lit dist 0 out bits = (out, .error .corrupt) := by
  conv => lhs; whnf

set_option maxRecDepth 4000 in
theorem inflateBlock_succ (lit dist : HuffTab) (fuel : Nat) (out : Array UInt8) (bits : Bits) :
    inflateBlock lit dist (fuel+1) out bits =
      match lit.decode bits with
      | .eof => (out, .error .unexpectedEOF)
      | .invalid => (out, .error .corrupt)
      | .sym s rest =>
        if s < 256 then inflateBlock lit dist fuel (out.push (UInt8.ofNat s)) rest
        else if s = 256 then (out, .ok rest)
        else if s ≥ 286 then (out, .error .corrupt)
        else
          match takeBits (lenExtra.getD (s - 257) 0) rest with
          | none => (out, .error .unexpectedEOF)
          | some (le, r1) =>
            let len := lenBase.getD (s - 257) 0 + le
            match dist.decode r1 with
            | .eof => (out, .error .unexpectedEOF)
            | .invalid => (out, .error .corrupt)
            | .sym ds r2 =>
              if ds ≥ 30 then (out, .error .corrupt)
              else
                match takeBits (distExtra.getD ds 0) r2 with
                | none => (out, .error .unexpectedEOF)
                | some (de, r3) =>
                  let d := distBase.getD ds 0 + de
                  if d > min out.size maxHist then (out, .error .corrupt)
                  else inflateBlock lit dist fuel (copyBack out d len) r3 := by
  conv => lhs; whnf
  rfl

open Compress.Flate.Impl in
theorem readBlock_zero (s : FState) : readBlock 0 s = (s, some .corrupted) := by
  conv => lhs; whnf

open Compress.Flate.Impl in
set_option maxRecDepth 8000 in
theorem readBlock_succ (fuel : Nat) (s : FState) :
    readBlock (fuel+1) s =
      if s.inCopy then
        let (d1, n) :=
          let (dt, nt) := s.dict.tryWriteCopy s.dist s.cpyLen
          if nt = 0 then s.dict.writeCopy s.dist s.cpyLen else (dt, nt)
        let s := { s with dict := d1, cpyLen := s.cpyLen - n }
        if s.cpyLen > 0 then
          let (d, fl) := s.dict.readFlush
          ({ s with dict := d, toRead := fl, step := .block, inCopy := true }, none)
        else readBlock fuel { s with inCopy := false }
      else
        if s.dict.availSize = 0 then
          let (d, fl) := s.dict.readFlush
          ({ s with dict := d, toRead := fl, step := .block, inCopy := false }, none)
        else
          match readSymbol s.litTree s.bits with
          | .error e => (s, some e)
          | .ok (sym, b1) =>
            if sym < 256 then readBlock fuel { s with bits := b1, dict := s.dict.writeByte (UInt8.ofNat sym) }
            else if sym = 256 then (finishBlock { s with bits := b1, inCopy := false }, none)
            else if sym < 286 then
              match readBits (Impl.lenExtra.getD (sym - 257) 0) b1 with
              | .error e => ({ s with bits := b1 }, some e)
              | .ok (le, b2) =>
                let cpy := Impl.lenBase.getD (sym - 257) 0 + le
                match readSymbol s.distTree b2 with
                | .error e => ({ s with bits := b2 }, some e)
                | .ok (ds, b3) =>
                  if ds ≥ 30 then ({ s with bits := b3 }, some .corrupted)
                  else
                    match readBits (Impl.distExtra.getD ds 0) b3 with
                    | .error e => ({ s with bits := b3 }, some e)
                    | .ok (de, b4) =>
                      let dist := Impl.distBase.getD ds 0 + de
                      if dist > s.dict.histSize then ({ s with bits := b4 }, some .corrupted)
                      else readBlock fuel { s with bits := b4, cpyLen := cpy, dist := dist, inCopy := true }
            else ({ s with bits := b1 }, some .corrupted) := by
  conv => lhs; whnf
  rfl

end Compress.Proofs.FlateRefine
