/-
S4 for Peek-capable sources: the refill loop of `PullBits` with look-ahead bits,
`Flush`/`Discard` bookkeeping and adversarial `Buffered()` answers.
-/
import Compress.Proofs.BitIOAgree
import Compress.Proofs.BitIOWriter

namespace Compress.Proofs.BitIO
open Compress Compress.Prefix

/-- Representation invariant.  `D` is the whole input, `P` the number of stream
    bits consumed, `off` the number of source bytes discarded, `E` the stream
    byte index where the counted bits of the bit buffer end, `db` the pending
    discard count in bits (`discardBits + fedBits - numBits`). -/
structure LInv (D : List UInt8) (big : Bool) (P off E : Nat) (db : Int) (r : BR) : Prop where
  mode : r.src.buffered? = true
  nofail : r.src.failAfter = none
  hbig : r.bigEndian = big
  data : r.src.data = D.drop off
  pos : (P : Int) = 8 * off + db
  hE : P + r.numBits = 8 * E
  offE : off ≤ E
  EleD : E + r.bufPeek.length ≤ D.length
  peek : r.bufPeek = (D.drop E).take r.bufPeek.length
  peeked : E - off + r.bufPeek.length ≤ r.src.peeked
  nb64 : r.numBits ≤ 64
  dbl : -8 < db
  agree : Agree r.bufBits (le64 big D / 2 ^ P) r.numBits

/-- ORing in `j` peeked bytes and counting `c ≤ j` of them. -/
theorem refill_inv {D : List UInt8} {big : Bool} {P off E : Nat} {db : Int} {r : BR}
    (h : LInv D big P off E db r) (j c : Nat) (hcj : c ≤ j) (hj : j ≤ r.bufPeek.length)
    (h64 : r.numBits + 8 * c ≤ 64) (r' : BR) (hsrc : r'.src = r.src) (hb : r'.bigEndian = r.bigEndian)
    (hbb : r'.bufBits = (r.bufBits ||| (le64 r.bigEndian (r.bufPeek.take j) * 2 ^ r.numBits)) % two64)
    (hnb : r'.numBits = r.numBits + c * 8) (hbp : r'.bufPeek = r.bufPeek.drop c) :
    LInv D big P off (E + c) db r' := by
  obtain ⟨h1, h2, h3, h4, h5, h6, h7, h8, h9, h10, h11, hdb, h12⟩ := h
  have hlen : r'.bufPeek.length = r.bufPeek.length - c := by rw [hbp, List.length_drop]
  refine ⟨by rw [hsrc]; exact h1, by rw [hsrc]; exact h2, by rw [hb]; exact h3, by rw [hsrc]; exact h4, h5,
    by rw [hnb]; omega, by omega, by rw [hlen]; omega, ?_, by rw [hsrc, hlen]; omega, by rw [hnb]; omega, hdb, ?_⟩
  · rw [hlen, hbp]
    conv => lhs; rw [h9]
    rw [List.drop_take, List.drop_drop]
  · rw [hbb, hnb, h3, two64_eq]
    have hpk : r.bufPeek.take j = (D.drop E).take j := by
      conv => lhs; rw [h9]
      rw [List.take_take, Nat.min_eq_left hj]
    rw [hpk]
    exact agree_or _ _ _ _ (8 * j) _ h12 (refill_testBit big D P r.numBits E j h6) (by omega) (by omega)

/-! ### the loop body, split in two -/

def step1 (nb : Nat) (r : BR) : Except (BR × Option RErr) BR :=
  if r.bufPeek.isEmpty then
    let r := { r with fedBits := r.numBits }
    let (r, e) := r.flush
    match e with
    | some err => .error (r, some err)
    | none =>
      let cnt0 := (nb + 7) / 8
      let (src1, b) := r.src.bufferedAns
      let cntPeek := max cnt0 b
      let (src', pk, perr) := src1.peek cntPeek
      let r := { r with src := src' }
      if pk.length < r.numBits / 8 then .error (r, some .panic)
      else
        let bp := pk.drop (r.numBits / 8)
        if bp.isEmpty then
          if r.numBits ≥ nb then .error ({ r with bufPeek := [], fedBits := r.numBits }, none)
          else .error ({ r with bufPeek := [] },
                 some (match perr with | some .eof => .unexpectedEOF | some e => e | none => .unexpectedEOF))
        else .ok { r with bufPeek := bp }
  else .ok r

def step2 (nb fuel : Nat) (r : BR) : BR × Option RErr :=
  let n := (64 - r.numBits) / 8
  if r.bufPeek.length ≥ 8 then
    let u := le64 r.bigEndian (r.bufPeek.take 8)
    let r := { r with bufBits := (r.bufBits ||| (u * 2 ^ r.numBits)) % two64,
                      numBits := r.numBits + n * 8, bufPeek := r.bufPeek.drop n }
    ({ r with fedBits := r.numBits }, none)
  else
    let n := min n r.bufPeek.length
    let u := le64 r.bigEndian (r.bufPeek.take n)
    let r := { r with bufBits := (r.bufBits ||| (u * 2 ^ r.numBits)) % two64,
                      numBits := r.numBits + n * 8, bufPeek := r.bufPeek.drop n }
    if r.numBits > 56 then ({ r with fedBits := r.numBits }, none)
    else BR.pullLoop nb fuel r

theorem pullLoop_succ (nb fuel : Nat) (r : BR) :
    BR.pullLoop nb (fuel+1) r =
      match step1 nb r with
      | .error res => res
      | .ok r => step2 nb fuel r := rfl

/-- what `PullBits` promises. -/
def Post (D : List UInt8) (big : Bool) (P nb : Nat) (res : BR × Option RErr) : Prop :=
  (∃ r1 off1 E1, res = (r1, none) ∧ LInv D big P off1 E1 r1.discardBits r1 ∧
      r1.fedBits = r1.numBits ∧ nb ≤ r1.numBits) ∨
  (∃ r1, res = (r1, some .unexpectedEOF) ∧ 8 * D.length - P < nb)

theorem step2_spec {D : List UInt8} {big : Bool} {P off E : Nat} (nb fuel : Nat) (hnb : nb ≤ 56) (r : BR)
    (h : LInv D big P off E r.discardBits r) (hne : r.bufPeek ≠ [])
    (IH : ∀ r' off' E', LInv D big P off' E' r'.discardBits r' → r.numBits + 8 ≤ r'.numBits →
      Post D big P nb (BR.pullLoop nb fuel r')) :
    Post D big P nb (step2 nb fuel r) := by
  have hlen : 0 < r.bufPeek.length := List.length_pos_iff.mpr hne
  have h64 := h.nb64
  unfold step2
  simp only []
  by_cases h8 : r.bufPeek.length ≥ 8
  · rw [if_pos h8]
    left
    refine ⟨_, off, E + (64 - r.numBits) / 8, rfl, ?_, rfl, ?_⟩
    · exact refill_inv h 8 ((64 - r.numBits) / 8) (by omega) h8 (by omega) _ rfl rfl rfl rfl rfl
    · simp only; omega
  · rw [if_neg h8]
    by_cases h56 : r.numBits + min ((64 - r.numBits) / 8) r.bufPeek.length * 8 > 56
    · rw [if_pos h56]
      left
      refine ⟨_, off, E + min ((64 - r.numBits) / 8) r.bufPeek.length, rfl, ?_, rfl, ?_⟩
      · exact refill_inv h _ _ (Nat.le_refl _) (Nat.min_le_right _ _) (by omega) _ rfl rfl rfl rfl rfl
      · simp only; omega
    · rw [if_neg h56]
      apply IH _ off (E + min ((64 - r.numBits) / 8) r.bufPeek.length)
      · exact refill_inv h _ _ (Nat.le_refl _) (Nat.min_le_right _ _) (by omega) _ rfl rfl rfl rfl rfl
      · simp only; omega

/-- the `Flush` inside the loop never fails and leaves `-8 < discardBits ≤ 0`. -/
theorem flush_loop {D : List UInt8} {big : Bool} {P off E : Nat} (r : BR)
    (h : LInv D big P off E r.discardBits r) (hbp : r.bufPeek = []) :
    ∃ rf off', ({ r with fedBits := r.numBits } : BR).flush = (rf, none) ∧
      LInv D big P off' E rf.discardBits rf ∧ rf.numBits = r.numBits ∧ rf.bufPeek = [] ∧
      -8 < rf.discardBits ∧ rf.discardBits ≤ 0 := by
  obtain ⟨h1, h2, h3, h4, h5, h6, h7, h8, h9, h10, h11, hdb, h12⟩ := h
  rcases r with ⟨offset, bb, nbits, bg, bp, dbits, fb, src⟩
  simp only at h1 h2 h3 h4 h5 h6 h7 h8 h9 h10 h11 h12 hbp hdb
  subst hbp
  simp only [List.length_nil, Nat.add_zero] at h8 h10
  have hnd : ((dbits + ((nbits : Int) - nbits) + 7) / 8).toNat ≤ src.data.length := by
    rw [h4, List.length_drop]; omega
  unfold BR.flush
  simp only [h1, Bool.not_true, Bool.false_eq_true, if_false]
  rw [discard_ok src h2 _ hnd]
  simp only []
  refine ⟨_, off + ((dbits + ((nbits : Int) - nbits) + 7) / 8).toNat, rfl, ?_, rfl, rfl, ?_, ?_⟩
  · refine ⟨h1, consume_nofail _ _ h2, h3, ?_, ?_, h6, ?_, ?_, ?_, ?_, h11, ?_, h12⟩
    · simp only [consume_data, h4, List.drop_drop]
    · first | omega | (simp only; omega)
    · first | omega | (simp only; omega)
    · simpa using h8
    · simp
    · simp only [consume_peeked, List.length_nil]; omega
    · first | omega | (simp only; omega)
  · first | omega | (simp only; omega)
  · first | omega | (simp only; omega)

theorem take_length_self {α} (l : List α) (m : Nat) : l.take (l.take m).length = l.take m := by
  rw [List.length_take]
  by_cases h : m ≤ l.length
  · rw [Nat.min_eq_left h]
  · rw [Nat.min_eq_right (by omega), List.take_of_length_le (Nat.le_refl _), List.take_of_length_le (by omega)]

theorem step1_spec {D : List UInt8} {big : Bool} {P off E : Nat} (nb : Nat) (hnb : nb ≤ 56) (r : BR)
    (h : LInv D big P off E r.discardBits r) :
    (∃ r2 off2, step1 nb r = .ok r2 ∧ LInv D big P off2 E r2.discardBits r2 ∧ r2.bufPeek ≠ [] ∧
        r2.numBits = r.numBits) ∨
    (∃ r2 off2, step1 nb r = .error (r2, none) ∧ LInv D big P off2 E r2.discardBits r2 ∧
        r2.fedBits = r2.numBits ∧ nb ≤ r2.numBits) ∨
    (∃ r2, step1 nb r = .error (r2, some .unexpectedEOF) ∧ 8 * D.length - P < nb) := by
  unfold step1
  by_cases hbp : r.bufPeek.isEmpty
  · rw [if_pos hbp]
    obtain ⟨rf, off', hfl, hI, hnbf, hbpf, hd1, hd2⟩ := flush_loop r h (List.isEmpty_iff.mp hbp)
    simp only []
    rw [hfl]
    simp only []
    obtain ⟨ba1, ba2⟩ := bufferedAns_spec rf.src hI.nofail
    rcases hba : rf.src.bufferedAns with ⟨src1, b⟩
    rw [hba] at ba1 ba2
    simp only at ba1 ba2
    subst ba1
    simp only []
    obtain ⟨p1, p2, p3, p4, p5, p6, p7⟩ := peek_spec rf.src hI.nofail (max ((nb + 7) / 8) b)
    rcases hpk : rf.src.peek (max ((nb + 7) / 8) b) with ⟨src', pk, perr⟩
    rw [hpk] at p1 p2 p3 p4 p5 p6 p7
    simp only at p1 p2 p3 p4 p5 p6 p7
    simp only []
    obtain ⟨i1, i2, i3, i4, i5, i6, i7, i8, i9, i10, i11, i12, i13⟩ := hI
    rw [hbpf] at i8 i10
    simp only [List.length_nil, Nat.add_zero] at i8 i10
    have hdl : rf.src.data.length = D.length - off' := by rw [i4, List.length_drop]
    have hq : rf.numBits / 8 = E - off' := by omega
    have hpl : pk.length = min (max ((nb + 7) / 8) b) (D.length - off') := by
      rw [p4, List.length_take, hdl]
    have hge : E - off' ≤ pk.length := by rw [hpl]; omega
    rw [if_neg (by omega), hq]
    have hbpe : pk.drop (E - off') = (D.drop E).take (max ((nb + 7) / 8) b - (E - off')) := by
      rw [p4, i4, List.drop_take, List.drop_drop]
      congr 2; omega
    by_cases hemp : (pk.drop (E - off')).isEmpty
    · rw [if_pos hemp]
      have hl0 : (pk.drop (E - off')).length = 0 := by
        rw [List.isEmpty_iff.mp hemp]; rfl
      rw [List.length_drop] at hl0
      by_cases hnn : rf.numBits ≥ nb
      · rw [if_pos hnn]
        right; left
        refine ⟨_, off', rfl, ⟨p3.trans i1, p2, i3, p1.trans i4, i5, i6, i7, by simpa using i8, by simp, ?_,
          i11, i12, i13⟩, rfl, hnn⟩
        simp only [List.length_nil]; omega
      · rw [if_neg hnn]
        right; right
        have hperr : perr = none ∨ perr = some .eof := by
          rcases p7 with p7 | ⟨p7, _⟩
          · exact Or.inl p7
          · exact Or.inr p7
        clear p7
        rcases hperr with rfl | rfl
        · exact ⟨_, rfl, by omega⟩
        · exact ⟨_, rfl, by omega⟩
    · rw [if_neg hemp]
      left
      have hne : pk.drop (E - off') ≠ [] := fun hc => hemp (by rw [hc]; rfl)
      refine ⟨_, off', rfl, ⟨p3.trans i1, p2, i3, p1.trans i4, i5, i6, i7, ?_, ?_, ?_, i11, i12, i13⟩,
        hne, hnbf⟩
      · simp only [List.length_drop]; omega
      · simp only
        conv => lhs; rw [hbpe]
        rw [hbpe, take_length_self]
      · simp only [List.length_drop]; omega
  · rw [if_neg hbp]
    left
    exact ⟨r, off, rfl, h, fun hc => hbp (by rw [hc]; rfl), rfl⟩

/-- the loop: fuel `12` is never exhausted because every further round adds a byte. -/
theorem pullLoop_spec {D : List UInt8} {big : Bool} {P : Nat} (nb : Nat) (hnb : nb ≤ 56) :
    ∀ (fuel : Nat) (r : BR) (off E : Nat), LInv D big P off E r.discardBits r →
      72 ≤ 8 * fuel + r.numBits → Post D big P nb (BR.pullLoop nb fuel r)
  | 0, r, off, E, h, hf => by
    have := h.nb64
    omega
  | fuel+1, r, off, E, h, hf => by
    rw [pullLoop_succ]
    rcases step1_spec nb hnb r h with ⟨r2, off2, e, hI, hne, hnum⟩ | ⟨r2, off2, e, hI, hfed, hge⟩ | ⟨r2, e, hlt⟩
    · rw [e]
      simp only []
      apply step2_spec nb fuel hnb r2 hI hne
      intro r' off' E' hI' hgrow
      exact pullLoop_spec nb hnb fuel r' off' E' hI' (by omega)
    · rw [e]
      exact Or.inl ⟨r2, off2, E, rfl, hI, hfed, hge⟩
    · rw [e]
      exact Or.inr ⟨r2, rfl, hlt⟩

/-- the invariant between calls. -/
def Inv (D : List UInt8) (big : Bool) (P : Nat) (r : BR) : Prop :=
  ∃ off E, LInv D big P off E (r.discardBits + ((r.fedBits : Int) - r.numBits)) r

def BufRel (r : BR) (V L : Nat) : Prop :=
  ∃ D big P, Inv D big P r ∧ V = le64 big D / 2 ^ P ∧ L = 8 * D.length - P

theorem linv_congr {D : List UInt8} {big : Bool} {P off E : Nat} {db db' : Int} {r : BR}
    (h : LInv D big P off E db r) (e : db = db') : LInv D big P off E db' r := e ▸ h

theorem bufRel_pull (r : BR) (V L n : Nat) (hI : BufRel r V L) (hn : n ≤ 56) :
    (∃ r1, r.pullBits n = (r1, none) ∧ BufRel r1 V L ∧ n ≤ r1.numBits) ∨
    (∃ r1, r.pullBits n = (r1, some .unexpectedEOF) ∧ L < n) := by
  obtain ⟨D, big, P, ⟨off, E, h⟩, rfl, rfl⟩ := hI
  have e : r.pullBits n = BR.pullLoop n 12
      { r with discardBits := r.discardBits + ((r.fedBits : Int) - r.numBits), fedBits := r.numBits } := by
    simp [BR.pullBits, h.mode]
  rw [e]
  have h0 : LInv D big P off E (r.discardBits + ((r.fedBits : Int) - r.numBits))
      { r with discardBits := r.discardBits + ((r.fedBits : Int) - r.numBits), fedBits := r.numBits } := by
    obtain ⟨h1, h2, h3, h4, h5, h6, h7, h8, h9, h10, h11, h12, h13⟩ := h
    exact ⟨h1, h2, h3, h4, h5, h6, h7, h8, h9, h10, h11, h12, h13⟩
  rcases pullLoop_spec n hn 12
      { r with discardBits := r.discardBits + ((r.fedBits : Int) - r.numBits), fedBits := r.numBits }
      off E h0 (by simp only; omega) with ⟨r1, off1, E1, e1, hI1, hfed, hge⟩ | ⟨r1, e1, hlt⟩
  · left
    refine ⟨r1, e1, ⟨D, big, P, ⟨off1, E1, linv_congr hI1 ?_⟩, rfl, rfl⟩, hge⟩
    rw [hfed]; omega
  · right
    exact ⟨r1, e1, hlt⟩

theorem bufRel_cons (r : BR) (V L n : Nat) (hI : BufRel r V L) (hn : n ≤ r.numBits) :
    n ≤ L ∧ r.bufBits % 2 ^ n = V % 2 ^ n ∧
    BufRel { r with bufBits := r.bufBits / 2 ^ n, numBits := r.numBits - n } (V / 2 ^ n) (L - n) := by
  obtain ⟨D, big, P, ⟨off, E, h⟩, rfl, rfl⟩ := hI
  obtain ⟨h1, h2, h3, h4, h5, h6, h7, h8, h9, h10, h11, h12, h13⟩ := h
  obtain ⟨a1, a2⟩ := agree_cons _ _ _ n h13 hn
  refine ⟨by omega, a1, D, big, P + n, ⟨off, E, ?_⟩, ?_, by omega⟩
  · refine ⟨h1, h2, h3, h4, ?_, ?_, h7, h8, h9, h10, ?_, ?_, ?_⟩
    · simp only; omega
    · simp only; omega
    · simp only; omega
    · simp only; omega
    · simp only
      rw [Nat.pow_add, ← Nat.div_div_eq_div_mul]
      exact a2
  · rw [Nat.pow_add, ← Nat.div_div_eq_div_mul]

theorem reader_refines_buffered (data : List UInt8) (big : Bool) (adv : List Nat) (ns : List Nat)
    (hn : ∀ n ∈ ns, n ≤ 56) :
    readScript (BR.init { data := data, bufAdv := adv, buffered? := true } big) ns =
      specReadScript (streamBits big data) ns := by
  rw [specReadScript_eq, toNat_streamBits, length_streamBits]
  refine readScript_of_inv BufRel bufRel_pull bufRel_cons ns _ _ _ ⟨data, big, 0, ⟨0, 0, ?_⟩, ?_, ?_⟩ hn
  · refine ⟨rfl, rfl, rfl, rfl, ?_, ?_, Nat.le_refl _, ?_, ?_, ?_, ?_, ?_, ?_, ?_⟩ <;> simp [BR.init]
  · simp
  · simp

end Compress.Proofs.BitIO
