/-
bzip2 cut: the block loop `readBlocks` of one stream under a cut of the input.
-/
import Compress.Proofs.BzCutBlock
import Compress.Proofs.BzCutNoOk

namespace Compress.Proofs.BzCut
open Compress Compress.Bzip2

/-- one item of a stream: a block (`some blk`) or the end marker (`none`), with its CRC. -/
def itemP (level : Nat) : Parser (Option (Array UInt8) × Nat) :=
  bindP (beP 48) fun magic => fun b1 =>
    if magic = endMagic then bindP (beP 32) (fun crc => liftE (.ok (none, crc))) b1
    else if magic ≠ blkMagic then .error .corrupt
    else bindP (readBlockP level) (fun x => liftE (.ok (some x.1, x.2))) b1

theorem itemP_prefixOK (level : Nat) : PrefixOK (itemP level) := by
  unfold itemP
  refine PrefixOK.bind (beP_prefixOK 48) fun _ magic _ _ => ?_
  refine PrefixOK.ite (fun _ => ?_) fun _ => ?_
  · exact PrefixOK.bind (beP_prefixOK 32) fun _ _ _ _ => liftE_prefixOK _
  · refine PrefixOK.ite (fun _ => prefixOK_error _) fun _ => ?_
    exact PrefixOK.bind (readBlockP_prefixOK level) fun _ _ _ _ => liftE_prefixOK _

theorem readBlockP_noOk (level : Nat) : NoOk (readBlockP level) := by
  unfold readBlockP
  refine NoOk.bind (beP_noOk 32) fun crc => ?_
  refine NoOk.bind (beP_noOk 1) fun rnd => ?_
  refine NoOk.ite (fun _ => noOk_error _ (by decide)) fun _ => ?_
  refine NoOk.bind (beP_noOk 24) fun ptr => ?_
  refine NoOk.bind symMapP_noOk fun dict => ?_
  refine NoOk.ite (fun _ => noOk_error _ (by decide)) fun _ => ?_
  refine NoOk.bind (beP_noOk 3) fun numTrees => ?_
  refine NoOk.ite (fun _ => noOk_error _ (by decide)) fun _ => ?_
  refine NoOk.bind (beP_noOk 15) fun numSels => ?_
  refine NoOk.bind (readSels_noOk _ _ _) fun selsM => ?_
  refine NoOk.bind (readTables_noOk _ _ _) fun tabs => ?_
  refine NoOk.bind (symsP_noOk _ _ _ _) fun syms => ?_
  refine liftE_noOk _ ?_
  split
  · simp
  · split <;> simp

theorem itemP_noOk (level : Nat) : NoOk (itemP level) := by
  unfold itemP
  refine NoOk.bind (beP_noOk 48) fun magic => ?_
  refine NoOk.ite (fun _ => ?_) fun _ => ?_
  · exact NoOk.bind (beP_noOk 32) fun _ => liftE_noOk _ (by simp)
  · refine NoOk.ite (fun _ => noOk_error _ (by decide)) fun _ => ?_
    exact NoOk.bind (readBlockP_noOk level) fun _ => liftE_noOk _ (by simp)

/-- an item is at least the 48-bit magic. -/
theorem itemP_consumes (level : Nat) (bits : Bits) (x : Option (Array UInt8) × Nat) (rest : Bits)
    (h : itemP level bits = .ok (x, rest)) : rest.length + 48 ≤ bits.length := by
  unfold itemP at h
  obtain ⟨magic, b1, e1, e2⟩ := bindP_eq_ok _ _ _ _ _ h
  have h1 : b1.length + 48 = bits.length := by
    obtain ⟨c, hc, p⟩ := beP_prefixOK 48 bits magic b1 e1
    have : c.length = 48 := by
      -- a cut at 47 fails, a cut at c.length succeeds
      rcases Nat.lt_trichotomy c.length 48 with hlt | heq | hgt
      · have := (p c.length).2 (Nat.le_refl _)
        unfold beP readBE at this
        simp only [] at this
        rw [if_pos (by simp only [List.length_take]; omega)] at this
        simp at this
      · exact heq
      · have := (p 48).1 hgt
        unfold beP readBE at this
        simp only [] at this
        rw [if_neg (by
          have : 48 < bits.length := by rw [hc, List.length_append]; omega
          simp only [List.length_take]; omega)] at this
        simp at this
    rw [hc, List.length_append, this]; omega
  have h2 : rest.length ≤ b1.length := by
    split at e2
    · exact (PrefixOK.bind (beP_prefixOK 32) fun _ _ _ _ => liftE_prefixOK _).length_le e2
    · split at e2
      · cases e2
      · exact (PrefixOK.bind (readBlockP_prefixOK level) fun _ _ _ _ => liftE_prefixOK _).length_le e2
  omega

/-- one step of `readBlocks` in terms of `itemP`. -/
def blocksStep (level fuel e : Nat) (out : Array UInt8) (bits : Bits) : Result × Option Bits :=
  match itemP level bits with
  | .error v => ({ out := out, verdict := v }, none)
  | .ok ((none, crc), b2) =>
    if crc ≠ e then ({ out := out, verdict := .corrupt }, none)
    else ({ out := out, verdict := .ok }, some (b2.drop (b2.length % 8)))
  | .ok ((some blk, crc), rest) =>
    match unrle1 blk with
    | none => ({ out := out ++ (readBlocks.rle1Partial blk).toArray, verdict := .corrupt }, none)
    | some data =>
      if blockCRC data ≠ crc then ({ out := out ++ data.toArray, verdict := .corrupt }, none)
      else readBlocks level fuel (combineCRC e crc) (out ++ data.toArray) rest

set_option linter.unusedSimpArgs false in
theorem readBlocks_succ (level fuel e : Nat) (out : Array UInt8) (bits : Bits) :
    readBlocks level (fuel + 1) e out bits = blocksStep level fuel e out bits := by
  rw [readBlocks]
  unfold blocksStep itemP
  simp only [bindP, beP, liftE, bind, Except.bind, Except.map]
  cases readBE 48 bits with
  | none => rfl
  | some x =>
    obtain ⟨magic, b1⟩ := x
    simp only [Option.elim]
    by_cases hm : magic = endMagic
    · simp only [hm, if_true]
      cases readBE 32 b1 with
      | none => rfl
      | some y =>
        obtain ⟨crc, b2⟩ := y
        rfl
    · simp only [hm, if_false]
      by_cases hb : magic ≠ blkMagic
      · simp [hb]
      · simp only [hb, if_false]
        rw [readBlock_eq]
        cases readBlockP level b1 with
        | error v => rfl
        | ok y =>
          obtain ⟨⟨blk, crc⟩, rest⟩ := y
          rfl

end Compress.Proofs.BzCut
