/-
C01 (flate refinement), component 6: the invariant `J` makes the step machine a
`StepSys`, and the initial state satisfies it.
-/
import Compress.Proofs.FlateStep
import Compress.Proofs.FlateMono

namespace Compress.Proofs.FlateRefine
open Compress Compress.Flate Compress.Prefix Compress.Window
open Compress.Proofs.Window
open Compress.Flate.Impl (FState FErr Step finishBlock readBlock stepOnce)

theorem finishS_mono (total fuel : Nat) (last : Bool) (out : Array UInt8) (rest : Bits) :
    out.size ≤ (finishS total fuel last out rest).out.size := by
  unfold finishS
  split
  · exact Nat.le_refl _
  · exact decodeBlocks_mono total fuel out rest

/-- the specification's final output extends the output at any related state. -/
theorem rel_out_le {total : Nat} {R : Result} {s : FState} {out : Array UInt8}
    (Rl : Rel total R s out) : out.size ≤ R.out.size := by
  cases hE : s.err with
  | some e => rw [(Rl.err e hE).1]; exact Nat.le_refl _
  | none =>
    cases hS : s.step with
    | header =>
      obtain ⟨_, fuel, _, hR⟩ := Rl.hdr hE hS
      rw [hR]; exact decodeBlocks_mono total fuel out s.bits
    | raw =>
      obtain ⟨_, _, fuel, _, hR⟩ := Rl.raw hE hS
      have hm := takeBytes_mono s.blkLen out s.bits
      rw [hR]
      generalize takeBytes s.blkLen out s.bits = p at hm
      obtain ⟨o, r⟩ := p
      cases r with
      | none => exact hm
      | some r => exact Nat.le_trans hm (finishS_mono _ _ _ _ _)
    | block =>
      obtain ⟨lit, dist, ml, md, fuelS, fuelD, _, _, _, _, _, _, _, hR⟩ := Rl.blk hE hS
      have h1 : out.size ≤ (specOut s out).size := by
        unfold specOut
        split
        · rw [copyBack_size]; omega
        · exact Nat.le_refl _
      have hm := inflateBlock_mono lit dist fuelS (specOut s out) s.bits
      rw [hR]
      generalize inflateBlock lit dist fuelS (specOut s out) s.bits = p at hm
      obtain ⟨o, r⟩ := p
      cases r with
      | error v => exact Nat.le_trans h1 hm
      | ok r => exact Nat.le_trans h1 (Nat.le_trans hm (finishS_mono _ _ _ _ _))

/-- the step machine with invariant `J` is a `StepSys` for the specification's result. -/
theorem stepSys (HE : HeaderEquiv) (FE : FixedEquiv) (total : Nat) (R : Result) (h8 : total % 8 = 0) :
    StepSys (J total R) R.out.toList (verr R.verdict) where
  step := by
    intro s del hJ hT hE
    rw [stepOnce_eq]
    exact (post_J total R s _ del (step_post HE FE total R h8 s del hJ hT hE)).1
  deliver := by
    intro s del k hJ
    obtain ⟨out, I, NS, Rl, hrd⟩ := hJ
    refine ⟨out, ?_, ?_, ⟨Rl.tot, Rl.len, Rl.err, Rl.hdr, Rl.raw, Rl.blk⟩, hrd⟩
    · simp only [List.append_assoc, List.take_append_drop]; exact I
    · simp only [List.append_assoc, List.take_append_drop]; exact NS
  pref := by
    intro s del hJ
    obtain ⟨out, I, _, Rl, _⟩ := hJ
    have h1 := inv_acc_le I
    have h2 := rel_out_le Rl
    simp only [Array.length_toList] at h1 ⊢
    omega
  fin := by
    intro s del e hJ he
    obtain ⟨out, I, _, Rl, hrd⟩ := hJ
    obtain ⟨h1, h2, _⟩ := Rl.err e he
    refine ⟨h2, ?_⟩
    have := I.acc_eq
    rw [hrd (by rw [he]; simp), Nat.sub_self, Nat.sub_zero, List.take_length] at this
    rw [this, h1]
  progress := by
    intro s del hJ hT hE
    rw [stepOnce_eq]
    exact (post_J total R s _ del (step_post HE FE total R h8 s del hJ hT hE)).2
  total := by
    intro s del hJ
    obtain ⟨out, _, _, Rl, _⟩ := hJ
    rw [Rl.tot]; exact Rl.len

/-- the initial state satisfies the invariant. -/
theorem J_init (bits : Bits) : J bits.length (decodeBits bits) (Impl.init bits) [] := by
  refine ⟨#[], ?_, ?_, ?_, ?_⟩
  · exact Inv.init 32768 0 (by omega)
  · intro _; right; show 0 < (Dict.init 32768 0).availSize; simp [Dict.init, Dict.availSize, initSize]
  · refine ⟨rfl, Nat.le_refl _, ?_, ?_, ?_, ?_⟩
    · intro e he; cases he
    · intro _ _; exact ⟨rfl, bits.length + 1, Nat.le_refl _, rfl⟩
    · intro _ h; cases h
    · intro _ h; cases h
  · intro h; exact absurd rfl h

end Compress.Proofs.FlateRefine
