/-
C16 (M2), part (c): RFC 1951's `readLengths` on the run-length coded symbol
bits of a meta block reads back `0` for a zero bit and `h` for a one bit.
-/
import Compress.Proofs.MetaSilentCl
import Compress.Proofs.MetaRuns

namespace Compress.Proofs.MetaSilent
open Compress Compress.Flate Compress.Meta Compress.Proofs.Meta

/-- what the proof needs of the code-length code: the four code words of Meta. -/
structure ClOK (cl : HuffTab) (h : Nat) : Prop where
  hlt : h < 16
  zero : ∀ r, cl.decode (false :: r) = .sym 0 r
  one : ∀ r, cl.decode (true :: false :: r) = .sym h r
  repLast : ∀ r, cl.decode (true :: true :: false :: r) = .sym 16 r
  repZero : ∀ r, cl.decode (true :: true :: true :: r) = .sym 18 r

theorem clTab_ok (h : Nat) (h7 : h ≤ 7) : ClOK (clTab h) h :=
  ⟨by omega, clTab_zero h, clTab_one h, clTab_repLast h, clTab_repZero h⟩

/-- code length of a symbol bit. -/
def L (h : Nat) (b : Bool) : Nat := if b then h else 0

theorem takeBits_append (l rest : Bits) : takeBits l.length (l ++ rest) = some (Bits.toNat l, rest) := by
  simp [takeBits]

theorem takeBits_ofNat (n v : Nat) (rest : Bits) :
    takeBits n (Bits.ofNat v n ++ rest) = some (v % 2 ^ n, rest) := by
  have := takeBits_append (Bits.ofNat v n) rest
  rw [length_ofNat, toNat_ofNat] at this
  exact this

theorem takeBits_ofNat_lt (n v : Nat) (rest : Bits) (h : v < 2 ^ n) :
    takeBits n (Bits.ofNat v n ++ rest) = some (v, rest) := by
  rw [takeBits_ofNat, Nat.mod_eq_of_lt h]

section
variable {cl : HuffTab} {h : Nat} (ok : ClOK cl h) (n : Nat)
include ok

theorem rl_zero (fuel : Nat) (acc : List Nat) (r : Bits) (hl : acc.length < n) :
    readLengths cl (fuel + 1) n acc (false :: r) = readLengths cl fuel n (0 :: acc) r := by
  have h1 : ¬ acc.length ≥ n := by omega
  simp only [readLengths, h1, if_false, ok.zero]
  simp

theorem rl_one (fuel : Nat) (acc : List Nat) (r : Bits) (hl : acc.length < n) :
    readLengths cl (fuel + 1) n acc (true :: false :: r) = readLengths cl fuel n (h :: acc) r := by
  have h1 : ¬ acc.length ≥ n := by omega
  have := ok.hlt
  simp only [readLengths, h1, if_false, ok.one]
  simp [this]

theorem rl_repLast (fuel : Nat) (prev : Nat) (acc : List Nat) (v : Nat) (r : Bits) (hv : v < 4)
    (hl : (prev :: acc).length + (3 + v) ≤ n) :
    readLengths cl (fuel + 1) n (prev :: acc) (true :: true :: false :: (Bits.ofNat v 2 ++ r)) =
      readLengths cl fuel n (List.replicate (3 + v) prev ++ (prev :: acc)) r := by
  have h1 : ¬ (prev :: acc).length ≥ n := by omega
  have h2 : ¬ (prev :: acc).length + (3 + v) > n := by omega
  simp only [readLengths, h1, if_false, ok.repLast, takeBits_ofNat_lt 2 v r (by omega), h2]
  simp

theorem rl_repZero (fuel : Nat) (acc : List Nat) (v : Nat) (r : Bits) (hv : v < 128)
    (hl : acc.length + (11 + v) ≤ n) :
    readLengths cl (fuel + 1) n acc (true :: true :: true :: (Bits.ofNat v 7 ++ r)) =
      readLengths cl fuel n (List.replicate (11 + v) 0 ++ acc) r := by
  have h1 : ¬ acc.length ≥ n := by omega
  have h2 : ¬ acc.length + (11 + v) > n := by omega
  simp only [readLengths, h1, if_false, ok.repZero, takeBits_ofNat_lt 7 v r (by omega), h2]
  simp

omit ok in
theorem rl_done (fuel : Nat) (acc : List Nat) (r : Bits) (hl : acc.length = n) :
    readLengths cl fuel n acc r = .ok (acc.reverse, r) := by
  cases fuel with
  | zero => rfl
  | succ f => simp [readLengths, hl]

/-- one encoded run of `cnt` equal bits is read as `cnt` equal code lengths. -/
theorem rl_run (bit : Bool) : ∀ (fuelE : Nat) (pre : Bool) (cnt fuel : Nat) (acc : List Nat) (rest : Bits),
    cnt ≤ fuelE → acc.length + cnt ≤ n → n ≤ fuel + acc.length → acc.head? = some (L h pre) →
    ∃ fuel', readLengths cl fuel n acc (encodeRun bit fuelE pre cnt ++ rest) =
        readLengths cl fuel' n (List.replicate cnt (L h bit) ++ acc) rest ∧
      n ≤ fuel' + (acc.length + cnt) := by
  intro fuelE
  induction fuelE with
  | zero =>
    intro pre cnt fuel acc rest hc _ hf _
    have : cnt = 0 := by omega
    subst this
    exact ⟨fuel, by rw [encodeRun_nil]; rfl, by omega⟩
  | succ m ih =>
    intro pre cnt fuel acc rest hc hn hf hhd
    by_cases hc0 : cnt = 0
    · subst hc0
      exact ⟨fuel, by rw [encodeRun_nil]; rfl, by omega⟩
    · obtain ⟨f, rfl⟩ : ∃ f, fuel = f + 1 := ⟨fuel - 1, by omega⟩
      -- common closing step
      have close : ∀ (k : Nat), 0 < k → k ≤ cnt →
          ∃ fuel', readLengths cl f n (List.replicate k (L h bit) ++ acc) (encodeRun bit m bit (cnt - k) ++ rest) =
            readLengths cl fuel' n (List.replicate cnt (L h bit) ++ acc) rest ∧
            n ≤ fuel' + (acc.length + cnt) := by
        intro k hk hkc
        obtain ⟨fuel', e, hfu⟩ := ih bit (cnt - k) f (List.replicate k (L h bit) ++ acc) rest (by omega)
          (by simp; omega) (by simp; omega)
          (by
            obtain ⟨j, rfl⟩ : ∃ j, k = j + 1 := ⟨k - 1, by omega⟩
            simp [List.replicate_succ])
        refine ⟨fuel', ?_, by simp at hfu; omega⟩
        rw [e, ← List.append_assoc, List.replicate_append_replicate]
        congr 3
        omega
      cases bit with
      | false =>
        simp only [L, Bool.false_eq_true, if_false] at close
        rw [encodeRun_false_succ m pre cnt hc0]
        by_cases h11 : cnt ≥ 11
        · rw [if_pos h11]
          simp only [List.cons_append, List.append_assoc]
          rw [rl_repZero ok n f acc _ _ (by omega) (by omega)]
          rw [show 11 + (min 138 cnt - 11) = min 138 cnt by omega]
          exact close (min 138 cnt) (by omega) (by omega)
        · rw [if_neg h11]
          by_cases h3 : pre = false ∧ cnt ≥ 3
          · rw [if_pos h3]
            simp only [List.cons_append, List.append_assoc]
            obtain ⟨a', rfl⟩ : ∃ a', acc = 0 :: a' := by
              cases acc with
              | nil => simp at hhd
              | cons x a' =>
                simp only [List.head?_cons, Option.some.injEq, h3.1, L] at hhd
                exact ⟨a', by rw [hhd]; rfl⟩
            rw [rl_repLast ok n f 0 a' _ _ (by omega) (by simp at hn ⊢; omega)]
            rw [show 3 + (min 6 cnt - 3) = min 6 cnt by omega]
            exact close (min 6 cnt) (by omega) (by omega)
          · rw [if_neg h3]
            simp only [List.cons_append]
            rw [rl_zero ok n f acc _ (by omega)]
            exact close 1 (by omega) (by omega)
      | true =>
        simp only [L, if_true] at close
        rw [encodeRun_true_succ m pre cnt hc0]
        by_cases h3 : pre = true ∧ cnt ≥ 3
        · rw [if_pos h3]
          simp only [List.cons_append, List.append_assoc]
          obtain ⟨a', rfl⟩ : ∃ a', acc = h :: a' := by
            cases acc with
            | nil => simp at hhd
            | cons x a' =>
              simp only [List.head?_cons, Option.some.injEq, h3.1, L] at hhd
              exact ⟨a', by rw [hhd]; rfl⟩
          rw [rl_repLast ok n f h a' _ _ (by omega) (by simp at hn ⊢; omega)]
          rw [show 3 + (min 6 cnt - 3) = min 6 cnt by omega]
          exact close (min 6 cnt) (by omega) (by omega)
        · rw [if_neg h3]
          simp only [List.cons_append]
          rw [rl_one ok n f acc _ (by omega)]
          exact close 1 (by omega) (by omega)

/-- the run-length coded body is read as the code lengths of the expanded bits. -/
theorem rl_runs : ∀ (rs : List (Bool × Nat)) (pre : Bool) (fuel : Nat) (acc : List Nat) (rest : Bits),
    acc.length + (expand rs).length ≤ n → n ≤ fuel + acc.length → acc.head? = some (L h pre) →
    ∃ fuel', readLengths cl fuel n acc (encodeRuns rs pre ++ rest) =
        readLengths cl fuel' n (((expand rs).map (L h)).reverse ++ acc) rest ∧
      n ≤ fuel' + (acc.length + (expand rs).length) := by
  intro rs
  induction rs with
  | nil =>
    intro pre fuel acc rest _ hf _
    exact ⟨fuel, by simp [encodeRuns, expand], by simpa [expand] using hf⟩
  | cons p rs ih =>
    obtain ⟨bit, cnt⟩ := p
    intro pre fuel acc rest hn hf hhd
    have hlen : (expand ((bit, cnt) :: rs)).length = cnt + (expand rs).length := by simp [expand]
    rw [hlen] at hn
    simp only [encodeRuns, List.append_assoc]
    obtain ⟨f1, e1, u1⟩ := rl_run ok n bit cnt pre cnt fuel acc (encodeRuns rs (if cnt = 0 then pre else bit) ++ rest)
      (Nat.le_refl _) (by omega) hf hhd
    obtain ⟨f2, e2, u2⟩ := ih (if cnt = 0 then pre else bit) f1 (List.replicate cnt (L h bit) ++ acc) rest
      (by simp; omega) (by simp; omega)
      (by
        by_cases hc0 : cnt = 0
        · subst hc0; simpa using hhd
        · obtain ⟨j, rfl⟩ : ∃ j, cnt = j + 1 := ⟨cnt - 1, by omega⟩
          simp [List.replicate_succ])
    refine ⟨f2, ?_, ?_⟩
    · rw [e1, e2]
      simp [expand, List.map_append, List.reverse_append, List.map_replicate]
    · rw [hlen]; simp at u2; omega

/-- `k` zero bits are `k` code words of symbol 0. -/
theorem rl_zeros : ∀ (k : Nat) (fuel : Nat) (acc : List Nat) (rest : Bits),
    acc.length + k ≤ n → n ≤ fuel + acc.length →
    ∃ fuel', readLengths cl fuel n acc (List.replicate k false ++ rest) =
        readLengths cl fuel' n (List.replicate k 0 ++ acc) rest ∧
      n ≤ fuel' + (acc.length + k) := by
  intro k
  induction k with
  | zero => intro fuel acc rest _ hf; exact ⟨fuel, rfl, by omega⟩
  | succ k ih =>
    intro fuel acc rest hn hf
    obtain ⟨f, rfl⟩ : ∃ f, fuel = f + 1 := ⟨fuel - 1, by omega⟩
    rw [show List.replicate (k + 1) false ++ rest = false :: (List.replicate k false ++ rest) by
      simp [List.replicate_succ]]
    rw [rl_zero ok n f acc _ (by omega)]
    obtain ⟨f2, e2, u2⟩ := ih f (0 :: acc) rest (by simp; omega) (by simp; omega)
    refine ⟨f2, ?_, by simp at u2; omega⟩
    rw [e2, List.replicate_succ', List.append_assoc]
    rfl

/-- **all code lengths of a meta block**: first literal (the header's trailing
    zero bit), the run-length coded body, the pads and the empty distance tree. -/
theorem rl_block (t : Bits) (pads : Nat) (rest : Bits) (ht : t.length = 256) :
    readLengths cl (258 + pads + 1) (258 + pads) []
        ([false] ++ (encodeRuns (runs t) false ++ (List.replicate pads false ++ ([false] ++ rest)))) =
      .ok ((false :: t).map (L h) ++ List.replicate (pads + 1) 0, rest) := by
  have hexp := expand_runs t
  simp only [List.cons_append, List.nil_append]
  rw [rl_zero ok _ _ [] _ (by simp; omega)]
  obtain ⟨f1, e1, u1⟩ := rl_runs ok (258 + pads) (runs t) false (258 + pads) [0]
    (List.replicate pads false ++ (false :: rest)) (by rw [hexp, ht]; simp; omega) (by simp) (by simp [L])
  rw [hexp] at e1 u1
  rw [e1]
  have e : List.replicate pads false ++ (false :: rest) = List.replicate (pads + 1) false ++ rest := by
    rw [List.replicate_succ']; simp
  rw [e]
  obtain ⟨f2, e2, u2⟩ := rl_zeros ok (258 + pads) (pads + 1) f1 ((t.map (L h)).reverse ++ [0]) rest
    (by simp [ht]; omega) (by simp [ht] at u1 ⊢; omega)
  rw [e2, rl_done]
  · simp [L]
  · simp [ht]; omega

end

end Compress.Proofs.MetaSilent
