/-
Bit-level agreement of the reader's bit buffer (with look-ahead bits) with the
remaining stream, and the `Source` operations without faults.
-/
import Compress.Proofs.BitIOReaderByte

namespace Compress.Proofs.BitIO
open Compress Compress.Prefix

/-- the low `k` bits of `b` are those of `R`, and every set bit of `b` is set in `R`. -/
structure Agree (b R k : Nat) : Prop where
  low : ∀ i, i < k → b.testBit i = R.testBit i
  sub : ∀ i, b.testBit i = true → R.testBit i = true

theorem agree_or (b R k u m k' : Nat) (h : Agree b R k)
    (hu : ∀ i, u.testBit i = (decide (k ≤ i ∧ i < k + m) && R.testBit i))
    (hk : k' ≤ k + m) (hk64 : k' ≤ 64) : Agree ((b ||| u) % 2 ^ 64) R k' := by
  constructor
  · intro i hi
    rw [Nat.testBit_mod_two_pow, Nat.testBit_or, hu i]
    have h64 : i < 64 := by omega
    simp only [h64, decide_true, Bool.true_and]
    by_cases hik : i < k
    · rw [h.low i hik]
      have : ¬ (k ≤ i ∧ i < k + m) := by omega
      simp [this]
    · have hin : k ≤ i ∧ i < k + m := by omega
      simp only [hin, and_self, decide_true, Bool.true_and]
      have := h.sub i
      cases hb : b.testBit i <;> cases hR : R.testBit i <;> simp_all
  · intro i hi
    rw [Nat.testBit_mod_two_pow, Nat.testBit_or, hu i] at hi
    have := h.sub i
    cases hb : b.testBit i <;> cases hR : R.testBit i <;> simp_all

theorem agree_cons (b R k n : Nat) (h : Agree b R k) (hn : n ≤ k) :
    b % 2 ^ n = R % 2 ^ n ∧ Agree (b / 2 ^ n) (R / 2 ^ n) (k - n) := by
  refine ⟨?_, ?_, ?_⟩
  · apply Nat.eq_of_testBit_eq
    intro i
    rw [Nat.testBit_mod_two_pow, Nat.testBit_mod_two_pow]
    by_cases hi : i < n
    · rw [h.low i (by omega)]
    · simp [hi]
  · intro i hi
    rw [Nat.testBit_div_two_pow, Nat.testBit_div_two_pow]
    exact h.low _ (by omega)
  · intro i hi
    rw [Nat.testBit_div_two_pow] at hi ⊢
    exact h.sub _ hi

/-- the bits a refill ORs in: `j` bytes starting at stream byte `E`. -/
theorem refill_testBit (big : Bool) (D : List UInt8) (P k E j : Nat) (hE : P + k = 8 * E) (i : Nat) :
    (le64 big ((D.drop E).take j) * 2 ^ k).testBit i =
      (decide (k ≤ i ∧ i < k + 8 * j) && (le64 big D / 2 ^ P).testBit i) := by
  rw [(le64_take_drop big (D.drop E) j).1, (le64_take_drop big D E).2, Nat.testBit_mul_two_pow,
    Nat.testBit_mod_two_pow, Nat.testBit_div_two_pow, Nat.testBit_div_two_pow]
  by_cases hki : k ≤ i
  · have e : i - k + 8 * E = i + P := by omega
    rw [e]
    by_cases h2 : i - k < 8 * j
    · have : k ≤ i ∧ i < k + 8 * j := by omega
      simp [hki, h2, this]
    · have : ¬ (k ≤ i ∧ i < k + 8 * j) := by omega
      simp [h2, this]
  · simp [hki]

/-! ### the source without faults -/

theorem consume_data (s : Source) (n : Nat) : (s.consume n).data = s.data.drop n := rfl
theorem consume_peeked (s : Source) (n : Nat) : (s.consume n).peeked = s.peeked - n := rfl
theorem consume_mode (s : Source) (n : Nat) : (s.consume n).buffered? = s.buffered? := rfl
theorem consume_nofail (s : Source) (n : Nat) (h : s.failAfter = none) : (s.consume n).failAfter = none := by
  simp [Source.consume, h]

theorem avail_eq (s : Source) (h : s.failAfter = none) : s.avail = s.data.length := by
  simp [Source.avail, h]

theorem discard_ok (s : Source) (h : s.failAfter = none) (n : Nat) (hn : n ≤ s.data.length) :
    s.discard n = (s.consume n, n, none) := by
  simp [Source.discard, avail_eq s h, hn]

theorem bufferedAns_spec (s : Source) (h : s.failAfter = none) :
    s.bufferedAns.1 = s ∧ min s.data.length s.peeked ≤ s.bufferedAns.2 := by
  unfold Source.bufferedAns
  rw [avail_eq s h]
  cases s.bufAdv with
  | nil => exact ⟨rfl, by simp only; omega⟩
  | cons a _ => exact ⟨rfl, by simp only; omega⟩

theorem peek_spec (s : Source) (h : s.failAfter = none) (c : Nat) :
    (s.peek c).1.data = s.data ∧ (s.peek c).1.failAfter = none ∧ (s.peek c).1.buffered? = s.buffered? ∧
    (s.peek c).2.1 = s.data.take c ∧ min c s.data.length ≤ (s.peek c).1.peeked ∧
    s.peeked ≤ (s.peek c).1.peeked ∧
    ((s.peek c).2.2 = none ∨ ((s.peek c).2.2 = some .eof ∧ s.data.length < c)) := by
  unfold Source.peek
  rw [avail_eq s h]
  by_cases hc : c ≤ s.data.length
  · rw [if_pos hc]
    refine ⟨rfl, h, rfl, rfl, ?_, ?_, Or.inl rfl⟩ <;> simp only <;> omega
  · rw [if_neg hc]
    refine ⟨rfl, h, rfl, ?_, ?_, ?_, Or.inr ⟨?_, by omega⟩⟩
    · simp only
      rw [List.take_of_length_le (Nat.le_refl _), List.take_of_length_le (by omega)]
    · simp only; omega
    · simp only; omega
    · simp [Source.shortErr, h]

end Compress.Proofs.BitIO
