/-
bzip2.Writer (API-level model): what a failing sink has received is a prefix of
what a never-failing sink receives for the same calls, and until the sink
refuses bytes the run is the fault-free run.
-/
import Compress.Bzip2.WriterApi
import Compress.Proofs.BzWApiBits
import Compress.Proofs.BzWApiLatch
import Compress.Proofs.BzWApiCount

namespace Compress.Proofs.BzWApi
open Compress Compress.Bzip2 Compress.XFlate

/-! ### the fault-free twin -/

def unbK (k : Sink) : Sink := { k with budget := none }
def unbW (w : BitW) : BitW := { w with sink := unbK w.sink }

/-- same writer, but the sink never fails -/
def unb (s : BzW) : BzW := { s with bw := { s.bw with sink := { s.bw.sink with budget := none } } }

theorem unb_eq (s : BzW) : unb s = { s with bw := unbW s.bw } := rfl

/-- a sink that refuses every further byte. -/
def Dead (k : Sink) : Prop := k.budget = some 0 ∧ k.forever = true

/-- what every operation does to a sink: the `forever` flag stays, `failed` is
    monotone, a dead sink stays dead and takes nothing. -/
structure Quiet (a b : Sink) : Prop where
  forever : b.forever = a.forever
  failed  : a.failed = true → b.failed = true
  dead    : Dead a → Dead b ∧ b.got = a.got

theorem Quiet.refl (a : Sink) : Quiet a a := ⟨rfl, fun h => h, fun h => ⟨h, rfl⟩⟩

theorem Quiet.trans {a b c : Sink} (h1 : Quiet a b) (h2 : Quiet b c) : Quiet a c :=
  ⟨h2.forever.trans h1.forever, fun h => h2.failed (h1.failed h), fun h => by
    obtain ⟨d1, g1⟩ := h1.dead h
    obtain ⟨d2, g2⟩ := h2.dead d1
    exact ⟨d2, g2.trans g1⟩⟩

/-- the failing sink `a` against its fault-free twin `a'`: if it keeps failing it
    is dead and holds a prefix of what the twin holds. -/
def Behind (a a' : Sink) : Prop := a.forever = true → Dead a ∧ a.got <+: a'.got

theorem Behind.step {a a' b b' : Sink} (h : Behind a a') (hq : Quiet a b)
    (hg : ∃ suf, b'.got = a'.got ++ suf) : Behind b b' := by
  intro hf
  have hfa : a.forever = true := by rw [← hq.forever]; exact hf
  obtain ⟨hd, hp⟩ := h hfa
  obtain ⟨hd', hgot⟩ := hq.dead hd
  obtain ⟨suf, hs⟩ := hg
  refine ⟨hd', ?_⟩
  rw [hgot, hs]
  exact hp.trans (List.prefix_append _ _)

/-! ### the sink -/

theorem Sink.write_quiet (s : Sink) (b : List UInt8) : Quiet s (s.write b).1 := by
  rcases s with ⟨got, budget, mode, forever, tag, failed⟩
  cases budget with
  | none => refine ⟨?_, ?_, ?_⟩ <;> simp [Sink.write, Dead]
  | some k =>
    by_cases hk : b.length ≤ k
    · refine ⟨?_, ?_, ?_⟩
      · simp [Sink.write, hk]
      · simp [Sink.write, hk]
      · rintro ⟨h1, h2⟩
        simp only [Option.some.injEq] at h1
        subst h1
        have hb : b = [] := List.length_eq_zero_iff.1 (by omega)
        subst hb
        simp [Sink.write, Dead, h2]
    · refine ⟨?_, ?_, ?_⟩
      · simp [Sink.write, hk]
      · simp [Sink.write, hk]
      · rintro ⟨h1, h2⟩
        simp only [Option.some.injEq] at h1
        subst h1
        simp only at h2
        subst h2
        cases mode <;> simp [Sink.write, Dead, hk]

/-- a write without error is the write on the fault-free twin. -/
theorem Sink.write_unb_ok (s : Sink) (b : List UInt8) (h : (s.write b).2.2 = none) :
    (unbK s).write b = (unbK (s.write b).1, (s.write b).2.1, none) := by
  rcases s with ⟨got, budget, mode, forever, tag, failed⟩
  cases budget with
  | none => simp [Sink.write, unbK]
  | some k =>
    by_cases hk : b.length ≤ k
    · simp [Sink.write, unbK, hk]
    · simp [Sink.write, hk] at h

/-- the write that fails: a prefix of the bytes arrives, and a `forever` sink is dead. -/
theorem Sink.write_behind (s : Sink) (b : List UInt8) (h : (s.write b).2.2 ≠ none) :
    Behind (s.write b).1 ((unbK s).write b).1 := by
  rcases s with ⟨got, budget, mode, forever, tag, failed⟩
  cases budget with
  | none => simp [Sink.write] at h
  | some k =>
    by_cases hk : b.length ≤ k
    · simp [Sink.write, hk] at h
    · intro hf
      simp only [Sink.write, hk, if_false] at hf
      subst hf
      refine ⟨by simp [Sink.write, hk, Dead], ?_⟩
      simp only [Sink.write, hk, if_false, unbK]
      exact (List.prefix_append_right_inj _).2 (List.take_prefix _ _)

/-! ### the bit writer -/

/-- `r` then `g`, stopping at an error. -/
def bindW (r : BitW × Option Err) (g : BitW → BitW × Option Err) : BitW × Option Err :=
  match r.2 with
  | some e => (r.1, some e)
  | none => g r.1

theorem bindW_ok {r : BitW × Option Err} {g : BitW → BitW × Option Err} (h : r.2 = none) :
    bindW r g = g r.1 := by
  simp [bindW, h]

theorem bindW_err {r : BitW × Option Err} {g : BitW → BitW × Option Err} {e : Err} (h : r.2 = some e) :
    bindW r g = (r.1, some e) := by
  simp [bindW, h]

theorem pushBits_bind (w : BitW) :
    w.pushBits = if w.stage.length ≥ stageLimit then bindW w.emitStage (fun v => (pack v, none))
      else (pack w, none) := by
  rw [pushBits_eq]; rfl

theorem pushField_bind (w : BitW) (f : Bits) :
    w.pushField f = bindW w.pushBits (fun v => ({ v with bits := v.bits ++ f }, none)) := rfl

theorem writeFields_bind (w : BitW) (f : Field) (fs : List Field) :
    w.writeFields (f :: fs) = bindW (w.writeField f) (fun v => v.writeFields fs) := by
  rw [writeFields_cons]; rfl

theorem flush_bind (w : BitW) :
    w.flush = if w.bits.length < 8 ∧ w.stage.isEmpty then (w, none) else bindW w.pushBits BitW.emitStage := rfl

theorem bindW_quiet {w : BitW} {r : BitW × Option Err} {g : BitW → BitW × Option Err}
    (h1 : Quiet w.sink r.1.sink) (h2 : ∀ v, Quiet v.sink (g v).1.sink) : Quiet w.sink (bindW r g).1.sink := by
  cases he : r.2 with
  | some e => rw [bindW_err he]; exact h1
  | none => rw [bindW_ok he]; exact h1.trans (h2 _)

theorem emitStage_quiet (w : BitW) : Quiet w.sink w.emitStage.1.sink := Sink.write_quiet _ _

theorem pushBits_quiet (w : BitW) : Quiet w.sink w.pushBits.1.sink := by
  rw [pushBits_bind]
  split
  · exact bindW_quiet (emitStage_quiet w) (fun v => Quiet.refl _)
  · exact Quiet.refl _

theorem pushField_quiet (w : BitW) (f : Bits) : Quiet w.sink (w.pushField f).1.sink := by
  rw [pushField_bind]
  exact bindW_quiet (pushBits_quiet w) (fun v => Quiet.refl _)

theorem writeField_quiet (w : BitW) (f : Field) : Quiet w.sink (w.writeField f).1.sink := by
  obtain ⟨b, k⟩ := f
  cases k with
  | push => exact pushField_quiet w b
  | «try» =>
    simp only [BitW.writeField]
    split
    · exact pushField_quiet w b
    · exact Quiet.refl _
  | pad => exact Quiet.refl _

theorem writeFields_quiet (w : BitW) (fs : List Field) : Quiet w.sink (w.writeFields fs).1.sink := by
  induction fs generalizing w with
  | nil => exact Quiet.refl _
  | cons f fs ih =>
    rw [writeFields_bind]
    exact bindW_quiet (writeField_quiet w f) (fun v => ih v)

theorem flush_quiet (w : BitW) : Quiet w.sink w.flush.1.sink := by
  rw [flush_bind]
  split
  · exact Quiet.refl _
  · exact bindW_quiet (pushBits_quiet w) emitStage_quiet

/-- an operation of the bit writer (`r`) against the same operation on the
    fault-free twin (`r'`): without error they agree; with an error the failing
    side is behind. -/
def Sim (r r' : BitW × Option Err) : Prop :=
  (r.2 = none ∧ r' = (unbW r.1, none)) ∨ (r.2 ≠ none ∧ Behind r.1.sink r'.1.sink)

theorem Sim.pure (v v' : BitW) (h : v' = unbW v) : Sim (v, none) (v', none) := Or.inl ⟨rfl, by rw [h]⟩

theorem bindW_got {r : BitW × Option Err} {g : BitW → BitW × Option Err}
    (hgot : ∀ v, ∃ suf, (g v).1.sink.got = v.sink.got ++ suf) :
    ∃ suf, (bindW r g).1.sink.got = r.1.sink.got ++ suf := by
  cases he : r.2 with
  | some e => rw [bindW_err he]; exact ⟨[], by simp⟩
  | none => rw [bindW_ok he]; exact hgot _

theorem Sim.bind {r r' : BitW × Option Err} {g : BitW → BitW × Option Err} (h : Sim r r')
    (hg : ∀ v, Sim (g v) (g (unbW v))) (hgot : ∀ v, ∃ suf, (g v).1.sink.got = v.sink.got ++ suf) :
    Sim (bindW r g) (bindW r' g) := by
  rcases h with ⟨h1, h2⟩ | ⟨h1, h2⟩
  · rw [bindW_ok h1, h2, bindW_ok rfl]
    exact hg _
  · obtain ⟨e, he⟩ := Option.ne_none_iff_exists'.mp h1
    rw [bindW_err he]
    exact Or.inr ⟨by simp, h2.step (Quiet.refl _) (bindW_got hgot)⟩

theorem emitStage_sim (w : BitW) : Sim w.emitStage (unbW w).emitStage := by
  cases he : w.emitStage.2 with
  | none =>
    refine Or.inl ⟨he, ?_⟩
    have h := Sink.write_unb_ok w.sink w.stage he
    simp only [BitW.emitStage, unbW] at h ⊢
    rw [h]
  | some e =>
    refine Or.inr ⟨by simp [he], ?_⟩
    have he' : (w.sink.write w.stage).2.2 = some e := he
    exact Sink.write_behind w.sink w.stage (by rw [he']; simp)

theorem pushBits_sim (w : BitW) : Sim w.pushBits (unbW w).pushBits := by
  rw [pushBits_bind, pushBits_bind]
  by_cases hs : w.stage.length ≥ stageLimit
  · have hs' : (unbW w).stage.length ≥ stageLimit := hs
    rw [if_pos hs, if_pos hs']
    exact (emitStage_sim w).bind (fun v => Sim.pure _ _ rfl) (fun v => ⟨[], by simp [pack]⟩)
  · have hs' : ¬ (unbW w).stage.length ≥ stageLimit := hs
    rw [if_neg hs, if_neg hs']
    exact Sim.pure _ _ rfl

theorem pushField_sim (w : BitW) (f : Bits) : Sim (w.pushField f) ((unbW w).pushField f) := by
  rw [pushField_bind, pushField_bind]
  exact (pushBits_sim w).bind (fun v => Sim.pure _ _ rfl) (fun v => ⟨[], by simp⟩)

theorem writeField_sim (w : BitW) (f : Field) : Sim (w.writeField f) ((unbW w).writeField f) := by
  obtain ⟨b, k⟩ := f
  cases k with
  | push => exact pushField_sim w b
  | «try» =>
    simp only [BitW.writeField]
    by_cases hc : 64 - w.bits.length < b.length
    · have hc' : 64 - (unbW w).bits.length < b.length := hc
      rw [if_pos hc, if_pos hc']
      exact pushField_sim w b
    · have hc' : ¬ 64 - (unbW w).bits.length < b.length := hc
      rw [if_neg hc, if_neg hc']
      exact Sim.pure _ _ rfl
  | pad => exact Sim.pure _ _ rfl

theorem writeFields_sim (w : BitW) (fs : List Field) : Sim (w.writeFields fs) ((unbW w).writeFields fs) := by
  induction fs generalizing w with
  | nil => exact Sim.pure _ _ rfl
  | cons f fs ih =>
    rw [writeFields_bind, writeFields_bind]
    exact (writeField_sim w f).bind (fun v => ih v) (fun v => writeFields_got v fs)

theorem flush_sim (w : BitW) : Sim w.flush (unbW w).flush := by
  rw [flush_bind, flush_bind]
  by_cases hc : w.bits.length < 8 ∧ w.stage.isEmpty
  · have hc' : (unbW w).bits.length < 8 ∧ (unbW w).stage.isEmpty := hc
    rw [if_pos hc, if_pos hc']
    exact Sim.pure _ _ rfl
  · have hc' : ¬ ((unbW w).bits.length < 8 ∧ (unbW w).stage.isEmpty) := hc
    rw [if_neg hc, if_neg hc']
    exact (pushBits_sim w).bind emitStage_sim emitStage_got


/-! ### writes and the `Flush` after them -/

/-- the bit-writer part of `BzW.script`: the flush is issued also after an error. -/
def scriptW (w : BitW) (fs : List Field) : BitW × Option Err :=
  ((w.writeFields fs).1.flush.1,
    match (w.writeFields fs).2 with
    | some e => some e
    | none => (w.writeFields fs).1.flush.2)

theorem script_eq (s : BzW) (fs : List Field) :
    s.script fs =
      { s with bw := (scriptW { s.bw with off := s.outOff } fs).1,
               outOff := (scriptW { s.bw with off := s.outOff } fs).1.off, wrHdr := true,
               err := (scriptW { s.bw with off := s.outOff } fs).2 } := rfl

theorem scriptW_quiet (w : BitW) (fs : List Field) : Quiet w.sink (scriptW w fs).1.sink :=
  (writeFields_quiet w fs).trans (flush_quiet _)

theorem scriptW_got (w : BitW) (fs : List Field) : ∃ suf, (scriptW w fs).1.sink.got = w.sink.got ++ suf := by
  obtain ⟨a, ha⟩ := writeFields_got w fs
  obtain ⟨b, hb⟩ := flush_got (w.writeFields fs).1
  exact ⟨a ++ b, by simp only [scriptW]; rw [hb, ha, List.append_assoc]⟩

theorem scriptW_sim (w : BitW) (fs : List Field) : Sim (scriptW w fs) (scriptW (unbW w) fs) := by
  have hf := flush_sim (w.writeFields fs).1
  rcases writeFields_sim w fs with ⟨h1, h2⟩ | ⟨h1, h2⟩
  · have e1 : scriptW w fs = (w.writeFields fs).1.flush := by simp only [scriptW, h1]
    have e2 : scriptW (unbW w) fs = (unbW (w.writeFields fs).1).flush := by simp only [scriptW, h2]
    rw [e1, e2]
    exact hf
  · obtain ⟨e, he⟩ := Option.ne_none_iff_exists'.mp h1
    refine Or.inr ⟨by simp [scriptW, he], ?_⟩
    exact h2.step (flush_quiet _) (flush_got _)

/-! ### the Writer -/

@[simp] theorem unb_rle (s : BzW) : (unb s).rle = s.rle := rfl
@[simp] theorem unb_raw (s : BzW) : (unb s).raw = s.raw := rfl
@[simp] theorem unb_wrHdr (s : BzW) : (unb s).wrHdr = s.wrHdr := rfl
@[simp] theorem unb_level (s : BzW) : (unb s).level = s.level := rfl
@[simp] theorem unb_endCRC (s : BzW) : (unb s).endCRC = s.endCRC := rfl
@[simp] theorem unb_err (s : BzW) : (unb s).err = s.err := rfl
@[simp] theorem unb_done (s : BzW) : (unb s).done = s.done := rfl

/-- a state against the state of the fault-free twin: the same until the sink
    has refused bytes, behind afterwards. -/
def SimS (t t' : BzW) : Prop :=
  (t.bw.sink.failed = false ∧ t' = unb t) ∨ (t.bw.sink.failed = true ∧ Behind t.bw.sink t'.bw.sink)

/-- the same for a call with a result. -/
def SimP {α : Type} (r r' : BzW × α) : Prop :=
  (r.1.bw.sink.failed = false ∧ r' = (unb r.1, r.2)) ∨
    (r.1.bw.sink.failed = true ∧ Behind r.1.bw.sink r'.1.bw.sink)

theorem SimP.of_behind {α : Type} {X X' : BzW} {L R : BzW × α} (h1 : X.bw.sink.failed = true)
    (h2 : Behind X.bw.sink X'.bw.sink) (hq : Quiet X.bw.sink L.1.bw.sink)
    (hg : ∃ suf, R.1.bw.sink.got = X'.bw.sink.got ++ suf) : SimP L R :=
  Or.inr ⟨hq.failed h1, h2.step hq hg⟩

theorem script_quiet (s : BzW) (fs : List Field) : Quiet s.bw.sink (s.script fs).bw.sink :=
  scriptW_quiet { s.bw with off := s.outOff } fs

theorem script_sim (s : BzW) (hf : s.bw.sink.failed = false) (fs : List Field) :
    SimS (s.script fs) ((unb s).script fs) := by
  have hfl := script_failed s fs
  rcases scriptW_sim { s.bw with off := s.outOff } fs with ⟨h1, h2⟩ | ⟨h1, h2⟩
  · have he : (s.script fs).err = none := h1
    refine Or.inl ⟨by rw [hfl, hf, he]; rfl, ?_⟩
    have e : (unb s).script fs =
        { unb s with bw := (scriptW (unbW { s.bw with off := s.outOff }) fs).1,
                     outOff := (scriptW (unbW { s.bw with off := s.outOff }) fs).1.off, wrHdr := true,
                     err := (scriptW (unbW { s.bw with off := s.outOff }) fs).2 } := rfl
    rw [e, h2, script_eq s fs, h1]
    rfl
  · have he : (s.script fs).err ≠ none := h1
    obtain ⟨e, hee⟩ := Option.ne_none_iff_exists'.mp he
    exact Or.inr ⟨by rw [hfl, hee]; simp, h2⟩

theorem flushBlk_quiet (s : BzW) : Quiet s.bw.sink s.flushBlk.bw.sink := by
  rcases flushBlk_cases s with h | h | ⟨fs, ⟨h, _⟩ | ⟨h, _⟩⟩ <;> rw [h]
  · exact Quiet.refl _
  · exact Quiet.refl _
  · exact script_quiet s fs
  · exact script_quiet s fs

theorem flushBlk_sim (s : BzW) (hf : s.bw.sink.failed = false) : SimS s.flushBlk (unb s).flushBlk := by
  unfold BzW.flushBlk
  by_cases h0 : s.rle.out.size = 0
  · have h0' : (unb s).rle.out.size = 0 := h0
    rw [if_pos h0, if_pos h0']
    exact Or.inl ⟨hf, rfl⟩
  · have h0' : ¬ (unb s).rle.out.size = 0 := h0
    rw [if_neg h0, if_neg h0']
    have hb' : encodeBlockF (unb s).rle.out.toList (blockCRC (unb s).raw)
        = encodeBlockF s.rle.out.toList (blockCRC s.raw) := rfl
    rw [hb']
    cases hb : encodeBlockF s.rle.out.toList (blockCRC s.raw) with
    | none => exact Or.inl ⟨hf, rfl⟩
    | some bf =>
      simp only []
      have hfs : ((if (unb s).wrHdr = true then [] else hdrFields (unb s).level) ++ bf)
          = ((if s.wrHdr = true then [] else hdrFields s.level) ++ bf) := rfl
      rw [hfs]
      generalize (if s.wrHdr = true then [] else hdrFields s.level) ++ bf = fs
      rcases script_sim s hf fs with ⟨h1, h2⟩ | ⟨h1, h2⟩
      · rw [h2]
        by_cases he : (s.script fs).err ≠ none
        · have he' : (unb (s.script fs)).err ≠ none := he
          rw [if_pos he, if_pos he']
          exact Or.inl ⟨h1, rfl⟩
        · have he' : ¬ (unb (s.script fs)).err ≠ none := he
          rw [if_neg he, if_neg he']
          exact Or.inl ⟨h1, rfl⟩
      · split <;> split <;> exact Or.inr ⟨h1, h2⟩

/-- the RLE1 stage takes what it can of `d`. -/
def feed (s : BzW) (d : List UInt8) : BzW :=
  { s with rle := (RleW.write s.rle d 0).1, raw := s.raw ++ d.take (RleW.write s.rle d 0).2 }

def rest (s : BzW) (d : List UInt8) : List UInt8 := d.drop (RleW.write s.rle d 0).2

theorem writeLoop_succ (fuel : Nat) (s : BzW) (d : List UInt8) :
    BzW.writeLoop (fuel+1) s d =
      if (rest s d).isEmpty then (feed s d, true)
      else if (feed s d).flushBlk.err ≠ none then ((feed s d).flushBlk, false)
      else BzW.writeLoop fuel (feed s d).flushBlk (rest s d) := by
  rw [BzW.writeLoop]; rfl

theorem writeLoop_quiet : ∀ (fuel : Nat) (s : BzW) (d : List UInt8),
    Quiet s.bw.sink (BzW.writeLoop fuel s d).1.bw.sink
  | 0, s, d => Quiet.refl _
  | fuel+1, s, d => by
    rw [writeLoop_succ]
    have h0 : Quiet s.bw.sink (feed s d).flushBlk.bw.sink := flushBlk_quiet (feed s d)
    split
    · exact Quiet.refl _
    · split
      · exact h0
      · exact h0.trans (writeLoop_quiet fuel _ _)

theorem writeLoop_sim : ∀ (fuel : Nat) (s : BzW) (d : List UInt8), s.bw.sink.failed = false →
    SimP (BzW.writeLoop fuel s d) (BzW.writeLoop fuel (unb s) d)
  | 0, s, d, hf => Or.inl ⟨hf, rfl⟩
  | fuel+1, s, d, hf => by
    rw [writeLoop_succ, writeLoop_succ]
    have e1 : feed (unb s) d = unb (feed s d) := rfl
    have e2 : rest (unb s) d = rest s d := rfl
    rw [e1, e2]
    by_cases hr : (rest s d).isEmpty
    · rw [if_pos hr, if_pos hr]
      exact Or.inl ⟨hf, rfl⟩
    · rw [if_neg hr, if_neg hr]
      rcases flushBlk_sim (feed s d) hf with ⟨h1, h2⟩ | ⟨h1, h2⟩
      · rw [h2]
        by_cases he : (feed s d).flushBlk.err ≠ none
        · have he' : (unb (feed s d).flushBlk).err ≠ none := he
          rw [if_pos he, if_pos he']
          exact Or.inl ⟨h1, rfl⟩
        · have he' : ¬ (unb (feed s d).flushBlk).err ≠ none := he
          rw [if_neg he, if_neg he']
          exact writeLoop_sim fuel _ _ h1
      · refine SimP.of_behind h1 h2 ?_ ?_
        · split
          · exact Quiet.refl _
          · exact writeLoop_quiet fuel _ _
        · split
          · exact ⟨[], by simp⟩
          · exact (writeLoop_frame fuel _ _).got

theorem write_quiet (s : BzW) (d : List UInt8) : Quiet s.bw.sink (s.write d).1.bw.sink := by
  unfold BzW.write
  by_cases he : s.err ≠ none
  · rw [if_pos he]; exact Quiet.refl _
  · rw [if_neg he]
    simp only []
    split
    · exact writeLoop_quiet (d.length + 2) s d
    · exact writeLoop_quiet (d.length + 2) s d

theorem write_sim (s : BzW) (hf : s.bw.sink.failed = false) (d : List UInt8) :
    SimP (s.write d) ((unb s).write d) := by
  unfold BzW.write
  by_cases he : s.err ≠ none
  · have he' : (unb s).err ≠ none := he
    rw [if_pos he, if_pos he']
    exact Or.inl ⟨hf, rfl⟩
  · have he' : ¬ (unb s).err ≠ none := he
    rw [if_neg he, if_neg he']
    simp only []
    rcases writeLoop_sim (d.length + 2) s d hf with ⟨h1, h2⟩ | ⟨h1, h2⟩
    · rw [h2]
      simp only []
      cases hok : (BzW.writeLoop (d.length + 2) s d).2 with
      | true => exact Or.inl ⟨h1, rfl⟩
      | false => exact Or.inl ⟨h1, rfl⟩
    · refine SimP.of_behind h1 h2 ?_ ?_
      · split <;> exact Quiet.refl _
      · split <;> exact ⟨[], by simp⟩

theorem close_quiet (s : BzW) : Quiet s.bw.sink (s.close).1.bw.sink := by
  rw [close_eq]
  have h1 := flushBlk_quiet s
  have h2 := h1.trans (script_quiet s.flushBlk (closeFields s.flushBlk))
  split
  · exact Quiet.refl _
  · split
    · exact Quiet.refl _
    · split
      · exact h1
      · split
        · exact h2
        · exact h2

theorem close_sim (s : BzW) (hf : s.bw.sink.failed = false) : SimP s.close (unb s).close := by
  rw [close_eq s, close_eq (unb s)]
  by_cases hd : s.done = true
  · have hd' : (unb s).done = true := hd
    rw [if_pos hd, if_pos hd']
    exact Or.inl ⟨hf, rfl⟩
  · have hd' : ¬ (unb s).done = true := hd
    rw [if_neg hd, if_neg hd']
    by_cases he : s.err ≠ none
    · have he' : (unb s).err ≠ none := he
      rw [if_pos he, if_pos he']
      exact Or.inl ⟨hf, rfl⟩
    · have he' : ¬ (unb s).err ≠ none := he
      rw [if_neg he, if_neg he']
      rcases flushBlk_sim s hf with ⟨h1, h2⟩ | ⟨h1, h2⟩
      · rw [h2]
        by_cases hb : s.flushBlk.err ≠ none
        · have hb' : (unb s.flushBlk).err ≠ none := hb
          rw [if_pos hb, if_pos hb']
          exact Or.inl ⟨h1, rfl⟩
        · have hb' : ¬ (unb s.flushBlk).err ≠ none := hb
          rw [if_neg hb, if_neg hb']
          have ec : closeFields (unb s.flushBlk) = closeFields s.flushBlk := rfl
          rw [ec]
          generalize closeFields s.flushBlk = fs
          rcases script_sim s.flushBlk h1 fs with ⟨k1, k2⟩ | ⟨k1, k2⟩
          · rw [k2]
            by_cases hc : (s.flushBlk.script fs).err ≠ none
            · have hc' : (unb (s.flushBlk.script fs)).err ≠ none := hc
              rw [if_pos hc, if_pos hc']
              exact Or.inl ⟨k1, rfl⟩
            · have hc' : ¬ (unb (s.flushBlk.script fs)).err ≠ none := hc
              rw [if_neg hc, if_neg hc']
              exact Or.inl ⟨k1, rfl⟩
          · refine SimP.of_behind k1 k2 ?_ ?_
            · split <;> exact Quiet.refl _
            · split <;> exact ⟨[], by simp⟩
      · refine SimP.of_behind h1 h2 ?_ ?_
        · split
          · exact Quiet.refl _
          · split
            · exact script_quiet _ _
            · exact script_quiet _ _
        · split
          · exact ⟨[], by simp⟩
          · split
            · exact (script_frame _ _).got
            · exact (script_frame _ _).got

theorem step_quiet (s : BzW) (op : BzOp) (h : op.noReset) : Quiet s.bw.sink (s.step op).1.bw.sink := by
  cases op with
  | write d => exact write_quiet s d
  | close => exact close_quiet s
  | reset sk => exact absurd h (by simp [BzOp.noReset])

theorem step_sim (s : BzW) (hf : s.bw.sink.failed = false) (op : BzOp) (h : op.noReset) :
    SimP (s.step op) ((unb s).step op) := by
  cases op with
  | write d =>
    simp only [BzW.step]
    rcases write_sim s hf d with ⟨h1, h2⟩ | ⟨h1, h2⟩
    · rw [h2]; exact Or.inl ⟨h1, rfl⟩
    · exact Or.inr ⟨h1, h2⟩
  | close =>
    simp only [BzW.step]
    rcases close_sim s hf with ⟨h1, h2⟩ | ⟨h1, h2⟩
    · rw [h2]; exact Or.inl ⟨h1, rfl⟩
    · exact Or.inr ⟨h1, h2⟩
  | reset sk => exact absurd h (by simp [BzOp.noReset])

theorem run_quiet : ∀ (ops : List BzOp) (s : BzW), (∀ op ∈ ops, op.noReset) →
    Quiet s.bw.sink (BzW.run s ops).1.bw.sink
  | [], s, _ => Quiet.refl _
  | op :: ops, s, hn => by
    rw [BzW.run]
    exact (step_quiet s op (hn op (by simp))).trans
      (run_quiet ops _ (fun o ho => hn o (by simp [ho])))

theorem run_sim : ∀ (ops : List BzOp) (s : BzW), s.bw.sink.failed = false → (∀ op ∈ ops, op.noReset) →
    SimP (BzW.run s ops) (BzW.run (unb s) ops)
  | [], s, hf, _ => Or.inl ⟨hf, rfl⟩
  | op :: ops, s, hf, hn => by
    have hn' : ∀ o ∈ ops, o.noReset := fun o ho => hn o (by simp [ho])
    rw [BzW.run, BzW.run]
    rcases step_sim s hf op (hn op (by simp)) with ⟨h1, h2⟩ | ⟨h1, h2⟩
    · rw [h2]
      rcases run_sim ops (s.step op).1 h1 hn' with ⟨k1, k2⟩ | ⟨k1, k2⟩
      · simp only []
        rw [k2]
        exact Or.inl ⟨k1, rfl⟩
      · exact Or.inr ⟨k1, k2⟩
    · exact SimP.of_behind h1 h2 (run_quiet ops _ hn') (run_append_only ops _ hn')

/-- **as long as the sink has not refused anything the run is the fault-free run**:
    same results, same state, same bytes in the sink. -/
theorem sink_same_until_failure (s : BzW) (hf : s.bw.sink.failed = false) (ops : List BzOp)
    (hn : ∀ op ∈ ops, op.noReset) :
    (BzW.run s ops).1.bw.sink.failed = false →
      unb (BzW.run s ops).1 = (BzW.run (unb s) ops).1 ∧ (BzW.run s ops).2 = (BzW.run (unb s) ops).2 := by
  intro h
  rcases run_sim ops s hf hn with ⟨_, h2⟩ | ⟨h1, _⟩
  · rw [h2]; exact ⟨rfl, rfl⟩
  · rw [h] at h1; cases h1

/-- **a sink that fails and keeps failing holds a prefix of what the never-failing
    sink receives** for the same calls. -/
theorem sink_prefix (s : BzW) (hf : s.bw.sink.failed = false) (hfor : s.bw.sink.forever = true)
    (ops : List BzOp) (hn : ∀ op ∈ ops, op.noReset) :
    (BzW.run s ops).1.bw.sink.got <+: (BzW.run (unb s) ops).1.bw.sink.got := by
  rcases run_sim ops s hf hn with ⟨_, h2⟩ | ⟨_, h2⟩
  · rw [h2]; exact List.prefix_refl _
  · exact (h2 (by rw [(run_quiet ops s hn).forever]; exact hfor)).2

end Compress.Proofs.BzWApi
