/-
Header, footer and composition lemmas for one meta block (C16).
-/
import Compress.Proofs.MetaRuns

namespace Compress.Proofs.Meta
open Compress Compress.Meta

theorem magic_table : ∀ fs, fs < 2 → ∀ k, k < 8 → ∀ pads, pads < 8 →
    (magicVals + fs + (2 * k) * 8192 + pads * 8 < 4294967296 ∧
     (magicVals + fs + (2 * k) * 8192 + pads * 8) &&& magicMask = magicVals ∧
     (magicVals + fs + (2 * k) * 8192 + pads * 8) % 2 = fs ∧
     (magicVals + fs + (2 * k) * 8192 + pads * 8) / 8 % 8 = pads ∧
     (magicVals + fs + (2 * k) * 8192 + pads * 8) / 8192 % 16 = 2 * k) := by
  decide

def hclensBits (h : Nat) : Bits :=
  (List.replicate (4 + (8 - h) * 2 - 1 - 5) (Bits.ofNat 0 3)).flatten ++ Bits.ofNat 2 3 ++ [false]

def bodyBits (buf : List UInt8) (final : FinalMode) (h : Nat) (inv : Bool) : Bits :=
  encodeRuns (runs (symbolBits buf h (final ≠ .fnil) inv).tail) false

def padsOf (buf : List UInt8) (final : FinalMode) (h : Nat) (inv : Bool) : Nat :=
  (8 - (32 + (hclensBits h).length + (bodyBits buf final h inv).length + 1 + h) % 8) % 8

def magicOf (final : FinalMode) (h pads : Nat) : Nat :=
  magicVals + (if final = .fstream then 1 else 0) + (4 + (8 - h) * 2 - 4) * 2 ^ 13 + pads * 8

def blockBits (buf : List UInt8) (final : FinalMode) (h : Nat) (inv : Bool) : Bits :=
  Bits.ofNat (magicOf final h (padsOf buf final h inv)) 32 ++ hclensBits h ++ bodyBits buf final h inv ++
    List.replicate (padsOf buf final h inv) false ++ [false] ++ Bits.ofNat (2 ^ h - 1) h

theorem encodeBlock_eq (buf : List UInt8) (final : FinalMode) :
    encodeBlock buf final =
      if (computeHuffLen (Bits.countZeros (Bits.ofBytes buf)) (Bits.countOnes (Bits.ofBytes buf))).1 = 0 then none
      else some (blockBits buf final
        (computeHuffLen (Bits.countZeros (Bits.ofBytes buf)) (Bits.countOnes (Bits.ofBytes buf))).1
        (computeHuffLen (Bits.countZeros (Bits.ofBytes buf)) (Bits.countOnes (Bits.ofBytes buf))).2) := by
  rfl

theorem padsOf_lt (buf : List UInt8) (final : FinalMode) (h : Nat) (inv : Bool) : padsOf buf final h inv < 8 := by
  unfold padsOf; omega

theorem blockBits_length (buf : List UInt8) (final : FinalMode) (h : Nat) (inv : Bool) :
    (blockBits buf final h inv).length =
      32 + (hclensBits h).length + (bodyBits buf final h inv).length + padsOf buf final h inv + 1 + h := by
  simp only [blockBits, List.length_append, length_ofNat, List.length_replicate, List.length_cons, List.length_nil]

theorem blockBits_aligned (buf : List UInt8) (final : FinalMode) (h : Nat) (inv : Bool) :
    (blockBits buf final h inv).length % 8 = 0 := by
  rw [blockBits_length]
  have : padsOf buf final h inv = (8 - (32 + (hclensBits h).length + (bodyBits buf final h inv).length + 1 + h) % 8) % 8 := rfl
  omega

theorem magicOf_facts (final : FinalMode) (h pads : Nat) (h1 : 1 ≤ h) (h7 : h ≤ 7) (hp : pads < 8) :
    magicOf final h pads < 2 ^ 32 ∧ magicOf final h pads &&& magicMask = magicVals ∧
    ((magicOf final h pads % 2 == 1) = decide (final = .fstream)) ∧
    magicOf final h pads / 8 % 8 = pads ∧
    4 + magicOf final h pads / 2 ^ 13 % 16 = 4 + (8 - h) * 2 := by
  have key := magic_table (if final = .fstream then 1 else 0) (by split <;> omega) (8 - h) (by omega) pads hp
  have e : magicOf final h pads = magicVals + (if final = .fstream then 1 else 0) + (2 * (8 - h)) * 8192 + pads * 8 := by
    unfold magicOf
    have : (4 + (8 - h) * 2 - 4) = 2 * (8 - h) := by omega
    rw [this]
  rw [e]
  obtain ⟨k1, k2, k3, k4, k5⟩ := key
  refine ⟨k1, k2, ?_, k4, ?_⟩
  · rw [k3]; cases final <;> simp
  · have : (2:Nat) ^ 13 = 8192 := by decide
    rw [this, k5]; omega

theorem readEmptyHCLens_zeros : ∀ (k : Nat) (r : Bits),
    readEmptyHCLens k ((List.replicate k (Bits.ofNat 0 3)).flatten ++ r) = .ok (false, r)
  | 0, r => rfl
  | k+1, r => by
    have ih := readEmptyHCLens_zeros k r
    simp only [List.replicate_succ, List.flatten_cons, List.append_assoc, readEmptyHCLens]
    rw [readBits_ofNat_lt 3 0 _ (by omega)]
    simpa using ih

theorem readHeaderRest_ok (h : Nat) (h1 : 1 ≤ h) (h7 : h ≤ 7) (r : Bits) :
    readHeaderRest (4 + (8 - h) * 2) (hclensBits h ++ r) = .ok (false, r) := by
  have hn : ¬ (4 + (8 - h) * 2 < 6) := by omega
  simp only [readHeaderRest, hn, if_false, hclensBits, List.append_assoc]
  rw [readEmptyHCLens_zeros]
  simp only
  rw [readBits_ofNat_lt 3 2 _ (by omega)]
  simp only [ne_eq, not_true_eq_false, if_false]
  have : readBits 1 ([false] ++ r) = .ok (0, r) := readBits_ofNat_lt 1 0 r (by omega)
  rw [this]
  simp

theorem readFooter_ok (pads h total : Nat) (rest : Bits) (hal : (total - rest.length) % 8 = 0) :
    readFooter pads h total (List.replicate pads false ++ ([false] ++ (Bits.ofNat (2 ^ h - 1) h ++ rest))) = .ok ((), rest) := by
  have h2 : readBits 1 ([false] ++ (Bits.ofNat (2 ^ h - 1) h ++ rest)) = .ok (0, Bits.ofNat (2 ^ h - 1) h ++ rest) :=
    readBits_ofNat_lt 1 0 _ (by omega)
  have hpos : 0 < 2 ^ h := Nat.two_pow_pos h
  simp only [readFooter, readBits_replicate_false, h2, readBits_ofNat_lt h (2 ^ h - 1) rest (by omega)]
  simp [hal]

theorem decodeBlock_parts (bs0 bs1 bs2 bs3 bs4 : Bits) (magic : Nat) (st : SymState)
    (buf : List UInt8) (final : FinalMode)
    (h0 : bs0 ≠ []) (h1 : readBits 32 bs0 = .ok (magic, bs1))
    (h2 : magic &&& magicMask = magicVals)
    (h3 : readHeaderRest (4 + magic / 2 ^ 13 % 16) bs1 = .ok (false, bs2))
    (h4 : symLoop maxSyms {} bs2 = .ok (st, bs3))
    (h5 : interpretSyms st (8 - (4 + magic / 2 ^ 13 % 16 - 4) / 2) (magic % 2 == 1) = .ok (buf, final))
    (h6 : readFooter (magic / 8 % 8) (8 - (4 + magic / 2 ^ 13 % 16 - 4) / 2) bs0.length bs3 = .ok ((), bs4)) :
    decodeBlock bs0 = .ok { payload := buf, final := final, consumed := bs0.length - bs4.length } := by
  simp only [decodeBlock, h0, if_false, h1, h2, ne_eq, not_true_eq_false, h3, h4, h5, h6]
  simp

end Compress.Proofs.Meta
