/-
Stage lemma (c) of the bzip2 refinement: tree selectors.  The Go code reads them with the
seven-code table `decSel` (built by GeneratePrefixes + Decoder.Init) and undoes the move-to-front
coding with a 256-entry dictionary; the specification reads unary numbers and uses six entries.
-/
import Compress.Proofs.BzImplDefs
import Compress.Prefix.Spec
import Compress.Proofs.PrefixCodes
import Compress.Proofs.PrefixTables

namespace Compress.Proofs.BzImpl
open Compress Compress.Bzip2 Compress.Prefix
open Compress.Bzip2.Impl (Err M State)

/-- what `GeneratePrefixes` makes of `selCodes`. -/
def selList : List Code :=
  [{ sym := 0, len := 1, val := 0 }, { sym := 1, len := 2, val := 1 }, { sym := 2, len := 3, val := 3 },
   { sym := 3, len := 4, val := 7 }, { sym := 4, len := 5, val := 15 }, { sym := 5, len := 6, val := 31 },
   { sym := 6, len := 6, val := 63 }]

theorem selList_gp : generatePrefixes Impl.selCodes = .ok selList := by rfl

theorem decSel_eq : Impl.decSel = Decoder.init selList := by
  unfold Impl.decSel; rw [selList_gp]

theorem selCodes_valid : ValidLens Impl.selCodes := by
  unfold ValidLens; decide

theorem selList_good : Compress.Proofs.PrefixTables.GoodCodes selList := by
  have hshape := Compress.Proofs.PrefixCodes.generatePrefixes_shape _ _ selList_gp
  have hval := Compress.Proofs.PrefixCodes.generatePrefixes_val_lt _ _ selCodes_valid selList_gp
  have hpf := Compress.Proofs.PrefixCodes.generatePrefixes_prefixFree _ _ selCodes_valid selList_gp
  have hk := (Compress.Proofs.PrefixCodes.generatePrefixes_ok_iff _ selCodes_valid).mp ⟨_, selList_gp⟩
  refine ⟨by decide, by decide, hval, hpf, ?_⟩
  rw [hshape.2]; exact hk

theorem decSel_size : ¬ Impl.decSel.chunks.size = 0 := by decide

theorem decSel_word (c : Code) (hc : c ∈ selList) (rest : Bits) :
    Impl.readSymbol Impl.decSel (c.word ++ rest) = .ok (c.sym, rest) := by
  unfold Impl.readSymbol
  rw [if_neg decSel_size, decSel_eq, Compress.Proofs.PrefixTables.decoder_readSymbol _ selList_good c hc rest]

theorem decSel_short (bits : Bits) (h : Impl.decSel.readSymbol bits = none) :
    Impl.readSymbol Impl.decSel bits = .error (.unexpectedEOF, bits) := by
  unfold Impl.readSymbol
  rw [if_neg decSel_size, h]

theorem decSel_read (bits : Bits) :
    Impl.readSymbol Impl.decSel bits =
      match Bzip2.readSels.unary 6 0 bits with
      | .ok (v, rest) => .ok (v, rest)
      | .error _ => .error (.unexpectedEOF, bits) := by
  match bits with
  | [] => exact decSel_short _ (by decide)
  | [true] => exact decSel_short _ (by decide)
  | [true, true] => exact decSel_short _ (by decide)
  | [true, true, true] => exact decSel_short _ (by decide)
  | [true, true, true, true] => exact decSel_short _ (by decide)
  | [true, true, true, true, true] => exact decSel_short _ (by decide)
  | false :: rest => exact decSel_word { sym := 0, len := 1, val := 0 } (by decide) rest
  | true :: false :: rest => exact decSel_word { sym := 1, len := 2, val := 1 } (by decide) rest
  | true :: true :: false :: rest => exact decSel_word { sym := 2, len := 3, val := 3 } (by decide) rest
  | true :: true :: true :: false :: rest => exact decSel_word { sym := 3, len := 4, val := 7 } (by decide) rest
  | true :: true :: true :: true :: false :: rest =>
    exact decSel_word { sym := 4, len := 5, val := 15 } (by decide) rest
  | true :: true :: true :: true :: true :: false :: rest =>
    exact decSel_word { sym := 5, len := 6, val := 31 } (by decide) rest
  | true :: true :: true :: true :: true :: true :: rest =>
    exact decSel_word { sym := 6, len := 6, val := 63 } (by decide) rest

theorem unary_err (fuel n : Nat) (bits : Bits) (e : Verdict) :
    Bzip2.readSels.unary fuel n bits = .error e → e = .unexpectedEOF := by
  induction fuel generalizing n bits with
  | zero => intro h; simp [Bzip2.readSels.unary] at h
  | succ f ih =>
    intro h
    match bits with
    | [] => simp [Bzip2.readSels.unary] at h; exact h.symm
    | false :: rest => simp [Bzip2.readSels.unary] at h
    | true :: rest => simp only [Bzip2.readSels.unary] at h; exact ih _ _ h

theorem unary_len (fuel n : Nat) (bits : Bits) (v : Nat) (rest : Bits) :
    Bzip2.readSels.unary fuel n bits = .ok (v, rest) → rest.length ≤ bits.length := by
  induction fuel generalizing n bits with
  | zero => intro h; simp [Bzip2.readSels.unary] at h; rw [h.2]; exact Nat.le_refl _
  | succ f ih =>
    intro h
    match bits with
    | [] => simp [Bzip2.readSels.unary] at h
    | false :: rest' => simp [Bzip2.readSels.unary] at h; rw [h.2]; simp
    | true :: rest' =>
      simp only [Bzip2.readSels.unary] at h
      have := ih _ _ h
      simp only [List.length_cons]; omega

set_option linter.unusedVariables false in
theorem readSels_simx (numTrees : Nat) (h : numTrees ≤ 6) (k : Nat) (acc : List Nat) (bits : Bits) :
    SimX (Impl.readSels numTrees k acc bits) (Bzip2.readSels numTrees k acc bits) := by
  induction k generalizing acc bits with
  | zero => simp [Impl.readSels, Bzip2.readSels, SimX]
  | succ k ih =>
    simp only [Impl.readSels, Bzip2.readSels]
    rw [decSel_read]
    cases hu : Bzip2.readSels.unary 6 0 bits with
    | error e =>
      have := unary_err _ _ _ _ hu
      subst this
      simp only [SimX]
      exact ErrEq.ueof
    | ok p =>
      obtain ⟨v, rest⟩ := p
      simp only
      by_cases hv : v ≥ numTrees
      · rw [if_pos hv, if_pos hv]; simp only [SimX]; exact ErrEq.corrupt
      · rw [if_neg hv, if_neg hv]; exact ih _ _

theorem readSels_lt (numTrees k : Nat) (acc : List Nat) (bits : Bits) (sels : List Nat) (rest : Bits) :
    Impl.readSels numTrees k acc bits = .ok (sels, rest) → (∀ a ∈ acc, a < numTrees) →
    (∀ s ∈ sels, s < numTrees) ∧ rest.length ≤ bits.length := by
  induction k generalizing acc bits with
  | zero =>
    intro h ha
    simp only [Impl.readSels, Except.ok.injEq, Prod.mk.injEq] at h
    obtain ⟨h1, h2⟩ := h
    subst h1; subst h2
    exact ⟨fun s hs => ha s (List.mem_reverse.mp hs), Nat.le_refl _⟩
  | succ k ih =>
    intro h ha
    simp only [Impl.readSels] at h
    rw [decSel_read] at h
    cases hu : Bzip2.readSels.unary 6 0 bits with
    | error e => rw [hu] at h; simp at h
    | ok p =>
      obtain ⟨v, r⟩ := p
      rw [hu] at h
      simp only at h
      by_cases hv : v ≥ numTrees
      · rw [if_pos hv] at h; simp at h
      · rw [if_neg hv] at h
        have hl := unary_len _ _ _ _ _ hu
        have := ih _ _ h (by
          intro a ha'
          rcases List.mem_cons.mp ha' with rfl | h'
          · omega
          · exact ha a h')
        exact ⟨this.1, by omega⟩

theorem mtfSels_append (is : List Nat) (d tail acc : List Nat) (h : ∀ i ∈ is, i < d.length) :
    mtfSels is (d ++ tail) acc = mtfSels is d acc := by
  induction is generalizing d acc with
  | nil => simp [mtfSels]
  | cons i is ih =>
    have hi : i < d.length := h i (List.mem_cons_self ..)
    have his : ∀ j ∈ is, j < d.length := fun j hj => h j (List.mem_cons_of_mem _ hj)
    simp only [mtfSels]
    rw [List.getElem?_append_left hi, List.getElem?_eq_getElem hi]
    simp only
    have e : d[i] :: (List.take i (d ++ tail) ++ List.drop (i + 1) (d ++ tail)) =
        (d[i] :: (List.take i d ++ List.drop (i + 1) d)) ++ tail := by
      rw [List.take_append_of_le_length (Nat.le_of_lt hi), List.drop_append_of_le_length (by omega)]
      simp
    rw [e]
    apply ih
    intro j hj
    have := his j hj
    simp only [List.length_cons, List.length_append, List.length_take, List.length_drop]
    omega

theorem mtfSels_256 (is : List Nat) (h : ∀ i ∈ is, i < 6) :
    mtfSels is (List.range 256) [] = mtfSels is (List.range 6) [] := by
  have e : List.range 256 = List.range 6 ++ List.range' 6 250 := by
    rw [List.range_eq_range', List.range_eq_range']
    have := List.range'_append (s := 0) (m := 6) (n := 250) (step := 1)
    simpa using this.symm
  rw [e]
  exact mtfSels_append is _ _ _ (by simpa using h)
end Compress.Proofs.BzImpl
