/-
bzip2.Reader, API-level model (`Compress.Bzip2.ReaderApi`): the lifecycle theorems, for every
state that any sequence of Read / Close / Reset calls, over any input and any source fault, can
reach (`Inv`: the invariant `ReadOK` of the decoder model, which `Impl.init` establishes and
`Impl.read` keeps).
-/
import Compress.Bzip2.ReaderApi
import Compress.Proofs.BzImplRead
import Compress.Proofs.BzImplMain

namespace Compress.Proofs.BzReaderApi
open Compress Compress.Bzip2 Compress.Bzip2.Impl Compress.Bzip2.ReaderApi
open Compress.Proofs.BzImpl

/-- the invariant of reachable API states. -/
def Inv (r : Reader) : Prop := ReadOK r.core

theorem inv_new (src : Src) : Inv (newReader src) := readOK_init _

theorem inv_reset (r : Reader) (src : Src) : Inv (r.reset src) := readOK_init _

/-! ### Read -/

theorem read_done (r : Reader) (h : r.done = true) (n : Nat) : r.read n = (r, [], some .closed) := by
  simp [Reader.read, h]

theorem read_open (r : Reader) (h : r.done = false) (n : Nat) :
    r.read n =
      ({ r with core := (Impl.read (readFuel r.core) n r.core).1 },
       (Impl.read (readFuel r.core) n r.core).2.1,
       (Impl.read (readFuel r.core) n r.core).2.2.map (liftErr r.tag)) := by
  simp [Reader.read, h]

theorem inv_read (r : Reader) (h : Inv r) (n : Nat) : Inv (r.read n).1 := by
  by_cases hd : r.done = true
  · rw [read_done r hd]; exact h
  · have hd : r.done = false := by simpa using hd
    rw [read_open r hd]
    exact (read_spec_inv r.core h n (readFuel r.core) (Nat.le_refl _)).1

/-- a Read with an empty buffer that returns an error returns the latched one. -/
theorem read_zero_err (f : Nat) (s : State) (e : Err) (h : (Impl.read (f + 1) 0 s).2.2 = some e) :
    (Impl.read (f + 1) 0 s).1.err = some e := by
  rw [RdAux.read_succ'] at h ⊢
  simp only at h ⊢
  split
  · rename_i hl; rw [if_pos hl] at h; cases h
  · rename_i hl
    rw [if_neg hl] at h
    simp only [or_true, if_true] at h ⊢
    exact h

/-- the decoder model: an error `Read` returns comes without data, is latched, and is returned
    again, without data or change, by every later Read. -/
theorem impl_read_err (s : State) (h : ReadOK s) (n : Nat) (e : Err)
    (he : (Impl.read (readFuel s) n s).2.2 = some e) :
    (Impl.read (readFuel s) n s).2.1 = [] ∧ (Impl.read (readFuel s) n s).1.err = some e ∧
    ∀ m, Impl.read (readFuel (Impl.read (readFuel s) n s).1) m (Impl.read (readFuel s) n s).1 =
      ((Impl.read (readFuel s) n s).1, [], some e) := by
  obtain ⟨_, _, _, _, hE, _⟩ := read_spec_inv s h n (readFuel s) (Nat.le_refl _)
  obtain ⟨h1, _, h3⟩ := hE e he
  refine ⟨h1, ?_, fun m => h3 m _ (Nat.le_refl _)⟩
  have h0 := h3 0 (readFuel (Impl.read (readFuel s) n s).1) (Nat.le_refl _)
  have hz := read_zero_err ((Impl.read (readFuel s) n s).1.bits.length + 1) (Impl.read (readFuel s) n s).1 e
    (by show (Impl.read (readFuel (Impl.read (readFuel s) n s).1) 0 _).2.2 = _; rw [h0])
  have hz' : (Impl.read (readFuel (Impl.read (readFuel s) n s).1) 0 (Impl.read (readFuel s) n s).1).1.err = some e := hz
  rw [h0] at hz'
  exact hz'

/-- a reader that has failed: not closed, the error latched, and every Read returns it, without
    data or change. -/
def Stuck (r : Reader) (e : AErr) : Prop :=
  r.done = false ∧ r.err = some e ∧ ∀ m, r.read m = (r, [], some e)

/-- **the error a Read returns is latched and sticky.** -/
theorem read_sticks (r : Reader) (h : Inv r) (hd : r.done = false) (n : Nat) (e : AErr)
    (he : (r.read n).2.2 = some e) : (r.read n).2.1 = [] ∧ Stuck (r.read n).1 e ∧ (r.read n).1.tag = r.tag := by
  rw [read_open r hd] at he ⊢
  simp only at he ⊢
  cases hx : (Impl.read (readFuel r.core) n r.core).2.2 with
  | none => rw [hx] at he; cases he
  | some x =>
    rw [hx] at he
    simp only [Option.map_some, Option.some.injEq] at he
    obtain ⟨h1, h2, h3⟩ := impl_read_err r.core h n x hx
    refine ⟨h1, ⟨hd, ?_, fun m => ?_⟩, by first | rfl | trivial⟩
    · simp [Reader.err, hd, h2, he]
    · show Reader.read _ m = _
      simp only [Reader.read, hd, Bool.false_eq_true, if_false]
      rw [h3 m]
      simp [he]

/-! ### Close -/

theorem close_eq (r : Reader) :
    r.close =
      if r.err = some .eof ∨ r.done = true then
        ({ r with core := { r.core with rle := { buf := #[] } }, done := true }, none)
      else (r, r.err) := rfl

/-- Close returns nil exactly when nothing is latched, `io.EOF` is latched, or the reader is closed. -/
theorem close_nil_iff (r : Reader) :
    (r.close).2 = none ↔ (r.err = none ∨ r.err = some .eof ∨ r.done = true) := by
  rw [close_eq]
  by_cases h : r.err = some .eof ∨ r.done = true
  · rw [if_pos h]
    constructor
    · intro _; exact Or.inr h
    · intro _; rfl
  · rw [if_neg h]
    constructor
    · intro h0; exact Or.inl h0
    · rintro (h0 | h0)
      · exact h0
      · exact absurd h0 h

/-- otherwise Close returns the latched error, whatever it is (a source error verbatim), and
    changes nothing. -/
theorem close_returns_err (r : Reader) (h : (r.close).2 ≠ none) : r.close = (r, r.err) := by
  rw [close_eq] at h ⊢
  by_cases hc : r.err = some .eof ∨ r.done = true
  · rw [if_pos hc] at h; exact absurd rfl h
  · rw [if_neg hc]

/-- closed: `done`, with an empty RLE1 stage. -/
def Closed (r : Reader) : Prop := r.done = true ∧ r.core.rle = { buf := #[] }

theorem close_closes (r : Reader) (h : r.err = some .eof ∨ r.done = true) :
    (r.close).2 = none ∧ Closed (r.close).1 := by
  rw [close_eq, if_pos h]
  exact ⟨rfl, rfl, rfl⟩

theorem close_closed (r : Reader) (h : Closed r) : r.close = (r, none) := by
  rw [close_eq, if_pos (Or.inr h.1)]
  obtain ⟨c, t, d⟩ := r
  obtain ⟨h1, h2⟩ := h
  have h1 : d = true := h1
  subst h1
  have h2 : c.rle = { buf := #[] } := h2
  have : ({ c with rle := { buf := #[] } } : State) = c := by
    cases c; simp only at h2; simp [h2]
  simp only [this]

/-! ### call sequences -/

def closedRes : Op → Res
  | .read _ => .read [] (some .closed)
  | .close => .close none
  | .reset _ => .reset

/-- **closed means closed.** -/
theorem closed_forever (r : Reader) (h : Closed r) (ops : List Op) (hn : ∀ op ∈ ops, op.noReset = true) :
    Reader.run r ops = (r, ops.map closedRes) := by
  induction ops with
  | nil => rfl
  | cons op ops ih =>
    have ih' := ih (fun o ho => hn o (List.mem_cons_of_mem _ ho))
    cases op with
    | read n => simp only [Reader.run, Reader.step, read_done r h.1 n, ih', List.map_cons, closedRes]
    | close => simp only [Reader.run, Reader.step, close_closed r h, ih', List.map_cons, closedRes]
    | reset src => have := hn (.reset src) (List.mem_cons_self ..); simp [Op.noReset] at this

def stuckRes (e : AErr) : Op → Res
  | .read _ => .read [] (some e)
  | .close => .close (some e)
  | .reset _ => .reset

/-- **failed stays failed** (any error but `io.EOF`): Reads return no data and the error, Close the
    error, nothing changes. -/
theorem failed_forever (r : Reader) (e : AErr) (hs : Stuck r e) (hne : e ≠ .eof)
    (ops : List Op) (hn : ∀ op ∈ ops, op.noReset = true) :
    Reader.run r ops = (r, ops.map (stuckRes e)) := by
  obtain ⟨hd, he, hr⟩ := hs
  induction ops with
  | nil => rfl
  | cons op ops ih =>
    have ih' := ih (fun o ho => hn o (List.mem_cons_of_mem _ ho))
    cases op with
    | read n => simp only [Reader.run, Reader.step, hr n, ih', List.map_cons, stuckRes]
    | close =>
      have hk : ¬ (r.err = some .eof ∨ r.done = true) := by
        rw [he, hd]; simp; exact hne
      have hc : r.close = (r, some e) := by rw [close_eq, if_neg hk, he]
      simp only [Reader.run, Reader.step, hc, ih', List.map_cons, stuckRes]
    | reset src => have := hn (.reset src) (List.mem_cons_self ..); simp [Op.noReset] at this

theorem eof_reads (r : Reader) (hs : Stuck r .eof) (ns : List Nat) :
    Reader.run r (ns.map .read) = (r, ns.map (fun _ => .read [] (some .eof))) := by
  induction ns with
  | nil => rfl
  | cons n ns ih => simp only [List.map_cons, Reader.run, Reader.step, hs.2.2 n, ih]

/-- every reachable state satisfies the invariant. -/
theorem inv_close (r : Reader) (h : Inv r) : Inv (r.close).1 := by
  rw [close_eq]
  split
  · exact ⟨h.1, fun e _ => ⟨.done, rfl⟩⟩
  · exact h

theorem inv_step (r : Reader) (h : Inv r) (op : Op) : Inv (r.step op).1 := by
  cases op with
  | read n => exact inv_read r h n
  | close => exact inv_close r h
  | reset src => exact inv_reset r src

theorem inv_run (r : Reader) (h : Inv r) (ops : List Op) : Inv (Reader.run r ops).1 := by
  induction ops generalizing r with
  | nil => exact h
  | cons op ops ih => exact ih _ (inv_step r h op)

/-! ### OutputOffset -/

theorem decodeBlock_outOff (s s' : State) (bits : Bits) (h : decodeBlock s bits = .ok s') :
    s'.outOff = s.outOff := by
  unfold decodeBlock at h
  split at h
  · cases h
  · split at h
    · split at h
      · split at h
        · cases h
        · split at h
          · cases h
          · injection h with h; subst h; with_reducible rfl
      · cases h
    · split at h
      · cases h
      · injection h with h; subst h; with_reducible rfl

theorem chunk_outOff (s s' : State) (h : Impl.chunk s = .ok s') : s'.outOff = s.outOff := by
  unfold Impl.chunk at h
  split at h
  · split at h
    · cases h
    · split at h
      · cases h
      · exact (decodeBlock_outOff _ _ _ h).trans (by with_reducible rfl)
  · split at h
    · cases h
    · exact (decodeBlock_outOff _ _ _ h).trans (by with_reducible rfl)

/-- **`Read` moves `OutputOffset` by exactly the bytes it returns** - from every state. -/
theorem impl_read_outOff : ∀ (fuel n : Nat) (s : State),
    (Impl.read fuel n s).1.outOff = s.outOff + (Impl.read fuel n s).2.1.length := by
  intro fuel
  induction fuel with
  | zero => intro n s; rfl
  | succ fuel ih =>
    intro n s
    rw [RdAux.read_succ']
    simp only
    split
    · rfl
    · split
      · rfl
      · split
        · rename_i s3 hc
          rw [ih]
          have := chunk_outOff _ _ hc
          simp only [this]
          rfl
        · rfl

theorem read_outputOffset (r : Reader) (n : Nat) :
    (r.read n).1.outputOffset = r.outputOffset + (r.read n).2.1.length := by
  by_cases hd : r.done = true
  · rw [read_done r hd]; rfl
  · have hd : r.done = false := by simpa using hd
    rw [read_open r hd]
    exact impl_read_outOff _ _ _

theorem close_outputOffset (r : Reader) : (r.close).1.outputOffset = r.outputOffset := by
  rw [close_eq]; split <;> rfl

def delivered (xs : List Res) : Nat := (xs.map (fun x => x.bytes.length)).sum

/-- **OutputOffset counts exactly the bytes delivered** by every call sequence without Reset. -/
theorem run_outputOffset (r : Reader) (ops : List Op) (hn : ∀ op ∈ ops, op.noReset = true) :
    (Reader.run r ops).1.outputOffset = r.outputOffset + delivered (Reader.run r ops).2 := by
  induction ops generalizing r with
  | nil => simp [Reader.run, delivered]
  | cons op ops ih =>
    have ih' := fun r' => ih r' (fun o ho => hn o (List.mem_cons_of_mem _ ho))
    cases op with
    | read n =>
      have ho := read_outputOffset r n
      rcases hr : r.read n with ⟨r1, out, e⟩
      rw [hr] at ho
      simp only at ho
      simp only [Reader.run, Reader.step, hr]
      rw [ih', ho]
      simp only [delivered, List.map_cons, List.sum_cons, Res.bytes]
      omega
    | close =>
      simp only [Reader.run, Reader.step]
      rw [ih', close_outputOffset]
      simp [delivered, Res.bytes]
    | reset src => have := hn (.reset src) (List.mem_cons_self ..); simp [Op.noReset] at this

/-! ### the error a run ends with -/

/-- one Read, against the behaviour `beh` of the decoder state (all the bytes it will still deliver
    and the error that ends it): an error that is returned is that final error as the caller sees
    it, and the final error of the state after the call is the same. -/
theorem read_final (r : Reader) (h : Inv r) (hd : r.done = false) (n : Nat) :
    (beh (r.read n).1.core).2 = (beh r.core).2 ∧ (r.read n).1.done = false ∧ (r.read n).1.tag = r.tag ∧
    (∀ e, (r.read n).2.2 = some e → e = liftErr r.tag (beh r.core).2) := by
  rw [read_open r hd]
  obtain ⟨_, _, _, h4, hE, _⟩ := read_spec_inv r.core h n (readFuel r.core) (Nat.le_refl _)
  refine ⟨h4.symm, hd, rfl, fun e he => ?_⟩
  simp only at he
  cases hx : (Impl.read (readFuel r.core) n r.core).2.2 with
  | none => rw [hx] at he; cases he
  | some x =>
    rw [hx] at he
    simp only [Option.map_some, Option.some.injEq] at he
    have := (hE x hx).2.1
    rw [h4, this]
    exact he.symm

/-- **every error any sequence of Reads returns is the final error of the input**, as the caller
    sees it. -/
theorem reads_final (r : Reader) (h : Inv r) (hd : r.done = false) (ns : List Nat) :
    ∀ x ∈ (Reader.run r (ns.map .read)).2, ∀ out e, x = .read out (some e) → e = liftErr r.tag (beh r.core).2 := by
  induction ns generalizing r with
  | nil => intro x hx; cases hx
  | cons n ns ih =>
    intro x hx out e hxe
    obtain ⟨f1, f2, f3, f4⟩ := read_final r h hd n
    simp only [List.map_cons, Reader.run, Reader.step] at hx
    rcases List.mem_cons.1 hx with hx | hx
    · subst hx
      injection hxe with h1 h2
      exact f4 e h2
    · have := ih (r.read n).1 (inv_read r h n) f2 x hx out e hxe
      rw [f1, f3] at this
      exact this

end Compress.Proofs.BzReaderApi
