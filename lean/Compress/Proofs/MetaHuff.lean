/-
Lemmas about `computeHuffLen` (C16).
-/
import Compress.Meta.Codec

namespace Compress.Proofs.Meta
open Compress Compress.Meta

theorem go_succ (z o h n : Nat) : computeHuffLen.go z o h (n+1) =
    if h > 7 then 0 else if 2 ^ h + (z + 8) ≤ 257 ∧ o + 8 ≤ 2 ^ h then h else computeHuffLen.go z o (h+1) n := by
  simp only [computeHuffLen.go, Bool.and_eq_true, decide_eq_true_eq]
  simp only [maxHuffLen, maxSyms]
  rfl

theorem go_spec (z o : Nat) : ∀ fuel h, 1 ≤ h →
    computeHuffLen.go z o h fuel = 0 ∨ (h ≤ computeHuffLen.go z o h fuel ∧ computeHuffLen.go z o h fuel ≤ 7 ∧
      2 ^ computeHuffLen.go z o h fuel + (z + 8) ≤ 257 ∧ o + 8 ≤ 2 ^ computeHuffLen.go z o h fuel) := by
  intro fuel
  induction fuel with
  | zero => intro h _; simp [computeHuffLen.go]
  | succ n ih =>
    intro h hh
    rw [go_succ]
    by_cases h7 : h > 7
    · simp [h7]
    · rw [if_neg h7]
      by_cases hc : 2 ^ h + (z + 8) ≤ 257 ∧ o + 8 ≤ 2 ^ h
      · rw [if_pos hc]
        right; omega
      · rw [if_neg hc]
        rcases ih (h+1) (by omega) with h0 | h1
        · left; exact h0
        · right; omega

theorem computeHuffLen_eq (zeros ones : Nat) : computeHuffLen zeros ones =
    if ones > zeros then
      (if computeHuffLen.go ones zeros 1 8 = 0 then (0, false) else (computeHuffLen.go ones zeros 1 8, true))
    else
      (if computeHuffLen.go zeros ones 1 8 = 0 then (0, false) else (computeHuffLen.go zeros ones 1 8, false)) := by
  by_cases h : ones > zeros <;> simp [computeHuffLen, h, minHuffLen]

theorem computeHuffLen_sound_aux (zeros ones : Nat) :
    let r := computeHuffLen zeros ones
    r.1 = 0 ∨ (1 ≤ r.1 ∧ r.1 ≤ 7 ∧
      (let z := if r.2 then ones else zeros
       let o := if r.2 then zeros else ones
       2 ^ r.1 + (z + 8) ≤ 257 ∧ o + 8 ≤ 2 ^ r.1) ∧ (r.2 = true ↔ ones > zeros)) := by
  intro r
  have hr : r = computeHuffLen zeros ones := rfl
  rw [computeHuffLen_eq] at hr
  by_cases h : ones > zeros
  · rw [if_pos h] at hr
    rcases go_spec ones zeros 8 1 (by omega) with h0 | h1
    · rw [if_pos h0] at hr; left; rw [hr]
    · rw [if_neg (by omega)] at hr
      right; rw [hr]; simp only [if_true]
      exact ⟨h1.1, h1.2.1, ⟨h1.2.2.1, h1.2.2.2⟩, by simp [h]⟩
  · rw [if_neg h] at hr
    rcases go_spec zeros ones 8 1 (by omega) with h0 | h1
    · rw [if_pos h0] at hr; left; rw [hr]
    · rw [if_neg (by omega)] at hr
      right; rw [hr]; simp only [Bool.false_eq_true, if_false]
      exact ⟨h1.1, h1.2.1, ⟨h1.2.2.1, h1.2.2.2⟩, by simp [h]⟩

theorem go_complete (z o : Nat) : ∀ fuel h, 1 ≤ h →
    (∃ k, h ≤ k ∧ k ≤ 7 ∧ k < h + fuel ∧ 2 ^ k + (z + 8) ≤ 257 ∧ o + 8 ≤ 2 ^ k) →
    computeHuffLen.go z o h fuel ≠ 0 := by
  intro fuel
  induction fuel with
  | zero => intro h _ ⟨k, h1, _, h3, _⟩; omega
  | succ n ih =>
    intro h hh ⟨k, h1, h2, h3, h4⟩
    rw [go_succ]
    rw [if_neg (by omega)]
    by_cases hc : 2 ^ h + (z + 8) ≤ 257 ∧ o + 8 ≤ 2 ^ h
    · rw [if_pos hc]; omega
    · rw [if_neg hc]
      apply ih (h+1) (by omega)
      refine ⟨k, ?_, h2, by omega, h4⟩
      rcases Nat.lt_or_ge h k with hlt | hge
      · omega
      · have : k = h := by omega
        subst this; exact absurd h4 hc

theorem go_fit (z o : Nat) (hzo : z + o ≤ 176) (hoz : o ≤ z) : computeHuffLen.go z o 1 8 ≠ 0 := by
  apply go_complete z o 8 1 (by omega)
  by_cases h1 : o ≤ 8
  · exact ⟨4, by omega, by omega, by omega, by omega, by omega⟩
  · by_cases h2 : o ≤ 24
    · exact ⟨5, by omega, by omega, by omega, by omega, by omega⟩
    · by_cases h3 : o ≤ 56
      · exact ⟨6, by omega, by omega, by omega, by omega, by omega⟩
      · exact ⟨7, by omega, by omega, by omega, by omega, by omega⟩

theorem computeHuffLen_fit22_aux (zeros ones : Nat) (h : zeros + ones ≤ 8 * 22) :
    (computeHuffLen zeros ones).1 > 0 := by
  rw [computeHuffLen_eq]
  by_cases hi : ones > zeros
  · rw [if_pos hi]
    have := go_fit ones zeros (by omega) (by omega)
    rw [if_neg this]; exact Nat.pos_of_ne_zero this
  · rw [if_neg hi]
    have := go_fit zeros ones (by omega) (by omega)
    rw [if_neg this]; exact Nat.pos_of_ne_zero this

end Compress.Proofs.Meta
