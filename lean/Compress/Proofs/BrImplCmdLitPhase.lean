/-
C02 layer (f2): `readLiterals` with its suspensions, down to the end of the command.
-/
import Compress.Proofs.BrImplCmdDist
namespace Compress.Proofs.BrImpl
open Compress Compress.Brotli Compress.Brotli.Impl Compress.Window Compress.Proofs.Window
open Compress.Proofs.BrCut (cmdStep DistInv readCommandsAuto cmdContAuto)

/-! ### `PLit` after a part of the literals -/

theorem PLit_split (sd : ByteArray) (ws : Nat) (h : Header) (c : Cmd) (M : Int) (a cl : Nat) (iz : Bool)
    (n : Nat) (hn : n ≤ a) :
    PLit sd ws h c M a cl iz =
      (if M < (a : Int) then knownCorrupt (readLiterals h n c.litB) else readLiterals h n c.litB) >>= fun litB =>
        PLit sd ws h { c with litB := litB } (M - n) (a - n) cl iz := by
  obtain ⟨r, rfl⟩ : ∃ r, a = n + r := ⟨a - n, by omega⟩
  have e : n + r - n = r := by omega
  unfold PLit
  by_cases hlt : M < ((n + r : Nat) : Int)
  · rw [if_pos hlt, if_pos hlt, readLiterals_add, knownCorrupt_bind, dec_bind_assoc]
    congr 1
    funext litB
    rw [if_pos (by omega), e]
  · rw [if_neg hlt, if_neg hlt, readLiterals_add, dec_bind_assoc]
    congr 1
    funext litB
    rw [if_neg (by omega), e]
    congr 1
    funext l2
    by_cases h0 : M = ((n + r : Nat) : Int)
    · rw [if_pos h0, if_pos (by omega)]
    · rw [if_neg h0, if_neg (by omega)]
      have : (M - (n : Int) - (r : Int)).toNat = (M - ((n + r : Nat) : Int)).toNat := by congr 1; omega
      rw [this]

theorem PLit_zero_pos (sd : ByteArray) (ws : Nat) (h : Header) (c : Cmd) (M : Int) (cl : Nat) (iz : Bool)
    (st : St) (hM : 0 < M) :
    PLit sd ws h c M 0 cl iz st = KDist sd ws h { c with mlen := M.toNat } cl iz st := by
  unfold PLit
  have e0 : readLiterals h 0 c.litB = pure c.litB := rfl
  rw [if_neg (by omega), e0, dec_pure_bind, if_neg (by omega)]
  simp only [Int.natCast_zero, Int.sub_zero]

theorem PLit_zero_le (sd : ByteArray) (ws : Nat) (h : Header) (c : Cmd) (M : Int) (cl : Nat) (iz : Bool)
    (st : St) (hM : M ≤ 0) :
    PLit sd ws h c M 0 cl iz st = KEnd c M st := by
  unfold PLit KEnd
  by_cases hneg : M < 0
  · rw [if_pos (by omega), if_pos hneg]
    rfl
  · have e0 : readLiterals h 0 c.litB = pure c.litB := rfl
    have : M = 0 := by omega
    subst this
    rw [if_neg (by omega), if_neg hneg, e0, dec_pure_bind, if_pos (by simp), if_pos rfl]

/-- the state after `n` more literals have been accounted for. -/
def litDone (s1 : State) (n : Nat) : State := { s1 with insLen := s1.insLen - n, blkLen := s1.blkLen - n }

theorem litTail_eq (n : Nat) (s1 : State) :
    litTail n s1 =
      if (litDone s1 n).insLen > 0 then (.ok .ret, susp .literals (litDone s1 n))
      else if (litDone s1 n).blkLen > 0 then (.ok (.goto .readDistance), litDone s1 n)
      else (.ok (.goto .finishCommand), litDone s1 n) := rfl

section
variable {sd : ByteArray} {ws : Nat} {h : Header} {lst : Bool} {B0 : Nat} {c0 : Cmd} {st0 : St}

/-- `readLiterals`: as many literals as fit the window, suspend while some are left. -/
theorem phase_lit (hsd : sd.size = 122784) (hws : 2 ≤ ws) (cx : Cx sd ws h lst B0 c0 st0) :
    ∀ (n : Nat) {s : State} {st : St} {c : Cmd} {del : List UInt8} {M : Int} {f B : Nat} {cl : Nat} {iz : Bool},
    2 * s.insLen + (if s.dict.wrPos = s.dict.hist.size then 1 else 0) ≤ n →
    Mid ws h lst s st c del → s.blkLen = M → s.word = [] → 0 < s.insLen → s.cpyLen = cl → 2 ≤ cl →
    s.distZero = iz → Track c0 st0 c st M → c.distB = c0.distB →
    cmdStep sd ws h c0 st0 = PLit sd ws h c M s.insLen cl iz st →
    ((s.dict.rdPos < s.dict.wrPos ∨ 1 ≤ M) ∨ s.dict.wrPos < s.dict.hist.size) →
    3 + 5 * min (c0.mlen + st0.bits.length) (st.bits.length + M.toNat + 1) ≤ f → st.bits.length ≤ B →
    After sd ws (readCommandsAuto sd ws h c0 st0) lst B0 B del (cont sd (doLabel sd .readLiterals s) f) := by
  intro n
  induction n using Nat.strongRecOn with
  | _ n ih =>
    intro s st c del M f B cl iz hn m hb hw hins hcl h2 hiz tr hD chain hq hf hB
    have hav : s.dict.availSize = s.dict.hist.size - s.dict.wrPos := rfl
    have hwl := m.win.wr_le
    have hNa : min s.dict.availSize s.insLen ≤ s.dict.availSize := Nat.min_le_left _ _
    have hNi : min s.dict.availSize s.insLen ≤ s.insLen := Nat.min_le_right _ _
    have hpp : litLoop (min s.dict.availSize s.insLen) s.dict.lastBytes.1 s.dict.lastBytes.2 s =
        litLoop (min s.dict.availSize s.insLen) (backByte st.out.toList 1) (backByte st.out.toList 2) s := by
      by_cases hroom : s.dict.wrPos < s.dict.hist.size
      · rw [lastBytes_inv m.win m.zeros hws hroom]
      · have : min s.dict.availSize s.insLen = 0 := by omega
        rw [this]; rfl
    have R : LitRel ws h c.litB.ntypes s st c.litB del :=
      ⟨m.rd, m.win, m.zeros, m.cr.lit, rfl, m.cr.litMapOff, m.cr.cmode, m.cr.hdr.cmodes, m.cr.hdr.litMap,
        m.cr.hdr.litTrees.2, m.cr.hdr.litTrees.1⟩
    have hsim := litLoop_sim (min s.dict.availSize s.insLen) s st c.litB R hNa
    rw [PLit_split sd ws h c M s.insLen cl iz _ hNi] at chain
    rw [doLabel_lit, hpp]
    rcases hrl : readLiterals h (min s.dict.availSize s.insLen) c.litB st with ⟨e | litB', st1⟩
    · -- the specification fails among these literals
      rw [hrl] at hsim
      dsimp only at hsim
      have hX : ∃ e'', (if M < (s.insLen : Int) then knownCorrupt (readLiterals h (min s.dict.availSize s.insLen) c.litB)
          else readLiterals h (min s.dict.availSize s.insLen) c.litB) st = (.error e'', st1) := by
        split
        · exact ⟨_, knownCorrupt_err hrl⟩
        · exact ⟨_, hrl⟩
      obtain ⟨e'', hX⟩ := hX
      rw [BrCut.bind_err_eq hX] at chain
      obtain ⟨e1, s', g1, g2, g3⟩ := hsim
      rw [g1]
      exact After.fail (res_err cx.nd cx.inv0 chain) g2 g3
    · -- these literals are read on both sides
      rw [hrl] at hsim
      dsimp only at hsim
      obtain ⟨rd, lb, off, cm, d, g4, R1, g6, g7, g8, g9, g10, g11, g12⟩ := hsim
      have hX : (if M < (s.insLen : Int) then knownCorrupt (readLiterals h (min s.dict.availSize s.insLen) c.litB)
          else readLiterals h (min s.dict.availSize s.insLen) c.litB) st = (.ok litB', st1) := by
        split
        · exact knownCorrupt_ok hrl
        · exact hrl
      rw [BrCut.bind_ok_eq hX] at chain
      rw [g4]
      dsimp only
      rw [litTail_eq]
      have hnt := R1.nt
      have hb2 : (litDone (litUpd s rd lb off cm d) (min s.dict.availSize s.insLen)).blkLen =
          M - (min s.dict.availSize s.insLen : Nat) := by
        show s.blkLen - _ = _
        rw [hb]
      have hi2 : (litDone (litUpd s rd lb off cm d) (min s.dict.availSize s.insLen)).insLen =
          s.insLen - min s.dict.availSize s.insLen := rfl
      have hdr2 : HdrOK (litDone (litUpd s rd lb off cm d) (min s.dict.availSize s.insLen)) h litB'.ntypes
          c.cmdB.ntypes c.distB.ntypes := by
        rw [hnt]
        exact ⟨m.cr.hdr.npostfix, m.cr.hdr.ndirect, R1.cmodes, R1.litMap, m.cr.hdr.distMap, ⟨R1.psize, R1.trees⟩,
          m.cr.hdr.iacTrees, m.cr.hdr.distTrees⟩
      have m2 : Mid ws h lst (litDone (litUpd s rd lb off cm d) (min s.dict.availSize s.insLen)) st1
          { c with litB := litB' } del :=
        ⟨m.toRead, m.err, R1.rd, R1.win, R1.zeros, avail_after m.avail m.win.rd_le g9 g10 g11,
          ⟨hdr2, R1.blk, m.cr.iac, m.cr.dist, R1.off, R1.cmode, m.cr.distMapOff, m.cr.dists⟩, m.dpos,
          by rw [g8]; exact m.aligned, m.mtf, m.last⟩
      have tr2 : Track c0 st0 { c with litB := litB' } st1 (M - (min s.dict.availSize s.insLen : Nat)) := by
        obtain ⟨t1, t2, t3, t4, t5, t6⟩ := tr
        refine ⟨by omega, by omega, t3, t4, ⟨by show litB'.ntypes = _; rw [hnt]; exact t5.1, fun hh => ?_⟩, ?_⟩
        · have a1 := t5.2 hh
          have a2 := g12 (by rw [t5.1]; exact hh)
          show _ ≤ litB'.count + _
          omega
        · rw [g6]; push_cast; omega
      have hq2 : (litDone (litUpd s rd lb off cm d) (min s.dict.availSize s.insLen)).dict.rdPos <
          (litDone (litUpd s rd lb off cm d) (min s.dict.availSize s.insLen)).dict.wrPos ∨
          1 ≤ M - (min s.dict.availSize s.insLen : Nat) := by
        show d.rdPos < d.wrPos ∨ _
        rw [g9, g10]
        have := m.win.rd_le
        rcases hq with (hq | hq) | hq
        · left; omega
        · by_cases hk : min s.dict.availSize s.insLen = 0
          · right; rw [hk]; simpa using hq
          · left; omega
        · left; omega
      have hbl : st1.bits.length ≤ st.bits.length := g7
      by_cases hmore : (litDone (litUpd s rd lb off cm d) (min s.dict.availSize s.insLen)).insLen > 0
      · -- the window is full: suspend
        rw [if_pos hmore]
        have hlt : min s.dict.availSize s.insLen < s.insLen := by rw [hi2] at hmore; omega
        have hfull : d.wrPos = d.hist.size := by rw [g10, g11]; omega
        have hfr := m2.avail hfull
        obtain ⟨i1, i2, i3⟩ := m2.win.readFlush
        show After sd ws _ lst B0 B del (.ok (), susp .literals _)
        refine After.susp (s1 := susp .literals (litDone (litUpd s rd lb off cm d) (min s.dict.availSize s.insLen)))
          m.err (readFlush_ne_nil m2.win hfr) rfl
          (by show rd.bits.length ≤ B; rw [show rd = brOf st1 from R1.rd]; exact Nat.le_trans hbl hB) ?_
        rw [readCommands_literals sd _ rfl]
        obtain ⟨F, hF, hF2⟩ := six_succ
          ((resume (susp .literals (litDone (litUpd s rd lb off cm d) (min s.dict.availSize s.insLen)))).rd.bits.length +
            (resume (susp .literals (litDone (litUpd s rd lb off cm d) (min s.dict.availSize s.insLen)))).blkLen.toNat +
            (resume (susp .literals (litDone (litUpd s rd lb off cm d) (min s.dict.availSize s.insLen)))).insLen)
        rw [hF, cmdLoop_cont]
        have hbits : (resume (susp .literals (litDone (litUpd s rd lb off cm d)
            (min s.dict.availSize s.insLen)))).rd.bits.length = st1.bits.length := by
          show rd.bits.length = _
          rw [show rd = brOf st1 from R1.rd]; rfl
        have hblk : (resume (susp .literals (litDone (litUpd s rd lb off cm d)
            (min s.dict.availSize s.insLen)))).blkLen = M - (min s.dict.availSize s.insLen : Nat) := hb2
        rw [hbits, hblk] at hF2
        refine ih (2 * (s.insLen - min s.dict.availSize s.insLen)) ?_ (Nat.le_of_eq ?_) (m2.resume .literals) hb2 hw
          hmore hcl h2 hiz tr2 hD chain (Or.inr i2) ?_
          (by show st1.bits.length ≤ rd.bits.length; rw [show rd = brOf st1 from R1.rd]; exact Nat.le_refl _)
        · by_cases hk : min s.dict.availSize s.insLen = 0
          · have : s.dict.wrPos = s.dict.hist.size := by omega
            rw [if_pos this] at hn
            omega
          · omega
        · show 2 * (s.insLen - min s.dict.availSize s.insLen) +
            (if d.readFlush.1.wrPos = d.readFlush.1.hist.size then 1 else 0) = _
          have i2' : d.readFlush.1.wrPos < d.readFlush.1.hist.size := i2
          rw [if_neg (Nat.ne_of_lt i2')]
          omega
        · show 3 + 5 * min (c0.mlen + st0.bits.length) (st1.bits.length + _ + 1) ≤ F
          omega
      · -- all literals of the command have been read
        rw [if_neg hmore]
        have hall : s.insLen - min s.dict.availSize s.insLen = 0 := by rw [hi2] at hmore; omega
        rw [hall] at chain
        obtain ⟨f', rfl⟩ : ∃ f', f = f' + 1 := ⟨f - 1, by omega⟩
        have hMle : (M - (min s.dict.availSize s.insLen : Nat)).toNat ≤ M.toNat := by omega
        by_cases hpos : (litDone (litUpd s rd lb off cm d) (min s.dict.availSize s.insLen)).blkLen > 0
        · rw [if_pos hpos]
          rw [hb2] at hpos
          rw [PLit_zero_pos _ _ _ _ _ _ _ _ hpos] at chain
          show After sd ws _ lst B0 B del (cmdLoop sd (f' + 1) .readDistance _)
          rw [cmdLoop_cont]
          have hM : (((M - (min s.dict.availSize s.insLen : Nat)).toNat : Nat) : Int) =
              M - (min s.dict.availSize s.insLen : Nat) := by omega
          refine phase_dist hsd cx
            (c := { c with litB := litB', mlen := (M - (min s.dict.availSize s.insLen : Nat)).toNat })
            ⟨m2.toRead, m2.err, m2.rd, m2.win, m2.zeros, m2.avail, m2.cr.mlen _, m2.dpos, m2.aligned, m2.mtf, m2.last⟩
            (by rw [hb2]; exact hM.symm) hw hcl h2 hiz
            ⟨tr2.len_le, tr2.size_le, tr2.kI, tr2.kD, tr2.kL, by rw [← tr2.kM]; congr 1⟩ hD chain
            (Or.inr (by show (1 : Int) ≤ ((M - (min s.dict.availSize s.insLen : Nat)).toNat : Nat); omega)) ?_
            (Nat.le_trans hbl hB)
          show 2 + 5 * min (c0.mlen + st0.bits.length) (st1.bits.length + (M - (min s.dict.availSize s.insLen : Nat)).toNat + 1)
            ≤ f'
          omega
        · rw [if_neg hpos]
          rw [hb2] at hpos
          rw [PLit_zero_le _ _ _ _ _ _ _ _ (by omega)] at chain
          show After sd ws _ lst B0 B del (cmdLoop sd (f' + 1) .finishCommand _)
          refine phase_fin cx m2 hb2 hw tr2 chain hq2 ?_ (Nat.le_trans hbl hB)
          show 1 + 5 * min (c0.mlen + st0.bits.length) (st1.bits.length + _ + 1) ≤ f' + 1
          omega
end
end Compress.Proofs.BrImpl
