/-
Lemmas behind C20 (H1, H6): `GeneratePrefixes` accepts exactly the complete
length vectors and assigns a prefix-free canonical code; `RangeEncoder`.
-/
import Compress.Prefix.Spec

namespace Compress.Proofs.PrefixCodes
open Compress Compress.Prefix

/-- H1 (acceptance): on well-formed input, `GeneratePrefixes` succeeds exactly
    when the lengths are Kraft-complete. -/
theorem generatePrefixes_ok_iff (cs : List Code) (h : ValidLens cs) :
    (∃ r, generatePrefixes cs = .ok r) ↔ KraftComplete (cs.map (·.len)) := by
  sorry

/-- H1 (shape): the result keeps symbols and lengths, in order. -/
theorem generatePrefixes_shape (cs r : List Code) (h : generatePrefixes cs = .ok r) :
    r.map (·.sym) = cs.map (·.sym) ∧ r.map (·.len) = cs.map (·.len) := by
  sorry

/-- H1 (soundness): the assigned code is prefix-free. -/
theorem generatePrefixes_prefixFree (cs r : List Code) (h : ValidLens cs)
    (hr : generatePrefixes cs = .ok r) : PrefixFree r := by
  sorry

/-- H1: every value fits its length. -/
theorem generatePrefixes_val_lt (cs r : List Code) (h : ValidLens cs)
    (hr : generatePrefixes cs = .ok r) : ∀ c ∈ r, c.val < 2 ^ c.len := by
  sorry

/-- H6: for stacked ranges built by `MakeRangeCodes`, `Encode` returns the
    range that holds the offset. -/
theorem rangeEncode_correct (base : Nat) (bits : List Nat) (hb : bits ≠ []) (ofs : Nat)
    (hlo : base ≤ ofs) (hhi : ofs < base + (bits.map (2 ^ ·)).foldl (· + ·) 0) :
    let rcs := makeRangeCodes base bits
    let s := rangeEncode rcs ofs
    s < rcs.length ∧ (rcs.getD s ⟨0, 0⟩).base ≤ ofs ∧ ofs < (rcs.getD s ⟨0, 0⟩).end_ := by
  sorry

end Compress.Proofs.PrefixCodes
