/-
Lemmas behind C20 (H1, H6): `GeneratePrefixes` accepts exactly the complete
length vectors and assigns a prefix-free canonical code; `RangeEncoder`.
-/
import Compress.Prefix.Spec
import Compress.Proofs.PrefixCodesAux

namespace Compress.Proofs.PrefixCodes
open Compress Compress.Prefix

/-- H1 (acceptance): on well-formed input, `GeneratePrefixes` succeeds exactly
    when the lengths are Kraft-complete. -/
theorem generatePrefixes_ok_iff (cs : List Code) (h : ValidLens cs) :
    (∃ r, generatePrefixes cs = .ok r) ↔ KraftComplete (cs.map (·.len)) := by
  obtain ⟨hrange, hgp⟩ := gp_valid cs h
  have hle : ∀ l ∈ cs.map (·.len), l ≤ maxB cs := by
    intro l hl
    obtain ⟨c, hc, rfl⟩ := List.mem_map.1 hl
    exact (hrange c hc).2
  have hk : kraftScaled (cs.map (·.len)) (maxB cs) = endCode cs (maxB cs) :=
    kraftScaled_eq_endCode cs _ (fun c hc => (hrange c hc).2)
  rw [hgp]
  constructor
  · rintro ⟨r, hr⟩
    split at hr
    · cases hr
    · rename_i hE
      have hE : endCode cs (maxB cs) = 2 ^ maxB cs := Decidable.of_not_not hE
      intro m hm
      have hMm : maxB cs ≤ m :=
        foldl_max_le cs 0 m (Nat.zero_le _) (fun c hc => hm _ (List.mem_map.2 ⟨c, hc, rfl⟩))
      rw [kraftScaled_scale _ (maxB cs) m hle hMm, hk, hE, ← Nat.pow_add]
      congr 1; omega
  · intro hK
    have := hK (maxB cs) hle
    rw [hk] at this
    exact ⟨_, by rw [if_neg (by simp [this])]⟩

/-- H1 (shape): the result keeps symbols and lengths, in order. -/
theorem generatePrefixes_shape (cs r : List Code) (h : generatePrefixes cs = .ok r) :
    r.map (·.sym) = cs.map (·.sym) ∧ r.map (·.len) = cs.map (·.len) := by
  match cs with
  | [] =>
    simp only [generatePrefixes] at h
    cases h; simp
  | [c] =>
    simp only [generatePrefixes] at h
    split at h
    · cases h
    · rename_i hc
      have hc : c.len = 0 := Decidable.of_not_not hc
      cases h; simp [hc]
  | a :: b :: rest =>
    obtain ⟨next, rfl⟩ := gp_ok_assign (a :: b :: rest) r (by simp) h
    exact assignVals_shape _ _

/-- H1 (soundness): the assigned code is prefix-free. -/
theorem generatePrefixes_prefixFree (cs r : List Code) (h : ValidLens cs)
    (hr : generatePrefixes cs = .ok r) : PrefixFree r := by
  obtain ⟨hrange, hgp⟩ := gp_valid cs h
  rw [hgp] at hr
  split at hr
  · cases hr
  · rename_i hE
    have hE : endCode cs (maxB cs) = 2 ^ maxB cs := Decidable.of_not_not hE
    cases hr
    refine assignVals_prefixFree (endCode cs) cs (nextFn cs) ?_ ?_ ?_
    · intro l
      unfold nextFn endCode
      split <;> omega
    · intro c hc
      exact endCode_le_pow cs (maxB cs) c.len hE (hrange c hc).2
    · intro a ha b hb d hd
      have hb' := hrange b hb
      have ha' := hrange a ha
      unfold nextFn
      rw [if_pos (by omega), hd]
      exact endCode_mul_le_firstCode cs a.len d

/-- H1: every value fits its length. -/
theorem generatePrefixes_val_lt (cs r : List Code) (h : ValidLens cs)
    (hr : generatePrefixes cs = .ok r) : ∀ c ∈ r, c.val < 2 ^ c.len := by
  obtain ⟨next, rfl⟩ := gp_ok_assign cs r h.1 hr
  exact assignVals_val_lt _ _

theorem symsIncreasing_cons (a : Code) (l : List Code) (h : symsIncreasing (a :: l) = true) :
    (∀ x ∈ l, a.sym < x.sym) ∧ symsIncreasing l = true := by
  induction l generalizing a with
  | nil => simp [symsIncreasing]
  | cons b rest ih =>
    simp only [symsIncreasing, Bool.and_eq_true, decide_eq_true_eq] at h
    obtain ⟨h1, h2⟩ := ih b h.2
    refine ⟨fun x hx => ?_, h.2⟩
    rcases List.mem_cons.1 hx with rfl | hx
    · exact h.1
    · exact Nat.lt_trans h.1 (h1 x hx)

theorem symsIncreasing_pairwise (l : List Code) (h : symsIncreasing l = true) :
    l.Pairwise (fun a b => a.sym < b.sym) := by
  induction l with
  | nil => simp
  | cons a l ih =>
    obtain ⟨h1, h2⟩ := symsIncreasing_cons a l h
    exact List.pairwise_cons.2 ⟨h1, ih h2⟩

/-- H1 (canonicity): the assigned code is canonical. -/
theorem generatePrefixes_canonical (cs r : List Code) (h : ValidLens cs)
    (hr : generatePrefixes cs = .ok r) : Canonical r := by
  obtain ⟨hrange, hgp⟩ := gp_valid cs h
  rw [hgp] at hr
  split at hr
  · cases hr
  · rename_i hE
    have hE : endCode cs (maxB cs) = 2 ^ maxB cs := Decidable.of_not_not hE
    cases hr
    have h1 : ∀ l, nextFn cs l + lenCount cs l ≤ endCode cs l := by
      intro l; unfold nextFn endCode; split <;> omega
    have h2 : ∀ c ∈ cs, endCode cs c.len ≤ 2 ^ c.len :=
      fun c hc => endCode_le_pow cs (maxB cs) c.len hE (hrange c hc).2
    have hsym : (assignVals cs (nextFn cs)).Pairwise (fun a b => a.sym < b.sym) := by
      have := symsIncreasing_pairwise cs h.2.1
      have e := (assignVals_shape cs (nextFn cs)).1
      have p : (cs.map (·.sym)).Pairwise (· < ·) := List.pairwise_map.2 this
      rw [← e] at p
      exact List.pairwise_map.1 p
    have hpw := hsym.and (assignVals_pairwise (endCode cs) cs (nextFn cs) h1 h2)
    have hall := pairwise_forall
      (R := fun (a b : Code) => (a.sym < b.sym ∧ (a.len = b.len → a.canon < b.canon)) ∨
        (b.sym < a.sym ∧ (b.len = a.len → b.canon < a.canon)))
      (fun a b h => h.symm) (hpw.imp (fun h => Or.inl h))
    have hmem : ∀ x ∈ assignVals cs (nextFn cs), ∃ y ∈ cs, y.len = x.len := by
      intro x hx
      have : x.len ∈ (assignVals cs (nextFn cs)).map (·.len) := List.mem_map.2 ⟨x, hx, rfl⟩
      rw [(assignVals_shape cs (nextFn cs)).2] at this
      exact List.mem_map.1 this
    intro a ha b hb hab
    have hca := assignVals_canon (endCode cs) cs (nextFn cs) h1 h2 a ha
    have hcb := assignVals_canon (endCode cs) cs (nextFn cs) h1 h2 b hb
    rcases hab with hlt | ⟨he, hs⟩
    · refine ⟨?_, fun e => by omega⟩
      obtain ⟨d, hd⟩ : ∃ d, b.len = a.len + d + 1 := ⟨b.len - a.len - 1, by omega⟩
      obtain ⟨a', ha', hal⟩ := hmem a ha
      obtain ⟨b', hb', hbl⟩ := hmem b hb
      have hb'' := hrange b' hb'
      have ha'' := hrange a' ha'
      have hn : nextFn cs b.len = firstCode cs b.len := by
        unfold nextFn; rw [if_pos (by omega)]
      have := endCode_mul_le_firstCode cs a.len d
      rw [← hd, ← hn] at this
      have e : b.len - a.len = d + 1 := by omega
      rw [e, if_neg (by omega)]
      have h5 : (a.canon + 1) * 2 ^ (d + 1) ≤ b.canon :=
        Nat.le_trans (Nat.le_trans (Nat.mul_le_mul_right _ hca.2) this) hcb.1
      rw [Nat.add_mul] at h5
      have := Nat.two_pow_pos (d + 1)
      omega
    · have hne : a ≠ b := by intro e; subst e; omega
      have hc : a.canon < b.canon := by
        rcases hall a ha b hb hne with h | h
        · exact h.2 he
        · omega
      rw [he, Nat.sub_self, Nat.pow_zero, Nat.mul_one, if_pos rfl]
      exact ⟨by omega, fun _ => hc⟩

theorem makeRangeCodes_base_ge (bits : List Nat) (b : Nat) :
    ∀ rc ∈ makeRangeCodes b bits, b ≤ rc.base := by
  induction bits generalizing b with
  | nil => simp [makeRangeCodes]
  | cons nb rest ih =>
    intro rc hrc
    simp only [makeRangeCodes, List.mem_cons] at hrc
    rcases hrc with rfl | h
    · exact Nat.le_refl _
    · have := ih _ rc h
      have := Nat.two_pow_pos nb
      omega

theorem makeRangeCodes_filter_nil (bits : List Nat) (b ofs : Nat) (h : ofs < b) :
    (makeRangeCodes b bits).filter (fun rc => rc.base ≤ ofs) = [] := by
  rw [List.filter_eq_nil_iff]
  intro rc hrc
  have := makeRangeCodes_base_ge bits b rc hrc
  simp; omega

theorem rangeEncode_aux (ofs : Nat) (bits : List Nat) (base : Nat) (hb : bits ≠ [])
    (hlo : base ≤ ofs) (hhi : ofs < base + (bits.map (2 ^ ·)).foldl (· + ·) 0) :
    ∃ k, ((makeRangeCodes base bits).filter (fun rc => rc.base ≤ ofs)).length = k + 1 ∧
      k < (makeRangeCodes base bits).length ∧
      ((makeRangeCodes base bits).getD k ⟨0, 0⟩).base ≤ ofs ∧
      ofs < ((makeRangeCodes base bits).getD k ⟨0, 0⟩).end_ := by
  induction bits generalizing base with
  | nil => exact absurd rfl hb
  | cons nb rest ih =>
    simp only [List.map_cons, List.foldl_cons] at hhi
    rw [foldl_add_shift] at hhi
    simp only [makeRangeCodes]
    rw [List.filter_cons_of_pos (by simpa using hlo)]
    by_cases hlt : ofs < base + 2 ^ nb
    · rw [makeRangeCodes_filter_nil _ _ _ hlt]
      exact ⟨0, by simp [RangeCode.end_, hlo, hlt]⟩
    · have hne : rest ≠ [] := by
        intro h; subst h; simp at hhi; omega
      obtain ⟨k, h0, h1, h2, h3⟩ := ih (base + 2 ^ nb) hne (by omega) (by omega)
      refine ⟨k + 1, by simp [h0], by simpa using h1, ?_, ?_⟩
      · simpa using h2
      · simpa using h3

/-- H6: for stacked ranges built by `MakeRangeCodes`, `Encode` returns the
    range that holds the offset. -/
theorem rangeEncode_correct (base : Nat) (bits : List Nat) (hb : bits ≠ []) (ofs : Nat)
    (hlo : base ≤ ofs) (hhi : ofs < base + (bits.map (2 ^ ·)).foldl (· + ·) 0) :
    let rcs := makeRangeCodes base bits
    let s := rangeEncode rcs ofs
    s < rcs.length ∧ (rcs.getD s ⟨0, 0⟩).base ≤ ofs ∧ ofs < (rcs.getD s ⟨0, 0⟩).end_ := by
  obtain ⟨k, h0, h1, h2, h3⟩ := rangeEncode_aux ofs bits base hb hlo hhi
  simp only [rangeEncode, h0, Nat.add_sub_cancel]
  exact ⟨h1, h2, h3⟩

end Compress.Proofs.PrefixCodes
