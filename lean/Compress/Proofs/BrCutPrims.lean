/-
Prefix-monotonicity of the Brotli specification decoder: a small tactic that walks a
`do` block, and the bit-level readers.
-/
import Lean.Elab.Tactic
import Compress.Proofs.BrCutCore

namespace Compress.Proofs.BrCut
open Compress Compress.Brotli

/-- closes `PMAt x s ?Q` for a known reader `x` (extended as lemmas are proved). -/
syntax "pm_leaf" : tactic
macro_rules | `(tactic| pm_leaf) => `(tactic| apply_assumption)
macro_rules | `(tactic| pm_leaf) => `(tactic| apply readBit_pm)
macro_rules | `(tactic| pm_leaf) => `(tactic| apply emit_pm)
macro_rules | `(tactic| pm_leaf) => `(tactic| apply outputSize_pm)
macro_rules | `(tactic| pm_leaf) => `(tactic| apply outputByte_pm)
macro_rules | `(tactic| pm_leaf) => `(tactic| apply usedNow_pm)

section Tactic
open Lean Elab Tactic Meta

/-- the shape of the computation in a goal `PMAt x s Q`. -/
def pmHeadKind : TacticM String := withMainContext do
  let g ← instantiateMVars (← getMainTarget)
  let g := g.consumeMData
  if !g.isAppOf ``PMAt then return "none"
  let args := g.getAppArgs
  if args.size < 4 then return "none"
  let x := args[1]!.consumeMData
  if x.isLet then return "let"
  if x.isHeadBetaTarget then return "beta"
  match x.getAppFn.consumeMData with
  | .const n _ =>
    if n == ``ite || n == ``dite then return "split"
    else if n == ``Bind.bind then return "bind"
    else if n == ``Pure.pure then return "pure"
    else if n == ``Functor.map then return "map"
    else if n == ``Compress.Brotli.corrupt || n == ``Compress.Brotli.fail then return "fail"
    else if Lean.Meta.isMatcherCore (← getEnv) n then return "split"
    else return "leaf"
  | _ => return "leaf"

/-- one step of the walk through a `do` block (postconditions of inner steps are dropped). -/
elab "pm_step" : tactic => do
  match ← pmHeadKind with
  | "let" | "beta" => evalTactic (← `(tactic| dsimp only))
  | "split" => evalTactic (← `(tactic| split))
  | "bind" => evalTactic (← `(tactic| refine PMAt.bind (Q1 := fun _ _ => True) ?_ (fun _ _ _ _ _ => ?_)))
  | "pure" => evalTactic (← `(tactic| first | exact PMAt.pure trivial | refine PMAt.pure ?_))
  | "map" => evalTactic (← `(tactic| refine PMAt.true (PMAt.map (Q := fun _ _ => True) ?_)))
  | "fail" => evalTactic (← `(tactic| first | exact PMAt.corrupt | exact PMAt.fail))
  | "leaf" => evalTactic (← `(tactic| exact PMAt.true (by pm_leaf)))
  | _ => throwError "pm_step: not a PMAt goal"

end Tactic

macro "pm_walk" : tactic => `(tactic| repeat' pm_step)

/-! ### bits -/

theorem readBits_pm (n : Nat) (s : St) :
    PMAt (readBits n) s (fun v s1 => v < 2 ^ n ∧ s1.bits.length + n = s.bits.length) := by
  induction n generalizing s with
  | zero => exact PMAt.pure ⟨by simp, by simp⟩
  | succ n ih =>
    rw [readBits]
    refine PMAt.bind (readBit_pm s) (fun b s1 _ hb _ => ?_)
    refine PMAt.bind (ih s1) (fun v s2 _ hv _ => ?_)
    refine PMAt.pure ⟨?_, by omega⟩
    have := hv.1
    rw [Nat.pow_succ]
    split <;> omega

macro_rules | `(tactic| pm_leaf) => `(tactic| apply readBits_pm)

theorem alignToByte_pm (s : St) : PMAt alignToByte s (fun _ s1 => s1.used % 8 = 0) := by
  unfold alignToByte
  refine PMAt.bind (usedNow_pm s) (fun u s1 _ hu _ => ?_)
  obtain ⟨rfl, rfl⟩ := hu
  refine PMAt.bind (readBits_pm _ s1) (fun pad s2 _ hp hm => ?_)
  split
  · exact PMAt.corrupt
  · refine PMAt.pure ?_
    have := hm.used_eq
    omega

macro_rules | `(tactic| pm_leaf) => `(tactic| apply alignToByte_pm)

theorem emitAll_pm (w : List UInt8) (s : St) :
    PMAt (emitAll w) s (fun _ s1 => s1.out.size = s.out.size + w.length) := by
  induction w generalizing s with
  | nil => exact PMAt.pure rfl
  | cons b bs ih =>
    rw [emitAll]
    refine PMAt.bind (emit_pm b s) (fun _ s1 _ h1 _ => ?_)
    exact (ih s1).weaken (fun _ s2 _ h2 _ => by simp only [List.length_cons]; omega)

macro_rules | `(tactic| pm_leaf) => `(tactic| apply emitAll_pm)

theorem copyBack_pm (dist len : Nat) (s : St) :
    PMAt (copyBack dist len) s (fun _ s1 => s1.out.size = s.out.size + len) := by
  induction len generalizing s with
  | zero => exact PMAt.pure rfl
  | succ n ih =>
    rw [copyBack]
    refine PMAt.bind (outputByte_pm dist s) (fun b s1 _ h1 _ => ?_)
    subst h1
    refine PMAt.bind (emit_pm b s1) (fun _ s2 _ h2 _ => ?_)
    exact (ih s2).weaken (fun _ s3 _ h3 _ => by omega)

macro_rules | `(tactic| pm_leaf) => `(tactic| apply copyBack_pm)

/-! ### prefix codes -/

theorem walk_pm (c : PrefixCode) (fuel len code first index : Nat) (s : St) :
    PMAt (c.walk fuel len code first index) s (fun _ _ => True) := by
  induction fuel generalizing len code first index s with
  | zero => exact PMAt.corrupt
  | succ fuel ih =>
    rw [PrefixCode.walk]
    pm_walk

macro_rules | `(tactic| pm_leaf) => `(tactic| apply walk_pm)

theorem readSymbol_pm (c : PrefixCode) (s : St) : PMAt (readSymbol c) s (fun _ _ => True) := by
  unfold readSymbol
  pm_walk

macro_rules | `(tactic| pm_leaf) => `(tactic| apply readSymbol_pm)

theorem readSymbols_pm (width alphabetSize n : Nat) (s : St) :
    PMAt (readSymbols width alphabetSize n) s (fun _ _ => True) := by
  induction n generalizing s with
  | zero => exact PMAt.pure trivial
  | succ n ih =>
    rw [readSymbols]
    pm_walk

macro_rules | `(tactic| pm_leaf) => `(tactic| apply readSymbols_pm)

theorem readSimplePrefixCode_pm (alphabetSize : Nat) (s : St) :
    PMAt (readSimplePrefixCode alphabetSize) s (fun _ _ => True) := by
  unfold readSimplePrefixCode
  pm_walk

macro_rules | `(tactic| pm_leaf) => `(tactic| apply readSimplePrefixCode_pm)

theorem readCodeLengthCodeLengths_pm (order : List Nat) (space num : Nat) (acc : Array Nat) (s : St) :
    PMAt (readCodeLengthCodeLengths order space num acc) s (fun _ _ => True) := by
  induction order generalizing space num acc s with
  | nil =>
    rw [readCodeLengthCodeLengths]
    pm_walk
  | cons pos rest ih =>
    rw [readCodeLengthCodeLengths]
    pm_walk

macro_rules | `(tactic| pm_leaf) => `(tactic| apply readCodeLengthCodeLengths_pm)

theorem readCodeLengths_pm (cl : PrefixCode) (alphabetSize fuel : Nat) (st : LengthsState) (s : St) :
    PMAt (readCodeLengths cl alphabetSize fuel st) s (fun _ _ => True) := by
  induction fuel generalizing st s with
  | zero => exact PMAt.corrupt
  | succ fuel ih =>
    rw [readCodeLengths]
    pm_walk

macro_rules | `(tactic| pm_leaf) => `(tactic| apply readCodeLengths_pm)

theorem readComplexPrefixCode_pm (alphabetSize hskip : Nat) (s : St) :
    PMAt (readComplexPrefixCode alphabetSize hskip) s (fun _ _ => True) := by
  unfold readComplexPrefixCode
  pm_walk

macro_rules | `(tactic| pm_leaf) => `(tactic| apply readComplexPrefixCode_pm)

theorem readPrefixCode_pm (alphabetSize : Nat) (s : St) :
    PMAt (readPrefixCode alphabetSize) s (fun _ _ => True) := by
  unfold readPrefixCode
  pm_walk

macro_rules | `(tactic| pm_leaf) => `(tactic| apply readPrefixCode_pm)

theorem readPrefixCodes_pm (alphabetSize n : Nat) (acc : Array PrefixCode) (s : St) :
    PMAt (readPrefixCodes alphabetSize n acc) s (fun _ _ => True) := by
  induction n generalizing acc s with
  | zero => exact PMAt.pure trivial
  | succ n ih =>
    rw [readPrefixCodes]
    pm_walk

macro_rules | `(tactic| pm_leaf) => `(tactic| apply readPrefixCodes_pm)

end Compress.Proofs.BrCut
