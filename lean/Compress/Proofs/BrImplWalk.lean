/-
C02, layer (d), specification side: the counting decoder of RFC 7932
(`Brotli.readSymbol (PrefixCode.ofLengths lens)`) on the lengths of a complete
code list reads the canonical code word that starts the input, or fails.

The walk of the specification is the counting decoder of the DEFLATE
specification (`HuffTab.decodeAux`) in the state monad `Dec`; the theorem is
`FlateHuff.decode_res` transported along that correspondence.
-/
import Compress.Proofs.BrImplDefs

namespace Compress.Proofs.BrImpl
open Compress Compress.Brotli Compress.Prefix
open Compress.Proofs.PrefixCodes Compress.Proofs.FlateRefine

/-! ### the walk, one step -/

theorem walk_zero (c : PrefixCode) (len code first index : Nat) (st : St) :
    c.walk 0 len code first index st = (.error .corrupt, st) := rfl

theorem walk_nil (c : PrefixCode) (fuel len code first index used : Nat) (out : Array UInt8) :
    c.walk (fuel + 1) len code first index ⟨[], used, out⟩ =
      (.error .unexpectedEOF, ⟨[], used, out⟩) := rfl

theorem walk_cons (c : PrefixCode) (fuel len code first index used : Nat) (out : Array UInt8)
    (b : Bool) (rest : Bits) :
    c.walk (fuel + 1) len code first index ⟨b :: rest, used, out⟩ =
      (if code + (if b then 1 else 0) < first + c.count.getD len 0 then
        (match c.syms[index + (code + (if b then 1 else 0) - first)]? with
        | some s => pure s
        | none => corrupt : Dec Nat)
      else c.walk fuel (len + 1) (2 * (code + (if b then 1 else 0)))
        (2 * (first + c.count.getD len 0)) (index + c.count.getD len 0)) ⟨rest, used + 1, out⟩ := rfl

/-- the tables of a code, as tables of the DEFLATE counting decoder. -/
def tabOfCode (c : PrefixCode) : Flate.HuffTab := { count := c.count, sorted := c.syms }

/-- the walk in `Dec` follows `HuffTab.decodeAux` on the unread bits. -/
theorem walk_bridge (c : PrefixCode) : ∀ (fuel len code first index : Nat) (st : St),
    (∀ s rest, (tabOfCode c).decodeAux fuel len code first index st.bits = .sym s rest →
      ∃ k, k ≤ st.bits.length ∧ st.bits.drop k = rest ∧
        c.walk fuel len code first index st = (.ok s, stAt st k)) ∧
    ((tabOfCode c).decodeAux fuel len code first index st.bits = .eof →
      ∃ e st', c.walk fuel len code first index st = (.error e, st') ∧ st'.out = st.out) := by
  intro fuel
  induction fuel with
  | zero =>
    intro len code first index st
    exact ⟨fun s rest h => (by cases h), fun h => (by cases h)⟩
  | succ fuel ih =>
    intro len code first index st
    obtain ⟨bits, used, out⟩ := st
    cases bits with
    | nil =>
      refine ⟨fun s rest h => ?_, fun _ => ⟨_, _, walk_nil .., rfl⟩⟩
      rw [decodeAux_nil] at h
      split at h <;> cases h
    | cons b rest0 =>
      simp only [decodeAux_cons, walk_cons, tabOfCode]
      by_cases hf : code + (if b then 1 else 0) < first + c.count.getD len 0
      · simp only [if_pos hf]
        cases hsy : c.syms[index + (code + (if b then 1 else 0) - first)]? with
        | none =>
          exact ⟨fun s rest h => (by cases h), fun h => (by cases h)⟩
        | some s0 =>
          refine ⟨fun s rest h => ?_, fun h => (by cases h)⟩
          simp only [Flate.Sym.sym.injEq] at h
          obtain ⟨rfl, rfl⟩ := h
          exact ⟨1, by simp, rfl, rfl⟩
      · simp only [if_neg hf]
        by_cases he : index + c.count.getD len 0 ≥ c.syms.size
        · simp only [if_pos he]
          exact ⟨fun s rest h => (by cases h), fun h => (by cases h)⟩
        · simp only [if_neg he]
          have := ih (len + 1) (2 * (code + (if b then 1 else 0)))
            (2 * (first + c.count.getD len 0)) (index + c.count.getD len 0) ⟨rest0, used + 1, out⟩
          refine ⟨fun s rest h => ?_, fun h => ?_⟩
          · obtain ⟨k, hk, hd, hw⟩ := this.1 s rest h
            refine ⟨k + 1, by simpa using hk, by simpa using hd, ?_⟩
            rw [hw]
            simp [stAt, Nat.add_assoc, Nat.add_comm 1 k]
          · exact this.2 h

/-! ### the tables of `ofLengths (lensArr n cs)` -/

theorem sorted_ext : ∀ (X Y : List Nat), X.Pairwise (· < ·) → Y.Pairwise (· < ·) →
    (∀ s, s ∈ X ↔ s ∈ Y) → X = Y := by
  intro X
  induction X with
  | nil =>
    intro Y _ _ h
    cases Y with
    | nil => rfl
    | cons y Y => exact absurd ((h y).2 List.mem_cons_self) (by simp)
  | cons x X ih =>
    intro Y hX hY h
    cases Y with
    | nil => exact absurd ((h x).1 List.mem_cons_self) (by simp)
    | cons y Y =>
      obtain ⟨hx, hX'⟩ := List.pairwise_cons.1 hX
      obtain ⟨hy, hY'⟩ := List.pairwise_cons.1 hY
      have hxy : x = y := by
        rcases List.mem_cons.1 ((h x).1 List.mem_cons_self) with e | hxY
        · exact e
        · rcases List.mem_cons.1 ((h y).2 List.mem_cons_self) with e | hyX
          · exact e.symm
          · have := hx y hyX; have := hy x hxY; omega
      subst hxy
      congr 1
      apply ih Y hX' hY'
      intro s
      constructor
      · intro hs
        rcases List.mem_cons.1 ((h s).1 (List.mem_cons_of_mem _ hs)) with e | h'
        · have := hx s hs; omega
        · exact h'
      · intro hs
        rcases List.mem_cons.1 ((h s).2 (List.mem_cons_of_mem _ hs)) with e | h'
        · have := hy s hs; omega
        · exact h'

theorem zipIdx_pairwise (L : List Nat) (k : Nat) :
    (L.zipIdx k).Pairwise (fun a b => a.2 < b.2) := by
  induction L generalizing k with
  | nil => simp
  | cons x L ih =>
    rw [List.zipIdx_cons, List.pairwise_cons]
    refine ⟨?_, ih _⟩
    rintro ⟨y, i⟩ hp
    have := (List.mem_zipIdx hp).1
    show k < i
    omega

/-- the symbols of length `l` of a length vector, as the specification lists them. -/
def symsOfLen (lens : Array Nat) (l : Nat) : List Nat :=
  lens.toList.zipIdx.filterMap (fun (len, s) => if len = l then some s else none)

theorem symsOfLen_pairwise (lens : Array Nat) (l : Nat) : (symsOfLen lens l).Pairwise (· < ·) := by
  unfold symsOfLen
  apply List.Pairwise.filterMap _ _ (zipIdx_pairwise _ 0)
  rintro ⟨x, i⟩ ⟨y, j⟩ hij b hb b' hb'
  simp only at hb hb' hij
  split at hb <;> split at hb' <;> simp only [Option.some.injEq, reduceCtorEq] at hb hb'
  omega

theorem mem_symsOfLen (lens : Array Nat) (l s : Nat) : s ∈ symsOfLen lens l ↔ lens[s]? = some l := by
  unfold symsOfLen
  rw [List.mem_filterMap]
  constructor
  · rintro ⟨⟨x, i⟩, hm, hg⟩
    rw [List.mem_zipIdx_iff_getElem?] at hm
    simp only at hm hg
    split at hg
    · simp only [Option.some.injEq] at hg
      subst hg; rename_i e; subst e
      rw [← Array.getElem?_toList]; exact hm
    · cases hg
  · intro h
    refine ⟨(l, s), ?_, by simp⟩
    rw [List.mem_zipIdx_iff_getElem?, Array.getElem?_toList]
    exact h

theorem lens_fold_size (cs : List Code) (a : Array Nat) :
    (cs.foldl (fun a c => a.setIfInBounds c.sym c.len) a).size = a.size := by
  induction cs generalizing a with
  | nil => rfl
  | cons c cs ih => rw [List.foldl_cons, ih, Array.size_setIfInBounds]

theorem lens_fold_other (cs : List Code) (a : Array Nat) (s : Nat) (h : ∀ c ∈ cs, c.sym ≠ s) :
    (cs.foldl (fun a c => a.setIfInBounds c.sym c.len) a)[s]? = a[s]? := by
  induction cs generalizing a with
  | nil => rfl
  | cons c cs ih =>
    rw [List.foldl_cons, ih _ (fun x hx => h x (List.mem_cons_of_mem _ hx)),
      Array.getElem?_setIfInBounds_ne (h c List.mem_cons_self)]

theorem lens_fold_mem (cs : List Code) (a : Array Nat) (hp : cs.Pairwise (fun x y => x.sym < y.sym))
    (c : Code) (hc : c ∈ cs) (hs : c.sym < a.size) :
    (cs.foldl (fun a c => a.setIfInBounds c.sym c.len) a)[c.sym]? = some c.len := by
  induction cs generalizing a with
  | nil => cases hc
  | cons c0 cs ih =>
    obtain ⟨h0, hp'⟩ := List.pairwise_cons.1 hp
    rw [List.foldl_cons]
    rcases List.mem_cons.1 hc with rfl | hc'
    · rw [lens_fold_other _ _ _ (fun x hx => by have := h0 x hx; omega),
        Array.getElem?_setIfInBounds, if_pos rfl, if_pos hs]
    · exact ih _ hp' hc' (by rw [Array.size_setIfInBounds]; exact hs)

theorem lensArr_size (n : Nat) (cs : List Code) : (lensArr n cs).size = n := by
  unfold lensArr; rw [lens_fold_size, Array.size_replicate]

theorem lensArr_mem (n : Nat) (cs : List Code) (hinc : symsIncreasing cs = true)
    (hn : ∀ c ∈ cs, c.sym < n) (c : Code) (hc : c ∈ cs) : (lensArr n cs)[c.sym]? = some c.len := by
  unfold lensArr
  exact lens_fold_mem cs _ (symsIncreasing_pairwise cs hinc) c hc
    (by rw [Array.size_replicate]; exact hn c hc)

theorem lensArr_other (n : Nat) (cs : List Code) (s : Nat) (h : ∀ c ∈ cs, c.sym ≠ s) :
    (lensArr n cs)[s]? = if s < n then some 0 else none := by
  unfold lensArr
  rw [lens_fold_other _ _ _ h]
  simp [Array.getElem?_replicate]

theorem symsOfLen_lensArr (n : Nat) (cs : List Code) (hinc : symsIncreasing cs = true)
    (hn : ∀ c ∈ cs, c.sym < n) (l : Nat) (hl : 1 ≤ l) :
    symsOfLen (lensArr n cs) l = symsL cs l := by
  have hp := symsIncreasing_pairwise cs hinc
  apply sorted_ext _ _ (symsOfLen_pairwise _ _)
  · unfold symsL
    rw [List.pairwise_map]
    exact hp.sublist List.filter_sublist
  · intro s
    rw [mem_symsOfLen]
    unfold symsL
    simp only [List.mem_map, List.mem_filter, beq_iff_eq]
    constructor
    · intro h
      by_cases hex : ∃ c ∈ cs, c.sym = s
      · obtain ⟨c, hc, rfl⟩ := hex
        rw [lensArr_mem n cs hinc hn c hc] at h
        exact ⟨c, ⟨hc, Option.some.inj h⟩, rfl⟩
      · rw [lensArr_other n cs s (fun c hc e => hex ⟨c, hc, e⟩)] at h
        split at h
        · have := Option.some.inj h; omega
        · cases h
    · rintro ⟨c, ⟨hc, rfl⟩, rfl⟩
      exact lensArr_mem n cs hinc hn c hc

theorem ofLengths_count (lens : Array Nat) (l : Nat) (h1 : 1 ≤ l) (h15 : l ≤ 15) :
    (PrefixCode.ofLengths lens).count.getD l 0 = (symsOfLen lens l).length := by
  have : l < 16 := by omega
  have h0 : l ≠ 0 := by omega
  simp [PrefixCode.ofLengths, maxCodeLen, this, h0, symsOfLen]

theorem ofLengths_syms (lens : Array Nat) :
    (PrefixCode.ofLengths lens).syms =
      (((List.range 15).map (fun i => symsOfLen lens (i + 1))).flatten).toArray := rfl

theorem tabOK_ofLengths (n : Nat) (cs : List Code) (hinc : symsIncreasing cs = true)
    (hn : ∀ c ∈ cs, c.sym < n) : TabOK (tabOfCode (PrefixCode.ofLengths (lensArr n cs))) cs := by
  constructor
  · intro l h1 h15
    show (PrefixCode.ofLengths (lensArr n cs)).count.getD l 0 = _
    rw [ofLengths_count _ l h1 h15, symsOfLen_lensArr n cs hinc hn l h1, symsL_length]
  · show (PrefixCode.ofLengths (lensArr n cs)).syms = _
    rw [ofLengths_syms]
    unfold pre
    congr 2
    apply List.map_congr_left
    intro i _
    exact symsOfLen_lensArr n cs hinc hn (i + 1) (by omega)

/-! ### number of symbols -/

theorem idx_cons (c : Code) (cs : List Code) (k : Nat) :
    idx (c :: cs) k = idx cs k + (if 1 ≤ c.len ∧ c.len ≤ k then 1 else 0) := by
  induction k with
  | zero => rw [idx_zero, idx_zero, if_neg (by omega)]
  | succ k ih =>
    rw [idx_succ, idx_succ, ih, lenCount_cons]
    by_cases h1 : c.len = k + 1
    · rw [if_pos h1, if_neg (by omega), if_pos (by omega)]; omega
    · rw [if_neg h1]
      by_cases h2 : 1 ≤ c.len ∧ c.len ≤ k
      · rw [if_pos h2, if_pos (by omega)]; omega
      · rw [if_neg h2, if_neg (by omega)]; omega

theorem idx_length (cs : List Code) (h : ∀ c ∈ cs, 1 ≤ c.len ∧ c.len ≤ 15) : idx cs 15 = cs.length := by
  induction cs with
  | nil => rfl
  | cons c cs ih =>
    rw [idx_cons, ih (fun x hx => h x (List.mem_cons_of_mem _ hx)), if_pos (h c List.mem_cons_self)]
    rfl

/-! ### the theorem -/

theorem walkSpec : WalkSpec := by
  intro cs n h2 hinc hn ok st
  have ht := tabOK_ofLengths n cs hinc hn
  have hsz : (PrefixCode.ofLengths (lensArr n cs)).syms.size ≠ 1 := by
    have e : (PrefixCode.ofLengths (lensArr n cs)).syms = (pre cs 15).toArray := ht.sorted
    rw [e]
    show idx cs 15 ≠ 1
    rw [idx_length cs ok.lens]; omega
  have hrd : Brotli.readSymbol (PrefixCode.ofLengths (lensArr n cs)) st =
      (PrefixCode.ofLengths (lensArr n cs)).walk 15 1 0 0 0 st := by
    unfold Brotli.readSymbol
    rw [if_neg hsz]; rfl
  rw [hrd]
  obtain ⟨hsym, heof⟩ := walk_bridge (PrefixCode.ofLengths (lensArr n cs)) 15 1 0 0 0 st
  rcases decode_res _ cs ht ok st.bits with ⟨c, hc, rest, hfull, hdec⟩ | ⟨hdec, _, hno⟩
  · left
    obtain ⟨k, hk, hd, hw⟩ := hsym c.sym rest hdec
    refine ⟨c, hc, rest, hfull, ?_⟩
    rw [hw]
    have hlen := congrArg List.length hd
    rw [List.length_drop, hfull, List.length_append, word_length] at hlen
    rw [hfull, List.length_append, word_length] at hk
    have : k = c.len := by omega
    rw [this]
  · right
    exact ⟨hno, heof hdec⟩

end Compress.Proofs.BrImpl
