/-
C02 refinement, the three fixed prefix codes of prefix.go (`decWinBits`,
`decCounts`, `decMaxRLE`): the tables `prefixDecoder.Init(codes, false)` builds,
looked up by `ReadSymbol`, read WBITS (RFC 7932 section 9.1), NBLTYPESx/NTREESx
(section 9.2) and RLEMAX (section 7.3) exactly as the specification does.

Route: with `assignCodes = false` and the checks of `Init` passed (finite facts,
`InitOK`), `Impl.initDecoder` is the verified `Prefix.Decoder.init`
(`initDecoder_false`); its look-up on any value whose low `len` bits are a
code's value yields that code (`decoder_lookup_val`), so `Impl.readSymbol` is in
closed form on the number the remaining bits spell (`readSymbol_init`); the
specification's readers are put in closed form on the same number.
-/
import Compress.Proofs.BrImplPrims
import Compress.Proofs.BitIONat

namespace Compress.Proofs.BrImpl
open Compress Compress.Brotli Compress.Prefix Compress.Proofs.PrefixTables

namespace Fixed   -- helper lemmas live in `BrImpl.Fixed`; the three results are in `BrImpl`

/-! ### bit lists as numbers, without length conditions -/

theorem toNat_take (bits : Bits) (k : Nat) : Bits.toNat (bits.take k) = Bits.toNat bits % 2 ^ k := by
  by_cases h : k ≤ bits.length
  · exact (BitIO.toNat_take_drop bits k h).1
  · rw [List.take_of_length_le (by omega), Nat.mod_eq_of_lt]
    exact Nat.lt_of_lt_of_le (BitIO.toNat_lt bits) (Nat.pow_le_pow_right (by omega) (by omega))

theorem toNat_drop (bits : Bits) (k : Nat) : Bits.toNat (bits.drop k) = Bits.toNat bits / 2 ^ k := by
  by_cases h : k ≤ bits.length
  · exact (BitIO.toNat_take_drop bits k h).2
  · rw [List.drop_of_length_le (by omega), Nat.div_eq_of_lt]
    · rfl
    · exact Nat.lt_of_lt_of_le (BitIO.toNat_lt bits) (Nat.pow_le_pow_right (by omega) (by omega))

/-! ### `Init(codes, false)` is the verified `Decoder.init` -/

/-- the checks `prefixDecoder.Init` makes before it builds the tables. -/
def InitOK (codes : List Code) : Prop :=
  match codes with
  | c0 :: rest =>
    let minBits := rest.foldl (fun m c => min m c.len) c0.len
    let maxBits := rest.foldl (fun m c => max m c.len) c0.len
    codes.any (fun c => c.len > 15) = false ∧ symsIncreasing codes = true ∧ maxBits < 32 ∧ minBits ≠ 0 ∧
      (codes.getLast?.getD c0).sym < 2 ^ 27 ∧
      (nextCodesLoop codes (maxBits + 1 - minBits) minBits 0 []).2 = 2 ^ maxBits
  | [] => False

instance (cs : List Code) : Decidable (InitOK cs) := by
  unfold InitOK; split <;> infer_instance

/-- with `assignCodes = false` and at least two codes that pass the checks, the model of
    `prefixDecoder.Init` is `Prefix.Decoder.init`. -/
theorem initDecoder_false (c0 c1 : Code) (rest : List Code) (h : InitOK (c0 :: c1 :: rest)) :
    Impl.initDecoder (c0 :: c1 :: rest) false = .ok (Decoder.init (c0 :: c1 :: rest)) := by
  obtain ⟨h1, h2, h3, h4, h5, h6⟩ := h
  simp only [Impl.initDecoder]
  split
  · rename_i h; rw [h1] at h; cases h
  split
  · rename_i h; rw [h2] at h; cases h
  split
  · rename_i h; omega
  split
  · rename_i h; omega
  split
  · rename_i h; exact absurd h6 h
  have h0 : c0.len ≤ 27 := by
    simp only [List.any_cons, Bool.or_eq_false_iff] at h1
    have := h1.1
    simp only [decide_eq_false_iff_not] at this
    omega
  simp only [Decoder.init, List.foldl_cons, Nat.zero_max, valueBits, Nat.min_eq_right h0, Impl.fillTables]
  simp

theorem orEmpty_initDecoder_false (cs : List Code) (h2 : 2 ≤ cs.length) (h : InitOK cs) :
    Impl.orEmpty (Impl.initDecoder cs false) = Decoder.init cs := by
  match cs, h2 with
  | c0 :: c1 :: rest, _ => rw [initDecoder_false c0 c1 rest h]; rfl

/-! ### `ReadSymbol` on a verified table, in closed form -/

/-- what `decoder_lookup_val` needs of a code list. -/
structure FixedOK (cs : List Code) : Prop where
  two : 2 ≤ cs.length
  init : InitOK cs
  lens : ∀ c ∈ cs, c.len ≤ valueBits
  vals : ∀ c ∈ cs, c.val < 2 ^ c.len
  pf : PrefixFree cs

/-- `ReadSymbol` on the table of a good code list: when the number the remaining bits spell ends
    (low bits) in the value of code `c`, the result is `c`, or unexpected EOF when fewer than
    `c.len` bits are left. -/
theorem readSymbol_init (cs : List Code) (h : FixedOK cs) (c : Code) (hc : c ∈ cs) (st : St)
    (hv : Bits.toNat st.bits % 2 ^ c.len = c.val) :
    Impl.readSymbol (Decoder.init cs) (brOf st) =
      if c.len ≤ st.bits.length then (.ok c.sym, brOf (stAt st c.len))
      else (.error .unexpectedEOF, brOf st) := by
  have hlen : c.len ≤ 27 := h.lens c hc
  have hl : (Decoder.init cs).lookup (Bits.toNat (st.bits.take 32)) = (c.sym, c.len) := by
    apply decoder_lookup_val cs h.two h.lens h.vals h.pf c hc
    rw [toNat_take, Nat.mod_mod_of_dvd _ (Nat.pow_dvd_pow 2 (by omega)), hv]
  obtain ⟨n, ch1, res, hfold, hcm, hlm, hcb, hmb⟩ := init_fields cs h.two
  have inv := fill_inv cs h.pf h.vals _ n ((Decoder.init cs).linkMask + 1) ch1 res (by omega)
  rw [← hfold] at inv
  have hsz : (Decoder.init cs).chunks.size ≠ 0 := by
    have := inv.size1
    have hpos : 0 < 2 ^ (min (maxLen cs) 9) := Nat.two_pow_pos _
    simp only at this
    omega
  have hmin : (Decoder.init cs).minBits ≤ c.len := by rw [hmb]; exact minLen_le cs c hc
  unfold Impl.readSymbol
  simp only [brOf_bits, brOf_used, if_neg hsz, hl, List.length_take]
  by_cases hL : c.len ≤ st.bits.length
  · rw [if_neg (by omega), if_pos (by omega), if_pos hL]
    rfl
  · rw [if_neg hL]
    by_cases hm : min 32 st.bits.length < (Decoder.init cs).minBits
    · rw [if_pos hm]
    · rw [if_neg hm, if_neg (by omega)]

/-- a code word prefixes another: numerically. -/
theorem word_prefix_mod (a b : Code) (h : a.word <+: b.word) :
    a.len ≤ b.len ∧ b.val % 2 ^ a.len = a.val % 2 ^ a.len := by
  obtain ⟨t, ht⟩ := h
  have hlen := congrArg List.length ht
  simp only [Code.word, List.length_append, ofNat_length] at hlen
  have hn := congrArg Bits.toNat ht
  simp only [Code.word] at hn
  rw [toNat_ofNat_append, BitIO.toNat_ofNat] at hn
  refine ⟨by omega, ?_⟩
  have := congrArg (· % 2 ^ a.len) hn
  rw [Nat.add_mul_mod_self_left, Nat.mod_mod, Nat.mod_mod_of_dvd _ (Nat.pow_dvd_pow 2 (by omega))] at this
  exact this.symm

/-! ### the specification's primitives on the number the remaining bits spell -/

theorem Dec_bind_ok {α β : Type} {x : Dec α} {f : α → Dec β} {s s' : St} {a : α}
    (h : x s = (.ok a, s')) : (x >>= f) s = f a s' := by
  rw [Dec_bind_apply, h]

theorem Dec_bind_err {α β : Type} {x : Dec α} {f : α → Dec β} {s s' : St} {e : Err}
    (h : x s = (.error e, s')) : (x >>= f) s = (.error e, s') := by
  rw [Dec_bind_apply, h]

theorem Dec_map_ok {α β : Type} {x : Dec α} {f : α → β} {s s' : St} {a : α}
    (h : x s = (.ok a, s')) : (f <$> x) s = (.ok (f a), s') := by
  show (x >>= fun a => pure (f a)) s = _
  rw [Dec_bind_ok h]; rfl

theorem Dec_map_err {α β : Type} {x : Dec α} {f : α → β} {s s' : St} {e : Err}
    (h : x s = (.error e, s')) : (f <$> x) s = (.error e, s') := by
  show (x >>= fun a => pure (f a)) s = _
  rw [Dec_bind_err h]

theorem specReadBit_nil (st : St) (h : st.bits = []) :
    Brotli.readBit st = (.error .unexpectedEOF, st) := by
  rcases st with ⟨bits, used, out⟩
  simp only at h; subst h
  exact readBit_nil used out

theorem specReadBit_ne (st : St) (h : st.bits ≠ []) :
    Brotli.readBit st = (.ok (decide (Bits.toNat st.bits % 2 = 1)), stAt st 1) := by
  rcases st with ⟨bits, used, out⟩
  cases bits with
  | nil => exact absurd rfl h
  | cons b rest =>
    rw [readBit_cons]
    simp only [stAt, List.drop_succ_cons, List.drop_zero, Bits.toNat]
    cases b
    · simp
    · have : (1 + 2 * Bits.toNat rest) % 2 = 1 := by omega
      simp [this]

/-- `readBits n` after `k` bits: bits `k .. k+n` of the number. -/
theorem specReadBits_at (st : St) (k n : Nat) (h : k + n ≤ st.bits.length) :
    Brotli.readBits n (stAt st k) = (.ok (Bits.toNat st.bits / 2 ^ k % 2 ^ n), stAt st (k + n)) := by
  rw [(specReadBits_eq n (stAt st k)).1 (by simp only [stAt_bits, List.length_drop]; omega),
    stAt_stAt, stAt_bits, toNat_take, toNat_drop]

theorem specReadBits_at_eof (st : St) (k n : Nat) (hk : k ≤ st.bits.length) (h : st.bits.length < k + n) :
    ∃ st', Brotli.readBits n (stAt st k) = (.error .unexpectedEOF, st') ∧ st'.out = st.out := by
  obtain ⟨st', h1, h2⟩ := (specReadBits_eq n (stAt st k)).2 (by simp only [stAt_bits, List.length_drop]; omega)
  exact ⟨st', h1, by rw [h2]; rfl⟩

theorem simAt_ok {α : Type} {x : Impl.M α} {y : Dec α} {st : St} {a : α} {k : Nat}
    (hx : x (brOf st) = (.ok a, brOf (stAt st k))) (hy : y st = (.ok a, stAt st k))
    (hk : k ≤ st.bits.length) : SimAt (· = ·) x y st := by
  simp only [SimAt, hx, hy]
  exact ⟨k, hk, rfl, rfl, trivial⟩

theorem simAt_err {α : Type} {x : Impl.M α} {y : Dec α} {st st' : St} {e : Impl.BErr} {e' : Err}
    {r : Impl.BR} (hx : x (brOf st) = (.error e, r)) (he : e ≠ .eof)
    (hy : y st = (.error e', st')) (ho : st'.out = st.out) : SimAt (· = ·) x y st := by
  simp only [SimAt, hx, hy]
  exact ⟨he, ho⟩

/-! ### RLEMAX (section 7.3) -/

theorem maxRLE_ok : FixedOK Impl.codeMaxRLE :=
  ⟨by decide +kernel, by decide +kernel, by decide +kernel, by decide +kernel,
    by unfold PrefixFree; decide +kernel⟩

theorem decMaxRLE_eq : Impl.decMaxRLE = Decoder.init Impl.codeMaxRLE :=
  orEmpty_initDecoder_false _ maxRLE_ok.two maxRLE_ok.init

/-- the specification side of `MaxRLESim`. -/
def specMaxRLE : Dec Nat := do if (← Brotli.readBit) then (· + 1) <$> Brotli.readBits 4 else pure 0

theorem maxRLESim_aux (d : Decoder) (hd : d = Decoder.init Impl.codeMaxRLE) :
    Sim (Impl.readSymbol d) specMaxRLE := by
  intro st
  have hinit := fun c hc hv => readSymbol_init _ maxRLE_ok c hc st hv
  rw [← hd] at hinit
  have hmem0 : ({ sym := 0, val := 0, len := 1 } : Code) ∈ Impl.codeMaxRLE := by decide
  have hmem : ∀ x, x < 16 → ({ sym := x + 1, val := x * 2 + 1, len := 5 } : Code) ∈ Impl.codeMaxRLE := by
    decide
  by_cases hnil : st.bits = []
  · have hx := hinit _ hmem0 (by rw [hnil]; rfl)
    rw [if_neg (by rw [hnil]; simp)] at hx
    exact simAt_err hx (by decide) (Dec_bind_err (specReadBit_nil st hnil)) rfl
  have hL : 0 < st.bits.length := List.length_pos_iff.2 hnil
  have hb := specReadBit_ne st hnil
  by_cases hodd : Bits.toNat st.bits % 2 = 1
  · have hx := hinit _ (hmem (Bits.toNat st.bits / 2 % 16) (Nat.mod_lt _ (by omega)))
      (by show Bits.toNat st.bits % 32 = Bits.toNat st.bits / 2 % 16 * 2 + 1; omega)
    simp only at hx
    rw [decide_eq_true hodd] at hb
    by_cases h5 : 5 ≤ st.bits.length
    · rw [if_pos h5] at hx
      refine simAt_ok hx ?_ h5
      show (Brotli.readBit >>= fun b => if b = true then (· + 1) <$> Brotli.readBits 4 else pure 0) st = _
      rw [Dec_bind_ok hb, if_pos rfl, Dec_map_ok (specReadBits_at st 1 4 h5)]
    · rw [if_neg h5] at hx
      obtain ⟨st', h1, h2⟩ := specReadBits_at_eof st 1 4 hL (by omega)
      refine simAt_err (e' := .unexpectedEOF) hx (by decide) ?_ h2
      show (Brotli.readBit >>= fun b => if b = true then (· + 1) <$> Brotli.readBits 4 else pure 0) st = _
      rw [Dec_bind_ok hb, if_pos rfl, Dec_map_err h1]
  · have hx := hinit _ hmem0 (by show Bits.toNat st.bits % 2 = 0; omega)
    rw [if_pos (show 1 ≤ _ from hL)] at hx
    rw [decide_eq_false hodd] at hb
    refine simAt_ok hx ?_ hL
    show (Brotli.readBit >>= fun b => if b = true then (· + 1) <$> Brotli.readBits 4 else pure 0) st = _
    rw [Dec_bind_ok hb, if_neg (by decide)]
    rfl

/-! ### WBITS (section 9.1) -/

theorem M_bind_ok {α β : Type} {x : Impl.M α} {f : α → Impl.M β} {r r' : Impl.BR} {a : α}
    (h : x r = (.ok a, r')) : (x >>= f) r = f a r' := by
  rw [M_bind_apply, h]

theorem M_bind_err {α β : Type} {x : Impl.M α} {f : α → Impl.M β} {r r' : Impl.BR} {e : Impl.BErr}
    (h : x r = (.error e, r')) : (x >>= f) r = (.error e, r') := by
  rw [M_bind_apply, h]

theorem winBits_ok : FixedOK Impl.codeWinBits :=
  ⟨by decide +kernel, by decide +kernel, by decide +kernel, by decide +kernel,
    by unfold PrefixFree; decide +kernel⟩

theorem decWinBits_eq : Impl.decWinBits = Decoder.init Impl.codeWinBits :=
  orEmpty_initDecoder_false _ winBits_ok.two winBits_ok.init

theorem implWinBits_of (d : Decoder) (hd : d = Decoder.init Impl.codeWinBits) (st : St) (c : Code)
    (hc : c ∈ Impl.codeWinBits) (hv : Bits.toNat st.bits % 2 ^ c.len = c.val) :
    (do let w ← Impl.readSymbol d
        if w = 0 then Impl.panic .corrupted else pure w : Impl.M Nat) (brOf st) =
      if c.len ≤ st.bits.length then
        (if c.sym = 0 then (.error .corrupted, brOf (stAt st c.len)) else (.ok c.sym, brOf (stAt st c.len)))
      else (.error .unexpectedEOF, brOf st) := by
  have hx := readSymbol_init _ winBits_ok c hc st hv
  rw [← hd] at hx
  by_cases hL : c.len ≤ st.bits.length
  · rw [if_pos hL] at hx ⊢
    rw [M_bind_ok hx]
    by_cases h0 : c.sym = 0
    · rw [if_pos h0, if_pos h0]; rfl
    · rw [if_neg h0, if_neg h0]; rfl
  · rw [if_neg hL] at hx ⊢
    rw [M_bind_err hx]

theorem hmem16 : ({ sym := 16, val := 0, len := 1 } : Code) ∈ Impl.codeWinBits := by decide +kernel
theorem hmem4 : ∀ n, n < 8 → n ≠ 0 →
    ({ sym := 17 + n, val := n * 2 + 1, len := 4 } : Code) ∈ Impl.codeWinBits := by decide +kernel
theorem hmem17 : ({ sym := 17, val := 1, len := 7 } : Code) ∈ Impl.codeWinBits := by decide +kernel
theorem hmem0 : ({ sym := 0, val := 17, len := 7 } : Code) ∈ Impl.codeWinBits := by decide +kernel
theorem hmem7 : ∀ m, m < 8 → 2 ≤ m →
    ({ sym := 8 + m, val := m * 16 + 1, len := 7 } : Code) ∈ Impl.codeWinBits := by decide +kernel

/-- the specification on `1 000 yyy`. -/
theorem specWinBits_long (st : St) (hnil : st.bits ≠ []) (hodd : Bits.toNat st.bits % 2 = 1)
    (hn : Bits.toNat st.bits / 2 % 8 = 0) :
    (7 ≤ st.bits.length → Brotli.readWindowBits st =
      (if Bits.toNat st.bits / 16 % 8 = 0 then pure 17
       else if Bits.toNat st.bits / 16 % 8 = 1 then Brotli.corrupt
       else pure (8 + Bits.toNat st.bits / 16 % 8) : Dec Nat) (stAt st 7)) ∧
    (st.bits.length < 7 →
      ∃ st', Brotli.readWindowBits st = (.error .unexpectedEOF, st') ∧ st'.out = st.out) := by
  have hL : 0 < st.bits.length := List.length_pos_iff.2 hnil
  have hb := specReadBit_ne st hnil
  rw [decide_eq_true hodd] at hb
  have hstart : Brotli.readWindowBits st =
      (Brotli.readBits 3 >>= fun n => if n ≠ 0 then pure (17 + n) else
        Brotli.readBits 3 >>= fun m => if m = 0 then pure 17 else if m = 1 then Brotli.corrupt
          else pure (8 + m)) (stAt st 1) := by
    unfold Brotli.readWindowBits
    rw [Dec_bind_ok hb]
    simp only [Bool.not_true, Bool.false_eq_true, if_false]
  rw [hstart]
  constructor
  · intro h7
    rw [Dec_bind_ok (specReadBits_at st 1 3 (by omega))]
    simp only [Nat.pow_one]
    rw [if_neg (by omega), Dec_bind_ok (specReadBits_at st 4 3 h7)]
  · intro h7
    by_cases h4 : 4 ≤ st.bits.length
    · rw [Dec_bind_ok (specReadBits_at st 1 3 h4)]
      simp only [Nat.pow_one]
      rw [if_neg (by omega)]
      obtain ⟨st', h1, h2⟩ := specReadBits_at_eof st 4 3 h4 (by omega)
      exact ⟨st', Dec_bind_err h1, h2⟩
    · obtain ⟨st', h1, h2⟩ := specReadBits_at_eof st 1 3 hL (by omega)
      exact ⟨st', Dec_bind_err h1, h2⟩

theorem winBits_sim_aux (d : Decoder) (hd : d = Decoder.init Impl.codeWinBits) :
    Sim (do let w ← Impl.readSymbol d; if w = 0 then Impl.panic .corrupted else pure w)
      Brotli.readWindowBits := by
  intro st
  by_cases hnil : st.bits = []
  · have hx := implWinBits_of d hd st _ hmem16 (by rw [hnil]; rfl)
    rw [if_neg (by rw [hnil]; simp)] at hx
    refine simAt_err (e' := .unexpectedEOF) hx (by decide) ?_ rfl
    unfold Brotli.readWindowBits
    rw [Dec_bind_err (specReadBit_nil st hnil)]
  have hL : 0 < st.bits.length := List.length_pos_iff.2 hnil
  have hb := specReadBit_ne st hnil
  by_cases hodd : Bits.toNat st.bits % 2 = 1
  · rw [decide_eq_true hodd] at hb
    by_cases hn : Bits.toNat st.bits / 2 % 8 = 0
    · -- 1 000 yyy
      obtain ⟨hs1, hs2⟩ := specWinBits_long st hnil hodd hn
      by_cases hm0 : Bits.toNat st.bits / 16 % 8 = 0
      · have hx := implWinBits_of d hd st _ hmem17 (by show Bits.toNat st.bits % 128 = 1; omega)
        simp only at hx
        by_cases h7 : 7 ≤ st.bits.length
        · rw [if_pos h7, if_neg (by decide)] at hx
          refine simAt_ok hx ?_ h7
          rw [hs1 h7, if_pos hm0]; rfl
        · rw [if_neg h7] at hx
          obtain ⟨st', h1, h2⟩ := hs2 (by omega)
          exact simAt_err hx (by decide) h1 h2
      by_cases hm1 : Bits.toNat st.bits / 16 % 8 = 1
      · have hx := implWinBits_of d hd st _ hmem0 (by show Bits.toNat st.bits % 128 = 17; omega)
        simp only at hx
        by_cases h7 : 7 ≤ st.bits.length
        · rw [if_pos h7, if_pos trivial] at hx
          refine simAt_err (e' := .corrupt) (st' := stAt st 7) hx (by decide) ?_ rfl
          rw [hs1 h7, if_neg hm0, if_pos hm1]; rfl
        · rw [if_neg h7] at hx
          obtain ⟨st', h1, h2⟩ := hs2 (by omega)
          exact simAt_err hx (by decide) h1 h2
      · have hx := implWinBits_of d hd st _
          (hmem7 (Bits.toNat st.bits / 16 % 8) (Nat.mod_lt _ (by omega)) (by omega))
          (by show Bits.toNat st.bits % 128 = Bits.toNat st.bits / 16 % 8 * 16 + 1; omega)
        simp only at hx
        by_cases h7 : 7 ≤ st.bits.length
        · rw [if_pos h7, if_neg (by omega)] at hx
          refine simAt_ok hx ?_ h7
          rw [hs1 h7, if_neg hm0, if_neg hm1]; rfl
        · rw [if_neg h7] at hx
          obtain ⟨st', h1, h2⟩ := hs2 (by omega)
          exact simAt_err hx (by decide) h1 h2
    · -- 1 xxx
      have hx := implWinBits_of d hd st _ (hmem4 (Bits.toNat st.bits / 2 % 8) (Nat.mod_lt _ (by omega)) hn)
        (by show Bits.toNat st.bits % 16 = Bits.toNat st.bits / 2 % 8 * 2 + 1; omega)
      simp only at hx
      by_cases h4 : 4 ≤ st.bits.length
      · rw [if_pos h4, if_neg (by omega)] at hx
        refine simAt_ok hx ?_ h4
        unfold Brotli.readWindowBits
        rw [Dec_bind_ok hb]
        simp only [Bool.not_true, Bool.false_eq_true, if_false]
        rw [Dec_bind_ok (specReadBits_at st 1 3 h4)]
        simp only [Nat.pow_one]
        rw [if_pos hn]
        rfl
      · rw [if_neg h4] at hx
        obtain ⟨st', h1, h2⟩ := specReadBits_at_eof st 1 3 hL (by omega)
        refine simAt_err (e' := .unexpectedEOF) hx (by decide) ?_ h2
        unfold Brotli.readWindowBits
        rw [Dec_bind_ok hb]
        simp only [Bool.not_true, Bool.false_eq_true, if_false]
        rw [Dec_bind_err h1]
  · rw [decide_eq_false hodd] at hb
    have hx := implWinBits_of d hd st _ hmem16 (by show Bits.toNat st.bits % 2 = 0; omega)
    rw [if_pos (show 1 ≤ _ from hL), if_neg (by decide)] at hx
    refine simAt_ok hx ?_ hL
    unfold Brotli.readWindowBits
    rw [Dec_bind_ok hb]
    rfl

/-! ### NBLTYPESx / NTREESx (section 9.2) -/

/-- the code `1 nnn` + `n` extra bits `x`. -/
def countCode (n x : Nat) : Code := { sym := 2 ^ n + x + 1, val := x * 16 + n * 2 + 1, len := n + 4 }

theorem mem_codeCounts (c : Code) :
    c ∈ Impl.codeCounts ↔ c = { sym := 1, val := 0, len := 1 } ∨ ∃ n, n < 8 ∧ ∃ x, x < 2 ^ n ∧ c = countCode n x := by
  unfold Impl.codeCounts countCode
  rw [List.mem_cons, List.mem_flatten]
  constructor
  · rintro (h | ⟨l, hl, hc⟩)
    · exact Or.inl h
    · obtain ⟨n, hn, rfl⟩ := List.mem_map.1 hl
      obtain ⟨x, hx, rfl⟩ := List.mem_map.1 hc
      exact Or.inr ⟨n, List.mem_range.1 hn, x, List.mem_range.1 hx, rfl⟩
  · rintro (h | ⟨n, hn, x, hx, rfl⟩)
    · exact Or.inl h
    · exact Or.inr ⟨_, List.mem_map.2 ⟨n, List.mem_range.2 hn, rfl⟩,
        List.mem_map.2 ⟨x, List.mem_range.2 hx, rfl⟩⟩

theorem counts_pf : PrefixFree Impl.codeCounts := by
  intro a ha b hb hne hpre
  obtain ⟨hlen, hmod⟩ := word_prefix_mod a b hpre
  rcases (mem_codeCounts a).1 ha with rfl | ⟨n, hn, x, hx, rfl⟩ <;>
    rcases (mem_codeCounts b).1 hb with rfl | ⟨n', hn', x', hx', rfl⟩
  · exact hne rfl
  · simp only [countCode, Nat.pow_one] at hmod
    omega
  · simp only [countCode] at hlen
    omega
  · simp only [countCode] at hlen hmod
    have e : 2 ^ (n + 4) = 2 ^ n * 16 := by rw [Nat.pow_add]
    rw [e] at hmod
    have hlt : x * 16 + n * 2 + 1 < 2 ^ n * 16 := by omega
    rw [Nat.mod_eq_of_lt hlt] at hmod
    have h16 := congrArg (· % 16) hmod
    simp only [Nat.mod_mul_left_mod] at h16
    have hnn : n' = n := by omega
    subst hnn
    have hlt' : x' * 16 + n' * 2 + 1 < 2 ^ n' * 16 := by omega
    rw [Nat.mod_eq_of_lt hlt'] at hmod
    have hxx : x' = x := by omega
    subst hxx
    exact hne rfl

theorem counts_ok : FixedOK Impl.codeCounts :=
  ⟨by decide +kernel, by decide +kernel, by decide +kernel, by decide +kernel, counts_pf⟩

theorem decCounts_eq : Impl.decCounts = Decoder.init Impl.codeCounts :=
  orEmpty_initDecoder_false _ counts_ok.two counts_ok.init

theorem counts_odd (d : Decoder) (hd : d = Decoder.init Impl.codeCounts) (st : St) (hnil : st.bits ≠ [])
    (hodd : Bits.toNat st.bits % 2 = 1) (n x : Nat) (hn : n = Bits.toNat st.bits / 2 % 8)
    (hxd : x = Bits.toNat st.bits / 16 % 2 ^ n) :
    SimAt (· = ·) (Impl.readSymbol d) Brotli.readCount256 st := by
  have hL : 0 < st.bits.length := List.length_pos_iff.2 hnil
  have hb := specReadBit_ne st hnil
  rw [decide_eq_true hodd] at hb
  have hn8 : n < 8 := by omega
  have hxlt : x < 2 ^ n := by rw [hxd]; exact Nat.mod_lt _ (Nat.two_pow_pos _)
  have hv : Bits.toNat st.bits % 2 ^ (n + 4) = x * 16 + n * 2 + 1 := by
    rw [Nat.pow_add, Nat.mul_comm, show (2:Nat) ^ 4 = 16 from rfl, Nat.mod_mul, ← hxd]
    omega
  have hx : Impl.readSymbol d (brOf st) =
      if n + 4 ≤ st.bits.length then (.ok (2 ^ n + x + 1), brOf (stAt st (n + 4)))
      else (.error .unexpectedEOF, brOf st) := by
    rw [hd]
    exact readSymbol_init _ counts_ok (countCode n x)
      ((mem_codeCounts _).2 (Or.inr ⟨n, hn8, x, hxlt, rfl⟩)) st hv
  have hstart : Brotli.readCount256 st =
      (Brotli.readBits 3 >>= fun n => Brotli.readBits n >>= fun extra => pure (2 ^ n + extra + 1)) (stAt st 1) := by
    unfold Brotli.readCount256
    rw [Dec_bind_ok hb]
    simp only [Bool.not_true, Bool.false_eq_true, if_false]
  by_cases h4 : 4 ≤ st.bits.length
  · have h3 : Brotli.readBits 3 (stAt st 1) = (.ok n, stAt st 4) := by
      rw [specReadBits_at st 1 3 h4, hn]
    by_cases hLn : n + 4 ≤ st.bits.length
    · rw [if_pos hLn] at hx
      refine simAt_ok hx ?_ hLn
      have h5 := specReadBits_at st 4 n (by omega)
      rw [Nat.add_comm 4 n, show (2:Nat) ^ 4 = 16 from rfl, ← hxd] at h5
      rw [hstart, Dec_bind_ok h3, Dec_bind_ok h5]
      rfl
    · rw [if_neg hLn] at hx
      obtain ⟨st', h1, h2⟩ := specReadBits_at_eof st 4 n h4 (by omega)
      refine simAt_err (e' := .unexpectedEOF) hx (by decide) ?_ h2
      rw [hstart, Dec_bind_ok h3, Dec_bind_err h1]
  · rw [if_neg (by omega)] at hx
    obtain ⟨st', h1, h2⟩ := specReadBits_at_eof st 1 3 hL (by omega)
    refine simAt_err (e' := .unexpectedEOF) hx (by decide) ?_ h2
    rw [hstart, Dec_bind_err h1]

theorem countsSim_aux (d : Decoder) (hd : d = Decoder.init Impl.codeCounts) :
    Sim (Impl.readSymbol d) Brotli.readCount256 := by
  intro st
  have hinit := fun c hc hv => readSymbol_init _ counts_ok c hc st hv
  rw [← hd] at hinit
  have hmem1 : ({ sym := 1, val := 0, len := 1 } : Code) ∈ Impl.codeCounts := (mem_codeCounts _).2 (Or.inl rfl)
  by_cases hnil : st.bits = []
  · have hx := hinit _ hmem1 (by rw [hnil]; rfl)
    rw [if_neg (by rw [hnil]; simp)] at hx
    refine simAt_err (e' := .unexpectedEOF) hx (by decide) ?_ rfl
    unfold Brotli.readCount256
    rw [Dec_bind_err (specReadBit_nil st hnil)]
  have hL : 0 < st.bits.length := List.length_pos_iff.2 hnil
  have hb := specReadBit_ne st hnil
  by_cases hodd : Bits.toNat st.bits % 2 = 1
  · exact counts_odd d hd st hnil hodd _ _ rfl rfl
  · rw [decide_eq_false hodd] at hb
    have hx := hinit _ hmem1 (by show Bits.toNat st.bits % 2 = 0; omega)
    rw [if_pos (show 1 ≤ _ from hL)] at hx
    refine simAt_ok hx ?_ hL
    unfold Brotli.readCount256
    rw [Dec_bind_ok hb]
    rfl

end Fixed

open Fixed

/- The elaborator runs `whnf` (default transparency) on types of the form `SimAt .. x .. st` / on the
   body of `Sim x y` (implicit-lambda and opt-param checks).  `SimAt` is a `match` on `x (brOf st)`, so
   with `x` built on the closed term `Impl.decWinBits` that would evaluate the whole table ("maximum
   recursion depth").  Hence the decoder variable `d` in the `_aux` theorems above, and the following
   line, which files that *use* the three theorems below need as well. -/
attribute [local irreducible] Impl.decWinBits Impl.decCounts Impl.decMaxRLE

/-- WBITS through `decWinBits`; the reserved code 0010001 is symbol 0 of the table, refused. -/
theorem winBits_sim :
    Sim (do let w ← Impl.readSymbol Impl.decWinBits; if w = 0 then Impl.panic .corrupted else pure w)
      Brotli.readWindowBits :=
  winBits_sim_aux Impl.decWinBits decWinBits_eq

/-- NBLTYPESx / NTREESx through `decCounts`. -/
theorem countsSim : CountsSim :=
  countsSim_aux Impl.decCounts decCounts_eq

/-- RLEMAX through `decMaxRLE`. -/
theorem maxRLESim : MaxRLESim :=
  maxRLESim_aux Impl.decMaxRLE decMaxRLE_eq

end Compress.Proofs.BrImpl
