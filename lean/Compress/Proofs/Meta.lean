/-
Lemmas behind C16: the meta encoder and decoder of `Compress.Meta.Codec` are
mutually inverse; size and single-block facts.
-/
import Compress.Meta.Codec
import Compress.Proofs.MetaWriter

namespace Compress.Proofs.Meta
open Compress Compress.Meta

/-- `computeHuffLen` only answers with a length that can hold the data: the
    result is 0 or lies in 1..7 and leaves room for the eight flag bits on both
    sides. -/
theorem computeHuffLen_sound (zeros ones : Nat) :
    let r := computeHuffLen zeros ones
    r.1 = 0 ∨ (1 ≤ r.1 ∧ r.1 ≤ 7 ∧
      (let z := if r.2 then ones else zeros
       let o := if r.2 then zeros else ones
       2 ^ r.1 + (z + 8) ≤ 257 ∧ o + 8 ≤ 2 ^ r.1) ∧ (r.2 = true ↔ ones > zeros)) := by
  exact computeHuffLen_sound_aux zeros ones

/-- Every payload of up to 22 bytes has a code length (whatever its bit weight). -/
theorem computeHuffLen_fit22 (zeros ones : Nat) (h : zeros + ones ≤ 8 * 22) :
    (computeHuffLen zeros ones).1 > 0 := by
  exact computeHuffLen_fit22_aux zeros ones h

/-- The 257 symbol bits: right length, first bit zero, last bit (EOB) one,
    exactly `2^h` ones. -/
theorem symbolBits_shape (buf : List UInt8) (h : Nat) (final invert : Bool)
    (hlen : buf.length ≤ 31)
    (hz : 2 ^ h + (Bits.countZeros (Bits.ofBytes (if invert then buf.map (fun b => ~~~ b) else buf)) + 8) ≤ 257)
    (ho : Bits.countOnes (Bits.ofBytes (if invert then buf.map (fun b => ~~~ b) else buf)) + 8 ≤ 2 ^ h) :
    let s := symbolBits buf h final invert
    s.length = 257 ∧ s.head? = some false ∧ s.getD 256 false = true ∧ Bits.countOnes s = 2 ^ h := by
  exact symbolBits_shape_aux buf h final invert hlen hz ho

/-- **Block round trip.** Whatever follows the block in the input, decoding the
    encoder's bits returns the payload, the final mode and exactly the block's
    length. -/
theorem decodeBlock_encodeBlock (buf : List UInt8) (final : FinalMode) (bits rest : Bits)
    (h : encodeBlock buf final = some bits) :
    decodeBlock (bits ++ rest) = .ok { payload := buf, final := final, consumed := bits.length } := by
  exact decodeBlock_encodeBlock_aux buf final bits rest h

/-- Encoded blocks are whole bytes. -/
theorem encodeBlock_aligned (buf : List UInt8) (final : FinalMode) (bits : Bits)
    (h : encodeBlock buf final = some bits) : bits.length % 8 = 0 := by
  exact encodeBlock_aligned_aux buf final bits h

/-- `Writer.Write` never fails to encode what it buffered. -/
theorem writeBytes_total (payload : List UInt8) : ∃ s, writeBytes {} payload = some s := by
  exact writeBytes_total_aux payload

/-- A payload of up to 22 bytes is encoded as exactly one block. -/
theorem encode_fit22 (payload : List UInt8) (final : FinalMode) (h : payload.length ≤ 22) :
    ∃ b, encode payload final = some [b] := by
  exact encode_fit22_aux payload final h

/-- **Stream round trip.** For every payload (any length) and final mode, the
    encoder succeeds and the decoder returns the payload, the mode, the number
    of blocks and consumes every byte. -/
theorem decode_encode (payload : List UInt8) (final : FinalMode) :
    ∃ blocks, encode payload final = some blocks ∧
      decode blocks.flatten = .ok { payload := payload, final := final, blocks := blocks.length,
                                    consumed := blocks.flatten.length } := by
  exact decode_encode_aux payload final

end Compress.Proofs.Meta
