/-
C17 helpers: the ghost byte counter of `openIndex` against the merged index.
-/
import Compress.XFlate.Open

namespace Compress.Proofs.XCostOpen
open Compress Compress.XFlate

/-- sum of the compressed sizes of the index-type records of `recs`, taken against the
    preceding record (`prevComp` for the first one). -/
def idxSum : List Record → Int → Int
  | [], _ => 0
  | r :: rs, prevComp => (if r.typ = indexType then r.comp - prevComp else 0) + idxSum rs r.comp

/-- compressed offset of the last record, `c` when there is none. -/
def lastCompOr : List Record → Int → Int
  | [], c => c
  | r :: rs, _ => lastCompOr rs r.comp

theorem lastCompOr_zero : ∀ (recs : List Record), lastCompOr recs 0 = (lastRecord recs).comp := by
  have h : ∀ (recs : List Record) (c : Int),
      lastCompOr recs c = (match recs.getLast? with | some r => r.comp | none => c) := by
    intro recs
    induction recs with
    | nil => intro c; rfl
    | cons a rs ih =>
      intro c
      rw [lastCompOr, ih]
      cases rs with
      | nil => rfl
      | cons b rs' =>
        rw [List.getLast?_cons_cons]
        cases hgl : (b :: rs').getLast? with
        | none => simp at hgl
        | some x => rfl
  intro recs
  rw [h]
  unfold lastRecord
  cases recs.getLast? <;> rfl

theorem idxSum_snoc : ∀ (recs : List Record) (c : Int) (r : Record),
    idxSum (recs ++ [r]) c =
      idxSum recs c + (if r.typ = indexType then r.comp - lastCompOr recs c else 0)
  | [], c, r => by simp [idxSum, lastCompOr]
  | a :: rs, c, r => by
    simp only [List.cons_append, idxSum, lastCompOr]
    rw [idxSum_snoc rs a.comp r]
    omega

theorem appendRecord_sum (recs : List Record) (cs rs : Int) (t : Nat) (out : List Record)
    (h : appendRecord recs cs rs t = some out) :
    idxSum out 0 = idxSum recs 0 + (if t = indexType then cs else 0) := by
  unfold appendRecord at h
  split at h
  · cases h
  · simp only [] at h
    split at h
    · cases h
    · have := (Option.some.inj h).symm
      subst this
      rw [idxSum_snoc, lastCompOr_zero]
      simp only []
      split <;> omega

theorem appendIndex_go_sum : ∀ (other : List Record) (acc : List Record) (pre : Record)
    (out : List Record), (∀ r ∈ other, r.typ ≠ indexType) →
    appendIndex.go acc pre other = some out → idxSum out 0 = idxSum acc 0
  | [], acc, pre, out, _, h => by
    simp only [appendIndex.go] at h
    rw [← Option.some.inj h]
  | r :: rs, acc, pre, out, ht, h => by
    simp only [appendIndex.go] at h
    cases ha : appendRecord acc (r.comp - pre.comp) (r.raw - pre.raw) r.typ with
    | none => rw [ha] at h; cases h
    | some acc' =>
      rw [ha] at h
      simp only [] at h
      have h1 := appendRecord_sum _ _ _ _ _ ha
      rw [if_neg (ht r (List.mem_cons_self ..))] at h1
      have h2 := appendIndex_go_sum rs acc' r out (fun q hq => ht q (List.mem_cons_of_mem _ hq)) h
      omega

theorem mergeIndexes_sum : ∀ (idxs : List (Int × List Record)) (recs out : List Record),
    (∀ p ∈ idxs, ∀ r ∈ p.2, r.typ ≠ indexType) →
    mergeIndexes idxs recs = .ok out →
    idxSum out 0 = (idxs.map (·.1)).foldl (· + ·) (idxSum recs 0)
  | [], recs, out, _, h => by
    simp only [mergeIndexes] at h
    cases h
    rfl
  | (isz, irecs) :: rest, recs, out, ht, h => by
    simp only [mergeIndexes] at h
    cases h1 : appendIndex recs irecs with
    | none => rw [h1] at h; cases h
    | some r1 =>
      rw [h1] at h
      simp only [] at h
      cases h2 : appendRecord r1 isz 0 indexType with
      | none => rw [h2] at h; cases h
      | some r2 =>
        rw [h2] at h
        simp only [] at h
        have e1 : idxSum r1 0 = idxSum recs 0 :=
          appendIndex_go_sum irecs recs Record.zero r1
            (ht (isz, irecs) (List.mem_cons_self ..)) h1
        have e2 := appendRecord_sum _ _ _ _ _ h2
        rw [if_pos rfl] at e2
        have e3 := mergeIndexes_sum rest r2 out (fun p hp => ht p (List.mem_cons_of_mem _ hp)) h
        rw [e3, e2, e1]
        rfl

/-! ### every record a decoded index carries is a deflate chunk -/

theorem build_typ : ∀ (chunks : List (Int × Int)) (acc out : List Record),
    (∀ r ∈ acc, r.typ = deflateType) →
    decodeIndex.build chunks acc = .ok out → ∀ r ∈ out, r.typ = deflateType
  | [], acc, out, ha, h => by
    simp only [decodeIndex.build] at h
    cases h
    exact ha
  | (cs, rs) :: rest, acc, out, ha, h => by
    simp only [decodeIndex.build] at h
    split at h
    · cases h
    · cases hap : appendRecord acc cs rs deflateType with
      | none => rw [hap] at h; cases h
      | some acc' =>
        rw [hap] at h
        simp only [] at h
        refine build_typ rest acc' out ?_ h
        unfold appendRecord at hap
        split at hap
        · cases hap
        · simp only [] at hap
          split at hap
          · cases hap
          · have := (Option.some.inj hap).symm
            subst this
            intro r hr
            rcases List.mem_append.1 hr with hr | hr
            · exact ha r hr
            · have : r = _ := List.mem_singleton.1 hr
              rw [this]

theorem decodeIndex_typ (v : Variant) (crc : List UInt8 → Nat) (stream : List UInt8)
    (pos size : Int) (ir : IndexResult) (h : decodeIndex v crc stream pos size = .ok ir) :
    ∀ r ∈ ir.recs, r.typ = deflateType := by
  unfold decodeIndex at h
  simp only [] at h
  repeat' split at h
  all_goals first
    | (cases h; done)
    | (cases h; exact build_typ _ [] _ (by intro r hr; cases hr) (by assumption))

theorem walkIndexes_typ (v : Variant) (crc : List UInt8 → Nat) (stream : List UInt8) :
    ∀ (fuel : Nat) (pos backSize compSize : Int) (acc : List (Int × List Record)) (alloc : Nat)
      (idxs : List (Int × List Record)) (a : Nat),
      (∀ p ∈ acc, ∀ r ∈ p.2, r.typ = deflateType) →
      walkIndexes v crc stream fuel pos backSize compSize acc alloc = .ok (idxs, a) →
      ∀ p ∈ idxs, ∀ r ∈ p.2, r.typ = deflateType := by
  intro fuel
  induction fuel with
  | zero => intro pos bs cs acc alloc idxs a _ h; simp [walkIndexes] at h
  | succ fuel ih =>
    intro pos bs cs acc alloc idxs a hacc h
    simp only [walkIndexes] at h
    split at h
    · cases h
    · split at h
      · split at h
        · cases h
        · cases h; exact hacc
      · cases hd : decodeIndex v crc stream (pos - (bs + cs)) bs with
        | error e => rw [hd] at h; cases h
        | ok ir =>
          rw [hd] at h
          simp only [] at h
          refine ih _ _ _ _ _ idxs a ?_ h
          intro p hp
          rcases List.mem_cons.1 hp with hp | hp
          · subst hp
            exact decodeIndex_typ v crc stream _ _ ir hd
          · exact hacc p hp

theorem openIndex_sum (crc : List UInt8 → Nat) (stream : List UInt8) (r : OpenResult)
    (h : openIndex .fixed crc stream = .ok r) :
    r.idxBytes = idxSum r.recs 0 := by
  unfold openIndex at h
  cases hf : decodeFooter stream with
  | error e => rw [hf] at h; cases h
  | ok bf =>
    obtain ⟨backSize, footSize⟩ := bf
    rw [hf] at h
    simp only [] at h
    cases hw : walkIndexes .fixed crc stream (stream.length + 2)
        ((stream.length : Int) - footSize) backSize 0 [] 0 with
    | error e => rw [hw] at h; cases h
    | ok ia =>
      obtain ⟨idxs, alloc⟩ := ia
      rw [hw] at h
      simp only [] at h
      cases hm : mergeIndexes idxs [] with
      | error e => rw [hm] at h; cases h
      | ok recs =>
        rw [hm] at h
        simp only [] at h
        cases hap : appendRecord recs footSize 0 footerType with
        | none => rw [hap] at h; cases h
        | some recs' =>
          rw [hap] at h
          simp only [] at h
          cases h
          simp only []
          have ht := walkIndexes_typ .fixed crc stream _ _ _ _ [] 0 idxs alloc
            (by intro p hp; cases hp) hw
          have e1 := mergeIndexes_sum idxs [] recs
            (fun p hp r hr => by rw [ht p hp r hr]; decide) hm
          have e2 := appendRecord_sum _ _ _ _ _ hap
          rw [if_neg (by decide)] at e2
          rw [e2, e1]
          simp [idxSum]

end Compress.Proofs.XCostOpen
