/-
bzip2.Writer (API-level model) as a state machine: the error latch, the `done`
flag, closed means closed, Reset (C13, C18, C14).  Every statement holds for
every sink adversary.
-/
import Compress.Bzip2.WriterApi

namespace Compress.Proofs.BzWApi
open Compress Compress.Bzip2 Compress.XFlate

/-! ### the sink's ghost flag: set exactly when a write returned an error -/

theorem sink_write_failed (s : Sink) (b : List UInt8) :
    (s.write b).1.failed = (s.failed || (s.write b).2.2.isSome) := by
  unfold Sink.write
  split
  · simp
  · split <;> simp

theorem emitStage_failedB (w : BitW) :
    (w.emitStage).1.sink.failed = (w.sink.failed || (w.emitStage).2.isSome) := by
  simp [BitW.emitStage, sink_write_failed]

theorem pushBits_failedB (w : BitW) :
    (w.pushBits).1.sink.failed = (w.sink.failed || (w.pushBits).2.isSome) := by
  unfold BitW.pushBits
  by_cases h : w.stage.length ≥ stageLimit
  · simp only [h, if_true]
    have := emitStage_failedB w
    cases he : (w.emitStage).2 <;> simp_all
  · simp [h]

theorem pushField_failedB (w : BitW) (f : Bits) :
    (w.pushField f).1.sink.failed = (w.sink.failed || (w.pushField f).2.isSome) := by
  unfold BitW.pushField
  have := pushBits_failedB w
  cases he : (w.pushBits).2 <;> simp_all

theorem writeField_failedB (w : BitW) (f : Field) :
    (w.writeField f).1.sink.failed = (w.sink.failed || (w.writeField f).2.isSome) := by
  unfold BitW.writeField
  split
  · exact pushField_failedB w f.1
  · split
    · exact pushField_failedB w f.1
    · simp
  · simp

theorem writeFields_failedB : ∀ (fs : List Field) (w : BitW),
    (w.writeFields fs).1.sink.failed = (w.sink.failed || (w.writeFields fs).2.isSome)
  | [], w => by simp [BitW.writeFields]
  | f :: fs, w => by
    have h1 := writeField_failedB w f
    rw [BitW.writeFields]
    rcases hr : w.writeField f with ⟨w', _ | e⟩
    · rw [hr] at h1
      simp only [] at h1 ⊢
      rw [writeFields_failedB fs w', h1]
      simp
    · rw [hr] at h1
      simpa using h1

theorem flush_failedB (w : BitW) :
    (w.flush).1.sink.failed = (w.sink.failed || (w.flush).2.isSome) := by
  unfold BitW.flush
  split
  · simp
  · have h1 := pushBits_failedB w
    cases he : (w.pushBits).2 with
    | some e => simp_all
    | none =>
      simp only [he]
      rw [emitStage_failedB, h1, he]
      simp

/-- the block/footer script: the sink has failed afterwards iff it had before or the script latched an error. -/
theorem script_failed (s : BzW) (fs : List Field) :
    (s.script fs).bw.sink.failed = (s.bw.sink.failed || (s.script fs).err.isSome) := by
  unfold BzW.script
  simp only []
  rw [flush_failedB, writeFields_failedB]
  cases ({ s.bw with off := s.outOff } : BitW).writeFields fs |>.2 <;> simp

theorem script_done (s : BzW) (fs : List Field) : (s.script fs).done = s.done := rfl
theorem script_level (s : BzW) (fs : List Field) : (s.script fs).level = s.level := rfl


/-- the four outcomes of `flush`. -/
theorem flushBlk_cases (s : BzW) :
    s.flushBlk = { s with err := none } ∨ s.flushBlk = { s with err := some .internal } ∨
    ∃ fs, (s.flushBlk = s.script fs ∧ (s.script fs).err ≠ none) ∨
          (s.flushBlk = { s.script fs with endCRC := combineCRC s.endCRC (blockCRC s.raw), rle := { cap := s.rle.cap }, raw := [] } ∧
            (s.script fs).err = none) := by
  unfold BzW.flushBlk
  by_cases h0 : s.rle.out.size = 0
  · left; simp [h0]
  · simp only [h0, if_false]
    cases hb : encodeBlockF s.rle.out.toList (blockCRC s.raw) with
    | none => right; left; rfl
    | some bf =>
      right; right
      refine ⟨(if s.wrHdr = true then [] else hdrFields s.level) ++ bf, ?_⟩
      simp only []
      by_cases he : (s.script ((if s.wrHdr = true then [] else hdrFields s.level) ++ bf)).err ≠ none
      · left; simp [he]
      · right
        simp only [he, if_false]
        exact ⟨trivial, by simpa using he⟩

theorem flushBlk_done (s : BzW) : (s.flushBlk).done = s.done := by
  rcases flushBlk_cases s with h | h | ⟨fs, ⟨h, _⟩ | ⟨h, _⟩⟩ <;> rw [h] <;> rfl

theorem flushBlk_level (s : BzW) : (s.flushBlk).level = s.level := by
  rcases flushBlk_cases s with h | h | ⟨fs, ⟨h, _⟩ | ⟨h, _⟩⟩ <;> rw [h] <;> rfl

/-- a block flush leaves the sink failed only if it was before or an error is now latched. -/
theorem flushBlk_failed (s : BzW) (h : (s.flushBlk).bw.sink.failed = true) :
    s.bw.sink.failed = true ∨ (s.flushBlk).err ≠ none := by
  rcases flushBlk_cases s with h1 | h1 | ⟨fs, ⟨h1, h2⟩ | ⟨h1, h2⟩⟩
  · left; rw [h1] at h; exact h
  · left; rw [h1] at h; exact h
  · right; rw [h1]; exact h2
  · left
    rw [h1] at h
    have h' : (s.script fs).bw.sink.failed = true := h
    rw [script_failed, h2] at h'
    simpa using h'

theorem writeLoop_done : ∀ (fuel : Nat) (s : BzW) (d : List UInt8), (BzW.writeLoop fuel s d).1.done = s.done
  | 0, s, d => rfl
  | fuel+1, s, d => by
    rw [BzW.writeLoop]
    simp only []
    split
    · rfl
    · split
      · simp [flushBlk_done]
      · rw [writeLoop_done fuel]; simp [flushBlk_done]

theorem writeLoop_level : ∀ (fuel : Nat) (s : BzW) (d : List UInt8), (BzW.writeLoop fuel s d).1.level = s.level
  | 0, s, d => rfl
  | fuel+1, s, d => by
    rw [BzW.writeLoop]
    simp only []
    split
    · rfl
    · split
      · simp [flushBlk_level]
      · rw [writeLoop_level fuel]; simp [flushBlk_level]

/-- the flag of the Write loop says whether an error is latched. -/
theorem writeLoop_flag : ∀ (fuel : Nat) (s : BzW) (d : List UInt8), s.err = none →
    ((BzW.writeLoop fuel s d).2 = true → (BzW.writeLoop fuel s d).1.err = none) ∧
    ((BzW.writeLoop fuel s d).2 = false → (BzW.writeLoop fuel s d).1.err ≠ none)
  | 0, s, d, _ => by simp [BzW.writeLoop]
  | fuel+1, s, d, hs => by
    rw [BzW.writeLoop]
    simp only []
    split
    · simp [hs]
    · split
      · rename_i h; simpa using h
      · rename_i h
        exact writeLoop_flag fuel _ _ (by simpa using h)

theorem writeLoop_failed : ∀ (fuel : Nat) (s : BzW) (d : List UInt8),
    (BzW.writeLoop fuel s d).1.bw.sink.failed = true →
    s.bw.sink.failed = true ∨ (BzW.writeLoop fuel s d).1.err ≠ none
  | 0, s, d => by simp [BzW.writeLoop]
  | fuel+1, s, d => by
    rw [BzW.writeLoop]
    simp only []
    split
    · intro h; left; exact h
    · split
      · rename_i h; intro _; right; exact h
      · intro h
        rcases writeLoop_failed fuel _ _ h with h1 | h1
        · rcases flushBlk_failed _ h1 with h2 | h2
          · left; exact h2
          · rename_i hn; exact absurd h2 hn
        · right; exact h1

/-! ### the latch -/

/-- the latch invariant: `done` goes with the closed marker; once the sink has
    refused bytes an error is latched and the writer is not `done`. -/
def Latched (s : BzW) : Prop :=
  (s.done = true → s.err = some .closed) ∧ (s.bw.sink.failed = true → s.err ≠ none ∧ s.done = false)

theorem latched_reset (s : BzW) (sk : Sink) (h : sk.failed = false) : Latched (s.reset sk) := by
  simp [Latched, BzW.reset, h]

theorem latched_write (s : BzW) (h : Latched s) (d : List UInt8) : Latched (s.write d).1 := by
  unfold BzW.write
  by_cases he : s.err ≠ none
  · simpa [he] using h
  · simp only [he, if_false]
    simp only [ne_eq, Decidable.not_not] at he
    have hd : s.done = false := by
      cases hdd : s.done with
      | false => rfl
      | true => have := h.1 hdd; simp [he] at this
    have hf : s.bw.sink.failed = false := by
      cases hff : s.bw.sink.failed with
      | false => rfl
      | true => have := (h.2 hff).1; exact absurd he this
    have hflag := writeLoop_flag (d.length + 2) s d he
    have hfail := writeLoop_failed (d.length + 2) s d
    have hdone := writeLoop_done (d.length + 2) s d
    cases hok : (BzW.writeLoop (d.length + 2) s d).2 with
    | true =>
      have hn := hflag.1 hok
      simp only [if_true]
      refine ⟨by simp [hdone, hd], fun hx => ?_⟩
      rcases hfail hx with h1 | h1
      · simp [hf] at h1
      · exact absurd hn h1
    | false =>
      have hn := hflag.2 hok
      simp only [Bool.false_eq_true, if_false]
      exact ⟨by simp [hdone, hd], fun _ => ⟨hn, by simp [hdone, hd]⟩⟩

/-- the fields of `Close` after the last block. -/
def closeFields (s : BzW) : List Field := (if s.wrHdr then [] else hdrFields s.level) ++ footFields s.endCRC

theorem close_eq (s : BzW) : s.close =
    if s.done then (s, none)
    else if s.err ≠ none then (s, s.err)
    else if s.flushBlk.err ≠ none then (s.flushBlk, s.flushBlk.err)
    else if (s.flushBlk.script (closeFields s.flushBlk)).err ≠ none then
      (s.flushBlk.script (closeFields s.flushBlk), (s.flushBlk.script (closeFields s.flushBlk)).err)
    else ({ s.flushBlk.script (closeFields s.flushBlk) with err := some .closed, done := true }, none) := rfl

theorem latched_close (s : BzW) (h : Latched s) : Latched (s.close).1 := by
  rw [close_eq]
  by_cases hd : s.done = true
  · rw [if_pos hd]; exact h
  · rw [if_neg hd]
    simp only [Bool.not_eq_true] at hd
    by_cases he : s.err ≠ none
    · rw [if_pos he]; exact h
    · rw [if_neg he]
      simp only [ne_eq, Decidable.not_not] at he
      have hf : s.bw.sink.failed = false := by
        cases hff : s.bw.sink.failed with
        | false => rfl
        | true => have := (h.2 hff).1; exact absurd he this
      by_cases h1 : (s.flushBlk).err ≠ none
      · rw [if_pos h1]
        exact ⟨by simp [flushBlk_done, hd], fun _ => ⟨h1, by simp [flushBlk_done, hd]⟩⟩
      · rw [if_neg h1]
        generalize closeFields s.flushBlk = fs
        by_cases h2 : (s.flushBlk.script fs).err ≠ none
        · rw [if_pos h2]
          exact ⟨by simp [script_done, flushBlk_done, hd], fun _ => ⟨h2, by simp [script_done, flushBlk_done, hd]⟩⟩
        · rw [if_neg h2]
          refine ⟨fun _ => rfl, fun hx => ?_⟩
          exfalso
          have hx' : (s.flushBlk.script fs).bw.sink.failed = true := hx
          rw [script_failed] at hx'
          simp only [ne_eq, Decidable.not_not] at h2
          rw [h2] at hx'
          simp only [Option.isSome_none, Bool.or_false] at hx'
          rcases flushBlk_failed s hx' with h3 | h3
          · simp [hf] at h3
          · exact h1 h3

/-- **C13, invariant step**: the latch invariant is kept by every call, for every sink adversary. -/
theorem latched_step (s : BzW) (h : Latched s) (op : BzOp) (hf : op.fresh) : Latched (s.step op).1 := by
  cases op with
  | write d => exact latched_write s h d
  | close => exact latched_close s h
  | reset sk => exact latched_reset s sk hf

theorem latched_run : ∀ (ops : List BzOp) (s : BzW), Latched s → (∀ op ∈ ops, op.fresh) → Latched (BzW.run s ops).1
  | [], s, h, _ => h
  | op :: ops, s, h, hf => by
    rw [BzW.run]
    exact latched_run ops _ (latched_step s h op (hf op (by simp))) (fun o ho => hf o (by simp [ho]))

/-- a latched error makes Write and Close fail with that error and change nothing. -/
theorem keeps_failing (s : BzW) (e : Err) (he : s.err = some e) (hd : s.done = false) (d : List UInt8) :
    s.step (.write d) = (s, .write 0 (some e)) ∧ s.step .close = (s, .close (some e)) := by
  simp [BzW.step, BzW.write, BzW.close, he, hd]

/-- **C13**: once the sink has refused bytes, every later Write and Close returns an
    error (Close never returns nil) and nothing changes any more, until Reset. -/
theorem failed_forever (s : BzW) (h : Latched s) (hf : s.bw.sink.failed = true) :
    ∀ (ops : List BzOp), (∀ op ∈ ops, op.noReset) →
      (BzW.run s ops).1 = s ∧ ∀ r ∈ (BzW.run s ops).2, r.isErr
  | [], _ => by simp [BzW.run]
  | op :: ops, hn => by
    obtain ⟨he, hd⟩ := h.2 hf
    obtain ⟨e, hee⟩ := Option.ne_none_iff_exists'.mp he
    have hk := keeps_failing s e hee hd
    have ih := failed_forever s h hf ops (fun o ho => hn o (by simp [ho]))
    rw [BzW.run]
    cases op with
    | write d => rw [(hk d).1]; simp only []; exact ⟨ih.1, by intro r hr; simp at hr; rcases hr with hr | hr; (· subst hr; simp [BzRes.isErr]); exact ih.2 r hr⟩
    | close => rw [(hk []).2]; simp only []; exact ⟨ih.1, by intro r hr; simp at hr; rcases hr with hr | hr; (· subst hr; simp [BzRes.isErr]); exact ih.2 r hr⟩
    | reset sk => exact absurd (hn (.reset sk) (by simp)) (by simp [BzOp.noReset])

/-- an error returned by Write is latched. -/
theorem write_err_latched (s : BzW) (d : List UInt8) (e : Err) (h : (s.write d).2.2 = some e) :
    (s.write d).1.err = some e := by
  unfold BzW.write at h ⊢
  by_cases he : s.err ≠ none
  · simpa [he] using h
  · simp only [he, if_false] at h ⊢
    cases hok : (BzW.writeLoop (d.length + 2) s d).2 <;> simp_all

/-- Close latches: `nil` means the writer is now done and closed, an error is latched. -/
theorem close_latches (s : BzW) (h : Latched s) :
    ((s.close).2 = none → (s.close).1.done = true ∧ (s.close).1.err = some .closed) ∧
    (∀ e, (s.close).2 = some e → (s.close).1.err = some e ∧ (s.close).1.done = false) := by
  rw [close_eq]
  by_cases hd : s.done = true
  · rw [if_pos hd]; simp [hd, h.1 hd]
  · rw [if_neg hd]
    simp only [Bool.not_eq_true] at hd
    by_cases he : s.err ≠ none
    · rw [if_pos he]; simp [he, hd]
    · rw [if_neg he]
      by_cases h1 : (s.flushBlk).err ≠ none
      · rw [if_pos h1]; simp [h1, flushBlk_done, hd]
      · rw [if_neg h1]
        generalize closeFields s.flushBlk = fs
        by_cases h2 : (s.flushBlk.script fs).err ≠ none
        · rw [if_pos h2]; simp [h2, script_done, flushBlk_done, hd]
        · rw [if_neg h2]; simp

/-! ### closed means closed (C18) -/

theorem closed_refuses (s : BzW) (hd : s.done = true) (he : s.err = some .closed) (d : List UInt8) :
    s.step (.write d) = (s, .write 0 (some .closed)) ∧ s.step .close = (s, .close none) := by
  simp [BzW.step, BzW.write, BzW.close, he, hd]

theorem closed_forever (s : BzW) (hd : s.done = true) (he : s.err = some .closed) :
    ∀ (ops : List BzOp), (∀ op ∈ ops, op.noReset) → (BzW.run s ops).1 = s
  | [], _ => rfl
  | op :: ops, hn => by
    have ih := closed_forever s hd he ops (fun o ho => hn o (by simp [ho]))
    rw [BzW.run]
    cases op with
    | write d => rw [(closed_refuses s hd he d).1]; exact ih
    | close => rw [(closed_refuses s hd he []).2]; exact ih
    | reset sk => exact absurd (hn (.reset sk) (by simp)) (by simp [BzOp.noReset])

/-! ### Reset (C14) -/

/-- after Reset the state is that of a fresh writer of the same level: nothing of the history survives. -/
theorem reset_fresh (s : BzW) (sk : Sink) :
    s.reset sk = ({ level := s.level, rle := { cap := 0 } } : BzW).reset sk := rfl

theorem newBzW_eq_reset (lvl : Int) (sk : Sink) (s : BzW) (h : newBzW lvl sk = some s) (s' : BzW)
    (hl : s'.level = s.level) : s'.reset sk = s := by
  unfold newBzW at h
  split at h
  · simp only [Option.some.injEq] at h
    subst h
    simp only [BzW.reset] at hl ⊢
    rw [hl]
  · cases h

end Compress.Proofs.BzWApi
