/-
C09/C12 for Brotli: the RFC 7932 specification decoder is prefix-monotone — on a cut
stream it can only run out of input, and what it has produced by then is a prefix of
what it produces on the whole stream; bytes after a complete stream are ignored.
Statements first; helper lemmas in `Compress/Proofs/BrCut*.lean`.
-/
import Compress.Brotli.Spec
import Compress.Proofs.BrCutMeta
import Compress.Proofs.FlatePrefix

namespace Compress.Proofs.BrotliCut
open Compress Compress.Brotli Compress.Proofs.BrCut

/-- what acceptance by `decodeBits` says about the underlying run of `readStream`. -/
theorem decodeBits_ok {dict : ByteArray} {bits : Bits} {out : Array UInt8} {n : Nat}
    (h : decodeBits dict bits = { out := out, verdict := .ok n }) :
    ∃ s1, readStream dict { bits := bits, used := 0, out := #[] } = (.ok (), s1) ∧
      s1.out = out ∧ s1.used = n := by
  unfold decodeBits at h
  split at h
  · rename_i s1 hr
    simp only [Result.mk.injEq, Verdict.ok.injEq] at h
    exact ⟨s1, hr, h.1, h.2⟩
  · simp at h
  · simp at h

/-- **Cut.** If the specification accepts `bits` having consumed `n` bits (final padding
    included), then on every strictly shorter prefix of those `n` bits it ends with
    `unexpectedEOF` — never success, never "corrupt" — and its output is a prefix of the
    full output. -/
theorem decodeBits_cut (dict : ByteArray) (bits : Bits) (out : Array UInt8) (n : Nat)
    (h : decodeBits dict bits = { out := out, verdict := .ok n }) (k : Nat) (hk : k < n) :
    (decodeBits dict (bits.take k)).verdict = .unexpectedEOF ∧
    (decodeBits dict (bits.take k)).out.toList <+: out.toList := by
  obtain ⟨s1, hr, rfl, rfl⟩ := decodeBits_ok h
  obtain ⟨_, c, hb, hu, _, _, cut⟩ := readStream_pm dict _ () s1 hr
  dsimp only at hb hu cut
  rw [Nat.zero_add] at hu
  rw [hu] at hk
  obtain ⟨s2, e, hp⟩ := cut (c.take k) (c.drop k) (List.take_append_drop k c).symm
    (by intro hnil; have := congrArg List.length hnil; simp at this; omega)
  have hbk : bits.take k = c.take k := by
    rw [hb, List.take_append_of_le_length (Nat.le_of_lt hk)]
  unfold decodeBits
  rw [hbk, e]
  exact ⟨rfl, hp⟩

/-- **A valid Brotli stream cut short at any byte** fails with exactly unexpected EOF, having
    delivered only a prefix of the original. -/
theorem decode_cut (dict : ByteArray) (bytes : List UInt8) (out : Array UInt8) (n : Nat)
    (h : decode dict bytes = { out := out, verdict := .ok n }) (k : Nat) (hk : 8 * k < n) :
    (decode dict (bytes.take k)).verdict = .unexpectedEOF ∧
    (decode dict (bytes.take k)).out.toList <+: out.toList := by
  unfold decode at *
  rw [Compress.Proofs.FlatePrefix.ofBytes_take]
  exact decodeBits_cut dict _ out n h (8 * k) hk

/-- **Trailing bytes are ignored**: whatever follows an accepted stream does not change the
    result (the decoder never looks past the last meta-block). -/
theorem decodeBits_ext (dict : ByteArray) (bits ext : Bits) (out : Array UInt8) (n : Nat)
    (h : decodeBits dict bits = { out := out, verdict := .ok n }) :
    decodeBits dict (bits.take n ++ ext) = { out := out, verdict := .ok n } := by
  obtain ⟨s1, hr, rfl, rfl⟩ := decodeBits_ok h
  obtain ⟨_, c, hb, hu, _, extn, _⟩ := readStream_pm dict _ () s1 hr
  dsimp only at hb hu extn
  rw [Nat.zero_add] at hu
  have hbk : bits.take s1.used = c := by
    rw [hb, hu, List.take_left']
    rfl
  unfold decodeBits
  rw [hbk, extn ext]

/-- the consumed count is within the input and a whole number of bytes. -/
theorem consumed_bounds (dict : ByteArray) (bits : Bits) (out : Array UInt8) (n : Nat)
    (h8 : bits.length % 8 = 0)
    (h : decodeBits dict bits = { out := out, verdict := .ok n }) : n ≤ bits.length ∧ n % 8 = 0 := by
  have _ := h8
  obtain ⟨s1, hr, rfl, rfl⟩ := decodeBits_ok h
  obtain ⟨h8', c, hb, hu, _, _, _⟩ := readStream_pm dict _ () s1 hr
  dsimp only at hb hu h8'
  refine ⟨?_, h8'⟩
  rw [hb, hu, List.length_append]
  omega

end Compress.Proofs.BrotliCut

#print axioms Compress.Proofs.BrotliCut.decodeBits_cut
#print axioms Compress.Proofs.BrotliCut.decode_cut
#print axioms Compress.Proofs.BrotliCut.decodeBits_ext
#print axioms Compress.Proofs.BrotliCut.consumed_bounds
