/-
C02 layer (f2): one command of the specification (`BrCut.cmdStep`) cut into the
pieces the labels of the Go `readCommands` execute.

  cmdStep = headIAC >>= PLit;   PLit = readLiterals >>= (end | KDist);
  KDist = distHead >>= KCopy;   KCopy = copy/word, then KEnd.

`PLit`, `KEnd` carry what is left of MLEN as an `Int` (Go's `blkLen` goes
negative when the insert length overruns the meta-block), so that they can be
re-normalised after a part of the literals / of the copy has been produced.
-/
import Compress.Proofs.BrImplCmdBase

namespace Compress.Proofs.BrImpl
open Compress Compress.Brotli Compress.Window
open Compress.Proofs.BrCut (cmdStep Decomp)

/-- the verdict at the end of a command; `M`: what is left of MLEN (negative: overrun). -/
def KEnd (c : Cmd) (M : Int) : Dec (Cmd ⊕ Cmd) :=
  if M < 0 then corrupt
  else if M = 0 then pure (.inl { c with mlen := 0 })
  else pure (.inr { c with mlen := M.toNat })

theorem kend_eq (c : Cmd) (p : Nat) :
    (if p ≥ c.mlen then
      if p > c.mlen then (corrupt : Dec (Cmd ⊕ Cmd)) else pure (.inl { c with mlen := 0 })
    else pure (.inr { c with mlen := c.mlen - p })) = KEnd c ((c.mlen : Int) - p) := by
  unfold KEnd
  by_cases h1 : p ≥ c.mlen
  · rw [if_pos h1]
    by_cases h2 : p > c.mlen
    · rw [if_pos h2, if_pos (by omega)]
    · rw [if_neg h2, if_neg (by omega), if_pos (by omega)]
  · rw [if_neg h1, if_neg (by omega), if_neg (by omega)]
    have : ((c.mlen : Int) - p).toNat = c.mlen - p := by omega
    rw [this]

/-- insert-and-copy symbol and the two lengths. -/
def headIAC (h : Header) (c : Cmd) : Dec (Blocks × Nat × Nat × Bool) := do
    let cmdB ← nextInBlock c.cmdB
    let sym ← readSymbol (h.treesI.getD cmdB.cur default)
    let (insBase, copyBase, implicitZero) := commandCells.getD (sym / 64) default
    let insertLen ← readRange insertRanges (insBase + sym % 64 / 8)
    let copyLen ← readRange copyRanges (copyBase + sym % 8)
    pure (cmdB, insertLen, copyLen, implicitZero)

/-- the distance symbol and the distance. -/
def distHead (h : Header) (c : Cmd) (copyLen : Nat) (implicitZero : Bool) : Dec (Cmd × Nat × Option Nat) :=
        if implicitZero then pure (c, 0, some c.d1)
        else do
          let distB ← nextInBlock c.distB
          let c := { c with distB }
          let tree := h.treesD.getD (h.cmapD.getD (4 * distB.cur + distanceContext copyLen) 0) default
          let dsym ← readSymbol tree
          let d ← readDistance h c dsym
          pure (c, dsym, d)

/-- the copy and the end of the command. -/
def KCopy (dict : ByteArray) (windowSize : Nat) (c : Cmd) (dsym : Nat) (dist? : Option Nat) (copyLen : Nat) :
    Dec (Cmd ⊕ Cmd) :=
      match dist? with
      | none => corrupt
      | some dist => do
        let maxDist := min (← outputSize) windowSize
        let produced ←
          if dist ≤ maxDist then do
            copyBack dist copyLen
            pure copyLen
          else
            match dictionaryWord dict copyLen (dist - maxDist - 1) with
            | none => corrupt
            | some w => do
              emitAll w
              pure w.length
        let c := if dsym = 0 ∨ dist > maxDist then c else { c with d1 := dist, d2 := c.d1, d3 := c.d2, d4 := c.d3 }
        if produced ≥ c.mlen then
          if produced > c.mlen then corrupt else pure (.inl { c with mlen := 0 })
        else
          pure (.inr { c with mlen := c.mlen - produced })

/-- the command from the distance on. -/
def KDist (dict : ByteArray) (windowSize : Nat) (h : Header) (c : Cmd) (copyLen : Nat) (implicitZero : Bool) :
    Dec (Cmd ⊕ Cmd) := do
      let (c, dsym, dist?) ←
        if implicitZero then pure (c, 0, some c.d1)
        else do
          let distB ← nextInBlock c.distB
          let c := { c with distB }
          let tree := h.treesD.getD (h.cmapD.getD (4 * distB.cur + distanceContext copyLen) 0) default
          let dsym ← readSymbol tree
          let d ← readDistance h c dsym
          pure (c, dsym, d)
      match dist? with
      | none => corrupt
      | some dist =>
        let maxDist := min (← outputSize) windowSize
        let produced ←
          if dist ≤ maxDist then do
            copyBack dist copyLen
            pure copyLen
          else
            match dictionaryWord dict copyLen (dist - maxDist - 1) with
            | none => corrupt
            | some w => do
              emitAll w
              pure w.length
        let c := if dsym = 0 ∨ dist > maxDist then c else { c with d1 := dist, d2 := c.d1, d3 := c.d2, d4 := c.d3 }
        if produced ≥ c.mlen then
          if produced > c.mlen then corrupt else pure (.inl { c with mlen := 0 })
        else
          pure (.inr { c with mlen := c.mlen - produced })

theorem KDist_eq (dict : ByteArray) (ws : Nat) (h : Header) (c : Cmd) (cl : Nat) (iz : Bool) :
    KDist dict ws h c cl iz = distHead h c cl iz >>= fun v => KCopy dict ws v.1 v.2.1 v.2.2 cl := by
  show Decomp _ _ _
  unfold KDist distHead
  dsimp only
  refine Decomp.ite ?_ ?_
  · exact rfl
  · refine Decomp.bind (fun distB => ?_)
    refine Decomp.bind (fun dsym => ?_)
    refine Decomp.bind (fun d => ?_)
    exact rfl

/-- the literals and everything after them; `M` = what is left of MLEN, `a` literals to go. -/
def PLit (dict : ByteArray) (ws : Nat) (h : Header) (c : Cmd) (M : Int) (a cl : Nat) (iz : Bool) :
    Dec (Cmd ⊕ Cmd) :=
  if M < a then knownCorrupt (readLiterals h a c.litB) >>= fun _ => corrupt
  else readLiterals h a c.litB >>= fun litB =>
    if M = a then pure (.inl { c with litB := litB, mlen := 0 })
    else KDist dict ws h { c with litB := litB, mlen := (M - a).toNat } cl iz

theorem cmdStep_eq (dict : ByteArray) (ws : Nat) (h : Header) (c : Cmd) :
    cmdStep dict ws h c =
      headIAC h c >>= fun v => PLit dict ws h { c with cmdB := v.1 } c.mlen v.2.1 v.2.2.1 v.2.2.2 := by
  show Decomp _ _ _
  unfold cmdStep headIAC
  refine Decomp.bind (fun cmdB => ?_)
  refine Decomp.bind (fun sym => ?_)
  dc_step
  refine Decomp.bind (fun insertLen => ?_)
  refine Decomp.bind (fun copyLen => ?_)
  show _ = _
  rw [dec_pure_bind]
  unfold PLit
  by_cases h1 : insertLen > c.mlen
  · rw [if_pos h1, if_pos (by show (c.mlen : Int) < insertLen; omega)]
  · rw [if_neg h1, if_neg (by show ¬ (c.mlen : Int) < insertLen; omega)]
    congr 1
    funext litB
    by_cases h2 : insertLen = c.mlen
    · rw [if_pos (c := insertLen = _) h2, if_pos (c := (c.mlen : Int) = insertLen) (by omega)]
    · rw [if_neg (c := insertLen = _) h2, if_neg (c := (c.mlen : Int) = insertLen) (by omega)]
      have : ((c.mlen : Int) - insertLen).toNat = c.mlen - insertLen := by omega
      rw [this]
      rfl

theorem c4_mlen (c : Cmd) (p : Prop) [Decidable p] (a b cc d : Nat) :
    (if p then c else { c with d1 := a, d2 := b, d3 := cc, d4 := d }).mlen = c.mlen := by
  split <;> rfl

theorem KCopy_some (dict : ByteArray) (ws : Nat) (c : Cmd) (dsym dist cl : Nat) (st : St) :
    KCopy dict ws c dsym (some dist) cl st =
      (if dist ≤ min st.out.size ws then
        KEnd (if dsym = 0 ∨ dist > min st.out.size ws then c else { c with d1 := dist, d2 := c.d1, d3 := c.d2, d4 := c.d3 })
          ((c.mlen : Int) - cl) (stOut st (specCopy st.out.toList dist cl))
       else match dictionaryWord dict cl (dist - min st.out.size ws - 1) with
         | none => (.error .corrupt, st)
         | some w => KEnd (if dsym = 0 ∨ dist > min st.out.size ws then c else { c with d1 := dist, d2 := c.d1, d3 := c.d2, d4 := c.d3 })
            ((c.mlen : Int) - w.length) (stOut st (st.out.toList ++ w))) := by
  unfold KCopy
  simp only []
  rw [Dec_bind_apply]
  show (match ((Except.ok st.out.size, st) : Except Err Nat × St) with
    | (.ok a, s') => _
    | (.error e, s') => (Except.error e, s')) = _
  dsimp only
  by_cases hle : dist ≤ min st.out.size ws
  · rw [if_pos hle, if_pos hle, Dec_bind_apply, copyBack_eq _ _ _ (by omega)]
    dsimp only
    rw [Dec_bind_apply]
    have := congrFun (kend_eq (if dsym = 0 ∨ dist > min st.out.size ws then c else { c with d1 := dist, d2 := c.d1, d3 := c.d2, d4 := c.d3 }) cl)
      (stOut st (specCopy st.out.toList dist cl))
    refine this.trans ?_
    rw [c4_mlen]
  · rw [if_neg hle, if_neg hle]
    rcases hw : dictionaryWord dict cl (dist - min st.out.size ws - 1) with _ | w
    · rfl
    · dsimp only
      rw [Dec_bind_apply, emitAll_eq]
      dsimp only
      rw [Dec_bind_apply]
      have := congrFun (kend_eq (if dsym = 0 ∨ dist > min st.out.size ws then c else { c with d1 := dist, d2 := c.d1, d3 := c.d2, d4 := c.d3 }) w.length)
        (stOut st (st.out.toList ++ w))
      refine this.trans ?_
      rw [c4_mlen]

end Compress.Proofs.BrImpl
