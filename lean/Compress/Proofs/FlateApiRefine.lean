/-
flate.Reader, API-level model: the refinement theorems of the decoder model (`impl_refines_spec`,
`reset_refines_spec`) lifted to the API, with a source that may fail.  `Reader.drive` is the API
counterpart of `Impl.runA`: Read with a schedule of buffer lengths until an error is returned.
-/
import Compress.Proofs.FlateApi
import Compress.Proofs.FlateRefine
import Compress.Proofs.FlateReset
import Compress.Proofs.FlatePrefix

namespace Compress.Proofs.FlateApi
open Compress Compress.Flate Compress.Flate.Impl Compress.Flate.Api
open Compress.Proofs.FlateRefine

theorem drive_succ (fuel : Nat) (r : Reader) (sched : List Nat) (acc : Array UInt8) :
    Reader.drive (fuel + 1) r sched acc =
      match r.read (sched.headD 4096) with
      | (r', out, some err) => (acc ++ out.toArray, some err, r')
      | (r', out, none) =>
        Reader.drive fuel r' (if sched.length > 1 then sched.tail else sched) (acc ++ out.toArray) := by
  rw [Reader.drive]
  rcases r.read (sched.headD 4096) with ⟨r', out, e⟩
  cases e <;> rfl

/-- the Read loop of the API over any step system: every schedule delivers exactly `full` and ends
    with `ferr` as the caller sees it; the error is latched, nothing is pending. -/
theorem drive_correct (J : FState → List UInt8 → Prop) (full : List UInt8) (ferr : FErr)
    (S : StepSys J full ferr) :
    ∀ (fuel : Nat) (r : Reader) (del : List UInt8) (sched : List Nat), r.done = false → J r.core del →
      (∀ n, sched.getLast? = some n → 0 < n) →
      (full.length - del.length) + sched.length + 2 ≤ fuel →
      ∃ r', Reader.drive fuel r sched del.toArray = (full.toArray, some (liftErr r.tag ferr), r') ∧
        J r'.core full ∧ r'.core.err = some ferr ∧ r'.core.toRead = [] ∧ r'.done = false ∧ r'.tag = r.tag := by
  intro fuel
  induction fuel with
  | zero => intro r del sched _ _ _ hf; omega
  | succ f ih =>
    intro r del sched hd hJ hs hf
    rw [drive_succ, read_open r hd]
    have hR := read_ok J full ferr S (sched.headD 4096) (r.core.total + 8) r.core del hJ
      (by have := S.total r.core del hJ; omega)
    have hfu : readFuel r.core = r.core.total + 8 := rfl
    rw [hfu]
    rcases hr : Impl.read (r.core.total + 8) r.core (sched.headD 4096) with ⟨s', out, e⟩
    rw [hr] at hR
    obtain ⟨hJ', hErr, hNone⟩ := hR
    cases e with
    | some err =>
      obtain ⟨he, hfull, hT, hE⟩ := hErr err rfl
      simp only at hT hE hfull
      have hl : latchBound s' (some err) = s' := latchBound_id s' err (by rw [hE, he]) hT
      simp only [Option.map_some, hl]
      refine ⟨{ r with core := s' }, ?_, ?_, hE, hT, hd, rfl⟩
      · rw [he, List.append_toArray, hfull]
      · have : J s' (del ++ out) := hJ'
        rwa [hfull] at this
    | none =>
      have hl : latchBound s' none = s' := rfl
      simp only [Option.map_none, hl]
      rw [List.append_toArray]
      have hJ'' : J s' (del ++ out) := hJ'
      have := ih { r with core := s' } (del ++ out) _ hd hJ'' (sched_next_last sched hs) (by
        have hp := S.pref s' _ hJ''
        simp only [List.length_append] at hp ⊢
        rcases sched_head_pos_or sched hs with hpos | hlen
        · have hne : out ≠ [] := hNone rfl hpos
          have : 0 < out.length := List.length_pos_iff.mpr hne
          have := sched_next_length sched
          omega
        · have := sched_next_length_lt sched hlen
          omega)
      exact this

theorem bits_len8 (src : Src) : src.bits.length % 8 = 0 := by
  show (Bits.ofBytes src.avail).length % 8 = 0
  rw [Compress.Proofs.Meta.length_ofBytes]; omega

/-- **the API refines the specification, over any source, from any earlier state.**  `r0` is ANY
    state of the API model; after `Reset` onto `src` (data, optional fault) every Read schedule
    delivers exactly what RFC 1951 decodes from the bytes the source delivers, and ends with: `io.EOF`
    if the stream ended within them, a Corrupted error if it is invalid within them, and otherwise -
    the input ran out - `io.ErrUnexpectedEOF` if the source ended, the source's own error if it failed.
    The error is latched, nothing is pending, and at `io.EOF` InputOffset is the stream length. -/
theorem reset_drive_spec (r0 : Reader) (src : Src) (sched : List Nat)
    (hs : ∀ n, sched.getLast? = some n → 0 < n) :
    let spec := Flate.decodeBits src.bits
    ∃ r', Reader.drive (runFuel src.bits sched) (r0.reset src) sched #[] =
        (spec.out, some (liftErr src.tag (errOf spec.verdict)), r') ∧
      r'.err = some (liftErr src.tag (errOf spec.verdict)) ∧ r'.done = false ∧ r'.core.toRead = [] ∧
      (∀ n, spec.verdict = .ok n → r'.inputOffset = (n + 7) / 8) := by
  intro spec
  have h8 := bits_len8 src
  have S := stepSys (headerEquiv treeEquiv) fixedEquiv src.bits.length (Flate.decodeBits src.bits) h8
  have hsz := decodeBits_size src.bits
  obtain ⟨r', hrun, hJ, herr, hT, hd, ht⟩ :=
    drive_correct _ _ _ S (runFuel src.bits sched) (r0.reset src) [] sched rfl
      (J_reset r0.core src.bits) hs
      (by unfold runFuel; simp only [Array.length_toList, List.length_nil]; omega)
  have ht' : r'.tag = src.tag := ht
  refine ⟨r', ?_, ?_, hd, hT, ?_⟩
  · rw [errOf_eq_verr]
    have : (([] : List UInt8).toArray) = #[] := rfl
    rw [this] at hrun
    rw [hrun]
    simp [Reader.reset, spec]
  · rw [errOf_eq_verr]
    simp [Reader.err, hd, herr, ht']
    rfl
  · intro n hn
    obtain ⟨out, _, _, Rl, _⟩ := hJ
    have := (Rl.err _ herr).2.2 n hn
    unfold Reader.inputOffset
    rw [Rl.tot]
    omega

/-- the same for a newly constructed reader. -/
theorem new_drive_spec (src : Src) (sched : List Nat)
    (hs : ∀ n, sched.getLast? = some n → 0 < n) :
    let spec := Flate.decodeBits src.bits
    ∃ r', Reader.drive (runFuel src.bits sched) (newReader src) sched #[] =
        (spec.out, some (liftErr src.tag (errOf spec.verdict)), r') ∧
      r'.err = some (liftErr src.tag (errOf spec.verdict)) ∧ r'.done = false ∧ r'.core.toRead = [] ∧
      (∀ n, spec.verdict = .ok n → r'.inputOffset = (n + 7) / 8) := by
  intro spec
  have h8 := bits_len8 src
  have S := stepSys (headerEquiv treeEquiv) fixedEquiv src.bits.length (Flate.decodeBits src.bits) h8
  have hsz := decodeBits_size src.bits
  obtain ⟨r', hrun, hJ, herr, hT, hd, ht⟩ :=
    drive_correct _ _ _ S (runFuel src.bits sched) (newReader src) [] sched rfl
      (J_init src.bits) hs
      (by unfold runFuel; simp only [Array.length_toList, List.length_nil]; omega)
  have ht' : r'.tag = src.tag := ht
  refine ⟨r', ?_, ?_, hd, hT, ?_⟩
  · rw [errOf_eq_verr]
    have : (([] : List UInt8).toArray) = #[] := rfl
    rw [this] at hrun
    rw [hrun]
    simp [newReader, spec]
  · rw [errOf_eq_verr]
    simp [Reader.err, hd, herr, ht']
    rfl
  · intro n hn
    obtain ⟨out, _, _, Rl, _⟩ := hJ
    have := (Rl.err _ herr).2.2 n hn
    unfold Reader.inputOffset
    rw [Rl.tot]
    omega

end Compress.Proofs.FlateApi
