/-
bzip2 cut: `readBlock` as a composition of prefix-monotone parsers.
-/
import Compress.Proofs.BzCutCore
import Compress.Proofs.BzCutSels
import Compress.Proofs.BzCutLens
import Compress.Proofs.BzCutSymMap
import Compress.Proofs.BzCutSyms

namespace Compress.Proofs.BzCut
open Compress Compress.Bzip2

def readBlockP (level : Nat) : Parser (Array UInt8 × Nat) :=
  bindP (beP 32) fun crc =>
  bindP (beP 1) fun rnd => fun b2 =>
  if rnd ≠ 0 then .error .deprecated else
  (bindP (beP 24) fun ptr =>
   bindP symMapP fun dict => fun b4 =>
   if dict.length + 2 < 3 then .error .corrupt else
   (bindP (beP 3) fun numTrees => fun b5 =>
    if numTrees < 2 ∨ numTrees > 6 then .error .corrupt else
    (bindP (beP 15) fun numSels =>
     bindP (readSels numTrees numSels []) fun selsM =>
     bindP (readTables numTrees (dict.length + 2) []) fun tabs =>
     bindP (symsP tabs (mtfSels selsM (List.range 6) []) (dict.length + 2) (level * blockSize)) fun syms =>
     liftE (match mtfDecode (level * blockSize) dict syms 0 0 #[] with
       | none => .error .corrupt
       | some tt => if ptr ≥ tt.size then .error .corrupt else .ok (bwtDecode tt ptr, crc))) b5) b4) b2

set_option linter.unusedSimpArgs false in
theorem readBlock_eq (level : Nat) (bits : Bits) :
    readBlock level bits = (readBlockP level bits).map fun x => (x.1.1, x.1.2, x.2) := by
  unfold readBlock readBlockP
  simp only [bindP, beP, symMapP, symsP, liftE, bind, Except.bind, pure, Except.pure, throw, throwThe, MonadExceptOf.throw]
  cases readBE 32 bits with
  | none => rfl
  | some x =>
    obtain ⟨crc, b1⟩ := x
    simp only [Option.elim]
    cases readBE 1 b1 with
    | none => rfl
    | some x =>
      obtain ⟨rnd, b2⟩ := x
      simp only [Option.elim]
      split
      · rfl
      · cases readBE 24 b2 with
        | none => rfl
        | some x =>
          obtain ⟨ptr, b3⟩ := x
          simp only [Option.elim]
          cases readSymMap b3 with
          | none => rfl
          | some x =>
            obtain ⟨dict, b4⟩ := x
            simp only [Option.elim]
            split
            · rfl
            · cases readBE 3 b4 with
              | none => rfl
              | some x =>
                obtain ⟨nt, b5⟩ := x
                simp only [Option.elim]
                split
                · rfl
                · cases readBE 15 b5 with
                  | none => rfl
                  | some x =>
                    obtain ⟨ns, b6⟩ := x
                    simp only [Option.elim]
                    cases readSels nt ns [] b6 with
                    | error e => rfl
                    | ok x =>
                      obtain ⟨selsM, b7⟩ := x
                      simp only [Option.elim]
                      cases readTables nt (dict.length + 2) [] b7 with
                      | error e => rfl
                      | ok x =>
                        obtain ⟨tabs, b8⟩ := x
                        simp only [Option.elim]
                        cases readSyms tabs.toArray (mtfSels selsM (List.range 6) []).toArray (dict.length + 2) (level * blockSize) (b8.length + 2) 0 0 0 [] b8 with
                        | error e => rfl
                        | ok x =>
                          obtain ⟨syms, b9⟩ := x
                          simp only [Option.elim]
                          cases mtfDecode (level * blockSize) dict syms 0 0 #[] with
                          | none => rfl
                          | some tt =>
                            simp only [Option.elim]
                            split <;> rfl

theorem readBlockP_prefixOK (level : Nat) : PrefixOK (readBlockP level) := by
  unfold readBlockP
  refine PrefixOK.bind (beP_prefixOK 32) fun _ crc _ _ => ?_
  refine PrefixOK.bind (beP_prefixOK 1) fun _ rnd _ _ => ?_
  refine PrefixOK.ite (fun _ => prefixOK_error _) fun _ => ?_
  refine PrefixOK.bind (beP_prefixOK 24) fun _ ptr _ _ => ?_
  refine PrefixOK.bind symMapP_prefixOK fun _ dict _ _ => ?_
  refine PrefixOK.ite (fun _ => prefixOK_error _) fun _ => ?_
  refine PrefixOK.bind (beP_prefixOK 3) fun _ numTrees _ _ => ?_
  refine PrefixOK.ite (fun _ => prefixOK_error _) fun _ => ?_
  refine PrefixOK.bind (beP_prefixOK 15) fun _ numSels _ _ => ?_
  refine PrefixOK.bind (readSels_prefixOK _ _ _) fun _ selsM _ _ => ?_
  refine PrefixOK.bind (readTables_prefixOK _ _ _) fun full tabs rest htabs => ?_
  have hgood := readTables_good _ _ (by omega) [] full tabs rest (by simp) htabs
  refine PrefixOK.bind (symsP_prefixOK _ _ _ _ hgood) fun _ syms _ _ => ?_
  exact liftE_prefixOK _

end Compress.Proofs.BzCut
