/-
bzip2 pipeline stages are mutually inverse (C04, C03 components).
-/
import Compress.Bzip2.Stages
import Compress.Proofs.Bzip2Crc
import Compress.Proofs.Bzip2Mtf
import Compress.Proofs.Bzip2Rle

namespace Compress.Proofs.Bzip2Stages
open Compress Compress.Bzip2

/-- **RLE1 round trip.** Whatever the block capacity, the encoder consumes a
    prefix of the input, stays within the capacity, stops early only when the
    block is (all but one byte) full, and its output expands back to exactly the
    consumed prefix; in particular a count byte is never missing at the end. -/
theorem rle1_roundtrip (cap : Nat) (xs : List UInt8) :
    let r := rle1Encode cap xs
    r.2 ≤ xs.length ∧ r.1.length ≤ cap ∧ (r.2 = xs.length ∨ cap ≤ r.1.length + 1) ∧
    rle1Decode (r.1.length + 1) r.1 none 0 [] = some (xs.take r.2) :=
  Bzip2Rle.rle1_roundtrip cap xs

/-- run the resumable reader with a schedule of buffer sizes; concatenated output and final status. -/
def readSched : RleR → List Nat → List UInt8 → List UInt8 × RleStatus
  | _, [], acc => (acc, .ok)
  | r, n :: ns, acc =>
    match RleR.read n r [] with
    | (r', out, .ok) => readSched r' ns (acc ++ out)
    | (_, out, st) => (acc ++ out, st)

theorem readSched_good (blk : List UInt8) : ∀ (sched : List Nat) (r : RleR) (acc : List UInt8),
    Bzip2Rle.RInv blk r acc → Bzip2Rle.Good blk (readSched r sched acc).1 (readSched r sched acc).2
  | [], r, acc, h => by simpa [readSched] using Bzip2Rle.rinv_good blk r acc h
  | n :: ns, r, acc, h => by
    obtain ⟨P', p1, p2, p3⟩ := Bzip2Rle.read_spec blk n r [] acc h
    rw [readSched]
    generalize RleR.read n r [] = res at p1 p2 p3
    obtain ⟨r', out, st⟩ := res
    simp only [List.reverse_nil, List.nil_append] at p1 p2 p3
    subst p1
    cases st with
    | ok => exact readSched_good blk ns r' _ (p2 rfl)
    | done => exact p3 (by simp)
    | corrupted => exact p3 (by simp)

/-- **RLE1 decoding is independent of the Read sizes.** For every block and every
    schedule of buffer sizes (zeros included), the bytes the resumable reader hands
    out are a prefix of the one-shot expansion; when it reports "done" they are the
    whole expansion; it reports "corrupted" only if the block ends where a count
    byte is due. -/
theorem rle1_resumable (blk : List UInt8) (sched : List Nat) :
    let r := readSched { buf := blk.toArray } sched []
    match rle1Decode (blk.length + 1) blk none 0 [] with
    | some full => r.1 <+: full ∧ (r.2 = .done → r.1 = full) ∧ r.2 ≠ .corrupted
    | none => r.2 ≠ .done := by
  have h := readSched_good blk sched _ [] (Bzip2Rle.rinv_init blk)
  unfold Bzip2Rle.Good at h
  rw [Bzip2Rle.rle1Decode_dec]
  exact h

/-- **MTF/RLE2 round trip.** For a duplicate-free dictionary containing every
    value and a block size that holds the data, decoding the encoder's symbols
    returns the data. -/
theorem mtf_roundtrip (dict vals : List UInt8) (blk : Nat)
    (hd : dict.Nodup) (hv : ∀ v ∈ vals, v ∈ dict) (hb : vals.length ≤ blk) (hn : vals.length < 2 ^ 24) :
    mtfDecode blk dict (mtfEncode dict vals 0 []) 0 0 #[] = some vals.toArray :=
  have _ := hd
  Bzip2Mtf.mtf_roundtrip dict vals blk hv hb hn

/-- every symbol the encoder emits is a run symbol or a dictionary index + 1. -/
theorem mtf_syms_in_range (dict vals : List UInt8) (hv : ∀ v ∈ vals, v ∈ dict) :
    ∀ s ∈ mtfEncode dict vals 0 [], s ≤ dict.length :=
  Bzip2Mtf.mtf_syms_in_range dict vals hv

/-- **Checksum.** The Go code's way of computing bzip2's CRC (bit-reverse, run
    the reflected IEEE CRC-32 over bit-reversed bytes, reverse back) is the
    MSB-first CRC-32, chunk by chunk. -/
theorem crc_go_eq (val : Nat) (hv : val < 2 ^ 32) (bs : List UInt8) :
    crcUpdateGo val bs = (bs.foldl crcByte (val ^^^ 0xffffffff)) ^^^ 0xffffffff :=
  Bzip2Crc.crc_go_eq val hv bs

theorem crc_go_block (bs : List UInt8) : crcUpdateGo 0 bs = blockCRC bs := by
  rw [crc_go_eq 0 (by decide) bs]
  rfl


end Compress.Proofs.Bzip2Stages
