/-
bzip2 pipeline stages are mutually inverse (C04, C03 components).
-/
import Compress.Bzip2.Stages

namespace Compress.Proofs.Bzip2Stages
open Compress Compress.Bzip2

/-- **RLE1 round trip.** Whatever the block capacity, the encoder consumes a
    prefix of the input, stays within the capacity, stops early only when the
    block is (all but one byte) full, and its output expands back to exactly the
    consumed prefix; in particular a count byte is never missing at the end. -/
theorem rle1_roundtrip (cap : Nat) (xs : List UInt8) :
    let r := rle1Encode cap xs
    r.2 ≤ xs.length ∧ r.1.length ≤ cap ∧ (r.2 = xs.length ∨ cap ≤ r.1.length + 1) ∧
    rle1Decode (r.1.length + 1) r.1 none 0 [] = some (xs.take r.2) := by
  sorry

/-- run the resumable reader with a schedule of buffer sizes; concatenated output and final status. -/
def readSched : RleR → List Nat → List UInt8 → List UInt8 × RleStatus
  | _, [], acc => (acc, .ok)
  | r, n :: ns, acc =>
    match RleR.read n r [] with
    | (r', out, .ok) => readSched r' ns (acc ++ out)
    | (_, out, st) => (acc ++ out, st)

/-- **RLE1 decoding is independent of the Read sizes.** For every block and every
    schedule of buffer sizes (zeros included), the bytes the resumable reader hands
    out are a prefix of the one-shot expansion; when it reports "done" they are the
    whole expansion; it reports "corrupted" only if the block ends where a count
    byte is due. -/
theorem rle1_resumable (blk : List UInt8) (sched : List Nat) :
    let r := readSched { buf := blk.toArray } sched []
    match rle1Decode (blk.length + 1) blk none 0 [] with
    | some full => r.1 <+: full ∧ (r.2 = .done → r.1 = full) ∧ r.2 ≠ .corrupted
    | none => r.2 ≠ .done := by
  sorry

/-- **MTF/RLE2 round trip.** For a duplicate-free dictionary containing every
    value and a block size that holds the data, decoding the encoder's symbols
    returns the data. -/
theorem mtf_roundtrip (dict vals : List UInt8) (blk : Nat)
    (hd : dict.Nodup) (hv : ∀ v ∈ vals, v ∈ dict) (hb : vals.length ≤ blk) (hn : vals.length < 2 ^ 24) :
    mtfDecode blk dict (mtfEncode dict vals 0 []) 0 0 #[] = some vals.toArray := by
  sorry

/-- every symbol the encoder emits is a run symbol or a dictionary index + 1. -/
theorem mtf_syms_in_range (dict vals : List UInt8) (hv : ∀ v ∈ vals, v ∈ dict) :
    ∀ s ∈ mtfEncode dict vals 0 [], s ≤ dict.length := by
  sorry

/-- **Checksum.** The Go code's way of computing bzip2's CRC (bit-reverse, run
    the reflected IEEE CRC-32 over bit-reversed bytes, reverse back) is the
    MSB-first CRC-32, chunk by chunk. -/
theorem crc_go_eq (val : Nat) (hv : val < 2 ^ 32) (bs : List UInt8) :
    crcUpdateGo val bs = (bs.foldl crcByte (val ^^^ 0xffffffff)) ^^^ 0xffffffff := by
  sorry

theorem crc_go_block (bs : List UInt8) : crcUpdateGo 0 bs = blockCRC bs := by
  sorry

end Compress.Proofs.Bzip2Stages
