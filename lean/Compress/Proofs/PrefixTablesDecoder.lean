/-
Invariants of the two passes of `Decoder.init` (link reservation, table fill).
-/
import Compress.Proofs.PrefixTablesAux

namespace Compress.Proofs.PrefixTables
open Compress Compress.Prefix

structure Inv1 (CB : Nat) (st : Array Nat × Nat) (done : List Code) : Prop where
  size : st.1.size = 2 ^ CB
  form : ∀ idx, idx < 2 ^ CB → st.1.getD idx 0 = 0 ∨ ∃ li, li < st.2 ∧ st.1.getD idx 0 = li * 32 + (CB + 1)
  inj : ∀ idx idx', idx < 2 ^ CB → idx' < 2 ^ CB → st.1.getD idx 0 ≠ 0 →
    st.1.getD idx 0 = st.1.getD idx' 0 → idx = idx'
  res : ∀ b ∈ done, CB < b.len → st.1.getD (b.val % 2 ^ CB) 0 ≠ 0
  src : ∀ idx, idx < 2 ^ CB → st.1.getD idx 0 ≠ 0 → ∃ b ∈ done, CB < b.len ∧ b.val % 2 ^ CB = idx

theorem reserveLinks_inv (cs : List Code) (CB : Nat) :
    Inv1 CB (reserveLinks cs CB (2 ^ CB - 1) (Array.replicate (2 ^ CB) 0) 0) cs := by
  unfold reserveLinks
  have hN : 2 ^ CB - 1 + 1 = 2 ^ CB := Nat.sub_add_cancel Nat.one_le_two_pow
  have hpos : 0 < 2 ^ CB := Nat.two_pow_pos CB
  simp only [hN]
  apply foldl_inv
  · refine ⟨by simp, ?_, ?_, ?_, ?_⟩
    · intro idx h; left; rw [getD_replicate, if_pos h]
    · intro idx idx' h h' h0; rw [getD_replicate, if_pos h] at h0; omega
    · intro b hb; simp at hb
    · intro idx h h0; rw [getD_replicate, if_pos h] at h0; omega
  · intro st done c hc hdone inv
    have hidx : c.val % 2 ^ CB < 2 ^ CB := Nat.mod_lt _ hpos
    split
    · rename_i hcond
      obtain ⟨hlong, hz⟩ := hcond
      refine ⟨by simp [inv.size], ?_, ?_, ?_, ?_⟩
      · intro idx h
        simp only [getD_set!, inv.size]
        split
        · right; exact ⟨st.2, by omega, rfl⟩
        · rcases inv.form idx h with h0 | ⟨li, hli, e⟩
          · left; exact h0
          · right; exact ⟨li, by omega, e⟩
      · intro idx idx' h h'
        simp only [getD_set!, inv.size]
        intro h0 he
        by_cases e1 : c.val % 2 ^ CB = idx <;> by_cases e2 : c.val % 2 ^ CB = idx'
        · omega
        · rw [if_pos ⟨e1, h⟩, if_neg (fun hh => e2 hh.1)] at he
          rcases inv.form idx' h' with hz' | ⟨li, hli, e⟩ <;> omega
        · rw [if_neg (fun hh => e1 hh.1)] at h0
          rw [if_neg (fun hh => e1 hh.1), if_pos ⟨e2, h'⟩] at he
          rcases inv.form idx h with hz' | ⟨li, hli, e⟩ <;> omega
        · rw [if_neg (fun hh => e1 hh.1)] at h0
          rw [if_neg (fun hh => e1 hh.1), if_neg (fun hh => e2 hh.1)] at he
          exact inv.inj idx idx' h h' h0 he
      · intro b hb hbl
        simp only [getD_set!, inv.size]
        split
        · omega
        · rename_i hne
          rcases List.mem_append.1 hb with hb | hb
          · exact inv.res b hb hbl
          · simp at hb; subst hb; exfalso; apply hne; exact ⟨rfl, hidx⟩
      · intro idx h
        simp only [getD_set!, inv.size]
        split
        · rename_i he
          intro _
          exact ⟨c, by simp, hlong, he.1⟩
        · intro h0
          obtain ⟨b, hb, h1, h2⟩ := inv.src idx h h0
          exact ⟨b, by simp [hb], h1, h2⟩
    · rename_i hcond
      refine ⟨inv.size, inv.form, inv.inj, ?_, ?_⟩
      · intro b hb hbl
        rcases List.mem_append.1 hb with hb | hb
        · exact inv.res b hb hbl
        · simp at hb; subst hb
          intro hz; exact hcond ⟨hbl, hz⟩
      · intro idx h h0
        obtain ⟨b, hb, h1, h2⟩ := inv.src idx h h0
        exact ⟨b, by simp [hb], h1, h2⟩

def mainStep (CB : Nat) (st : Array Nat × Array (Array Nat)) (c : Code) : Array Nat × Array (Array Nat) :=
  if c.len ≤ CB then (fillStride st.1 c.val (2 ^ c.len) (c.sym * 32 + c.len), st.2)
  else
    (st.1, st.2.set! ((st.1.getD (c.val % 2 ^ CB) 0) / 32)
      (fillStride (st.2.getD ((st.1.getD (c.val % 2 ^ CB) 0) / 32) #[]) (c.val / 2 ^ CB) (2 ^ (c.len - CB)) (c.sym * 32 + c.len)))

/-- what the fill pass needs from the reservation pass. -/
structure Res (cs : List Code) (CB n : Nat) (ch1 : Array Nat) : Prop where
  size : ch1.size = 2 ^ CB
  long : ∀ c ∈ cs, CB < c.len → ∃ li, li < n ∧ ch1.getD (c.val % 2 ^ CB) 0 = li * 32 + (CB + 1)
  src : ∀ idx, idx < 2 ^ CB → ch1.getD idx 0 ≠ 0 → ∃ b ∈ cs, CB < b.len ∧ b.val % 2 ^ CB = idx
  inj : ∀ a ∈ cs, ∀ b ∈ cs, CB < a.len → CB < b.len →
    ch1.getD (a.val % 2 ^ CB) 0 / 32 = ch1.getD (b.val % 2 ^ CB) 0 / 32 → a.val % 2 ^ CB = b.val % 2 ^ CB

structure Inv2 (CB n L : Nat) (ch1 : Array Nat) (st : Array Nat × Array (Array Nat)) (done : List Code) : Prop where
  size1 : st.1.size = 2 ^ CB
  size2 : st.2.size = n
  sizeL : ∀ i, i < n → (st.2.getD i #[]).size = L
  keep : ∀ idx, idx < 2 ^ CB → ch1.getD idx 0 ≠ 0 → st.1.getD idx 0 = ch1.getD idx 0
  short : ∀ b ∈ done, b.len ≤ CB → ∀ j, j < 2 ^ CB → j % 2 ^ b.len = b.val →
    st.1.getD j 0 = b.sym * 32 + b.len
  long : ∀ b ∈ done, CB < b.len → ∀ j, j < L → j % 2 ^ (b.len - CB) = b.val / 2 ^ CB →
    (st.2.getD (ch1.getD (b.val % 2 ^ CB) 0 / 32) #[]).getD j 0 = b.sym * 32 + b.len

theorem fill_inv (cs : List Code) (pf : PrefixFree cs) (vals : ∀ c ∈ cs, c.val < 2 ^ c.len)
    (CB n L : Nat) (ch1 : Array Nat) (res : Res cs CB n ch1) (hCB : CB + 1 < 32) :
    Inv2 CB n L ch1 (cs.foldl (mainStep CB) (ch1, Array.replicate n (Array.replicate L 0))) cs := by
  have hpos : 0 < 2 ^ CB := Nat.two_pow_pos CB
  apply foldl_inv
  · refine ⟨res.size, by simp, ?_, ?_, ?_, ?_⟩
    · intro i hi; rw [getD_replicate, if_pos hi]; simp
    · intro idx _ _; rfl
    · intro b hb; simp at hb
    · intro b hb; simp at hb
  · intro st done c hc hdone inv
    unfold mainStep
    have hv := vals c hc
    split
    · rename_i hshort
      refine ⟨by simp only [fillStride_size]; exact inv.size1, inv.size2, inv.sizeL, ?_, ?_, ?_⟩
      · intro idx hidx h0
        show (fillStride st.1 c.val (2 ^ c.len) (c.sym * 32 + c.len)).getD idx 0 = _
        rw [fillStride_getD _ _ _ _ hv, if_neg]
        · exact inv.keep idx hidx h0
        · intro ⟨_, hcl⟩
          obtain ⟨b, hb, hbl, hbi⟩ := res.src idx hidx h0
          have : c = b := by
            apply claim_unique cs pf c b hc hb b.val
            · rw [← hcl, ← hbi]
              exact (Nat.mod_mod_of_dvd _ (Nat.pow_dvd_pow 2 hshort)).symm
            · exact Nat.mod_eq_of_lt (vals b hb)
          subst this; omega
      · intro b hb hbl j hj hjb
        show (fillStride st.1 c.val (2 ^ c.len) (c.sym * 32 + c.len)).getD j 0 = _
        rw [fillStride_getD _ _ _ _ hv]
        have hbcs : b ∈ cs := by
          rcases List.mem_append.1 hb with hb | hb
          · exact hdone b hb
          · simp at hb; subst hb; exact hc
        split
        · rename_i hcl
          have : c = b := claim_unique cs pf c b hc hbcs j hcl.2 hjb
          subst this; rfl
        · rename_i hcl
          rcases List.mem_append.1 hb with hb | hb
          · exact inv.short b hb hbl j hj hjb
          · simp at hb; subst hb; exfalso; exact hcl ⟨by rw [inv.size1]; exact hj, hjb⟩
      · intro b hb hbl j hj hjb
        rcases List.mem_append.1 hb with hb | hb
        · exact inv.long b hb hbl j hj hjb
        · simp at hb; subst hb; omega
    · rename_i hlong
      have hlong : CB < c.len := by omega
      obtain ⟨li, hli, hlie⟩ := res.long c hc hlong
      have hci : c.val % 2 ^ CB < 2 ^ CB := Nat.mod_lt _ hpos
      have hkeep : st.1.getD (c.val % 2 ^ CB) 0 = ch1.getD (c.val % 2 ^ CB) 0 :=
        inv.keep _ hci (by omega)
      have hli2 : ch1.getD (c.val % 2 ^ CB) 0 / 32 = li := by omega
      have hdv : c.val / 2 ^ CB < 2 ^ (c.len - CB) := div_lt_pow CB c.len c.val hlong hv
      rw [hkeep, hli2]
      refine ⟨inv.size1, by simp only [size_set!]; exact inv.size2, ?_, inv.keep, ?_, ?_⟩
      · intro i hi
        show ((st.2.set! li _).getD i #[]).size = L
        rw [getD_set!]
        split
        · rw [fillStride_size]; rename_i h; rw [h.1]; exact inv.sizeL i hi
        · exact inv.sizeL i hi
      · intro b hb hbl j hj hjb
        rcases List.mem_append.1 hb with hb | hb
        · exact inv.short b hb hbl j hj hjb
        · simp at hb; subst hb; omega
      · intro b hb hbl j hj hjb
        have hbcs : b ∈ cs := by
          rcases List.mem_append.1 hb with hb | hb
          · exact hdone b hb
          · simp at hb; subst hb; exact hc
        show ((st.2.set! li _).getD (ch1.getD (b.val % 2 ^ CB) 0 / 32) #[]).getD j 0 = _
        rw [getD_set!]
        split
        · rename_i hl
          rw [fillStride_getD _ _ _ _ hdv]
          split
          · rename_i hcl
            have e1 : b.val % 2 ^ CB = c.val % 2 ^ CB := by
              apply res.inj b hbcs c hc hbl hlong
              rw [hli2]; exact hl.1.symm
            have : c = b := by
              apply claim_unique cs pf c b hc hbcs (b.val % 2 ^ CB + 2 ^ CB * j)
              · exact combine_mod CB c.len _ j c.val hlong e1 hcl.2
              · exact combine_mod CB b.len _ j b.val hbl rfl hjb
            subst this; rfl
          · rename_i hcl
            rcases List.mem_append.1 hb with hb | hb
            · rw [hl.1]; exact inv.long b hb hbl j hj hjb
            · simp at hb; subst hb; exfalso; apply hcl
              refine ⟨?_, hjb⟩
              rw [inv.sizeL li hli]; exact hj
        · rename_i hl
          rcases List.mem_append.1 hb with hb | hb
          · exact inv.long b hb hbl j hj hjb
          · simp at hb; subst hb; exfalso; apply hl
            exact ⟨hli2.symm, by rw [hli2, inv.size2]; exact hli⟩

def maxLen (cs : List Code) : Nat := cs.foldl (fun m c => max m c.len) 0
def minLen (cs : List Code) : Nat := cs.foldl (fun m c => min m c.len) valueBits

theorem le_maxLen (cs : List Code) : ∀ c ∈ cs, c.len ≤ maxLen cs := by
  unfold maxLen
  have key : ∀ (l : List Code) (i : Nat), i ≤ l.foldl (fun m c => max m c.len) i ∧
      ∀ c ∈ l, c.len ≤ l.foldl (fun m c => max m c.len) i := by
    intro l
    induction l with
    | nil => intro i; simp
    | cons a l ih =>
      intro i
      simp only [List.foldl_cons, List.mem_cons]
      have h := ih (max i a.len)
      refine ⟨by omega, ?_⟩
      intro c hc
      rcases hc with rfl | hc
      · omega
      · exact h.2 c hc
  exact (key cs 0).2

theorem minLen_le (cs : List Code) : ∀ c ∈ cs, minLen cs ≤ c.len := by
  unfold minLen
  have key : ∀ (l : List Code) (i : Nat), l.foldl (fun m c => min m c.len) i ≤ i ∧
      ∀ c ∈ l, l.foldl (fun m c => min m c.len) i ≤ c.len := by
    intro l
    induction l with
    | nil => intro i; simp
    | cons a l ih =>
      intro i
      simp only [List.foldl_cons, List.mem_cons]
      have h := ih (min i a.len)
      refine ⟨by omega, ?_⟩
      intro c hc
      rcases hc with rfl | hc
      · omega
      · exact h.2 c hc
  exact (key cs valueBits).2

theorem res_of_inv1 (cs : List Code) (CB : Nat) :
    Res cs CB (reserveLinks cs CB (2 ^ CB - 1) (Array.replicate (2 ^ CB) 0) 0).2
      (reserveLinks cs CB (2 ^ CB - 1) (Array.replicate (2 ^ CB) 0) 0).1 := by
  have inv := reserveLinks_inv cs CB
  have hpos : 0 < 2 ^ CB := Nat.two_pow_pos CB
  refine ⟨inv.size, ?_, ?_, ?_⟩
  · intro c hc hl
    have h0 := inv.res c hc hl
    rcases inv.form _ (Nat.mod_lt c.val hpos) with h | h
    · exact absurd h h0
    · exact h
  · intro idx hidx h0
    exact inv.src idx hidx h0
  · intro a ha b hb hal hbl he
    have ha0 := inv.res a ha hal
    have hb0 := inv.res b hb hbl
    have hai := Nat.mod_lt a.val hpos
    have hbi := Nat.mod_lt b.val hpos
    apply inv.inj _ _ hai hbi ha0
    rcases inv.form _ hai with h | ⟨la, _, ea⟩
    · exact absurd h ha0
    rcases inv.form _ hbi with h | ⟨lb, _, eb⟩
    · exact absurd h hb0
    omega

theorem res_short (cs : List Code) (CB : Nat) (hs : ∀ c ∈ cs, c.len ≤ CB) :
    Res cs CB 0 (Array.replicate (2 ^ CB) 0) := by
  refine ⟨by simp, ?_, ?_, ?_⟩
  · intro c hc hl; have := hs c hc; omega
  · intro idx hidx h0; rw [getD_replicate, if_pos hidx] at h0; exact absurd rfl h0
  · intro a ha b hb hal; have := hs a ha; omega

/-- the decoder fields, in terms of the two passes. -/
theorem init_fields (cs : List Code) (h2 : 2 ≤ cs.length) :
    ∃ n ch1, Res cs (min (maxLen cs) 9) n ch1 ∧
      ((Decoder.init cs).chunks, (Decoder.init cs).links) =
        cs.foldl (mainStep (min (maxLen cs) 9))
          (ch1, Array.replicate n (Array.replicate ((Decoder.init cs).linkMask + 1) 0)) ∧
      (Decoder.init cs).chunkMask = 2 ^ (min (maxLen cs) 9) - 1 ∧
      (Decoder.init cs).linkMask + 1 = 2 ^ (maxLen cs - min (maxLen cs) 9) ∧
      (Decoder.init cs).chunkBits = min (maxLen cs) 9 ∧
      (Decoder.init cs).minBits = minLen cs := by
  by_cases hlt : min (maxLen cs) 9 < maxLen cs
  · refine ⟨_, _, res_of_inv1 cs (min (maxLen cs) 9), ?_⟩
    match cs, h2 with
    | a :: b :: rest, _ =>
      simp only [Decoder.init]
      simp only [maxLen] at hlt
      simp only [maxChunkBits, hlt, if_true]
      refine ⟨rfl, rfl, ?_, rfl, rfl⟩
      exact Nat.sub_add_cancel Nat.one_le_two_pow
  · have hM : min (maxLen cs) 9 = maxLen cs := by omega
    refine ⟨0, _, res_short cs (min (maxLen cs) 9) (by rw [hM]; exact le_maxLen cs), ?_⟩
    match cs, h2 with
    | a :: b :: rest, _ =>
      simp only [Decoder.init]
      simp only [maxLen] at hlt
      simp only [maxChunkBits, hlt, if_false]
      refine ⟨rfl, rfl, ?_, rfl, rfl⟩
      simp only [maxLen] at hM
      simp only [maxLen, hM, Nat.sub_self]

/-- table lookup on any bit-buffer value whose low `c.len` bits are `c.val`. -/
theorem decoder_lookup_val (cs : List Code) (h2 : 2 ≤ cs.length)
    (lens : ∀ c ∈ cs, c.len ≤ valueBits) (vals : ∀ c ∈ cs, c.val < 2 ^ c.len) (pf : PrefixFree cs)
    (c : Code) (hc : c ∈ cs) (v : Nat) (hv : v % 2 ^ c.len = c.val) :
    (Decoder.init cs).lookup v = (c.sym, c.len) := by
  obtain ⟨n, ch1, res, hfold, hcm, hlm, hcb, _⟩ := init_fields cs h2
  have hM := le_maxLen cs c hc
  have hlen : c.len < 32 := by have := lens c hc; simp only [valueBits] at this; omega
  generalize hCB : min (maxLen cs) 9 = CB at *
  have hCB9 : CB ≤ 9 := by omega
  have hCBM : CB ≤ maxLen cs := by omega
  have inv := fill_inv cs pf vals CB n ((Decoder.init cs).linkMask + 1) ch1 res (by omega)
  rw [← hfold] at inv
  have hpos : 0 < 2 ^ CB := Nat.two_pow_pos CB
  have hN : 2 ^ CB - 1 + 1 = 2 ^ CB := Nat.sub_add_cancel Nat.one_le_two_pow
  have hidx : v % 2 ^ CB < 2 ^ CB := Nat.mod_lt _ hpos
  unfold Decoder.lookup
  simp only [hcm, hN, hcb]
  by_cases hs : c.len ≤ CB
  · have e : (Decoder.init cs).chunks.getD (v % 2 ^ CB) 0 = c.sym * 32 + c.len := by
      apply inv.short c hc hs _ hidx
      rw [Nat.mod_mod_of_dvd _ (Nat.pow_dvd_pow 2 hs)]; exact hv
    rw [e]
    have e1 : (c.sym * 32 + c.len) % 32 = c.len := by omega
    have e2 : (c.sym * 32 + c.len) / 32 = c.sym := by omega
    rw [e1, e2, if_neg (by omega)]
  · have hl : CB < c.len := by omega
    have hvi : v % 2 ^ CB = c.val % 2 ^ CB := by
      rw [← hv, Nat.mod_mod_of_dvd _ (Nat.pow_dvd_pow 2 (Nat.le_of_lt hl))]
    obtain ⟨li, hli, hlie⟩ := res.long c hc hl
    have e : (Decoder.init cs).chunks.getD (v % 2 ^ CB) 0 = li * 32 + (CB + 1) := by
      rw [hvi, ← hlie]
      apply inv.keep _ (Nat.mod_lt _ hpos)
      omega
    rw [e]
    have e1 : (li * 32 + (CB + 1)) % 32 = CB + 1 := by omega
    have e2 : (li * 32 + (CB + 1)) / 32 = li := by omega
    rw [e1, e2, if_pos (by omega)]
    have hLpos : 0 < (Decoder.init cs).linkMask + 1 := by omega
    have e3 : ((Decoder.init cs).links.getD li #[]).getD
        (v / 2 ^ CB % ((Decoder.init cs).linkMask + 1)) 0 = c.sym * 32 + c.len := by
      have h3 := inv.long c hc hl (v / 2 ^ CB % ((Decoder.init cs).linkMask + 1)) (Nat.mod_lt _ hLpos)
      rw [hlie, e2] at h3
      apply h3
      rw [hlm, Nat.mod_mod_of_dvd _ (Nat.pow_dvd_pow 2 (by omega : c.len - CB ≤ maxLen cs - CB))]
      rw [← hv]
      have e4 : 2 ^ c.len = 2 ^ CB * 2 ^ (c.len - CB) := by
        rw [← Nat.pow_add]; congr 1; omega
      rw [e4, Nat.mod_mul_right_div_self]
    rw [e3]
    have e1 : (c.sym * 32 + c.len) % 32 = c.len := by omega
    have e2 : (c.sym * 32 + c.len) / 32 = c.sym := by omega
    rw [e1, e2]

theorem word_take (c : Code) (hl : c.len ≤ 32) (rest : Bits) :
    Bits.toNat ((c.word ++ rest).take 32) % 2 ^ c.len = c.val % 2 ^ c.len := by
  unfold Code.word
  rw [List.take_append, List.take_of_length_le (by rw [ofNat_length]; exact hl), toNat_ofNat_append,
    Nat.add_mul_mod_self_left, Nat.mod_mod]

end Compress.Proofs.PrefixTables
