/-
Layer A of `tables_agree_degenerate`: `getSymbol` depends only on the code word; the words of the
two children explored by `exploreCode`.
-/
import Compress.Proofs.BzImplTabDDefs

namespace Compress.Proofs.BzImpl.TabD
open Compress Compress.Bzip2 Compress.Prefix
open Compress.Bzip2.Impl (GStatus Explored)

private theorem bit_cast (x : Nat) :
    ((x % 2 : Nat) : Int) = (if (x % 2 == 1) = true then (1 : Int) else 0) := by
  rcases Nat.mod_two_eq_zero_or_one x with h | h <;> simp [h]

private theorem bit_nat (x : Nat) :
    x % 2 = (if (x % 2 == 1) = true then 1 else 0) := by
  rcases Nat.mod_two_eq_zero_or_one x with h | h <;> simp [h]

private theorem len_ofNat : ∀ (n v : Nat), (Bits.ofNat v n).length = n
  | 0, _ => rfl
  | n+1, v => by simp [Bits.ofNat, len_ofNat n]

private theorem ofNat_snoc : ∀ (n v : Nat),
    Bits.ofNat v (n + 1) = Bits.ofNat v n ++ [v / 2 ^ n % 2 == 1]
  | 0, v => by simp [Bits.ofNat]
  | n+1, v => by
    have ih := ofNat_snoc n (v / 2)
    rw [Bits.ofNat, ih]
    simp only [Bits.ofNat, List.cons_append]
    rw [Nat.div_div_eq_div_mul, ← Nat.pow_succ']

private theorem drop_ofNat : ∀ (zn n v : Nat),
    (Bits.ofNat v n).drop zn = Bits.ofNat (v / 2 ^ zn) (n - zn)
  | 0, n, v => by simp
  | zn+1, 0, v => by simp [Bits.ofNat]
  | zn+1, n+1, v => by
    simp only [Bits.ofNat, List.drop_succ_cons]
    rw [drop_ofNat zn n (v / 2), Nat.div_div_eq_div_mul, ← Nat.pow_succ', Nat.add_sub_add_right]

private theorem take_ofNat : ∀ (m n v : Nat), m ≤ n →
    (Bits.ofNat v n).take m = Bits.ofNat v m
  | 0, n, v, _ => by simp [Bits.ofNat]
  | m+1, 0, v, h => by omega
  | m+1, n+1, v, h => by
    simp only [Bits.ofNat, List.take_succ_cons]
    rw [take_ofNat m n (v / 2) (by omega)]

private theorem drop_step (val n zn : Nat) (h : zn < n) :
    (Bits.ofNat val n).drop zn =
      ((val >>> zn) % 2 == 1) :: (Bits.ofNat val n).drop (zn + 1) := by
  rw [drop_ofNat, drop_ofNat, Nat.shiftRight_eq_div_pow]
  obtain ⟨k, hk⟩ : ∃ k, n - zn = k + 1 := ⟨n - zn - 1, by omega⟩
  have hk' : n - (zn + 1) = k := by omega
  rw [hk, hk', Bits.ofNat, Nat.div_div_eq_div_mul, ← Nat.pow_succ]

private theorem revLow_foldl : ∀ (n v acc : Nat),
    Impl.revLow n v acc =
      (Bits.ofNat v n).foldl (fun acc b => 2 * acc + (if b then 1 else 0)) acc
  | 0, v, acc => rfl
  | n+1, v, acc => by
    simp only [Impl.revLow, Bits.ofNat, List.foldl_cons]
    rw [revLow_foldl n (v / 2), ← bit_nat]

private theorem loop_eq (t : CTab) (val n : Nat) : ∀ (fuel zn : Nat) (zvec : Int), zn ≤ n →
    Impl.getSymbolLoop t val n fuel zn zvec =
      fin t (walk t fuel zn zvec ((Bits.ofNat val n).drop zn))
  | 0, zn, zvec, _ => by simp [Impl.getSymbolLoop, walk, fin]
  | fuel+1, zn, zvec, h => by
    unfold Impl.getSymbolLoop walk
    by_cases h1 : zn > t.maxLen
    · simp [h1, fin]
    · simp only [h1, if_false]
      by_cases h2 : zvec ≤ t.limit.getD zn 0
      · simp only [h2, if_true, fin, Impl.maxNumSyms]
        rfl
      · simp only [h2, if_false]
        by_cases h3 : zn + 1 > n
        · have : (Bits.ofNat val n).drop zn = [] := by
            apply List.drop_eq_nil_of_le; rw [len_ofNat]; omega
          simp [h3, this, fin]
        · simp only [h3, if_false]
          rw [drop_step val n zn (by omega)]
          simp only []
          rw [loop_eq t val n fuel (zn + 1) _ (by omega), bit_cast]

theorem getSymbol_eq_St (t : CTab) (c : Code) : Impl.getSymbol t c = St t c.word := by
  unfold Impl.getSymbol St wk Code.word
  rw [len_ofNat]
  by_cases h : t.minLen > c.len
  · simp [h, fin]
  · simp only [h, if_false]
    rw [loop_eq t c.val c.len _ _ _ (by omega), take_ofNat _ _ _ (by omega), revLow_foldl]
    rfl

theorem word_child0 (c : Code) (h : c.val < 2 ^ c.len) :
    ({ c with len := c.len + 1 } : Code).word = c.word ++ [false] := by
  simp only [Code.word]
  rw [ofNat_snoc, Nat.div_eq_of_lt h]
  rfl

private theorem ofNat_add_pow : ∀ (n v k : Nat), Bits.ofNat (v + 2 ^ n * k) n = Bits.ofNat v n
  | 0, v, k => rfl
  | n+1, v, k => by
    simp only [Bits.ofNat]
    have e : 2 ^ (n + 1) * k = 2 * (2 ^ n * k) := by rw [Nat.pow_succ', Nat.mul_assoc]
    have h1 : (v + 2 ^ (n + 1) * k) % 2 = v % 2 := by
      rw [e]; generalize 2 ^ n * k = m; omega
    have h2 : (v + 2 ^ (n + 1) * k) / 2 = v / 2 + 2 ^ n * k := by
      rw [e]; generalize 2 ^ n * k = m; omega
    rw [h1, h2, ofNat_add_pow n (v / 2) k]

theorem word_child1 (c : Code) (h : c.val < 2 ^ c.len) :
    ({ c with len := c.len + 1, val := c.val ||| (1 <<< c.len) } : Code).word = c.word ++ [true] ∧
      (c.val ||| (1 <<< c.len)) < 2 ^ (c.len + 1) := by
  have e : c.val ||| (1 <<< c.len) = c.val + 2 ^ c.len := by
    have := Nat.two_pow_add_eq_or_of_lt h 1
    rw [Nat.shiftLeft_eq, Nat.one_mul, Nat.or_comm, ← Nat.mul_one (2 ^ c.len), ← this]
    omega
  simp only [Code.word]
  rw [e]
  refine ⟨?_, by rw [Nat.pow_succ]; omega⟩
  rw [ofNat_snoc]
  have h1 : Bits.ofNat (c.val + 2 ^ c.len) c.len = Bits.ofNat c.val c.len := by
    have := ofNat_add_pow c.len c.val 1
    rwa [Nat.mul_one] at this
  have h2 : (c.val + 2 ^ c.len) / 2 ^ c.len = 1 := by
    rw [Nat.add_div_right _ (Nat.two_pow_pos _), Nat.div_eq_of_lt h]
  rw [h1, h2]
  rfl

end Compress.Proofs.BzImpl.TabD
