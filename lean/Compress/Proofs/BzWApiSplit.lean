/-
bzip2.Writer (API-level model): the blocks cut by the resumable RLE1 encoder
over any split of the input into Write calls are the blocks `splitBlocks` cuts
from the concatenation.
-/
import Compress.Bzip2.WriterApi
import Compress.Proofs.BzRTSplit

namespace Compress.Proofs.BzWApi
open Compress Compress.Bzip2 Compress.XFlate

theorem write_shift : ∀ (xs : List UInt8) (r : RleW) (n : Nat),
    RleW.write r xs n = ((RleW.write r xs 0).1, n + (RleW.write r xs 0).2)
  | [], r, n => by simp [RleW.write]
  | b :: bs, r, n => by
    rw [RleW.write, RleW.write]
    cases hp : r.put b with
    | none => simp
    | some r' =>
      simp only []
      rw [write_shift bs r' (n + 1), write_shift bs r' (0 + 1)]
      simp only [Prod.mk.injEq, true_and]
      omega

theorem write_le : ∀ (xs : List UInt8) (r : RleW), (RleW.write r xs 0).2 ≤ xs.length
  | [], r => by simp [RleW.write]
  | b :: bs, r => by
    rw [RleW.write]
    cases hp : r.put b with
    | none => simp
    | some r' =>
      simp only []
      rw [write_shift]
      have := write_le bs r'
      simp only [List.length_cons]
      omega

/-- feeding `a ++ b` when all of `a` is taken = feeding `a`, then `b`. -/
theorem write_append_full : ∀ (a : List UInt8) (r r' : RleW) (b : List UInt8),
    RleW.write r a 0 = (r', a.length) →
    RleW.write r (a ++ b) 0 = ((RleW.write r' b 0).1, a.length + (RleW.write r' b 0).2)
  | [], r, r', b, h => by
    simp only [RleW.write, Prod.mk.injEq] at h
    obtain ⟨h, _⟩ := h
    subst h
    simp
  | x :: a, r, r', b, h => by
    rw [RleW.write] at h
    rw [List.cons_append, RleW.write]
    cases hp : r.put x with
    | none => rw [hp] at h; simp at h
    | some r1 =>
      rw [hp] at h
      simp only [] at h ⊢
      rw [write_shift] at h
      have hle := write_le a r1
      have h1 : RleW.write r1 a 0 = (r', a.length) := by
        simp only [Prod.mk.injEq, List.length_cons] at h
        apply Prod.ext
        · exact h.1
        · simp only; omega
      rw [write_shift, write_append_full a r1 r' b h1]
      simp only [Prod.mk.injEq, true_and, List.length_cons]
      omega

/-- where the encoder stops: the bytes before are all taken, the next byte is refused. -/
theorem write_stop : ∀ (xs : List UInt8) (r : RleW),
    RleW.write r (xs.take (RleW.write r xs 0).2) 0 = ((RleW.write r xs 0).1, (RleW.write r xs 0).2) ∧
    (∀ b y, xs.drop (RleW.write r xs 0).2 = b :: y → (RleW.write r xs 0).1.put b = none)
  | [], r => by simp [RleW.write]
  | x :: xs, r => by
    rw [RleW.write]
    cases hp : r.put x with
    | none =>
      refine ⟨by simp [RleW.write], ?_⟩
      intro b y h
      simp only [List.drop_zero] at h
      simp only [List.cons.injEq] at h
      rw [← h.1]; exact hp
    | some r1 =>
      simp only []
      rw [write_shift xs r1 (0 + 1)]
      simp only []
      obtain ⟨ih1, ih2⟩ := write_stop xs r1
      have e : 0 + 1 + (RleW.write r1 xs 0).2 = (RleW.write r1 xs 0).2 + 1 := by omega
      rw [e, List.take_succ_cons, List.drop_succ_cons, RleW.write, hp]
      simp only []
      rw [write_shift _ r1 (0 + 1), ih1]
      exact ⟨by simp; omega, ih2⟩

/-- `r` is the encoder state after taking all of `raw` from a fresh start. -/
def Feeds (cap : Nat) (raw : List UInt8) (r : RleW) : Prop :=
  RleW.write { cap := cap } raw 0 = (r, raw.length)

theorem feeds_nil (cap : Nat) : Feeds cap [] { cap := cap } := by simp [Feeds, RleW.write]

theorem feeds_step (cap : Nat) (raw : List UInt8) (r : RleW) (h : Feeds cap raw r) (data : List UInt8) :
    Feeds cap (raw ++ data.take (RleW.write r data 0).2) (RleW.write r data 0).1 := by
  unfold Feeds at h ⊢
  rw [write_append_full raw _ r _ h, (write_stop data r).1]
  have := write_le data r
  simp [List.length_take]
  omega

theorem put_fresh_some (cap : Nat) (hc : 1 ≤ cap) (b : UInt8) : ∃ r', RleW.put { cap := cap } b = some r' := by
  unfold RleW.put
  have h0 : ¬ cap = 0 := by omega
  by_cases hb : (0 : UInt8) ≠ b <;> simp [hb, h0]

theorem feeds_nil_eq (cap : Nat) (r : RleW) (h : Feeds cap [] r) : r = { cap := cap } := by
  simp only [Feeds, RleW.write, Prod.mk.injEq, List.length_nil, and_true] at h
  exact h.symm

/-- a full block: whatever follows the refused byte, `rle1Encode` from a fresh start cuts here. -/
theorem feeds_block (cap : Nat) (raw : List UInt8) (r : RleW) (h : Feeds cap raw r) (b : UInt8) (y : List UInt8)
    (hp : r.put b = none) : rle1Encode cap (raw ++ b :: y) = (r.out.toList, raw.length) := by
  unfold rle1Encode
  unfold Feeds at h
  rw [write_append_full raw _ r _ h]
  simp [RleW.write, hp]

theorem splitBlocks_fuel (cap : Nat) (hc : 1 ≤ cap) : ∀ (f f' : Nat) (d : List UInt8),
    d.length < f → d.length < f' → splitBlocks cap f d = splitBlocks cap f' d
  | 0, _, _, h, _ => by omega
  | _, 0, _, _, h => by omega
  | f+1, f'+1, d, h, h' => by
    cases d with
    | nil => simp [splitBlocks]
    | cons b bs =>
      have hpos := BzRT.rle1Encode_pos cap hc b bs
      rw [splitBlocks, splitBlocks]
      simp only [List.isEmpty_cons, Bool.false_eq_true, if_false]
      have hn : (rle1Encode cap (b :: bs)).2 ≠ 0 := by omega
      simp only [hn, if_false]
      rw [splitBlocks_fuel cap hc f f']
      · simp only [List.length_drop, List.length_cons] at h ⊢; omega
      · simp only [List.length_drop, List.length_cons] at h' ⊢; omega

/-- unfolding `splitBlocks` at a full block. -/
theorem splitBlocks_block (cap : Nat) (hc : 1 ≤ cap) (raw : List UInt8) (r : RleW) (h : Feeds cap raw r)
    (b : UInt8) (y : List UInt8) (hp : r.put b = none) :
    splitBlocks cap ((raw ++ b :: y).length + 1) (raw ++ b :: y) =
      (r.out.toList, raw) :: splitBlocks cap ((b :: y).length + 1) (b :: y) := by
  have hraw : raw ≠ [] := by
    intro h0
    subst h0
    have := feeds_nil_eq cap r h
    subst this
    obtain ⟨r', hr'⟩ := put_fresh_some cap hc b
    rw [hr'] at hp
    cases hp
  have hlen : 0 < raw.length := List.length_pos_iff.mpr hraw
  rw [splitBlocks, feeds_block cap raw r h b y hp]
  have hne : (raw ++ b :: y).isEmpty = false := by
    cases raw with
    | nil => exact absurd rfl hraw
    | cons => rfl
  simp only [hne, Bool.false_eq_true, if_false]
  have hn : raw.length ≠ 0 := by omega
  simp only [hn, if_false, List.take_left', List.drop_left']
  congr 1
  apply splitBlocks_fuel cap hc
  · simp only [List.length_append, List.length_cons]; omega
  · simp

/-- the last block: everything was taken. -/
theorem splitBlocks_last (cap : Nat) (raw : List UInt8) (r : RleW) (h : Feeds cap raw r) :
    splitBlocks cap (raw.length + 1) raw = if raw = [] then [] else [(r.out.toList, raw)] := by
  cases hraw : raw with
  | nil => simp [splitBlocks]
  | cons x xs =>
    rw [← hraw]
    have hne : raw ≠ [] := by rw [hraw]; simp
    have hlen : 0 < raw.length := List.length_pos_iff.mpr hne
    have he : rle1Encode cap raw = (r.out.toList, raw.length) := by
      unfold rle1Encode; unfold Feeds at h; rw [h]
    rw [splitBlocks, he]
    have hem : raw.isEmpty = false := by rw [hraw]; rfl
    have hn : raw.length ≠ 0 := by omega
    simp only [hem, Bool.false_eq_true, if_false, hn, List.take_length, List.drop_length, hne]
    cases raw.length <;> simp [splitBlocks]

end Compress.Proofs.BzWApi
