/-
Array/list level lemmas for the ring-buffer window proofs (S6).
-/
import Compress.Window

namespace Compress.Proofs.Window
open Compress.Window

theorem agetD_set (h : Array UInt8) (i j : Nat) (v : UInt8) :
    (h.setIfInBounds i v).getD j 0 = if i = j ∧ i < h.size then v else h.getD j 0 := by
  simp only [Array.getD_eq_getD_getElem?, Array.getElem?_setIfInBounds]
  by_cases h1 : i = j
  · subst h1
    by_cases h2 : i < h.size
    · simp [h2]
    · simp [h2]
  · simp [h1]

theorem agetD_oob (h : Array UInt8) (j : Nat) (hj : h.size ≤ j) : h.getD j 0 = 0 := by
  simp [Array.getD_eq_getD_getElem?, Array.getElem?_eq_none hj]

theorem lgetD_append (a b : List UInt8) (i : Nat) :
    (a ++ b).getD i 0 = if i < a.length then a.getD i 0 else b.getD (i - a.length) 0 := by
  simp only [List.getD_eq_getElem?_getD, List.getElem?_append]
  split <;> rfl

theorem lgetD_oob (l : List UInt8) (j : Nat) (hj : l.length ≤ j) : l.getD j 0 = 0 := by
  simp [List.getD_eq_getElem?_getD, List.getElem?_eq_none hj]

theorem list_ext_getD (a b : List UInt8) (hl : a.length = b.length)
    (h : ∀ i, i < a.length → a.getD i 0 = b.getD i 0) : a = b := by
  apply List.ext_getElem hl
  intro i h1 h2
  have := h i h1
  simpa [List.getD_eq_getElem?_getD, List.getElem?_eq_getElem h1, List.getElem?_eq_getElem h2] using this

theorem lgetD_take (l : List UInt8) (n i : Nat) :
    (l.take n).getD i 0 = if i < n then l.getD i 0 else 0 := by
  simp only [List.getD_eq_getElem?_getD, List.getElem?_take]
  split <;> rfl

theorem lgetD_drop (l : List UInt8) (n i : Nat) :
    (l.drop n).getD i 0 = l.getD (n + i) 0 := by
  simp only [List.getD_eq_getElem?_getD, List.getElem?_drop]

theorem lgetD_extract (h : Array UInt8) (a b i : Nat) (hb : b ≤ h.size) :
    (h.extract a b).toList.getD i 0 = if i < b - a then h.getD (a + i) 0 else 0 := by
  simp only [List.getD_eq_getElem?_getD, Array.getElem?_toList, Array.getElem?_extract,
    Array.getD_eq_getD_getElem?, Nat.min_eq_left hb]
  split <;> rfl

theorem lgetD_map_range (f : Nat → UInt8) (n i : Nat) :
    ((List.range n).map f).getD i 0 = if i < n then f i else 0 := by
  simp only [List.getD_eq_getElem?_getD, List.getElem?_map]
  split
  · rename_i h; simp [List.getElem?_range h]
  · rename_i h; simp [List.getElem?_eq_none (l := List.range n) (by simpa using Nat.le_of_not_lt h)]

theorem agetD_map_range (f : Nat → UInt8) (n i : Nat) :
    ((List.range n).map f).toArray.getD i 0 = if i < n then f i else 0 := by
  rw [← lgetD_map_range]
  simp [Array.getD_eq_getD_getElem?, List.getD_eq_getElem?_getD]

/-! ### `copyFwd` -/

theorem copyFwd_go_spec (dst src : Nat) : ∀ (k i : Nat) (h : Array UInt8),
    dst + i + k ≤ h.size → (dst ≤ src ∨ src + i + k ≤ dst) →
    (copyFwd.go dst src k i h).size = h.size ∧
    ∀ j, (copyFwd.go dst src k i h).getD j 0 =
      if dst + i ≤ j ∧ j < dst + i + k then h.getD (src + (j - dst)) 0 else h.getD j 0 := by
  intro k
  induction k with
  | zero =>
    intro i h _ _
    refine ⟨rfl, fun j => ?_⟩
    simp only [copyFwd.go]
    split
    · omega
    · rfl
  | succ k ih =>
    intro i h hsz hdis
    simp only [copyFwd.go]
    have := ih (i + 1) (h.setIfInBounds (dst + i) (h.getD (src + i) 0))
      (by rw [Array.size_setIfInBounds]; omega) (by omega)
    obtain ⟨h1, h2⟩ := this
    refine ⟨by rw [h1, Array.size_setIfInBounds], fun j => ?_⟩
    rw [h2 j]
    simp only [agetD_set]
    by_cases c1 : dst + (i + 1) ≤ j ∧ j < dst + (i + 1) + k
    · have e1 : ¬(dst + i = src + (j - dst) ∧ dst + i < h.size) := by omega
      have e2 : dst + i ≤ j ∧ j < dst + i + (k + 1) := by omega
      rw [if_pos c1, if_pos e2, if_neg e1]
    · rw [if_neg c1]
      by_cases c2 : dst + i = j
      · have e1 : dst + i = j ∧ dst + i < h.size := by omega
        have e2 : dst + i ≤ j ∧ j < dst + i + (k + 1) := by omega
        rw [if_pos e1, if_pos e2]
        congr 1; omega
      · have e1 : ¬(dst + i = j ∧ dst + i < h.size) := by omega
        have e2 : ¬(dst + i ≤ j ∧ j < dst + i + (k + 1)) := by omega
        rw [if_neg e1, if_neg e2]

theorem copyFwd_spec (h : Array UInt8) (dst dstEnd src srcEnd : Nat)
    (hsz : dst + min (dstEnd - dst) (srcEnd - src) ≤ h.size)
    (hdis : dst ≤ src ∨ src + min (dstEnd - dst) (srcEnd - src) ≤ dst) :
    (copyFwd h dst dstEnd src srcEnd).2 = min (dstEnd - dst) (srcEnd - src) ∧
    (copyFwd h dst dstEnd src srcEnd).1.size = h.size ∧
    ∀ j, (copyFwd h dst dstEnd src srcEnd).1.getD j 0 =
      if dst ≤ j ∧ j < dst + min (dstEnd - dst) (srcEnd - src)
      then h.getD (src + (j - dst)) 0 else h.getD j 0 := by
  have := copyFwd_go_spec dst src (min (dstEnd - dst) (srcEnd - src)) 0 h (by omega) (by omega)
  simpa [copyFwd] using this

/-! ### `writeBytes` -/

theorem writeBytes_go_spec : ∀ (l : List UInt8) (k i : Nat) (h : Array UInt8),
    i + min k l.length ≤ h.size →
    (Dict.writeBytes.go l k i h).size = h.size ∧
    ∀ j, (Dict.writeBytes.go l k i h).getD j 0 =
      if i ≤ j ∧ j < i + min k l.length then l.getD (j - i) 0 else h.getD j 0 := by
  intro l
  induction l with
  | nil =>
    intro k i h _
    cases k <;> simp [Dict.writeBytes.go] <;> intro j h1 h2 <;> omega
  | cons b r ih =>
    intro k i h hsz
    cases k with
    | zero => simp [Dict.writeBytes.go]; intro j h1 h2; omega
    | succ k =>
      simp only [Dict.writeBytes.go]
      have hm : min (k + 1) (b :: r).length = min k r.length + 1 := by
        simp only [List.length_cons]; omega
      rw [hm] at hsz ⊢
      obtain ⟨h1, h2⟩ := ih k (i + 1) (h.setIfInBounds i b)
        (by rw [Array.size_setIfInBounds]; omega)
      refine ⟨by rw [h1, Array.size_setIfInBounds], fun j => ?_⟩
      rw [h2 j]
      simp only [agetD_set]
      by_cases c1 : i + 1 ≤ j ∧ j < i + 1 + min k r.length
      · have e2 : i ≤ j ∧ j < i + (min k r.length + 1) := by omega
        rw [if_pos c1, if_pos e2]
        have : j - i = (j - (i + 1)) + 1 := by omega
        rw [this, List.getD_cons_succ]
      · rw [if_neg c1]
        by_cases c2 : i = j
        · subst c2
          have e1 : i = i ∧ i < h.size := by omega
          have e2 : i ≤ i ∧ i < i + (min k r.length + 1) := by omega
          rw [if_pos e1, if_pos e2]
          simp
        · have e1 : ¬(i = j ∧ i < h.size) := by omega
          have e2 : ¬(i ≤ j ∧ j < i + (min k r.length + 1)) := by omega
          rw [if_neg e1, if_neg e2]

/-! ### `copyLoop` -/

theorem add_mod_of_mod_zero (a i d : Nat) (h : a % d = 0) : (a + i) % d = i % d := by
  rw [Nat.add_mod, h, Nat.zero_add, Nat.mod_mod]

theorem copyLoop_spec (h0 : Array UInt8) (wr0 wrEnd rd0 dist : Nat) (hd : 0 < dist)
    (hrd : rd0 + dist = wr0) (hwe : wrEnd ≤ h0.size) :
    ∀ (fuel : Nat) (h : Array UInt8) (wrPos : Nat), wr0 ≤ wrPos → wrPos ≤ wrEnd →
    wrEnd - wrPos ≤ fuel → ((wrPos - wr0) % dist = 0 ∨ wrPos = wrEnd) → h.size = h0.size →
    (∀ j, h.getD j 0 = if wr0 ≤ j ∧ j < wrPos then h0.getD (rd0 + (j - wr0) % dist) 0
      else h0.getD j 0) →
    (copyLoop fuel h wrPos wrEnd rd0).2 = wrEnd ∧
    (copyLoop fuel h wrPos wrEnd rd0).1.size = h0.size ∧
    ∀ j, (copyLoop fuel h wrPos wrEnd rd0).1.getD j 0 =
      if wr0 ≤ j ∧ j < wrEnd then h0.getD (rd0 + (j - wr0) % dist) 0 else h0.getD j 0 := by
  intro fuel
  induction fuel with
  | zero =>
    intro h wrPos h1 h2 h3 _ h5 h6
    have : wrPos = wrEnd := by omega
    subst this
    exact ⟨rfl, h5, h6⟩
  | succ fuel ih =>
    intro h wrPos h1 h2 h3 h4 h5 h6
    unfold copyLoop
    by_cases hlt : wrPos < wrEnd
    · rw [if_pos hlt]
      have hdiv : (wrPos - wr0) % dist = 0 := by
        rcases h4 with h4 | h4
        · exact h4
        · omega
      have hsp := copyFwd_spec h wrPos wrEnd rd0 wrPos (by omega) (Or.inr (by omega))
      generalize copyFwd h wrPos wrEnd rd0 wrPos = p at hsp
      obtain ⟨h', n⟩ := p
      obtain ⟨hn, hs', hg'⟩ := hsp
      simp only at hn hs' hg' ⊢
      have hn0 : n ≠ 0 := by omega
      rw [if_neg hn0]
      apply ih h' (wrPos + n) (by omega) (by omega) (by omega) ?_ (by omega)
      · intro j
        rw [hg' j, ← hn]
        by_cases c1 : wrPos ≤ j ∧ j < wrPos + n
        · have e1 : wr0 ≤ j ∧ j < wrPos + n := by omega
          rw [if_pos c1, if_pos e1, h6]
          have hj : (j - wr0) % dist = (j - wrPos) % dist := by
            have : j - wr0 = (wrPos - wr0) + (j - wrPos) := by omega
            rw [this, add_mod_of_mod_zero _ _ _ hdiv]
          rw [hj]
          by_cases c2 : wr0 ≤ rd0 + (j - wrPos) ∧ rd0 + (j - wrPos) < wrPos
          · rw [if_pos c2]
            have : j - wrPos = (rd0 + (j - wrPos) - wr0) + dist := by omega
            rw [this, Nat.add_mod_right]
            congr 3
            omega
          · rw [if_neg c2]
            have : j - wrPos < dist := by omega
            rw [Nat.mod_eq_of_lt this]
        · rw [if_neg c1, h6]
          by_cases c2 : wr0 ≤ j ∧ j < wrPos
          · rw [if_pos c2, if_pos (by omega)]
          · rw [if_neg c2, if_neg (by omega)]
      · by_cases hfin : wrPos + n = wrEnd
        · exact Or.inr hfin
        · left
          have hn' : n = wrPos - rd0 := by omega
          have : wrPos + n - wr0 = (wrPos - wr0) + ((wrPos - wr0) + dist) := by omega
          rw [this, add_mod_of_mod_zero _ _ _ hdiv, Nat.add_mod_right, hdiv]
    · rw [if_neg hlt]
      have : wrPos = wrEnd := by omega
      subst this
      exact ⟨rfl, h5, h6⟩

/-- `copyLoop` from a clean start. -/
theorem copyLoop_spec0 (h0 : Array UInt8) (wr0 wrEnd rd0 dist fuel : Nat) (hd : 0 < dist)
    (hrd : rd0 + dist = wr0) (hwe : wrEnd ≤ h0.size) (hle : wr0 ≤ wrEnd)
    (hf : wrEnd - wr0 ≤ fuel) :
    (copyLoop fuel h0 wr0 wrEnd rd0).2 = wrEnd ∧
    (copyLoop fuel h0 wr0 wrEnd rd0).1.size = h0.size ∧
    ∀ j, (copyLoop fuel h0 wr0 wrEnd rd0).1.getD j 0 =
      if wr0 ≤ j ∧ j < wrEnd then h0.getD (rd0 + (j - wr0) % dist) 0 else h0.getD j 0 := by
  apply copyLoop_spec h0 wr0 wrEnd rd0 dist hd hrd hwe fuel h0 wr0 (Nat.le_refl _) hle hf
    (Or.inl (by simp)) rfl
  intro j
  rw [if_neg (by omega)]

end Compress.Proofs.Window
