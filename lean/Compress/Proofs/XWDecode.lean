/-
C06: the RFC 1951 view of what xflate.Writer emitted.
-/
import Compress.Proofs.XWRun
import Compress.Proofs.MetaLocate
import Compress.Proofs.MetaSilent

namespace Compress.Proofs.XWShape
open Compress Compress.XFlate Compress.Flate Compress.Proofs.XWLog

/-! ### non-vacuity of the compressor contract -/

theorem decodeBlocks_stored (total fuel : Nat) (out out' : Array UInt8) (bits b1 b2 b4 b5 b6 : Bits)
    (bfinal len nlen : Nat)
    (h1 : takeBits 1 bits = some (bfinal, b1)) (h2 : takeBits 2 b1 = some (0, b2))
    (h3 : takeBits 16 (b2.drop (padTo8 (total - b2.length))) = some (len, b4))
    (h4 : takeBits 16 b4 = some (nlen, b5)) (h5 : len + nlen = 65535)
    (h6 : takeBytes len out b5 = (out', some b6)) :
    decodeBlocks total (fuel + 1) out bits =
      if bfinal = 1 then
        { out := out', verdict := .ok (total - b6.length + padTo8 (total - b6.length)) }
      else decodeBlocks total fuel out' b6 := by
  simp only [decodeBlocks, h1, h2, h3, h4, h5, h6]
  simp

def z16 : Bits := List.replicate 16 false
def o16 : Bits := List.replicate 16 true
theorem sync_bits : Bits.ofBytes [0,0,0,255,255] =
  false :: false :: false :: ([false,false,false,false,false] ++ (z16 ++ (o16 ++ []))) := by decide

theorem tb_z16 (rest : Bits) : takeBits 16 (z16 ++ rest) = some (0, rest) := by
  simp [takeBits, z16, List.replicate, Bits.toNat]
theorem tb_o16 (rest : Bits) : takeBits 16 (o16 ++ rest) = some (65535, rest) := by
  simp [takeBits, o16, List.replicate, Bits.toNat]

/-- the contract `ZChunkOK` is satisfiable: the empty chunk as compress/flate
    writes it (a sync flush: an empty stored block) fulfils it. -/
theorem zchunkOK_syncMarker : ZChunkOK [0,0,0,255,255] [] := by
  refine ⟨1, by omega, by simp, ?_⟩
  intro total fuel out rest h1 h2
  simp only [List.length_cons, List.length_nil] at h1
  have hpad : padTo8 (total - (37 + rest.length)) = 5 := by unfold padTo8; omega
  rw [sync_bits]
  have hlen : ([false,false,false,false,false] ++ (z16 ++ (o16 ++ [])) ++ rest).length
        = 37 + rest.length := by simp [z16, o16]; omega
  rw [decodeBlocks_stored total fuel out out _
    (false :: false :: ([false,false,false,false,false] ++ (z16 ++ (o16 ++ [])) ++ rest))
    ([false,false,false,false,false] ++ (z16 ++ (o16 ++ [])) ++ rest)
    (o16 ++ rest) rest rest 0 0 65535 rfl rfl ?_ (tb_o16 rest) rfl rfl]
  · simp
  · rw [hlen, hpad]
    exact (by simpa using tb_z16 (o16 ++ rest))

/-! ### transparent segments -/

/-- a byte segment that, placed on a byte boundary of a DEFLATE stream, is a run
    of complete non-final blocks producing `data`. -/
def Transp (seg data : List UInt8) : Prop :=
  ∃ k, k ≤ 8 * seg.length ∧
    ∀ (total fuel : Nat) (out : Array UInt8) (rest : Bits),
      rest.length + 8 * seg.length ≤ total → (total - rest.length) % 8 = 0 →
      decodeBlocks total (fuel + k) out (Bits.ofBytes seg ++ rest) =
        decodeBlocks total fuel (out ++ data.toArray) rest

theorem transp_nil : Transp [] [] := by
  refine ⟨0, by simp, ?_⟩
  intro total fuel out rest _ _
  simp [Bits.ofBytes]

theorem transp_of_chunk {b d : List UInt8} (h : ZChunkOK b d) : Transp b d := by
  obtain ⟨k, _, h2, h3⟩ := h
  exact ⟨k, h2, h3⟩

theorem transp_append {a b d1 d2 : List UInt8} (h1 : Transp a d1) (h2 : Transp b d2) :
    Transp (a ++ b) (d1 ++ d2) := by
  obtain ⟨k1, l1, t1⟩ := h1
  obtain ⟨k2, l2, t2⟩ := h2
  refine ⟨k1 + k2, by simp only [List.length_append]; omega, ?_⟩
  intro total fuel out rest hle hal
  simp only [List.length_append] at hle
  rw [Proofs.Meta.ofBytes_append, List.append_assoc]
  have e : fuel + (k1 + k2) = (fuel + k2) + k1 := by omega
  rw [e, t1 total (fuel + k2) out (Bits.ofBytes b ++ rest)
    (by simp only [List.length_append, Proofs.Meta.length_ofBytes]; omega)
    (by simp only [List.length_append, Proofs.Meta.length_ofBytes]; omega)]
  rw [t2 total fuel _ rest (by omega) hal]
  simp [Array.append_assoc]

theorem transp_block (c : List UInt8) (fm : Meta.FinalMode) (bits : Bits)
    (h : Meta.encodeBlock c fm = some bits) (hf : fm ≠ .fstream) : Transp (Bits.toBytes bits) [] := by
  have hal := Proofs.Meta.encodeBlock_aligned c fm bits h
  have hsz := Proofs.MetaLocate.encodeBlock_size c fm bits h
  have hlen := Proofs.Meta.length_toBytes bits hal
  refine ⟨1, by omega, ?_⟩
  intro total fuel out rest _ _
  rw [Proofs.Meta.ofBytes_toBytes bits hal, Proofs.MetaSilent.meta_block_silent c fm bits h, if_neg hf]
  simp

/-- the blocks `Meta.encode` produces: full blocks without a final bit, then one
    block carrying the requested mode. -/
theorem encode_blocks (payload : List UInt8) (final : Meta.FinalMode) (blocks : List (List UInt8))
    (h : Meta.encode payload final = some blocks) :
    ∃ (ps : List (List UInt8 × Bits)) (cF : List UInt8) (bitsF : Bits),
      (∀ p ∈ ps, Meta.encodeBlock p.1 .fnil = some p.2) ∧ Meta.encodeBlock cF final = some bitsF ∧
      blocks = ps.map (fun p => Bits.toBytes p.2) ++ [Bits.toBytes bitsF] ∧
      (ps.map Prod.fst).flatten ++ cF = payload := by
  obtain ⟨s, e, i, ps, r1, r2, r3⟩ :=
    Proofs.Meta.writeBytes_spec payload {} [] Proofs.Meta.WInv_init ⟨[], by simp, rfl, rfl⟩
  obtain ⟨bitsF, hF, hc⟩ := Proofs.Meta.closeW_some s final i
  simp only [Meta.encode, e, hc, Option.some.injEq] at h
  refine ⟨ps, s.buf, bitsF, r1, hF, ?_, by simpa using r3⟩
  rw [← h, r2]

theorem transp_blocks : ∀ (ps : List (List UInt8 × Bits)), (∀ p ∈ ps, Meta.encodeBlock p.1 .fnil = some p.2) →
    Transp (ps.map (fun p => Bits.toBytes p.2)).flatten []
  | [], _ => transp_nil
  | p :: ps, h => by
    have h1 := transp_block p.1 .fnil p.2 (h p (List.mem_cons_self ..)) (by decide)
    have h2 := transp_blocks ps (fun q hq => h q (List.mem_cons_of_mem _ hq))
    simpa using transp_append h1 h2

theorem transp_meta (payload : List UInt8) (fm : Meta.FinalMode) (blocks : List (List UInt8))
    (h : Meta.encode payload fm = some blocks) (hf : fm ≠ .fstream) : Transp blocks.flatten [] := by
  obtain ⟨ps, cF, bitsF, h1, h2, rfl, _⟩ := encode_blocks payload fm blocks h
  have := transp_append (transp_blocks ps h1) (transp_block cF fm bitsF h2 hf)
  simpa using this

theorem transp_chunks : ∀ (l : List Grp), (∀ c ∈ l, Transp c.1 c.2) → Transp (cbytes l) (cdata l)
  | [], _ => transp_nil
  | c :: l, h => by
    have h1 := h c (List.mem_cons_self ..)
    have h2 := transp_chunks l (fun q hq => h q (List.mem_cons_of_mem _ hq))
    simpa [cbytes, cdata] using transp_append h1 h2

theorem transp_groups (crc : List UInt8 → Nat) : ∀ (rgs : List IG), WFR crc rgs →
    (∀ c ∈ chunksR rgs, Transp c.1 c.2) → Transp (bytesR rgs) (cdata (chunksR rgs))
  | [], _, _ => transp_nil
  | g :: rest, hw, h => by
    have h1 := transp_groups crc rest hw.2 (fun c hc => h c (List.mem_append_left _ hc))
    have h2 := transp_chunks g.chunks (fun c hc => h c (List.mem_append_right _ hc))
    have h3 := transp_meta _ _ _ hw.1 (by decide)
    have := transp_append h1 (transp_append h2 h3)
    simpa [bytesR, chunksR, cdata_append] using this

/-- a transparent prefix followed by one block with the stream-final bit. -/
theorem decode_transp_final (a d foot : List UInt8) (c : List UInt8) (bits : Bits)
    (ht : Transp a d) (hb : Meta.encodeBlock c .fstream = some bits) (hfoot : foot = Bits.toBytes bits) :
    Flate.decode (a ++ foot) = { out := d.toArray, verdict := .ok (8 * (a ++ foot).length) } := by
  obtain ⟨k, hk, t⟩ := ht
  have hal := Proofs.Meta.encodeBlock_aligned c .fstream bits hb
  have hsz := Proofs.MetaLocate.encodeBlock_size c .fstream bits hb
  have hlen := Proofs.Meta.length_toBytes bits hal
  subst hfoot
  unfold Flate.decode Flate.decodeBits
  rw [Proofs.Meta.ofBytes_append, Proofs.Meta.ofBytes_toBytes bits hal]
  have hl : (Bits.ofBytes a ++ bits).length = 8 * (a ++ Bits.toBytes bits).length := by
    simp only [List.length_append, Proofs.Meta.length_ofBytes, hlen]; omega
  rw [hl]
  simp only [List.length_append, hlen]
  have e : 8 * (a.length + bits.length / 8) + 1 = (8 * (a.length + bits.length / 8) - k) + 1 + k := by omega
  rw [e, t _ _ _ bits (by omega) (by omega)]
  have := Proofs.MetaSilent.meta_block_silent c .fstream bits hb (8 * (a.length + bits.length / 8))
    (8 * (a.length + bits.length / 8) - k) (#[] ++ d.toArray) []
  rw [List.append_nil] at this
  rw [this]
  simp [padTo8]

/-- **C06** on the structural description of a closed stream. -/
theorem fin_decode (crc : List UInt8 → Nat) (s : XWState) (rgs : List IG) (tr : List Grp) (foot : List UInt8)
    (hf : Fin crc s rgs tr foot)
    (hz : ∀ c ∈ chunksOf s.zlog [] [], ZChunkOK c.1 c.2) :
    Flate.decode s.sink.got =
      { out := (dataOf s.zlog).toArray, verdict := .ok (8 * s.sink.got.length) } := by
  have hch : ∀ c ∈ chunksR rgs ++ tr, Transp c.1 c.2 := by
    intro c hc
    by_cases he : c.1 = [] ∧ c.2 = []
    · obtain ⟨c1, c2⟩ := c
      simp only at he
      rw [he.1, he.2]; exact transp_nil
    · apply transp_of_chunk
      apply hz
      rw [chunksOf_eq, hf.closed, hf.opn, opt_empty, List.append_nil, ne_cons, opt_empty, List.nil_append, mem_ne]
      exact ⟨hc, he⟩
  have h1 := transp_groups crc rgs hf.wf (fun c hc => hch c (List.mem_append_left _ hc))
  have h2 := transp_chunks tr (fun c hc => hch c (List.mem_append_right _ hc))
  have h3 := transp_append h1 h2
  obtain ⟨ps, cF, bitsF, p1, p2, p3, _⟩ := encode_blocks _ _ _ hf.footEnc
  have hps : ps = [] := by
    cases ps with
    | nil => rfl
    | cons p ps => simp at p3
  subst hps
  simp only [List.map_nil, List.nil_append, List.cons.injEq, and_true] at p3
  rw [hf.got, hf.data, cdata_append]
  exact decode_transp_final _ _ foot cF bitsF h3 p2 p3

end Compress.Proofs.XWShape
