/-
C18 — Lifecycle: closed means closed, whatever the call order.

Proved on the models of xflate.Writer, xflate.Reader, bzip2.Writer and
meta.Writer; the entry guards and sentinel comparisons of all eight API types
are tied to the source by `Compress.Facts.guards_expected`; the other types'
behaviour is decided by the exhaustive op-sequence sweep (family `life`).
-/
import Compress.Proofs.XFlateWriterLatch
import Compress.Proofs.BzWApiLatch
import Compress.Proofs.MetaWApi
import Compress.Proofs.MetaRApi
import Compress.XFlate.ReaderSpec
import Compress.Facts.Sites
import Compress.Proofs.FlateApi
import Compress.Proofs.BrotliApi
import Compress.Proofs.BzReaderApi

namespace Compress.Props.C18
open Compress Compress.XFlate Compress.Proofs.XFlateWriterLatch

/-- after a successful Close, Write and Flush are refused with the "closed" error,
    Close is idempotent, and nothing changes — no byte reaches the sink. -/
theorem C18_writer_closed (crc : List UInt8 → Nat) (s : XWState) (h : s.err = some .closed) (op : WOp) :
    stepW crc s op = (s, match op with | .write _ => .write 0 (some .closed) | .flush _ => .flush (some .closed) | .close => .close none) :=
  closed_refuses crc s h op

/-- Close either closes (nil) or latches the error it returns. -/
theorem C18_close_latches (crc : List UInt8 → Nat) (s : XWState) :
    ((closeW crc s).2 = none → (closeW crc s).1.err = some .closed) ∧
    (∀ e, (closeW crc s).2 = some e → (closeW crc s).1.err = some e) :=
  close_latches crc s

/-- lifted to histories: whatever follows a successful Close leaves the sink untouched. -/
theorem C18_writer_closed_forever (crc : List UInt8 → Nat) (s : XWState) (h : s.err = some .closed) (ops : List WOp) :
    (runW crc s ops).1 = s := by
  induction ops with
  | nil => rfl
  | cons op ops ih =>
    have := closed_refuses crc s h op
    simp only [runW, this]
    simpa using ih

/-- xflate.Reader: Close after io.EOF (or mid-stream) succeeds and closes; a closed
    Reader refuses Read and Seek with the "closed" error and returns no data; Close is idempotent. -/
theorem C18_reader_closed (v : Variant) (L : Layout) (s : RState) (h : s.err = none ∨ s.err = some .eof) :
    (close s).2 = none ∧ (close s).1.err = some .closed ∧
    (∀ n adv fuel, XFlate.read v L (close s).1 n adv fuel = some ((close s).1, [], some .closed)) ∧
    (∀ off wh, seek v L (close s).1 off wh = ((close s).1, 0, some .closed)) ∧
    close (close s).1 = ((close s).1, none) := by
  have hc : close s = ({ s with err := some .closed }, none) := by
    unfold close
    rcases h with h | h <;> simp [h]
  rw [hc]
  refine ⟨rfl, rfl, ?_, ?_, ?_⟩
  · intro n adv fuel; simp [XFlate.read]
  · intro off wh; simp [seek]
  · simp [close]

/-! ### bzip2.Writer and meta.Writer (API-level models; total functions: no op sequence can panic) -/

section bzmeta
open Compress.Bzip2 Compress.Meta

/-- bzip2.Writer: Close returning nil makes the writer `done` with the closed marker latched ... -/
theorem C18_bzip2_close_closes (s : BzW) (h : Compress.Proofs.BzWApi.Latched s) (hc : (s.close).2 = none) :
    (s.close).1.done = true ∧ (s.close).1.err = some .closed :=
  (Compress.Proofs.BzWApi.close_latches s h).1 hc

/-- ... after which Write is refused with the closed error, Close returns nil again, and the whole
    state - hence the sink - never changes, for every continuation without Reset. -/
theorem C18_bzip2_closed (s : BzW) (hd : s.done = true) (he : s.err = some .closed) :
    (∀ d, s.step (.write d) = (s, .write 0 (some .closed))) ∧ s.step .close = (s, .close none) ∧
    (∀ ops : List BzOp, (∀ op ∈ ops, op.noReset) → (BzW.run s ops).1 = s) :=
  ⟨fun d => (Compress.Proofs.BzWApi.closed_refuses s hd he d).1, (Compress.Proofs.BzWApi.closed_refuses s hd he []).2,
   Compress.Proofs.BzWApi.closed_forever s hd he⟩

theorem C18_meta_close_closes (s : MW) (h : s.done = true → s.err = some .closed) (hc : (s.close).2 = none) :
    (s.close).1.done = true ∧ (s.close).1.err = some .closed :=
  (Compress.Proofs.MetaWApi.close_latches s h).1 hc

theorem C18_meta_closed (s : MW) (hd : s.done = true) (he : s.err = some .closed) :
    (∀ d, s.step (.write d) = (s, .write 0 (some .closed))) ∧ s.step .close = (s, .close none) ∧
    (∀ ops : List MOp, (∀ op ∈ ops, op.noReset) → (MW.run s ops).1 = s) :=
  ⟨fun d => (Compress.Proofs.MetaWApi.closed_refuses s hd he d).1, (Compress.Proofs.MetaWApi.closed_refuses s hd he []).2,
   Compress.Proofs.MetaWApi.closed_forever s hd he⟩

end bzmeta

/-! ### meta.Reader (API-level model `Meta/ReaderApi.lean`) -/

section metaReader
open Compress.Meta Compress.Proofs.MetaRApi

/-- **meta.Reader: closed means closed, no call order panics.** For every source (any bytes,
    any fault) and every op sequence (Read of any length, Close, Reset onto any source, in any
    order): (1) no call returns the nil-dereference outcome the model has for a `decodeBlock`
    on the released `mr.rd`; (2) a Close that returns nil leaves the reader closed, and so does
    every state with the closed flag; (3) from a closed reader every Read returns no data and
    the closed error, every Close returns nil, and the state never changes, for every
    continuation without Reset; (4) Reset gives exactly a new reader, whatever came before. -/
theorem C18_meta_reader_closed (src : Src) (ops : List Meta.ROp) :
    let s := (MR.run (newMR src) ops).1
    (∀ r ∈ (MR.run (newMR src) ops).2, ¬ panicRes r) ∧
    (s.close.2 = none → s.close.1.done = true ∧ s.close.1.err = some .closed) ∧
    (s.done = true ↔ s.err = some .closed) ∧
    (s.done = true → ∀ ops', noReset ops' → MR.run s ops' = (s, ops'.map closedRes)) ∧
    (∀ src' ops', MR.run s (.reset src' :: ops') =
      ((MR.run (newMR src') ops').1, .reset :: (MR.run (newMR src') ops').2)) :=
  Compress.Proofs.MetaRApi.C18_meta_reader_closed_proof src ops

-- the closed reader: Read after Close on a fresh reader
example : ((newMR { data := [1, 2, 3] }).close.1.read 4).2 = ([], some .closed) := by decide

end metaReader

/-- the source has the guard shape the models assume (regenerated facts). -/
theorem C18_guards_in_source :
    [ Facts.guardOf "xflate" "*Writer" "Write", Facts.guardOf "xflate" "*Writer" "Flush", Facts.guardOf "xflate" "*Writer" "Close",
      Facts.guardOf "xflate" "*Reader" "Read", Facts.guardOf "xflate" "*Reader" "Seek", Facts.guardOf "xflate" "*Reader" "Close" ] =
    [ some (true, []), some (true, []), some (true, ["done"]),
      some (true, ["==io.EOF"]), some (true, ["!=io.EOF"]), some (true, ["!=io.EOF", "done"]) ] := by
  have := Compress.Facts.guards_expected
  decide

/-! ### flate.Reader and bzip2.Reader (API-level models; total functions: no call sequence has a panic value) -/

section readers
open Compress.Flate.Api in
/-- **flate.Reader: closed means closed.** A Close that returns nil on a reader with an error latched
    (that error was `io.EOF`, or the reader was closed already - `C09_flate_close_result`) closes it:
    every later Read returns `(0, closed error)`, every later Close nil, and nothing changes, for
    every continuation without Reset.  (A Close that returns nil with nothing latched - mid-stream -
    does not close: the Go code returns `zr.err`, which is nil, and only drops the pending output.) -/
theorem C18_flate_reader_closed (r : Reader) (hc : (r.close).2 = none) (he : r.err ≠ none)
    (ops : List Op) (hn : ∀ op ∈ ops, op.noReset = true) :
    (r.close).1.done = true ∧ (r.close).1.err = some .closed ∧
    Reader.run (r.close).1 ops = ((r.close).1, ops.map Compress.Proofs.FlateApi.closedRes) := by
  have h := (Compress.Proofs.FlateApi.close_nil_iff r).1 hc
  have h' : r.err = some .eof ∨ r.done = true := by
    rcases h with h | h | h
    · exact absurd h he
    · exact Or.inl h
    · exact Or.inr h
  have hcl := (Compress.Proofs.FlateApi.close_closes r h').2
  exact ⟨hcl.1, by simp [Reader.err, hcl.1], Compress.Proofs.FlateApi.closed_forever _ hcl ops hn⟩

open Compress.Brotli.Api in
/-- **brotli.Reader: closed means closed.** A Close that returns nil on a reader with an error latched
    (that error was `io.EOF`, or the reader was closed already - `C09_brotli_close_result`) closes it:
    every later Read returns `(0, io.ErrClosedPipe)`, every later Close nil, and nothing changes, for
    every continuation without Reset.  (A Close that returns nil with nothing latched - mid-stream -
    does not close: the Go code returns `br.err`, which is nil.) -/
theorem C18_brotli_reader_closed (sd : ByteArray) (r : Reader) (hc : (r.close).2 = none) (he : r.err ≠ none)
    (ops : List Op) (hn : ∀ op ∈ ops, op.noReset = true) :
    (r.close).1.done = true ∧ (r.close).1.err = some .closed ∧
    Reader.run sd (r.close).1 ops = ((r.close).1, ops.map Compress.Proofs.BrotliApi.closedRes) := by
  have h := (Compress.Proofs.BrotliApi.close_nil_iff r).1 hc
  have h' : r.err = some .eof ∨ r.done = true := by
    rcases h with h | h | h
    · exact absurd h he
    · exact Or.inl h
    · exact Or.inr h
  have hcl := (Compress.Proofs.BrotliApi.close_closes r h').2
  exact ⟨hcl.1, by simp [Reader.err, hcl.1], Compress.Proofs.BrotliApi.closed_forever sd _ hcl ops hn⟩

open Compress.Bzip2.ReaderApi in
/-- **bzip2.Reader: closed means closed** (same statement). -/
theorem C18_bzip2_reader_closed (r : Reader) (hc : (r.close).2 = none) (he : r.err ≠ none)
    (ops : List Op) (hn : ∀ op ∈ ops, op.noReset = true) :
    (r.close).1.done = true ∧ (r.close).1.err = some .closed ∧
    Reader.run (r.close).1 ops = ((r.close).1, ops.map Compress.Proofs.BzReaderApi.closedRes) := by
  have h := (Compress.Proofs.BzReaderApi.close_nil_iff r).1 hc
  have h' : r.err = some .eof ∨ r.done = true := by
    rcases h with h | h | h
    · exact absurd h he
    · exact Or.inl h
    · exact Or.inr h
  have hcl := (Compress.Proofs.BzReaderApi.close_closes r h').2
  exact ⟨hcl.1, by simp [Reader.err, hcl.1], Compress.Proofs.BzReaderApi.closed_forever _ hcl ops hn⟩

end readers

end Compress.Props.C18
