/-
C19 — independent instances do not interfere when used concurrently.

What is proved and what ties it to the code.
* The regenerated facts (`Compress.Facts.Sites`): no package-level variable of
  /repo is assigned outside the `init…LUTs` functions that run once from package
  initialisers, and the only package-level variables whose address is taken are
  the fixed decode/encode tables, at read-only use sites.  So a method call can
  only read the package state `g` and read/write the state of its own receiver.
* The frame theorem below: for steps of that shape, *every* interleaving of the
  calls of any number of instances gives each instance exactly the results and
  the final state it has when run alone.
* What a theorem about a sequential model cannot exhibit — a data race inside
  the Go runtime (unsynchronised access that happens to produce the right
  values) — is looked for by the race detector: family cc runs the real code from
  many goroutines in a binary built with -race.
-/
import Compress.Facts.Sites

namespace Compress.Props.C19

variable {G σ Op Out : Type}

/-- instances indexed by `Nat`; a schedule names the instance of every call. -/
def runInter (step : G → σ → Op → σ × Out) (g : G) :
    (Nat → σ) → List (Nat × Op) → (Nat → σ) × List (Nat × Out)
  | st, [] => (st, [])
  | st, (i, op) :: rest =>
    let r := step g (st i) op
    let rr := runInter step g (fun j => if j = i then r.1 else st j) rest
    (rr.1, (i, r.2) :: rr.2)

/-- one instance on its own. -/
def runSolo (step : G → σ → Op → σ × Out) (g : G) : σ → List Op → σ × List Out
  | s, [] => (s, [])
  | s, op :: rest =>
    let r := step g s op
    let rr := runSolo step g r.1 rest
    (rr.1, r.2 :: rr.2)

/-- the calls (or results) of instance `i` in a schedule. -/
def proj {α : Type} (i : Nat) (l : List (Nat × α)) : List α :=
  l.filterMap fun p => if p.1 = i then some p.2 else none

/-- **C19 (frame).** Whatever the interleaving, instance `i` ends in the state and
    returns the results of running its own calls alone. -/
theorem interleaving_is_solo (step : G → σ → Op → σ × Out) (g : G) (i : Nat) :
    ∀ (sched : List (Nat × Op)) (st : Nat → σ),
      ((runInter step g st sched).1 i, proj i (runInter step g st sched).2) =
        runSolo step g (st i) (proj i sched)
  | [], st => rfl
  | (j, op) :: rest, st => by
    have ih := interleaving_is_solo step g i rest (fun k => if k = j then (step g (st j) op).1 else st k)
    by_cases h : j = i
    · subst h
      simp only [if_pos] at ih
      simp only [runInter, proj, List.filterMap_cons, if_true, runSolo]
      simp only [proj] at ih
      rw [← ih]
    · have hne : ¬ i = j := fun e => h e.symm
      simp only [if_neg hne] at ih
      simp only [runInter, proj, List.filterMap_cons, if_neg h]
      simpa only [proj] using ih

/-- the results an instance produces do not depend on what the others are asked to do. -/
theorem others_irrelevant (step : G → σ → Op → σ × Out) (g : G) (i : Nat)
    (s1 s2 : List (Nat × Op)) (st1 st2 : Nat → σ) (hs : st1 i = st2 i) (hp : proj i s1 = proj i s2) :
    proj i (runInter step g st1 s1).2 = proj i (runInter step g st2 s2).2 := by
  have a := interleaving_is_solo step g i s1 st1
  have b := interleaving_is_solo step g i s2 st2
  rw [hs, hp] at a
  exact (congrArg Prod.snd a).trans (congrArg Prod.snd b).symm

/-- the premise, regenerated from /repo on every run: package-level state is written
    only by the initialisers … -/
theorem C19_no_shared_write :
    (Compress.Generated.globalFacts.all fun g => g.writtenIn.all (· ∈ Compress.Facts.initFuncs)) = true :=
  Compress.Facts.no_shared_write

/-- non-vacuity: two counters interleaved. -/
example : proj 1 (runInter (fun (g : Nat) (s : Nat) (op : Nat) => (s + op + g, s)) 10 (fun _ => 0)
    [(0, 5), (1, 7), (0, 1), (1, 2)]).2 = [0, 17] := by decide

end Compress.Props.C19
