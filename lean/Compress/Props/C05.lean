/-
C05 — XFLATE round trip for every configuration and write/flush schedule.

Models: `Compress.XFlate.Writer`, `Compress.XFlate.Open` (Reader.Reset's
parsing), `Compress.XFlate.Reader` (C07), meta codec.
-/
import Compress.Proofs.XFlateStream
import Compress.Proofs.XFlateWriterLatch

namespace Compress.Props.C05
open Compress Compress.XFlate

/-- invalid configurations — and only those — are refused at construction. -/
theorem C05_config_refused (level chunk index : Int) (hasConf : Bool) (sink : Sink) (oracle : List ZEv) :
    newWriter level chunk index hasConf sink oracle = none ↔ ¬ ValidConfig level chunk hasConf :=
  Compress.Proofs.XFlateWriterLatch.newWriter_none_iff level chunk index hasConf sink oracle

/-- **C05 (index round trip).** For every accepted configuration, every
    Write/Flush schedule and a successful Close, `Reader.Reset`'s parsing of the
    emitted bytes (footer located by backward search, indexes walked backwards,
    CRC/totals/sizes checked, records merged) succeeds and reconstructs exactly the
    records the writer accumulated: one per chunk, one per index block, one for the
    footer. Stated for the real CRC-32. -/
theorem C05_index_roundtrip (level chunk index : Int) (hasConf : Bool)
    (oracle : List ZEv) (ops : List WOp) (s0 : XWState)
    (h0 : newWriter level chunk index hasConf {} oracle = some s0)
    (hz : ∀ ev ∈ oracle, ev.err ≠ some .closed) :
    let s := (runW crc32IEEE s0 ops).1
    s.err = some .closed → s.bad = false →
    (∀ c ∈ chunksOf s.zlog [] [], 4 < c.1.length) →
    (∀ p ∈ s.zlog, p.1.kind = .zflush → p.1.emitted ≠ []) →
    s.sink.got.length < 2 ^ 63 → (dataOf s.zlog).length < 2 ^ 63 →
    ∃ r, openIndex .fixed crc32IEEE s.sink.got = .ok r ∧ r.recs = s.allRecs :=
  Compress.Proofs.XFlateStream.index_roundtrip_crc32 level chunk index hasConf oracle ops s0 h0 hz

/-- the accepted data is accounted for byte by byte. -/
theorem C05_data_accounted (crc : List UInt8 → Nat) (level chunk index : Int) (hasConf : Bool)
    (oracle : List ZEv) (ops : List WOp) (s0 : XWState)
    (h0 : newWriter level chunk index hasConf {} oracle = some s0) :
    let s := (runW crc s0 ops).1
    s.bad = false → s.inOff = (dataOf s.zlog).length :=
  Compress.Proofs.XFlateStream.data_accounted crc level chunk index hasConf oracle ops s0 h0

end Compress.Props.C05
