/-
C05 — XFLATE round trip for every configuration and write/flush schedule.

Models: `Compress.XFlate.Writer`, `Compress.XFlate.Open` (Reader.Reset's
parsing), `Compress.XFlate.Reader` (C07), meta codec.
-/
import Compress.Proofs.XFlateStream
import Compress.Proofs.XFlateWriterLatch
import Compress.Proofs.XFlateGlue
import Compress.Proofs.XWSplit

namespace Compress.Props.C05
open Compress Compress.XFlate

/-- invalid configurations — and only those — are refused at construction. -/
theorem C05_config_refused (level chunk index : Int) (hasConf : Bool) (sink : Sink) (oracle : List ZEv) :
    newWriter level chunk index hasConf sink oracle = none ↔ ¬ ValidConfig level chunk hasConf :=
  Compress.Proofs.XFlateWriterLatch.newWriter_none_iff level chunk index hasConf sink oracle

/-- **C05 (index round trip).** For every accepted configuration, every
    Write/Flush schedule and a successful Close, `Reader.Reset`'s parsing of the
    emitted bytes (footer located by backward search, indexes walked backwards,
    CRC/totals/sizes checked, records merged) succeeds and reconstructs exactly the
    records the writer accumulated: one per chunk, one per index block, one for the
    footer. Stated for the real CRC-32. -/
theorem C05_index_roundtrip (level chunk index : Int) (hasConf : Bool)
    (oracle : List ZEv) (ops : List WOp) (s0 : XWState)
    (h0 : newWriter level chunk index hasConf {} oracle = some s0)
    (hz : ∀ ev ∈ oracle, ev.err ≠ some .closed) :
    let s := (runW crc32IEEE s0 ops).1
    s.err = some .closed → s.bad = false →
    (∀ c ∈ chunksOf s.zlog [] [], 4 < c.1.length) →
    (∀ p ∈ s.zlog, p.1.kind = .zflush → p.1.emitted ≠ []) →
    s.sink.got.length < 2 ^ 63 → (dataOf s.zlog).length < 2 ^ 63 →
    ∃ r, openIndex .fixed crc32IEEE s.sink.got = .ok r ∧ r.recs = s.allRecs :=
  Compress.Proofs.XFlateStream.index_roundtrip_crc32 level chunk index hasConf oracle ops s0 h0 hz

/-- the accepted data is accounted for byte by byte. -/
theorem C05_data_accounted (crc : List UInt8 → Nat) (level chunk index : Int) (hasConf : Bool)
    (oracle : List ZEv) (ops : List WOp) (s0 : XWState)
    (h0 : newWriter level chunk index hasConf {} oracle = some s0) :
    let s := (runW crc s0 ops).1
    s.bad = false → s.inOff = (dataOf s.zlog).length :=
  Compress.Proofs.XFlateStream.data_accounted crc level chunk index hasConf oracle ops s0 h0

open Compress.Proofs.XFlateGlue in
/-- **C05 (round trip).** For every accepted configuration, every Write/Flush(any mode) schedule
    and a successful Close, under the compressor contract (every chunk the compressor emitted
    between Reset and a flush is a run of complete non-final blocks that ends in the sync marker and
    decodes to the chunk's data: `ZChunkOK`), the layout the writer's records describe over the
    emitted bytes is well-formed for the written data; hence EVERY sequence of Seek and Read calls
    on the reader model opened over the emitted bytes behaves like a ReadSeeker over the written
    data (C07), and the end position equals the length of the data. Together with
    `C05_index_roundtrip` (the reader's own parsing reconstructs exactly these records) this is the
    round trip of the property. -/
theorem C05_roundtrip (crc : List UInt8 → Nat) (level chunk index : Int) (hasConf : Bool)
    (oracle : List ZEv) (ops : List WOp) (s0 : XWState)
    (h0 : newWriter level chunk index hasConf {} oracle = some s0)
    (hz : ∀ ev ∈ oracle, ev.err ≠ some .closed) (rops : List ROp) :
    let s := (runW crc s0 ops).1
    s.err = some .closed → s.bad = false →
    (∀ c ∈ chunksOf s.zlog [] [], ZChunkOK c.1 c.2 ∧ 4 < c.1.length ∧
        (c.1.reverse.take 4).reverse = [0x00, 0x00, 0xff, 0xff]) →
    (∀ p ∈ s.zlog, p.1.kind = .zflush → p.1.emitted ≠ []) →
    s.sink.got.length < 2 ^ 63 → (dataOf s.zlog).length < 2 ^ 63 →
    let L := layoutOf s.sink.got s.allRecs
    TraceOK (dataOf s.zlog) 0 rops (runOps .fixed L (opened .fixed L) rops) ∧
    L.endRaw = ((dataOf s.zlog).length : Int) :=
  Compress.Proofs.XFlateGlue.roundtrip crc level chunk index hasConf oracle ops s0 h0 hz rops

/-- **C05 (split independence).** "For a fixed configuration and flush positions the emitted
    bytes do not depend on how writes were split."  The compressor is any DETERMINISTIC one:
    a function `Z : ZFun` giving the bytes emitted since the last Reset from the level, the data
    written since the Reset and the positions of the flushes since the Reset only
    (`Compress.XFlate.WriterSplitSpec`; `oracleOf Z … ops` is the oracle of a compressor behaving
    as `Z` during `ops`, see `C05_oracleOf_behaves`).  For every accepted configuration and any two
    sequences of Write/Flush(any mode)/Close calls with the same normal form — the same
    concatenated data, the same (position, mode) of the explicit Flush calls, a Close or not;
    empty Writes and Write boundaries are not part of it — the fault-free sink receives the same
    bytes, the writer accumulates the same records and ends in the same error state and
    `OutputOffset`; the oracle answered exactly the calls the writer made (`bad = false`). -/
theorem C05_split_independent (Z : ZFun) (crc : List UInt8 → Nat) (level chunk index : Int) (hasConf : Bool)
    (ops ops' : List WOp) (s0 s0' : XWState)
    (h0 : newWriter level chunk index hasConf {} (oracleOf Z level chunk hasConf ops) = some s0)
    (h0' : newWriter level chunk index hasConf {} (oracleOf Z level chunk hasConf ops') = some s0')
    (hn : norm ops = norm ops') :
    let s := (runW crc s0 ops).1
    let s' := (runW crc s0' ops').1
    s.sink.got = s'.sink.got ∧ s.allRecs = s'.allRecs ∧ s.err = s'.err ∧ s.outOff = s'.outOff ∧
      s.bad = false ∧ s'.bad = false :=
  Compress.Proofs.XWSplit.split_independent Z crc level chunk index hasConf ops ops' s0 s0' h0 h0' hn

/-- **`oracleOf` is faithful.**  For a streaming `Z` (what it has emitted at one flush is a prefix
    of what it has emitted at the next) the run against `oracleOf Z …` never mismatches the oracle,
    and its log of compressor calls is that of a compressor computing `Z`: every Write accepted its
    data and emitted nothing, and after every Flush the bytes emitted since the last Reset are
    exactly `Z.emit level (data since the Reset) (flush positions since the Reset)` (`ZBehaves`) —
    in particular the total emitted for each chunk is `Z.emit` of the chunk's data and flush
    positions, whatever the Write boundaries were. -/
theorem C05_oracleOf_behaves (Z : ZFun) (hS : Z.Streaming) (crc : List UInt8 → Nat) (level chunk index : Int)
    (hasConf : Bool) (ops : List WOp) (s0 : XWState)
    (h0 : newWriter level chunk index hasConf {} (oracleOf Z level chunk hasConf ops) = some s0) :
    let s := (runW crc s0 ops).1
    s.bad = false ∧ ZBehaves Z (effLevel level hasConf) s.zlog :=
  Compress.Proofs.XWSplit.oracleOf_behaves Z hS crc level chunk index hasConf ops s0 h0

/-- non-vacuity of the compressor contract: the stored-block compressor is a streaming `ZFun`. -/
theorem C05_storedZ_streaming : storedZ.Streaming := Compress.Proofs.XWSplit.storedZ_streaming

end Compress.Props.C05
