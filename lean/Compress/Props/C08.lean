/-
C08 — decoders are total: no panic, no hang, bounded memory on any input.

Proved on the models: every loop that the Go code runs under a data-dependent
bound is shown to end within the fuel the model gives it (so "hang" is not a
behaviour of the model), allocation ghosts are bounded by the input/output
actually seen, never by a declared number.  No-panic for the real code (slice
bounds, nil maps) is outside a model that has no such operations and is decided
by the sweep under recover (families fl, bz, brd, xo, meta, life).
Property theorems only.
-/
import Compress.Proofs.Window
import Compress.Proofs.XFlateGlue
import Compress.Proofs.XFlateReader
import Compress.Proofs.FlateRefine
import Compress.Proofs.FlateBound
import Compress.Proofs.XFlateTotal

namespace Compress.Props.C08
open Compress Compress.Window Compress.XFlate Compress.Flate Compress.Proofs.FlateRefine

open Compress.Proofs.Window Compress.Window in
/-- **Window memory follows the output.** Every buffer the LZ77 window (flate and brotli dictDecoder) allocates is at most max 4096 (min windowSize (4 x bytes produced)) - never the window size a header merely declares. -/
theorem C08_window_lazy_growth (useTry : Bool) (size : Nat) (hs : 1 ≤ size) (ops : List Op)
    (hl : Legal size [] ops) :
    ∀ a ∈ (runAll useTry size 0 ops).2.allocs,
      a ≤ max initSize (min size (growFactor * (specRun [] ops).length)) :=
  Compress.Proofs.Window.allocs_bounded useTry size hs ops hl

open Compress.Proofs.XFlateGlue Compress Compress.XFlate in
/-- **Index parser memory follows the input.** The chunk entries xflate.Reader.Reset appends are bounded by the input length, whatever record count the index declares. -/
theorem C08_index_alloc_bounded (crc : List UInt8 → Nat) (stream : List UInt8) (r : OpenResult)
    (h : openIndex .fixed crc stream = .ok r) : r.alloc ≤ stream.length :=
  Compress.Proofs.XFlateGlue.open_alloc_bounded crc stream r h

open Compress.Proofs.XFlateGlue Compress Compress.XFlate in
/-- D3 (repaired): at the pinned commit the same count followed the declared number. -/
theorem C08_orig_violates_D3 (crc : List UInt8 → Nat) (N : Nat) (hN : N < 2 ^ 62) :
    ∃ st : VLIState, st.err = true ∧ (readChunks .orig N st [] 0).2.2 ≥ N ∧
      (readChunks .fixed N st [] 0).2.2 = 0 :=
  Compress.Proofs.XFlateGlue.orig_alloc_unbounded crc N hN

open Compress.Proofs.FlateRefine Compress Compress.Flate in
/-- flate: at most 258 output bytes per input bit, so work and output are bounded per input byte. -/
theorem C08_flate_output_bound (bits : Bits) : (Flate.decodeBits bits).out.size ≤ 258 * bits.length :=
  Compress.Proofs.FlateRefine.decodeBits_size bits

/-- flate.Reader returns from every run (the model's fuel, linear in the input length and the
    number of Read calls, always suffices) with a classified result. -/
theorem C08_flate_terminates (bytes : List UInt8) (sched : List Nat)
    (hs : ∀ n, sched.getLast? = some n → 0 < n) :
    ∃ e, (Impl.run (runFuel (Bits.ofBytes bytes) sched) (Impl.init (Bits.ofBytes bytes)) sched).2.1 = some e :=
  ⟨_, (impl_refines_spec bytes sched hs).2.1⟩

open Compress.Proofs.XFlateReader Compress.XFlate Compress.Proofs.XRIndex Compress.Proofs.XRSeek Compress.Proofs.XRRead in
/-- xflate.Reader.Read returns for every buffer length (D2, repaired: an empty buffer used to spin forever) within one loop iteration per segment. -/
theorem C08_xflate_read_returns (L : Layout) (plain : List UInt8) (wf : WellFormed L plain)
    (s : RState) (inv : Inv L s) (herr : s.err = none) (n : Nat) (adv : Adv) :
    ∃ s' data e, read .fixed L s n adv (readFuel L) = some (s', data, e) ∧
      ReadOK plain s.offset n data e ∧ Inv L s' ∧ s'.offset = s.offset + data.length ∧ s'.err = e :=
  Compress.Proofs.XFlateReader.read_refines L plain wf s inv herr n adv

open Compress.Proofs.XFlateTotal Compress Compress.XFlate in
/-- whatever the stream holds, the records Reader.Reset accepts are sorted with non-negative offsets. -/
theorem C08_open_records_sorted (crc : List UInt8 → Nat) (stream : List UInt8) (r : OpenResult)
    (h : openIndex .fixed crc stream = .ok r) : RecsOK r.recs :=
  Compress.Proofs.XFlateTotal.open_recsOK crc stream r h

open Compress.Proofs.XFlateTotal Compress Compress.XFlate in
/-- **xflate.Reader.Read returns on ANY accepted byte string**: for every layout with sorted records (segment contents arbitrary: corrupt, truncated, wrong sizes, final blocks), every reachable state, buffer length and inflater behaviour, the loop ends within one iteration per segment plus three. -/
theorem C08_xflate_read_total (L : Layout) (h : RecsOK L.recs) (s : RState) (inv : SInv L s) (n : Nat) (adv : Adv) :
    ∃ s' data e, read .fixed L s n adv (readFuel L) = some (s', data, e) ∧ SInv L s' ∧ data.length ≤ n :=
  Compress.Proofs.XFlateTotal.read_returns L h s inv n adv

open Compress.Proofs.XFlateTotal Compress Compress.XFlate in
/-- no sequence of Seek and Read calls on an opened reader hangs. -/
theorem C08_xflate_never_hangs (L : Layout) (h : RecsOK L.recs) (ops : List ROp) :
    ROut.hang ∉ runOps .fixed L (opened .fixed L) ops :=
  Compress.Proofs.XFlateTotal.never_hangs L h ops

end Compress.Props.C08
