/-
C13 — Writers surface every sink failure and never report false success.

Proved on the model of `xflate.Writer` (which contains the meta encoder's
block-by-block writes); `bzip2.Writer` and `meta.Writer` on their own are
decided by the oracle sweep (family `wf`).
-/
import Compress.Proofs.XFlateWriterLatch
import Compress.Proofs.BitIO

namespace Compress.Props.C13
open Compress Compress.XFlate Compress.Proofs.XFlateWriterLatch

/-- once the sink has refused bytes the writer holds an error that is not
    "closed": the failure was returned by the call in progress, every later call
    fails, and Close cannot return nil. Invariant step. -/
theorem C13_sink_failure_latched (crc : List UInt8 → Nat) (s : XWState)
    (hz : ZErrSurfaced s.oracle) (hzc : ZErrNotClosed s.oracle)
    (hinv : s.sink.failed = true → (s.err ≠ none ∧ s.err ≠ some .closed)) (op : WOp) :
    let s' := (stepW crc s op).1
    ZErrSurfaced s'.oracle ∧ ZErrNotClosed s'.oracle ∧
      (s'.sink.failed = true → (s'.err ≠ none ∧ s'.err ≠ some .closed)) :=
  sink_failure_latched crc s hz hzc hinv op

/-- **no false success**, for every history: if Close succeeded the sink never refused a byte. -/
theorem C13_no_false_success (crc : List UInt8 → Nat) (s0 : XWState) (h0 : s0.sink.failed = false)
    (hz : ZErrSurfaced s0.oracle) (hzc : ZErrNotClosed s0.oracle) (ops : List WOp) :
    (runW crc s0 ops).1.err = some .closed → (runW crc s0 ops).1.sink.failed = false :=
  no_false_success crc s0 h0 hz hzc ops

/-- a latched error makes every later call fail with the same error, changing nothing. -/
theorem C13_keeps_failing (crc : List UInt8 → Nat) (s : XWState) (e : Err) (h : s.err = some e) (hc : e ≠ .closed) (op : WOp) :
    stepW crc s op = (s, match op with | .write _ => .write 0 (some e) | .flush _ => .flush (some e) | .close => .close (some e)) :=
  err_sticky crc s e h hc op

/-- an error returned by Write or Flush is latched; Close latches what it returns. -/
theorem C13_errors_latched (crc : List UInt8 → Nat) (s : XWState) (hs : s.err = none) :
    (∀ d e, (write crc s d).2.2 = some e → (write crc s d).1.err = some e) ∧
    (∀ m e, m ≤ 2 → (flush crc s m).2 = some e → (flush crc s m).1.err = some e) :=
  op_error_latched crc s hs

/-- the sink is append-only: what it received before a failure is a prefix of everything it receives. -/
theorem C13_sink_append_only (crc : List UInt8 → Nat) (s : XWState) (op : WOp) :
    ∃ suffix, (stepW crc s op).1.sink.got = s.sink.got ++ suffix :=
  sink_append_only crc s op

/-- counters: OutputOffset = bytes the sink accepted; InputOffset grows by the count Write reports. -/
theorem C13_counters (crc : List UInt8 → Nat) (s : XWState) (h : s.outOff = s.sink.got.length) (op : WOp) :
    (stepW crc s op).1.outOff = (stepW crc s op).1.sink.got.length :=
  outOff_invariant crc s h op

theorem C13_input_counter (crc : List UInt8 → Nat) (s : XWState) (d : List UInt8) :
    (write crc s d).1.inOff = s.inOff + (write crc s d).2.1 ∧ (write crc s d).2.1 ≤ d.length ∨ (write crc s d).1.bad = true :=
  inOff_write crc s d

/-- the bit writer underneath (prefix.Writer) hands a non-failing sink exactly the packed bits. -/
theorem C13_bitwriter_exact (big : Bool) (fs : List (Nat × Nat))
    (hf : ∀ f ∈ fs, f.2 ≤ 56 ∧ f.1 < 2 ^ f.2) :
    let r := Prefix.writeScript { bigEndian := big } fs
    r.2 = none ∧ r.1.sink.got = Prefix.packBits big (Prefix.fieldBits fs) ∧ r.1.buf = [] ∧ r.1.numBits = 0 :=
  Compress.Proofs.BitIO.writer_refines big fs hf

end Compress.Props.C13
