/-
C13 — Writers surface every sink failure and never report false success.

Proved on the models of `xflate.Writer` (which contains the meta encoder's
block-by-block writes), of `bzip2.Writer` (Bzip2/WriterApi.lean) and of
`meta.Writer` (Meta/WriterApi.lean), each over the adversarial `Sink`: fails at
any byte budget, hard or short write, once or forever, any error tag.  All
bzip2/meta statements hold for every sink adversary and every sequence of
Write/Close/Reset (induction over the op list).
-/
import Compress.Proofs.XFlateWriterLatch
import Compress.Proofs.BitIO
import Compress.Proofs.BzWApiNoFalse
import Compress.Proofs.BzWApiCount
import Compress.Proofs.BzWApiPrefix
import Compress.Proofs.MetaWApi

namespace Compress.Props.C13
open Compress Compress.XFlate Compress.Proofs.XFlateWriterLatch

/-- once the sink has refused bytes the writer holds an error that is not
    "closed": the failure was returned by the call in progress, every later call
    fails, and Close cannot return nil. Invariant step. -/
theorem C13_sink_failure_latched (crc : List UInt8 → Nat) (s : XWState)
    (hz : ZErrSurfaced s.oracle) (hzc : ZErrNotClosed s.oracle)
    (hinv : s.sink.failed = true → (s.err ≠ none ∧ s.err ≠ some .closed)) (op : WOp) :
    let s' := (stepW crc s op).1
    ZErrSurfaced s'.oracle ∧ ZErrNotClosed s'.oracle ∧
      (s'.sink.failed = true → (s'.err ≠ none ∧ s'.err ≠ some .closed)) :=
  sink_failure_latched crc s hz hzc hinv op

/-- **no false success**, for every history: if Close succeeded the sink never refused a byte. -/
theorem C13_no_false_success (crc : List UInt8 → Nat) (s0 : XWState) (h0 : s0.sink.failed = false)
    (hz : ZErrSurfaced s0.oracle) (hzc : ZErrNotClosed s0.oracle) (ops : List WOp) :
    (runW crc s0 ops).1.err = some .closed → (runW crc s0 ops).1.sink.failed = false :=
  no_false_success crc s0 h0 hz hzc ops

/-- a latched error makes every later call fail with the same error, changing nothing. -/
theorem C13_keeps_failing (crc : List UInt8 → Nat) (s : XWState) (e : Err) (h : s.err = some e) (hc : e ≠ .closed) (op : WOp) :
    stepW crc s op = (s, match op with | .write _ => .write 0 (some e) | .flush _ => .flush (some e) | .close => .close (some e)) :=
  err_sticky crc s e h hc op

/-- an error returned by Write or Flush is latched; Close latches what it returns. -/
theorem C13_errors_latched (crc : List UInt8 → Nat) (s : XWState) (hs : s.err = none) :
    (∀ d e, (write crc s d).2.2 = some e → (write crc s d).1.err = some e) ∧
    (∀ m e, m ≤ 2 → (flush crc s m).2 = some e → (flush crc s m).1.err = some e) :=
  op_error_latched crc s hs

/-- the sink is append-only: what it received before a failure is a prefix of everything it receives. -/
theorem C13_sink_append_only (crc : List UInt8 → Nat) (s : XWState) (op : WOp) :
    ∃ suffix, (stepW crc s op).1.sink.got = s.sink.got ++ suffix :=
  sink_append_only crc s op

/-- counters: OutputOffset = bytes the sink accepted; InputOffset grows by the count Write reports. -/
theorem C13_counters (crc : List UInt8 → Nat) (s : XWState) (h : s.outOff = s.sink.got.length) (op : WOp) :
    (stepW crc s op).1.outOff = (stepW crc s op).1.sink.got.length :=
  outOff_invariant crc s h op

theorem C13_input_counter (crc : List UInt8 → Nat) (s : XWState) (d : List UInt8) :
    (write crc s d).1.inOff = s.inOff + (write crc s d).2.1 ∧ (write crc s d).2.1 ≤ d.length ∨ (write crc s d).1.bad = true :=
  inOff_write crc s d

/-- the bit writer underneath (prefix.Writer) hands a non-failing sink exactly the packed bits. -/
theorem C13_bitwriter_exact (big : Bool) (fs : List (Nat × Nat))
    (hf : ∀ f ∈ fs, f.2 ≤ 56 ∧ f.1 < 2 ^ f.2) :
    let r := Prefix.writeScript { bigEndian := big } fs
    r.2 = none ∧ r.1.sink.got = Prefix.packBits big (Prefix.fieldBits fs) ∧ r.1.buf = [] ∧ r.1.numBits = 0 :=
  Compress.Proofs.BitIO.writer_refines big fs hf

/-! ### bzip2.Writer (API-level model `Bzip2.BzW`) -/

section bzip2
open Compress.Bzip2 Compress.Proofs.BzWApi

/-- the latch invariant (`done` goes with the closed marker; once the sink has refused bytes an
    error is latched and the writer is not `done`) holds after NewWriter/Reset onto a sink that has not
    failed before and is kept by every call. -/
theorem C13_bzip2_sink_failure_latched (s : BzW) (h : Latched s) (ops : List BzOp) (hf : ∀ op ∈ ops, op.fresh) :
    Latched (BzW.run s ops).1 :=
  latched_run ops s h hf

theorem C13_bzip2_latched_after_reset (s : BzW) (sk : Sink) (h : sk.failed = false) : Latched (s.reset sk) :=
  latched_reset s sk h

/-- once the sink has refused bytes: every later Write and Close returns an error - Close never
    returns nil - and nothing changes any more, for every continuation without Reset. -/
theorem C13_bzip2_failed_forever (s : BzW) (h : Latched s) (hf : s.bw.sink.failed = true) (ops : List BzOp)
    (hn : ∀ op ∈ ops, op.noReset) : (BzW.run s ops).1 = s ∧ ∀ r ∈ (BzW.run s ops).2, r.isErr :=
  failed_forever s h hf ops hn

/-- a latched error is returned by every later Write and Close, unchanged, and nothing else changes. -/
theorem C13_bzip2_keeps_failing (s : BzW) (e : Err) (he : s.err = some e) (hd : s.done = false) (d : List UInt8) :
    s.step (.write d) = (s, .write 0 (some e)) ∧ s.step .close = (s, .close (some e)) :=
  keeps_failing s e he hd d

/-- the error a call returns is latched. -/
theorem C13_bzip2_errors_latched (s : BzW) (h : Latched s) :
    (∀ d e, (s.write d).2.2 = some e → (s.write d).1.err = some e) ∧
    (∀ e, (s.close).2 = some e → (s.close).1.err = some e ∧ (s.close).1.done = false) ∧
    ((s.close).2 = none → (s.close).1.done = true ∧ (s.close).1.err = some .closed) :=
  ⟨fun d e => write_err_latched s d e, (close_latches s h).2, (close_latches s h).1⟩

/-- **no false success.** A writer made by NewWriter, any sequence of Write/Close/Reset, any sinks:
    whenever it is `done` (i.e. Close has returned nil since the last Reset) the sink holds, after what
    it held when it was attached, exactly `encodeStream level (all data accepted by Write)`. -/
theorem C13_bzip2_no_false_success (lvl : Int) (sk : Sink) (s0 : BzW) (h0 : newBzW lvl sk = some s0) (ops : List BzOp) :
    let s := (BzW.run s0 ops).1
    s.done = true → ∃ out, encodeStream s.level s.acc = some out ∧ s.bw.sink.got = s.base ++ out :=
  no_false_success lvl sk s0 h0 ops

/-- ... hence (C04_lossless) the format specification decodes what the sink received to exactly the accepted data. -/
theorem C13_bzip2_done_decodes (lvl : Int) (sk : Sink) (s0 : BzW) (h0 : newBzW lvl sk = some s0) (ops : List BzOp) :
    let s := (BzW.run s0 ops).1
    s.done = true → ∃ out, s.bw.sink.got = s.base ++ out ∧
      Bzip2.decode out = { out := s.acc.toArray, verdict := .ok } :=
  done_decodes lvl sk s0 h0 ops

/-- the same on the Close call itself: nil means the sink now holds the complete stream. -/
theorem C13_bzip2_close_nil_complete (lvl : Int) (sk : Sink) (s0 : BzW) (h0 : newBzW lvl sk = some s0) (ops : List BzOp) :
    let s := (BzW.run s0 ops).1
    (s.close).2 = none → ∃ out, encodeStream s.level s.acc = some out ∧ (s.close).1.bw.sink.got = s.base ++ out :=
  fun hc => close_nil_complete _ (exact_run ops s0 (exact_new lvl sk s0 h0).1) hc

/-- **counters**: after every call (also failing ones, also across Reset) InputOffset = bytes accepted
    by Write since the last Reset, OutputOffset = bytes the current sink accepted since it was attached. -/
theorem C13_bzip2_counters (lvl : Int) (sk : Sink) (s0 : BzW) (h0 : newBzW lvl sk = some s0) (ops : List BzOp) :
    Counted (BzW.run s0 ops).1 := by
  refine counted_run ops s0 ?_
  unfold newBzW at h0
  split at h0
  · simp only [Option.some.injEq] at h0
    subst h0
    exact counted_reset _ sk
  · cases h0

/-- the ghost record of accepted data grows by exactly the bytes Write reports. -/
theorem C13_bzip2_accepted (s : BzW) (d : List UInt8) :
    (s.write d).1.acc = s.acc ++ d.take (s.write d).2.1 ∧ (s.write d).2.1 ≤ d.length :=
  write_acc s d

/-- the sink is append-only. -/
theorem C13_bzip2_sink_append_only (s : BzW) (op : BzOp) (h : op.noReset) :
    ∃ suf, (s.step op).1.bw.sink.got = s.bw.sink.got ++ suf :=
  sink_append_only s op h

/-- **prefix, part 1**: as long as the sink has not refused anything, the run is the fault-free run:
    same results, same bytes in the sink (`unb` = the same writer over the sink that never fails). -/
theorem C13_bzip2_same_until_failure (s : BzW) (hf : s.bw.sink.failed = false) (ops : List BzOp)
    (hn : ∀ op ∈ ops, op.noReset) :
    (BzW.run s ops).1.bw.sink.failed = false →
      unb (BzW.run s ops).1 = (BzW.run (unb s) ops).1 ∧ (BzW.run s ops).2 = (BzW.run (unb s) ops).2 :=
  sink_same_until_failure s hf ops hn

/-- **prefix, part 2**: the bytes received by a sink that fails (at any position, hard or short, any
    tag) and keeps failing are a prefix of the bytes the never-failing sink receives for the same calls.
    (`forever` is needed: after a recovered write failure bzip2.Writer still calls `wr.Flush()` once in
    the same call, so a sink that fails only once can be handed further bytes.) -/
theorem C13_bzip2_sink_prefix (s : BzW) (hf : s.bw.sink.failed = false) (hfor : s.bw.sink.forever = true)
    (ops : List BzOp) (hn : ∀ op ∈ ops, op.noReset) :
    (BzW.run s ops).1.bw.sink.got <+: (BzW.run (unb s) ops).1.bw.sink.got :=
  sink_prefix s hf hfor ops hn

/-- the hypotheses are satisfiable: NewWriter(level 9) over a sink that fails after 5 bytes. -/
example : ∃ s0, newBzW 9 { budget := some 5, mode := .short, forever := false } = some s0 ∧ Latched s0 :=
  ⟨_, rfl, latched_reset _ _ rfl⟩

/-- non-vacuity of `C13_bzip2_failed_forever`: NewWriter(level 1) over a sink that takes 5 bytes and then
    keeps failing with short writes; Close on the empty input fails while the 14 header+footer bytes are
    flushed. The state reached is latched, the sink has failed, it holds a prefix ("BZh1" and one byte of
    the end magic), OutputOffset counts exactly those bytes, and a second Close fails again. -/
def exFailedBz : BzW :=
  (BzW.run (BzW.reset { level := 1, rle := { cap := 0 } } { budget := some 5, mode := .short, forever := true }) [.close]).1

set_option maxRecDepth 100000 in
example : exFailedBz.bw.sink.failed = true ∧ exFailedBz.err = some (.other 7) ∧ exFailedBz.done = false ∧
    exFailedBz.bw.sink.got = [0x42, 0x5a, 0x68, 0x31, 0x17] ∧ exFailedBz.outOff = 5 ∧
    (exFailedBz.close).2 = some (.other 7) := by decide

example : Latched exFailedBz :=
  latched_run [.close] _ (latched_reset _ _ rfl) (by intro op h; simp at h; subst h; trivial)

-- non-vacuity of `C13_bzip2_no_false_success`: the same calls over a sink that never fails end `done`
-- with the 14-byte empty stream in the sink.
set_option maxRecDepth 100000 in
example : ((BzW.run (BzW.reset { level := 1, rle := { cap := 0 } } {}) [.close]).1.done = true) ∧
    (BzW.run (BzW.reset { level := 1, rle := { cap := 0 } } {}) [.close]).1.bw.sink.got =
      [0x42, 0x5a, 0x68, 0x31, 0x17, 0x72, 0x45, 0x38, 0x50, 0x90, 0, 0, 0, 0] := by decide

end bzip2

/-! ### meta.Writer (API-level model `Meta.MW`) -/

section metaw
open Compress.Meta Compress.Proofs.MetaWApi

theorem C13_meta_sink_failure_latched (s : MW) (h : Latched s) (ops : List MOp) (hf : ∀ op ∈ ops, op.fresh) :
    Latched (MW.run s ops).1 :=
  latched_run ops s h hf

theorem C13_meta_latched_after_reset (sk : Sink) (f : FinalMode) (h : sk.failed = false) :
    Latched ((({} : MW).reset sk).setFinal f) :=
  latched_fresh sk f h

/-- once the sink has refused bytes every later Write and Close returns an error (Close never nil), until Reset. -/
theorem C13_meta_failed_forever (s : MW) (h : Latched s) (hf : s.sink.failed = true) (ops : List MOp)
    (hn : ∀ op ∈ ops, op.noReset) : (MW.run s ops).1 = s ∧ ∀ r ∈ (MW.run s ops).2, r.isErr :=
  failed_forever s h hf ops hn

theorem C13_meta_errors_latched (s : MW) (hs : s.err = none) (d : List UInt8) (e : Err) :
    (s.write d).2.2 = some e → (s.write d).1.err = some e :=
  write_err_latched s hs d e

/-- **no false success**: whenever the writer is `done` the sink holds exactly the blocks of
    `Meta.encode (all data accepted by Write) FinalMode`. -/
theorem C13_meta_no_false_success (sk : Sink) (f : FinalMode) (ops : List MOp) :
    let s := (MW.run ((({} : MW).reset sk).setFinal f) ops).1
    s.done = true → ∃ blocks, Meta.encode s.acc s.final = some blocks ∧ s.sink.got = s.base ++ blocks.flatten :=
  no_false_success sk f ops

theorem C13_meta_close_nil_complete (sk : Sink) (f : FinalMode) (ops : List MOp) :
    let s := (MW.run ((({} : MW).reset sk).setFinal f) ops).1
    (s.close).2 = none → ∃ blocks, Meta.encode s.acc s.final = some blocks ∧ (s.close).1.sink.got = s.base ++ blocks.flatten :=
  close_nil_complete sk f ops

/-- bytes received by a failing sink (any budget, hard/short, once/forever) are a prefix of the bytes a
    never-failing sink receives for the same calls; identical as long as the sink has not failed. -/
theorem C13_meta_sink_prefix (s s' : MW) (hf : s.sink.failed = false) (hb : s'.sink.budget = none)
    (hs : s' = { s with sink := { s.sink with budget := s'.sink.budget, mode := s'.sink.mode,
                                              forever := s'.sink.forever, tag := s'.sink.tag } })
    (ops : List MOp) (hn : ∀ op ∈ ops, op.noReset) :
    (MW.run s ops).1.sink.got <+: (MW.run s' ops).1.sink.got ∧
    ((MW.run s ops).1.sink.failed = false → (MW.run s ops).1.sink.got = (MW.run s' ops).1.sink.got) :=
  sink_prefix' s s' hf hb hs ops hn

/-- counters: after every call InputOffset = bytes accepted, OutputOffset = bytes the sink accepted. -/
theorem C13_meta_counters (sk : Sink) (f : FinalMode) (ops : List MOp) :
    Counted (MW.run ((({} : MW).reset sk).setFinal f) ops).1 :=
  counted_run ops _ (counted_fresh sk f)

theorem C13_meta_accepted (s : MW) (d : List UInt8) (hs : s.err = none) :
    (s.write d).1.acc = s.acc ++ d.take (s.write d).2.1 ∧ (s.write d).2.1 ≤ d.length :=
  (write_acc s d).1 hs

end metaw

end Compress.Props.C13
