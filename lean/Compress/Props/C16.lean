/-
C16 — Meta encoding: lossless, silent in DEFLATE, self-locating, size-bounded.

Property theorems only. Model: `Compress.Meta.Codec`; lemmas:
`Compress.Proofs.Meta`.
-/
import Compress.Meta.Codec
import Compress.Proofs.Meta
import Compress.Proofs.MetaLocate
import Compress.Proofs.MetaSilent
import Compress.Proofs.MetaConvStream
import Compress.Proofs.MetaConvExample
import Compress.Proofs.MetaRApiExact

namespace Compress.Props.C16
open Compress Compress.Meta

/-- M1 (block): decoding the bits of an encoded block, followed by anything,
    gives back payload, mode and the exact block length. -/
theorem C16_block_roundtrip (buf : List UInt8) (final : FinalMode) (bits rest : Bits)
    (h : encodeBlock buf final = some bits) :
    decodeBlock (bits ++ rest) = .ok { payload := buf, final := final, consumed := bits.length } :=
  Compress.Proofs.Meta.decodeBlock_encodeBlock buf final bits rest h

/-- M1 (stream): every payload, any length, any final mode:
    encode then decode is the identity and consumes every byte. -/
theorem C16_stream_roundtrip (payload : List UInt8) (final : FinalMode) :
    ∃ blocks, encode payload final = some blocks ∧
      decode blocks.flatten = .ok { payload := payload, final := final, blocks := blocks.length,
                                    consumed := blocks.flatten.length } :=
  Compress.Proofs.Meta.decode_encode payload final

/-- the encoder never refuses what `Write` buffered. -/
theorem C16_write_total (payload : List UInt8) : ∃ s, writeBytes {} payload = some s :=
  Compress.Proofs.Meta.writeBytes_total payload

/-- M3 (fit22): payloads of up to 22 bytes always fit one block. -/
theorem C16_fit22 (payload : List UInt8) (final : FinalMode) (h : payload.length ≤ 22) :
    ∃ b, encode payload final = some [b] :=
  Compress.Proofs.Meta.encode_fit22 payload final h

/-- encoded blocks are byte aligned. -/
theorem C16_block_aligned (buf : List UInt8) (final : FinalMode) (bits : Bits)
    (h : encodeBlock buf final = some bits) : bits.length % 8 = 0 :=
  Compress.Proofs.Meta.encodeBlock_aligned buf final bits h

/-- M3: every encoded block is 12 to 64 bytes long. -/
theorem C16_block_size (buf : List UInt8) (final : FinalMode) (bits : Bits)
    (h : encodeBlock buf final = some bits) : 12 * 8 ≤ bits.length ∧ bits.length ≤ 64 * 8 :=
  Compress.Proofs.MetaLocate.encodeBlock_size buf final bits h

/-- `ReverseSearch` returns the last index whose 4-byte window (zero-extended at
    the tail) carries the block signature, or -1. -/
theorem C16_reverseSearch_spec (data : List UInt8) :
    (reverseSearch data = -1 ∧ ∀ i, i < data.length → Compress.Proofs.MetaLocate.magicAt data i = false) ∨
    (∃ k : Nat, reverseSearch data = (k : Int) ∧ k < data.length ∧ Compress.Proofs.MetaLocate.magicAt data k = true ∧
       ∀ i, k < i → i < data.length → Compress.Proofs.MetaLocate.magicAt data i = false) :=
  Compress.Proofs.MetaLocate.reverseSearch_spec data

/-- M4: inside an encoded block the signature matches at the block start only. -/
theorem C16_magic_only_at_start (buf : List UInt8) (final : FinalMode) (bits : Bits)
    (h : encodeBlock buf final = some bits) :
    Compress.Proofs.MetaLocate.magicAt (Bits.toBytes bits) 0 = true ∧
    ∀ i, 0 < i → i < (Bits.toBytes bits).length → Compress.Proofs.MetaLocate.magicAt (Bits.toBytes bits) i = false :=
  Compress.Proofs.MetaLocate.magic_only_at_start buf final bits h

/-- M4 (use): a backward search over anything followed by one block finds that
    block — this is how `decodeFooter` locates the footer. -/
theorem C16_reverseSearch_finds_last_block (pre buf : List UInt8) (final : FinalMode) (bits : Bits)
    (h : encodeBlock buf final = some bits) :
    reverseSearch (pre ++ Bits.toBytes bits) = (pre.length : Int) :=
  Compress.Proofs.MetaLocate.reverseSearch_finds_last_block pre buf final bits h

/-- M2: to an RFC 1951 decoder (`Compress.Flate.Spec`) a meta block, wherever it
    stands in a stream, is one complete dynamic block with an empty body: no
    output, exactly the block consumed, and the stream ends there iff the block
    was written with `FinalStream`. -/
theorem C16_silent_in_deflate (buf : List UInt8) (final : FinalMode) (bits : Bits)
    (h : encodeBlock buf final = some bits)
    (total fuel : Nat) (out : Array UInt8) (rest : Bits) :
    Compress.Flate.decodeBlocks total (fuel + 1) out (bits ++ rest) =
      if final = .fstream then
        { out := out, verdict := .ok (total - rest.length + Compress.Flate.padTo8 (total - rest.length)) }
      else Compress.Flate.decodeBlocks total fuel out rest :=
  Compress.Proofs.MetaSilent.meta_block_silent buf final bits h total fuel out rest

/-- M2, converse (block): whatever the meta DECODER accepts — not only what the
    encoder writes: any code length that fits the symbol bits, any splitting of
    the runs — is a whole number of bytes that the RFC 1951 specification reads,
    wherever they stand in a stream and whatever follows them, as one complete
    dynamic block with an empty body: no output, exactly the accepted bits
    consumed, and the stream ends there iff the decoded mode is `FinalStream`. -/
theorem C16_accepted_is_silent_deflate (bs : Bits) (blk : Block) (h : decodeBlock bs = .ok blk)
    (total fuel : Nat) (out : Array UInt8) (rest : Bits) :
    blk.consumed ≤ bs.length ∧ blk.consumed % 8 = 0 ∧
    Compress.Flate.decodeBlocks total (fuel + 1) out (bs.take blk.consumed ++ rest) =
      if blk.final = .fstream then
        { out := out, verdict := .ok (total - rest.length + Compress.Flate.padTo8 (total - rest.length)) }
      else Compress.Flate.decodeBlocks total fuel out rest :=
  Compress.Proofs.MetaConv.accepted_block_silent bs blk h total fuel out rest

/-- M2, converse (stream): if the meta reader accepts `bytes`, reading
    `d.consumed` of them as `d.blocks` blocks, then the RFC 1951 specification
    reads those bytes, followed by anything, as `d.blocks` complete blocks
    without any output, and reports the end of the stream there iff the reader's
    final mode is `FinalStream`. -/
theorem C16_accepted_stream_is_silent_deflate (bytes : List UInt8) (d : Decoded)
    (h : Compress.Meta.decode bytes = .ok d)
    (total fuel : Nat) (out : Array UInt8) (rest : Bits) :
    d.consumed ≤ bytes.length ∧ (d.final = .fstream → 1 ≤ d.blocks) ∧
    Compress.Flate.decodeBlocks total (fuel + d.blocks) out (Bits.ofBytes (bytes.take d.consumed) ++ rest) =
      if d.final = .fstream then
        { out := out, verdict := .ok (total - rest.length + Compress.Flate.padTo8 (total - rest.length)) }
      else Compress.Flate.decodeBlocks total fuel out rest :=
  Compress.Proofs.MetaConv.accepted_stream_silent bytes d h total fuel out rest

-- non-vacuity of the converse: the decoder accepts a block the encoder never writes
-- (code length 4 / HCLEN 8 where the encoder takes 3 / HCLEN 10; zero run split 138 + 102)
example : decodeBlock (Bits.ofBytes [4, 0, 135, 5, 0, 0, 200, 255, 223, 182, 247, 240]) =
      .ok { payload := [], final := .fnil, consumed := 96 } ∧
    ∀ buf final, encodeBlock buf final ≠ some (Bits.ofBytes [4, 0, 135, 5, 0, 0, 200, 255, 223, 182, 247, 240]) :=
  ⟨Compress.Proofs.MetaConv.nonCanonical_accepted, Compress.Proofs.MetaConv.nonCanonical_not_encoded⟩

-- non-vacuity: a footer payload really is encodable, as a single block, and decodes back
example : (encode [0x58, 0x46, 0x00, 0x0a] .fstream).isSome = true := by decide

/-! ### meta.Reader as an object (API-level model `Meta/ReaderApi.lean`) -/

section metaReader
open Compress.Proofs.MetaRApi

/-- **Schedule independence: the Reader delivers `decode`'s payload.** For every source (any
    bytes, any fault; `src.avail` = the bytes it hands out) and every Read schedule (any buffer
    lengths, zero included): a run that has reached io.EOF has delivered, call by call,
    exactly the payload of `Codec.decode` on the input, and FinalMode is `decode`'s; a run
    that ended with io.ErrUnexpectedEOF / a Corrupted error did so because `decode` fails in
    that way; and a run that ended with the source's own error did so on an input that is cut
    inside a block or has no final block yet.  So all the C16 theorems about `decode` (round
    trip, silence in DEFLATE) hold for what the Reader object returns. -/
theorem C16_meta_reader_delivers_decode (src : Src) (ns : List Nat) :
    let r := MR.run (newMR src) (ns.map .read)
    (r.1.err = some .eof → ∃ d, decode src.avail = .ok d ∧ dataOf r.2 = d.payload ∧ r.1.finalMode = d.final) ∧
    (r.1.err = some .ueof → decode src.avail = .error .unexpectedEOF) ∧
    (r.1.err = some .corrupt → ∃ w, decode src.avail = .error (.corrupted w)) ∧
    (∀ t, r.1.err = some (.fault t) → decode src.avail = .error .unexpectedEOF ∨
      ∃ d, decode src.avail = .ok d ∧ d.final = .fnil) :=
  Compress.Proofs.MetaRApi.delivers_decode src ns

/-- **Totality.** Over a source that does not fail and whose input the codec accepts
    (`decode data = .ok d`), EVERY schedule of more than `d.payload.length` Reads with non-empty
    buffers (of any lengths) ends with io.EOF, having delivered exactly `d.payload`, with
    FinalMode, InputOffset and NumBlocks those of `decode` and the rest of the input untouched
    (a Read with a non-empty buffer never returns (0, nil)). -/
theorem C16_meta_reader_total (data : List UInt8) (d : Decoded) (hd : decode data = .ok d) (ns : List Nat)
    (hpos : ∀ n ∈ ns, 0 < n) (hlen : d.payload.length < ns.length) :
    let r := MR.run (newMR { data := data }) (ns.map .read)
    r.1.err = some .eof ∧ dataOf r.2 = d.payload ∧ r.1.finalMode = d.final ∧ r.1.inOff = d.consumed ∧
    r.1.nblk = d.blocks ∧ r.1.rest = (Bits.ofBytes data).drop (8 * d.consumed) :=
  Compress.Proofs.MetaRApi.reads_total data d hd ns hpos hlen

/-- **Writer to Reader.** What the encoder writes for any payload and final mode, read back
    through the Reader object with any Read schedule: never an error other than io.EOF, and
    at io.EOF the Reads have delivered the payload, FinalMode is the writer's, InputOffset is
    the length of the stream, NumBlocks the number of blocks written, nothing is left. -/
theorem C16_meta_reader_roundtrip (payload : List UInt8) (final : FinalMode) (ns : List Nat) :
    ∃ blocks, encode payload final = some blocks ∧
      let r := MR.run (newMR { data := blocks.flatten }) (ns.map .read)
      (r.1.err ≠ some .ueof ∧ r.1.err ≠ some .corrupt) ∧
      (r.1.err = some .eof → dataOf r.2 = payload ∧ r.1.finalMode = final ∧ r.1.inOff = blocks.flatten.length ∧
        r.1.nblk = blocks.length ∧ r.1.rest = [] ∧ r.1.outOff = payload.length) :=
  Compress.Proofs.MetaRApi.reads_encoded payload final ns

end metaReader

end Compress.Props.C16
