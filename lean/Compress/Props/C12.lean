/-
C12 — flushed data survives truncation; truncated output is never misread.

Proved: durability of every successful Flush and the DEFLATE/bzip2 side of "never
misread".  The last clause (xflate.NewReader on a cut stream fails or serves
exactly the original) is false of the code in one shape (D6, known finding) and is
decided by the sweep otherwise.  Property theorems only.
-/
import Compress.Proofs.XFlateDurable
import Compress.Proofs.Bzip2Cut

namespace Compress.Props.C12
open Compress Compress.XFlate Compress.Bzip2 Compress.Proofs.XFlateDurable

open Compress.Proofs.XFlateDurable Compress Compress.XFlate Compress.Proofs.XWLog Compress.Proofs.XWShape Compress.Proofs.XDAux Compress.Proofs.XDWitness in
/-- **Durability.** Once Flush (any mode) has returned nil, the RFC 1951 specification decodes the bytes handed to the sink so far to exactly everything accepted before the flush and then runs out of input.  Compressor contract: every flush-delimited prefix of a chunk is a self-contained run of complete non-final blocks (non-vacuous: Witness in XFlateDurable, with a real back-reference across a sync flush). -/
theorem C12_flush_durable (crc : List UInt8 → Nat) (level chunk index : Int) (hasConf : Bool)
    (oracle : List ZEv) (ops : List WOp) (m : Nat) (s0 : XWState)
    (h0 : newWriter level chunk index hasConf {} oracle = some s0)
    (hz : ∀ ev ∈ oracle, ev.err ≠ some .closed) :
    let s := (runW crc s0 (ops ++ [.flush m])).1
    (runW crc s0 (ops ++ [.flush m])).2.getLast? = some (.flush none) → s.bad = false →
    (∀ c ∈ flushPrefixesOf s.zlog [] [], ZChunkOK c.1 c.2) →
    (Flate.decode s.sink.got).out = (dataOf s.zlog).toArray ∧
    (Flate.decode s.sink.got).verdict = .unexpectedEOF :=
  Compress.Proofs.XFlateDurable.flush_durable' crc level chunk index hasConf oracle ops m s0 h0 hz

open Compress.Proofs.XFlateDurable Compress Compress.XFlate Compress.Proofs.XWLog Compress.Proofs.XWShape Compress.Proofs.XDAux Compress.Proofs.XDWitness in
/-- **Cut XFLATE output, read by a DEFLATE decoder:** only a prefix of the written data, then unexpected EOF. -/
theorem C12_xflate_cut_deflate (crc : List UInt8 → Nat) (level chunk index : Int) (hasConf : Bool)
    (oracle : List ZEv) (ops : List WOp) (s0 : XWState)
    (h0 : newWriter level chunk index hasConf {} oracle = some s0)
    (hz : ∀ ev ∈ oracle, ev.err ≠ some .closed) (k : Nat) :
    let s := (runW crc s0 ops).1
    s.err = some .closed → s.bad = false →
    (∀ c ∈ chunksOf s.zlog [] [], ZChunkOK c.1 c.2) → k < s.sink.got.length →
    (Flate.decode (s.sink.got.take k)).verdict = .unexpectedEOF ∧
    (Flate.decode (s.sink.got.take k)).out.toList <+: dataOf s.zlog :=
  Compress.Proofs.XFlateDurable.cut_never_misread crc level chunk index hasConf oracle ops s0 h0 hz k

open Compress.Proofs.Bzip2Cut Compress Compress.Bzip2 Compress.Proofs.BzCut Compress.Proofs.BzRT in
/-- **Cut bzip2.Writer output:** only a prefix of the written data, then unexpected EOF. -/
theorem C12_bzip2_cut (level : Nat) (hl : 1 ≤ level ∧ level ≤ 9) (data bytes : List UInt8)
    (h : encodeStream level data = some bytes) (k : Nat) (hk : k < bytes.length) :
    (decode (bytes.take k)).verdict = .unexpectedEOF ∧
    (decode (bytes.take k)).out.toList <+: data :=
  Compress.Proofs.Bzip2Cut.writer_cut level hl data bytes h k hk

end Compress.Props.C12
