/-
C09 — failure contract: classified, sticky, surfaced by Close, I/O errors verbatim.

* classification: regenerated facts about every error site of /repo
  (`Compress.Facts.Sites`) + the verdict theorems of the specifications;
* "a valid stream cut short at any byte fails with exactly io.ErrUnexpectedEOF":
  proved for DEFLATE and bzip2 on the specifications, tied to the Go readers by
  C01 (refinement) and the bz correspondence; Brotli: sweep only;
* sticky + Close: direct lemmas on the Reader models (xflate, flate, bzip2 - the
  bzip2.Reader model has sticky and the cut theorem, Close is swept);
  the other Readers: sweep (family life).
Property theorems only.
-/
import Compress.Facts.Sites
import Compress.Proofs.Sticky
import Compress.Proofs.FlatePrefix
import Compress.Proofs.FlateRefine
import Compress.Proofs.Bzip2Cut
import Compress.Proofs.BrotliCut
import Compress.Proofs.XFlateReader
import Compress.Proofs.BzImplCut
import Compress.Proofs.FlateApi
import Compress.Proofs.BrotliApi
import Compress.Proofs.BzReaderApi
import Compress.Proofs.FlateApiRefine
import Compress.Proofs.MetaRApi

namespace Compress.Props.C09
open Compress Compress.XFlate

/-- every error site on a decoding path of /repo raises Corrupted or Deprecated (or is a
    listed, justified exception); regenerated from the source on every run. -/
theorem C09_error_sites_classified : Compress.Generated.errSites.all Compress.Facts.decodingOK = true :=
  Compress.Facts.errSites_classified

open Compress.Proofs.FlatePrefix Compress Compress.Flate in
/-- **A valid DEFLATE stream cut short at any byte** fails with exactly io.ErrUnexpectedEOF, having delivered only a prefix. -/
theorem C09_deflate_cut_is_ueof (bytes : List UInt8) (out : Array UInt8)
    (h : decode bytes = { out := out, verdict := .ok (8 * bytes.length) }) (k : Nat) (hk : k < bytes.length) :
    (decode (bytes.take k)).verdict = .unexpectedEOF ∧
    (decode (bytes.take k)).out.toList <+: out.toList :=
  Compress.Proofs.FlatePrefix.decode_cut bytes out h k hk

open Compress.Proofs.Bzip2Cut Compress Compress.Bzip2 Compress.Proofs.BzCut Compress.Proofs.BzRT in
/-- **A valid bzip2 input cut short at any byte** is never reported corrupt: io.ErrUnexpectedEOF, or success exactly at the end of one of its streams. -/
theorem C09_bzip2_cut_is_ueof (bytes : List UInt8) (out : Array UInt8)
    (h : decode bytes = { out := out, verdict := .ok }) (k : Nat) (hk : k < bytes.length) :
    (decode (bytes.take k)).out.toList <+: out.toList ∧
    ((decode (bytes.take k)).verdict = .unexpectedEOF ∨
      ((decode (bytes.take k)).verdict = .ok ∧ 0 < k ∧
        ∃ out2, decode (bytes.drop k) = { out := out2, verdict := .ok })) :=
  Compress.Proofs.Bzip2Cut.decode_cut bytes out h k hk

/-- flate.Reader ends with `io.EOF`, a Corrupted error or `io.ErrUnexpectedEOF` - nothing else -
    and with the one that matches the specification's verdict. -/
theorem C09_flate_classes (bytes : List UInt8) (sched : List Nat)
    (hs : ∀ n, sched.getLast? = some n → 0 < n) :
    (Flate.Impl.run (Compress.Proofs.FlateRefine.runFuel (Bits.ofBytes bytes) sched)
        (Flate.Impl.init (Bits.ofBytes bytes)) sched).2.1 =
      some (Compress.Proofs.FlateRefine.errOf (Flate.decodeBits (Bits.ofBytes bytes)).verdict) :=
  (Compress.Proofs.FlateRefine.impl_refines_spec bytes sched hs).2.1

open Compress.Proofs.Sticky Compress Compress.XFlate Compress.Flate.Impl in
/-- **Sticky.** xflate.Reader: with an error latched every later Read returns no data and the same error. -/
theorem C09_xflate_sticky (L : Layout) (s : RState) (e : Err) (h : s.err = some e) (n : Nat) (adv : Adv) (fuel : Nat) :
    read .fixed L s n adv fuel = some (s, [], some e) :=
  Compress.Proofs.Sticky.xr_read_sticky L s e h n adv fuel

open Compress.Proofs.Sticky Compress Compress.XFlate Compress.Flate.Impl in
/-- **Close** returns nil only if that error was io.EOF (or the reader was closed already). -/
theorem C09_xflate_close (s : RState) (e : Err) (h : s.err = some e) :
    (close s).2 = none ↔ (e = .eof ∨ e = .closed) :=
  Compress.Proofs.Sticky.xr_close_reports s e h

open Compress.Proofs.Sticky Compress Compress.XFlate Compress.Flate.Impl in
/-- a Seek does not clear a latched failure. -/
theorem C09_xflate_seek_keeps (L : Layout) (s : RState) (e : Err) (h : s.err = some e) (he : e ≠ .eof)
    (off : Int) (wh : Nat) : seek .fixed L s off wh = (s, 0, some e) :=
  Compress.Proofs.Sticky.xr_seek_keeps_error L s e h he off wh

open Compress.Proofs.Sticky Compress Compress.XFlate Compress.Flate.Impl in
/-- flate.Reader: with the error latched and pending output drained, every Read returns no data and the same error. -/
theorem C09_flate_sticky (s : FState) (e : FErr) (h : s.err = some e) (hd : s.toRead = []) (fuel n : Nat) :
    Compress.Flate.Impl.read (fuel + 1) s n = (s, [], some e) :=
  Compress.Proofs.Sticky.flate_read_sticky s e h hd fuel n

open Compress.Proofs.BrotliCut Compress Compress.Brotli Compress.Proofs.BrCut in
/-- **A valid Brotli stream cut short at any byte** fails with exactly io.ErrUnexpectedEOF on the specification (brotli.Reader is tied to the specification by the brd correspondence, which compares the reject class on cuts of valid streams). -/
theorem C09_brotli_cut_is_ueof (dict : ByteArray) (bytes : List UInt8) (out : Array UInt8) (n : Nat)
    (h : decode dict bytes = { out := out, verdict := .ok n }) (k : Nat) (hk : 8 * k < n) :
    (decode dict (bytes.take k)).verdict = .unexpectedEOF ∧
    (decode dict (bytes.take k)).out.toList <+: out.toList :=
  Compress.Proofs.BrotliCut.decode_cut dict bytes out n h k hk

open Compress.Proofs.BzImpl in
/-- **bzip2.Reader, sticky.** Once a Read of the reader model has returned an error, every later
    Read, whatever its buffer length, returns no data and the same error, and leaves the reader
    unchanged. -/
theorem C09_bzip2_sticky (bytes : List UInt8) (sched : List Nat) (e : Bzip2.Impl.Err)
    (h : (Bzip2.Impl.run bytes sched).err = some e) (m : Nat) :
    Bzip2.Impl.read (Bzip2.Impl.readFuel (Bzip2.Impl.run bytes sched).final) m (Bzip2.Impl.run bytes sched).final =
      ((Bzip2.Impl.run bytes sched).final, [], some e) :=
  (refines_of_tables tables_agree bytes sched).sticky e h m

open Compress.Proofs.BzImpl in
/-- **bzip2.Reader, a valid stream cut short at any byte**: under every Read schedule the reader
    model delivers a prefix of the full output and fails with exactly io.ErrUnexpectedEOF (or ends
    with io.EOF where the cut is the end of one of the concatenated streams). -/
theorem C09_bzip2_reader_cut_is_ueof (bytes : List UInt8) (out : Array UInt8)
    (h : Bzip2.decode bytes = { out := out, verdict := .ok }) (k : Nat) (hk : k < bytes.length)
    (sched : List Nat) :
    (Bzip2.Impl.run (bytes.take k) sched).delivered <+: out.toList ∧
    ∀ e, (Bzip2.Impl.run (bytes.take k) sched).err = some e →
      e = .unexpectedEOF ∨
      (e = .eof ∧ 0 < k ∧ ∃ out2, Bzip2.decode (bytes.drop k) = { out := out2, verdict := .ok }) :=
  cut_class bytes out h k hk sched
/-! ### flate.Reader and bzip2.Reader at the API: Read, Close, Reset, a failing source

`Flate.Api` / `Bzip2.ReaderApi` wrap the decoder models into the exported methods (the `err` latch,
the `done` flag, the closed marker, `Reset`, a source that fails at a byte position with an error
of its own).  The flate theorems hold of EVERY state of the model; the bzip2 theorems of every state
a call sequence can reach: `(Reader.run (newReader src) ops).1` for every source (data, fault
position, error) and every list of Read / Close / Reset calls.  Tied to /repo call by call by family
lrm and the lr scenarios of family life. -/

section api
open Compress.Flate.Api in
/-- **flate.Reader, sticky.** Once a Read has returned an error `e` - whatever the state it was
    called in - every later Read returns no data and `e` and changes nothing, for any number of
    Reads (until Close or Reset). -/
theorem C09_flate_api_sticky (r : Reader) (n : Nat) (e : AErr) (h : (r.read n).2.2 = some e) (ns : List Nat) :
    (∀ m, (r.read n).1.read m = ((r.read n).1, [], some e)) ∧
    Reader.run (r.read n).1 (ns.map .read) = ((r.read n).1, ns.map (fun _ => .read [] (some e))) := by
  have hl := Compress.Proofs.FlateApi.read_latches r n e h
  have hs : ∀ m, (r.read n).1.read m = ((r.read n).1, [], some e) := by
    intro m
    by_cases hd : r.done = true
    · have := Compress.Proofs.FlateApi.read_done r hd n
      rw [this] at h ⊢
      cases h
      exact Compress.Proofs.FlateApi.read_done r hd m
    · have hd : r.done = false := by simpa using hd
      exact Compress.Proofs.FlateApi.read_sticky _ e hl.1 (hl.2.1.trans hd) (hl.2.2.2 hd) m
  refine ⟨hs, ?_⟩
  induction ns with
  | nil => rfl
  | cons a ns ih => simp only [List.map_cons, Reader.run, Reader.step, hs a, ih]

open Compress.Flate.Api in
/-- **flate.Reader, Close.** What `Close` returns, exactly: nil iff nothing is latched, or `io.EOF`
    is latched, or the reader is closed already; otherwise the latched error itself.  After a Read
    that returned `e` (on a reader that was not closed): nil iff `e` is `io.EOF`, else `e`; and with
    any other error latched the whole reader stays as it is under every further Read and Close. -/
theorem C09_flate_close_result (r : Reader) :
    ((r.close).2 = none ↔ (r.err = none ∨ r.err = some .eof ∨ r.done = true)) ∧
    ((r.close).2 ≠ none → (r.close).2 = r.err) ∧
    (∀ n e, r.done = false → (r.read n).2.2 = some e →
      ((r.read n).1.close).2 = (if e = .eof then none else some e) ∧
      (e ≠ .eof → ∀ ops : List Op, (∀ op ∈ ops, op.noReset = true) →
        Reader.run (r.read n).1 ops = ((r.read n).1, ops.map (Compress.Proofs.FlateApi.stuckRes e)))) := by
  refine ⟨Compress.Proofs.FlateApi.close_nil_iff r, Compress.Proofs.FlateApi.close_returns_err r, ?_⟩
  intro n e hd h
  have hl := Compress.Proofs.FlateApi.read_latches r n e h
  have hd1 : (r.read n).1.done = false := hl.2.1.trans hd
  refine ⟨?_, fun hne ops hn => Compress.Proofs.FlateApi.failed_forever _ e hl.1 hd1 (hl.2.2.2 hd) hne ops hn⟩
  rw [Compress.Proofs.FlateApi.close_eq, hl.1, hd1]
  by_cases he : e = .eof
  · subst he; simp
  · simp [he]

open Compress.Flate.Api in
/-- **flate.Reader, I/O errors verbatim (error identity).** Over a source that fails with the error
    `t`, no Read and no Close ever reports `io.ErrUnexpectedEOF`, and a source error that is reported
    is `t` itself; over a source that does not fail no source error is reported. -/
theorem C09_flate_io_error_identity (r : Reader) (n : Nat) :
    (∀ t, r.tag = some t → (r.read n).2.2 ≠ some .unexpectedEOF ∧ (r.close).2 ≠ some .unexpectedEOF) ∧
    (∀ t', (r.read n).2.2 = some (.other t') ∨ (r.close).2 = some (.other t') → r.tag = some t') := by
  have key : ∀ x : Flate.Impl.FErr, (∀ t, r.tag = some t → liftErr r.tag x ≠ .unexpectedEOF) ∧
      (∀ t', liftErr r.tag x = .other t' → r.tag = some t') := by
    intro x
    cases x <;> cases ht : r.tag <;> simp [liftErr]
  have hread : ∀ e, (r.read n).2.2 = some e → e = .closed ∨ ∃ x, e = liftErr r.tag x := by
    intro e h
    by_cases hd : r.done = true
    · rw [Compress.Proofs.FlateApi.read_done r hd] at h; cases h; exact Or.inl rfl
    · have hd : r.done = false := by simpa using hd
      rw [Compress.Proofs.FlateApi.read_open r hd] at h
      simp only at h
      cases hx : (Flate.Impl.read (readFuel r.core) r.core n).2.2 with
      | none => rw [hx] at h; cases h
      | some x => rw [hx] at h; simp at h; exact Or.inr ⟨x, h.symm⟩
  have hclose : ∀ e, (r.close).2 = some e → e = .closed ∨ ∃ x, e = liftErr r.tag x := by
    intro e h
    have h2 := Compress.Proofs.FlateApi.close_returns_err r (by rw [h]; simp)
    rw [h] at h2
    unfold Reader.err at h2
    split at h2
    · cases h2; exact Or.inl rfl
    · cases hx : r.core.err with
      | none => rw [hx] at h2; cases h2
      | some x => rw [hx] at h2; simp at h2; exact Or.inr ⟨x, h2⟩
  refine ⟨fun t ht => ⟨fun h => ?_, fun h => ?_⟩, fun t' h => ?_⟩
  · rcases hread _ h with h1 | ⟨x, h1⟩
    · cases h1
    · exact (key x).1 t ht h1.symm
  · rcases hclose _ h with h1 | ⟨x, h1⟩
    · cases h1
    · exact (key x).1 t ht h1.symm
  · rcases h with h | h
    · rcases hread _ h with h1 | ⟨x, h1⟩
      · cases h1
      · exact (key x).2 t' h1.symm
    · rcases hclose _ h with h1 | ⟨x, h1⟩
      · cases h1
      · exact (key x).2 t' h1.symm

open Compress.Brotli.Api in
/-- **brotli.Reader, sticky** (`sd`: the static dictionary). Once a Read has returned an error `e` - whatever the state it was
    called in - every later Read returns no data and `e` and changes nothing, for any number of
    Reads (until Close or Reset). -/
theorem C09_brotli_api_sticky (sd : ByteArray) (r : Reader) (n : Nat) (e : AErr) (h : (r.read sd n).2.2 = some e) (ns : List Nat) :
    (∀ m, (r.read sd n).1.read sd m = ((r.read sd n).1, [], some e)) ∧
    Reader.run sd (r.read sd n).1 (ns.map .read) = ((r.read sd n).1, ns.map (fun _ => .read [] (some e))) := by
  have hl := Compress.Proofs.BrotliApi.read_latches sd r n e h
  have hs : ∀ m, (r.read sd n).1.read sd m = ((r.read sd n).1, [], some e) := by
    intro m
    by_cases hd : r.done = true
    · have := Compress.Proofs.BrotliApi.read_done sd r hd n
      rw [this] at h ⊢
      cases h
      exact Compress.Proofs.BrotliApi.read_done sd r hd m
    · have hd : r.done = false := by simpa using hd
      exact Compress.Proofs.BrotliApi.read_sticky sd _ e hl.1 (hl.2.1.trans hd) (hl.2.2.2 hd) m
  refine ⟨hs, ?_⟩
  induction ns with
  | nil => rfl
  | cons a ns ih => simp only [List.map_cons, Reader.run, Reader.step, hs a, ih]

open Compress.Brotli.Api in
/-- **brotli.Reader, Close.** What `Close` returns, exactly: nil iff nothing is latched, or `io.EOF`
    is latched, or the reader is closed already; otherwise the latched error itself.  After a Read
    that returned `e` (on a reader that was not closed): nil iff `e` is `io.EOF`, else `e`; and with
    any other error latched the whole reader stays as it is under every further Read and Close. -/
theorem C09_brotli_close_result (sd : ByteArray) (r : Reader) :
    ((r.close).2 = none ↔ (r.err = none ∨ r.err = some .eof ∨ r.done = true)) ∧
    ((r.close).2 ≠ none → (r.close).2 = r.err) ∧
    (∀ n e, r.done = false → (r.read sd n).2.2 = some e →
      ((r.read sd n).1.close).2 = (if e = .eof then none else some e) ∧
      (e ≠ .eof → ∀ ops : List Op, (∀ op ∈ ops, op.noReset = true) →
        Reader.run sd (r.read sd n).1 ops = ((r.read sd n).1, ops.map (Compress.Proofs.BrotliApi.stuckRes e)))) := by
  refine ⟨Compress.Proofs.BrotliApi.close_nil_iff r, Compress.Proofs.BrotliApi.close_returns_err r, ?_⟩
  intro n e hd h
  have hl := Compress.Proofs.BrotliApi.read_latches sd r n e h
  have hd1 : (r.read sd n).1.done = false := hl.2.1.trans hd
  refine ⟨?_, fun hne ops hn => Compress.Proofs.BrotliApi.failed_forever sd _ e hl.1 hd1 (hl.2.2.2 hd) hne ops hn⟩
  rw [Compress.Proofs.BrotliApi.close_eq, hl.1, hd1]
  by_cases he : e = .eof
  · subst he; simp
  · simp [he]

open Compress.Brotli.Api in
/-- **brotli.Reader, I/O errors verbatim (error identity).** Over a source that fails with the error
    `t`, no Read and no Close ever reports `io.ErrUnexpectedEOF`, and a source error that is reported
    is `t` itself; over a source that does not fail no source error is reported. -/
theorem C09_brotli_io_error_identity (sd : ByteArray) (r : Reader) (n : Nat) :
    (∀ t, r.tag = some t → (r.read sd n).2.2 ≠ some .unexpectedEOF ∧ (r.close).2 ≠ some .unexpectedEOF) ∧
    (∀ t', (r.read sd n).2.2 = some (.other t') ∨ (r.close).2 = some (.other t') → r.tag = some t') := by
  have key : ∀ x : Brotli.Impl.BErr, (∀ t, r.tag = some t → liftErr r.tag x ≠ .unexpectedEOF) ∧
      (∀ t', liftErr r.tag x = .other t' → r.tag = some t') := by
    intro x
    cases x <;> cases ht : r.tag <;> simp [liftErr]
  have hread : ∀ e, (r.read sd n).2.2 = some e → e = .closed ∨ ∃ x, e = liftErr r.tag x := by
    intro e h
    by_cases hd : r.done = true
    · rw [Compress.Proofs.BrotliApi.read_done sd r hd] at h; cases h; exact Or.inl rfl
    · have hd : r.done = false := by simpa using hd
      rw [Compress.Proofs.BrotliApi.read_open sd r hd] at h
      simp only at h
      cases hx : (Brotli.Impl.read sd (readFuel r.core) r.core n).2.2 with
      | none => rw [hx] at h; cases h
      | some x => rw [hx] at h; simp at h; exact Or.inr ⟨x, h.symm⟩
  have hclose : ∀ e, (r.close).2 = some e → e = .closed ∨ ∃ x, e = liftErr r.tag x := by
    intro e h
    have h2 := Compress.Proofs.BrotliApi.close_returns_err r (by rw [h]; simp)
    rw [h] at h2
    unfold Reader.err at h2
    split at h2
    · cases h2; exact Or.inl rfl
    · cases hx : r.core.err with
      | none => rw [hx] at h2; cases h2
      | some x => rw [hx] at h2; simp at h2; exact Or.inr ⟨x, h2⟩
  refine ⟨fun t ht => ⟨fun h => ?_, fun h => ?_⟩, fun t' h => ?_⟩
  · rcases hread _ h with h1 | ⟨x, h1⟩
    · cases h1
    · exact (key x).1 t ht h1.symm
  · rcases hclose _ h with h1 | ⟨x, h1⟩
    · cases h1
    · exact (key x).1 t ht h1.symm
  · rcases h with h | h
    · rcases hread _ h with h1 | ⟨x, h1⟩
      · cases h1
      · exact (key x).2 t' h1.symm
    · rcases hclose _ h with h1 | ⟨x, h1⟩
      · cases h1
      · exact (key x).2 t' h1.symm

open Compress.Bzip2.ReaderApi in
/-- **bzip2.Reader, sticky.** In every reachable state: a Read that returns an error `e` returns no
    data with it, and every later Read returns no data and `e` and changes nothing. -/
theorem C09_bzip2_api_sticky (src : Src) (ops : List Op) (n : Nat) (e : AErr) (ns : List Nat) :
    let r := (Reader.run (newReader src) ops).1
    (r.read n).2.2 = some e →
      (r.read n).2.1 = [] ∧ (∀ m, (r.read n).1.read m = ((r.read n).1, [], some e)) ∧
      Reader.run (r.read n).1 (ns.map .read) = ((r.read n).1, ns.map (fun _ => .read [] (some e))) := by
  intro r h
  have hi : Compress.Proofs.BzReaderApi.Inv r :=
    Compress.Proofs.BzReaderApi.inv_run _ (Compress.Proofs.BzReaderApi.inv_new src) ops
  have hs : (r.read n).2.1 = [] ∧ ∀ m, (r.read n).1.read m = ((r.read n).1, [], some e) := by
    by_cases hd : r.done = true
    · have := Compress.Proofs.BzReaderApi.read_done r hd n
      rw [this] at h ⊢
      cases h
      exact ⟨rfl, fun m => Compress.Proofs.BzReaderApi.read_done r hd m⟩
    · have hd : r.done = false := by simpa using hd
      obtain ⟨h1, h2, _⟩ := Compress.Proofs.BzReaderApi.read_sticks r hi hd n e h
      exact ⟨h1, h2.2.2⟩
  refine ⟨hs.1, hs.2, ?_⟩
  induction ns with
  | nil => rfl
  | cons a ns ih => simp only [List.map_cons, Reader.run, Reader.step, hs.2 a, ih]

open Compress.Bzip2.ReaderApi in
/-- **bzip2.Reader, Close.** nil iff nothing is latched, `io.EOF` is latched, or the reader is closed
    already; otherwise the latched error itself, and nothing changes.  After a Read that returned `e`
    (reader not closed): nil iff `e` is `io.EOF`, else `e`; with any other error the reader stays as it
    is under every further Read and Close. -/
theorem C09_bzip2_close_result (src : Src) (ops : List Op) :
    let r := (Reader.run (newReader src) ops).1
    ((r.close).2 = none ↔ (r.err = none ∨ r.err = some .eof ∨ r.done = true)) ∧
    ((r.close).2 ≠ none → r.close = (r, r.err)) ∧
    (∀ n e, r.done = false → (r.read n).2.2 = some e →
      ((r.read n).1.close).2 = (if e = .eof then none else some e) ∧
      (e ≠ .eof → ∀ ops' : List Op, (∀ op ∈ ops', op.noReset = true) →
        Reader.run (r.read n).1 ops' = ((r.read n).1, ops'.map (Compress.Proofs.BzReaderApi.stuckRes e)))) := by
  intro r
  have hi : Compress.Proofs.BzReaderApi.Inv r :=
    Compress.Proofs.BzReaderApi.inv_run _ (Compress.Proofs.BzReaderApi.inv_new src) ops
  refine ⟨Compress.Proofs.BzReaderApi.close_nil_iff r, Compress.Proofs.BzReaderApi.close_returns_err r, ?_⟩
  intro n e hd h
  obtain ⟨_, hst, _⟩ := Compress.Proofs.BzReaderApi.read_sticks r hi hd n e h
  refine ⟨?_, fun hne ops' hn => Compress.Proofs.BzReaderApi.failed_forever _ e hst hne ops' hn⟩
  rw [Compress.Proofs.BzReaderApi.close_eq, hst.2.1, hst.1]
  by_cases he : e = .eof
  · subst he; simp
  · simp [he]

open Compress.Bzip2.ReaderApi in
/-- **bzip2.Reader, I/O errors verbatim (error identity).** Over a source that fails with the error
    `t` no Read reports `io.ErrUnexpectedEOF` or `io.EOF` (the reader never learnt that the input was
    over), and a source error that is reported is `t` itself. -/
theorem C09_bzip2_io_error_identity (r : Reader) (n : Nat) :
    (∀ t, r.tag = some t → (r.read n).2.2 ≠ some .unexpectedEOF ∧ (r.read n).2.2 ≠ some .eof) ∧
    (∀ t', (r.read n).2.2 = some (.other t') → r.tag = some t') := by
  have key : ∀ x : Bzip2.Impl.Err, (∀ t, r.tag = some t → liftErr r.tag x ≠ .unexpectedEOF ∧ liftErr r.tag x ≠ .eof) ∧
      (∀ t', liftErr r.tag x = .other t' → r.tag = some t') := by
    intro x
    cases x <;> cases ht : r.tag <;> simp [liftErr]
  have hread : ∀ e, (r.read n).2.2 = some e → e = .closed ∨ ∃ x, e = liftErr r.tag x := by
    intro e h
    by_cases hd : r.done = true
    · rw [Compress.Proofs.BzReaderApi.read_done r hd] at h; cases h; exact Or.inl rfl
    · have hd : r.done = false := by simpa using hd
      rw [Compress.Proofs.BzReaderApi.read_open r hd] at h
      simp only at h
      cases hx : (Bzip2.Impl.read (Bzip2.Impl.readFuel r.core) n r.core).2.2 with
      | none => rw [hx] at h; cases h
      | some x => rw [hx] at h; simp at h; exact Or.inr ⟨x, h.symm⟩
  refine ⟨fun t ht => ⟨fun h => ?_, fun h => ?_⟩, fun t' h => ?_⟩
  · rcases hread _ h with h1 | ⟨x, h1⟩
    · cases h1
    · exact ((key x).1 t ht).1 h1.symm
  · rcases hread _ h with h1 | ⟨x, h1⟩
    · cases h1
    · exact ((key x).1 t ht).2 h1.symm
  · rcases hread _ h with h1 | ⟨x, h1⟩
    · cases h1
    · exact (key x).2 t' h1.symm

end api

section apiRefine
open Compress.Flate.Api Compress.Proofs.FlateRefine in
/-- **flate.Reader, I/O errors verbatim.** The source delivers the first `k` bytes of `data` and then
    fails with the error `t`.  From ANY earlier state `r0`, after Reset onto that source every Read
    schedule delivers exactly what RFC 1951 decodes from those `k` bytes and ends with: `io.EOF` if the
    stream ended before the fault position, a Corrupted error if it is invalid before it, and in
    every other case exactly the injected error `t` - never `io.ErrUnexpectedEOF`, never Corrupted in
    its place.  The error is latched (`Close` returns it, `C09_flate_close_result`). -/
theorem C09_flate_io_error_verbatim (r0 : Reader) (data : List UInt8) (k t : Nat) (sched : List Nat)
    (hs : ∀ n, sched.getLast? = some n → 0 < n) :
    let src : Src := { data := data, fault := some (k, t) }
    let spec := Flate.decodeBits (Bits.ofBytes (data.take k))
    ∃ r', Reader.drive (runFuel src.bits sched) (r0.reset src) sched #[] =
        (spec.out, some (match spec.verdict with
                         | .ok _ => AErr.eof | .corrupt => AErr.corrupted | .unexpectedEOF => AErr.other t), r') ∧
      r'.err = some (match spec.verdict with
                     | .ok _ => AErr.eof | .corrupt => AErr.corrupted | .unexpectedEOF => AErr.other t) := by
  intro src spec
  obtain ⟨r', h1, h2, _⟩ := Compress.Proofs.FlateApi.reset_drive_spec r0 src sched hs
  have e : liftErr src.tag (errOf (Flate.decodeBits src.bits).verdict) =
      (match spec.verdict with | .ok _ => AErr.eof | .corrupt => AErr.corrupted | .unexpectedEOF => AErr.other t) := by
    show liftErr (some t) (errOf spec.verdict) = _
    cases spec.verdict <;> rfl
  rw [e] at h1 h2
  exact ⟨r', h1, h2⟩

open Compress.Flate.Api Compress.Proofs.FlateRefine in
/-- ... and if `data` is a valid stream (accepted with `n` bits consumed) and the fault lies inside
    it, the run ends with exactly the injected error and the bytes delivered before it are a prefix
    of the fault-free output. -/
theorem C09_flate_io_error_prefix (r0 : Reader) (data : List UInt8) (out : Array UInt8) (n k t : Nat)
    (hv : Flate.decodeBits (Bits.ofBytes data) = { out := out, verdict := .ok n }) (hk : 8 * k < n)
    (sched : List Nat) (hs : ∀ n, sched.getLast? = some n → 0 < n) :
    let src : Src := { data := data, fault := some (k, t) }
    ∃ r' got, Reader.drive (runFuel src.bits sched) (r0.reset src) sched #[] = (got, some (.other t), r') ∧
      got.toList <+: out.toList ∧ r'.err = some (.other t) := by
  intro src
  obtain ⟨r', h1, h2⟩ := C09_flate_io_error_verbatim r0 data k t sched hs
  have hc := Compress.Proofs.FlatePrefix.decodeBits_cut (Bits.ofBytes data) out n hv (8 * k) hk (by omega)
  rw [← Compress.Proofs.FlatePrefix.ofBytes_take] at hc
  simp only [hc.1] at h1 h2
  exact ⟨r', _, h1, hc.2, h2⟩

end apiRefine

open Compress.Bzip2.ReaderApi Compress.Proofs.BzImpl in
/-- **bzip2.Reader, I/O errors verbatim.** The source delivers the first `k` bytes of `data` and then
    fails with the error `t`.  Whatever error any sequence of Reads on a new (or Reset) reader
    returns, it is: exactly `t` if those `k` bytes are a complete valid input (the reader looks for a
    following stream and is answered with `t`: never `io.EOF`); `t` - or Corrupted, where the Go
    reader rejects an unassigned code word before the input runs out (`ErrRel.early`, C03) - if the
    format specification runs out of input on them; Corrupted / Deprecated if it rejects them.  Never
    `io.ErrUnexpectedEOF`, never `io.EOF`. -/
theorem C09_bzip2_io_error_verbatim (r0 : Reader) (data : List UInt8) (k t : Nat) (ns : List Nat) :
    let src : Src := { data := data, fault := some (k, t) }
    let s := Bzip2.decode (data.take k)
    ∀ x ∈ (Reader.run (r0.reset src) (ns.map .read)).2, ∀ out e, x = .read out (some e) →
      (s.verdict = .ok → e = .other t) ∧
      (s.verdict = .unexpectedEOF → e = .other t ∨ e = .corrupted) ∧
      (s.verdict = .corrupt → e = .corrupted) ∧
      (s.verdict = .deprecated → e = .deprecated) ∧
      e ≠ .eof ∧ e ≠ .unexpectedEOF := by
  intro src s x hx out e hxe
  have hf := Compress.Proofs.BzReaderApi.reads_final (r0.reset src)
    (Compress.Proofs.BzReaderApi.inv_reset r0 src) rfl ns x hx out e hxe
  have hb := beh_init_spec (tablesAgree_of_degenerate tables_agree_degenerate) (data.take k)
  simp only at hb
  obtain ⟨_, hb2, hb3⟩ := hb
  have hcore : (r0.reset src).core = Bzip2.Impl.init (Bits.ofBytesMSB (data.take k)) := rfl
  have htag : (r0.reset src).tag = some t := rfl
  rw [hcore, htag] at hf
  generalize (beh (Bzip2.Impl.init (Bits.ofBytesMSB (data.take k)))).2 = b at hf hb2 hb3
  subst hf
  obtain ⟨v, hv'⟩ : ∃ v, s.verdict = v := ⟨_, rfl⟩
  rw [hv']
  rw [show (Bzip2.decode (data.take k)).verdict = v from hv'] at hb2 hb3
  clear hv'
  cases b with
  | eof =>
    have hv := hb2.1 rfl
    refine ⟨fun _ => rfl, fun h => ?_, fun h => ?_, fun h => ?_, (by simp [liftErr]), (by simp [liftErr])⟩ <;>
      (rw [hv] at h; cases h)
  | unexpectedEOF =>
    have hr := hb3 (by simp)
    cases hr
    refine ⟨fun h => (by cases h), fun _ => Or.inl rfl, fun h => (by cases h), fun h => (by cases h),
      (by simp [liftErr]), (by simp [liftErr])⟩
  | corrupted =>
    have hr := hb3 (by simp)
    refine ⟨fun h => ?_, fun _ => Or.inr rfl, fun _ => rfl, fun h => ?_, (by simp [liftErr]), (by simp [liftErr])⟩
    · rw [h] at hr; cases hr
    · rw [h] at hr; cases hr
  | deprecated =>
    have hr := hb3 (by simp)
    cases hr
    refine ⟨fun h => (by cases h), fun h => (by cases h), fun h => (by cases h), fun _ => rfl,
      (by simp [liftErr]), (by simp [liftErr])⟩

/-! non-vacuity (kernel-evaluated): the hypotheses of the API theorems are met by reachable states -
    a Read that returns `io.EOF`; a Read over a failing source that returns the injected error; a
    Close that returns nil with an error latched (`C18_flate_reader_closed`); a valid stream with a
    fault position inside it (`C09_flate_io_error_prefix`). -/
set_option maxRecDepth 100000 in
open Compress.Flate.Api in
example : ((newReader { data := [0x01, 0x00, 0x00, 0xff, 0xff] }).read 10).2.2 = some .eof := by decide
set_option maxRecDepth 100000 in
open Compress.Flate.Api in
example : ((newReader { data := [0x01, 0x00, 0x00, 0xff, 0xff], fault := some (2, 9) }).read 10).2.2 = some (.other 9) := by
  decide
set_option maxRecDepth 100000 in
open Compress.Flate.Api in
example : let r := ((newReader { data := [0x01, 0x00, 0x00, 0xff, 0xff] }).read 10).1
    (r.close).2 = none ∧ r.err ≠ none := by decide
set_option maxRecDepth 100000 in
example : (Flate.decodeBits (Bits.ofBytes [0x01, 0x00, 0x00, 0xff, 0xff])).out = #[] ∧
    (Flate.decodeBits (Bits.ofBytes [0x01, 0x00, 0x00, 0xff, 0xff])).verdict = .ok 40 ∧ 8 * 2 < 40 := by decide

/-! ### meta.Reader (API-level model `Meta/ReaderApi.lean`): every op sequence, every input, every fault -/

section metaReader
open Compress.Meta Compress.Proofs.MetaRApi

/-- **meta.Reader, sticky.** In the state reached by any op sequence on any source: once a
    Read has returned an error `e`, that Read delivered nothing; every later Read, whatever its
    buffer length, returns no data and `e` and changes nothing; and unless `e` is io.EOF (after
    which Close succeeds and the error becomes "closed") or the reader was closed already,
    Close returns `e` too and every sequence of Reads and Closes leaves the reader as it is,
    until Reset. -/
theorem C09_meta_reader_sticky (src : Src) (ops : List Meta.ROp) (n : Nat) (e : RErr)
    (h : ((MR.run (newMR src) ops).1.read n).2.2 = some e) :
    ((MR.run (newMR src) ops).1.read n).2.1 = [] ∧
    (∀ ns : List Nat, MR.run ((MR.run (newMR src) ops).1.read n).1 (ns.map .read) =
      (((MR.run (newMR src) ops).1.read n).1, ns.map (fun _ => RRes.read [] (some e)))) ∧
    (e ≠ .eof → e ≠ .closed → ∀ ops', noReset ops' →
      MR.run ((MR.run (newMR src) ops).1.read n).1 ops' =
        (((MR.run (newMR src) ops).1.read n).1, ops'.map (stuckRes e))) :=
  Compress.Proofs.MetaRApi.C09_meta_reader_sticky_proof src ops n e h

/-- **meta.Reader, Close.** In the state `s` reached by any op sequence on any source, Close
    returns nil exactly when no error is latched, or the latched error is io.EOF, or the reader
    is closed already (so NOT only after io.EOF: a reader that has not failed closes with nil
    wherever it stands in the stream - see the example below); otherwise it returns the latched
    error and changes nothing.  A nil Close leaves the reader closed. -/
theorem C09_meta_reader_close (src : Src) (ops : List Meta.ROp) :
    let s := (MR.run (newMR src) ops).1
    (s.close.2 = none ↔ (s.err = none ∨ s.err = some .eof ∨ s.err = some .closed)) ∧
    (∀ e, s.close.2 = some e → s.close.1 = s ∧ s.err = some e ∧ e ≠ .eof) ∧
    (s.close.2 = none → s.close.1.done = true ∧ s.close.1.err = some .closed) :=
  Compress.Proofs.MetaRApi.C09_meta_reader_close_proof src ops

/-- **meta.Reader, I/O errors verbatim.** In the state `s` reached by any op sequence: a
    source error a Read returns is the error of the source handed to the last Reset
    (NewReader), unchanged; over a source with a pending fault Read never reports
    io.ErrUnexpectedEOF, and reports io.EOF only for a block with a final bit; and whenever
    the bytes such a source hands out end at a block boundary or inside a block, Read returns
    exactly the source's error, with no data. -/
theorem C09_meta_reader_io_error_verbatim (src : Src) (ops : List Meta.ROp) (n : Nat) :
    let s := (MR.run (newMR src) ops).1
    (∀ t, (s.read n).2.2 = some (.fault t) → (lastSrc src ops).tag = some t) ∧
    ((s.read n).2.2 = some .ueof → (lastSrc src ops).tag = none) ∧
    ((s.read n).2.2 = some .eof → (lastSrc src ops).tag = none ∨ (s.read n).1.final ≠ .fnil) ∧
    (∀ t, s.err = none → s.buf = [] → s.final = .fnil → (lastSrc src ops).tag = some t →
      (decodeBlock s.rest = .error .eof ∨ decodeBlock s.rest = .error .unexpectedEOF) →
      (s.read (n + 1)).2.2 = some (.fault t) ∧ (s.read (n + 1)).2.1 = []) :=
  Compress.Proofs.MetaRApi.C09_meta_reader_io_error_verbatim_proof src ops n

-- Close returns nil on a reader that has read nothing of a non-empty input
example : (newMR { data := [1, 2, 3] }).close.2 = none := by decide
-- a fault at byte 2 of a 3-byte input: Read returns the source's error (tag 9), not io.ErrUnexpectedEOF
example : ((newMR { data := [4, 0, 134], fault := some (2, 9) }).read 5).2.2 = some (.fault 9) := by decide
-- and without the fault the same cut input gives io.ErrUnexpectedEOF
example : ((newMR { data := [4, 0] }).read 5).2.2 = some .ueof := by decide

-- non-vacuity: a source that fails after the last byte of a final block is never asked again
set_option maxRecDepth 100000 in
example :
    (MR.run (newMR { data := [4, 192, 134, 5, 0, 32, 41, 100, 20, 161, 20, 234, 255, 235, 218, 123, 251], fault := some (17, 9) })
      [.read 2, .read 2, .read 2, .close]).2 =
    [.read [0x61, 0x62] none, .read [0x63] none, .read [] (some .eof), .close none] := by
  decide
-- a fault inside the block: the error verbatim, sticky, reported by Close; Reset (onto an empty source) = fresh
set_option maxRecDepth 100000 in
example :
    (MR.run (newMR { data := [4, 192, 134, 5, 0, 32, 41, 100, 20, 161, 20, 234, 255, 235, 218, 123, 251], fault := some (16, 9) })
      [.read 2, .close, .read 1, .reset {}, .read 1, .close, .close, .read 1]).2 =
    [.read [] (some (.fault 9)), .close (some (.fault 9)), .read [] (some (.fault 9)), .reset, .read [] (some .eof),
     .close none, .close none, .read [] (some .closed)] := by
  decide

end metaReader

end Compress.Props.C09
