/-
C09 — failure contract: classified, sticky, surfaced by Close, I/O errors verbatim.

* classification: regenerated facts about every error site of /repo
  (`Compress.Facts.Sites`) + the verdict theorems of the specifications;
* "a valid stream cut short at any byte fails with exactly io.ErrUnexpectedEOF":
  proved for DEFLATE and bzip2 on the specifications, tied to the Go readers by
  C01 (refinement) and the bz correspondence; Brotli: sweep only;
* sticky + Close: direct lemmas on the Reader models (xflate, flate, bzip2 - the
  bzip2.Reader model has sticky and the cut theorem, Close is swept);
  the other Readers: sweep (family life).
Property theorems only.
-/
import Compress.Facts.Sites
import Compress.Proofs.Sticky
import Compress.Proofs.FlatePrefix
import Compress.Proofs.FlateRefine
import Compress.Proofs.Bzip2Cut
import Compress.Proofs.BrotliCut
import Compress.Proofs.XFlateReader
import Compress.Proofs.BzImplCut

namespace Compress.Props.C09
open Compress Compress.XFlate

/-- every error site on a decoding path of /repo raises Corrupted or Deprecated (or is a
    listed, justified exception); regenerated from the source on every run. -/
theorem C09_error_sites_classified : Compress.Generated.errSites.all Compress.Facts.decodingOK = true :=
  Compress.Facts.errSites_classified

open Compress.Proofs.FlatePrefix Compress Compress.Flate in
/-- **A valid DEFLATE stream cut short at any byte** fails with exactly io.ErrUnexpectedEOF, having delivered only a prefix. -/
theorem C09_deflate_cut_is_ueof (bytes : List UInt8) (out : Array UInt8)
    (h : decode bytes = { out := out, verdict := .ok (8 * bytes.length) }) (k : Nat) (hk : k < bytes.length) :
    (decode (bytes.take k)).verdict = .unexpectedEOF ∧
    (decode (bytes.take k)).out.toList <+: out.toList :=
  Compress.Proofs.FlatePrefix.decode_cut bytes out h k hk

open Compress.Proofs.Bzip2Cut Compress Compress.Bzip2 Compress.Proofs.BzCut Compress.Proofs.BzRT in
/-- **A valid bzip2 input cut short at any byte** is never reported corrupt: io.ErrUnexpectedEOF, or success exactly at the end of one of its streams. -/
theorem C09_bzip2_cut_is_ueof (bytes : List UInt8) (out : Array UInt8)
    (h : decode bytes = { out := out, verdict := .ok }) (k : Nat) (hk : k < bytes.length) :
    (decode (bytes.take k)).out.toList <+: out.toList ∧
    ((decode (bytes.take k)).verdict = .unexpectedEOF ∨
      ((decode (bytes.take k)).verdict = .ok ∧ 0 < k ∧
        ∃ out2, decode (bytes.drop k) = { out := out2, verdict := .ok })) :=
  Compress.Proofs.Bzip2Cut.decode_cut bytes out h k hk

/-- flate.Reader ends with `io.EOF`, a Corrupted error or `io.ErrUnexpectedEOF` - nothing else -
    and with the one that matches the specification's verdict. -/
theorem C09_flate_classes (bytes : List UInt8) (sched : List Nat)
    (hs : ∀ n, sched.getLast? = some n → 0 < n) :
    (Flate.Impl.run (Compress.Proofs.FlateRefine.runFuel (Bits.ofBytes bytes) sched)
        (Flate.Impl.init (Bits.ofBytes bytes)) sched).2.1 =
      some (Compress.Proofs.FlateRefine.errOf (Flate.decodeBits (Bits.ofBytes bytes)).verdict) :=
  (Compress.Proofs.FlateRefine.impl_refines_spec bytes sched hs).2.1

open Compress.Proofs.Sticky Compress Compress.XFlate Compress.Flate.Impl in
/-- **Sticky.** xflate.Reader: with an error latched every later Read returns no data and the same error. -/
theorem C09_xflate_sticky (L : Layout) (s : RState) (e : Err) (h : s.err = some e) (n : Nat) (adv : Adv) (fuel : Nat) :
    read .fixed L s n adv fuel = some (s, [], some e) :=
  Compress.Proofs.Sticky.xr_read_sticky L s e h n adv fuel

open Compress.Proofs.Sticky Compress Compress.XFlate Compress.Flate.Impl in
/-- **Close** returns nil only if that error was io.EOF (or the reader was closed already). -/
theorem C09_xflate_close (s : RState) (e : Err) (h : s.err = some e) :
    (close s).2 = none ↔ (e = .eof ∨ e = .closed) :=
  Compress.Proofs.Sticky.xr_close_reports s e h

open Compress.Proofs.Sticky Compress Compress.XFlate Compress.Flate.Impl in
/-- a Seek does not clear a latched failure. -/
theorem C09_xflate_seek_keeps (L : Layout) (s : RState) (e : Err) (h : s.err = some e) (he : e ≠ .eof)
    (off : Int) (wh : Nat) : seek .fixed L s off wh = (s, 0, some e) :=
  Compress.Proofs.Sticky.xr_seek_keeps_error L s e h he off wh

open Compress.Proofs.Sticky Compress Compress.XFlate Compress.Flate.Impl in
/-- flate.Reader: with the error latched and pending output drained, every Read returns no data and the same error. -/
theorem C09_flate_sticky (s : FState) (e : FErr) (h : s.err = some e) (hd : s.toRead = []) (fuel n : Nat) :
    Compress.Flate.Impl.read (fuel + 1) s n = (s, [], some e) :=
  Compress.Proofs.Sticky.flate_read_sticky s e h hd fuel n

open Compress.Proofs.BrotliCut Compress Compress.Brotli Compress.Proofs.BrCut in
/-- **A valid Brotli stream cut short at any byte** fails with exactly io.ErrUnexpectedEOF on the specification (brotli.Reader is tied to the specification by the brd correspondence, which compares the reject class on cuts of valid streams). -/
theorem C09_brotli_cut_is_ueof (dict : ByteArray) (bytes : List UInt8) (out : Array UInt8) (n : Nat)
    (h : decode dict bytes = { out := out, verdict := .ok n }) (k : Nat) (hk : 8 * k < n) :
    (decode dict (bytes.take k)).verdict = .unexpectedEOF ∧
    (decode dict (bytes.take k)).out.toList <+: out.toList :=
  Compress.Proofs.BrotliCut.decode_cut dict bytes out n h k hk

open Compress.Proofs.BzImpl in
/-- **bzip2.Reader, sticky.** Once a Read of the reader model has returned an error, every later
    Read, whatever its buffer length, returns no data and the same error, and leaves the reader
    unchanged. -/
theorem C09_bzip2_sticky (bytes : List UInt8) (sched : List Nat) (e : Bzip2.Impl.Err)
    (h : (Bzip2.Impl.run bytes sched).err = some e) (m : Nat) :
    Bzip2.Impl.read (Bzip2.Impl.readFuel (Bzip2.Impl.run bytes sched).final) m (Bzip2.Impl.run bytes sched).final =
      ((Bzip2.Impl.run bytes sched).final, [], some e) :=
  (refines_of_tables tables_agree bytes sched).sticky e h m

open Compress.Proofs.BzImpl in
/-- **bzip2.Reader, a valid stream cut short at any byte**: under every Read schedule the reader
    model delivers a prefix of the full output and fails with exactly io.ErrUnexpectedEOF (or ends
    with io.EOF where the cut is the end of one of the concatenated streams). -/
theorem C09_bzip2_reader_cut_is_ueof (bytes : List UInt8) (out : Array UInt8)
    (h : Bzip2.decode bytes = { out := out, verdict := .ok }) (k : Nat) (hk : k < bytes.length)
    (sched : List Nat) :
    (Bzip2.Impl.run (bytes.take k) sched).delivered <+: out.toList ∧
    ∀ e, (Bzip2.Impl.run (bytes.take k) sched).err = some e →
      e = .unexpectedEOF ∨
      (e = .eof ∧ 0 < k ∧ ∃ out2, Bzip2.decode (bytes.drop k) = { out := out2, verdict := .ok }) :=
  cut_class bytes out h k hk sched

end Compress.Props.C09
