/-
C02 — Brotli decoding is exactly RFC 7932 (brotli.Reader).

There is no Lean model of the Brotli format.  What is proved here concerns the
components brotli.Reader shares with the modelled code; agreement with
libbrotlidec is a differential sweep (family brd).  Property theorems only.
-/
import Compress.Proofs.Window
import Compress.Proofs.BitIO
import Compress.Proofs.PrefixTables

namespace Compress.Props.C02
open Compress

open Compress.Proofs.Window Compress.Window in
/-- brotli's dictDecoder (the model covers both copies; brotli uses the variant without TryWriteCopy's fast path too): for every window size, every previous capacity and every legal sequence of literals and copies the bytes handed out are the append-only LZ77 output. -/
theorem C02_window (useTry : Bool) (size prevCap : Nat) (hs : 1 ≤ size) (ops : List Op)
    (hl : Legal size [] ops) :
    (runAll useTry size prevCap ops).1 = specRun [] ops :=
  Compress.Proofs.Window.window_refines useTry size prevCap hs ops hl

open Compress.Proofs.BitIO Compress Compress.Prefix in
/-- the bit reader under brotli.Reader returns the plain bit fields for every source shape. -/
theorem C02_bitreader (data : List UInt8) (big buffered : Bool) (adv : List Nat) (ns : List Nat)
    (hn : ∀ n ∈ ns, n ≤ 56) :
    readScript (BR.init { data := data, bufAdv := adv, buffered? := buffered } big) ns =
      specReadScript (streamBits big data) ns :=
  Compress.Proofs.BitIO.reader_refines data big buffered adv ns hn

open Compress.Proofs.PrefixTables Compress Compress.Prefix in
/-- the two-level table decoder returns the unique code that prefixes the stream. -/
theorem C02_prefix_decoder (cs : List Code) (h : GoodCodes cs) (c : Code) (hc : c ∈ cs) (rest : Bits) :
    (Decoder.init cs).readSymbol (c.word ++ rest) = some (c.sym, rest) :=
  Compress.Proofs.PrefixTables.decoder_readSymbol cs h c hc rest

end Compress.Props.C02
