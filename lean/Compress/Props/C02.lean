/-
C02 — Brotli decoding is exactly RFC 7932 (brotli.Reader).

`Compress.Brotli.Spec` is an executable reading of RFC 7932 (static dictionary as
a parameter, loaded from /repo on every run), validated on every run against
libbrotlidec AND brotli.Reader: verdict, output length and hash for every input of
family brd, reject class on cuts of valid streams, and the 121 dictionary
transforms against Go's transformWord.  There is no Go-shaped model of
brotli.Reader's control flow, so unlike C01 there is no refinement theorem: the
tie "brotli.Reader = specification" is a correspondence.  What is proved: the
components brotli.Reader shares with modelled code, and sanity theorems that pin
the specification's tables and its behaviour on the smallest streams.
Property theorems only.
-/
import Compress.Proofs.Window
import Compress.Proofs.BitIO
import Compress.Proofs.PrefixTables
import Compress.Proofs.BrotliSpec
import Compress.Proofs.BrotliCut

namespace Compress.Props.C02
open Compress

open Compress.Proofs.Window Compress.Window in
/-- brotli's dictDecoder: for every window size, every previous capacity and every legal sequence of literals and copies the bytes handed out are the append-only LZ77 output. -/
theorem C02_window (useTry : Bool) (size prevCap : Nat) (hs : 1 ≤ size) (ops : List Op)
    (hl : Legal size [] ops) :
    (runAll useTry size prevCap ops).1 = specRun [] ops :=
  Compress.Proofs.Window.window_refines useTry size prevCap hs ops hl

open Compress.Proofs.BitIO Compress Compress.Prefix in
/-- the bit reader under brotli.Reader returns the plain bit fields for every source shape. -/
theorem C02_bitreader (data : List UInt8) (big buffered : Bool) (adv : List Nat) (ns : List Nat)
    (hn : ∀ n ∈ ns, n ≤ 56) :
    readScript (BR.init { data := data, bufAdv := adv, buffered? := buffered } big) ns =
      specReadScript (streamBits big data) ns :=
  Compress.Proofs.BitIO.reader_refines data big buffered adv ns hn

open Compress.Proofs.PrefixTables Compress Compress.Prefix in
/-- the two-level table decoder returns the unique code that prefixes the stream. -/
theorem C02_prefix_decoder (cs : List Code) (h : GoodCodes cs) (c : Code) (hc : c ∈ cs) (rest : Bits) :
    (Decoder.init cs).readSymbol (c.word ++ rest) = some (c.sym, rest) :=
  Compress.Proofs.PrefixTables.decoder_readSymbol cs h c hc rest

open Compress.Brotli.Proofs Compress Compress.Brotli in
/-- specification: the empty input is an unexpected end, not a stream. -/
theorem C02_spec_empty (dict : ByteArray) : decode dict [] = ⟨#[], .unexpectedEOF⟩ :=
  Compress.Brotli.Proofs.decode_nil dict

open Compress.Brotli.Proofs Compress Compress.Brotli in
/-- specification: the one-byte stream 0x06 (ISLAST, ISLASTEMPTY) is complete with empty output, whatever follows it and whatever the dictionary. -/
theorem C02_spec_last_empty (dict : ByteArray) (trailing : List UInt8) :
    decode dict (0x06 :: trailing) = ⟨#[], .ok 8⟩ :=
  Compress.Brotli.Proofs.decode_lastEmpty dict trailing

open Compress.Brotli.Proofs Compress Compress.Brotli in
/-- specification: the reserved WBITS pattern is rejected. -/
theorem C02_spec_reserved_wbits (dict : ByteArray) (trailing : List UInt8) :
    decode dict (0x11 :: trailing) = ⟨#[], .corrupt⟩ :=
  Compress.Brotli.Proofs.decode_reservedWindowBits dict trailing

open Compress.Brotli.Proofs Compress Compress.Brotli in
/-- the transform table has the 121 entries of RFC 7932 appendix B. -/
theorem C02_spec_transforms  : transforms.size = 121 :=
  Compress.Brotli.Proofs.transforms_size 

open Compress.Brotli.Proofs Compress Compress.Brotli in
/-- the word-length tables account for exactly the 122,784 bytes of the static dictionary. -/
theorem C02_spec_dictionary_layout  : doffset 24 + 24 * nwords 24 = 122784 :=
  Compress.Brotli.Proofs.doffset_last 

open Compress.Brotli.Proofs Compress Compress.Brotli in
/-- a compressed meta-block evaluated by the kernel (cross-checked with libbrotlidec). -/
theorem C02_spec_compressed_example  :
    decode .empty [0x1b, 0x11, 0x00, 0x00, 0x24, 0xc3, 0xc4, 0xc6, 0x42, 0x9b, 0x20, 0xd2]
      = ⟨#[97, 98, 99, 97, 98, 99, 97, 98, 99, 97, 98, 99, 97, 98, 99, 97, 98, 99], .ok 96⟩ :=
  Compress.Brotli.Proofs.decode_compressed_abc 

open Compress.Proofs.BrotliCut Compress Compress.Brotli Compress.Proofs.BrCut in
/-- **Specification, cut streams (C09/C12 for Brotli).** A stream the specification accepts, cut at any byte before its end, ends with unexpected EOF - never success, never corrupt - and what was produced is a prefix of the full output. -/
theorem C02_spec_cut (dict : ByteArray) (bytes : List UInt8) (out : Array UInt8) (n : Nat)
    (h : decode dict bytes = { out := out, verdict := .ok n }) (k : Nat) (hk : 8 * k < n) :
    (decode dict (bytes.take k)).verdict = .unexpectedEOF ∧
    (decode dict (bytes.take k)).out.toList <+: out.toList :=
  Compress.Proofs.BrotliCut.decode_cut dict bytes out n h k hk

open Compress.Proofs.BrotliCut Compress Compress.Brotli Compress.Proofs.BrCut in
/-- **Specification, trailing bytes.** Whatever follows a complete stream does not change the result. -/
theorem C02_spec_trailing_ignored (dict : ByteArray) (bits ext : Bits) (out : Array UInt8) (n : Nat)
    (h : decodeBits dict bits = { out := out, verdict := .ok n }) :
    decodeBits dict (bits.take n ++ ext) = { out := out, verdict := .ok n } :=
  Compress.Proofs.BrotliCut.decodeBits_ext dict bits ext out n h

open Compress.Proofs.BrotliCut Compress Compress.Brotli Compress.Proofs.BrCut in
/-- the consumed count of an accepted stream lies within the input and is a whole number of bytes. -/
theorem C02_spec_consumed (dict : ByteArray) (bits : Bits) (out : Array UInt8) (n : Nat)
    (h8 : bits.length % 8 = 0)
    (h : decodeBits dict bits = { out := out, verdict := .ok n }) : n ≤ bits.length ∧ n % 8 = 0 :=
  Compress.Proofs.BrotliCut.consumed_bounds dict bits out n h8 h

end Compress.Props.C02
